import Dalek.IR.LimbSound
import Dalek.Gen.Norm.IfmaField
import Dalek.Proofs.IfmaField.Defs
/-!
# C11 — no lane overflow in the AVX512-IFMA vector field backend (property theorems, kernel level)

Statements are about `Dalek.Gen.IfmaField.*`: the LimbIR programs REGENERATED on every run from
`curve25519-dalek/src/backend/vector/ifma/field.rs` by lane scalarisation (an `F51x4… = [u64x4; 5]` is 20 u64 lanes;
`vpmadd52luq/huq` are translated as `z + lo52/hi52((x mod 2^52)(y mod 2^52))` with a checked 64-bit accumulation, so
`evalC` fails exactly when some u64 LANE would wrap).

The source states no numeric bounds; `docs/ifma-notes.md` requires multiplication / squaring inputs (`F51x4Reduced`) to
have limbs in `[0, 2^52)`.  Contracts: `Dalek.Model.Contracts.IfmaField.pre_<k>`.
For every kernel and every input inside its contract the lane-checked semantics `evalC` does not fail and agrees with
the wrapping semantics `evalW`, and the outputs satisfy the analysed post-condition `<k>_post`.
-/
namespace Dalek.Props.C11.Ifma
open Dalek.IR Dalek.Model.Contracts

theorem new_safe (ins : List Nat) (hin : EnvIn ins IfmaField.pre_new) :
    ∃ outs, Dalek.Gen.IfmaField.new.evalC ins = some outs ∧ Dalek.Gen.IfmaField.new.evalW ins = outs ∧
      EnvIn outs Dalek.Gen.Norm.IfmaField.new_post := by
  obtain ⟨outs, h1, h2, h3, _⟩ := Prog.norm_sound _ _ _ _ Dalek.Gen.Norm.IfmaField.new_norm_ok ins hin
  exact ⟨outs, h1, h2, h3⟩

theorem split_safe (ins : List Nat) (hin : EnvIn ins IfmaField.pre_split) :
    ∃ outs, Dalek.Gen.IfmaField.split.evalC ins = some outs ∧ Dalek.Gen.IfmaField.split.evalW ins = outs ∧
      EnvIn outs Dalek.Gen.Norm.IfmaField.split_post := by
  obtain ⟨outs, h1, h2, h3, _⟩ := Prog.norm_sound _ _ _ _ Dalek.Gen.Norm.IfmaField.split_norm_ok ins hin
  exact ⟨outs, h1, h2, h3⟩

theorem negate_lazy_safe (ins : List Nat) (hin : EnvIn ins IfmaField.pre_negate_lazy) :
    ∃ outs, Dalek.Gen.IfmaField.negate_lazy.evalC ins = some outs ∧ Dalek.Gen.IfmaField.negate_lazy.evalW ins = outs ∧
      EnvIn outs Dalek.Gen.Norm.IfmaField.negate_lazy_post := by
  obtain ⟨outs, h1, h2, h3, _⟩ := Prog.norm_sound _ _ _ _ Dalek.Gen.Norm.IfmaField.negate_lazy_norm_ok ins hin
  exact ⟨outs, h1, h2, h3⟩

theorem diff_sum_safe (ins : List Nat) (hin : EnvIn ins IfmaField.pre_diff_sum) :
    ∃ outs, Dalek.Gen.IfmaField.diff_sum.evalC ins = some outs ∧ Dalek.Gen.IfmaField.diff_sum.evalW ins = outs ∧
      EnvIn outs Dalek.Gen.Norm.IfmaField.diff_sum_post := by
  obtain ⟨outs, h1, h2, h3, _⟩ := Prog.norm_sound _ _ _ _ Dalek.Gen.Norm.IfmaField.diff_sum_norm_ok ins hin
  exact ⟨outs, h1, h2, h3⟩

theorem add_safe (ins : List Nat) (hin : EnvIn ins IfmaField.pre_add) :
    ∃ outs, Dalek.Gen.IfmaField.add.evalC ins = some outs ∧ Dalek.Gen.IfmaField.add.evalW ins = outs ∧
      EnvIn outs Dalek.Gen.Norm.IfmaField.add_post := by
  obtain ⟨outs, h1, h2, h3, _⟩ := Prog.norm_sound _ _ _ _ Dalek.Gen.Norm.IfmaField.add_norm_ok ins hin
  exact ⟨outs, h1, h2, h3⟩

theorem reduce_safe (ins : List Nat) (hin : EnvIn ins IfmaField.pre_reduce) :
    ∃ outs, Dalek.Gen.IfmaField.reduce.evalC ins = some outs ∧ Dalek.Gen.IfmaField.reduce.evalW ins = outs ∧
      EnvIn outs Dalek.Gen.Norm.IfmaField.reduce_post := by
  obtain ⟨outs, h1, h2, h3, _⟩ := Prog.norm_sound _ _ _ _ Dalek.Gen.Norm.IfmaField.reduce_norm_ok ins hin
  exact ⟨outs, h1, h2, h3⟩

theorem unreduce_safe (ins : List Nat) (hin : EnvIn ins IfmaField.pre_unreduce) :
    ∃ outs, Dalek.Gen.IfmaField.unreduce.evalC ins = some outs ∧ Dalek.Gen.IfmaField.unreduce.evalW ins = outs ∧
      EnvIn outs Dalek.Gen.Norm.IfmaField.unreduce_post := by
  obtain ⟨outs, h1, h2, h3, _⟩ := Prog.norm_sound _ _ _ _ Dalek.Gen.Norm.IfmaField.unreduce_norm_ok ins hin
  exact ⟨outs, h1, h2, h3⟩

theorem neg_safe (ins : List Nat) (hin : EnvIn ins IfmaField.pre_neg) :
    ∃ outs, Dalek.Gen.IfmaField.neg.evalC ins = some outs ∧ Dalek.Gen.IfmaField.neg.evalW ins = outs ∧
      EnvIn outs Dalek.Gen.Norm.IfmaField.neg_post := by
  obtain ⟨outs, h1, h2, h3, _⟩ := Prog.norm_sound _ _ _ _ Dalek.Gen.Norm.IfmaField.neg_norm_ok ins hin
  exact ⟨outs, h1, h2, h3⟩

theorem mul_safe (ins : List Nat) (hin : EnvIn ins IfmaField.pre_mul) :
    ∃ outs, Dalek.Gen.IfmaField.mul.evalC ins = some outs ∧ Dalek.Gen.IfmaField.mul.evalW ins = outs ∧
      EnvIn outs Dalek.Gen.Norm.IfmaField.mul_post := by
  obtain ⟨outs, h1, h2, h3, _⟩ := Prog.norm_sound _ _ _ _ Dalek.Gen.Norm.IfmaField.mul_norm_ok ins hin
  exact ⟨outs, h1, h2, h3⟩

theorem mul_consts_safe (ins : List Nat) (hin : EnvIn ins IfmaField.pre_mul_consts) :
    ∃ outs, Dalek.Gen.IfmaField.mul_consts.evalC ins = some outs ∧ Dalek.Gen.IfmaField.mul_consts.evalW ins = outs ∧
      EnvIn outs Dalek.Gen.Norm.IfmaField.mul_consts_post := by
  obtain ⟨outs, h1, h2, h3, _⟩ := Prog.norm_sound _ _ _ _ Dalek.Gen.Norm.IfmaField.mul_consts_norm_ok ins hin
  exact ⟨outs, h1, h2, h3⟩

theorem square_safe (ins : List Nat) (hin : EnvIn ins IfmaField.pre_square) :
    ∃ outs, Dalek.Gen.IfmaField.square.evalC ins = some outs ∧ Dalek.Gen.IfmaField.square.evalW ins = outs ∧
      EnvIn outs Dalek.Gen.Norm.IfmaField.square_post := by
  obtain ⟨outs, h1, h2, h3, _⟩ := Prog.norm_sound _ _ _ _ Dalek.Gen.Norm.IfmaField.square_norm_ok ins hin
  exact ⟨outs, h1, h2, h3⟩

theorem conditional_select_safe (ins : List Nat) (hin : EnvIn ins IfmaField.pre_conditional_select) :
    ∃ outs, Dalek.Gen.IfmaField.conditional_select.evalC ins = some outs ∧ Dalek.Gen.IfmaField.conditional_select.evalW ins = outs ∧
      EnvIn outs Dalek.Gen.Norm.IfmaField.conditional_select_post := by
  obtain ⟨outs, h1, h2, h3, _⟩ := Prog.norm_sound _ _ _ _ Dalek.Gen.Norm.IfmaField.conditional_select_norm_ok ins hin
  exact ⟨outs, h1, h2, h3⟩

theorem conditional_assign_safe (ins : List Nat) (hin : EnvIn ins IfmaField.pre_conditional_assign) :
    ∃ outs, Dalek.Gen.IfmaField.conditional_assign.evalC ins = some outs ∧ Dalek.Gen.IfmaField.conditional_assign.evalW ins = outs ∧
      EnvIn outs Dalek.Gen.Norm.IfmaField.conditional_assign_post := by
  obtain ⟨outs, h1, h2, h3, _⟩ := Prog.norm_sound _ _ _ _ Dalek.Gen.Norm.IfmaField.conditional_assign_norm_ok ins hin
  exact ⟨outs, h1, h2, h3⟩

theorem shuffle_AAAA_safe (ins : List Nat) (hin : EnvIn ins IfmaField.pre_shuffle_AAAA) :
    ∃ outs, Dalek.Gen.IfmaField.shuffle_AAAA.evalC ins = some outs ∧ Dalek.Gen.IfmaField.shuffle_AAAA.evalW ins = outs ∧
      EnvIn outs Dalek.Gen.Norm.IfmaField.shuffle_AAAA_post := by
  obtain ⟨outs, h1, h2, h3, _⟩ := Prog.norm_sound _ _ _ _ Dalek.Gen.Norm.IfmaField.shuffle_AAAA_norm_ok ins hin
  exact ⟨outs, h1, h2, h3⟩

theorem reduced_shuffle_AAAA_safe (ins : List Nat) (hin : EnvIn ins IfmaField.pre_reduced_shuffle_AAAA) :
    ∃ outs, Dalek.Gen.IfmaField.reduced_shuffle_AAAA.evalC ins = some outs ∧ Dalek.Gen.IfmaField.reduced_shuffle_AAAA.evalW ins = outs ∧
      EnvIn outs Dalek.Gen.Norm.IfmaField.reduced_shuffle_AAAA_post := by
  obtain ⟨outs, h1, h2, h3, _⟩ := Prog.norm_sound _ _ _ _ Dalek.Gen.Norm.IfmaField.reduced_shuffle_AAAA_norm_ok ins hin
  exact ⟨outs, h1, h2, h3⟩

theorem shuffle_BBBB_safe (ins : List Nat) (hin : EnvIn ins IfmaField.pre_shuffle_BBBB) :
    ∃ outs, Dalek.Gen.IfmaField.shuffle_BBBB.evalC ins = some outs ∧ Dalek.Gen.IfmaField.shuffle_BBBB.evalW ins = outs ∧
      EnvIn outs Dalek.Gen.Norm.IfmaField.shuffle_BBBB_post := by
  obtain ⟨outs, h1, h2, h3, _⟩ := Prog.norm_sound _ _ _ _ Dalek.Gen.Norm.IfmaField.shuffle_BBBB_norm_ok ins hin
  exact ⟨outs, h1, h2, h3⟩

theorem reduced_shuffle_BBBB_safe (ins : List Nat) (hin : EnvIn ins IfmaField.pre_reduced_shuffle_BBBB) :
    ∃ outs, Dalek.Gen.IfmaField.reduced_shuffle_BBBB.evalC ins = some outs ∧ Dalek.Gen.IfmaField.reduced_shuffle_BBBB.evalW ins = outs ∧
      EnvIn outs Dalek.Gen.Norm.IfmaField.reduced_shuffle_BBBB_post := by
  obtain ⟨outs, h1, h2, h3, _⟩ := Prog.norm_sound _ _ _ _ Dalek.Gen.Norm.IfmaField.reduced_shuffle_BBBB_norm_ok ins hin
  exact ⟨outs, h1, h2, h3⟩

theorem shuffle_BADC_safe (ins : List Nat) (hin : EnvIn ins IfmaField.pre_shuffle_BADC) :
    ∃ outs, Dalek.Gen.IfmaField.shuffle_BADC.evalC ins = some outs ∧ Dalek.Gen.IfmaField.shuffle_BADC.evalW ins = outs ∧
      EnvIn outs Dalek.Gen.Norm.IfmaField.shuffle_BADC_post := by
  obtain ⟨outs, h1, h2, h3, _⟩ := Prog.norm_sound _ _ _ _ Dalek.Gen.Norm.IfmaField.shuffle_BADC_norm_ok ins hin
  exact ⟨outs, h1, h2, h3⟩

theorem reduced_shuffle_BADC_safe (ins : List Nat) (hin : EnvIn ins IfmaField.pre_reduced_shuffle_BADC) :
    ∃ outs, Dalek.Gen.IfmaField.reduced_shuffle_BADC.evalC ins = some outs ∧ Dalek.Gen.IfmaField.reduced_shuffle_BADC.evalW ins = outs ∧
      EnvIn outs Dalek.Gen.Norm.IfmaField.reduced_shuffle_BADC_post := by
  obtain ⟨outs, h1, h2, h3, _⟩ := Prog.norm_sound _ _ _ _ Dalek.Gen.Norm.IfmaField.reduced_shuffle_BADC_norm_ok ins hin
  exact ⟨outs, h1, h2, h3⟩

theorem shuffle_BACD_safe (ins : List Nat) (hin : EnvIn ins IfmaField.pre_shuffle_BACD) :
    ∃ outs, Dalek.Gen.IfmaField.shuffle_BACD.evalC ins = some outs ∧ Dalek.Gen.IfmaField.shuffle_BACD.evalW ins = outs ∧
      EnvIn outs Dalek.Gen.Norm.IfmaField.shuffle_BACD_post := by
  obtain ⟨outs, h1, h2, h3, _⟩ := Prog.norm_sound _ _ _ _ Dalek.Gen.Norm.IfmaField.shuffle_BACD_norm_ok ins hin
  exact ⟨outs, h1, h2, h3⟩

theorem reduced_shuffle_BACD_safe (ins : List Nat) (hin : EnvIn ins IfmaField.pre_reduced_shuffle_BACD) :
    ∃ outs, Dalek.Gen.IfmaField.reduced_shuffle_BACD.evalC ins = some outs ∧ Dalek.Gen.IfmaField.reduced_shuffle_BACD.evalW ins = outs ∧
      EnvIn outs Dalek.Gen.Norm.IfmaField.reduced_shuffle_BACD_post := by
  obtain ⟨outs, h1, h2, h3, _⟩ := Prog.norm_sound _ _ _ _ Dalek.Gen.Norm.IfmaField.reduced_shuffle_BACD_norm_ok ins hin
  exact ⟨outs, h1, h2, h3⟩

theorem shuffle_ADDA_safe (ins : List Nat) (hin : EnvIn ins IfmaField.pre_shuffle_ADDA) :
    ∃ outs, Dalek.Gen.IfmaField.shuffle_ADDA.evalC ins = some outs ∧ Dalek.Gen.IfmaField.shuffle_ADDA.evalW ins = outs ∧
      EnvIn outs Dalek.Gen.Norm.IfmaField.shuffle_ADDA_post := by
  obtain ⟨outs, h1, h2, h3, _⟩ := Prog.norm_sound _ _ _ _ Dalek.Gen.Norm.IfmaField.shuffle_ADDA_norm_ok ins hin
  exact ⟨outs, h1, h2, h3⟩

theorem reduced_shuffle_ADDA_safe (ins : List Nat) (hin : EnvIn ins IfmaField.pre_reduced_shuffle_ADDA) :
    ∃ outs, Dalek.Gen.IfmaField.reduced_shuffle_ADDA.evalC ins = some outs ∧ Dalek.Gen.IfmaField.reduced_shuffle_ADDA.evalW ins = outs ∧
      EnvIn outs Dalek.Gen.Norm.IfmaField.reduced_shuffle_ADDA_post := by
  obtain ⟨outs, h1, h2, h3, _⟩ := Prog.norm_sound _ _ _ _ Dalek.Gen.Norm.IfmaField.reduced_shuffle_ADDA_norm_ok ins hin
  exact ⟨outs, h1, h2, h3⟩

theorem shuffle_CBCB_safe (ins : List Nat) (hin : EnvIn ins IfmaField.pre_shuffle_CBCB) :
    ∃ outs, Dalek.Gen.IfmaField.shuffle_CBCB.evalC ins = some outs ∧ Dalek.Gen.IfmaField.shuffle_CBCB.evalW ins = outs ∧
      EnvIn outs Dalek.Gen.Norm.IfmaField.shuffle_CBCB_post := by
  obtain ⟨outs, h1, h2, h3, _⟩ := Prog.norm_sound _ _ _ _ Dalek.Gen.Norm.IfmaField.shuffle_CBCB_norm_ok ins hin
  exact ⟨outs, h1, h2, h3⟩

theorem reduced_shuffle_CBCB_safe (ins : List Nat) (hin : EnvIn ins IfmaField.pre_reduced_shuffle_CBCB) :
    ∃ outs, Dalek.Gen.IfmaField.reduced_shuffle_CBCB.evalC ins = some outs ∧ Dalek.Gen.IfmaField.reduced_shuffle_CBCB.evalW ins = outs ∧
      EnvIn outs Dalek.Gen.Norm.IfmaField.reduced_shuffle_CBCB_post := by
  obtain ⟨outs, h1, h2, h3, _⟩ := Prog.norm_sound _ _ _ _ Dalek.Gen.Norm.IfmaField.reduced_shuffle_CBCB_norm_ok ins hin
  exact ⟨outs, h1, h2, h3⟩

theorem shuffle_ABDC_safe (ins : List Nat) (hin : EnvIn ins IfmaField.pre_shuffle_ABDC) :
    ∃ outs, Dalek.Gen.IfmaField.shuffle_ABDC.evalC ins = some outs ∧ Dalek.Gen.IfmaField.shuffle_ABDC.evalW ins = outs ∧
      EnvIn outs Dalek.Gen.Norm.IfmaField.shuffle_ABDC_post := by
  obtain ⟨outs, h1, h2, h3, _⟩ := Prog.norm_sound _ _ _ _ Dalek.Gen.Norm.IfmaField.shuffle_ABDC_norm_ok ins hin
  exact ⟨outs, h1, h2, h3⟩

theorem reduced_shuffle_ABDC_safe (ins : List Nat) (hin : EnvIn ins IfmaField.pre_reduced_shuffle_ABDC) :
    ∃ outs, Dalek.Gen.IfmaField.reduced_shuffle_ABDC.evalC ins = some outs ∧ Dalek.Gen.IfmaField.reduced_shuffle_ABDC.evalW ins = outs ∧
      EnvIn outs Dalek.Gen.Norm.IfmaField.reduced_shuffle_ABDC_post := by
  obtain ⟨outs, h1, h2, h3, _⟩ := Prog.norm_sound _ _ _ _ Dalek.Gen.Norm.IfmaField.reduced_shuffle_ABDC_norm_ok ins hin
  exact ⟨outs, h1, h2, h3⟩

theorem shuffle_ABAB_safe (ins : List Nat) (hin : EnvIn ins IfmaField.pre_shuffle_ABAB) :
    ∃ outs, Dalek.Gen.IfmaField.shuffle_ABAB.evalC ins = some outs ∧ Dalek.Gen.IfmaField.shuffle_ABAB.evalW ins = outs ∧
      EnvIn outs Dalek.Gen.Norm.IfmaField.shuffle_ABAB_post := by
  obtain ⟨outs, h1, h2, h3, _⟩ := Prog.norm_sound _ _ _ _ Dalek.Gen.Norm.IfmaField.shuffle_ABAB_norm_ok ins hin
  exact ⟨outs, h1, h2, h3⟩

theorem reduced_shuffle_ABAB_safe (ins : List Nat) (hin : EnvIn ins IfmaField.pre_reduced_shuffle_ABAB) :
    ∃ outs, Dalek.Gen.IfmaField.reduced_shuffle_ABAB.evalC ins = some outs ∧ Dalek.Gen.IfmaField.reduced_shuffle_ABAB.evalW ins = outs ∧
      EnvIn outs Dalek.Gen.Norm.IfmaField.reduced_shuffle_ABAB_post := by
  obtain ⟨outs, h1, h2, h3, _⟩ := Prog.norm_sound _ _ _ _ Dalek.Gen.Norm.IfmaField.reduced_shuffle_ABAB_norm_ok ins hin
  exact ⟨outs, h1, h2, h3⟩

theorem shuffle_DBBD_safe (ins : List Nat) (hin : EnvIn ins IfmaField.pre_shuffle_DBBD) :
    ∃ outs, Dalek.Gen.IfmaField.shuffle_DBBD.evalC ins = some outs ∧ Dalek.Gen.IfmaField.shuffle_DBBD.evalW ins = outs ∧
      EnvIn outs Dalek.Gen.Norm.IfmaField.shuffle_DBBD_post := by
  obtain ⟨outs, h1, h2, h3, _⟩ := Prog.norm_sound _ _ _ _ Dalek.Gen.Norm.IfmaField.shuffle_DBBD_norm_ok ins hin
  exact ⟨outs, h1, h2, h3⟩

theorem reduced_shuffle_DBBD_safe (ins : List Nat) (hin : EnvIn ins IfmaField.pre_reduced_shuffle_DBBD) :
    ∃ outs, Dalek.Gen.IfmaField.reduced_shuffle_DBBD.evalC ins = some outs ∧ Dalek.Gen.IfmaField.reduced_shuffle_DBBD.evalW ins = outs ∧
      EnvIn outs Dalek.Gen.Norm.IfmaField.reduced_shuffle_DBBD_post := by
  obtain ⟨outs, h1, h2, h3, _⟩ := Prog.norm_sound _ _ _ _ Dalek.Gen.Norm.IfmaField.reduced_shuffle_DBBD_norm_ok ins hin
  exact ⟨outs, h1, h2, h3⟩

theorem shuffle_CACA_safe (ins : List Nat) (hin : EnvIn ins IfmaField.pre_shuffle_CACA) :
    ∃ outs, Dalek.Gen.IfmaField.shuffle_CACA.evalC ins = some outs ∧ Dalek.Gen.IfmaField.shuffle_CACA.evalW ins = outs ∧
      EnvIn outs Dalek.Gen.Norm.IfmaField.shuffle_CACA_post := by
  obtain ⟨outs, h1, h2, h3, _⟩ := Prog.norm_sound _ _ _ _ Dalek.Gen.Norm.IfmaField.shuffle_CACA_norm_ok ins hin
  exact ⟨outs, h1, h2, h3⟩

theorem reduced_shuffle_CACA_safe (ins : List Nat) (hin : EnvIn ins IfmaField.pre_reduced_shuffle_CACA) :
    ∃ outs, Dalek.Gen.IfmaField.reduced_shuffle_CACA.evalC ins = some outs ∧ Dalek.Gen.IfmaField.reduced_shuffle_CACA.evalW ins = outs ∧
      EnvIn outs Dalek.Gen.Norm.IfmaField.reduced_shuffle_CACA_post := by
  obtain ⟨outs, h1, h2, h3, _⟩ := Prog.norm_sound _ _ _ _ Dalek.Gen.Norm.IfmaField.reduced_shuffle_CACA_norm_ok ins hin
  exact ⟨outs, h1, h2, h3⟩

theorem blend_D_safe (ins : List Nat) (hin : EnvIn ins IfmaField.pre_blend_D) :
    ∃ outs, Dalek.Gen.IfmaField.blend_D.evalC ins = some outs ∧ Dalek.Gen.IfmaField.blend_D.evalW ins = outs ∧
      EnvIn outs Dalek.Gen.Norm.IfmaField.blend_D_post := by
  obtain ⟨outs, h1, h2, h3, _⟩ := Prog.norm_sound _ _ _ _ Dalek.Gen.Norm.IfmaField.blend_D_norm_ok ins hin
  exact ⟨outs, h1, h2, h3⟩

theorem reduced_blend_D_safe (ins : List Nat) (hin : EnvIn ins IfmaField.pre_reduced_blend_D) :
    ∃ outs, Dalek.Gen.IfmaField.reduced_blend_D.evalC ins = some outs ∧ Dalek.Gen.IfmaField.reduced_blend_D.evalW ins = outs ∧
      EnvIn outs Dalek.Gen.Norm.IfmaField.reduced_blend_D_post := by
  obtain ⟨outs, h1, h2, h3, _⟩ := Prog.norm_sound _ _ _ _ Dalek.Gen.Norm.IfmaField.reduced_blend_D_norm_ok ins hin
  exact ⟨outs, h1, h2, h3⟩

theorem blend_C_safe (ins : List Nat) (hin : EnvIn ins IfmaField.pre_blend_C) :
    ∃ outs, Dalek.Gen.IfmaField.blend_C.evalC ins = some outs ∧ Dalek.Gen.IfmaField.blend_C.evalW ins = outs ∧
      EnvIn outs Dalek.Gen.Norm.IfmaField.blend_C_post := by
  obtain ⟨outs, h1, h2, h3, _⟩ := Prog.norm_sound _ _ _ _ Dalek.Gen.Norm.IfmaField.blend_C_norm_ok ins hin
  exact ⟨outs, h1, h2, h3⟩

theorem reduced_blend_C_safe (ins : List Nat) (hin : EnvIn ins IfmaField.pre_reduced_blend_C) :
    ∃ outs, Dalek.Gen.IfmaField.reduced_blend_C.evalC ins = some outs ∧ Dalek.Gen.IfmaField.reduced_blend_C.evalW ins = outs ∧
      EnvIn outs Dalek.Gen.Norm.IfmaField.reduced_blend_C_post := by
  obtain ⟨outs, h1, h2, h3, _⟩ := Prog.norm_sound _ _ _ _ Dalek.Gen.Norm.IfmaField.reduced_blend_C_norm_ok ins hin
  exact ⟨outs, h1, h2, h3⟩

theorem blend_AB_safe (ins : List Nat) (hin : EnvIn ins IfmaField.pre_blend_AB) :
    ∃ outs, Dalek.Gen.IfmaField.blend_AB.evalC ins = some outs ∧ Dalek.Gen.IfmaField.blend_AB.evalW ins = outs ∧
      EnvIn outs Dalek.Gen.Norm.IfmaField.blend_AB_post := by
  obtain ⟨outs, h1, h2, h3, _⟩ := Prog.norm_sound _ _ _ _ Dalek.Gen.Norm.IfmaField.blend_AB_norm_ok ins hin
  exact ⟨outs, h1, h2, h3⟩

theorem reduced_blend_AB_safe (ins : List Nat) (hin : EnvIn ins IfmaField.pre_reduced_blend_AB) :
    ∃ outs, Dalek.Gen.IfmaField.reduced_blend_AB.evalC ins = some outs ∧ Dalek.Gen.IfmaField.reduced_blend_AB.evalW ins = outs ∧
      EnvIn outs Dalek.Gen.Norm.IfmaField.reduced_blend_AB_post := by
  obtain ⟨outs, h1, h2, h3, _⟩ := Prog.norm_sound _ _ _ _ Dalek.Gen.Norm.IfmaField.reduced_blend_AB_norm_ok ins hin
  exact ⟨outs, h1, h2, h3⟩

theorem blend_AC_safe (ins : List Nat) (hin : EnvIn ins IfmaField.pre_blend_AC) :
    ∃ outs, Dalek.Gen.IfmaField.blend_AC.evalC ins = some outs ∧ Dalek.Gen.IfmaField.blend_AC.evalW ins = outs ∧
      EnvIn outs Dalek.Gen.Norm.IfmaField.blend_AC_post := by
  obtain ⟨outs, h1, h2, h3, _⟩ := Prog.norm_sound _ _ _ _ Dalek.Gen.Norm.IfmaField.blend_AC_norm_ok ins hin
  exact ⟨outs, h1, h2, h3⟩

theorem reduced_blend_AC_safe (ins : List Nat) (hin : EnvIn ins IfmaField.pre_reduced_blend_AC) :
    ∃ outs, Dalek.Gen.IfmaField.reduced_blend_AC.evalC ins = some outs ∧ Dalek.Gen.IfmaField.reduced_blend_AC.evalW ins = outs ∧
      EnvIn outs Dalek.Gen.Norm.IfmaField.reduced_blend_AC_post := by
  obtain ⟨outs, h1, h2, h3, _⟩ := Prog.norm_sound _ _ _ _ Dalek.Gen.Norm.IfmaField.reduced_blend_AC_norm_ok ins hin
  exact ⟨outs, h1, h2, h3⟩

theorem blend_AD_safe (ins : List Nat) (hin : EnvIn ins IfmaField.pre_blend_AD) :
    ∃ outs, Dalek.Gen.IfmaField.blend_AD.evalC ins = some outs ∧ Dalek.Gen.IfmaField.blend_AD.evalW ins = outs ∧
      EnvIn outs Dalek.Gen.Norm.IfmaField.blend_AD_post := by
  obtain ⟨outs, h1, h2, h3, _⟩ := Prog.norm_sound _ _ _ _ Dalek.Gen.Norm.IfmaField.blend_AD_norm_ok ins hin
  exact ⟨outs, h1, h2, h3⟩

theorem reduced_blend_AD_safe (ins : List Nat) (hin : EnvIn ins IfmaField.pre_reduced_blend_AD) :
    ∃ outs, Dalek.Gen.IfmaField.reduced_blend_AD.evalC ins = some outs ∧ Dalek.Gen.IfmaField.reduced_blend_AD.evalW ins = outs ∧
      EnvIn outs Dalek.Gen.Norm.IfmaField.reduced_blend_AD_post := by
  obtain ⟨outs, h1, h2, h3, _⟩ := Prog.norm_sound _ _ _ _ Dalek.Gen.Norm.IfmaField.reduced_blend_AD_norm_ok ins hin
  exact ⟨outs, h1, h2, h3⟩

theorem blend_BCD_safe (ins : List Nat) (hin : EnvIn ins IfmaField.pre_blend_BCD) :
    ∃ outs, Dalek.Gen.IfmaField.blend_BCD.evalC ins = some outs ∧ Dalek.Gen.IfmaField.blend_BCD.evalW ins = outs ∧
      EnvIn outs Dalek.Gen.Norm.IfmaField.blend_BCD_post := by
  obtain ⟨outs, h1, h2, h3, _⟩ := Prog.norm_sound _ _ _ _ Dalek.Gen.Norm.IfmaField.blend_BCD_norm_ok ins hin
  exact ⟨outs, h1, h2, h3⟩

theorem reduced_blend_BCD_safe (ins : List Nat) (hin : EnvIn ins IfmaField.pre_reduced_blend_BCD) :
    ∃ outs, Dalek.Gen.IfmaField.reduced_blend_BCD.evalC ins = some outs ∧ Dalek.Gen.IfmaField.reduced_blend_BCD.evalW ins = outs ∧
      EnvIn outs Dalek.Gen.Norm.IfmaField.reduced_blend_BCD_post := by
  obtain ⟨outs, h1, h2, h3, _⟩ := Prog.norm_sound _ _ _ _ Dalek.Gen.Norm.IfmaField.reduced_blend_BCD_norm_ok ins hin
  exact ⟨outs, h1, h2, h3⟩

/-! ## readable post-conditions and how they chain -/

/-- the weak reduction maps ANY twenty u64 lanes to limbs `< 2^51 + 2^18` (`< 2^52`: a valid `F51x4Reduced`) -/
theorem reduce_post_lt (ins : List Nat) (hin : EnvIn ins IfmaField.pre_reduce) :
    ∃ outs, Dalek.Gen.IfmaField.reduce.evalC ins = some outs ∧ Dalek.Gen.IfmaField.reduce.evalW ins = outs ∧
      EnvIn outs (rep 20 (ub (2 ^ 51 + 2 ^ 18 - 1))) := by
  obtain ⟨outs, h1, h2, h3⟩ := reduce_safe ins hin
  exact ⟨outs, h1, h2, EnvIn_of_itvsLe h3 (by decide +kernel)⟩

/-- `-x` of an `F51x4Reduced` is again reduced (limbs `< 2^51 + 2^10`) -/
theorem neg_post_lt (ins : List Nat) (hin : EnvIn ins IfmaField.pre_neg) :
    ∃ outs, Dalek.Gen.IfmaField.neg.evalC ins = some outs ∧ Dalek.Gen.IfmaField.neg.evalW ins = outs ∧
      EnvIn outs (rep 20 (ub (2 ^ 51 + 2 ^ 10 - 1))) := by
  obtain ⟨outs, h1, h2, h3⟩ := neg_safe ins hin
  exact ⟨outs, h1, h2, EnvIn_of_itvsLe h3 (by decide +kernel)⟩

/-- products / squares of reduced vectors have limbs `< 2^56`, products by u32 constants `< 2^53` (unreduced: they
must pass through `reduce` before the next multiplication, which the type system of the source enforces) -/
theorem mul_post_lt (ins : List Nat) (hin : EnvIn ins IfmaField.pre_mul) :
    ∃ outs, Dalek.Gen.IfmaField.mul.evalC ins = some outs ∧ Dalek.Gen.IfmaField.mul.evalW ins = outs ∧
      EnvIn outs (rep 20 (ub (2 ^ 56 - 1))) := by
  obtain ⟨outs, h1, h2, h3⟩ := mul_safe ins hin
  exact ⟨outs, h1, h2, EnvIn_of_itvsLe h3 (by decide +kernel)⟩

theorem square_post_lt (ins : List Nat) (hin : EnvIn ins IfmaField.pre_square) :
    ∃ outs, Dalek.Gen.IfmaField.square.evalC ins = some outs ∧ Dalek.Gen.IfmaField.square.evalW ins = outs ∧
      EnvIn outs (rep 20 (ub (2 ^ 56 - 1))) := by
  obtain ⟨outs, h1, h2, h3⟩ := square_safe ins hin
  exact ⟨outs, h1, h2, EnvIn_of_itvsLe h3 (by decide +kernel)⟩

theorem mul_consts_post_lt (ins : List Nat) (hin : EnvIn ins IfmaField.pre_mul_consts) :
    ∃ outs, Dalek.Gen.IfmaField.mul_consts.evalC ins = some outs ∧ Dalek.Gen.IfmaField.mul_consts.evalW ins = outs ∧
      EnvIn outs (rep 20 (ub (2 ^ 53 - 1))) := by
  obtain ⟨outs, h1, h2, h3⟩ := mul_consts_safe ins hin
  exact ⟨outs, h1, h2, EnvIn_of_itvsLe h3 (by decide +kernel)⟩

/-- `diff_sum` of a vector `≤ 32p` lane-wise has limbs `< 2^57` -/
theorem diff_sum_post_lt (ins : List Nat) (hin : EnvIn ins IfmaField.pre_diff_sum) :
    ∃ outs, Dalek.Gen.IfmaField.diff_sum.evalC ins = some outs ∧ Dalek.Gen.IfmaField.diff_sum.evalW ins = outs ∧
      EnvIn outs (rep 20 (ub (2 ^ 57 - 1))) := by
  obtain ⟨outs, h1, h2, h3⟩ := diff_sum_safe ins hin
  exact ⟨outs, h1, h2, EnvIn_of_itvsLe h3 (by decide +kernel)⟩

/-- reduced vectors are admissible everywhere: as operands of `mul`, `square`, `mul_consts`, `neg`, and (being
`≤ 32p` lane-wise) of `negate_lazy` / `diff_sum`.  The ROUND bound `< 2^56` of `mul_post_lt` is not inside the contract
of `negate_lazy` (the limbs of `32p` are `2^56 − 608`, `2^56 − 32`); the ANALYSED post-condition of a product is:
see `mul_post_le32p`. -/
theorem reduced_admissible :
    itvsLe IfmaField.reduced IfmaField.pre_negate_lazy = true ∧ itvsLe IfmaField.reduced IfmaField.pre_diff_sum = true ∧
    itvsLe (rep 20 (ub (2 ^ 51 + 2 ^ 18 - 1))) IfmaField.reduced = true ∧
    itvsLe (rep 20 (ub (2 ^ 56 - 1))) IfmaField.pre_negate_lazy = false := by decide +kernel

/-- the multiplication never wraps a lane, whatever the inputs (the 52-bit multiplier masks them); the contract
`limbs < 2^52` is needed for the VALUE (`Dalek.Props.C01.Ifma.mul_spec`), not for safety.  `negate_lazy` needs its
contract: lane 0 equal to `32 (2^51 − 19) + 1` wraps. -/
theorem headroom :
    (Dalek.Gen.IfmaField.mul.norm (rep 40 (ub (2 ^ 64 - 1)))).isSome = true ∧
    (Dalek.Gen.IfmaField.square.norm (rep 20 (ub (2 ^ 64 - 1)))).isSome = true ∧
    Dalek.Gen.IfmaField.negate_lazy.evalC ((32 * (2 ^ 51 - 19) + 1) :: List.replicate 19 0) = none := by
  decide +kernel

/-! ## unreduced products are fed to `negate_lazy` / `diff_sum` (the point formulas do `(a*b).negate_lazy()`) -/

/-- The analysed post-condition of `&x * &y` for reduced operands (all limbs `< 2^52`: the loose contract
`reduced ++ reduced`) is inside the contracts of `negate_lazy` and `diff_sum` (lane `≤` lane of `32p`): a product
may be negated / `diff_sum`med without an intermediate reduction. -/
theorem mul_post_le32p :
    itvsLe Dalek.Gen.Norm.IfmaField.mul_post IfmaField.pre_negate_lazy = true ∧
    itvsLe Dalek.Gen.Norm.IfmaField.mul_post IfmaField.pre_diff_sum = true := by decide +kernel

/-- the same for `x.square()` -/
theorem square_post_le32p :
    itvsLe Dalek.Gen.Norm.IfmaField.square_post IfmaField.pre_negate_lazy = true ∧
    itvsLe Dalek.Gen.Norm.IfmaField.square_post IfmaField.pre_diff_sum = true := by decide +kernel

/-- ... and consequently, for inputs inside `pre_mul`, the output of `mul` is an admissible input of `negate_lazy` -/
theorem mul_then_negate_lazy_safe (ins : List Nat) (hin : EnvIn ins IfmaField.pre_mul) :
    ∃ prod outs, Dalek.Gen.IfmaField.mul.evalC ins = some prod ∧ Dalek.Gen.IfmaField.mul.evalW ins = prod ∧
      Dalek.Gen.IfmaField.negate_lazy.evalC prod = some outs ∧ Dalek.Gen.IfmaField.negate_lazy.evalW prod = outs := by
  obtain ⟨prod, h1, h2, h3⟩ := mul_safe ins hin
  obtain ⟨outs, g1, g2, _⟩ := negate_lazy_safe prod (EnvIn_of_itvsLe h3 mul_post_le32p.1)
  exact ⟨prod, outs, h1, h2, g1, g2⟩

/-- the exact range of the outputs of `F51x4Reduced::from` (the only way to make an `F51x4Reduced` from arbitrary
lanes): limb-0 lanes `≤ 2^51 − 1 + 19 (2^13 − 1)`, the other lanes `≤ 2^51 − 1 + (2^13 − 1)` -/
def reduceRange : List Itv :=
  rep 4 (ub (2 ^ 51 - 1 + 19 * (2 ^ 13 - 1))) ++ rep 16 (ub (2 ^ 51 - 1 + (2 ^ 13 - 1)))

/-- `reduceRange` IS the analysed post-condition of `reduce` on any twenty u64 lanes -/
theorem reduce_post_eq_reduceRange : Dalek.Gen.Norm.IfmaField.reduce_post = reduceRange := by decide +kernel

/-- **The defect fixed by /repo commit f67a738** (`negate_lazy` now subtracts from `32p` instead of `16p`).
Witness, element A only (IFMA lane order `4 i + j`; elements B, C, D are 0):
`x = [2^51 + 155627, 2^51 + 1, 2^51 + 1, 2^51 + 1, 1005830831932087]`,
`y = [2^51 + 155613, 2^51 − 1, 2^51 − 1, 2^51 − 1, 1591960409831878]`.
* Both operands are REACHABLE values of the type `F51x4Reduced`: they are the outputs of `reduce`
  (`F51x4Reduced::from`) on the u64 vectors `xin`, `yin` below, hence inside `reduceRange` (and inside `pre_mul`).
* No lane wraps in `&x * &y` (`evalC = some (evalW …)`), and the limb-4 word of element A of the product is
  `36028797018991902 = (2^55 − 16) + 27950`, LARGER than the limb `2^55 − 16 = 36028797018963952` of `16p`: the product
  is not `≤ 16p` lane-wise (`le16p`), so with the OLD constants the lane subtraction `16p − z` of `negate_lazy` wraps on
  this input -- the checked semantics of that `sub` fails (last conjunct), and the wrapping (real SIMD) semantics returns
  a word that is off by `2^64`, i.e. a wrong `(x*y).negate_lazy()`.
* With the NEW constants (`32p`) the product is inside `pre_negate_lazy`.
(The witness handed over with the fix, `y_0 = 2^51 + 155641`, lies 13 above the exact maximum `2^51 − 1 + 19·8191` of a
`reduce` output; the one used here was found by search inside the exact range.) -/
theorem mul_output_can_exceed_16p :
    let xin : List Nat := [6755399441055742, 0, 0, 0, 6755399441055743, 0, 0, 0, 6755399441055743, 0, 0, 0,
      2251799813685247, 0, 0, 0, 18445498104727798455, 0, 0, 0]
    let yin : List Nat := [2251799813685232, 0, 0, 0, 2251799813685247, 0, 0, 0, 2251799813685247, 0, 0, 0,
      2251799813685247, 0, 0, 0, 18446084234305698246, 0, 0, 0]
    let x : List Nat := [2251799813840875, 0, 0, 0, 2251799813685249, 0, 0, 0, 2251799813685249, 0, 0, 0,
      2251799813685249, 0, 0, 0, 1005830831932087, 0, 0, 0]
    let y : List Nat := [2251799813840861, 0, 0, 0, 2251799813685247, 0, 0, 0, 2251799813685247, 0, 0, 0,
      2251799813685247, 0, 0, 0, 1591960409831878, 0, 0, 0]
    let prod := Dalek.Gen.IfmaField.mul.evalW (x ++ y)
    Dalek.Gen.IfmaField.reduce.evalC xin = some x ∧ Dalek.Gen.IfmaField.reduce.evalC yin = some y ∧
    EnvIn (x ++ y) (reduceRange ++ reduceRange) ∧ EnvIn (x ++ y) IfmaField.pre_mul ∧
    Dalek.Gen.IfmaField.mul.evalC (x ++ y) = some prod ∧
    prod.getD 16 0 = 36028797018991902 ∧ prod.getD 16 0 > 36028797018963952 ∧
    ¬ EnvIn prod IfmaField.le16p ∧ EnvIn prod IfmaField.pre_negate_lazy ∧
    (E.sub 64 (.c 36028797018963952) (.v 16)).evalC prod = none := by
  decide +kernel

/-! Non-vacuity: the all-lanes-at-the-bound inputs are inside the contracts. -/
example : EnvIn (IfmaField.pre_new.map (·.hi)) IfmaField.pre_new := by decide +kernel
example : EnvIn (IfmaField.pre_negate_lazy.map (·.hi)) IfmaField.pre_negate_lazy := by decide +kernel
example : EnvIn (IfmaField.pre_diff_sum.map (·.hi)) IfmaField.pre_diff_sum := by decide +kernel
example : EnvIn (IfmaField.pre_reduce.map (·.hi)) IfmaField.pre_reduce := by decide +kernel
example : EnvIn (IfmaField.pre_neg.map (·.hi)) IfmaField.pre_neg := by decide +kernel
example : EnvIn (IfmaField.pre_add.map (·.hi)) IfmaField.pre_add := by decide +kernel
example : EnvIn (IfmaField.pre_mul_consts.map (·.hi)) IfmaField.pre_mul_consts := by decide +kernel
example : EnvIn (IfmaField.pre_square.map (·.hi)) IfmaField.pre_square := by decide +kernel
example : EnvIn (IfmaField.pre_mul.map (·.hi)) IfmaField.pre_mul := by decide +kernel
example : EnvIn (IfmaField.pre_conditional_select.map (·.hi)) IfmaField.pre_conditional_select := by decide +kernel
example : EnvIn (IfmaField.pre_blend_AB.map (·.hi)) IfmaField.pre_blend_AB := by decide +kernel
example : EnvIn (IfmaField.pre_shuffle_BADC.map (·.hi)) IfmaField.pre_shuffle_BADC := by decide +kernel
example : EnvIn (IfmaField.pre_split.map (·.hi)) IfmaField.pre_split := by decide +kernel

end Dalek.Props.C11.Ifma

import Dalek.Model.VecInv
import Dalek.Gen.KIfmaEdwards
/-! C11 — bound chaining through `CachedPoint_conditional_assign` of the IFMA backend (one module per formula so that they build in parallel).
The program `Dalek.Gen.KIfmaEdwards.CachedPoint_conditional_assign` is REGENERATED from `backend/vector/ifma/edwards.rs` on every run: each
vector-field method call of the Rust function is one call of the translated limb kernel of that method. -/
namespace Dalek.Props.C11.VecChain.Ifma
open Dalek.IR Dalek.Gen Dalek.Model.VecInv

/-- the verified interval analysis (`Prog.norm` of every called kernel, on the intervals its arguments actually have at
that point of the formula) succeeds and the result is inside the invariant: evaluated by the Lean kernel -/
theorem CachedPoint_conditional_assign_chain :
    KIfmaEdwards.CachedPoint_conditional_assign.chainOk [] [Ifma.invCached, Ifma.invCached, choice] [Ifma.invCached] = true := by
  decide +kernel

/-- `CachedPoint::conditional_assign`: for ALL inputs inside the invariants, no kernel call overflows or fails a debug assertion (checked
semantics succeeds), checked and wrapping (release) semantics agree, and the result is inside the invariant. -/
theorem CachedPoint_conditional_assign_safe :
    KIfmaEdwards.CachedPoint_conditional_assign.Safe [Ifma.invCached, Ifma.invCached, choice] [Ifma.invCached] :=
  KProg.safe_of_chainOk _ [] _ _ (HintsValid.nil _ _) CachedPoint_conditional_assign_chain

end Dalek.Props.C11.VecChain.Ifma

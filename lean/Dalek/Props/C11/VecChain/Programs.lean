import Dalek.Model.VecInv
import Dalek.IR.KProg
import Dalek.Props.C11.VecChain.History
/-!
# C11 — every well-typed PROGRAM of vector point operations is overflow-free (generic part)

`VecChain/History.lean` treats one accumulator.  Here: arbitrary straight-line programs over registers holding
`ExtendedPoint`s, `CachedPoint`s and `Choice` bytes, built from the operations the scalar-multiplication code of
`backend/vector/scalar_mul/*` is made of (double, ± cached, `CachedPoint::from`, cached negation, conditional
select/assign of cached points = the body of `LookupTable::select`, the identities).  If the program is well typed, then from
any registers inside the invariants the overflow-checked run succeeds, equals the release run, and every register ever
written satisfies the invariant of its type.  This is the quantifier "all chains of operations" of C11 for the vector backends.
-/
namespace Dalek.Props.C11.VecChain
open Dalek.IR

inductive Ty where
  | ext | cached | choice
deriving DecidableEq, Repr

/-- operands are register indices; the result is appended as a new register -/
inductive VOp where
  | dbl (a : Nat)
  | add (a q : Nat)
  | sub (a q : Nat)
  | toCached (a : Nat)
  | negC (q : Nat)
  | selC (q q' c : Nat)
  | asgC (q q' c : Nat)
  | idE
  | idC
deriving Repr

structure Backend where
  dbl : KProg
  add : KProg
  sub : KProg
  toCached : KProg
  negC : KProg
  selC : KProg
  asgC : KProg
  idE : KProg
  idC : KProg
  invE : List Itv
  invC : List Itv

def Backend.inv (B : Backend) : Ty → List Itv
  | .ext => B.invE
  | .cached => B.invC
  | .choice => Dalek.Model.VecInv.choice

/-- all nine formulas preserve the invariants -/
structure Backend.Ok (B : Backend) : Prop where
  dbl : B.dbl.Safe [B.invE] [B.invE]
  add : B.add.Safe [B.invE, B.invC] [B.invE]
  sub : B.sub.Safe [B.invE, B.invC] [B.invE]
  toCached : B.toCached.Safe [B.invE] [B.invC]
  negC : B.negC.Safe [B.invC] [B.invC]
  selC : B.selC.Safe [B.invC, B.invC, Dalek.Model.VecInv.choice] [B.invC]
  asgC : B.asgC.Safe [B.invC, B.invC, Dalek.Model.VecInv.choice] [B.invC]
  idE : B.idE.Safe [] [B.invE]
  idC : B.idC.Safe [] [B.invC]

/-- the formula an operation runs, the registers it reads with the types they must have, and its result type -/
def VOp.sig (B : Backend) : VOp → KProg × List (Nat × Ty) × Ty
  | .dbl a => (B.dbl, [(a, .ext)], .ext)
  | .add a q => (B.add, [(a, .ext), (q, .cached)], .ext)
  | .sub a q => (B.sub, [(a, .ext), (q, .cached)], .ext)
  | .toCached a => (B.toCached, [(a, .ext)], .cached)
  | .negC q => (B.negC, [(q, .cached)], .cached)
  | .selC q q' c => (B.selC, [(q, .cached), (q', .cached), (c, .choice)], .cached)
  | .asgC q q' c => (B.asgC, [(q, .cached), (q', .cached), (c, .choice)], .cached)
  | .idE => (B.idE, [], .ext)
  | .idC => (B.idC, [], .cached)

/-- typing: every operand register exists and has the required type -/
def argsTyped (Γ : List Ty) : List (Nat × Ty) → Bool
  | [] => true
  | (i, t) :: as => (Γ[i]? == some t) && argsTyped Γ as

def wellTyped (B : Backend) : List Ty → List VOp → Bool
  | _, [] => true
  | Γ, op :: ops => argsTyped Γ (op.sig B).2.1 && wellTyped B (Γ ++ [(op.sig B).2.2]) ops

def fetch (env : List (List Nat)) : List (Nat × Ty) → Option (List (List Nat))
  | [] => some []
  | (i, _) :: as =>
    match env[i]?, fetch env as with
    | some v, some r => some (v :: r)
    | _, _ => none

def stepWith (ev : KProg → List (List Nat) → Option (List (List Nat))) (B : Backend) (env : List (List Nat)) (op : VOp) :
    Option (List (List Nat)) :=
  match fetch env (op.sig B).2.1 with
  | some args =>
    match one (ev (op.sig B).1 args) with
    | some r => some (env ++ [r])
    | none => none
  | none => none

def runWith (ev : KProg → List (List Nat) → Option (List (List Nat))) (B : Backend) :
    List (List Nat) → List VOp → Option (List (List Nat))
  | env, [] => some env
  | env, op :: ops =>
    match stepWith ev B env op with
    | some env' => runWith ev B env' ops
    | none => none

/-- registers satisfy the invariants of their types -/
def Typed (B : Backend) : List Ty → List (List Nat) → Prop
  | [], [] => True
  | t :: Γ, v :: env => EnvIn v (B.inv t) ∧ Typed B Γ env
  | _, _ => False

theorem Typed.get {B : Backend} : ∀ {Γ : List Ty} {env : List (List Nat)}, Typed B Γ env → ∀ {i : Nat} {t : Ty},
    Γ[i]? = some t → ∃ v, env[i]? = some v ∧ EnvIn v (B.inv t)
  | [], [], _, i, t, h => by simp at h
  | t0 :: Γ, v :: env, ht, 0, t, h => by
      simp only [List.getElem?_cons_zero, Option.some.injEq] at h
      subst h
      exact ⟨v, by simp, ht.1⟩
  | t0 :: Γ, v :: env, ht, i + 1, t, h => by
      simp only [List.getElem?_cons_succ] at h ⊢
      exact Typed.get ht.2 h
  | [], _ :: _, ht, _, _, _ => by simp [Typed] at ht
  | _ :: _, [], ht, _, _, _ => by simp [Typed] at ht

theorem Typed.snoc {B : Backend} : ∀ {Γ : List Ty} {env : List (List Nat)} {t : Ty} {v : List Nat},
    Typed B Γ env → EnvIn v (B.inv t) → Typed B (Γ ++ [t]) (env ++ [v])
  | [], [], t, v, _, hv => by simp [Typed, hv]
  | t0 :: Γ, v0 :: env, t, v, h, hv => by
      simp only [List.cons_append, Typed]
      exact ⟨h.1, Typed.snoc h.2 hv⟩
  | [], _ :: _, _, _, h, _ => by simp [Typed] at h
  | _ :: _, [], _, _, h, _ => by simp [Typed] at h

theorem fetch_typed {B : Backend} {Γ : List Ty} {env : List (List Nat)} (ht : Typed B Γ env) :
    ∀ (as : List (Nat × Ty)), argsTyped Γ as = true →
      ∃ vs, fetch env as = some vs ∧ EnvIn2 vs (as.map fun a => B.inv a.2)
  | [], _ => ⟨[], rfl, trivial⟩
  | (i, t) :: as, h => by
      simp only [argsTyped, Bool.and_eq_true, beq_iff_eq] at h
      obtain ⟨v, hv, hvm⟩ := ht.get h.1
      obtain ⟨vs, hvs, hvsm⟩ := fetch_typed ht as h.2
      exact ⟨v :: vs, by simp [fetch, hv, hvs], hvm, hvsm⟩

/-- the formula of every operation is safe from the invariants of its operand types to that of its result type -/
theorem sig_safe {B : Backend} (ok : B.Ok) (op : VOp) :
    (op.sig B).1.Safe ((op.sig B).2.1.map fun a => B.inv a.2) [B.inv (op.sig B).2.2] := by
  cases op <;> simp only [VOp.sig, List.map, Backend.inv]
  · exact ok.dbl
  · exact ok.add
  · exact ok.sub
  · exact ok.toCached
  · exact ok.negC
  · exact ok.selC
  · exact ok.asgC
  · exact ok.idE
  · exact ok.idC

/-- **Every well-typed program of vector point operations**: the checked run succeeds, equals the release run, and all
registers (old and new) satisfy the invariants of their types. -/
theorem program_safe {B : Backend} (ok : B.Ok) : ∀ (ops : List VOp) (Γ : List Ty) (env : List (List Nat)),
    Typed B Γ env → wellTyped B Γ ops = true →
    ∃ env' Γ', runWith KProg.evalC B env ops = some env' ∧ runWith KProg.evalW B env ops = some env' ∧ Typed B Γ' env'
  | [], Γ, env, ht, _ => ⟨env, Γ, rfl, rfl, ht⟩
  | op :: ops, Γ, env, ht, hw => by
      simp only [wellTyped, Bool.and_eq_true] at hw
      obtain ⟨vs, hvs, hvsm⟩ := fetch_typed ht _ hw.1
      obtain ⟨outs, h1, h2, h3⟩ := sig_safe ok op vs hvsm
      obtain ⟨r, rfl, hr⟩ := envIn2_single h3
      obtain ⟨env', Γ', e1, e2, e3⟩ := program_safe ok ops (Γ ++ [(op.sig B).2.2]) (env ++ [r]) (ht.snoc hr) hw.2
      refine ⟨env', Γ', ?_, ?_, e3⟩
      · simp [runWith, stepWith, hvs, h1, one, e1]
      · simp [runWith, stepWith, hvs, h2, one, e2]

end Dalek.Props.C11.VecChain

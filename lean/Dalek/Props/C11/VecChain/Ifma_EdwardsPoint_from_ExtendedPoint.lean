import Dalek.Model.VecInv
import Dalek.Gen.KIfmaEdwards
/-! C11 — bound chaining through `EdwardsPoint_from_ExtendedPoint` of the IFMA backend (one module per formula so that they build in parallel).
The program `Dalek.Gen.KIfmaEdwards.EdwardsPoint_from_ExtendedPoint` is REGENERATED from `backend/vector/ifma/edwards.rs` on every run: each
vector-field method call of the Rust function is one call of the translated limb kernel of that method. -/
namespace Dalek.Props.C11.VecChain.Ifma
open Dalek.IR Dalek.Gen Dalek.Model.VecInv

/-- the verified interval analysis (`Prog.norm` of every called kernel, on the intervals its arguments actually have at
that point of the formula) succeeds and the result is inside the invariant: evaluated by the Lean kernel -/
theorem EdwardsPoint_from_ExtendedPoint_chain :
    KIfmaEdwards.EdwardsPoint_from_ExtendedPoint.chainOk [] [Ifma.invExt] [Ifma.splitOut] = true := by
  decide +kernel

/-- `EdwardsPoint::from(ExtendedPoint)`: the four returned `FieldElement51` have limbs inside `splitOut`: for ALL inputs inside the invariants, no kernel call overflows or fails a debug assertion (checked
semantics succeeds), checked and wrapping (release) semantics agree, and the result is inside the invariant. -/
theorem EdwardsPoint_from_ExtendedPoint_safe :
    KIfmaEdwards.EdwardsPoint_from_ExtendedPoint.Safe [Ifma.invExt] [Ifma.splitOut] :=
  KProg.safe_of_chainOk _ [] _ _ (HintsValid.nil _ _) EdwardsPoint_from_ExtendedPoint_chain

end Dalek.Props.C11.VecChain.Ifma

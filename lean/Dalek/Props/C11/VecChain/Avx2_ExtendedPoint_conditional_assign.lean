import Dalek.Model.VecInv
import Dalek.Gen.KAvx2Edwards
/-! C11 — bound chaining through `ExtendedPoint_conditional_assign` of the AVX2 backend (one module per formula so that they build in parallel).
The program `Dalek.Gen.KAvx2Edwards.ExtendedPoint_conditional_assign` is REGENERATED from `backend/vector/avx2/edwards.rs` on every run: each
vector-field method call of the Rust function is one call of the translated limb kernel of that method. -/
namespace Dalek.Props.C11.VecChain.Avx2
open Dalek.IR Dalek.Gen Dalek.Model.VecInv

/-- the verified interval analysis (`Prog.norm` of every called kernel, on the intervals its arguments actually have at
that point of the formula) succeeds and the result is inside the invariant: evaluated by the Lean kernel -/
theorem ExtendedPoint_conditional_assign_chain :
    KAvx2Edwards.ExtendedPoint_conditional_assign.chainOk [] [Avx2.invExt, Avx2.invExt, choice] [Avx2.invExt] = true := by
  decide +kernel

/-- `ExtendedPoint::conditional_assign`: for ALL inputs inside the invariants, no kernel call overflows or fails a debug assertion (checked
semantics succeeds), checked and wrapping (release) semantics agree, and the result is inside the invariant. -/
theorem ExtendedPoint_conditional_assign_safe :
    KAvx2Edwards.ExtendedPoint_conditional_assign.Safe [Avx2.invExt, Avx2.invExt, choice] [Avx2.invExt] :=
  KProg.safe_of_chainOk _ [] _ _ (HintsValid.nil _ _) ExtendedPoint_conditional_assign_chain

end Dalek.Props.C11.VecChain.Avx2

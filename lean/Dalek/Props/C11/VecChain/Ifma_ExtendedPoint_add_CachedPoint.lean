import Dalek.Model.VecInv
import Dalek.Gen.KIfmaEdwards
/-! C11 — bound chaining through `ExtendedPoint_add_CachedPoint` of the IFMA backend (one module per formula so that they build in parallel).
The program `Dalek.Gen.KIfmaEdwards.ExtendedPoint_add_CachedPoint` is REGENERATED from `backend/vector/ifma/edwards.rs` on every run: each
vector-field method call of the Rust function is one call of the translated limb kernel of that method. -/
namespace Dalek.Props.C11.VecChain.Ifma
open Dalek.IR Dalek.Gen Dalek.Model.VecInv

/-- the verified interval analysis (`Prog.norm` of every called kernel, on the intervals its arguments actually have at
that point of the formula) succeeds and the result is inside the invariant: evaluated by the Lean kernel -/
theorem ExtendedPoint_add_CachedPoint_chain :
    KIfmaEdwards.ExtendedPoint_add_CachedPoint.chainOk [] [Ifma.invExt, Ifma.invCached] [Ifma.invExt] = true := by
  decide +kernel

/-- `&ExtendedPoint + &CachedPoint`: for ALL inputs inside the invariants, no kernel call overflows or fails a debug assertion (checked
semantics succeeds), checked and wrapping (release) semantics agree, and the result is inside the invariant. -/
theorem ExtendedPoint_add_CachedPoint_safe :
    KIfmaEdwards.ExtendedPoint_add_CachedPoint.Safe [Ifma.invExt, Ifma.invCached] [Ifma.invExt] :=
  KProg.safe_of_chainOk _ [] _ _ (HintsValid.nil _ _) ExtendedPoint_add_CachedPoint_chain

end Dalek.Props.C11.VecChain.Ifma

import Dalek.Model.VecInv
import Dalek.IR.KProg
/-! C11 — histories: any sequence of doublings and (cached-point) additions / subtractions keeps the accumulator inside
its invariant, given the one-step theorems (generic part; instantiated in `Dalek.Props.C11.VecChain`) -/
namespace Dalek.Props.C11.VecChain
open Dalek.IR

/-- one step of a scalar-multiplication loop on an `ExtendedPoint` accumulator -/
inductive Step where
  | dbl
  | add (q : List Nat)
  | sub (q : List Nat)

def Step.ok (invC : List Itv) : Step → Prop
  | .dbl => True
  | .add q => EnvIn q invC
  | .sub q => EnvIn q invC

structure Formulas where
  dbl : KProg
  add : KProg
  sub : KProg

def one : Option (List (List Nat)) → Option (List Nat)
  | some [r] => some r
  | _ => none

def stepC (F : Formulas) (acc : List Nat) : Step → Option (List Nat)
  | .dbl => one (F.dbl.evalC [acc])
  | .add q => one (F.add.evalC [acc, q])
  | .sub q => one (F.sub.evalC [acc, q])

def stepW (F : Formulas) (acc : List Nat) : Step → Option (List Nat)
  | .dbl => one (F.dbl.evalW [acc])
  | .add q => one (F.add.evalW [acc, q])
  | .sub q => one (F.sub.evalW [acc, q])

def runC (F : Formulas) : List Nat → List Step → Option (List Nat)
  | acc, [] => some acc
  | acc, s :: ss => match stepC F acc s with
    | some r => runC F r ss
    | none => none

def runW (F : Formulas) : List Nat → List Step → Option (List Nat)
  | acc, [] => some acc
  | acc, s :: ss => match stepW F acc s with
    | some r => runW F r ss
    | none => none

theorem envIn2_single {outs : List (List Nat)} {t : List Itv} (h : EnvIn2 outs [t]) : ∃ r, outs = [r] ∧ EnvIn r t := by
  match outs, h with
  | [r], h => exact ⟨r, rfl, h.1⟩
  | [], h => simp [EnvIn2] at h
  | _ :: _ :: _, h => simp [EnvIn2] at h

theorem step_safe (F : Formulas) (invE invC : List Itv)
    (hd : F.dbl.Safe [invE] [invE]) (ha : F.add.Safe [invE, invC] [invE]) (hs : F.sub.Safe [invE, invC] [invE])
    (acc : List Nat) (hacc : EnvIn acc invE) (s : Step) (hok : s.ok invC) :
    ∃ r, stepC F acc s = some r ∧ stepW F acc s = some r ∧ EnvIn r invE := by
  cases s with
  | dbl =>
    obtain ⟨outs, h1, h2, h3⟩ := hd [acc] ⟨hacc, trivial⟩
    obtain ⟨r, rfl, hr⟩ := envIn2_single h3
    exact ⟨r, by simp [stepC, h1, one], by simp [stepW, h2, one], hr⟩
  | add q =>
    obtain ⟨outs, h1, h2, h3⟩ := ha [acc, q] ⟨hacc, hok, trivial⟩
    obtain ⟨r, rfl, hr⟩ := envIn2_single h3
    exact ⟨r, by simp [stepC, h1, one], by simp [stepW, h2, one], hr⟩
  | sub q =>
    obtain ⟨outs, h1, h2, h3⟩ := hs [acc, q] ⟨hacc, hok, trivial⟩
    obtain ⟨r, rfl, hr⟩ := envIn2_single h3
    exact ⟨r, by simp [stepC, h1, one], by simp [stepW, h2, one], hr⟩

/-- **Histories.**  Any sequence of steps, from any accumulator inside the invariant, with any cached points inside
theirs: the checked run never fails, equals the release run, and the accumulator stays inside the invariant. -/
theorem run_safe (F : Formulas) (invE invC : List Itv)
    (hd : F.dbl.Safe [invE] [invE]) (ha : F.add.Safe [invE, invC] [invE]) (hs : F.sub.Safe [invE, invC] [invE]) :
    ∀ (steps : List Step) (acc : List Nat), EnvIn acc invE → (∀ s ∈ steps, s.ok invC) →
      ∃ r, runC F acc steps = some r ∧ runW F acc steps = some r ∧ EnvIn r invE
  | [], acc, hacc, _ => ⟨acc, rfl, rfl, hacc⟩
  | s :: ss, acc, hacc, hok => by
    obtain ⟨r, h1, h2, hr⟩ := step_safe F invE invC hd ha hs acc hacc s (hok s (by simp))
    obtain ⟨r', h1', h2', hr'⟩ := run_safe F invE invC hd ha hs ss r hr (fun t ht => hok t (by simp [ht]))
    exact ⟨r', by simp [runC, h1, h1'], by simp [runW, h2, h2'], hr'⟩

end Dalek.Props.C11.VecChain

import Dalek.Model.VecInv
import Dalek.Gen.KAvx2Edwards
/-! C11 — bound chaining through `CachedPoint_neg` of the AVX2 backend (one module per formula so that they build in parallel).
The program `Dalek.Gen.KAvx2Edwards.CachedPoint_neg` is REGENERATED from `backend/vector/avx2/edwards.rs` on every run: each
vector-field method call of the Rust function is one call of the translated limb kernel of that method. -/
namespace Dalek.Props.C11.VecChain.Avx2
open Dalek.IR Dalek.Gen Dalek.Model.VecInv

/-- the verified interval analysis (`Prog.norm` of every called kernel, on the intervals its arguments actually have at
that point of the formula) succeeds and the result is inside the invariant: evaluated by the Lean kernel -/
theorem CachedPoint_neg_chain :
    KAvx2Edwards.CachedPoint_neg.chainOk [] [Avx2.invCached] [Avx2.invCached] = true := by
  decide +kernel

/-- `-&CachedPoint`: for ALL inputs inside the invariants, no kernel call overflows or fails a debug assertion (checked
semantics succeeds), checked and wrapping (release) semantics agree, and the result is inside the invariant. -/
theorem CachedPoint_neg_safe :
    KAvx2Edwards.CachedPoint_neg.Safe [Avx2.invCached] [Avx2.invCached] :=
  KProg.safe_of_chainOk _ [] _ _ (HintsValid.nil _ _) CachedPoint_neg_chain

end Dalek.Props.C11.VecChain.Avx2

import Dalek.Model.VecInv
import Dalek.Gen.KAvx2Edwards
/-! C11 — bound chaining through `ExtendedPoint_from_EdwardsPoint` of the AVX2 backend (one module per formula so that they build in parallel).
The program `Dalek.Gen.KAvx2Edwards.ExtendedPoint_from_EdwardsPoint` is REGENERATED from `backend/vector/avx2/edwards.rs` on every run: each
vector-field method call of the Rust function is one call of the translated limb kernel of that method. -/
namespace Dalek.Props.C11.VecChain.Avx2
open Dalek.IR Dalek.Gen Dalek.Model.VecInv

/-- the verified interval analysis (`Prog.norm` of every called kernel, on the intervals its arguments actually have at
that point of the formula) succeeds and the result is inside the invariant: evaluated by the Lean kernel -/
theorem ExtendedPoint_from_EdwardsPoint_chain :
    KAvx2Edwards.ExtendedPoint_from_EdwardsPoint.chainOk [] [fe54, fe54, fe54, fe54] [Avx2.invExt] = true := by
  decide +kernel

/-- `ExtendedPoint::from(EdwardsPoint)`: four serial field elements with limbs `< 2^54` give an `ExtendedPoint` inside its invariant: for ALL inputs inside the invariants, no kernel call overflows or fails a debug assertion (checked
semantics succeeds), checked and wrapping (release) semantics agree, and the result is inside the invariant. -/
theorem ExtendedPoint_from_EdwardsPoint_safe :
    KAvx2Edwards.ExtendedPoint_from_EdwardsPoint.Safe [fe54, fe54, fe54, fe54] [Avx2.invExt] :=
  KProg.safe_of_chainOk _ [] _ _ (HintsValid.nil _ _) ExtendedPoint_from_EdwardsPoint_chain

end Dalek.Props.C11.VecChain.Avx2

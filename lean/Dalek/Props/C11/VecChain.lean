import Dalek.Props.C11.VecChain.Avx2_ExtendedPoint_from_EdwardsPoint
import Dalek.Props.C11.VecChain.Avx2_EdwardsPoint_from_ExtendedPoint
import Dalek.Props.C11.VecChain.Avx2_CachedPoint_from_ExtendedPoint
import Dalek.Props.C11.VecChain.Avx2_ExtendedPoint_double
import Dalek.Props.C11.VecChain.Avx2_ExtendedPoint_mul_by_pow_2_body
import Dalek.Props.C11.VecChain.Avx2_ExtendedPoint_add_CachedPoint
import Dalek.Props.C11.VecChain.Avx2_ExtendedPoint_sub_CachedPoint
import Dalek.Props.C11.VecChain.Avx2_CachedPoint_neg
import Dalek.Props.C11.VecChain.Avx2_ExtendedPoint_identity
import Dalek.Props.C11.VecChain.Avx2_CachedPoint_identity
import Dalek.Props.C11.VecChain.Avx2_ExtendedPoint_conditional_select
import Dalek.Props.C11.VecChain.Avx2_ExtendedPoint_conditional_assign
import Dalek.Props.C11.VecChain.Avx2_CachedPoint_conditional_select
import Dalek.Props.C11.VecChain.Avx2_CachedPoint_conditional_assign
import Dalek.Props.C11.VecChain.Ifma_ExtendedPoint_from_EdwardsPoint
import Dalek.Props.C11.VecChain.Ifma_EdwardsPoint_from_ExtendedPoint
import Dalek.Props.C11.VecChain.Ifma_CachedPoint_from_ExtendedPoint
import Dalek.Props.C11.VecChain.Ifma_ExtendedPoint_double
import Dalek.Props.C11.VecChain.Ifma_ExtendedPoint_mul_by_pow_2_body
import Dalek.Props.C11.VecChain.Ifma_ExtendedPoint_add_CachedPoint
import Dalek.Props.C11.VecChain.Ifma_ExtendedPoint_sub_CachedPoint
import Dalek.Props.C11.VecChain.Ifma_CachedPoint_neg
import Dalek.Props.C11.VecChain.Ifma_ExtendedPoint_identity
import Dalek.Props.C11.VecChain.Ifma_CachedPoint_identity
import Dalek.Props.C11.VecChain.Ifma_CachedPoint_conditional_select
import Dalek.Props.C11.VecChain.Ifma_CachedPoint_conditional_assign
import Dalek.Props.C11.VecChain.History
/-!
# C11 — bound chaining through the parallel point formulas (AVX2 and IFMA), property theorems

Per formula (modules `VecChain/<Backend>_<item>`): `<item>_chain` (kernel-evaluated analysis) and `<item>_safe`
(`KProg.Safe`: for all inputs inside the invariants of `Dalek.Model.VecInv` every kernel call stays inside the domain on
which it neither overflows nor asserts, checked = release semantics, outputs inside the invariant).
Here: the invariants are inductive over arbitrary histories of doublings / additions / subtractions, and cached points
made from extended points (or negated, or selected) are admissible second operands.
-/
namespace Dalek.Props.C11.VecChain
open Dalek.IR Dalek.Gen Dalek.Model.VecInv

def avx2 : Formulas := ⟨KAvx2Edwards.ExtendedPoint_double, KAvx2Edwards.ExtendedPoint_add_CachedPoint, KAvx2Edwards.ExtendedPoint_sub_CachedPoint⟩
def ifma : Formulas := ⟨KIfmaEdwards.ExtendedPoint_double, KIfmaEdwards.ExtendedPoint_add_CachedPoint, KIfmaEdwards.ExtendedPoint_sub_CachedPoint⟩

/-- AVX2: every history of `double` / `+ cached` / `- cached` steps is overflow-free and keeps `b < 0.007` -/
theorem avx2_history (steps : List Step) (acc : List Nat) (h : EnvIn acc Avx2.invExt) (hq : ∀ s ∈ steps, s.ok Avx2.invCached) :
    ∃ r, runC avx2 acc steps = some r ∧ runW avx2 acc steps = some r ∧ EnvIn r Avx2.invExt :=
  run_safe avx2 _ _ Avx2.ExtendedPoint_double_safe Avx2.ExtendedPoint_add_CachedPoint_safe
    Avx2.ExtendedPoint_sub_CachedPoint_safe steps acc h hq

/-- IFMA: likewise, with limbs `≤ 2^55 + 2^20` -/
theorem ifma_history (steps : List Step) (acc : List Nat) (h : EnvIn acc Ifma.invExt) (hq : ∀ s ∈ steps, s.ok Ifma.invCached) :
    ∃ r, runC ifma acc steps = some r ∧ runW ifma acc steps = some r ∧ EnvIn r Ifma.invExt :=
  run_safe ifma _ _ Ifma.ExtendedPoint_double_safe Ifma.ExtendedPoint_add_CachedPoint_safe
    Ifma.ExtendedPoint_sub_CachedPoint_safe steps acc h hq

/-- the loop of `mul_by_pow_2` is the doubling step (the translator records that its body is `double`) -/
theorem mul_by_pow_2_body_is_double :
    KAvx2Edwards.ExtendedPoint_mul_by_pow_2_body = KAvx2Edwards.ExtendedPoint_double ∧
    KIfmaEdwards.ExtendedPoint_mul_by_pow_2_body = KIfmaEdwards.ExtendedPoint_double := ⟨rfl, rfl⟩

/-- non-vacuity: the identity constants and (say) the all-zero vector satisfy the invariants -/
example : EnvIn (List.replicate 40 0) Avx2.invExt ∧ EnvIn (List.replicate 40 0) Avx2.invCached ∧
    EnvIn (List.replicate 20 0) Ifma.invExt ∧ EnvIn (List.replicate 20 0) Ifma.invCached := by decide +kernel

end Dalek.Props.C11.VecChain

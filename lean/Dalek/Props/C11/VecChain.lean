import Dalek.Props.C11.VecChain.Avx2_ExtendedPoint_from_EdwardsPoint
import Dalek.Props.C11.VecChain.Avx2_EdwardsPoint_from_ExtendedPoint
import Dalek.Props.C11.VecChain.Avx2_CachedPoint_from_ExtendedPoint
import Dalek.Props.C11.VecChain.Avx2_ExtendedPoint_double
import Dalek.Props.C11.VecChain.Avx2_ExtendedPoint_mul_by_pow_2_body
import Dalek.Props.C11.VecChain.Avx2_ExtendedPoint_add_CachedPoint
import Dalek.Props.C11.VecChain.Avx2_ExtendedPoint_sub_CachedPoint
import Dalek.Props.C11.VecChain.Avx2_CachedPoint_neg
import Dalek.Props.C11.VecChain.Avx2_ExtendedPoint_identity
import Dalek.Props.C11.VecChain.Avx2_CachedPoint_identity
import Dalek.Props.C11.VecChain.Avx2_ExtendedPoint_conditional_select
import Dalek.Props.C11.VecChain.Avx2_ExtendedPoint_conditional_assign
import Dalek.Props.C11.VecChain.Avx2_CachedPoint_conditional_select
import Dalek.Props.C11.VecChain.Avx2_CachedPoint_conditional_assign
import Dalek.Props.C11.VecChain.Ifma_ExtendedPoint_from_EdwardsPoint
import Dalek.Props.C11.VecChain.Ifma_EdwardsPoint_from_ExtendedPoint
import Dalek.Props.C11.VecChain.Ifma_CachedPoint_from_ExtendedPoint
import Dalek.Props.C11.VecChain.Ifma_ExtendedPoint_double
import Dalek.Props.C11.VecChain.Ifma_ExtendedPoint_mul_by_pow_2_body
import Dalek.Props.C11.VecChain.Ifma_ExtendedPoint_add_CachedPoint
import Dalek.Props.C11.VecChain.Ifma_ExtendedPoint_sub_CachedPoint
import Dalek.Props.C11.VecChain.Ifma_CachedPoint_neg
import Dalek.Props.C11.VecChain.Ifma_ExtendedPoint_identity
import Dalek.Props.C11.VecChain.Ifma_CachedPoint_identity
import Dalek.Props.C11.VecChain.Ifma_CachedPoint_conditional_select
import Dalek.Props.C11.VecChain.Ifma_CachedPoint_conditional_assign
import Dalek.Props.C11.VecChain.History
import Dalek.Props.C11.VecChain.Programs
/-!
# C11 — bound chaining through the parallel point formulas (AVX2 and IFMA), property theorems

Per formula (modules `VecChain/<Backend>_<item>`): `<item>_chain` (kernel-evaluated analysis) and `<item>_safe`
(`KProg.Safe`: for all inputs inside the invariants of `Dalek.Model.VecInv` every kernel call stays inside the domain on
which it neither overflows nor asserts, checked = release semantics, outputs inside the invariant).
Here: the invariants are inductive over arbitrary histories of doublings / additions / subtractions, and cached points
made from extended points (or negated, or selected) are admissible second operands.
-/
namespace Dalek.Props.C11.VecChain
open Dalek.IR Dalek.Gen Dalek.Model.VecInv

def avx2 : Formulas := ⟨KAvx2Edwards.ExtendedPoint_double, KAvx2Edwards.ExtendedPoint_add_CachedPoint, KAvx2Edwards.ExtendedPoint_sub_CachedPoint⟩
def ifma : Formulas := ⟨KIfmaEdwards.ExtendedPoint_double, KIfmaEdwards.ExtendedPoint_add_CachedPoint, KIfmaEdwards.ExtendedPoint_sub_CachedPoint⟩

/-- AVX2: every history of `double` / `+ cached` / `- cached` steps is overflow-free and keeps `b < 0.007` -/
theorem avx2_history (steps : List Step) (acc : List Nat) (h : EnvIn acc Avx2.invExt) (hq : ∀ s ∈ steps, s.ok Avx2.invCached) :
    ∃ r, runC avx2 acc steps = some r ∧ runW avx2 acc steps = some r ∧ EnvIn r Avx2.invExt :=
  run_safe avx2 _ _ Avx2.ExtendedPoint_double_safe Avx2.ExtendedPoint_add_CachedPoint_safe
    Avx2.ExtendedPoint_sub_CachedPoint_safe steps acc h hq

/-- IFMA: likewise, with limbs `≤ 2^55 + 2^20` -/
theorem ifma_history (steps : List Step) (acc : List Nat) (h : EnvIn acc Ifma.invExt) (hq : ∀ s ∈ steps, s.ok Ifma.invCached) :
    ∃ r, runC ifma acc steps = some r ∧ runW ifma acc steps = some r ∧ EnvIn r Ifma.invExt :=
  run_safe ifma _ _ Ifma.ExtendedPoint_double_safe Ifma.ExtendedPoint_add_CachedPoint_safe
    Ifma.ExtendedPoint_sub_CachedPoint_safe steps acc h hq

/-- the loop of `mul_by_pow_2` is the doubling step (the translator records that its body is `double`) -/
theorem mul_by_pow_2_body_is_double :
    KAvx2Edwards.ExtendedPoint_mul_by_pow_2_body = KAvx2Edwards.ExtendedPoint_double ∧
    KIfmaEdwards.ExtendedPoint_mul_by_pow_2_body = KIfmaEdwards.ExtendedPoint_double := ⟨rfl, rfl⟩

/-- non-vacuity: the identity constants and (say) the all-zero vector satisfy the invariants -/
example : EnvIn (List.replicate 40 0) Avx2.invExt ∧ EnvIn (List.replicate 40 0) Avx2.invCached ∧
    EnvIn (List.replicate 20 0) Ifma.invExt ∧ EnvIn (List.replicate 20 0) Ifma.invCached := by decide +kernel

/-! ## arbitrary well-typed programs of vector point operations -/

def avx2Backend : Backend :=
  { dbl := KAvx2Edwards.ExtendedPoint_double, add := KAvx2Edwards.ExtendedPoint_add_CachedPoint,
    sub := KAvx2Edwards.ExtendedPoint_sub_CachedPoint, toCached := KAvx2Edwards.CachedPoint_from_ExtendedPoint,
    negC := KAvx2Edwards.CachedPoint_neg, selC := KAvx2Edwards.CachedPoint_conditional_select,
    asgC := KAvx2Edwards.CachedPoint_conditional_assign, idE := KAvx2Edwards.ExtendedPoint_identity,
    idC := KAvx2Edwards.CachedPoint_identity, invE := Avx2.invExt, invC := Avx2.invCached }

def ifmaBackend : Backend :=
  { dbl := KIfmaEdwards.ExtendedPoint_double, add := KIfmaEdwards.ExtendedPoint_add_CachedPoint,
    sub := KIfmaEdwards.ExtendedPoint_sub_CachedPoint, toCached := KIfmaEdwards.CachedPoint_from_ExtendedPoint,
    negC := KIfmaEdwards.CachedPoint_neg, selC := KIfmaEdwards.CachedPoint_conditional_select,
    asgC := KIfmaEdwards.CachedPoint_conditional_assign, idE := KIfmaEdwards.ExtendedPoint_identity,
    idC := KIfmaEdwards.CachedPoint_identity, invE := Ifma.invExt, invC := Ifma.invCached }

theorem avx2Backend_ok : avx2Backend.Ok :=
  ⟨Avx2.ExtendedPoint_double_safe, Avx2.ExtendedPoint_add_CachedPoint_safe, Avx2.ExtendedPoint_sub_CachedPoint_safe,
   Avx2.CachedPoint_from_ExtendedPoint_safe, Avx2.CachedPoint_neg_safe, Avx2.CachedPoint_conditional_select_safe,
   Avx2.CachedPoint_conditional_assign_safe, Avx2.ExtendedPoint_identity_safe, Avx2.CachedPoint_identity_safe⟩

theorem ifmaBackend_ok : ifmaBackend.Ok :=
  ⟨Ifma.ExtendedPoint_double_safe, Ifma.ExtendedPoint_add_CachedPoint_safe, Ifma.ExtendedPoint_sub_CachedPoint_safe,
   Ifma.CachedPoint_from_ExtendedPoint_safe, Ifma.CachedPoint_neg_safe, Ifma.CachedPoint_conditional_select_safe,
   Ifma.CachedPoint_conditional_assign_safe, Ifma.ExtendedPoint_identity_safe, Ifma.CachedPoint_identity_safe⟩

/-- **AVX2: every well-typed program** over ExtendedPoint / CachedPoint / Choice registers built from double, ± cached,
`CachedPoint::from`, cached negation, conditional select/assign and the identities runs without overflow or assertion failure,
checked = release, all registers inside their invariants. -/
theorem avx2_program_safe (ops : List VOp) (Γ : List Ty) (env : List (List Nat))
    (h : Typed avx2Backend Γ env) (hw : wellTyped avx2Backend Γ ops = true) :
    ∃ env' Γ', runWith KProg.evalC avx2Backend env ops = some env' ∧ runWith KProg.evalW avx2Backend env ops = some env' ∧
      Typed avx2Backend Γ' env' := program_safe avx2Backend_ok ops Γ env h hw

/-- **IFMA: every well-typed program**, likewise. -/
theorem ifma_program_safe (ops : List VOp) (Γ : List Ty) (env : List (List Nat))
    (h : Typed ifmaBackend Γ env) (hw : wellTyped ifmaBackend Γ ops = true) :
    ∃ env' Γ', runWith KProg.evalC ifmaBackend env ops = some env' ∧ runWith KProg.evalW ifmaBackend env ops = some env' ∧
      Typed ifmaBackend Γ' env' := program_safe ifmaBackend_ok ops Γ env h hw

/-- non-vacuity: the shape of one window step of the vector `variable_base::mul` (table entry selection by conditional
assignment, conditional negation, four doublings, one addition) is a well-typed program -/
example : wellTyped avx2Backend [.ext, .cached, .cached, .choice]
    [.asgC 1 2 3, .negC 4, .selC 4 5 3, .dbl 0, .dbl 7, .dbl 8, .dbl 9, .add 10 6, .toCached 11, .idE, .idC] = true := by
  decide

end Dalek.Props.C11.VecChain

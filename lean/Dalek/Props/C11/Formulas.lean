import Dalek.Proofs.AlgBoundsSound
import Dalek.Proofs.AlgBoundsInv
import Dalek.Proofs.AlgBoundsOk51
import Dalek.Proofs.AlgBoundsOk26a
import Dalek.Proofs.AlgBoundsOk26b
import Dalek.Proofs.AlgBoundsOk26c
/-!
# C11 — limb headroom is re-established along every call path of the formulas (property theorems, formula level)

"The limb-size headroom each multiplication, squaring, subtraction and negation kernel needs is re-established by
every operation that can feed it, along every call path of the group formulas, the ladder and the encoders."

Proved by ABSTRACT INTERPRETATION of the translated formulas (`Dalek.Gen.Alg*`, regenerated from the Rust source)
in which every abstract field operation IS the verified kernel analysis (`Dalek.Model.AlgBounds.boundOps`):
`mul a b` runs `Prog.norm` on the regenerated `mul` kernel with the interval vectors the operands actually have at
that point of the formula.  No hand-written operation summaries, so the contracts of the kernels compose exactly.

* **Type invariants** (`Invs`, `I51`, `I26`, `inv_*`; DEFINED in the helper `Dalek/Proofs/AlgBoundsInv.lean`, restated
  below): per-limb bound vectors for the coordinates of every point type that is passed between formulas.
* **Per formula and backend** `<Mod>_<item>_safe{51,26} : (sig_<Mod>_<item> I).Safe B`: for ALL limb inputs inside
  the type invariants of the inputs, NO statement of the formula panics in the debug build (no overflow, no
  `debug_assert!`), all intermediate values and outputs equal those of the release build, and the outputs are
  inside the type invariants of the outputs (`Dalek.Model.AlgBounds.Safe`).  Each is the kernel evaluation
  `<Mod>_<item>_ok{51,26}` (`decide +kernel`; in the helpers `Dalek/Proofs/AlgBoundsOk{51,26a,26b,26c}.lean` so that
  they compile in parallel) + `check_sound` (which is `Prog.norm_sound` + `AProg.run_rel`).
* The invariants form a **post-fixed point**: the table `sigs` uses the SAME named vectors for the outputs of every
  producer and the inputs of every consumer of a type; external producers (decoded bytes, the shipped tables, the
  basepoint / torsion constants) are inside them (`from_bytes_*`, `tables_in_inv*`, `points_in_inv*`), the external
  consumer `as_bytes` is safe from them (`as_bytes_*`).
* `no_overflow_all_histories{51,26}`: induction over arbitrary well-typed sequences of formula calls.
* `report51`, `report26` (computable, Mathlib-free): one `(name, Bool)` per formula for the driver.

Everything in this file and its imports is Mathlib-free.
-/
namespace Dalek.Props.C11.Formulas
open Dalek.IR Dalek.Gen Dalek.Model.AlgBounds Dalek.Proofs.AlgBoundsSound
open Dalek.Model.Contracts (ub rep l2625 l2625f bytes)

/-! ## type invariants (restated; definitions in `Dalek/Proofs/AlgBoundsInv.lean`) -/

/-- serial u64: reduced = limbs `< 2^52`; unreduced sum `< 2^53`; completed coordinates and inputs of the
field-level functions: the full documented headroom `< 2^54` -/
example : I51 = ⟨rep 5 (ub (2 ^ 52 - 1)), rep 5 (ub (2 ^ 53 - 2)), rep 5 (ub (2 ^ 54 - 1)), rep 5 (ub (2 ^ 54 - 1))⟩ := rfl
/-- serial u32: reduced = excess factor `< 1.004` over `2^26 / 2^25`; unreduced sum `< 2.008`; completed coordinates
and inputs of the field-level functions: `< 3.36` (`b < 1.75`) -/
example : I26 = ⟨l2625f 1004 1000, l2625f 2008 1000, l2625f 336 100, l2625f 336 100⟩ := rfl
example (I : Invs) : EdwardsPoint I = [I.fe, I.fe, I.fe, I.fe] := rfl
example (I : Invs) : ProjectivePoint I = [I.fe, I.fe, I.fe] := rfl
example (I : Invs) : CompletedPoint I = [I.comp, I.comp, I.comp, I.comp] := rfl
example (I : Invs) : ProjectiveNiels I = [I.sum, I.sum, I.fe, I.fe] := rfl
example (I : Invs) : AffineNiels I = [I.sum, I.sum, I.fe] := rfl
example (I : Invs) : MontgomeryProjective I = [I.fe, I.fe] := rfl
example (I : Invs) : LadderStep I = [I.fe, I.fe, I.fe, I.fe, I.fe] := rfl
example (I : Invs) : BatchState I = [I.fe, I.sum, I.sum, I.fe, I.fe, I.fe] := rfl

abbrev inv_fe51 := I51.fe
abbrev inv_fe26 := I26.fe
abbrev inv_EdwardsPoint51 := EdwardsPoint I51
abbrev inv_EdwardsPoint26 := EdwardsPoint I26
abbrev inv_Projective51 := ProjectivePoint I51
abbrev inv_Projective26 := ProjectivePoint I26
abbrev inv_Completed51 := CompletedPoint I51
abbrev inv_Completed26 := CompletedPoint I26
abbrev inv_ProjectiveNiels51 := ProjectiveNiels I51
abbrev inv_ProjectiveNiels26 := ProjectiveNiels I26
abbrev inv_AffineNiels51 := AffineNiels I51
abbrev inv_AffineNiels26 := AffineNiels I26
abbrev inv_MontgomeryProjective51 := MontgomeryProjective I51
abbrev inv_MontgomeryProjective26 := MontgomeryProjective I26
abbrev inv_LadderStep51 := LadderStep I51
abbrev inv_LadderStep26 := LadderStep I26
abbrev inv_BatchState51 := BatchState I51
abbrev inv_BatchState26 := BatchState I26

/-! ## serial u64 backend: every formula is safe from / re-establishes the type invariants -/

theorem Curve_ProjectivePoint_identity_safe51 : (sig_Curve_ProjectivePoint_identity I51).Safe B51 := Sig.safe_of_ok Curve_ProjectivePoint_identity_ok51
theorem Curve_ProjectiveNielsPoint_identity_safe51 : (sig_Curve_ProjectiveNielsPoint_identity I51).Safe B51 := Sig.safe_of_ok Curve_ProjectiveNielsPoint_identity_ok51
theorem Curve_AffineNielsPoint_identity_safe51 : (sig_Curve_AffineNielsPoint_identity I51).Safe B51 := Sig.safe_of_ok Curve_AffineNielsPoint_identity_ok51
theorem Curve_ProjectivePoint_is_valid_safe51 : (sig_Curve_ProjectivePoint_is_valid I51).Safe B51 := Sig.safe_of_ok Curve_ProjectivePoint_is_valid_ok51
theorem Curve_ProjectiveNielsPoint_conditional_select_safe51 : (sig_Curve_ProjectiveNielsPoint_conditional_select I51).Safe B51 := Sig.safe_of_ok Curve_ProjectiveNielsPoint_conditional_select_ok51
theorem Curve_ProjectiveNielsPoint_conditional_assign_safe51 : (sig_Curve_ProjectiveNielsPoint_conditional_assign I51).Safe B51 := Sig.safe_of_ok Curve_ProjectiveNielsPoint_conditional_assign_ok51
theorem Curve_AffineNielsPoint_conditional_select_safe51 : (sig_Curve_AffineNielsPoint_conditional_select I51).Safe B51 := Sig.safe_of_ok Curve_AffineNielsPoint_conditional_select_ok51
theorem Curve_AffineNielsPoint_conditional_assign_safe51 : (sig_Curve_AffineNielsPoint_conditional_assign I51).Safe B51 := Sig.safe_of_ok Curve_AffineNielsPoint_conditional_assign_ok51
theorem Curve_ProjectivePoint_as_extended_safe51 : (sig_Curve_ProjectivePoint_as_extended I51).Safe B51 := Sig.safe_of_ok Curve_ProjectivePoint_as_extended_ok51
theorem Curve_CompletedPoint_as_projective_safe51 : (sig_Curve_CompletedPoint_as_projective I51).Safe B51 := Sig.safe_of_ok Curve_CompletedPoint_as_projective_ok51
theorem Curve_CompletedPoint_as_extended_safe51 : (sig_Curve_CompletedPoint_as_extended I51).Safe B51 := Sig.safe_of_ok Curve_CompletedPoint_as_extended_ok51
theorem Curve_ProjectivePoint_double_safe51 : (sig_Curve_ProjectivePoint_double I51).Safe B51 := Sig.safe_of_ok Curve_ProjectivePoint_double_ok51
theorem Curve_add_ProjectiveNielsPoint_safe51 : (sig_Curve_add_ProjectiveNielsPoint I51).Safe B51 := Sig.safe_of_ok Curve_add_ProjectiveNielsPoint_ok51
theorem Curve_sub_ProjectiveNielsPoint_safe51 : (sig_Curve_sub_ProjectiveNielsPoint I51).Safe B51 := Sig.safe_of_ok Curve_sub_ProjectiveNielsPoint_ok51
theorem Curve_add_AffineNielsPoint_safe51 : (sig_Curve_add_AffineNielsPoint I51).Safe B51 := Sig.safe_of_ok Curve_add_AffineNielsPoint_ok51
theorem Curve_sub_AffineNielsPoint_safe51 : (sig_Curve_sub_AffineNielsPoint I51).Safe B51 := Sig.safe_of_ok Curve_sub_AffineNielsPoint_ok51
theorem Curve_ProjectiveNielsPoint_neg_safe51 : (sig_Curve_ProjectiveNielsPoint_neg I51).Safe B51 := Sig.safe_of_ok Curve_ProjectiveNielsPoint_neg_ok51
theorem Curve_AffineNielsPoint_neg_safe51 : (sig_Curve_AffineNielsPoint_neg I51).Safe B51 := Sig.safe_of_ok Curve_AffineNielsPoint_neg_ok51
theorem Edwards_decompress_step_1_safe51 : (sig_Edwards_decompress_step_1 I51).Safe B51 := Sig.safe_of_ok Edwards_decompress_step_1_ok51
theorem Edwards_decompress_step_2_safe51 : (sig_Edwards_decompress_step_2 I51).Safe B51 := Sig.safe_of_ok Edwards_decompress_step_2_ok51
theorem Edwards_compress_safe51 : (sig_Edwards_compress I51).Safe B51 := Sig.safe_of_ok Edwards_compress_ok51
theorem Edwards_to_montgomery_safe51 : (sig_Edwards_to_montgomery I51).Safe B51 := Sig.safe_of_ok Edwards_to_montgomery_ok51
theorem Edwards_as_projective_niels_safe51 : (sig_Edwards_as_projective_niels I51).Safe B51 := Sig.safe_of_ok Edwards_as_projective_niels_ok51
theorem Edwards_as_projective_safe51 : (sig_Edwards_as_projective I51).Safe B51 := Sig.safe_of_ok Edwards_as_projective_ok51
theorem Edwards_as_affine_niels_safe51 : (sig_Edwards_as_affine_niels I51).Safe B51 := Sig.safe_of_ok Edwards_as_affine_niels_ok51
theorem Edwards_identity_safe51 : (sig_Edwards_identity I51).Safe B51 := Sig.safe_of_ok Edwards_identity_ok51
theorem Edwards_ct_eq_safe51 : (sig_Edwards_ct_eq I51).Safe B51 := Sig.safe_of_ok Edwards_ct_eq_ok51
theorem Edwards_conditional_select_safe51 : (sig_Edwards_conditional_select I51).Safe B51 := Sig.safe_of_ok Edwards_conditional_select_ok51
theorem Edwards_neg_safe51 : (sig_Edwards_neg I51).Safe B51 := Sig.safe_of_ok Edwards_neg_ok51
theorem Edwards_double_safe51 : (sig_Edwards_double I51).Safe B51 := Sig.safe_of_ok Edwards_double_ok51
theorem Edwards_add_safe51 : (sig_Edwards_add I51).Safe B51 := Sig.safe_of_ok Edwards_add_ok51
theorem Edwards_sub_safe51 : (sig_Edwards_sub I51).Safe B51 := Sig.safe_of_ok Edwards_sub_ok51
theorem Edwards_is_valid_safe51 : (sig_Edwards_is_valid I51).Safe B51 := Sig.safe_of_ok Edwards_is_valid_ok51
theorem Montgomery_differential_add_and_double_safe51 : (sig_Montgomery_differential_add_and_double I51).Safe B51 := Sig.safe_of_ok Montgomery_differential_add_and_double_ok51
theorem Montgomery_ProjectivePoint_identity_safe51 : (sig_Montgomery_ProjectivePoint_identity I51).Safe B51 := Sig.safe_of_ok Montgomery_ProjectivePoint_identity_ok51
theorem Montgomery_ProjectivePoint_conditional_select_safe51 : (sig_Montgomery_ProjectivePoint_conditional_select I51).Safe B51 := Sig.safe_of_ok Montgomery_ProjectivePoint_conditional_select_ok51
theorem Montgomery_ProjectivePoint_as_affine_safe51 : (sig_Montgomery_ProjectivePoint_as_affine I51).Safe B51 := Sig.safe_of_ok Montgomery_ProjectivePoint_as_affine_ok51
theorem Montgomery_to_edwards_safe51 : (sig_Montgomery_to_edwards I51).Safe B51 := Sig.safe_of_ok Montgomery_to_edwards_ok51
theorem Montgomery_elligator_encode_safe51 : (sig_Montgomery_elligator_encode I51).Safe B51 := Sig.safe_of_ok Montgomery_elligator_encode_ok51
theorem Montgomery_ct_eq_safe51 : (sig_Montgomery_ct_eq I51).Safe B51 := Sig.safe_of_ok Montgomery_ct_eq_ok51
theorem Ristretto_decompress_step_2_safe51 : (sig_Ristretto_decompress_step_2 I51).Safe B51 := Sig.safe_of_ok Ristretto_decompress_step_2_ok51
theorem Ristretto_compress_safe51 : (sig_Ristretto_compress I51).Safe B51 := Sig.safe_of_ok Ristretto_compress_ok51
theorem Ristretto_elligator_ristretto_flavor_safe51 : (sig_Ristretto_elligator_ristretto_flavor I51).Safe B51 := Sig.safe_of_ok Ristretto_elligator_ristretto_flavor_ok51
theorem Ristretto_ct_eq_safe51 : (sig_Ristretto_ct_eq I51).Safe B51 := Sig.safe_of_ok Ristretto_ct_eq_ok51
theorem Ristretto_batch_state_from_safe51 : (sig_Ristretto_batch_state_from I51).Safe B51 := Sig.safe_of_ok Ristretto_batch_state_from_ok51
theorem Ristretto_batch_compress_closure_safe51 : (sig_Ristretto_batch_compress_closure I51).Safe B51 := Sig.safe_of_ok Ristretto_batch_compress_closure_ok51
theorem Field_pow22501_safe51 : (sig_Field_pow22501 I51).Safe B51 := Sig.safe_of_ok Field_pow22501_ok51
theorem Field_pow_p58_safe51 : (sig_Field_pow_p58 I51).Safe B51 := Sig.safe_of_ok Field_pow_p58_ok51
theorem Field_invert_safe51 : (sig_Field_invert I51).Safe B51 := Sig.safe_of_ok Field_invert_ok51
theorem Field_sqrt_ratio_i_safe51 : (sig_Field_sqrt_ratio_i I51).Safe B51 := Sig.safe_of_ok Field_sqrt_ratio_i_ok51
theorem Field_invsqrt_safe51 : (sig_Field_invsqrt I51).Safe B51 := Sig.safe_of_ok Field_invsqrt_ok51

/-- every formula of the table is safe (u64 backend) -/
theorem all_safe51 : ∀ s ∈ sigs I51, s.Safe B51 := by
  intro s hs
  simp only [sigs, List.mem_cons, List.mem_nil_iff, or_false] at hs
  rcases hs with rfl | rfl | rfl | rfl | rfl | rfl | rfl | rfl | rfl | rfl | rfl | rfl | rfl | rfl | rfl | rfl | rfl | rfl | rfl | rfl | rfl | rfl | rfl | rfl | rfl | rfl | rfl | rfl | rfl | rfl | rfl | rfl | rfl | rfl | rfl | rfl | rfl | rfl | rfl | rfl | rfl | rfl | rfl | rfl | rfl | rfl | rfl | rfl | rfl | rfl | rfl
  · exact Curve_ProjectivePoint_identity_safe51
  · exact Curve_ProjectiveNielsPoint_identity_safe51
  · exact Curve_AffineNielsPoint_identity_safe51
  · exact Curve_ProjectivePoint_is_valid_safe51
  · exact Curve_ProjectiveNielsPoint_conditional_select_safe51
  · exact Curve_ProjectiveNielsPoint_conditional_assign_safe51
  · exact Curve_AffineNielsPoint_conditional_select_safe51
  · exact Curve_AffineNielsPoint_conditional_assign_safe51
  · exact Curve_ProjectivePoint_as_extended_safe51
  · exact Curve_CompletedPoint_as_projective_safe51
  · exact Curve_CompletedPoint_as_extended_safe51
  · exact Curve_ProjectivePoint_double_safe51
  · exact Curve_add_ProjectiveNielsPoint_safe51
  · exact Curve_sub_ProjectiveNielsPoint_safe51
  · exact Curve_add_AffineNielsPoint_safe51
  · exact Curve_sub_AffineNielsPoint_safe51
  · exact Curve_ProjectiveNielsPoint_neg_safe51
  · exact Curve_AffineNielsPoint_neg_safe51
  · exact Edwards_decompress_step_1_safe51
  · exact Edwards_decompress_step_2_safe51
  · exact Edwards_compress_safe51
  · exact Edwards_to_montgomery_safe51
  · exact Edwards_as_projective_niels_safe51
  · exact Edwards_as_projective_safe51
  · exact Edwards_as_affine_niels_safe51
  · exact Edwards_identity_safe51
  · exact Edwards_ct_eq_safe51
  · exact Edwards_conditional_select_safe51
  · exact Edwards_neg_safe51
  · exact Edwards_double_safe51
  · exact Edwards_add_safe51
  · exact Edwards_sub_safe51
  · exact Edwards_is_valid_safe51
  · exact Montgomery_differential_add_and_double_safe51
  · exact Montgomery_ProjectivePoint_identity_safe51
  · exact Montgomery_ProjectivePoint_conditional_select_safe51
  · exact Montgomery_ProjectivePoint_as_affine_safe51
  · exact Montgomery_to_edwards_safe51
  · exact Montgomery_elligator_encode_safe51
  · exact Montgomery_ct_eq_safe51
  · exact Ristretto_decompress_step_2_safe51
  · exact Ristretto_compress_safe51
  · exact Ristretto_elligator_ristretto_flavor_safe51
  · exact Ristretto_ct_eq_safe51
  · exact Ristretto_batch_state_from_safe51
  · exact Ristretto_batch_compress_closure_safe51
  · exact Field_pow22501_safe51
  · exact Field_pow_p58_safe51
  · exact Field_invert_safe51
  · exact Field_sqrt_ratio_i_safe51
  · exact Field_invsqrt_safe51

/-- every line of the driver's report is `true` -/
theorem report51_all_ok : (report51).all (fun nb => nb.2) = true := by
  simp only [report51, reportOf, sigs, List.map_cons, List.map_nil, List.all_cons, List.all_nil,
    Curve_ProjectivePoint_identity_ok51,
    Curve_ProjectiveNielsPoint_identity_ok51,
    Curve_AffineNielsPoint_identity_ok51,
    Curve_ProjectivePoint_is_valid_ok51,
    Curve_ProjectiveNielsPoint_conditional_select_ok51,
    Curve_ProjectiveNielsPoint_conditional_assign_ok51,
    Curve_AffineNielsPoint_conditional_select_ok51,
    Curve_AffineNielsPoint_conditional_assign_ok51,
    Curve_ProjectivePoint_as_extended_ok51,
    Curve_CompletedPoint_as_projective_ok51,
    Curve_CompletedPoint_as_extended_ok51,
    Curve_ProjectivePoint_double_ok51,
    Curve_add_ProjectiveNielsPoint_ok51,
    Curve_sub_ProjectiveNielsPoint_ok51,
    Curve_add_AffineNielsPoint_ok51,
    Curve_sub_AffineNielsPoint_ok51,
    Curve_ProjectiveNielsPoint_neg_ok51,
    Curve_AffineNielsPoint_neg_ok51,
    Edwards_decompress_step_1_ok51,
    Edwards_decompress_step_2_ok51,
    Edwards_compress_ok51,
    Edwards_to_montgomery_ok51,
    Edwards_as_projective_niels_ok51,
    Edwards_as_projective_ok51,
    Edwards_as_affine_niels_ok51,
    Edwards_identity_ok51,
    Edwards_ct_eq_ok51,
    Edwards_conditional_select_ok51,
    Edwards_neg_ok51,
    Edwards_double_ok51,
    Edwards_add_ok51,
    Edwards_sub_ok51,
    Edwards_is_valid_ok51,
    Montgomery_differential_add_and_double_ok51,
    Montgomery_ProjectivePoint_identity_ok51,
    Montgomery_ProjectivePoint_conditional_select_ok51,
    Montgomery_ProjectivePoint_as_affine_ok51,
    Montgomery_to_edwards_ok51,
    Montgomery_elligator_encode_ok51,
    Montgomery_ct_eq_ok51,
    Ristretto_decompress_step_2_ok51,
    Ristretto_compress_ok51,
    Ristretto_elligator_ristretto_flavor_ok51,
    Ristretto_ct_eq_ok51,
    Ristretto_batch_state_from_ok51,
    Ristretto_batch_compress_closure_ok51,
    Field_pow22501_ok51,
    Field_pow_p58_ok51,
    Field_invert_ok51,
    Field_sqrt_ratio_i_ok51,
    Field_invsqrt_ok51, Bool.and_self]

/-- what one of these theorems says, unfolded (`EdwardsPoint + EdwardsPoint`, serial u64) -/
example (ins : List (List Nat)) (h : EnvsIn ins (EdwardsPoint I51 ++ EdwardsPoint I51)) :
    arunBody limbOps51 AlgEdwards.add.body (ins.map some) =
      (arunBody limbOpsW51 AlgEdwards.add.body ins).map some ∧
    AlgEdwards.add.run limbOps51 (ins.map some) = (AlgEdwards.add.run limbOpsW51 ins).map some ∧
    EnvsIn (AlgEdwards.add.run limbOpsW51 ins) (EdwardsPoint I51) := Edwards_add_safe51 ins h

/-! ## serial u32 backend: every formula is safe from / re-establishes the type invariants -/

theorem Curve_ProjectivePoint_identity_safe26 : (sig_Curve_ProjectivePoint_identity I26).Safe B26 := Sig.safe_of_ok Curve_ProjectivePoint_identity_ok26
theorem Curve_ProjectiveNielsPoint_identity_safe26 : (sig_Curve_ProjectiveNielsPoint_identity I26).Safe B26 := Sig.safe_of_ok Curve_ProjectiveNielsPoint_identity_ok26
theorem Curve_AffineNielsPoint_identity_safe26 : (sig_Curve_AffineNielsPoint_identity I26).Safe B26 := Sig.safe_of_ok Curve_AffineNielsPoint_identity_ok26
theorem Curve_ProjectivePoint_is_valid_safe26 : (sig_Curve_ProjectivePoint_is_valid I26).Safe B26 := Sig.safe_of_ok Curve_ProjectivePoint_is_valid_ok26
theorem Curve_ProjectiveNielsPoint_conditional_select_safe26 : (sig_Curve_ProjectiveNielsPoint_conditional_select I26).Safe B26 := Sig.safe_of_ok Curve_ProjectiveNielsPoint_conditional_select_ok26
theorem Curve_ProjectiveNielsPoint_conditional_assign_safe26 : (sig_Curve_ProjectiveNielsPoint_conditional_assign I26).Safe B26 := Sig.safe_of_ok Curve_ProjectiveNielsPoint_conditional_assign_ok26
theorem Curve_AffineNielsPoint_conditional_select_safe26 : (sig_Curve_AffineNielsPoint_conditional_select I26).Safe B26 := Sig.safe_of_ok Curve_AffineNielsPoint_conditional_select_ok26
theorem Curve_AffineNielsPoint_conditional_assign_safe26 : (sig_Curve_AffineNielsPoint_conditional_assign I26).Safe B26 := Sig.safe_of_ok Curve_AffineNielsPoint_conditional_assign_ok26
theorem Curve_ProjectivePoint_as_extended_safe26 : (sig_Curve_ProjectivePoint_as_extended I26).Safe B26 := Sig.safe_of_ok Curve_ProjectivePoint_as_extended_ok26
theorem Curve_CompletedPoint_as_projective_safe26 : (sig_Curve_CompletedPoint_as_projective I26).Safe B26 := Sig.safe_of_ok Curve_CompletedPoint_as_projective_ok26
theorem Curve_CompletedPoint_as_extended_safe26 : (sig_Curve_CompletedPoint_as_extended I26).Safe B26 := Sig.safe_of_ok Curve_CompletedPoint_as_extended_ok26
theorem Curve_ProjectivePoint_double_safe26 : (sig_Curve_ProjectivePoint_double I26).Safe B26 := Sig.safe_of_ok Curve_ProjectivePoint_double_ok26
theorem Curve_add_ProjectiveNielsPoint_safe26 : (sig_Curve_add_ProjectiveNielsPoint I26).Safe B26 := Sig.safe_of_ok Curve_add_ProjectiveNielsPoint_ok26
theorem Curve_sub_ProjectiveNielsPoint_safe26 : (sig_Curve_sub_ProjectiveNielsPoint I26).Safe B26 := Sig.safe_of_ok Curve_sub_ProjectiveNielsPoint_ok26
theorem Curve_add_AffineNielsPoint_safe26 : (sig_Curve_add_AffineNielsPoint I26).Safe B26 := Sig.safe_of_ok Curve_add_AffineNielsPoint_ok26
theorem Curve_sub_AffineNielsPoint_safe26 : (sig_Curve_sub_AffineNielsPoint I26).Safe B26 := Sig.safe_of_ok Curve_sub_AffineNielsPoint_ok26
theorem Curve_ProjectiveNielsPoint_neg_safe26 : (sig_Curve_ProjectiveNielsPoint_neg I26).Safe B26 := Sig.safe_of_ok Curve_ProjectiveNielsPoint_neg_ok26
theorem Curve_AffineNielsPoint_neg_safe26 : (sig_Curve_AffineNielsPoint_neg I26).Safe B26 := Sig.safe_of_ok Curve_AffineNielsPoint_neg_ok26
theorem Edwards_decompress_step_1_safe26 : (sig_Edwards_decompress_step_1 I26).Safe B26 := Sig.safe_of_ok Edwards_decompress_step_1_ok26
theorem Edwards_decompress_step_2_safe26 : (sig_Edwards_decompress_step_2 I26).Safe B26 := Sig.safe_of_ok Edwards_decompress_step_2_ok26
theorem Edwards_compress_safe26 : (sig_Edwards_compress I26).Safe B26 := Sig.safe_of_ok Edwards_compress_ok26
theorem Edwards_to_montgomery_safe26 : (sig_Edwards_to_montgomery I26).Safe B26 := Sig.safe_of_ok Edwards_to_montgomery_ok26
theorem Edwards_as_projective_niels_safe26 : (sig_Edwards_as_projective_niels I26).Safe B26 := Sig.safe_of_ok Edwards_as_projective_niels_ok26
theorem Edwards_as_projective_safe26 : (sig_Edwards_as_projective I26).Safe B26 := Sig.safe_of_ok Edwards_as_projective_ok26
theorem Edwards_as_affine_niels_safe26 : (sig_Edwards_as_affine_niels I26).Safe B26 := Sig.safe_of_ok Edwards_as_affine_niels_ok26
theorem Edwards_identity_safe26 : (sig_Edwards_identity I26).Safe B26 := Sig.safe_of_ok Edwards_identity_ok26
theorem Edwards_ct_eq_safe26 : (sig_Edwards_ct_eq I26).Safe B26 := Sig.safe_of_ok Edwards_ct_eq_ok26
theorem Edwards_conditional_select_safe26 : (sig_Edwards_conditional_select I26).Safe B26 := Sig.safe_of_ok Edwards_conditional_select_ok26
theorem Edwards_neg_safe26 : (sig_Edwards_neg I26).Safe B26 := Sig.safe_of_ok Edwards_neg_ok26
theorem Edwards_double_safe26 : (sig_Edwards_double I26).Safe B26 := Sig.safe_of_ok Edwards_double_ok26
theorem Edwards_add_safe26 : (sig_Edwards_add I26).Safe B26 := Sig.safe_of_ok Edwards_add_ok26
theorem Edwards_sub_safe26 : (sig_Edwards_sub I26).Safe B26 := Sig.safe_of_ok Edwards_sub_ok26
theorem Edwards_is_valid_safe26 : (sig_Edwards_is_valid I26).Safe B26 := Sig.safe_of_ok Edwards_is_valid_ok26
theorem Montgomery_differential_add_and_double_safe26 : (sig_Montgomery_differential_add_and_double I26).Safe B26 := Sig.safe_of_ok Montgomery_differential_add_and_double_ok26
theorem Montgomery_ProjectivePoint_identity_safe26 : (sig_Montgomery_ProjectivePoint_identity I26).Safe B26 := Sig.safe_of_ok Montgomery_ProjectivePoint_identity_ok26
theorem Montgomery_ProjectivePoint_conditional_select_safe26 : (sig_Montgomery_ProjectivePoint_conditional_select I26).Safe B26 := Sig.safe_of_ok Montgomery_ProjectivePoint_conditional_select_ok26
theorem Montgomery_ProjectivePoint_as_affine_safe26 : (sig_Montgomery_ProjectivePoint_as_affine I26).Safe B26 := Sig.safe_of_ok Montgomery_ProjectivePoint_as_affine_ok26
theorem Montgomery_to_edwards_safe26 : (sig_Montgomery_to_edwards I26).Safe B26 := Sig.safe_of_ok Montgomery_to_edwards_ok26
theorem Montgomery_elligator_encode_safe26 : (sig_Montgomery_elligator_encode I26).Safe B26 := Sig.safe_of_ok Montgomery_elligator_encode_ok26
theorem Montgomery_ct_eq_safe26 : (sig_Montgomery_ct_eq I26).Safe B26 := Sig.safe_of_ok Montgomery_ct_eq_ok26
theorem Ristretto_decompress_step_2_safe26 : (sig_Ristretto_decompress_step_2 I26).Safe B26 := Sig.safe_of_ok Ristretto_decompress_step_2_ok26
theorem Ristretto_compress_safe26 : (sig_Ristretto_compress I26).Safe B26 := Sig.safe_of_ok Ristretto_compress_ok26
theorem Ristretto_elligator_ristretto_flavor_safe26 : (sig_Ristretto_elligator_ristretto_flavor I26).Safe B26 := Sig.safe_of_ok Ristretto_elligator_ristretto_flavor_ok26
theorem Ristretto_ct_eq_safe26 : (sig_Ristretto_ct_eq I26).Safe B26 := Sig.safe_of_ok Ristretto_ct_eq_ok26
theorem Ristretto_batch_state_from_safe26 : (sig_Ristretto_batch_state_from I26).Safe B26 := Sig.safe_of_ok Ristretto_batch_state_from_ok26
theorem Ristretto_batch_compress_closure_safe26 : (sig_Ristretto_batch_compress_closure I26).Safe B26 := Sig.safe_of_ok Ristretto_batch_compress_closure_ok26
theorem Field_pow22501_safe26 : (sig_Field_pow22501 I26).Safe B26 := Sig.safe_of_ok Field_pow22501_ok26
theorem Field_pow_p58_safe26 : (sig_Field_pow_p58 I26).Safe B26 := Sig.safe_of_ok Field_pow_p58_ok26
theorem Field_invert_safe26 : (sig_Field_invert I26).Safe B26 := Sig.safe_of_ok Field_invert_ok26
theorem Field_sqrt_ratio_i_safe26 : (sig_Field_sqrt_ratio_i I26).Safe B26 := Sig.safe_of_ok Field_sqrt_ratio_i_ok26
theorem Field_invsqrt_safe26 : (sig_Field_invsqrt I26).Safe B26 := Sig.safe_of_ok Field_invsqrt_ok26

/-- every formula of the table is safe (u32 backend) -/
theorem all_safe26 : ∀ s ∈ sigs I26, s.Safe B26 := by
  intro s hs
  simp only [sigs, List.mem_cons, List.mem_nil_iff, or_false] at hs
  rcases hs with rfl | rfl | rfl | rfl | rfl | rfl | rfl | rfl | rfl | rfl | rfl | rfl | rfl | rfl | rfl | rfl | rfl | rfl | rfl | rfl | rfl | rfl | rfl | rfl | rfl | rfl | rfl | rfl | rfl | rfl | rfl | rfl | rfl | rfl | rfl | rfl | rfl | rfl | rfl | rfl | rfl | rfl | rfl | rfl | rfl | rfl | rfl | rfl | rfl | rfl | rfl
  · exact Curve_ProjectivePoint_identity_safe26
  · exact Curve_ProjectiveNielsPoint_identity_safe26
  · exact Curve_AffineNielsPoint_identity_safe26
  · exact Curve_ProjectivePoint_is_valid_safe26
  · exact Curve_ProjectiveNielsPoint_conditional_select_safe26
  · exact Curve_ProjectiveNielsPoint_conditional_assign_safe26
  · exact Curve_AffineNielsPoint_conditional_select_safe26
  · exact Curve_AffineNielsPoint_conditional_assign_safe26
  · exact Curve_ProjectivePoint_as_extended_safe26
  · exact Curve_CompletedPoint_as_projective_safe26
  · exact Curve_CompletedPoint_as_extended_safe26
  · exact Curve_ProjectivePoint_double_safe26
  · exact Curve_add_ProjectiveNielsPoint_safe26
  · exact Curve_sub_ProjectiveNielsPoint_safe26
  · exact Curve_add_AffineNielsPoint_safe26
  · exact Curve_sub_AffineNielsPoint_safe26
  · exact Curve_ProjectiveNielsPoint_neg_safe26
  · exact Curve_AffineNielsPoint_neg_safe26
  · exact Edwards_decompress_step_1_safe26
  · exact Edwards_decompress_step_2_safe26
  · exact Edwards_compress_safe26
  · exact Edwards_to_montgomery_safe26
  · exact Edwards_as_projective_niels_safe26
  · exact Edwards_as_projective_safe26
  · exact Edwards_as_affine_niels_safe26
  · exact Edwards_identity_safe26
  · exact Edwards_ct_eq_safe26
  · exact Edwards_conditional_select_safe26
  · exact Edwards_neg_safe26
  · exact Edwards_double_safe26
  · exact Edwards_add_safe26
  · exact Edwards_sub_safe26
  · exact Edwards_is_valid_safe26
  · exact Montgomery_differential_add_and_double_safe26
  · exact Montgomery_ProjectivePoint_identity_safe26
  · exact Montgomery_ProjectivePoint_conditional_select_safe26
  · exact Montgomery_ProjectivePoint_as_affine_safe26
  · exact Montgomery_to_edwards_safe26
  · exact Montgomery_elligator_encode_safe26
  · exact Montgomery_ct_eq_safe26
  · exact Ristretto_decompress_step_2_safe26
  · exact Ristretto_compress_safe26
  · exact Ristretto_elligator_ristretto_flavor_safe26
  · exact Ristretto_ct_eq_safe26
  · exact Ristretto_batch_state_from_safe26
  · exact Ristretto_batch_compress_closure_safe26
  · exact Field_pow22501_safe26
  · exact Field_pow_p58_safe26
  · exact Field_invert_safe26
  · exact Field_sqrt_ratio_i_safe26
  · exact Field_invsqrt_safe26

/-- every line of the driver's report is `true` -/
theorem report26_all_ok : (report26).all (fun nb => nb.2) = true := by
  simp only [report26, reportOf, sigs, List.map_cons, List.map_nil, List.all_cons, List.all_nil,
    Curve_ProjectivePoint_identity_ok26,
    Curve_ProjectiveNielsPoint_identity_ok26,
    Curve_AffineNielsPoint_identity_ok26,
    Curve_ProjectivePoint_is_valid_ok26,
    Curve_ProjectiveNielsPoint_conditional_select_ok26,
    Curve_ProjectiveNielsPoint_conditional_assign_ok26,
    Curve_AffineNielsPoint_conditional_select_ok26,
    Curve_AffineNielsPoint_conditional_assign_ok26,
    Curve_ProjectivePoint_as_extended_ok26,
    Curve_CompletedPoint_as_projective_ok26,
    Curve_CompletedPoint_as_extended_ok26,
    Curve_ProjectivePoint_double_ok26,
    Curve_add_ProjectiveNielsPoint_ok26,
    Curve_sub_ProjectiveNielsPoint_ok26,
    Curve_add_AffineNielsPoint_ok26,
    Curve_sub_AffineNielsPoint_ok26,
    Curve_ProjectiveNielsPoint_neg_ok26,
    Curve_AffineNielsPoint_neg_ok26,
    Edwards_decompress_step_1_ok26,
    Edwards_decompress_step_2_ok26,
    Edwards_compress_ok26,
    Edwards_to_montgomery_ok26,
    Edwards_as_projective_niels_ok26,
    Edwards_as_projective_ok26,
    Edwards_as_affine_niels_ok26,
    Edwards_identity_ok26,
    Edwards_ct_eq_ok26,
    Edwards_conditional_select_ok26,
    Edwards_neg_ok26,
    Edwards_double_ok26,
    Edwards_add_ok26,
    Edwards_sub_ok26,
    Edwards_is_valid_ok26,
    Montgomery_differential_add_and_double_ok26,
    Montgomery_ProjectivePoint_identity_ok26,
    Montgomery_ProjectivePoint_conditional_select_ok26,
    Montgomery_ProjectivePoint_as_affine_ok26,
    Montgomery_to_edwards_ok26,
    Montgomery_elligator_encode_ok26,
    Montgomery_ct_eq_ok26,
    Ristretto_decompress_step_2_ok26,
    Ristretto_compress_ok26,
    Ristretto_elligator_ristretto_flavor_ok26,
    Ristretto_ct_eq_ok26,
    Ristretto_batch_state_from_ok26,
    Ristretto_batch_compress_closure_ok26,
    Field_pow22501_ok26,
    Field_pow_p58_ok26,
    Field_invert_ok26,
    Field_sqrt_ratio_i_ok26,
    Field_invsqrt_ok26, Bool.and_self]

/-- formulas without a safety theorem (serial u64), with the reason: none -/
def unproved51 : List (String × String) := []
/-- formulas without a safety theorem (serial u32), with the reason: none -/
def unproved26 : List (String × String) := []

/-! ## the table is complete and tied to the generated items -/

/-- the table `sigs` lists EVERY translated item of the five generated AlgIR modules, in order, with the generated
program (so a new or renamed item in the Rust source breaks the build until it gets an invariant and a theorem) -/
theorem sigs_cover51 : (sigs I51).map (fun s => (s.name, s.F)) = generatedItems := by decide +kernel
theorem sigs_cover26 : (sigs I26).map (fun s => (s.name, s.F)) = generatedItems := by decide +kernel

/-- the constant tables of the two backends are indexed as the generated `constNames` (the same in all modules) -/
theorem constNames_ok : AlgCurve.constNames = Dalek.Model.AlgBounds.constNames ∧
    AlgEdwards.constNames = Dalek.Model.AlgBounds.constNames ∧
    AlgMontgomery.constNames = Dalek.Model.AlgBounds.constNames ∧
    AlgRistretto.constNames = Dalek.Model.AlgBounds.constNames ∧
    AlgField.constNames = Dalek.Model.AlgBounds.constNames := by decide +kernel

/-! ## external producers and consumers at the boundary of the formulas -/

/-- `FieldElement51::from_bytes` produces a reduced element from any 32 bytes (the high bit is masked) -/
theorem from_bytes_fe51 (bs : List Nat) (h : EnvIn bs (bytes 32)) :
    Field51.from_bytes.evalC bs = some (Field51.from_bytes.evalW bs) ∧ EnvIn (Field51.from_bytes.evalW bs) I51.fe :=
  kernelOk_sound (by decide +kernel : kernelOk Field51.from_bytes (bytes 32) I51.fe = true) bs h

theorem from_bytes_fe26 (bs : List Nat) (h : EnvIn bs (bytes 32)) :
    Field26.from_bytes.evalC bs = some (Field26.from_bytes.evalW bs) ∧ EnvIn (Field26.from_bytes.evalW bs) I26.fe :=
  kernelOk_sound (by decide +kernel : kernelOk Field26.from_bytes (bytes 32) I26.fe = true) bs h

/-- `as_bytes` (the consumer of every `ret<-bytes` output of the encoders, and the front end of `ct_eq`,
`is_negative`, `is_zero`) is safe from a reduced element and from an unreduced sum (the output of
`Montgomery.elligator_encode`), and returns 32 bytes -/
theorem as_bytes_sum51 (l : List Nat) (h : EnvIn l I51.sum) :
    Field51.as_bytes.evalC l = some (Field51.as_bytes.evalW l) ∧ EnvIn (Field51.as_bytes.evalW l) (bytes 32) :=
  kernelOk_sound (by decide +kernel : kernelOk Field51.as_bytes I51.sum (bytes 32) = true) l h

theorem as_bytes_sum26 (l : List Nat) (h : EnvIn l I26.sum) :
    Field26.as_bytes.evalC l = some (Field26.as_bytes.evalW l) ∧ EnvIn (Field26.as_bytes.evalW l) (bytes 32) :=
  kernelOk_sound (by decide +kernel : kernelOk Field26.as_bytes I26.sum (bytes 32) = true) l h

/-- a reduced element is in particular inside the bound of a sum (so `as_bytes_sum*` covers both) -/
theorem fe_le_sum : itvsLe I51.fe I51.sum = true ∧ itvsLe I26.fe I26.sum = true := by decide +kernel

/-- the invariants are inside the documented headroom of the consuming kernels -/
theorem invs_within_contracts :
    itvsLe (I51.comp ++ I51.comp) Dalek.Model.Contracts.Field51.pre_mul = true ∧
    itvsLe I51.comp Dalek.Model.Contracts.Field51.pre_pow2k_body = true ∧
    itvsLe (I26.comp ++ I26.comp) Dalek.Model.Contracts.Field26.pre_mul = true ∧
    itvsLe I26.comp Dalek.Model.Contracts.Field26.pre_square = true := by decide +kernel

/-- every entry of the shipped precomputed tables (`ED25519_BASEPOINT_TABLE`: 32 × 8, and
`AFFINE_ODD_MULTIPLES_OF_BASEPOINT`: 64) is inside the `AffineNielsPoint` invariant -/
theorem tables_in_inv51 :
    (Consts.U64.ED25519_BASEPOINT_TABLE.all (fun row => row.all (fun e => envsIn e (AffineNiels I51))) &&
     Consts.U64.AFFINE_ODD_MULTIPLES_OF_BASEPOINT.all (fun e => envsIn e (AffineNiels I51))) = true := by
  decide +kernel

theorem tables_in_inv26 :
    (Consts.U32.ED25519_BASEPOINT_TABLE.all (fun row => row.all (fun e => envsIn e (AffineNiels I26))) &&
     Consts.U32.AFFINE_ODD_MULTIPLES_OF_BASEPOINT.all (fun e => envsIn e (AffineNiels I26))) = true := by
  decide +kernel

/-- the basepoint and the eight torsion points are inside the `EdwardsPoint` invariant -/
theorem points_in_inv51 :
    (envsIn Consts.U64.ED25519_BASEPOINT_POINT (EdwardsPoint I51) &&
     Consts.U64.EIGHT_TORSION.all (fun e => envsIn e (EdwardsPoint I51))) = true := by decide +kernel

theorem points_in_inv26 :
    (envsIn Consts.U32.ED25519_BASEPOINT_POINT (EdwardsPoint I26) &&
     Consts.U32.EIGHT_TORSION.all (fun e => envsIn e (EdwardsPoint I26))) = true := by decide +kernel

/-! ## all histories -/

/-- **No overflow along any history (serial u64).**  For EVERY sequence of external inputs and calls of the
translated formulas that is well typed w.r.t. the invariants (`typeHist`: each argument register's bound vector is
included in the input invariant of the formula it is passed to — what Rust's types enforce) and every initial
register file inside its bound vectors: the debug-build execution of the whole history never panics (`runHistC`
is `some`), equals the release-build execution (`runHistW`), and EVERY value ever produced lies inside its bound
vector. -/
theorem no_overflow_all_histories51 (h : List Step) (tys0 tys : List (List Itv)) (regs0 : List (List Nat))
    (ht : typeHist (sigs I51) h tys0 = some tys) (hr : EnvsIn regs0 tys0) :
    runHistC B51 (sigs I51) h regs0 = some (runHistW B51 (sigs I51) h regs0) ∧
      EnvsIn (runHistW B51 (sigs I51) h regs0) tys :=
  no_overflow_history B51 (sigs I51) all_safe51 h tys0 tys regs0 ht hr

/-- **No overflow along any history (serial u32).** -/
theorem no_overflow_all_histories26 (h : List Step) (tys0 tys : List (List Itv)) (regs0 : List (List Nat))
    (ht : typeHist (sigs I26) h tys0 = some tys) (hr : EnvsIn regs0 tys0) :
    runHistC B26 (sigs I26) h regs0 = some (runHistW B26 (sigs I26) h regs0) ∧
      EnvsIn (runHistW B26 (sigs I26) h regs0) tys :=
  no_overflow_history B26 (sigs I26) all_safe26 h tys0 tys regs0 ht hr

/-! ## non-vacuity -/

/-- the worst case (all limbs of all inputs at their bound simultaneously) is inside the hypotheses -/
example : EnvsIn (List.replicate 8 (List.replicate 5 (2 ^ 52 - 1))) (sig_Edwards_add I51).pre :=
  envsIn_iff.1 (by decide +kernel)
example : EnvsIn (List.replicate 8 (I26.fe.map (·.hi))) (sig_Edwards_add I26).pre :=
  envsIn_iff.1 (by decide +kernel)
example : EnvsIn ((CompletedPoint I26).map (fun v => v.map (·.hi))) (sig_Curve_CompletedPoint_as_extended I26).pre :=
  envsIn_iff.1 (by decide +kernel)

/-- a well-typed history exists: the basepoint `B` (4 registers), `2B`, `2B + B`, `-(3B)`, its compression, and a
table entry added to it followed by the conversion back to extended coordinates -/
def exampleHistory51 : List Step :=
  (Consts.U64.ED25519_BASEPOINT_POINT.map (fun l => Step.input l I51.fe)) ++
  [ .call 29 [0, 1, 2, 3],                      -- Edwards.double        -> 4..7
    .call 30 [4, 5, 6, 7, 0, 1, 2, 3],          -- Edwards.add           -> 8..11
    .call 28 [8, 9, 10, 11],                    -- Edwards.neg           -> 12..15
    .call 20 [12, 13, 14, 15] ] ++              -- Edwards.compress      -> 16 (y), 17 (sign)
  (List.zipWith Step.input (Consts.U64.AFFINE_ODD_MULTIPLES_OF_BASEPOINT.getD 5 []) (AffineNiels I51)) ++  -- 18..20
  [ .call 14 [12, 13, 14, 15, 18, 19, 20],      -- Curve.add_AffineNielsPoint -> 21..24 (completed)
    .call 10 [21, 22, 23, 24] ]                 -- Curve.CompletedPoint_as_extended -> 25..28

theorem exampleHistory51_typed : typeHist (sigs I51) exampleHistory51 [] =
    some (EdwardsPoint I51 ++ EdwardsPoint I51 ++ EdwardsPoint I51 ++ EdwardsPoint I51 ++ [I51.fe, inv_choice] ++
      AffineNiels I51 ++ CompletedPoint I51 ++ EdwardsPoint I51) := by decide +kernel

/-- hence its debug-build execution does not panic -/
example : (runHistC B51 (sigs I51) exampleHistory51 []).isSome = true := by
  rw [(no_overflow_all_histories51 _ _ _ [] exampleHistory51_typed trivial).1]; rfl

/-! ## the checker is not trivially `true` (and the u32 margins are fractions of a bit) -/

/-- u32: a doubling whose inputs are unreduced sums is REJECTED (`X + Y` exceeds the `b < 1.75` headroom of `square`) -/
example : check B26 AlgCurve.ProjectivePoint_double [I26.sum, I26.sum, I26.sum] (CompletedPoint I26) = false := by
  decide +kernel
/-- u32: the `EdwardsPoint` invariant cannot be weakened to "one spare bit per limb": the addition is REJECTED
(`Y + X` of the converted operand would be the SECOND operand of a product with `b = 2 > 1.75`) -/
example : check B26 AlgEdwards.add (List.replicate 8 (l2625 1)) (List.replicate 4 (l2625 1)) = false := by
  decide +kernel
/-- u32: a `CompletedPoint` with coordinates twice the invariant is REJECTED by `as_extended` -/
example : check B26 AlgCurve.CompletedPoint_as_extended (List.replicate 4 (l2625f 672 100)) (EdwardsPoint I26) = false := by
  decide +kernel
/-- u64: limbs of 55 bits are REJECTED by `as_extended` (`debug_assert!(a[i] < 2^54)` of `mul`) -/
example : check B51 AlgCurve.CompletedPoint_as_extended (List.replicate 4 (rep 5 (ub (2 ^ 55 - 1)))) (EdwardsPoint I51) = false := by
  decide +kernel

end Dalek.Props.C11.Formulas

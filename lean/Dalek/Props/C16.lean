import Dalek.Props.C16.Serde

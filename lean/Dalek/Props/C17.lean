import Dalek.Props.C17.Consts
import Dalek.Props.C17.Group

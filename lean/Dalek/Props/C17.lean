import Dalek.Props.C17.Consts

import Dalek.Props.C10.NonInterference

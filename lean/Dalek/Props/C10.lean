import Dalek.Props.C10.NonInterference
import Dalek.Props.C10.BranchSites
import Dalek.Props.C10.Vector

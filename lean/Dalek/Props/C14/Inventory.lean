import Dalek.Gen.Inventory
import Dalek.Model.Secrets

/-!
# C14 — secret material is erased on drop and from freed heap buffers (property theorems)

Two layers.

**(1) Theorems over the regenerated inventory** (`Dalek.Gen.Inventory`, rebuilt from the Rust sources on every
run).  They confront the *hand-written specification* `Dalek.Model.Secrets` with the *syntactic facts* of the
source text:

* `drop_erases`       — every secret-holding type has drop glue (`impl Drop` calling `.zeroize()` or
  `derive(ZeroizeOnDrop)`) that overwrites every secret field;
* `zeroize_resets`    — every `impl Zeroize` body is of an accepted shape and its abstract execution yields the
  specified reset state (scalar 0, Edwards/Ristretto identity, identity encodings, …), for every backend copy;
* `heap_wiped` — every secret-derived `Vec` of Straus `multiscalar_mul` (serial and vector copy) and of
  `Scalar::batch_invert` is wiped, by a top-level statement with no use after it and no early exit before it, or
  by a `Zeroizing` wrapper;
* `ct_vecs_accounted`, `secret_heap_is_obligation`, `ct_path_scanned` — **every** heap-allocating local of
  **every** non-test function of the three crates (so in particular of every function on the constant-time call
  paths) is either wiped or classified by hand as not secret-derived, and the set of such locals is exactly the
  expected one.

A change of the sources that removes a `zeroize()` call, adds an un-wiped `Vec`, adds a field to a secret type
without erasing it, or changes a `zeroize` body to an unknown shape makes these theorems fail to build.

**(2) An abstract allocation-event model** of the same functions (`traceStraus`, `traceBatchInvert`) and the
theorem `freed_secret_buffers_zero`: for every `n`, every `free` of a tainted buffer is preceded by a `zeroize`
of it with no `write` in between.

## Honest scope

The facts are *syntactic* and the traces are a model of the **source-level order of events**, written by hand
from the code.  Not modelled, and therefore only covered by the runtime inspection of the check (instrumenting
allocator, `drop_in_place` + read-back): compiler dead-store elimination (the `zeroize` crate's volatile writes
are trusted to survive), copies of secrets made by moves / left on the stack or in registers, `Vec`
reallocation during `collect()` when the iterator's size hint is inexact (an earlier, smaller block would be
freed un-wiped), and unwinding (a panic between allocation and an *explicit* `Zeroize::zeroize(&mut v)` frees
the buffer un-wiped; e.g. `Scalar::batch_invert`'s `debug_assert!` on a zero input in a debug build — the
`Zeroizing` wrapper of the vector Straus copy does not have this gap).  All erasure code is compiled only
under `feature = "zeroize"` (a default feature of all three crates); the theorems record that gate.
-/

namespace Dalek.Props.C14

open Dalek.Gen.Inventory Dalek.Model.Secrets

/-! ## 1a. Drop -/

/-- **Drop erases the secret fields.**  For each of the six secret-holding types of the specification there
is a regenerated `DropFact` for the struct of that name in that file whose mechanism is `impl Drop` or
`derive(ZeroizeOnDrop)`, which carries the `ZeroizeOnDrop` marker, is gated exactly by `feature = "zeroize"`,
and whose overwritten fields include every secret field. -/
theorem drop_erases :
    ∀ T ∈ secretSpec, ∃ f ∈ dropFacts, f.ty = T.ty ∧ f.file = T.file ∧ f.mechanism ≠ "none" ∧
      f.marker = true ∧ f.gate = zeroizeGate ∧ ∀ x ∈ T.secretFields, x ∈ f.zeroized := by
  decide +kernel

/-- Each secret type name is defined exactly once in the three crates (so `drop_erases` speaks about *the*
type of that name) and every secret field is a field of the struct. -/
theorem secret_types_unique :
    ∀ T ∈ secretSpec, ∀ f ∈ dropFacts, f.ty = T.ty → f.file = T.file ∧ ∀ x ∈ T.secretFields, x ∈ f.fields := by
  decide +kernel

/-- The declared types of the fields the specification talks about are as the specification assumes
(so "`zeroized`" has the intended meaning: all-zero array, or the reset state of the named type). -/
theorem field_types_as_specified :
    ∀ e ∈ fieldTypeSpec, ∃ d ∈ dropFacts, d.ty = e.1 ∧ d.file = e.2.1 ∧
      (e.2.2.1, e.2.2.2) ∈ d.fields.zip d.fieldTypes := by
  decide +kernel

/-! ## 1b. Explicit zeroize -/

/-- abstract state: field path ↦ abstract value -/
abbrev AbsState := List (String × AbsVal)

def getField (st : AbsState) (f : String) : AbsVal :=
  match st.find? (fun e => e.1 == f) with
  | some e => e.2
  | none => .untouched

def setField (st : AbsState) (f : String) (v : AbsVal) : AbsState :=
  (f, v) :: st.filter (fun e => e.1 != f)

/-- Abstract execution of one statement of a `zeroize` body.  Accepted shapes:

* `self.f.zeroize()`                → `f` is zeroized (all-zero array, or the reset state of `f`'s type);
* `self.f.iter_mut().zeroize()`     → every element of `f` is zeroized;
* `self.f = FieldElement::ONE`      → `f` is the field element 1;
* `self.f[0] = 1` **after** `f` was zeroized → `f` is the byte string `01 00 … 00`.

Everything else (any other assignment, any unknown statement) is rejected (`none`). -/
def stepOp (st : AbsState) : ZOp → Option AbsState
  | .zeroizeField f => some (setField st f .zeroized)
  | .zeroizeElems f => some (setField st f .elemsZeroized)
  | .setByte f 0 1 => if getField st f = .zeroized then some (setField st f .leOne) else none
  | .setByte _ _ _ => none
  | .assignConst f c => if c = "FieldElement::ONE" then some (setField st f .one) else none
  | .assignSelf _ => none
  | .other _ => none

def runOps : AbsState → List ZOp → Option AbsState
  | st, [] => some st
  | st, op :: ops => match stepOp st op with
    | some st' => runOps st' ops
    | none => none

/-- `resetsToIdentity ops expected`: the body is of an accepted shape and leaves exactly the expected state:
every expected field has its expected value and no other field path is written. -/
def resetsToIdentity (ops : List ZOp) (expected : List (String × AbsVal)) : Bool :=
  match runOps [] ops with
  | none => false
  | some st => expected.all (fun e => getField st e.1 == e.2) && st.all (fun e => expected.any (fun x => x.1 == e.1))

/-- **Explicit zeroisation resets to zero / the identity.**  For every type of the specification and every
file (backend copy) that must define it, an `impl Zeroize` (or derive) exists there, and *every* such impl
has a body whose abstract execution yields the specified state — `Scalar ↦ bytes = 0`,
`EdwardsPoint ↦ (X, Y, Z, T) = (0, 1, 1, 0)`, `CompressedEdwardsY ↦ 01 00 … 00`, … (see `resetSpec` for why
each state is zero resp. the identity). -/
theorem zeroize_resets :
    ∀ r ∈ resetSpec ++ resetSpecFiat, ∀ file ∈ r.files,
      (∃ z ∈ zeroizeFacts, z.ty = r.ty ∧ z.file = file) ∧
      (∀ z ∈ zeroizeFacts, z.ty = r.ty → z.file = file → resetsToIdentity z.ops r.fields = true) := by
  decide +kernel

/-- Coverage: every `impl Zeroize` / `derive(Zeroize)` found in the three crates is covered by the
specification (a new impl must be specified before this builds again). -/
theorem zeroize_impls_all_specified :
    ∀ z ∈ zeroizeFacts, ∃ r ∈ resetSpec ++ resetSpecFiat, r.ty = z.ty ∧ z.file ∈ r.files := by
  decide +kernel

/-- The checker has teeth: a body that forgets `T`, or assigns something other than `ONE`, is rejected. -/
example : resetsToIdentity [.zeroizeField "X", .assignConst "Y" "FieldElement::ONE", .assignConst "Z" "FieldElement::ONE"]
    [("X", .zeroized), ("Y", .one), ("Z", .one), ("T", .zeroized)] = false := by decide +kernel
example : resetsToIdentity [.zeroizeField "X", .assignConst "Y" "FieldElement::ZERO"] [("X", .zeroized), ("Y", .one)] = false := by
  decide +kernel
example : resetsToIdentity [.setByte "0" 0 1] [("0", .leOne)] = false := by decide +kernel

/-! ## 1c. Heap buffers -/

/-- **Secret-derived heap buffers are wiped.**  For every obligation of the specification the regenerated
`WipeFact` of that function lists the `Vec` among its locals and among the wiped ones; the wipe is gated by
`feature = "zeroize"`; an explicitly wiped buffer is not used after the wiping statement and no `return`/`?`
precedes it (for a `Zeroizing` wrapper both counters are 0 by construction: the wipe happens in `Drop`). -/
theorem heap_wiped :
    ∀ o ∈ wipeObligations, ∃ w ∈ wipeFacts, w.file = o.file ∧ w.func = o.func ∧ o.vec ∈ w.vecLocals ∧
      o.vec ∈ w.wiped ∧ w.gate = zeroizeGate ∧ w.usesAfterWipe = 0 ∧ w.exitsBeforeWipe = 0 := by
  decide +kernel

/-- **Every heap allocation of the non-test code is accounted for, and the set is exactly the expected one.**

1. Every heap-allocating local (`Vec`, `vec![]`, `.collect()`, `.to_vec()`, `Box`, `String`, …; at any nesting
   depth; un-named allocations as `<expr> …`) of every non-test function of the three crates has an entry in the
   hand-written `heapSpec`; if the entry says it is secret-derived, the regenerated fact says it is wiped, with no
   use after the wipe and no early exit before it.
2. Conversely every `heapSpec` entry corresponds to an allocation that is really there.

A new allocation anywhere — e.g. collecting the scalar iterator into a `Vec` in
`impl MultiscalarMul for EdwardsPoint` before the backend dispatch — makes (1) fail until it is classified. -/
theorem ct_vecs_accounted :
    (∀ w ∈ wipeFacts, ∀ v ∈ w.vecLocals, ∃ e ∈ heapSpec, e.file = w.file ∧ e.func = w.func ∧ e.name = v ∧
      (e.cls = .secretWiped → v ∈ w.wiped ∧ w.usesAfterWipe = 0 ∧ w.exitsBeforeWipe = 0)) ∧
    (∀ e ∈ heapSpec, ∃ w ∈ wipeFacts, w.file = e.file ∧ w.func = e.func ∧ e.name ∈ w.vecLocals) := by
  decide +kernel

/-- The secret-derived entries of `heapSpec` are exactly the wipe obligations of `heap_wiped`. -/
theorem secret_heap_is_obligation :
    (∀ e ∈ heapSpec, e.cls = .secretWiped → ∃ o ∈ wipeObligations, o.file = e.file ∧ o.func = e.func ∧ o.vec = e.name) ∧
    (∀ o ∈ wipeObligations, ∃ e ∈ heapSpec, e.cls = .secretWiped ∧ o.file = e.file ∧ o.func = e.func ∧ o.vec = e.name) := by
  decide +kernel

/-- Every function on the constant-time call paths (`ctPathFns`: scalar multiplication, multiscalar
multiplication, basepoint tables, compression, the Montgomery ladder, scalar arithmetic / inversion / recoding,
lookup-table construction and selection, Ed25519 signing and key expansion, X25519) was seen by the inventory.
Hence, by `ct_vecs_accounted`, such a function contains no heap-allocation marker other than those in `heapSpec`.
(Limits: the markers are syntactic; an allocation made *inside a dependency* — `to_pkcs8_der`, a `Digest`
implementation — is not seen.) -/
theorem ct_path_scanned :
    ∀ f ∈ ctPathFns, ∃ p ∈ scannedFns, p.1 = f.1 ∧ f.2 ∈ p.2 := by
  decide +kernel

/-! ## 2. Allocation-event model -/

/-- Source-level events on heap buffers.  `tainted` = the buffer will hold data derived from secret scalars. -/
inductive Event where
  | alloc (id size : Nat) (tainted : Bool)
  | write (id : Nat)
  | zeroize (id : Nat)
  | free (id : Nat)
  deriving DecidableEq, Repr

def Event.isFree : Event → Bool
  | .free _ => true
  | _ => false

/-- `pre` contains a `zeroize id` after which `id` is not written again. -/
def PrecededByZeroize (id : Nat) (pre : List Event) : Prop :=
  ∃ a b, pre = a ++ Event.zeroize id :: b ∧ Event.write id ∉ b

/-- Every `free id` of a tainted buffer is preceded by `zeroize id` with no `write id` in between. -/
def FreedClean (tr : List Event) : Prop :=
  ∀ pre post id, tr = pre ++ Event.free id :: post →
    (∃ size, Event.alloc id size true ∈ tr) → PrecededByZeroize id pre

/-- `Straus::multiscalar_mul` on `n` (scalar, point) pairs, both copies (`tbl` = size of one lookup table:
8 × 160 bytes in every backend).  Source order:

1. `lookup_tables: Vec<_> = points.map(LookupTable::from).collect()`  — buffer 0, public, `n` element writes;
2. `scalar_digits: Vec<_> = scalars.map(as_radix_16).collect()`       — buffer 1, tainted, `n` element writes
   (64 bytes each);
3. the 64 × n main loop only *reads* both buffers (no event);
4. serial copy: `Zeroize::zeroize(&mut scalar_digits)`; vector copy: the `Zeroizing` wrapper's `Drop` — in both
   cases `zeroize 1` immediately followed by the deallocation `free 1` (locals are dropped in reverse order of
   declaration, so buffer 1 before buffer 0), then `free 0`.

For `n = 0` neither `Vec` allocates. -/
def strausBody (n tbl : Nat) : List Event :=
  [Event.alloc 0 (n * tbl) false] ++ List.replicate n (Event.write 0) ++
  [Event.alloc 1 (n * 64) true] ++ List.replicate n (Event.write 1)

def traceStraus (n : Nat) (tbl : Nat := 1280) : List Event :=
  if n = 0 then [] else strausBody n tbl ++ [Event.zeroize 1, Event.free 1, Event.free 0]

/-- `Scalar::batch_invert` on `n` inputs (`elem` = size of an `UnpackedScalar`: 40 bytes for `Scalar52`, 36 for
`Scalar29`).  Source order: `scratch = vec![one; n]` (buffer 0, tainted, `n` initialising writes), first pass
writes the `n` prefix products into it, the second pass only reads it, `Zeroize::zeroize(&mut scratch)`, and the
`Vec` is freed at the end of the function. -/
def batchInvertBody (n elem : Nat) : List Event :=
  [Event.alloc 0 (n * elem) true] ++ List.replicate n (Event.write 0) ++ List.replicate n (Event.write 0)

def traceBatchInvert (n : Nat) (elem : Nat := 40) : List Event :=
  if n = 0 then [] else batchInvertBody n elem ++ [Event.zeroize 0, Event.free 0]

/-! ### proofs -/

private theorem split_noFree {A B pre post : List Event} {id : Nat}
    (hA : ∀ e ∈ A, e.isFree = false) (h : A ++ B = pre ++ Event.free id :: post) :
    ∃ pre', pre = A ++ pre' ∧ B = pre' ++ Event.free id :: post := by
  induction A generalizing pre with
  | nil => exact ⟨pre, rfl, h⟩
  | cons a A ih =>
    cases pre with
    | nil =>
      simp only [List.cons_append, List.nil_append, List.cons.injEq] at h
      have := hA a (List.mem_cons_self ..)
      rw [h.1] at this
      simp [Event.isFree] at this
    | cons p pre =>
      simp only [List.cons_append, List.cons.injEq] at h
      obtain ⟨pre', h1, h2⟩ := ih (fun e he => hA e (List.mem_cons_of_mem _ he)) h.2
      exact ⟨pre', by rw [h.1, h1]; rfl, h2⟩

private theorem freedClean_nil : FreedClean [] := by
  intro pre post id h
  cases pre <;> simp at h

/-- one tainted buffer `s`, wiped then freed, followed by the free of a public buffer `p` -/
private theorem freedClean_two (body : List Event) (s p : Nat)
    (hfree : ∀ e ∈ body, e.isFree = false) (hpub : ∀ size, Event.alloc p size true ∉ body) :
    FreedClean (body ++ [Event.zeroize s, Event.free s, Event.free p]) := by
  intro pre post id h ht
  obtain ⟨pre', h1, h2⟩ := split_noFree hfree h
  rcases pre' with _ | ⟨x, _ | ⟨y, _ | ⟨z, w⟩⟩⟩
  · simp at h2
  · simp only [List.cons_append, List.nil_append, List.cons.injEq, Event.free.injEq] at h2
    obtain ⟨hx, hid, _⟩ := h2
    subst hx; subst hid
    exact ⟨body, [], by rw [h1], by simp⟩
  · simp only [List.cons_append, List.nil_append, List.cons.injEq, Event.free.injEq] at h2
    obtain ⟨_, _, hid, _⟩ := h2
    subst hid
    obtain ⟨size, hm⟩ := ht
    rw [List.mem_append] at hm
    rcases hm with hm | hm
    · exact absurd hm (hpub size)
    · simp at hm
  · simp at h2

/-- one tainted buffer `s`, wiped then freed -/
private theorem freedClean_one (body : List Event) (s : Nat)
    (hfree : ∀ e ∈ body, e.isFree = false) :
    FreedClean (body ++ [Event.zeroize s, Event.free s]) := by
  intro pre post id h _
  obtain ⟨pre', h1, h2⟩ := split_noFree hfree h
  rcases pre' with _ | ⟨x, _ | ⟨y, w⟩⟩
  · simp at h2
  · simp only [List.cons_append, List.nil_append, List.cons.injEq, Event.free.injEq] at h2
    obtain ⟨hx, hid, _⟩ := h2
    subst hx; subst hid
    exact ⟨body, [], by rw [h1], by simp⟩
  · simp at h2

private theorem strausBody_noFree (n tbl : Nat) : ∀ e ∈ strausBody n tbl, e.isFree = false := by
  intro e he
  simp only [strausBody, List.mem_append, List.mem_replicate, List.mem_singleton] at he
  rcases he with ((rfl | ⟨_, rfl⟩) | rfl) | ⟨_, rfl⟩ <;> rfl

private theorem strausBody_pub (n tbl size : Nat) : Event.alloc 0 size true ∉ strausBody n tbl := by
  intro he
  simp only [strausBody, List.mem_append, List.mem_replicate, List.mem_singleton] at he
  rcases he with ((h | ⟨_, h⟩) | h) | ⟨_, h⟩ <;> simp at h

private theorem batchInvertBody_noFree (n elem : Nat) : ∀ e ∈ batchInvertBody n elem, e.isFree = false := by
  intro e he
  simp only [batchInvertBody, List.mem_append, List.mem_replicate, List.mem_singleton] at he
  rcases he with (rfl | ⟨_, rfl⟩) | ⟨_, rfl⟩ <;> rfl

/-- **No freed heap block of the constant-time multiscalar multiplication depends on the secret scalars**
(source-level event model, both copies, every batch size `n` and table size). -/
theorem freed_secret_buffers_zero_straus (n tbl : Nat) : FreedClean (traceStraus n tbl) := by
  unfold traceStraus
  split
  · exact freedClean_nil
  · exact freedClean_two _ 1 0 (strausBody_noFree n tbl) (fun size => strausBody_pub n tbl size)

/-- **No freed heap block of `Scalar::batch_invert` depends on the secret scalars** (source-level event model,
every `n`, both limb sizes). -/
theorem freed_secret_buffers_zero_batch_invert (n elem : Nat) : FreedClean (traceBatchInvert n elem) := by
  unfold traceBatchInvert
  split
  · exact freedClean_nil
  · exact freedClean_one _ 0 (batchInvertBody_noFree n elem)

/-- Both functions, every `n`. -/
theorem freed_secret_buffers_zero (n : Nat) :
    FreedClean (traceStraus n) ∧ FreedClean (traceBatchInvert n) ∧ FreedClean (traceBatchInvert n 36) :=
  ⟨freed_secret_buffers_zero_straus n _, freed_secret_buffers_zero_batch_invert n _,
   freed_secret_buffers_zero_batch_invert n _⟩

/-! ### the statements are not vacuous -/

/-- the traces do free a tainted buffer … -/
example : Event.free 1 ∈ traceStraus 2 ∧ Event.alloc 1 128 true ∈ traceStraus 2 := by decide
example : Event.free 0 ∈ traceBatchInvert 3 ∧ Event.alloc 0 120 true ∈ traceBatchInvert 3 := by decide

/-- … and `FreedClean` rejects a trace that frees a tainted buffer without wiping it, or that writes to it
between the wipe and the free. -/
example : ¬ FreedClean [Event.alloc 1 64 true, Event.write 1, Event.free 1] := by
  intro h
  obtain ⟨a, b, hab, _⟩ := h [Event.alloc 1 64 true, Event.write 1] [] 1 rfl ⟨64, by simp⟩
  have : Event.zeroize 1 ∈ [Event.alloc 1 64 true, Event.write 1] := by rw [hab]; simp
  simp at this

example : ¬ FreedClean [Event.alloc 1 64 true, Event.zeroize 1, Event.write 1, Event.free 1] := by
  intro h
  obtain ⟨a, b, hab, hw⟩ := h [Event.alloc 1 64 true, Event.zeroize 1, Event.write 1] [] 1 rfl ⟨64, by simp⟩
  rcases a with _ | ⟨x, _ | ⟨y, _ | ⟨z, w⟩⟩⟩ <;> simp at hab
  obtain ⟨_, rfl⟩ := hab
  simp at hw

end Dalek.Props.C14

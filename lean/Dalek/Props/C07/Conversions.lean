import Dalek.Proofs.MontElligator
import Dalek.Proofs.MontGroup
/-!
# C07 — Montgomery ↔ Edwards conversions, Elligator2 (property theorems, part 2)

* `EdwardsPoint::to_montgomery` (translated item `Dalek.Gen.AlgEdwards.to_montgomery`): `u = (1+y)/(1−y)`,
  identity ↦ `0`;
* `MontgomeryPoint::to_edwards` (translated field part `Dalek.Gen.AlgMontgomery.to_edwards` + `Spec.decompress`):
  `None` exactly for `u = −1` and for twist points; otherwise a curve point with the requested sign that maps
  back to `u`;
* `montgomery::elligator_encode` (translated item) is `Spec.elligatorEncode` and always lands on the curve.
-/
namespace Dalek.Props.C07
open Dalek.IR Dalek.Spec Dalek.Model Dalek.Model.Ladder Dalek.Proofs.Mont Dalek.Bridge

/-! ## `to_montgomery` -/

/-- **`to_montgomery_spec`** (formula level): the translated item computes `(Z+Y)·(Z−Y)^(p−2)` on all inputs. -/
theorem to_montgomery_formula (X Y Z T : Nat) :
    Dalek.Gen.AlgEdwards.to_montgomery.run natOps [X, Y, Z, T] = [fmul (fadd Z Y) (finv (fsub Z Y))] :=
  to_montgomery_nat X Y Z T

/-- **`to_montgomery_spec`**: for every extended point with `Z ≠ 0` the result is the canonical encoding of
`(1+y)/(1−y)`, `y = Y/Z` (`Spec.toMontgomery` of the affine point; `0⁻¹ = 0`). -/
theorem to_montgomery_spec (e : EPt) (hZ : (e.Z : Fp) ≠ 0) :
    edToMontgomery e = feToBytes (Spec.toMontgomery e.toAffine) := edToMontgomery_eq e hZ

/-- … in terms of the represented group element `Q`: the value is `(1 + y(Q)) / (1 − y(Q))` in `GF(p)`. -/
theorem to_montgomery_value {e : EPt} {Q : Ed} (h : ERep e Q) :
    ((feFromBytes (edToMontgomery e) : Nat) : Fp) = (1 + Q.y) / (1 - Q.y) := edToMontgomery_val h

/-- The result only depends on the group element, not on the projective representative. -/
theorem to_montgomery_well_defined {e f : EPt} {Q : Ed} (he : ERep e Q) (hf : ERep f Q) :
    edToMontgomery e = edToMontgomery f := by
  rw [edToMontgomery_rep he, edToMontgomery_rep hf]

/-- **identity ↦ `u = 0`** (the exceptional point of the map: `1 − y = 0`, and `0.invert() = 0`), for every
representative of the identity. -/
theorem to_montgomery_identity {e : EPt} (h : ERep e 0) : edToMontgomery e = List.replicate 32 0 := by
  rw [edToMontgomery_rep h, uOfEd_zero]; decide +kernel

example : ERep EPt.zero 0 := erep_zero

/-- the basepoints correspond: `to_montgomery(B) = 9` -/
theorem to_montgomery_basepoint : edToMontgomery EPt.basepoint = X25519_BASEPOINT := by
  rw [edToMontgomery_rep erep_basepoint, uOfEd_Bpt]; decide +kernel

/-! ## `to_edwards` -/

/-- The translated field part of `to_edwards`: the early-return test is `u == −1`, the value is
`y = (u−1)·(u+1)^(p−2)`. -/
theorem to_edwards_formula (u : Nat) :
    Dalek.Gen.AlgMontgomery.to_edwards.run natOps [u] =
      [b2n (u % P == P - 1), fmul (fsub u 1) (finv (fadd u 1))] := to_edwards_nat u

/-- The model of `MontgomeryPoint::to_edwards(sign)` is `Spec.toEdwards` on the decoded `u`
(bit 255 ignored, reduced mod p). -/
theorem to_edwards_eq_spec (u : List UInt8) (sign : Bool) :
    Ladder.toEdwards u sign = Spec.toEdwards (feFromBytes u) sign := toEdwards_eq u sign

/-- **`to_edwards_spec`** (1): `None` iff `u = −1` or the `y = (u−1)/(u+1)` with the sign bit is not
decompressible. -/
theorem to_edwards_none_iff (u : Nat) (s : Bool) :
    Spec.toEdwards u s = none ↔
      (u % P = P - 1 ∨ decompress (setSignBit (feToBytes (yOfU u)) s) = none) := by
  rw [toEdwards_unfold]
  by_cases h : u % P = P - 1
  · rw [if_pos h]; exact ⟨fun _ => Or.inl h, fun _ => rfl⟩
  · rw [if_neg h]; exact ⟨Or.inr, fun h' => h'.resolve_left h⟩

/-- **`to_edwards_spec`** (2), the failure set in terms of `u` alone: `None` exactly when `u = −1` or `u` is on
the twist, i.e. `u³ + A u² + u` is a non-square (`A = 486662`); independent of the sign. -/
theorem to_edwards_none_iff_twist (u : Nat) (s : Bool) :
    Spec.toEdwards u s = none ↔
      ((u : Fp) = -1 ∨ ¬ IsSquare ((u : Fp) ^ 3 + 486662 * (u : Fp) ^ 2 + (u : Fp))) :=
  toEdwards_eq_none_iff u s

/-- `u = −1` itself is on the twist (`(−1)³ + A − 1 = A − 2` is a non-square): the early return only saves
the inversion of `0`. -/
theorem minus_one_on_twist : ¬ IsSquare ((-1 : Fp) ^ 3 + 486662 * (-1 : Fp) ^ 2 + (-1 : Fp)) := by
  have : (-1 : Fp) ^ 3 + 486662 * (-1 : Fp) ^ 2 + (-1 : Fp) = 486660 := by norm_num
  rw [this]; exact A_sub_two_not_isSquare

/-- **`to_edwards_spec`** (3): a returned point is a canonical point on the curve, `to_montgomery` of it is `u`
again (`to_montgomery ∘ to_edwards = id` on values), and its `x` has the requested sign unless `x = 0`. -/
theorem to_edwards_some {u : Nat} {s : Bool} {p : Pt} (h : Spec.toEdwards u s = some p) :
    onCurve p = true ∧ Canon p ∧ Spec.toMontgomery p = u % P ∧ (p.x ≠ 0 → isNeg p.x = s) :=
  toEdwards_some h

/-- byte-level round trip: `to_edwards(sign)` then `to_montgomery` returns the canonical encoding of `u`. -/
theorem to_montgomery_to_edwards {u : List UInt8} {s : Bool} {p : Pt} (h : Ladder.toEdwards u s = some p) :
    edToMontgomery (EPt.ofAffine p) = feToBytes (feFromBytes u) := by
  rw [to_edwards_eq_spec] at h
  obtain ⟨h1, -, h3, -⟩ := toEdwards_some h
  rw [edToMontgomery_rep (erep_ofAffine (rep_toEd p h1)), ← toMontgomery_rep (rep_toEd p h1), h3,
    Nat.mod_eq_of_lt (feFromBytes_lt u)]

/-- both outcomes occur: the basepoint converts, `u = 2` is on the twist, `u = −1` is rejected -/
example : Spec.toEdwards 9 false = some B := by decide +kernel
example : Spec.toEdwards 2 false = none := by decide +kernel
example : Spec.toEdwards (P - 1) true = none := by decide +kernel

/-! ## Elligator2 -/

/-- The translated `elligator_encode` is `Spec.elligatorEncode`, for every `r_0`. -/
theorem elligator_encode_eq_spec (r0 : Nat) :
    Ladder.elligatorEncode r0 = Spec.elligatorEncode r0 := by
  unfold Ladder.elligatorEncode; rw [elligator_nat, List.getD_cons_zero]

/-- **`elligator_on_curve`**: for every `r_0` and either sign, `to_edwards` of the Elligator2 output succeeds:
`1 + 2r² ≠ 0` (as `−1/2` is a non-square), the output `u` satisfies "`u³ + A u² + u` is a square", and `u ≠ −1`. -/
theorem elligator_on_curve (r0 : Nat) (sign : Bool) :
    Spec.toEdwards (Spec.elligatorEncode r0) sign ≠ none := elligator_toEdwards_ne_none r0 sign

theorem elligator_on_curve_field (r0 : Nat) :
    ((Spec.elligatorEncode r0 : Nat) : Fp) ≠ -1 ∧
      IsSquare (((Spec.elligatorEncode r0 : Nat) : Fp) ^ 3 + 486662 * ((Spec.elligatorEncode r0 : Nat) : Fp) ^ 2
        + ((Spec.elligatorEncode r0 : Nat) : Fp)) := elligator_curve r0

/-! ## axiom audit -/

/-- info: 'Dalek.Props.C07.to_montgomery_spec' depends on axioms: [propext, Classical.choice, Quot.sound] -/
#guard_msgs in #print axioms to_montgomery_spec
/-- info: 'Dalek.Props.C07.to_montgomery_identity' depends on axioms: [propext, Classical.choice, Quot.sound] -/
#guard_msgs in #print axioms to_montgomery_identity
/-- info: 'Dalek.Props.C07.to_edwards_eq_spec' depends on axioms: [propext, Classical.choice, Quot.sound] -/
#guard_msgs in #print axioms to_edwards_eq_spec
/-- info: 'Dalek.Props.C07.to_edwards_none_iff_twist' depends on axioms: [propext, Classical.choice, Quot.sound] -/
#guard_msgs in #print axioms to_edwards_none_iff_twist
/-- info: 'Dalek.Props.C07.to_edwards_some' depends on axioms: [propext, Classical.choice, Quot.sound] -/
#guard_msgs in #print axioms to_edwards_some
/-- info: 'Dalek.Props.C07.to_montgomery_to_edwards' depends on axioms: [propext, Classical.choice, Quot.sound] -/
#guard_msgs in #print axioms to_montgomery_to_edwards
/-- info: 'Dalek.Props.C07.elligator_encode_eq_spec' depends on axioms: [propext, Classical.choice, Quot.sound] -/
#guard_msgs in #print axioms elligator_encode_eq_spec
/-- info: 'Dalek.Props.C07.elligator_on_curve' depends on axioms: [propext, Classical.choice, Quot.sound] -/
#guard_msgs in #print axioms elligator_on_curve

end Dalek.Props.C07

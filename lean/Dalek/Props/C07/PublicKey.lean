import Dalek.Proofs.MontXOnly
/-!
# C07 — the ladder computes scalar multiplication; public-key derivation through the Edwards basepoint,
Diffie-Hellman agreement, Ed25519 → X25519 key conversion (property theorems, part 3)

`PublicKey::from(&secret)` goes through `EdwardsPoint::mul_base_clamped(secret).to_montgomery()`, while
`diffie_hellman`/`x25519` use the Montgomery ladder.  That both compute the same function is the correctness of
the x-only ladder with respect to the GROUP law: `ladder_x_only` below (proved in `Dalek/Proofs/MontXOnly.lean`
from the Edwards group `Ed`, via `π(P) = (1+y : 1−y)`; the doubling and differential-addition formulas are
verified as rational identities modulo the curve equation, degenerate points included).

Scope: the group-level statements are about `u`-coordinates of points of the CURVE (every honest public key is
one).  For `u` on the quadratic twist, X25519 is still fully specified by `x25519_eq_rfc7748` (part 1), but no
group-level meaning is stated here.
-/
namespace Dalek.Props.C07
open Dalek.IR Dalek.Spec Dalek.Model Dalek.Model.Ladder Dalek.Proofs.Mont Dalek.Bridge

/-! ## the ladder is scalar multiplication -/

/-- **`ladder_x_only`**: for every point `Q` of the Edwards curve and every `n < 2^255`, the RFC 7748 ladder on
the 255 bits of `n`, started from `u(Q) = (1+y)/(1−y)` (`0` for the identity), returns `u([n]Q)`. -/
theorem ladder_x_only (Q : Ed) (n : Nat) (hn : n < 2 ^ 255) :
    ladderBitsBE (uOfEd Q) (bitsBE n 255) = uOfEd (n • Q) := ladderXOnly Q n hn

/-- `MontgomeryPoint * Scalar` (model, any 32 scalar bytes, reduced or not) on the encoding of `u(Q)` is the
encoding of `u([n mod 2^255]Q)`, `n` the little-endian value of the scalar bytes (bit 255 is skipped). -/
theorem mont_mul_scalar_group (Q : Ed) (sc : List UInt8) (hlen : sc.length = 32) :
    Ladder.montMul (feToBytes (uOfEd Q)) sc = feToBytes (uOfEd ((leToNat sc % 2 ^ 255) • Q)) := by
  rw [montMul_eq _ _ hlen]
  unfold Spec.montMul
  rw [feFromBytes_enc_uOfEd, ladder_bits_group]

/-- `X25519(k, u(Q))` is `u([clamp k]Q)` for every point `Q` of the curve (torsion components included). -/
theorem x25519_group (k : List UInt8) (hk : k.length = 32) (Q : Ed) :
    Spec.x25519 k (feToBytes (uOfEd Q)) = feToBytes (uOfEd (clampedNat k • Q)) :=
  x25519_of_ed ladderXOnly k hk Q

/-! ## public keys -/

/-- `PublicKey::from(&secret)` is the canonical encoding of the Montgomery `u`-coordinate `(1+y)/(1−y)` of the
group element `[clamp(secret)]B`. -/
theorem public_key_spec (secret : List UInt8) :
    publicKey secret = feToBytes (uOfEd (clampedNat secret • Bpt)) := publicKey_eq secret

/-- **`public_key_eq_x25519_base`**: the typed public key (Edwards basepoint multiplication, then
`to_montgomery`) equals the byte function on the Montgomery basepoint: `PublicKey::from(&secret) =
x25519(secret, 9)`. -/
theorem public_key_eq_x25519_base (secret : List UInt8) (hk : secret.length = 32) :
    publicKey secret = Spec.x25519 secret X25519_BASEPOINT := by
  rw [publicKey_eq, x25519_unfold, feFromBytes_basepoint, ← uOfEd_Bpt,
    ladderXOnly Bpt _ (clampedNat_spec hk).2.2]

/-- … hence also equals the MODEL of `x25519(secret, 9)` (ladder over the translated step). -/
theorem public_key_eq_dalek_x25519_base (secret : List UInt8) (hk : secret.length = 32) :
    publicKey secret = dalekX25519 secret X25519_BASEPOINT := by
  rw [public_key_eq_x25519_base secret hk]
  unfold dalekX25519 mulClamped
  rw [montMul_eq _ _ (by rw [clampInteger_length, hk])]
  rfl

/-- **Ed25519 → X25519 conversion**: `VerifyingKey::to_montgomery` of the key pair of `seed` equals the X25519
public key `PublicKey::from(&StaticSecret::from(signing_key.to_scalar_bytes()))`.  The verifying key is
`[clamp(lo) mod ℓ]B`, the X25519 path uses the unreduced `[clamp(lo)]B`; they coincide because `B` has order `ℓ`. -/
theorem verifying_key_to_montgomery_eq_public_key (seed : List UInt8) :
    verifyingKeyToMontgomery seed = publicKey (toScalarBytes seed) := by
  unfold verifyingKeyToMontgomery publicKey toScalarBytes Ed25519.expandedFromBytes
  rw [edToMontgomery_rep (erep_smul erep_basepoint _), edToMontgomery_rep (erep_smul erep_basepoint _),
    mod_L_nsmul_Bpt]
  rfl

/-! ## Diffie-Hellman agreement -/

/-- **`dh_agree`**: both parties derive the same shared secret,
`a.diffie_hellman(&PublicKey::from(&b)) = b.diffie_hellman(&PublicKey::from(&a))`, for all secrets. -/
theorem dh_agree (a b : List UInt8) (ha : a.length = 32) (hb : b.length = 32) :
    diffieHellman a (publicKey b) = diffieHellman b (publicKey a) := by
  unfold diffieHellman mulClamped
  rw [montMul_eq _ _ (by rw [clampInteger_length, ha]), montMul_eq _ _ (by rw [clampInteger_length, hb])]
  show Spec.x25519 a (publicKey b) = Spec.x25519 b (publicKey a)
  rw [publicKey_eq, publicKey_eq, x25519_of_ed ladderXOnly a ha, x25519_of_ed ladderXOnly b hb, smul_comm]

/-- the shared secret is `u([clamp a · clamp b]B)` -/
theorem dh_shared_secret (a b : List UInt8) (ha : a.length = 32) :
    Spec.x25519 a (publicKey b) = feToBytes (uOfEd ((clampedNat a * clampedNat b) • Bpt)) := by
  rw [publicKey_eq, x25519_of_ed ladderXOnly a ha, mul_nsmul']

/-- X25519 commutes on every base point of the curve (e.g. a public key with a torsion component):
`X25519(a, X25519(b, u(Q))) = X25519(b, X25519(a, u(Q)))`. -/
theorem dh_commute (a b : List UInt8) (ha : a.length = 32) (hb : b.length = 32) (Q : Ed) :
    Spec.x25519 a (Spec.x25519 b (feToBytes (uOfEd Q))) = Spec.x25519 b (Spec.x25519 a (feToBytes (uOfEd Q))) := by
  rw [x25519_of_ed ladderXOnly b hb, x25519_of_ed ladderXOnly a ha, x25519_of_ed ladderXOnly a ha,
    x25519_of_ed ladderXOnly b hb, smul_comm]

/-- one instance, checked by evaluation: the ladder of `5` on `u = 9` is `u([5]B)` -/
example : ladderBitsBE 9 (bitsBE 5 255) = Spec.toMontgomery (Pt.smul 5 B) := by decide +kernel

/-! ## axiom audit -/

/-- info: 'Dalek.Props.C07.ladder_x_only' depends on axioms: [propext, Classical.choice, Quot.sound] -/
#guard_msgs in #print axioms ladder_x_only
/-- info: 'Dalek.Props.C07.mont_mul_scalar_group' depends on axioms: [propext, Classical.choice, Quot.sound] -/
#guard_msgs in #print axioms mont_mul_scalar_group
/-- info: 'Dalek.Props.C07.public_key_eq_x25519_base' depends on axioms: [propext, Classical.choice, Quot.sound] -/
#guard_msgs in #print axioms public_key_eq_x25519_base
/-- info: 'Dalek.Props.C07.verifying_key_to_montgomery_eq_public_key' depends on axioms: [propext, Classical.choice, Quot.sound] -/
#guard_msgs in #print axioms verifying_key_to_montgomery_eq_public_key
/-- info: 'Dalek.Props.C07.dh_agree' depends on axioms: [propext, Classical.choice, Quot.sound] -/
#guard_msgs in #print axioms dh_agree
/-- info: 'Dalek.Props.C07.dh_commute' depends on axioms: [propext, Classical.choice, Quot.sound] -/
#guard_msgs in #print axioms dh_commute

end Dalek.Props.C07

import Dalek.Proofs.MontGroup
/-!
# C07 — public-key derivation through the Edwards basepoint, DH agreement, Ed25519 → X25519 key conversion
(property theorems, part 3)

`PublicKey::from(&secret)` goes through `EdwardsPoint::mul_base_clamped(secret).to_montgomery()`, while
`diffie_hellman`/`x25519` use the Montgomery ladder.  That both compute the same function needs the correctness
theorem of the x-only ladder with respect to the GROUP (`LadderXOnly`, see `Dalek.Proofs.Mont.LadderXOnly`), which
is NOT proved in this development.  The theorems that need it carry it as an explicit hypothesis and are named
`…_partial`.  What is proved unconditionally: the public key is the encoding of `u([clamp k]B)`, and the
Ed25519 → X25519 conversions agree with each other.
-/
namespace Dalek.Props.C07
open Dalek.IR Dalek.Spec Dalek.Model Dalek.Model.Ladder Dalek.Proofs.Mont Dalek.Bridge

/-- **Unconditional**: `PublicKey::from(&secret)` is the canonical encoding of the Montgomery `u`-coordinate
`(1+y)/(1−y)` of the group element `[clamp(secret)]B`. -/
theorem public_key_spec (secret : List UInt8) :
    publicKey secret = feToBytes (uOfEd (clampedNat secret • Bpt)) := publicKey_eq secret

/-- **Unconditional** (Ed25519 → X25519 conversion): `VerifyingKey::to_montgomery` of the key pair of `seed`
equals the X25519 public key `PublicKey::from(&StaticSecret::from(signing_key.to_scalar_bytes()))`.  The
verifying key is `[clamp(lo) mod ℓ]B`, the X25519 path uses the unreduced `[clamp(lo)]B`; they coincide because
`B` has order `ℓ`. -/
theorem verifying_key_to_montgomery_eq_public_key (seed : List UInt8) :
    verifyingKeyToMontgomery seed = publicKey (toScalarBytes seed) := by
  unfold verifyingKeyToMontgomery publicKey toScalarBytes Ed25519.expandedFromBytes
  rw [edToMontgomery_rep (erep_smul erep_basepoint _), edToMontgomery_rep (erep_smul erep_basepoint _),
    mod_L_nsmul_Bpt]
  rfl

/-- one instance of the hypothesis, checked by evaluation: `X25519`-ladder of `5` on `u = 9` is `u([5]B)` -/
example : ladderBitsBE 9 (bitsBE 5 255) = Spec.toMontgomery (Pt.smul 5 B) := by decide +kernel

/-- **PARTIAL** (`public_key_eq_x25519_base`): UNDER THE HYPOTHESIS `LadderXOnly` (not proved: the ladder
computes `u([n]Q)` from `u(Q)` for points `Q` of the curve), the typed public key equals the byte function on
the basepoint, `PublicKey::from(&secret) = x25519(secret, 9)`. -/
theorem public_key_eq_x25519_base_partial (h : LadderXOnly) (secret : List UInt8) (hk : secret.length = 32) :
    publicKey secret = Spec.x25519 secret X25519_BASEPOINT := by
  rw [publicKey_eq, x25519_unfold, feFromBytes_basepoint, ← uOfEd_Bpt, h Bpt _ (clampedNat_spec hk).2.2]

/-- **PARTIAL** (`dh_agree`): UNDER THE HYPOTHESIS `LadderXOnly`, both parties derive the same shared secret:
`a.diffie_hellman(PublicKey::from(&b)) = b.diffie_hellman(PublicKey::from(&a))`. -/
theorem dh_agree_partial (h : LadderXOnly) (a b : List UInt8) (ha : a.length = 32) (hb : b.length = 32) :
    Spec.x25519 a (publicKey b) = Spec.x25519 b (publicKey a) := by
  rw [publicKey_eq, publicKey_eq, x25519_of_ed h a ha, x25519_of_ed h b hb, smul_comm]

/-- **PARTIAL**: the same for an arbitrary base point of the curve (e.g. a point with a torsion component):
`X25519(a, X25519(b, u(Q))) = X25519(b, X25519(a, u(Q)))`, under `LadderXOnly`. -/
theorem dh_commute_partial (h : LadderXOnly) (a b : List UInt8) (ha : a.length = 32) (hb : b.length = 32)
    (Q : Ed) :
    Spec.x25519 a (Spec.x25519 b (feToBytes (uOfEd Q))) = Spec.x25519 b (Spec.x25519 a (feToBytes (uOfEd Q))) := by
  rw [x25519_of_ed h b hb, x25519_of_ed h a ha, x25519_of_ed h a ha, x25519_of_ed h b hb, smul_comm]

/-! ## axiom audit -/

/-- info: 'Dalek.Props.C07.public_key_spec' depends on axioms: [propext, Classical.choice, Quot.sound] -/
#guard_msgs in #print axioms public_key_spec
/-- info: 'Dalek.Props.C07.verifying_key_to_montgomery_eq_public_key' depends on axioms: [propext, Classical.choice, Quot.sound] -/
#guard_msgs in #print axioms verifying_key_to_montgomery_eq_public_key
/-- info: 'Dalek.Props.C07.public_key_eq_x25519_base_partial' depends on axioms: [propext, Classical.choice, Quot.sound] -/
#guard_msgs in #print axioms public_key_eq_x25519_base_partial
/-- info: 'Dalek.Props.C07.dh_agree_partial' depends on axioms: [propext, Classical.choice, Quot.sound] -/
#guard_msgs in #print axioms dh_agree_partial

end Dalek.Props.C07

import Dalek.Proofs.MontBytes
import Dalek.Proofs.MontClamp
import Dalek.Proofs.AlgZMod
/-!
# C07 — X25519 and the Montgomery ladder conform to RFC 7748 on all inputs (property theorems, part 1)

Objects:
* `Dalek.Gen.AlgMontgomery.*` — the field-level formulas REGENERATED from `curve25519-dalek/src/montgomery.rs`
  on every run (`differential_add_and_double`, `ProjectivePoint::{identity, conditional_select, as_affine}`,
  `ct_eq`), `Dalek.Gen.Clamp.clamp_integer` (LimbIR kernel regenerated from `scalar.rs`);
* `Dalek.Model.Ladder.*` — the hand model of the control structure around them (`mul_bits_be`, `Mul<&Scalar>`,
  `mul_clamped`, `x25519`, `diffie_hellman`, `was_contributory`), executed by the model executable with the
  interpretation `natOps` and compared with the Rust drivers in the differential run;
* `Dalek.Spec.{x25519, ladderStep, ladderBitsBE, montMul, clampInteger}` — RFC 7748 transcribed.

All statements are for ALL inputs (all 2^256 × 2^256 byte pairs, all bit lists): bit 255 of `u` is ignored and
non-canonical `u` are reduced because both sides start from `feFromBytes u`; twist and small-order points are
not special-cased anywhere (the ladder states coincide component-wise); the final inversion maps `0 ↦ 0`.
-/
namespace Dalek.Props.C07
open Dalek.IR Dalek.Spec Dalek.Model Dalek.Model.Ladder Dalek.Proofs.Mont Dalek.Bridge

/-! ## the ladder step -/

/-- **`ladder_step_eq_rfc`** (formula level).  For all field values the translated
`differential_add_and_double(P, Q, affine_PmQ)` returns exactly the four values `x2, z2, x3, z3` of one
RFC 7748 ladder step (without swap) on `(x2:z2) = P`, `(x3:z3) = Q`, `x1 = affine_PmQ`.  dalek computes
`z2 = E·(BB + 121666·E)` with `APLUS2_OVER_FOUR`, the RFC `E·(AA + 121665·E)`; the values are identical
because `AA = BB + E`. -/
theorem ladder_step_eq_rfc (x2 z2 x3 z3 x1 : Nat) :
    Dalek.Gen.AlgMontgomery.differential_add_and_double.run natOps [x2, z2, x3, z3, x1] =
      (let r := ladderStep x1 ⟨x2, z2, x3, z3, false⟩ false
       [r.x2, r.z2, r.x3, r.z3]) := by
  rw [dadd_nat]
  simp [ladderStep, cswap]

/-- The constant used by the step is `constants::APLUS2_OVER_FOUR`, and its regenerated limb table has the
value `121666`. -/
theorem aplus2_over_four :
    Dalek.Gen.AlgMontgomery.constNames.getD 11 "" = "constants::APLUS2_OVER_FOUR" ∧ natOps.const 11 = 121666 :=
  ⟨by decide, const_11⟩

/-- The same statement in the field `Fp = ZMod p` (interpretation `zmodOps`): the four outputs are
`AA·BB`, `E·(AA + 121665·E)`, `(DA+CB)²`, `x1·(DA−CB)²` with `A = x2+z2`, `B = x2−z2`, `C = x3+z3`, `D = x3−z3`,
`E = AA − BB`. -/
theorem ladder_step_eq_rfc_field (x2 z2 x3 z3 x1 : Dalek.Proofs.Fp) :
    Dalek.Gen.AlgMontgomery.differential_add_and_double.run Dalek.Proofs.zmodOps [x2, z2, x3, z3, x1] =
      [(x2 + z2) ^ 2 * (x2 - z2) ^ 2,
       ((x2 + z2) ^ 2 - (x2 - z2) ^ 2) * ((x2 + z2) ^ 2 + 121665 * ((x2 + z2) ^ 2 - (x2 - z2) ^ 2)),
       ((x3 - z3) * (x2 + z2) + (x3 + z3) * (x2 - z2)) ^ 2,
       x1 * ((x3 - z3) * (x2 + z2) - (x3 + z3) * (x2 - z2)) ^ 2] := by
  rw [Dalek.Gen.AlgMontgomery.differential_add_and_double_sh_ok]
  unfold Dalek.Gen.AlgMontgomery.differential_add_and_double_sh
  have hc : Dalek.Proofs.zmodOps.const 11 = 121666 := by
    show ((natOps.const 11 : Nat) : Dalek.Proofs.Fp) = 121666
    rw [const_11]; norm_num
  simp only [hc]
  simp only [Dalek.Proofs.zmodOps, List.cons.injEq, and_true]
  refine ⟨?_, ?_, ?_, ?_⟩ <;> ring

/-- One whole loop iteration of `mul_bits_be` (conditional swap on `prev_bit ^ cur_bit`, step,
`prev_bit = cur_bit`) is one iteration of the RFC 7748 loop (`swap ^= k_t`, two `cswap`s, step, `swap = k_t`):
the states `x0 = (x2:z2)`, `x1 = (x3:z3)`, `prev_bit = swap` coincide component-wise. -/
theorem ladder_iteration_eq_rfc (u : Nat) (s : LState Nat) (kt : Bool) :
    toL (step natOps u s kt) = ladderStep u (toL s) kt := step_nat u s kt

/-! ## the ladder -/

/-- **`mul_bits_be` for ARBITRARY bit lists** (field level): the model of `MontgomeryPoint::mul_bits_be`
over the translated items equals the RFC 7748 ladder on the same bits, with the final `U · W^(p−2)`. -/
theorem mul_bits_be_eq_rfc_field (u : Nat) (hu : u < P) (bits : List Bool) :
    mulBitsBE natOps u bits = ladderBitsBE u bits := mulBitsBE_nat u hu bits

/-- **`mul_bits_be` for arbitrary bit lists and arbitrary point bytes** (any length of `bits`). -/
theorem mul_bits_be_eq_rfc (u : List UInt8) (bits : List Bool) :
    montMulBitsBE u bits = feToBytes (ladderBitsBE (feFromBytes u) bits) := by
  unfold montMulBitsBE; rw [mulBitsBE_nat _ (feFromBytes_lt u)]

/-- `scalar.bits_le().rev().skip(1)` are the bits 254 … 0 of the scalar's integer value. -/
theorem scalar_bits_spec (bytes : List UInt8) (hlen : bytes.length = 32) :
    (scalarBitsLE bytes).reverse.drop 1 = bitsBE (leToNat bytes) 255 := scalarBits_eq bytes hlen

/-- `&MontgomeryPoint * &Scalar` for ANY 32 scalar bytes (reduced or not) is the ladder over bits 254…0. -/
theorem mont_mul_scalar_spec (u sc : List UInt8) (hlen : sc.length = 32) :
    Ladder.montMul u sc = Spec.montMul u sc := montMul_eq u sc hlen

/-- **`x25519_eq_rfc7748`**: for every 32-byte scalar `k` and every `u` (32 bytes; in fact any byte string),
the model of `x25519_dalek::x25519` equals RFC 7748 `X25519(k, u)`. -/
theorem x25519_eq_rfc7748 (k u : List UInt8) (hk : k.length = 32) :
    dalekX25519 k u = Spec.x25519 k u := by
  unfold dalekX25519 mulClamped
  rw [montMul_eq u _ (by rw [clampInteger_length, hk])]
  rfl

/-- The result depends on the point bytes only through `from_bytes`: bit 255 is ignored and non-canonical
encodings (`u ≥ p`) act as `u mod p`. -/
theorem x25519_depends_on_u_mod_p (k u u' : List UInt8) (h : feFromBytes u = feFromBytes u') :
    dalekX25519 k u = dalekX25519 k u' := by
  unfold dalekX25519 mulClamped Ladder.montMul montMulBitsBE
  rw [h]

/-- e.g. setting bit 255 of a `u` below `2^255` changes nothing -/
example (k u : List UInt8) (hu : u.length = 32) (h : leToNat u < 2 ^ 255) :
    dalekX25519 k (setSignBit u true) = dalekX25519 k u :=
  x25519_depends_on_u_mod_p k _ _ (feFromBytes_setSignBit hu h true)

/-! ## typed paths -/

/-- `MontgomeryPoint(u).mul_clamped(k)` is `X25519(k, u)`. -/
theorem mul_clamped_eq_x25519 (k u : List UInt8) (hk : k.length = 32) :
    mulClamped u k = Spec.x25519 k u := x25519_eq_rfc7748 k u hk

/-- `secret.diffie_hellman(&their_public)` (ephemeral, reusable and static secrets share the body) is
`X25519(secret, their_public)`. -/
theorem diffie_hellman_eq_x25519 (secret theirPublic : List UInt8) (hk : secret.length = 32) :
    diffieHellman secret theirPublic = Spec.x25519 secret theirPublic := x25519_eq_rfc7748 _ _ hk

/-- `mul_clamped` is scalar multiplication by the clamped bytes. -/
theorem mul_clamped_eq_mont_mul (k u : List UInt8) (hk : k.length = 32) :
    mulClamped u k = Spec.montMul u (clampInteger k) := by
  unfold mulClamped; exact montMul_eq u _ (by rw [clampInteger_length, hk])

/-! ## `clamp_integer` -/

/-- The translated `clamp_integer` kernel computes `Spec.clampInteger` (RFC 7748 `decodeScalar25519` bit
fiddling) on every 32-byte input; debug build does not panic, release build agrees. -/
theorem clamp_spec (b : List UInt8) (hlen : b.length = 32) :
    Dalek.Gen.Clamp.clamp_integer.evalC (b.map UInt8.toNat) = some ((clampInteger b).map UInt8.toNat) ∧
    Dalek.Gen.Clamp.clamp_integer.evalW (b.map UInt8.toNat) = (clampInteger b).map UInt8.toNat :=
  clamp_kernel_spec b hlen

/-- … and the clamped integer is a multiple of 8 in `[2^254, 2^255)`. -/
theorem clamp_range (b : List UInt8) (hlen : b.length = 32) :
    leToNat (clampInteger b) % 8 = 0 ∧ 2 ^ 254 ≤ leToNat (clampInteger b) ∧ leToNat (clampInteger b) < 2 ^ 255 :=
  clampedNat_spec hlen

/-! ## equality and the contributory check -/

/-- **`eq_mod_p`**: `MontgomeryPoint::ct_eq` / `==` (the translated item on `from_bytes` of both sides) compares
the values modulo `p` (bit 255 ignored, non-canonical encodings identified). -/
theorem eq_mod_p (a b : List UInt8) : montCtEq a b = true ↔ feFromBytes a = feFromBytes b := by
  unfold montCtEq
  rw [ct_eq_nat, Nat.mod_eq_of_lt (feFromBytes_lt a), Nat.mod_eq_of_lt (feFromBytes_lt b)]
  by_cases h : feFromBytes a = feFromBytes b <;> simp [b2n, h]

/-- `Hash for MontgomeryPoint` hashes `from_bytes(self).as_bytes()`: equal points (mod p) have equal hash
input, and the hash input determines the point mod p. -/
theorem hash_input_mod_p (a b : List UInt8) :
    feToBytes (feFromBytes a) = feToBytes (feFromBytes b) ↔ montCtEq a b = true := by
  rw [eq_mod_p]
  exact ⟨feToBytes_inj (feFromBytes_lt a) (feFromBytes_lt b), fun h => by rw [h]⟩

theorem feFromBytes_identity : feFromBytes montIdentity = 0 := by decide +kernel

/-- `was_contributory` is `false` exactly when the shared secret is `0` mod p … -/
theorem was_contributory_iff (shared : List UInt8) :
    wasContributory shared = false ↔ feFromBytes shared = 0 := by
  unfold wasContributory
  rw [Bool.not_eq_false', eq_mod_p, feFromBytes_identity]

/-- **`was_contributory_spec`**: … and for the output of a Diffie-Hellman (always canonically encoded) exactly
when the shared secret is the all-zero string. -/
theorem was_contributory_spec (secret theirPublic : List UInt8) :
    wasContributory (diffieHellman secret theirPublic) = false ↔
      diffieHellman secret theirPublic = List.replicate 32 0 := by
  rw [was_contributory_iff]
  unfold diffieHellman mulClamped Ladder.montMul montMulBitsBE
  generalize mulBitsBE natOps _ _ = v
  rw [feFromBytes_feToBytes]
  have h0 : feToBytes 0 = List.replicate 32 0 := by decide +kernel
  constructor
  · intro h
    have : feToBytes v = feToBytes (v % P) := by unfold feToBytes; rw [Nat.mod_mod]
    rw [this, h, h0]
  · intro h
    rw [← h0] at h
    have : feToBytes (v % P) = feToBytes 0 := by unfold feToBytes at h ⊢; rw [Nat.mod_mod]; exact h
    exact feToBytes_inj (Nat.mod_lt _ P_pos) (by norm_num) this

/-! ## non-vacuity / examples -/

/-- the length hypotheses are satisfiable; RFC 7748 §5.2 first test vector through the MODEL -/
example : (List.replicate 32 (0 : UInt8)).length = 32 := rfl

/-- a non-contributory exchange exists (`u = 0`), so `was_contributory_spec` is not vacuous -/
example : wasContributory (diffieHellman (List.replicate 32 7) (List.replicate 32 0)) = false := by
  decide +kernel

/-! ## axiom audit -/

/-- info: 'Dalek.Props.C07.ladder_step_eq_rfc' depends on axioms: [propext, Classical.choice, Quot.sound] -/
#guard_msgs in #print axioms ladder_step_eq_rfc
/-- info: 'Dalek.Props.C07.ladder_step_eq_rfc_field' depends on axioms: [propext, Classical.choice, Quot.sound] -/
#guard_msgs in #print axioms ladder_step_eq_rfc_field
/-- info: 'Dalek.Props.C07.mul_bits_be_eq_rfc' depends on axioms: [propext, Classical.choice, Quot.sound] -/
#guard_msgs in #print axioms mul_bits_be_eq_rfc
/-- info: 'Dalek.Props.C07.x25519_eq_rfc7748' depends on axioms: [propext, Classical.choice, Quot.sound] -/
#guard_msgs in #print axioms x25519_eq_rfc7748
/-- info: 'Dalek.Props.C07.clamp_spec' depends on axioms: [propext, Classical.choice, Quot.sound] -/
#guard_msgs in #print axioms clamp_spec
/-- info: 'Dalek.Props.C07.was_contributory_spec' depends on axioms: [propext, Classical.choice, Quot.sound] -/
#guard_msgs in #print axioms was_contributory_spec
/-- info: 'Dalek.Props.C07.hash_input_mod_p' depends on axioms: [propext, Classical.choice, Quot.sound] -/
#guard_msgs in #print axioms hash_input_mod_p

end Dalek.Props.C07

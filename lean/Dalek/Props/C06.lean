import Dalek.Props.C06.Rfc
import Dalek.Props.C06.Decode
import Dalek.Props.C06.Uniform
import Dalek.Props.C06.Group
import Dalek.Props.C06.Encode
import Dalek.Props.C06.RoundTrip
import Dalek.Props.C06.Even

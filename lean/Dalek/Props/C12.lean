import Dalek.Props.C12.Consts

import Dalek.Props.C07.X25519
import Dalek.Props.C07.Conversions
import Dalek.Props.C07.PublicKey
import Dalek.Props.C05.CfgGated

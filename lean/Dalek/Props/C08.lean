import Dalek.Props.C08.Sign
import Dalek.Props.C08.HashInputs

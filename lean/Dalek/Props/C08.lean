import Dalek.Props.C08.Sign

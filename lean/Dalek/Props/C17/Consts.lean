import Dalek.Model.ConstCheck
import Dalek.Proofs.Primes
/-!
# C17 (constants part) — the advertised `ff::Field` / `ff::PrimeField` constants of `Scalar`

Statements about the literals of `Dalek.Gen.Consts.ScalarRs`, REGENERATED from
`curve25519-dalek/src/scalar.rs` (`impl Field for Scalar`, `impl PrimeField for Scalar`, and the exponent
passed to `sqrt_tonelli_shanks`).  Scalars are 32 little-endian bytes (`bytesLE`); `L` is `Dalek.Spec.L`,
`spow a e = a^e mod l`, `smul a b = a·b mod l`.  Each theorem is `check… = true` for a checker documented in
`Dalek/Model/ConstCheck.lean`, proved by kernel evaluation.
-/
namespace Dalek.Props.C17
open Dalek.Spec Dalek.Model.ConstCheck
open Dalek.Gen.Consts

/-- `MODULUS` (the hex string `"0x1000…d3ed"`, parsed by `parseHex`) is `l` -/
theorem MODULUS_ok : checkModulus = true := by decide +kernel
theorem MODULUS_eq : parseHex ScalarRs.MODULUS = some L := by
  have h := MODULUS_ok
  unfold checkModulus optIs at h
  revert h
  cases parseHex ScalarRs.MODULUS with
  | none => simp
  | some m => simp only [Bool.and_eq_true, beq_iff_eq]; rintro ⟨rfl, -⟩; rfl

/-- `NUM_BITS = 253` is the bit length of `l` -/
theorem NUM_BITS_ok : checkNumBits = true := by decide +kernel
/-- `CAPACITY = 252 = NUM_BITS - 1` and `2^CAPACITY ≤ l` -/
theorem CAPACITY_ok : checkCapacity = true := by decide +kernel
/-- `ZERO = 0`, `ONE = 1` (inherent constants and the `Field::` ones that alias them) -/
theorem ZERO_ONE_ok : checkZeroOne = true := by decide +kernel

/-- `TWO_INV · 2 = 1 (mod l)`, canonical encoding -/
theorem TWO_INV_ok : checkTwoInv = true := by decide +kernel
theorem TWO_INV_eq : bytesLE ScalarRs.TWO_INV * 2 % L = 1 := by decide +kernel

/-- `S = 2`: `l - 1 = 2^S · t` with `t` odd (`t = ffT`) -/
theorem S_ok : checkS = true := by decide +kernel
theorem S_eq : 2 ^ ScalarRs.S * ffT = L - 1 ∧ ffT % 2 = 1 := by decide +kernel

/-- `l - 1 = 2² · 3 · 11 · 198211423230930754013084525763697 · 276602624281642239937218680557139826668747` -/
theorem l_minus_one_factorisation : checkLMinusOneFactorisation = true := by decide +kernel

/-- the entries of `lMinusOneFactors` are primes (they occur in the Pratt certificate chain of `l`) -/
theorem l_minus_one_factors_prime : ∀ qe ∈ lMinusOneFactors, Nat.Prime qe.1 := by
  have h3 : Nat.Prime 3 := Dalek.Primes.prime_of_cert Dalek.Primes.certL 3 (by decide +kernel)
  have h11 : Nat.Prime 11 := Dalek.Primes.prime_of_cert Dalek.Primes.certL 11 (by decide +kernel)
  have h4 : Nat.Prime 198211423230930754013084525763697 :=
    Dalek.Primes.prime_of_cert Dalek.Primes.certL _ (by decide +kernel)
  have h5 : Nat.Prime 276602624281642239937218680557139826668747 :=
    Dalek.Primes.prime_of_cert Dalek.Primes.certL _ (by decide +kernel)
  intro qe hqe
  simp only [lMinusOneFactors, List.mem_cons, List.not_mem_nil, or_false] at hqe
  rcases hqe with rfl | rfl | rfl | rfl | rfl
  · exact Nat.prime_two
  · exact h3
  · exact h11
  · exact h4
  · exact h5

/-- `MULTIPLICATIVE_GENERATOR = g` (= 2): `g ≠ 0`, `g^(l-1) = 1`, and `g^((l-1)/q) ≠ 1` for each `q` in
`lMinusOneFactors`, i.e. (with the two theorems above and `l` prime) `g` generates `(Z/l)ˣ` -/
theorem MULTIPLICATIVE_GENERATOR_ok : checkGenerator = true := by decide +kernel

/-- `ROOT_OF_UNITY = g^t`, `ROOT_OF_UNITY^(2^S) = 1`, `ROOT_OF_UNITY^(2^(S-1)) ≠ 1` -/
theorem ROOT_OF_UNITY_ok : checkRootOfUnity = true := by decide +kernel
theorem ROOT_OF_UNITY_eq : bytesLE ScalarRs.ROOT_OF_UNITY = spow ffG ffT := by decide +kernel

/-- `ROOT_OF_UNITY_INV · ROOT_OF_UNITY = 1` -/
theorem ROOT_OF_UNITY_INV_ok : checkRootOfUnityInv = true := by decide +kernel

/-- `DELTA = g^(2^S)` -/
theorem DELTA_ok : checkDelta = true := by decide +kernel
theorem DELTA_eq : bytesLE ScalarRs.DELTA = spow ffG (2 ^ ScalarRs.S) := by decide +kernel

/-- the four `u64` limbs passed to `sqrt_tonelli_shanks` denote `(t - 1)/2` (with `t` odd, so
`2·w + 1 = t`) -/
theorem sqrt_tonelli_shanks_exponent_ok : checkTonelliExponent = true := by decide +kernel

/-- every check that `Dalek.Model.ConstCheck.reportC17` (the list the driver prints) names succeeds -/
theorem reportC17_all_ok : reportC17.all (fun nb => nb.2) = true := by decide +kernel

end Dalek.Props.C17

import Dalek.Proofs.Group
import Dalek.Proofs.CurveOrder.Structure
import Dalek.Props.C17.Consts
/-!
# C17 (part B) — the `ff::Field` / `ff::PrimeField` / `group::GroupEncoding` / `CofactorGroup` model

Statements about the hand model `Dalek/Model/Group.lean` (`Dalek.Model.Group`, the model that the driver
`Dalek/Driver/Ops.lean` `groupOp` runs against the Rust `grp.*` hooks in the differential run):

* `sqrt` is `ff::helpers::sqrt_tonelli_shanks` for the scalar field (transcribed so that the SAME root is
  returned), `invert`, `sqrtRatio` (`ff::helpers::sqrt_ratio_generic`), `fromRepr`
  (`PrimeField::from_repr` / `from_repr_vartime`);
* `edFromBytes`, `subFromBytes`, `risFromBytes` (`GroupEncoding::from_bytes` of `EdwardsPoint`,
  `SubgroupPoint`, `RistrettoPoint`), `intoSubgroup`, `clearCofactor` (`CofactorGroup`).

Mathematical objects: `Fl = ZMod ℓ` (`ℓ = Dalek.Spec.L`, proved prime in `Dalek/Proofs/Primes.lean`) and the
commutative group `Ed` of the Ed25519 curve with `toEd : (p : Pt) → onCurve p = true → Ed`
(`Dalek/Proofs/Bridge/Edwards.lean`).  Helper lemmas: `Dalek/Proofs/GroupSqrt.lean`, `Dalek/Proofs/Group.lean`.
-/
namespace Dalek.Props.C17
open Dalek.Spec Dalek.Bridge Dalek.Model
open Dalek.Model.ConstCheck (bytesLE limbs64 parseHex)
open Dalek.Gen.Consts

/-! ## 0. The model's literals are the source's -/

/-- **The `Nat` literals of the hand model are the constants REGENERATED from `scalar.rs`**
(`Dalek.Gen.Consts.ScalarRs`, whose defining relations are the theorems of `Dalek/Props/C17/Consts.lean`):
`MODULUS` (the model stores the hex digits without the `0x` prefix), `NUM_BITS`, `CAPACITY`, `TWO_INV`,
`MULTIPLICATIVE_GENERATOR`, `S`, `ROOT_OF_UNITY`, `ROOT_OF_UNITY_INV`, `DELTA`, and the exponent
`(t-1)/2` handed to `sqrt_tonelli_shanks`. -/
theorem model_constants_eq_source :
    "0x" ++ Group.MODULUS_HEX = ScalarRs.MODULUS ∧
    parseHex ("0x" ++ Group.MODULUS_HEX) = some L ∧
    Group.NUM_BITS = ScalarRs.NUM_BITS ∧
    Group.CAPACITY = ScalarRs.CAPACITY ∧
    Group.TWO_INV = bytesLE ScalarRs.TWO_INV ∧
    Group.MULTIPLICATIVE_GENERATOR = bytesLE ScalarRs.MULTIPLICATIVE_GENERATOR ∧
    Group.S = ScalarRs.S ∧
    Group.ROOT_OF_UNITY = bytesLE ScalarRs.ROOT_OF_UNITY ∧
    Group.ROOT_OF_UNITY_INV = bytesLE ScalarRs.ROOT_OF_UNITY_INV ∧
    Group.DELTA = bytesLE ScalarRs.DELTA ∧
    Group.TM1D2 = limbs64 ScalarRs.sqrt_tonelli_shanks_exponent := by
  decide +kernel

/-! ## 1. `sqrt` (Tonelli–Shanks) -/

/-- **`sqrt` returns a canonical square root**: `r < ℓ` and `r² ≡ x (mod ℓ)`. -/
theorem sqrt_spec {x r : Nat} (h : Group.sqrt x = some r) : r < L ∧ r * r % L = x % L :=
  let ⟨h1, h2, _⟩ := Dalek.Proofs.Group.sqrt_some h
  ⟨h1, h2⟩

/-- **`sqrt` fails exactly on the quadratic non-residues of `ℤ/ℓ`** (and therefore succeeds on every
residue, including `0`). -/
theorem sqrt_none_iff (x : Nat) : Group.sqrt x = none ↔ ¬ IsSquare ((x : Nat) : Fl) :=
  Dalek.Proofs.Group.sqrt_none_iff x

/-- `sqrt x` is `some _` iff `x` is a square modulo `ℓ`. -/
theorem sqrt_isSome_iff (x : Nat) : (Group.sqrt x).isSome = true ↔ IsSquare ((x : Nat) : Fl) :=
  Dalek.Proofs.Group.sqrt_isSome_iff x

/-- The same, without `ZMod`: `sqrt x` succeeds iff some natural number squares to `x` modulo `ℓ`. -/
theorem sqrt_isSome_iff_nat (x : Nat) :
    (Group.sqrt x).isSome = true ↔ ∃ y : Nat, y * y % L = x % L := by
  rw [sqrt_isSome_iff]
  constructor
  · rintro ⟨y, hy⟩
    refine ⟨y.val, ?_⟩
    rw [← castL_eq_iff, Nat.cast_mul, ZMod.natCast_zmod_val, hy]
  · rintro ⟨y, hy⟩
    exact ⟨(y : Fl), by rw [← Nat.cast_mul, castL_eq_iff, hy]⟩

/-- `sqrt` only depends on its argument modulo `ℓ`. -/
theorem sqrt_mod (x : Nat) : Group.sqrt (x % L) = Group.sqrt x := Dalek.Proofs.Group.sqrt_mod x

/-- Both outcomes occur: `4` has a root, and `2` (the multiplicative generator) is a non-residue; `0` has
the root `0`. -/
example : (Group.sqrt 4).isSome = true ∧ Group.sqrt 2 = none ∧ Group.sqrt 0 = some 0 := by
  decide +kernel

/-! ## 2. `invert` -/

/-- **`invert` is `None` exactly at zero.** -/
theorem invert_none_iff_zero (a : Nat) : Group.invert a = none ↔ a % L = 0 :=
  Dalek.Proofs.Group.invert_none_iff a

/-- **`invert` returns the canonical inverse**: `r < ℓ` and `a·r ≡ 1 (mod ℓ)`. -/
theorem invert_spec {a r : Nat} (h : Group.invert a = some r) : r < L ∧ a * r % L = 1 :=
  let ⟨_, _, h1, h2⟩ := Dalek.Proofs.Group.invert_some h
  ⟨h1, h2⟩

/-- In the field: the result is `a⁻¹`. -/
theorem invert_cast {a r : Nat} (h : Group.invert a = some r) : ((r : Nat) : Fl) = ((a : Nat) : Fl)⁻¹ := by
  obtain ⟨-, hr, -, -⟩ := Dalek.Proofs.Group.invert_some h
  rw [hr]; exact cast_sinv a

example : Group.invert 0 = none ∧ Group.invert L = none ∧ Group.invert 2 = some Group.TWO_INV := by
  decide +kernel

/-! ## 2'. `sqrtRatio` (`Field::sqrt_ratio`) -/

/-- **Specification of `sqrtRatio num div = (c, r)`** (the contract documented for `ff::Field::sqrt_ratio`):
`r` is canonical; `c` holds iff `num = 0`, or `div ≠ 0` and `num/div` is a square; if `c` then
`r²·div = num`; if `¬c` and `div ≠ 0` then `r²·div = ROOT_OF_UNITY·num`; if `¬c` and `div = 0` then `r = 0`
(all in `ℤ/ℓ`). -/
theorem sqrt_ratio_spec (num div : Nat) :
    (Group.sqrtRatio num div).2 < L ∧
    ((Group.sqrtRatio num div).1 = true ↔
      (num % L = 0 ∨ (div % L ≠ 0 ∧ IsSquare ((num : Fl) / (div : Fl))))) ∧
    ((Group.sqrtRatio num div).1 = true →
      (((Group.sqrtRatio num div).2 : Nat) : Fl) ^ 2 * (div : Fl) = (num : Fl)) ∧
    ((Group.sqrtRatio num div).1 = false → div % L ≠ 0 →
      (((Group.sqrtRatio num div).2 : Nat) : Fl) ^ 2 * (div : Fl) =
        (Group.ROOT_OF_UNITY : Fl) * (num : Fl)) ∧
    ((Group.sqrtRatio num div).1 = false → div % L = 0 → (Group.sqrtRatio num div).2 = 0) :=
  Dalek.Proofs.Group.sqrtRatio_spec num div

/-- All four cases of the contract occur. -/
example : (Group.sqrtRatio 4 1).1 = true ∧ (Group.sqrtRatio 0 0).1 = true ∧
    Group.sqrtRatio 1 0 = (false, 0) ∧ (Group.sqrtRatio 2 1).1 = false := by
  decide +kernel

/-! ## 3. `from_repr` -/

/-- **`from_repr` accepts exactly the canonical 32-byte encodings and returns the encoded integer.**

The driver answers both `grp.from_repr` (`PrimeField::from_repr`) and `grp.from_repr_vt`
(`PrimeField::from_repr_vartime`) with this same `Group.fromRepr` (`Dalek/Driver/Ops.lean`, `groupOp`), so in
the model the two agree by construction; that the Rust vartime variant agrees with it is part of the
differential run, not of this theorem. -/
theorem from_repr_iff_canonical (b : List UInt8) (n : Nat) :
    Group.fromRepr b = some n ↔ (b.length = 32 ∧ leToNat b < L ∧ n = leToNat b) :=
  Dalek.Proofs.Group.fromRepr_eq_some_iff b n

/-- `from_repr` succeeds iff `Scalar::from_canonical_bytes` does. -/
theorem from_repr_isSome_iff (b : List UInt8) :
    (Group.fromRepr b).isSome = true ↔ isCanonicalScalar b = true := by
  rw [Dalek.Proofs.Group.fromRepr_isSome]

/-- Round trip `from_repr ∘ to_repr`. -/
theorem from_repr_to_repr (n : Nat) : Group.fromRepr (scToBytes n) = some (n % L) :=
  Dalek.Proofs.Group.fromRepr_scToBytes n

/-- Round trip `to_repr ∘ from_repr`. -/
theorem to_repr_from_repr {b : List UInt8} {n : Nat} (h : Group.fromRepr b = some n) :
    scToBytes n = b := by
  obtain ⟨h1, h2, rfl⟩ := (from_repr_iff_canonical b n).1 h
  have hc : isCanonicalScalar b = true := (isCanonicalScalar_iff b).2 ⟨h1, h2⟩
  have := scToBytes_scFromBytesModOrder hc
  unfold scFromBytesModOrder at this
  rwa [Nat.mod_eq_of_lt h2] at this

example : Group.fromRepr (scToBytes 5) = some 5 ∧ Group.fromRepr (natToLe L 32) = none ∧
    Group.fromRepr (natToLe (L - 1) 32) = some (L - 1) ∧ Group.fromRepr [] = none := by
  decide +kernel

/-! ## 4. `GroupEncoding` is (de)compression -/

/-- **`<EdwardsPoint as GroupEncoding>::from_bytes` is `CompressedEdwardsY::decompress`, and
`<RistrettoPoint as GroupEncoding>::from_bytes` is RFC 9496 DECODE** (definitionally in the model). -/
theorem encoding_eq_compress (b : List UInt8) :
    Group.edFromBytes b = decompress b ∧ Group.risFromBytes b = Ristretto.decode b :=
  ⟨rfl, rfl⟩

/-- `from_bytes ∘ to_bytes = some` on canonical curve points. -/
theorem ed_from_bytes_compress {p : Pt} (hp : onCurve p = true) (cp : Canon p) :
    Group.edFromBytes (compress p) = some p :=
  decompress_compress hp cp

/-- `from_bytes` returns a canonical point on the curve. -/
theorem ed_from_bytes_some {b : List UInt8} {p : Pt} (h : Group.edFromBytes b = some p) :
    onCurve p = true ∧ Canon p :=
  ⟨(decompress_some h).1, (decompress_some h).2.1⟩

/-- `to_bytes ∘ from_bytes = id` on canonical encodings: a 32-byte string whose low 255 bits are `< p`
and which is not the "negative zero" (`x = 0` with bit 255 set). -/
theorem compress_ed_from_bytes {b : List UInt8} {p : Pt} (hlen : b.length = 32)
    (hcanon : leToNat b % 2 ^ 255 < P) (h : Group.edFromBytes b = some p)
    (hnz : ¬ (p.x = 0 ∧ signBit b = true)) : compress p = b :=
  compress_decompress hlen hcanon h hnz

example : Group.edFromBytes (compress B) = some B ∧ Group.edFromBytes (natToLe 2 32) = none := by
  decide +kernel

/-! ## 5. `SubgroupPoint::from_bytes` -/

/-- **`<SubgroupPoint as GroupEncoding>::from_bytes` succeeds with `p` iff the bytes decompress to `p` and
`ℓ·p = 0` in the group of the curve.** -/
theorem subgroup_from_bytes_iff (b : List UInt8) (p : Pt) :
    Group.subFromBytes b = some p ↔
      ∃ h : decompress b = some p, L • toEd p (decompress_some h).1 = 0 := by
  rw [Dalek.Proofs.Group.subFromBytes_eq_some_iff]
  constructor
  · rintro ⟨h, ht⟩; exact ⟨h, (isTorsionFree_iff _).1 ht⟩
  · rintro ⟨h, ht⟩; exact ⟨h, (isTorsionFree_iff _).2 ht⟩

/-- The same with the executable predicate. -/
theorem subgroup_from_bytes_iff' (b : List UInt8) (p : Pt) :
    Group.subFromBytes b = some p ↔ decompress b = some p ∧ isTorsionFree p = true :=
  Dalek.Proofs.Group.subFromBytes_eq_some_iff b p

/-- `.isSome` version. -/
theorem subgroup_from_bytes_isSome_iff (b : List UInt8) :
    (Group.subFromBytes b).isSome = true ↔
      ∃ p, ∃ h : decompress b = some p, L • toEd p (decompress_some h).1 = 0 := by
  rw [Option.isSome_iff_exists]
  exact exists_congr fun p => subgroup_from_bytes_iff b p

/-- `SubgroupPoint::from_bytes = EdwardsPoint::from_bytes` followed by `into_subgroup`. -/
theorem subgroup_from_bytes_eq (b : List UInt8) :
    Group.subFromBytes b = (Group.edFromBytes b).bind Group.intoSubgroup :=
  Dalek.Proofs.Group.subFromBytes_eq b

/-! ## 6. `into_subgroup` -/

/-- **`into_subgroup` succeeds iff `ℓ·p = 0`** … -/
theorem into_subgroup_iff {p : Pt} (hp : onCurve p = true) :
    (Group.intoSubgroup p).isSome = true ↔ L • toEd p hp = 0 := by
  rw [Dalek.Proofs.Group.intoSubgroup_isSome, isTorsionFree_iff hp]

/-- … **and then returns the point unchanged.** -/
theorem into_subgroup_some {p q : Pt} (h : Group.intoSubgroup p = some q) : q = p :=
  ((Dalek.Proofs.Group.intoSubgroup_eq_some_iff p q).1 h).1

theorem into_subgroup_eq_some_iff {p q : Pt} (hp : onCurve p = true) :
    Group.intoSubgroup p = some q ↔ q = p ∧ L • toEd p hp = 0 := by
  rw [Dalek.Proofs.Group.intoSubgroup_eq_some_iff, isTorsionFree_iff hp]

/-! ## 7. `clear_cofactor` -/

/-- **`clear_cofactor` is multiplication by the cofactor `8` in the group**, with a canonical result on the
curve. -/
theorem clear_cofactor_eq {p : Pt} (hp : onCurve p = true) :
    toEd (Group.clearCofactor p) (onCurve_smul hp 8) = 8 • toEd p hp :=
  toEd_smul hp 8

theorem clear_cofactor_canon (p : Pt) : Canon (Group.clearCofactor p) := canon_smul 8 p

theorem clear_cofactor_onCurve {p : Pt} (hp : onCurve p = true) :
    onCurve (Group.clearCofactor p) = true := onCurve_smul hp 8

/-- If the group of the curve has exponent dividing `8ℓ` at `p` (true for every point; stated as a
hypothesis because the group order is not part of this development), the result is torsion free. -/
theorem clear_cofactor_torsion_free {p : Pt} (hp : onCurve p = true)
    (h8l : (8 * L) • toEd p hp = 0) :
    isTorsionFree (Group.clearCofactor p) = true := by
  unfold Group.clearCofactor
  rw [isTorsionFree_iff (onCurve_smul hp 8), toEd_smul hp 8, ← mul_nsmul, Nat.mul_comm]
  exact h8l

/-- The hypothesis of `clear_cofactor_torsion_free` is satisfiable (basepoint). -/
example : (8 * L) • toEd B onCurve_B = 0 := by
  rw [Nat.mul_comm, mul_nsmul]
  exact (congrArg (fun Q => 8 • Q) L_nsmul_Bpt).trans (nsmul_zero 8)

/-! ## 8. `is_torsion_free` agrees with `into_subgroup` and with `SubgroupPoint::from_bytes` -/

/-- **`is_torsion_free p ⟺ into_subgroup p` is `Some` ⟺ `ℓ·p = 0`.** -/
theorem is_torsion_free_agreement {p : Pt} (hp : onCurve p = true) :
    (isTorsionFree p = true ↔ (Group.intoSubgroup p).isSome = true) ∧
    (isTorsionFree p = true ↔ L • toEd p hp = 0) :=
  ⟨by rw [Dalek.Proofs.Group.intoSubgroup_isSome], isTorsionFree_iff hp⟩

/-- On the encoding of a canonical curve point, `SubgroupPoint::from_bytes` is `into_subgroup`. -/
theorem subgroup_from_bytes_compress {p : Pt} (hp : onCurve p = true) (cp : Canon p) :
    Group.subFromBytes (compress p) = Group.intoSubgroup p := by
  rw [Dalek.Proofs.Group.subFromBytes_eq, decompress_compress hp cp, Option.bind_some]

/-- **Non-identity small-order points are rejected**: a canonical curve point with `8·p = 0`, `p ≠ 0`, is not
torsion free, so `into_subgroup` returns `None` (`gcd(8, ℓ) = 1`). -/
theorem into_subgroup_small_order {p : Pt} (hp : onCurve p = true) (cp : Canon p)
    (h8 : isSmallOrder p = true) (hne : p ≠ Pt.zero) :
    isTorsionFree p = false ∧ Group.intoSubgroup p = none := by
  have h := Dalek.Proofs.Group.not_torsionFree_of_smallOrder hp cp h8 hne
  refine ⟨h, ?_⟩
  unfold Group.intoSubgroup
  rw [h]; rfl

/-- Both outcomes occur: the basepoint is in the prime-order subgroup … -/
example : Group.intoSubgroup B = some B ∧ Group.subFromBytes (compress B) = some B := by
  have h : Group.intoSubgroup B = some B :=
    (Dalek.Proofs.Group.intoSubgroup_eq_some_iff B B).2 ⟨rfl, Dalek.Proofs.Group.isTorsionFree_B⟩
  exact ⟨h, (subgroup_from_bytes_compress onCurve_B canon_B).trans h⟩

/-- … and the 8-torsion generator `EIGHT_TORSION[1]` is on the curve but is rejected (while plain
`from_bytes` accepts it). -/
example :
    Group.intoSubgroup (eightTorsion.getD 1 Pt.zero) = none ∧
    Group.subFromBytes (compress (eightTorsion.getD 1 Pt.zero)) = none ∧
    Group.edFromBytes (compress (eightTorsion.getD 1 Pt.zero)) = some (eightTorsion.getD 1 Pt.zero) := by
  have hp : onCurve (eightTorsion.getD 1 Pt.zero) = true := by decide +kernel
  have cp : Canon (eightTorsion.getD 1 Pt.zero) := by decide +kernel
  have h8 : isSmallOrder (eightTorsion.getD 1 Pt.zero) = true := by decide +kernel
  have hne : eightTorsion.getD 1 Pt.zero ≠ Pt.zero := by decide +kernel
  have h := (into_subgroup_small_order hp cp h8 hne).2
  exact ⟨h, (subgroup_from_bytes_compress hp cp).trans h, ed_from_bytes_compress hp cp⟩

/-! ## 9. The extended-coordinate code that the driver executes

`groupOp` runs `EPt.decompress`, `EPt.isTorsionFree`, `EPt.mulByPow2 3` on extended points obtained from
`EPt.decompress` (hence `Valid`, `valid_decompress`) and prints `compress ∘ toAffine`.  These theorems say that,
read through `toAffine`, that is the affine model above. -/

/-- `grp.ed_from_bytes`. -/
theorem ed_from_bytes_E (b : List UInt8) :
    (EPt.decompress b).map EPt.toAffine = Group.edFromBytes b :=
  Dalek.Proofs.Group.decompressE_toAffine b

/-- `grp.sub_from_bytes` (the driver's `match` written with `Option.bind`). -/
theorem subgroup_from_bytes_E (b : List UInt8) :
    ((EPt.decompress b).bind (fun e => if EPt.isTorsionFree e then some e else none)).map EPt.toAffine =
      Group.subFromBytes b :=
  Dalek.Proofs.Group.subFromBytesE_toAffine b

/-- `grp.is_torsion_free`, `grp.into_subgroup`. -/
theorem is_torsion_free_E {e : EPt} (he : e.Valid) :
    e.isTorsionFree = isTorsionFree e.toAffine ∧
    (if EPt.isTorsionFree e then some e else none).map EPt.toAffine = Group.intoSubgroup e.toAffine := by
  have h := Dalek.Proofs.Group.isTorsionFreeE_eq he
  refine ⟨h, ?_⟩
  unfold Group.intoSubgroup
  rw [h]
  cases isTorsionFree e.toAffine <;> rfl

/-- `grp.clear_cofactor` (`mul_by_pow_2(3)`). -/
theorem clear_cofactor_E {e : EPt} (he : e.Valid) :
    (EPt.mulByPow2 3 e).toAffine = Group.clearCofactor e.toAffine :=
  Dalek.Proofs.Group.mulByPow2_three_toAffine he

/-- `Valid` is what the driver's point arguments satisfy. -/
example {b : List UInt8} {e : EPt} (h : EPt.decompress b = some e) : e.Valid := valid_decompress h

/-! ## Axiom audit -/

/-- info: 'Dalek.Props.C17.model_constants_eq_source' depends on axioms: [propext, Classical.choice, Quot.sound] -/
#guard_msgs in #print axioms model_constants_eq_source

/-- info: 'Dalek.Props.C17.sqrt_spec' depends on axioms: [propext, Classical.choice, Quot.sound] -/
#guard_msgs in #print axioms sqrt_spec

/-- info: 'Dalek.Props.C17.sqrt_none_iff' depends on axioms: [propext, Classical.choice, Quot.sound] -/
#guard_msgs in #print axioms sqrt_none_iff

/-- info: 'Dalek.Props.C17.sqrt_isSome_iff' depends on axioms: [propext, Classical.choice, Quot.sound] -/
#guard_msgs in #print axioms sqrt_isSome_iff

/-- info: 'Dalek.Props.C17.sqrt_isSome_iff_nat' depends on axioms: [propext, Classical.choice, Quot.sound] -/
#guard_msgs in #print axioms sqrt_isSome_iff_nat

/-- info: 'Dalek.Props.C17.sqrt_mod' depends on axioms: [propext] -/
#guard_msgs in #print axioms sqrt_mod

/-- info: 'Dalek.Props.C17.invert_none_iff_zero' depends on axioms: [propext, Classical.choice, Quot.sound] -/
#guard_msgs in #print axioms invert_none_iff_zero

/-- info: 'Dalek.Props.C17.invert_spec' depends on axioms: [propext, Classical.choice, Quot.sound] -/
#guard_msgs in #print axioms invert_spec

/-- info: 'Dalek.Props.C17.invert_cast' depends on axioms: [propext, Classical.choice, Quot.sound] -/
#guard_msgs in #print axioms invert_cast

/-- info: 'Dalek.Props.C17.sqrt_ratio_spec' depends on axioms: [propext, Classical.choice, Quot.sound] -/
#guard_msgs in #print axioms sqrt_ratio_spec

/-- info: 'Dalek.Props.C17.from_repr_iff_canonical' depends on axioms: [propext, Quot.sound] -/
#guard_msgs in #print axioms from_repr_iff_canonical

/-- info: 'Dalek.Props.C17.from_repr_isSome_iff' does not depend on any axioms -/
#guard_msgs in #print axioms from_repr_isSome_iff

/-- info: 'Dalek.Props.C17.from_repr_to_repr' depends on axioms: [propext, Classical.choice, Quot.sound] -/
#guard_msgs in #print axioms from_repr_to_repr

/-- info: 'Dalek.Props.C17.to_repr_from_repr' depends on axioms: [propext, Quot.sound] -/
#guard_msgs in #print axioms to_repr_from_repr

/-- info: 'Dalek.Props.C17.encoding_eq_compress' depends on axioms: [propext] -/
#guard_msgs in #print axioms encoding_eq_compress

/-- info: 'Dalek.Props.C17.ed_from_bytes_compress' depends on axioms: [propext, Classical.choice, Quot.sound] -/
#guard_msgs in #print axioms ed_from_bytes_compress

/-- info: 'Dalek.Props.C17.ed_from_bytes_some' depends on axioms: [propext, Classical.choice, Quot.sound] -/
#guard_msgs in #print axioms ed_from_bytes_some

/-- info: 'Dalek.Props.C17.compress_ed_from_bytes' depends on axioms: [propext, Classical.choice, Quot.sound] -/
#guard_msgs in #print axioms compress_ed_from_bytes

/-- info: 'Dalek.Props.C17.subgroup_from_bytes_iff' depends on axioms: [propext, Classical.choice, Quot.sound] -/
#guard_msgs in #print axioms subgroup_from_bytes_iff

/-- info: 'Dalek.Props.C17.subgroup_from_bytes_iff'' depends on axioms: [propext, Quot.sound] -/
#guard_msgs in #print axioms subgroup_from_bytes_iff'

/-- info: 'Dalek.Props.C17.subgroup_from_bytes_isSome_iff' depends on axioms: [propext, Classical.choice, Quot.sound] -/
#guard_msgs in #print axioms subgroup_from_bytes_isSome_iff

/-- info: 'Dalek.Props.C17.subgroup_from_bytes_eq' depends on axioms: [propext, Quot.sound] -/
#guard_msgs in #print axioms subgroup_from_bytes_eq

/-- info: 'Dalek.Props.C17.into_subgroup_iff' depends on axioms: [propext, Classical.choice, Quot.sound] -/
#guard_msgs in #print axioms into_subgroup_iff

/-- info: 'Dalek.Props.C17.into_subgroup_some' does not depend on any axioms -/
#guard_msgs in #print axioms into_subgroup_some

/-- info: 'Dalek.Props.C17.into_subgroup_eq_some_iff' depends on axioms: [propext, Classical.choice, Quot.sound] -/
#guard_msgs in #print axioms into_subgroup_eq_some_iff

/-- info: 'Dalek.Props.C17.clear_cofactor_eq' depends on axioms: [propext, Classical.choice, Quot.sound] -/
#guard_msgs in #print axioms clear_cofactor_eq

/-- info: 'Dalek.Props.C17.clear_cofactor_canon' depends on axioms: [propext, Classical.choice, Quot.sound] -/
#guard_msgs in #print axioms clear_cofactor_canon

/-- info: 'Dalek.Props.C17.clear_cofactor_onCurve' depends on axioms: [propext, Classical.choice, Quot.sound] -/
#guard_msgs in #print axioms clear_cofactor_onCurve

/-- info: 'Dalek.Props.C17.clear_cofactor_torsion_free' depends on axioms: [propext, Classical.choice, Quot.sound] -/
#guard_msgs in #print axioms clear_cofactor_torsion_free

/-- info: 'Dalek.Props.C17.is_torsion_free_agreement' depends on axioms: [propext, Classical.choice, Quot.sound] -/
#guard_msgs in #print axioms is_torsion_free_agreement

/-- info: 'Dalek.Props.C17.into_subgroup_small_order' depends on axioms: [propext, Classical.choice, Quot.sound] -/
#guard_msgs in #print axioms into_subgroup_small_order

/-- info: 'Dalek.Props.C17.subgroup_from_bytes_compress' depends on axioms: [propext, Classical.choice, Quot.sound] -/
#guard_msgs in #print axioms subgroup_from_bytes_compress

/-- info: 'Dalek.Props.C17.ed_from_bytes_E' depends on axioms: [propext, Classical.choice, Quot.sound] -/
#guard_msgs in #print axioms ed_from_bytes_E

/-- info: 'Dalek.Props.C17.subgroup_from_bytes_E' depends on axioms: [propext, Classical.choice, Quot.sound] -/
#guard_msgs in #print axioms subgroup_from_bytes_E

/-- info: 'Dalek.Props.C17.is_torsion_free_E' depends on axioms: [propext, Classical.choice, Quot.sound] -/
#guard_msgs in #print axioms is_torsion_free_E

/-- info: 'Dalek.Props.C17.clear_cofactor_E' depends on axioms: [propext, Classical.choice, Quot.sound] -/
#guard_msgs in #print axioms clear_cofactor_E

/-! ## 10. `clear_cofactor` and the prime-order subgroup, WITHOUT hypotheses on the group order

`Dalek/Proofs/CurveOrder.lean` proves `#E = 8ℓ` (`Dalek.CurveOrder.card_Ed : Nat.card Ed = 8 * L`) and
`Dalek/Proofs/CurveOrder/Structure.lean` the structure `E = ⟨B⟩ ⊕ ⟨T₈⟩`; so the hypothesis `h8l` of
`clear_cofactor_torsion_free` holds for every point. -/

/-- **`clear_cofactor` always returns a torsion-free point** (no hypothesis: `(8ℓ)·P = 0` for every point of
the curve, `Dalek.CurveOrder.eight_L_nsmul`). -/
theorem clear_cofactor_torsion_free' {p : Pt} (hp : onCurve p = true) :
    isTorsionFree (Group.clearCofactor p) = true :=
  clear_cofactor_torsion_free hp (Dalek.CurveOrder.eight_L_nsmul _)

/-- hence `into_subgroup (clear_cofactor p)` is always `Some` -/
theorem into_subgroup_clear_cofactor {p : Pt} (hp : onCurve p = true) :
    Group.intoSubgroup (Group.clearCofactor p) = some (Group.clearCofactor p) :=
  (Dalek.Proofs.Group.intoSubgroup_eq_some_iff _ _).2 ⟨rfl, clear_cofactor_torsion_free' hp⟩

/-- **The torsion-free points are exactly the multiples of the basepoint**: `is_torsion_free p` iff `p` denotes
`n·B` for some `n < ℓ` (the prime-order subgroup is `⟨B⟩`, of order `ℓ`). -/
theorem is_torsion_free_iff_multiple_of_B {p : Pt} (hp : onCurve p = true) :
    isTorsionFree p = true ↔ ∃ n, n < L ∧ toEd p hp = n • Bpt := by
  rw [isTorsionFree_iff hp, Dalek.CurveOrder.prime_order_subgroup_iff]

/-- **`clear_cofactor p` is a multiple of the basepoint**, for every curve point `p`. -/
theorem clear_cofactor_multiple_of_B {p : Pt} (hp : onCurve p = true) :
    ∃ n, n < L ∧ Group.clearCofactor p = Pt.smul n B := by
  obtain ⟨n, hn, h⟩ := (is_torsion_free_iff_multiple_of_B (clear_cofactor_onCurve hp)).1
    (clear_cofactor_torsion_free' hp)
  refine ⟨n, hn, ?_⟩
  refine toEd_injective (clear_cofactor_onCurve hp) (onCurve_smul onCurve_B n) (clear_cofactor_canon p)
    (canon_smul n B) ?_
  rw [h, toEd_smul onCurve_B n]; rfl

/-- **The points of small order are exactly the eight entries of `EIGHT_TORSION`** (`Spec.eightTorsion`,
compared with the crate's literals in `Dalek/Props/C12/Consts.lean`). -/
theorem is_small_order_iff_eight_torsion {p : Pt} (hp : onCurve p = true) (cp : Canon p) :
    isSmallOrder p = true ↔ ∃ i, i < 8 ∧ p = eightTorsion.getD i Pt.zero := by
  rw [isSmallOrder_iff hp]
  constructor
  · intro h
    obtain ⟨i, hi, hr⟩ := Dalek.CurveOrder.torsion8_rep h
    refine ⟨i, hi, Rep.unique (rep_toEd p hp) hr cp ?_⟩
    have : ∀ i, i < 8 → Canon (eightTorsion.getD i Pt.zero) := by decide +kernel
    exact this i hi
  · rintro ⟨i, hi, rfl⟩
    exact Dalek.CurveOrder.eightTorsion_small_order hi (rep_toEd _ hp)

/-- info: 'Dalek.Props.C17.clear_cofactor_torsion_free'' depends on axioms: [propext, Classical.choice, Quot.sound] -/
#guard_msgs in #print axioms clear_cofactor_torsion_free'

/-- info: 'Dalek.Props.C17.into_subgroup_clear_cofactor' depends on axioms: [propext, Classical.choice, Quot.sound] -/
#guard_msgs in #print axioms into_subgroup_clear_cofactor

/-- info: 'Dalek.Props.C17.is_torsion_free_iff_multiple_of_B' depends on axioms: [propext, Classical.choice, Quot.sound] -/
#guard_msgs in #print axioms is_torsion_free_iff_multiple_of_B

/-- info: 'Dalek.Props.C17.clear_cofactor_multiple_of_B' depends on axioms: [propext, Classical.choice, Quot.sound] -/
#guard_msgs in #print axioms clear_cofactor_multiple_of_B

/-- info: 'Dalek.Props.C17.is_small_order_iff_eight_torsion' depends on axioms: [propext, Classical.choice, Quot.sound] -/
#guard_msgs in #print axioms is_small_order_iff_eight_torsion

end Dalek.Props.C17

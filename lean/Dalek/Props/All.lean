import Dalek.Props.C01
import Dalek.Props.C02
import Dalek.Props.C04
import Dalek.Props.C11
import Dalek.Props.C12
import Dalek.Props.C14
import Dalek.Props.C15
import Dalek.Props.C17

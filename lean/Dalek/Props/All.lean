import Dalek.Props.C01
import Dalek.Props.C11

import Dalek.Props.C01

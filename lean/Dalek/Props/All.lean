import Dalek.Props.C01
import Dalek.Props.C04
import Dalek.Props.C11

import Dalek.Props.C14.Inventory

import Dalek.Proofs.Serde

/-!
# C16 — serialised forms are the canonical encodings and deserialisation validates

Statements about the hand model `Dalek.Model.Serde` (`bincodeSer`/`bincodeDe` = `bincode::serialize` /
`bincode::deserialize`, `jsonSer`/`jsonDe` = `serde_json::to_vec` / `from_slice` for the eleven serialisable
types `Ty`), which the correspondence run compares with the real `serde` impls (ops `serde.*`).  A value is
represented by its canonical NATIVE byte string `v` (`Scalar::to_bytes`, `compress()`, `as_bytes()`, …);
`validate ty b` is the native decoder followed by re-encoding, and

  `Valid ty v  :=  validate ty v = some v`        ("`v` is the native encoding of a valid value"),

characterised per type by `valid_scalar_iff`, `valid_edwards_iff`, `valid_vk_iff`, `valid_ristretto_iff`,
`valid_plain_iff` below.

* **`ser_canonical`** — `bincode_ser_tuple`, `bincode_ser_bytes`, `json_ser_canonical`, `natToDec_spec`.
* **`de_ser`** — `bincode_de_ser`, `json_de_ser` (all types, uniformly in `Valid`), their per-type readings
  (`scalar_de_ser`, `edwards_de_ser`, `vk_de_ser`, …), `static_secret_unclamped`.
* **`de_validates`** — `bincode_de_validates` / `json_de_validates`: the EXACT set of accepted inputs
  (`↔`), the slack being exactly the model's (= the real libraries'): bincode ignores bytes after a complete value,
  JSON allows whitespace between tokens (and, for the two `deserialize_bytes` types `vk`/`sk`, a JSON string);
  per-type readings; the rejection theorems (`invalid_native_rejected`, `noncanonical_scalar_rejected`,
  `invalid_edwards_rejected`, `invalid_ristretto_rejected`, `bincode_short_rejected_*`,
  `json_wrong_count_rejected`, `json_token_rejected`, `json_empty_array_rejected`).

For `ristretto` the RFC 9496 round trip `decode b = some p → encode p = b` is proved
(`ristretto_encode_decode_id`), so the valid values are exactly the byte strings DECODE accepts.  What is NOT
proved here (it belongs to C06, not to the serde layer): that `compress()` of an ARBITRARY internal
representative of a Ristretto element (any point of the even subgroup, e.g. the result of arithmetic — not one
that came out of DECODE) is such a byte string.  The model, like the driver, only builds `RistrettoPoint`
values by decoding.
-/

namespace Dalek.Props.C16

open Dalek.Spec Dalek.Model.Serde Dalek.Bridge Dalek.Proofs.Serde

/-! ## Valid values, per type -/

/-- `Scalar`: `from_canonical_bytes` — 32 bytes denoting an integer `< ℓ`. -/
theorem valid_scalar_iff {v : List UInt8} :
    Valid .scalar v ↔ v.length = 32 ∧ leToNat v < L := by
  rw [valid_scalar, isCanonicalScalar_iff]

/-- `EdwardsPoint`: the encodings `compress p` of the (canonical affine) curve points. -/
theorem valid_edwards_iff {v : List UInt8} :
    Valid .edwards v ↔ ∃ p, onCurve p = true ∧ Canon p ∧ v = compress p := valid_edwards

/-- `EdwardsPoint`, intrinsically: 32 bytes that decompress and are a canonical encoding (`y` reduced, not the
"negative zero"). -/
theorem valid_edwards_iff_canonical {v : List UInt8} :
    Valid .edwards v ↔ v.length = 32 ∧ (decompress v).isSome = true ∧ CanonicalEdwardsEncoding v := by
  constructor
  · intro h
    obtain ⟨p, h1, h2, rfl⟩ := valid_edwards.1 h
    exact ⟨compress_length p, by rw [decompress_compress h1 h2]; rfl, h.canonicalEdwards⟩
  · rintro ⟨hl, hs, hc⟩
    obtain ⟨p, hp⟩ := Option.isSome_iff_exists.1 hs
    have hv : validate .edwards v = some (compress p) := validate_edwards.2 ⟨hl, p, hp, rfl⟩
    have := validate_edwards_canonical hv hc
    unfold Valid; rw [hv, this]

/-- `VerifyingKey`: `VerifyingKey::from_bytes` — 32 bytes that decompress (kept as given). -/
theorem valid_vk_iff {v : List UInt8} :
    Valid .vk v ↔ v.length = 32 ∧ decompress v ≠ none := by
  rw [valid_vk]; simp [Option.isSome_iff_ne_none]

/-- **RFC 9496 round trip**: re-encoding the element DECODEd from `b` gives `b` back. -/
theorem ristretto_encode_decode_id {b : List UInt8} {p : Pt} (h : Ristretto.decode b = some p) :
    Ristretto.encode p = b := ristretto_encode_decode h

/-- `RistrettoPoint`: the byte strings RFC 9496 DECODE accepts (32 bytes, `s` canonical and non-negative,
…). -/
theorem valid_ristretto_iff {v : List UInt8} :
    Valid .ristretto v ↔ Ristretto.decode v ≠ none := by
  rw [valid_ristretto]; simp [Option.isSome_iff_ne_none]

/-- `CompressedEdwardsY`, `CompressedRistretto`, `MontgomeryPoint`, `SigningKey` (seed), `Signature`,
`x25519::PublicKey`, `x25519::StaticSecret`: any 32 (64 for `sig`) bytes. -/
theorem valid_plain_iff {ty : Ty} (hty : Plain ty = true) {v : List UInt8} :
    Valid ty v ↔ v.length = ty.len := valid_plain hty

/-- The seven types of `valid_plain_iff`. -/
theorem plain_types : ∀ ty, Plain ty = true ↔
    ty = .cedwards ∨ ty = .cristretto ∨ ty = .montgomery ∨ ty = .sk ∨ ty = .sig ∨ ty = .xpub ∨
      ty = .xstatic := by
  intro ty; cases ty <;> simp [Plain]

/-- The hypotheses are satisfiable: the basepoint encoding is a valid `edwards`, `vk` and its 32 bytes a valid
value of every 32-byte plain type; `1` is a valid scalar. -/
example : Valid .edwards (compress B) ∧ Valid .vk (compress B) ∧ Valid .montgomery (compress B) ∧
    Valid .scalar (scToBytes 1) := by
  refine ⟨valid_edwards.2 ⟨B, onCurve_B, canon_B, rfl⟩, valid_vk.2 ⟨compress_length B, ?_⟩,
    (valid_plain (ty := .montgomery) rfl).2 (compress_length B),
    valid_scalar.2 (isCanonicalScalar_scToBytes 1)⟩
  rw [decompress_compress onCurve_B canon_B]; rfl

/-! ## `ser_canonical` -/

/-- bincode, tuple types (everything but `vk`, `sk`): the serialisation is exactly the native bytes. -/
theorem bincode_ser_tuple {ty : Ty} (hty : ty.bytesStyle = false) (v : List UInt8) :
    bincodeSer ty v = v := bincodeSer_plain hty v

/-- bincode, `serialize_bytes` types (`vk`, `sk`): the `u64` little-endian length, then the native bytes. -/
theorem bincode_ser_bytes {ty : Ty} (hty : ty.bytesStyle = true) {v : List UInt8} (hv : v.length = 32) :
    bincodeSer ty v = [32, 0, 0, 0, 0, 0, 0, 0] ++ v := by
  rw [bincodeSer_bytes hty, hv]; rfl

/-- which types are `serialize_bytes` types -/
theorem bytesStyle_iff (ty : Ty) : ty.bytesStyle = true ↔ ty = .vk ∨ ty = .sk := by
  cases ty <;> simp [Ty.bytesStyle]

/-- JSON (all types): `[n₀,n₁,…]`, the compact array of the byte values … -/
theorem json_ser_canonical (ty : Ty) (v : List UInt8) :
    jsonSer ty v = [0x5b] ++ intercalateBytes 0x2c (v.map fun b => natToDec b.toNat) ++ [0x5d] := rfl

/-- … each printed in decimal without leading zeros (`'0' = 48`). -/
theorem natToDec_spec (b : UInt8) :
    natToDec b.toNat =
      if b.toNat < 10 then [UInt8.ofNat (48 + b.toNat)]
      else if b.toNat < 100 then [UInt8.ofNat (48 + b.toNat / 10), UInt8.ofNat (48 + b.toNat % 10)]
      else [UInt8.ofNat (48 + b.toNat / 100), UInt8.ofNat (48 + b.toNat / 10 % 10),
        UInt8.ofNat (48 + b.toNat % 10)] :=
  natToDec_eq_refDec b.toNat (UInt8.toNat_lt b)

/-- The compact serialisation is a JSON array of `v` in the sense of `IsJsonArrayOf` (no whitespace). -/
theorem json_ser_isJsonArrayOf (ty : Ty) {v : List UInt8} (hv : v ≠ []) :
    IsJsonArrayOf v (jsonSer ty v) := jsonSer_isJsonArrayOf ty hv

/-! ## `de_ser` -/

/-- **bincode round trip**, every type, every valid value; bytes after the value are ignored
(`bincode::deserialize` does not require the input to be consumed). -/
theorem bincode_de_ser {ty : Ty} {v : List UInt8} (hv : Valid ty v) (trailing : List UInt8 := []) :
    bincodeDe ty (bincodeSer ty v ++ trailing) = .ok v := by
  rw [bincodeDe_ser_append ty hv.length, hv]; rfl

/-- **JSON round trip**, every type, every valid value. -/
theorem json_de_ser {ty : Ty} {v : List UInt8} (hv : Valid ty v) :
    jsonDe ty (jsonSer ty v) = .ok v := by
  rw [jsonDe_ser, if_pos hv.length, hv]; rfl

/-- JSON round trip through any re-formatting of the array with whitespace. -/
theorem json_de_ser_ws {ty : Ty} {v x : List UInt8} (hv : Valid ty v) (hx : IsJsonArrayOf v x) :
    jsonDe ty x = .ok v := by
  rw [jsonDe_of_isJsonArrayOf ty hx, if_pos hv.length, hv]; rfl

/-- `Scalar`: every scalar (as `n mod ℓ`) round-trips in both formats. -/
theorem scalar_de_ser (n : Nat) :
    bincodeDe .scalar (bincodeSer .scalar (scToBytes n)) = .ok (scToBytes n) ∧
    jsonDe .scalar (jsonSer .scalar (scToBytes n)) = .ok (scToBytes n) := by
  have hv : Valid .scalar (scToBytes n) := valid_scalar.2 (isCanonicalScalar_scToBytes n)
  exact ⟨by simpa using bincode_de_ser hv, json_de_ser hv⟩

/-- `EdwardsPoint`: every curve point round-trips in both formats. -/
theorem edwards_de_ser {p : Pt} (hp : onCurve p = true) (cp : Canon p) :
    bincodeDe .edwards (bincodeSer .edwards (compress p)) = .ok (compress p) ∧
    jsonDe .edwards (jsonSer .edwards (compress p)) = .ok (compress p) := by
  have hv : Valid .edwards (compress p) := valid_edwards.2 ⟨p, hp, cp, rfl⟩
  exact ⟨by simpa using bincode_de_ser hv, json_de_ser hv⟩

/-- `VerifyingKey`: every key `VerifyingKey::from_bytes` accepts round-trips (bytes kept verbatim, also a
non-canonical encoding). -/
theorem vk_de_ser {b : List UInt8} (hl : b.length = 32) (hd : decompress b ≠ none) :
    bincodeDe .vk (bincodeSer .vk b) = .ok b ∧ jsonDe .vk (jsonSer .vk b) = .ok b := by
  have hv : Valid .vk b := valid_vk_iff.2 ⟨hl, hd⟩
  exact ⟨by simpa using bincode_de_ser hv, json_de_ser hv⟩

/-- The seven unchecked types: every byte string of the right length round-trips. -/
theorem plain_de_ser {ty : Ty} (hty : Plain ty = true) {b : List UInt8} (hl : b.length = ty.len) :
    bincodeDe ty (bincodeSer ty b) = .ok b ∧ jsonDe ty (jsonSer ty b) = .ok b := by
  have hv : Valid ty b := (valid_plain hty).2 hl
  exact ⟨by simpa using bincode_de_ser hv, json_de_ser hv⟩

/-- **X25519 static secrets round-trip unclamped**: the 32 secret bytes come back verbatim — not
`clampInteger b` — in both formats. -/
theorem static_secret_unclamped {b : List UInt8} (hl : b.length = 32) :
    bincodeDe .xstatic (bincodeSer .xstatic b) = .ok b ∧ jsonDe .xstatic (jsonSer .xstatic b) = .ok b :=
  plain_de_ser (ty := .xstatic) rfl hl

/-- … and this differs from the clamped bytes (e.g. for the all-`0xff` secret). -/
example : clampInteger (List.replicate 32 0xff) ≠ List.replicate 32 0xff := by decide

/-- `RistrettoPoint`: every encoding DECODE accepts round-trips in both formats. -/
theorem ristretto_de_ser {v : List UInt8} (hd : Ristretto.decode v ≠ none) :
    bincodeDe .ristretto (bincodeSer .ristretto v) = .ok v ∧
    jsonDe .ristretto (jsonSer .ristretto v) = .ok v := by
  have hv : Valid .ristretto v := valid_ristretto_iff.2 hd
  exact ⟨by simpa using bincode_de_ser hv, json_de_ser hv⟩

/-- the hypothesis of `ristretto_de_ser` is satisfiable (identity element = the all-zero string; and the
canonical generator encoding of RFC 9496 appendix A.1) -/
example : Ristretto.decode (List.replicate 32 0) ≠ none ∧
    Ristretto.decode (Ristretto.encode B) ≠ none := by
  constructor <;> decide +kernel

/-! ## `de_validates` -/

/-- **bincode accepts exactly** the serialisations of byte strings `b` that pass the native rule, followed by
arbitrary bytes; the result is the native re-encoding `v` of the decoded value.  Moreover
(`native_rule_validates`) `v` is a valid value, and `b = v` (the input was the canonical serialisation of the
result) for every type except `edwards`, whose native decoder also accepts non-canonical encodings `b` of `v`
(see `edwards_bincode_de_validates`, `edwards_result_canonical`). -/
theorem bincode_de_validates {ty : Ty} {x v : List UInt8} :
    bincodeDe ty x = .ok v ↔ ∃ b trailing, x = bincodeSer ty b ++ trailing ∧ validate ty b = some v :=
  bincodeDe_ok_iff

/-- the consequences of `validate ty b = some v` used in `bincode_de_validates` / `json_de_validates` -/
theorem native_rule_validates {ty : Ty} {b v : List UInt8} (h : validate ty b = some v) :
    b.length = ty.len ∧ Valid ty v ∧ (ty ≠ .edwards → b = v) ∧
    (ty = .edwards → CanonicalEdwardsEncoding b → b = v) :=
  ⟨validate_length h, validate_valid h, fun h1 => (validate_eq_input h1 h).symm,
    fun h1 hc => by subst h1; exact (validate_edwards_canonical h hc).symm⟩

/-- `bincodeDe` never answers `skip` (the model covers all of bincode's behaviour on these types). -/
theorem bincode_total (ty : Ty) (x : List UInt8) : bincodeDe ty x ≠ .skip := bincodeDe_ne_skip ty x

/-- **JSON accepts exactly** (a) the arrays — with optional whitespace around the tokens — of the canonical
decimal forms of bytes `b` passing the native rule, and (b) for the `deserialize_bytes` types `vk`, `sk`
only, a JSON string whose unescaped raw bytes `b` pass the native rule (`IsJsonStringOf`: serde_json hands
the bytes of a string to `visit_bytes`). -/
theorem json_de_validates {ty : Ty} {x v : List UInt8} :
    jsonDe ty x = .ok v ↔
      (∃ b, IsJsonArrayOf b x ∧ validate ty b = some v) ∨
      (ty.bytesStyle = true ∧ ∃ b, IsJsonStringOf b x ∧ validate ty b = some v) :=
  jsonDe_ok_iff

/-- `jsonDe` answers `skip` ("outside the modelled fragment") only for `vk`/`sk` on a JSON STRING containing
a `\u` escape; on every array input and for every other type the model is total. -/
theorem json_skip_only_string_escape {ty : Ty} {x : List UInt8} (h : jsonDe ty x = .skip) :
    ty.bytesStyle = true ∧ ∃ w0 body, AllWs w0 ∧ x = w0 ++ 0x22 :: body ∧
      readRawString body [] = some none := jsonDe_skip_inv h

/-! ### Per-type readings -/

/-- `Scalar`, bincode: accepted iff the first 32 bytes are a canonical scalar; they are returned. -/
theorem scalar_bincode_de_validates {x v : List UInt8} :
    bincodeDe .scalar x = .ok v ↔ (v.length = 32 ∧ leToNat v < L) ∧ ∃ trailing, x = v ++ trailing := by
  rw [bincode_de_validates]
  constructor
  · rintro ⟨b, t, rfl, hv⟩
    obtain ⟨hc, rfl⟩ := validate_scalar.1 hv
    exact ⟨(isCanonicalScalar_iff _).1 hc, t, by rw [bincodeSer_plain rfl]⟩
  · rintro ⟨hc, t, rfl⟩
    exact ⟨v, t, by rw [bincodeSer_plain rfl], validate_scalar.2 ⟨(isCanonicalScalar_iff _).2 hc, rfl⟩⟩

/-- `Scalar`, JSON: accepted iff the input is a JSON array of the 32 bytes of a canonical scalar. -/
theorem scalar_json_de_validates {x v : List UInt8} :
    jsonDe .scalar x = .ok v ↔ (v.length = 32 ∧ leToNat v < L) ∧ IsJsonArrayOf v x := by
  rw [json_de_validates]
  constructor
  · rintro (⟨b, hb, hv⟩ | ⟨h, -⟩)
    · obtain ⟨hc, rfl⟩ := validate_scalar.1 hv
      exact ⟨(isCanonicalScalar_iff _).1 hc, hb⟩
    · cases h
  · rintro ⟨hc, hx⟩
    exact Or.inl ⟨v, hx, validate_scalar.2 ⟨(isCanonicalScalar_iff _).2 hc, rfl⟩⟩

/-- `EdwardsPoint`, bincode: accepted iff the first 32 bytes `b` decompress (dalek's rule, which also takes
non-canonical `b`); the result is the canonical encoding of that point, and it equals `b` whenever `b` is a
canonical encoding. -/
theorem edwards_bincode_de_validates {x v : List UInt8} :
    bincodeDe .edwards x = .ok v ↔
      ∃ b trailing p, x = b ++ trailing ∧ b.length = 32 ∧ decompress b = some p ∧ v = compress p := by
  rw [bincode_de_validates]
  constructor
  · rintro ⟨b, t, rfl, hv⟩
    obtain ⟨hl, p, hp, rfl⟩ := validate_edwards.1 hv
    exact ⟨b, t, p, by rw [bincodeSer_plain rfl], hl, hp, rfl⟩
  · rintro ⟨b, t, p, rfl, hl, hp, rfl⟩
    exact ⟨b, t, by rw [bincodeSer_plain rfl], validate_edwards.2 ⟨hl, p, hp, rfl⟩⟩

/-- `EdwardsPoint`, JSON. -/
theorem edwards_json_de_validates {x v : List UInt8} :
    jsonDe .edwards x = .ok v ↔
      ∃ b p, IsJsonArrayOf b x ∧ b.length = 32 ∧ decompress b = some p ∧ v = compress p := by
  rw [json_de_validates]
  constructor
  · rintro (⟨b, hb, hv⟩ | ⟨h, -⟩)
    · obtain ⟨hl, p, hp, rfl⟩ := validate_edwards.1 hv
      exact ⟨b, p, hb, hl, hp, rfl⟩
    · cases h
  · rintro ⟨b, p, hb, hl, hp, rfl⟩
    exact Or.inl ⟨b, hb, validate_edwards.2 ⟨hl, p, hp, rfl⟩⟩

/-- `EdwardsPoint`: the accepted `b` IS the canonical serialisation of the result when it is a canonical
encoding; in every case the result is a valid value (the canonical encoding of a curve point). -/
theorem edwards_result_canonical {b v : List UInt8} {p : Pt} (hl : b.length = 32)
    (hp : decompress b = some p) (hv : v = compress p) :
    Valid .edwards v ∧ (CanonicalEdwardsEncoding b → b = v) := by
  have h : validate .edwards b = some v := validate_edwards.2 ⟨hl, p, hp, hv⟩
  exact ⟨validate_valid h, fun hc => (validate_edwards_canonical h hc).symm⟩

/-- The slack of `edwards_result_canonical` is real (and is dalek's): the 32 bytes of `2^255 - 18 = p + 1`
(the identity `y = 1` written with a non-reduced `y`) are accepted and re-serialise as the canonical
`01 00 … 00`. -/
example : bincodeDe .edwards (natToLe (2 ^ 255 - 18) 32) = .ok (natToLe 1 32) := by decide +kernel

/-- `VerifyingKey`, bincode: accepted iff the input is `32u64` (LE), then 32 bytes that decompress, then
anything; the 32 bytes are returned. -/
theorem vk_bincode_de_validates {x v : List UInt8} :
    bincodeDe .vk x = .ok v ↔
      (v.length = 32 ∧ decompress v ≠ none) ∧ ∃ trailing, x = [32, 0, 0, 0, 0, 0, 0, 0] ++ v ++ trailing := by
  rw [bincode_de_validates]
  constructor
  · rintro ⟨b, t, rfl, hv⟩
    obtain ⟨hl, hp, rfl⟩ := validate_vk.1 hv
    exact ⟨⟨hl, Option.isSome_iff_ne_none.1 hp⟩, t, by rw [bincode_ser_bytes rfl hl]⟩
  · rintro ⟨⟨hl, hp⟩, t, rfl⟩
    exact ⟨v, t, by rw [bincode_ser_bytes rfl hl],
      validate_vk.2 ⟨hl, Option.isSome_iff_ne_none.2 hp, rfl⟩⟩

/-- `VerifyingKey`, JSON: a JSON array of — or a JSON string whose raw bytes are — 32 bytes that
decompress. -/
theorem vk_json_de_validates {x v : List UInt8} :
    jsonDe .vk x = .ok v ↔
      (v.length = 32 ∧ decompress v ≠ none) ∧ (IsJsonArrayOf v x ∨ IsJsonStringOf v x) := by
  rw [json_de_validates]
  constructor
  · rintro (⟨b, hb, hv⟩ | ⟨-, b, hb, hv⟩)
    · obtain ⟨hl, hp, rfl⟩ := validate_vk.1 hv
      exact ⟨⟨hl, Option.isSome_iff_ne_none.1 hp⟩, Or.inl hb⟩
    · obtain ⟨hl, hp, rfl⟩ := validate_vk.1 hv
      exact ⟨⟨hl, Option.isSome_iff_ne_none.1 hp⟩, Or.inr hb⟩
  · rintro ⟨⟨hl, hp⟩, hx | hx⟩
    · exact Or.inl ⟨v, hx, validate_vk.2 ⟨hl, Option.isSome_iff_ne_none.2 hp, rfl⟩⟩
    · exact Or.inr ⟨rfl, v, hx, validate_vk.2 ⟨hl, Option.isSome_iff_ne_none.2 hp, rfl⟩⟩

/-- `RistrettoPoint`, both formats: accepted iff the 32 bytes DECODE (RFC 9496 rule: canonical non-negative
`s`, square, non-negative `t`, `y ≠ 0`); they are returned (they ARE the canonical encoding of the element). -/
theorem ristretto_de_validates {x v : List UInt8} :
    (bincodeDe .ristretto x = .ok v ↔ Ristretto.decode v ≠ none ∧ ∃ trailing, x = v ++ trailing) ∧
    (jsonDe .ristretto x = .ok v ↔ Ristretto.decode v ≠ none ∧ IsJsonArrayOf v x) := by
  constructor
  · rw [bincode_de_validates]
    constructor
    · rintro ⟨b, t, rfl, hv⟩
      obtain ⟨hp, rfl⟩ := validate_ristretto_eq.1 hv
      exact ⟨Option.isSome_iff_ne_none.1 hp, t, by rw [bincodeSer_plain rfl]⟩
    · rintro ⟨hp, t, rfl⟩
      exact ⟨v, t, by rw [bincodeSer_plain rfl],
        validate_ristretto_eq.2 ⟨Option.isSome_iff_ne_none.2 hp, rfl⟩⟩
  · rw [json_de_validates]
    constructor
    · rintro (⟨b, hb, hv⟩ | ⟨h, -⟩)
      · obtain ⟨hp, rfl⟩ := validate_ristretto_eq.1 hv
        exact ⟨Option.isSome_iff_ne_none.1 hp, hb⟩
      · cases h
    · rintro ⟨hp, hx⟩
      exact Or.inl ⟨v, hx, validate_ristretto_eq.2 ⟨Option.isSome_iff_ne_none.2 hp, rfl⟩⟩

/-- The seven unchecked types, both formats: accepted iff `len` bytes are present (bincode: `sk` with its
length prefix; JSON: `sk` also as a string); they are returned verbatim.  In particular `Signature`'s
`Deserialize` checks neither `R` nor `S`, and `StaticSecret` is not clamped. -/
theorem plain_de_validates {ty : Ty} (hty : Plain ty = true) {x v : List UInt8} :
    (bincodeDe ty x = .ok v ↔ v.length = ty.len ∧ ∃ trailing, x = bincodeSer ty v ++ trailing) ∧
    (jsonDe ty x = .ok v ↔
      v.length = ty.len ∧ (IsJsonArrayOf v x ∨ (ty.bytesStyle = true ∧ IsJsonStringOf v x))) := by
  constructor
  · rw [bincode_de_validates]
    constructor
    · rintro ⟨b, t, rfl, hv⟩
      obtain ⟨hl, rfl⟩ := (validate_plain hty).1 hv
      exact ⟨hl, t, rfl⟩
    · rintro ⟨hl, t, rfl⟩
      exact ⟨v, t, rfl, (validate_plain hty).2 ⟨hl, rfl⟩⟩
  · rw [json_de_validates]
    constructor
    · rintro (⟨b, hb, hv⟩ | ⟨hs, b, hb, hv⟩)
      · obtain ⟨hl, rfl⟩ := (validate_plain hty).1 hv
        exact ⟨hl, Or.inl hb⟩
      · obtain ⟨hl, rfl⟩ := (validate_plain hty).1 hv
        exact ⟨hl, Or.inr ⟨hs, hb⟩⟩
    · rintro ⟨hl, hx | ⟨hs, hx⟩⟩
      · exact Or.inl ⟨v, hx, (validate_plain hty).2 ⟨hl, rfl⟩⟩
      · exact Or.inr ⟨hs, v, hx, (validate_plain hty).2 ⟨hl, rfl⟩⟩

/-! ### Rejection -/

/-- **Whatever the native decoder rejects, both deserialisers reject**, in the canonical serialisation, with
trailing bytes (bincode) and in every whitespace variant of the array (JSON). -/
theorem invalid_native_rejected {ty : Ty} {b : List UInt8} (h : validate ty b = none) :
    (b.length = ty.len → ∀ trailing, bincodeDe ty (bincodeSer ty b ++ trailing) = .err) ∧
    (∀ x, IsJsonArrayOf b x → jsonDe ty x = .err) ∧ jsonDe ty (jsonSer ty b) = .err := by
  refine ⟨fun hl t => by rw [bincodeDe_ser_append ty hl, h]; rfl, fun x hx => ?_, ?_⟩
  · rw [jsonDe_of_isJsonArrayOf ty hx, h]; simp [ofOption]
  · rw [jsonDe_ser, h]; simp [ofOption]

/-- Non-canonical scalars (32 bytes denoting an integer `≥ ℓ`) are rejected. -/
theorem noncanonical_scalar_rejected {b : List UInt8} (hl : b.length = 32) (hb : L ≤ leToNat b) :
    (∀ trailing, bincodeDe .scalar (b ++ trailing) = .err) ∧ jsonDe .scalar (jsonSer .scalar b) = .err := by
  have h : validate .scalar b = none := by
    cases hv : validate .scalar b with
    | none => rfl
    | some v =>
      have := ((isCanonicalScalar_iff b).1 (validate_scalar.1 hv).1).2
      omega
  obtain ⟨h1, -, h3⟩ := invalid_native_rejected h
  exact ⟨fun t => by have := h1 hl t; rwa [bincodeSer_plain (ty := .scalar) rfl] at this, h3⟩

/-- Edwards encodings that do not decompress (no curve point has that `y`) are rejected — as `EdwardsPoint`
and as `VerifyingKey`. -/
theorem invalid_edwards_rejected {b : List UInt8} (hl : b.length = 32) (hb : decompress b = none) :
    (∀ trailing, bincodeDe .edwards (b ++ trailing) = .err) ∧
    jsonDe .edwards (jsonSer .edwards b) = .err ∧
    (∀ trailing, bincodeDe .vk ([32, 0, 0, 0, 0, 0, 0, 0] ++ b ++ trailing) = .err) ∧
    jsonDe .vk (jsonSer .vk b) = .err := by
  have h : validate .edwards b = none := by
    rw [validate_of_length (ty := .edwards) hl]; simp [rule, hb]
  have h' : validate .vk b = none := by
    rw [validate_of_length (ty := .vk) hl]; simp [rule, hb]
  obtain ⟨h1, -, h3⟩ := invalid_native_rejected h
  obtain ⟨h1', -, h3'⟩ := invalid_native_rejected h'
  refine ⟨fun t => by have := h1 hl t; rwa [bincodeSer_plain (ty := .edwards) rfl] at this, h3,
    fun t => ?_, h3'⟩
  have := h1' hl t
  rwa [bincode_ser_bytes rfl hl] at this

/-- Invalid Ristretto encodings (non-canonical `s`, negative `s`, non-square, …: whatever RFC 9496 DECODE
rejects) are rejected. -/
theorem invalid_ristretto_rejected {b : List UInt8} (hl : b.length = 32)
    (hb : Ristretto.decode b = none) :
    (∀ trailing, bincodeDe .ristretto (b ++ trailing) = .err) ∧
    jsonDe .ristretto (jsonSer .ristretto b) = .err := by
  have h : validate .ristretto b = none := by
    rw [validate_of_length (ty := .ristretto) hl]; simp [rule, hb]
  obtain ⟨h1, -, h3⟩ := invalid_native_rejected h
  exact ⟨fun t => by have := h1 hl t; rwa [bincodeSer_plain (ty := .ristretto) rfl] at this, h3⟩

/-- bincode, tuple types: fewer than `len` bytes are rejected. -/
theorem bincode_short_rejected_tuple {ty : Ty} (hty : ty.bytesStyle = false) {x : List UInt8}
    (h : x.length < ty.len) : bincodeDe ty x = .err := bincodeDe_short_plain hty h

/-- bincode, `vk`/`sk`: fewer than `8 + 32` bytes are rejected. -/
theorem bincode_short_rejected_bytes {ty : Ty} (hty : ty.bytesStyle = true) {x : List UInt8}
    (h : x.length < 40) : bincodeDe ty x = .err := bincodeDe_short_bytes hty h

/-- bincode, `vk`/`sk`: a length prefix other than `32` is rejected (whatever follows). -/
theorem bincode_bad_length_prefix_rejected {ty : Ty} (hty : ty.bytesStyle = true)
    {pre rest : List UInt8} (hpre : pre.length = 8) (h : leToNat pre ≠ 32) :
    bincodeDe ty (pre ++ rest) = .err := by
  cases hd : bincodeDe ty (pre ++ rest) with
  | err => rfl
  | skip => exact absurd hd (bincodeDe_ne_skip ty _)
  | ok v =>
    exfalso
    obtain ⟨b, t, hx, hv⟩ := bincodeDe_ok_iff.1 hd
    have hl := validate_length hv
    rw [bytesStyle_len hty] at hl
    rw [bincodeSer_bytes hty, hl, List.append_assoc] at hx
    have h8 : (natToLe 32 8).length = 8 := natToLe_length _ _
    have := (List.append_inj hx (by rw [hpre, h8])).1
    apply h
    rw [this, leToNat_natToLe]; norm_num

/-- JSON: an array with a number of elements other than `len` (31, 33, …, also with whitespace) is
rejected, for every type. -/
theorem json_wrong_count_rejected (ty : Ty) {b x : List UInt8} (hx : IsJsonArrayOf b x)
    (hl : b.length ≠ ty.len) : jsonDe ty x = .err := by
  rw [jsonDe_of_isJsonArrayOf ty hx, if_neg hl]

/-- … in particular in the compact form, and for the empty array. -/
theorem json_wrong_count_rejected_compact (ty : Ty) {b : List UInt8} (hl : b.length ≠ ty.len) :
    jsonDe ty (jsonSer ty b) = .err := by
  rw [jsonDe_ser, if_neg hl]

/-- JSON: on ANY array of digit-string tokens (`arrayText`: whitespace `w…`, pads around the commas) the
answer is `ok` only if there are exactly `len` tokens and every token is an accepted `u8` token (`TokOK`: no
leading zero, value ≤ 255); so **an element > 255 — or written with a leading zero — is rejected**, wherever
it stands (even beyond position `len`). -/
theorem json_token_rejected (ty : Ty) {w0 w1 t0 : List UInt8} {pads : List (List UInt8 × List UInt8)}
    {toks : List (List UInt8)} {w2 w3 : List UInt8}
    (h0 : AllWs w0) (h1 : AllWs w1) (h2 : AllWs w2) (h3 : AllWs w3) (hp : PadsWs pads)
    (hlen : pads.length = toks.length) (hd : ∀ t ∈ t0 :: toks, IsDigits t)
    (hbad : toks.length + 1 ≠ ty.len ∨ ∃ t ∈ t0 :: toks, 255 < tokVal t ∨ (t ≠ [0x30] ∧ t.head? = some 0x30)) :
    jsonDe ty (arrayText w0 w1 t0 pads toks w2 w3) = .err := by
  rw [jsonDe_arrayText ty h0 h1 h2 h3 hp hlen (hd t0 (by simp))
    (fun t ht => hd t (List.mem_cons_of_mem _ ht))]
  apply if_neg
  rintro ⟨hl, hall⟩
  rcases hbad with hbad | ⟨t, ht, hbad⟩
  · exact hbad hl
  · obtain ⟨hh, hv⟩ := hall t ht
    rcases hbad with hbad | ⟨hb1, hb2⟩
    · omega
    · rcases hh with hh | hh
      · exact hb1 hh
      · exact hh hb2

/-- the empty array is rejected -/
theorem json_empty_array_rejected (ty : Ty) : jsonDe ty [0x5b, 0x5d] = .err :=
  jsonDe_empty_array ty (w0 := []) (w1 := []) allWs_nil allWs_nil []

/-- Concrete instances (kernel-evaluated): 31 and 33 elements, an element `256`, a leading zero, a trailing
comma, a negative number, a fraction are all rejected; whitespace is accepted. -/
example :
    let z31 := (List.replicate 31 [0x30, 0x2c]).flatten   -- "0," × 31
    jsonDe .cedwards ([0x5b] ++ z31 ++ [0x30, 0x5d]) = .ok (List.replicate 32 0) ∧            -- 32 × 0
    jsonDe .cedwards ([0x20, 0x5b, 0x0a] ++ z31 ++ [0x20, 0x30, 0x09, 0x5d, 0x0d]) = .ok (List.replicate 32 0) ∧
    jsonDe .cedwards ([0x5b] ++ z31.drop 2 ++ [0x30, 0x5d]) = .err ∧                          -- 31 elements
    jsonDe .cedwards ([0x5b] ++ z31 ++ [0x30, 0x2c, 0x30, 0x5d]) = .err ∧                     -- 33 elements
    jsonDe .cedwards ([0x5b] ++ z31 ++ [0x32, 0x35, 0x36, 0x5d]) = .err ∧                     -- …,256]
    jsonDe .cedwards ([0x5b] ++ z31 ++ [0x32, 0x35, 0x35, 0x5d]) = .ok (List.replicate 31 0 ++ [255]) ∧
    jsonDe .cedwards ([0x5b] ++ z31 ++ [0x30, 0x31, 0x5d]) = .err ∧                           -- …,01]
    jsonDe .cedwards ([0x5b] ++ z31 ++ [0x30, 0x2c, 0x5d]) = .err ∧                           -- …,0,]
    jsonDe .cedwards ([0x5b] ++ z31 ++ [0x2d, 0x31, 0x5d]) = .err ∧                           -- …,-1]
    jsonDe .cedwards ([0x5b] ++ z31 ++ [0x31, 0x2e, 0x30, 0x5d]) = .err ∧                     -- …,1.0]
    jsonDe .cedwards ([0x5b] ++ z31 ++ [0x30, 0x5d, 0x30]) = .err := by                       -- …,0]0
  decide +kernel

/-! ## Axiom audit -/

/-- info: 'Dalek.Props.C16.bincode_de_ser' depends on axioms: [propext, Classical.choice, Quot.sound] -/
#guard_msgs in #print axioms bincode_de_ser
/-- info: 'Dalek.Props.C16.json_de_ser' depends on axioms: [propext, Classical.choice, Quot.sound] -/
#guard_msgs in #print axioms json_de_ser
/-- info: 'Dalek.Props.C16.json_de_ser_ws' depends on axioms: [propext, Classical.choice, Quot.sound] -/
#guard_msgs in #print axioms json_de_ser_ws
/-- info: 'Dalek.Props.C16.bincode_de_validates' depends on axioms: [propext, Classical.choice, Quot.sound] -/
#guard_msgs in #print axioms bincode_de_validates
/-- info: 'Dalek.Props.C16.json_de_validates' depends on axioms: [propext, Classical.choice, Quot.sound] -/
#guard_msgs in #print axioms json_de_validates
/-- info: 'Dalek.Props.C16.native_rule_validates' depends on axioms: [propext, Classical.choice, Quot.sound] -/
#guard_msgs in #print axioms native_rule_validates
/-- info: 'Dalek.Props.C16.valid_edwards_iff_canonical' depends on axioms: [propext, Classical.choice, Quot.sound] -/
#guard_msgs in #print axioms valid_edwards_iff_canonical
/-- info: 'Dalek.Props.C16.edwards_bincode_de_validates' depends on axioms: [propext, Classical.choice, Quot.sound] -/
#guard_msgs in #print axioms edwards_bincode_de_validates
/-- info: 'Dalek.Props.C16.vk_json_de_validates' depends on axioms: [propext, Classical.choice, Quot.sound] -/
#guard_msgs in #print axioms vk_json_de_validates
/-- info: 'Dalek.Props.C16.invalid_native_rejected' depends on axioms: [propext, Classical.choice, Quot.sound] -/
#guard_msgs in #print axioms invalid_native_rejected
/-- info: 'Dalek.Props.C16.json_token_rejected' depends on axioms: [propext, Classical.choice, Quot.sound] -/
#guard_msgs in #print axioms json_token_rejected
/-- info: 'Dalek.Props.C16.ristretto_encode_decode_id' depends on axioms: [propext, Classical.choice, Quot.sound] -/
#guard_msgs in #print axioms ristretto_encode_decode_id
/-- info: 'Dalek.Props.C16.ristretto_de_validates' depends on axioms: [propext, Classical.choice, Quot.sound] -/
#guard_msgs in #print axioms ristretto_de_validates
/-- info: 'Dalek.Props.C16.ristretto_de_ser' depends on axioms: [propext, Classical.choice, Quot.sound] -/
#guard_msgs in #print axioms ristretto_de_ser
/-- info: 'Dalek.Props.C16.static_secret_unclamped' depends on axioms: [propext, Classical.choice, Quot.sound] -/
#guard_msgs in #print axioms static_secret_unclamped

end Dalek.Props.C16

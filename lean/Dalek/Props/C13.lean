import Dalek.Props.C13.Batch

import Dalek.Props.C13.Batch
import Dalek.Props.C08.HashInputs

import Dalek.Proofs.EdsSign
import Dalek.Proofs.EdsFast
/-!
# C09 — Ed25519 verification accepts exactly the documented set of signatures

Statements are about the executable specification `Dalek.Spec.Ed25519` (`verify legacy strict vk msg sig`,
`verifyPh legacy strict vk msg ctx sig`), whose text follows ed25519-dalek 2.1.1
(`verifying.rs`: `raw_verify` 224-262, `verify_strict` 401-424, `raw_verify_prehashed`,
`verify_prehashed_strict` 452-487, `compute_challenge` 193-214, `recompute_R`; `signature.rs`:
`check_scalar` 65-97, both `cfg`s) and which is tied to the Rust code by the correspondence run
(ops `eds.verify`, `eds.verify_strict`, `eds.verify_ph`, `eds.verify_ph_strict`, drivers with and without
`legacy_compatibility`).  `legacy : Bool` is the `legacy_compatibility` feature, `strict` selects
`verify_strict` / `verify_prehashed_strict`.

Notation.  `R = sig.take 32`, `S = sig.drop 32` (the Rust types fix `|sig| = 64`, `|vk| = 32`; the statements
hold for all byte lists, and acceptance forces `|R| = 32`).  `Ed` is the group of the curve
(`Dalek.Bridge.Ed`), `Bpt : Ed` the basepoint (of prime order `ℓ = L`, `addOrderOf_Bpt`),
`decodeEd : bytes → Option Ed` is dalek's `decompress` (accepts non-canonical `y` and "negative zero"),
`encodeEd : Ed → bytes` the canonical RFC 8032 encoding (`compress`), `n • Q` scalar multiplication in `Ed`.
`hashToScalar m = SHA-512(m)` read little endian, reduced mod `ℓ`.  No property of SHA-512 is used: every
theorem here holds for any hash function in its place.

The group operations of the specification (`Ops.spec`: affine double-and-add) can be replaced by any `Ops`
computing the same results (`verify_ops_independent`); the model driver uses such a replacement.
-/
namespace Dalek.Props.C09

open Dalek.Spec Dalek.Spec.Ed25519 Dalek.Bridge Dalek.Eds

/-- The verification functions do not depend on how the three group operations are computed, as long as
they return the specification's results on canonical curve points. -/
theorem verify_ops_independent {ops : Ops} (hc : OpsCorrect ops) (legacy strict : Bool)
    (vk msg sig : List UInt8) (ctx : Option (List UInt8)) :
    verifyWith ops legacy strict vk msg sig = verify legacy strict vk msg sig ∧
    verifyPhWith ops legacy strict vk msg ctx sig = verifyPh legacy strict vk msg ctx sig := by
  constructor
  · exact verifyCoreWith_congr hc _ _ _ _ _ _
  · show verifyPhWith ops legacy strict vk msg ctx sig = verifyPhWith Ops.spec legacy strict vk msg ctx sig
    unfold verifyPhWith
    simp only [verifyCoreWith_congr hc]

/-- In particular the functions executed by the model driver in the correspondence run (group operations
`Dalek.Driver.fastOps`) are the specification functions the theorems below are about. -/
theorem verify_driver_eq (legacy strict : Bool) (vk msg sig : List UInt8) (ctx : Option (List UInt8)) :
    verifyWith Dalek.Driver.fastOps legacy strict vk msg sig = verify legacy strict vk msg sig ∧
    verifyPhWith Dalek.Driver.fastOps legacy strict vk msg ctx sig = verifyPh legacy strict vk msg ctx sig :=
  verify_ops_independent opsCorrect_fastOps legacy strict vk msg sig ctx

/-! ## Decision logic -/

/-- **`verify`** (default build: `check_scalar` = canonical `S`).  Accepts iff `S < ℓ`, the key bytes decode
to a point `A`, and the canonical encoding of `[S]B - [k]A`, `k = H(R ‖ vk ‖ msg) mod ℓ`, equals the
signature's `R` **as a byte string**. -/
theorem verify_iff (vk msg sig : List UInt8) :
    verify false false vk msg sig = true ↔
      leToNat (sig.drop 32) < L ∧
      ∃ A, decodeEd vk = some A ∧
        encodeEd (leToNat (sig.drop 32) • Bpt - hashToScalar (sig.take 32 ++ vk ++ msg) • A)
          = sig.take 32 := by
  show verifyCoreWith Ops.spec false false [] vk msg sig = true ↔ _
  rw [verifyCore_iff]
  simp only [checkScalar_false_iff, List.nil_append, Bool.false_eq_true, false_imp_iff, true_and]
  constructor
  · rintro ⟨A, s, hA, ⟨hs, rfl⟩, h⟩; exact ⟨hs, A, hA, h⟩
  · rintro ⟨hs, A, hA, h⟩; exact ⟨A, _, hA, ⟨hs, rfl⟩, h⟩

/-- **`verify` with `legacy_compatibility`**: the only change is the `S` check, which becomes
`S[31] & 0xE0 = 0` (top three bits clear; for a 32-byte `S` this is `S < 2^253`, `legacy_S_check_meaning`);
`S` then enters the equation unreduced. -/
theorem verify_legacy_iff (vk msg sig : List UInt8) :
    verify true false vk msg sig = true ↔
      (sig.drop 32).getD 31 0 &&& 224 = 0 ∧
      ∃ A, decodeEd vk = some A ∧
        encodeEd (leToNat (sig.drop 32) • Bpt - hashToScalar (sig.take 32 ++ vk ++ msg) • A)
          = sig.take 32 := by
  show verifyCoreWith Ops.spec true false [] vk msg sig = true ↔ _
  rw [verifyCore_iff]
  simp only [checkScalar_true_iff, List.nil_append, Bool.false_eq_true, false_imp_iff, true_and]
  constructor
  · rintro ⟨A, s, hA, ⟨hs, rfl⟩, h⟩; exact ⟨hs, A, hA, h⟩
  · rintro ⟨hs, A, hA, h⟩; exact ⟨A, _, hA, ⟨hs, rfl⟩, h⟩

/-- Meaning of the legacy check on a 32-byte `S`. -/
theorem legacy_S_check_meaning (S : List UInt8) (hlen : S.length = 32) :
    S.getD 31 0 &&& 224 = 0 ↔ leToNat S < 2 ^ 253 := top3_iff hlen

/-- **`verify_strict`** (in the order of the code: `S` check; `R` must decompress; then
`R.is_small_order() || A.is_small_order()` rejects; then the equation).  `ScalarOk legacy S` is
`leToNat S < L` for `legacy = false` and `S[31] & 0xE0 = 0` for `legacy = true` (`scalarOk_false`,
`scalarOk_true`). -/
theorem verify_strict_iff (legacy : Bool) (vk msg sig : List UInt8) :
    verify legacy true vk msg sig = true ↔
      ScalarOk legacy (sig.drop 32) ∧
      ∃ A R', decodeEd vk = some A ∧ decodeEd (sig.take 32) = some R' ∧ 8 • R' ≠ 0 ∧ 8 • A ≠ 0 ∧
        encodeEd (leToNat (sig.drop 32) • Bpt - hashToScalar (sig.take 32 ++ vk ++ msg) • A)
          = sig.take 32 := by
  show verifyCoreWith Ops.spec legacy true [] vk msg sig = true ↔ _
  rw [verifyCore_iff]
  simp only [checkScalar_iff, List.nil_append, true_imp_iff]
  constructor
  · rintro ⟨A, s, hA, ⟨hs, rfl⟩, ⟨R', hR, h1, h2⟩, h⟩; exact ⟨hs, A, R', hA, hR, h1, h2, h⟩
  · rintro ⟨hs, A, R', hA, hR, h1, h2, h⟩; exact ⟨A, _, hA, ⟨hs, rfl⟩, ⟨R', hR, h1, h2⟩, h⟩

/-- `verify_strict`, default build, written out. -/
theorem verify_strict_iff_default (vk msg sig : List UInt8) :
    verify false true vk msg sig = true ↔
      leToNat (sig.drop 32) < L ∧
      ∃ A R', decodeEd vk = some A ∧ decodeEd (sig.take 32) = some R' ∧ 8 • R' ≠ 0 ∧ 8 • A ≠ 0 ∧
        encodeEd (leToNat (sig.drop 32) • Bpt - hashToScalar (sig.take 32 ++ vk ++ msg) • A)
          = sig.take 32 := by
  rw [verify_strict_iff, scalarOk_false]

/-- In strict mode the decoded `R'` *is* the recomputed point, so the small-order test on `R'` is a test on
`[S]B - [k]A`. -/
theorem verify_strict_R_eq (legacy : Bool) (vk msg sig : List UInt8) (A R' : Ed)
    (h : verify legacy true vk msg sig = true) (hA : decodeEd vk = some A)
    (hR : decodeEd (sig.take 32) = some R') :
    R' = leToNat (sig.drop 32) • Bpt - hashToScalar (sig.take 32 ++ vk ++ msg) • A := by
  obtain ⟨-, A', R'', hA', hR', -, -, he⟩ := (verify_strict_iff _ _ _ _).1 h
  rw [hA] at hA'; cases hA'
  rw [← he, decodeEd_encodeEd] at hR
  exact (Option.some.inj hR).symm

/-- **`verify_prehashed`** (Ed25519ph): a context longer than 255 bytes is rejected; otherwise the rules of
`verify` with `k = H(dom2(1, ctx) ‖ R ‖ vk ‖ SHA-512(msg)) mod ℓ`, where
`dom2(1, ctx) = "SigEd25519 no Ed25519 collisions" ‖ 01 ‖ len(ctx) ‖ ctx` and `ctx = None` means empty. -/
theorem verify_ph_iff (legacy : Bool) (vk msg sig : List UInt8) (ctx : Option (List UInt8)) :
    verifyPh legacy false vk msg ctx sig = true ↔
      (ctx.getD []).length ≤ 255 ∧ ScalarOk legacy (sig.drop 32) ∧
      ∃ A, decodeEd vk = some A ∧
        encodeEd (leToNat (sig.drop 32) • Bpt -
          hashToScalar (dom2 1 (ctx.getD []) ++ sig.take 32 ++ vk ++ sha512 msg) • A) = sig.take 32 := by
  show verifyPhWith Ops.spec legacy false vk msg ctx sig = true ↔ _
  unfold verifyPhWith
  by_cases hc : (ctx.getD []).length > 255
  · simp only [hc, if_true, Bool.false_eq_true, false_iff, not_and]
    intro h; omega
  · simp only [hc, if_false]
    rw [verifyCore_iff]
    simp only [checkScalar_iff, Bool.false_eq_true, false_imp_iff, true_and]
    constructor
    · rintro ⟨A, s, hA, ⟨hs, rfl⟩, h⟩; exact ⟨by omega, hs, A, hA, h⟩
    · rintro ⟨-, hs, A, hA, h⟩; exact ⟨A, _, hA, ⟨hs, rfl⟩, h⟩

/-- **`verify_prehashed_strict`**. -/
theorem verify_ph_strict_iff (legacy : Bool) (vk msg sig : List UInt8) (ctx : Option (List UInt8)) :
    verifyPh legacy true vk msg ctx sig = true ↔
      (ctx.getD []).length ≤ 255 ∧ ScalarOk legacy (sig.drop 32) ∧
      ∃ A R', decodeEd vk = some A ∧ decodeEd (sig.take 32) = some R' ∧ 8 • R' ≠ 0 ∧ 8 • A ≠ 0 ∧
        encodeEd (leToNat (sig.drop 32) • Bpt -
          hashToScalar (dom2 1 (ctx.getD []) ++ sig.take 32 ++ vk ++ sha512 msg) • A) = sig.take 32 := by
  show verifyPhWith Ops.spec legacy true vk msg ctx sig = true ↔ _
  unfold verifyPhWith
  by_cases hc : (ctx.getD []).length > 255
  · simp only [hc, if_true, Bool.false_eq_true, false_iff, not_and]
    intro h; omega
  · simp only [hc, if_false]
    rw [verifyCore_iff]
    simp only [checkScalar_iff, true_imp_iff]
    constructor
    · rintro ⟨A, s, hA, ⟨hs, rfl⟩, ⟨R', hR, h1, h2⟩, h⟩; exact ⟨by omega, hs, A, R', hA, hR, h1, h2, h⟩
    · rintro ⟨-, hs, A, R', hA, hR, h1, h2, h⟩; exact ⟨A, _, hA, ⟨hs, rfl⟩, ⟨R', hR, h1, h2⟩, h⟩

/-- `dom2(1, ctx)` written out. -/
theorem dom2_eq (ctx : List UInt8) :
    dom2 1 ctx = "SigEd25519 no Ed25519 collisions".toUTF8.toList ++ [1, UInt8.ofNat ctx.length] ++ ctx :=
  rfl

/-- A context longer than 255 bytes is rejected by both prehashed verification functions. -/
theorem verify_ph_ctx_too_long (legacy strict : Bool) (vk msg sig : List UInt8) (ctx : Option (List UInt8))
    (h : 255 < (ctx.getD []).length) : verifyPh legacy strict vk msg ctx sig = false := by
  show verifyPhWith Ops.spec legacy strict vk msg ctx sig = false
  unfold verifyPhWith
  simp only [gt_iff_lt, h, if_true]

/-- Strict acceptance implies ordinary acceptance (same mode, same inputs). -/
theorem verify_strict_imp_verify (legacy : Bool) (vk msg sig : List UInt8)
    (h : verify legacy true vk msg sig = true) : verify legacy false vk msg sig = true := by
  obtain ⟨hs, A, R', hA, -, -, -, he⟩ := (verify_strict_iff _ _ _ _).1 h
  cases legacy
  · exact (verify_iff _ _ _).2 ⟨(scalarOk_false _).1 hs, A, hA, he⟩
  · exact (verify_legacy_iff _ _ _).2 ⟨(scalarOk_true _).1 hs, A, hA, he⟩

/-! ## Corollaries: no second encoding of an accepted signature -/

/-- Default build: every `S ≥ ℓ` is rejected, by all four verification functions. -/
theorem noncanonical_S_rejected (strict : Bool) (vk msg sig : List UInt8) (ctx : Option (List UInt8))
    (h : L ≤ leToNat (sig.drop 32)) :
    verify false strict vk msg sig = false ∧ verifyPh false strict vk msg ctx sig = false := by
  have hs : ¬ ScalarOk false (sig.drop 32) := by rw [scalarOk_false]; omega
  constructor
  · cases strict
    · rw [← Bool.not_eq_true, verify_iff]; rintro ⟨h', -⟩; omega
    · rw [← Bool.not_eq_true, verify_strict_iff]; rintro ⟨h', -⟩; exact hs h'
  · cases strict
    · rw [← Bool.not_eq_true, verify_ph_iff]; rintro ⟨-, h', -⟩; exact hs h'
    · rw [← Bool.not_eq_true, verify_ph_strict_iff]; rintro ⟨-, h', -⟩; exact hs h'

/-- **No `S + ℓ` malleability** (default build): if `R ‖ S` is accepted, then `R ‖ S'` is rejected for every
other 32-byte `S'` congruent to `S` modulo `ℓ` (in particular `S' = S + ℓ`, `S + 2ℓ`, …). -/
theorem no_S_plus_l (strict : Bool) (vk msg R S S' : List UInt8) (hR : R.length = 32)
    (hS : S.length = 32) (hS' : S'.length = 32)
    (h : verify false strict vk msg (R ++ S) = true) (hne : S' ≠ S)
    (hmod : leToNat S' % L = leToNat S % L) :
    verify false strict vk msg (R ++ S') = false := by
  have hcan : leToNat S < L := by
    have h' : verify false false vk msg (R ++ S) = true := by
      cases strict
      · exact h
      · exact verify_strict_imp_verify _ _ _ _ h
    have := ((verify_iff _ _ _).1 h').1
    rwa [List.drop_left' hR] at this
  refine (noncanonical_S_rejected strict vk msg (R ++ S') none ?_).1
  rw [List.drop_left' hR]
  by_contra hlt
  have hlt : leToNat S' < L := by omega
  rw [Nat.mod_eq_of_lt hlt, Nat.mod_eq_of_lt hcan] at hmod
  exact hne (leToNat_inj (by rw [hS, hS']) hmod)

/-- **`R` must be the canonical encoding of a point**: whenever any of the verification functions accepts,
the `R` bytes are `encodeEd Q` for a point `Q`; spelled out: 32 bytes, `y = R mod 2^255 < p`, the bytes decode
to `Q`, and they are not the "negative zero" form (`x = 0` with bit 255 set). -/
theorem R_must_be_canonical (legacy strict : Bool) (vk msg sig : List UInt8)
    (h : verify legacy strict vk msg sig = true) :
    (sig.take 32).length = 32 ∧ leToNat (sig.take 32) % 2 ^ 255 < P ∧
      ∃ Q : Ed, encodeEd Q = sig.take 32 ∧ decodeEd (sig.take 32) = some Q ∧
        ¬ (Q.x = 0 ∧ signBit (sig.take 32) = true) := by
  obtain ⟨A, s, -, -, -, he⟩ := (verifyCore_iff legacy strict [] vk msg sig).1 h
  obtain ⟨h1, h2, h3, h4⟩ := encodeEd_eq_iff.1 he
  exact ⟨h1, h2, _, he, h3, h4⟩

/-- The same for the prehashed functions. -/
theorem R_must_be_canonical_ph (legacy strict : Bool) (vk msg sig : List UInt8) (ctx : Option (List UInt8))
    (h : verifyPh legacy strict vk msg ctx sig = true) : IsCanonicalEnc (sig.take 32) := by
  have h' : verifyPhWith Ops.spec legacy strict vk msg ctx sig = true := h
  unfold verifyPhWith at h'
  by_cases hc : (ctx.getD []).length > 255
  · simp only [hc, if_true, Bool.false_eq_true] at h'
  · simp only [hc, if_false] at h'
    obtain ⟨A, s, -, -, -, he⟩ := (verifyCore_iff _ _ _ _ _ _).1 h'
    exact ⟨_, he⟩

/-- **A non-canonical `R` is rejected**, in each of its two forms: `y ≥ p`, or "negative zero". -/
theorem noncanonical_R_rejected (legacy strict : Bool) (vk msg sig : List UInt8)
    (h : P ≤ leToNat (sig.take 32) % 2 ^ 255 ∨
      ∃ Q : Ed, decodeEd (sig.take 32) = some Q ∧ Q.x = 0 ∧ signBit (sig.take 32) = true) :
    verify legacy strict vk msg sig = false := by
  rw [← Bool.not_eq_true]
  intro hv
  obtain ⟨-, h2, Q, -, h3, h4⟩ := R_must_be_canonical _ _ _ _ _ hv
  rcases h with h | ⟨Q', hQ', hx, hs⟩
  · omega
  · rw [hQ'] at h3; cases h3; exact h4 ⟨hx, hs⟩

/-- **At most one accepted byte encoding per signature `(R point, S mod ℓ)`** (default build).  If two
64-byte signatures are accepted (possibly for different keys and messages) and they denote the same pair —
their `R` halves decode to the same point and their `S` halves are congruent mod `ℓ` — they are equal as
byte strings.

Remark.  The literal statement "for fixed `vk`, `msg`, `S` at most one `R` byte string is accepted" is *not*
a theorem about the decision logic: `k` depends on the `R` bytes through the hash, so two different points
`R₁ ≠ R₂` with `Rᵢ = [S]B - [H(Rᵢ‖vk‖msg)]A` would both be accepted; excluding that is a property of
SHA-512.  What the logic guarantees is uniqueness of the *encoding* of each accepted `(R, S)`. -/
theorem unique_R (strict strict' : Bool) (vk msg vk' msg' sig sig' : List UInt8)
    (hlen : sig.length = 64) (hlen' : sig'.length = 64)
    (h : verify false strict vk msg sig = true) (h' : verify false strict' vk' msg' sig' = true)
    (hR : decodeEd (sig.take 32) = decodeEd (sig'.take 32))
    (hS : leToNat (sig.drop 32) % L = leToNat (sig'.drop 32) % L) : sig = sig' := by
  obtain ⟨-, -, Q, hQ, -, -⟩ := R_must_be_canonical _ _ _ _ _ h
  obtain ⟨-, -, Q', hQ', -, -⟩ := R_must_be_canonical _ _ _ _ _ h'
  have e1 : sig.take 32 = sig'.take 32 := IsCanonicalEnc.eq_of_decodeEd_eq ⟨Q, hQ⟩ ⟨Q', hQ'⟩ hR
  have c1 : leToNat (sig.drop 32) < L := by
    by_contra hc
    have := (noncanonical_S_rejected strict vk msg sig none (by omega)).1
    rw [h] at this; cases this
  have c2 : leToNat (sig'.drop 32) < L := by
    by_contra hc
    have := (noncanonical_S_rejected strict' vk' msg' sig' none (by omega)).1
    rw [h'] at this; cases this
  rw [Nat.mod_eq_of_lt c1, Nat.mod_eq_of_lt c2] at hS
  have e2 : sig.drop 32 = sig'.drop 32 :=
    leToNat_inj (by rw [List.length_drop, List.length_drop, hlen, hlen']) hS
  rw [← List.take_append_drop 32 sig, ← List.take_append_drop 32 sig', e1, e2]

/-- **`legacy_compatibility` relaxes only the `S` check**: in every mode, the default build accepts exactly
the signatures the legacy build accepts whose `S` is canonical.  (In particular, legacy acceptance of a
canonical-`S` signature implies default acceptance, and default acceptance implies legacy acceptance.) -/
theorem legacy_relaxes_only_S (strict : Bool) (vk msg sig : List UInt8) :
    verify false strict vk msg sig =
      (verify true strict vk msg sig && decide (leToNat (sig.drop 32) < L)) := by
  rw [Bool.eq_iff_iff, Bool.and_eq_true, decide_eq_true_iff]
  show verifyCoreWith Ops.spec false strict [] vk msg sig = true ↔
    verifyCoreWith Ops.spec true strict [] vk msg sig = true ∧ _
  rw [verifyCore_iff, verifyCore_iff]
  simp only [checkScalar_iff]
  constructor
  · rintro ⟨A, s, hA, ⟨hs, rfl⟩, h⟩
    rw [scalarOk_false] at hs
    exact ⟨⟨A, _, hA, ⟨scalarOk_legacy_of_canonical hs, rfl⟩, h⟩, hs⟩
  · rintro ⟨⟨A, s, hA, ⟨-, rfl⟩, h⟩, hs⟩
    exact ⟨A, _, hA, ⟨(scalarOk_false _).2 hs, rfl⟩, h⟩

/-- The same for the prehashed functions. -/
theorem legacy_relaxes_only_S_ph (strict : Bool) (vk msg sig : List UInt8) (ctx : Option (List UInt8)) :
    verifyPh false strict vk msg ctx sig =
      (verifyPh true strict vk msg ctx sig && decide (leToNat (sig.drop 32) < L)) := by
  show verifyPhWith Ops.spec false strict vk msg ctx sig =
    (verifyPhWith Ops.spec true strict vk msg ctx sig && _)
  unfold verifyPhWith
  by_cases hc : (ctx.getD []).length > 255
  · simp only [hc, if_true, Bool.false_and]
  · simp only [hc, if_false]
    rw [Bool.eq_iff_iff, Bool.and_eq_true, decide_eq_true_iff, verifyCore_iff, verifyCore_iff]
    simp only [checkScalar_iff]
    constructor
    · rintro ⟨A, s, hA, ⟨hs, rfl⟩, h⟩
      rw [scalarOk_false] at hs
      exact ⟨⟨A, _, hA, ⟨scalarOk_legacy_of_canonical hs, rfl⟩, h⟩, hs⟩
    · rintro ⟨⟨A, s, hA, ⟨-, rfl⟩, h⟩, hs⟩
      exact ⟨A, _, hA, ⟨(scalarOk_false _).2 hs, rfl⟩, h⟩

/-- The legacy build really is more permissive on `S` only in the range `[ℓ, 2^253)`: a 32-byte `S` passes
the legacy check and fails the default one iff `ℓ ≤ S < 2^253`. -/
theorem legacy_extra_S_range (S : List UInt8) (hlen : S.length = 32) :
    (ScalarOk true S ∧ ¬ ScalarOk false S) ↔ (L ≤ leToNat S ∧ leToNat S < 2 ^ 253) := by
  rw [scalarOk_true, scalarOk_false, top3_iff hlen]
  constructor
  · rintro ⟨h1, h2⟩; exact ⟨by omega, h1⟩
  · rintro ⟨h1, h2⟩; exact ⟨h2, by omega⟩

/-! ## Non-vacuity

Accepted inputs exist for every mode: see `Dalek.Props.C08.honest_verifies` (any seed, any message), which
makes the hypotheses of `no_S_plus_l`, `R_must_be_canonical`, `unique_R` satisfiable.  Kernel evaluation of
one complete verification (two affine scalar multiplications and SHA-512) takes about 80 s and is therefore
not included; rejections are cheap: -/

/-- `S = ℓ` (with the identity as `R` and as key) is rejected by the default build; `legacy_extra_S_range`'s
range is inhabited by the same `S`. -/
example :
    verify false false (natToLe 1 32) [] (natToLe 1 32 ++ natToLe L 32) = false ∧
    (L ≤ leToNat (natToLe L 32) ∧ leToNat (natToLe L 32) < 2 ^ 253) := by
  decide +kernel

/-- An undecodable key (`y = 2`) is rejected. -/
example : verify false false (natToLe 2 32) [] (natToLe 1 32 ++ natToLe 0 32) = false := by
  decide +kernel

/-! ## Axiom audit -/

/-- info: 'Dalek.Props.C09.verify_iff' depends on axioms: [propext, Classical.choice, Quot.sound] -/
#guard_msgs in #print axioms verify_iff
/-- info: 'Dalek.Props.C09.verify_legacy_iff' depends on axioms: [propext, Classical.choice, Quot.sound] -/
#guard_msgs in #print axioms verify_legacy_iff
/-- info: 'Dalek.Props.C09.verify_strict_iff' depends on axioms: [propext, Classical.choice, Quot.sound] -/
#guard_msgs in #print axioms verify_strict_iff
/-- info: 'Dalek.Props.C09.verify_ph_iff' depends on axioms: [propext, Classical.choice, Quot.sound] -/
#guard_msgs in #print axioms verify_ph_iff
/-- info: 'Dalek.Props.C09.verify_ph_strict_iff' depends on axioms: [propext, Classical.choice, Quot.sound] -/
#guard_msgs in #print axioms verify_ph_strict_iff
/-- info: 'Dalek.Props.C09.no_S_plus_l' depends on axioms: [propext, Classical.choice, Quot.sound] -/
#guard_msgs in #print axioms no_S_plus_l
/-- info: 'Dalek.Props.C09.noncanonical_R_rejected' depends on axioms: [propext, Classical.choice, Quot.sound] -/
#guard_msgs in #print axioms noncanonical_R_rejected
/-- info: 'Dalek.Props.C09.unique_R' depends on axioms: [propext, Classical.choice, Quot.sound] -/
#guard_msgs in #print axioms unique_R
/-- info: 'Dalek.Props.C09.legacy_relaxes_only_S' depends on axioms: [propext, Classical.choice, Quot.sound] -/
#guard_msgs in #print axioms legacy_relaxes_only_S
/-- info: 'Dalek.Props.C09.verify_ops_independent' depends on axioms: [propext, Classical.choice, Quot.sound] -/
#guard_msgs in #print axioms verify_ops_independent
/-- info: 'Dalek.Props.C09.verify_driver_eq' depends on axioms: [propext, Classical.choice, Quot.sound] -/
#guard_msgs in #print axioms verify_driver_eq

end Dalek.Props.C09

import Dalek.Model.HashTable
/-!
# C08 / C09 / C13 — what is hashed, and in which order, is what RFC 8032 says (structural tie of the hand models to the source)

The Ed25519 models of this development (`Dalek/Spec/Ed25519.lean`) are hand transcriptions of RFC 8032 and are tied to the Rust code
by the correspondence runs.  This module adds a syntactic tie that does not depend on sampled inputs:
`Dalek.Gen.HashInventory.hashEvents` is REGENERATED from the source on every run — for every function that builds a digest or a merlin
transcript, the ordered list of `new / update / append_message / finalize / from_hash` calls with the text of their arguments — and
`hash_inputs_as_specified` states that it equals the reviewed table `Dalek.Model.HashTable.expected` (nonce = H(dom2? ‖ prefix ‖ M),
challenge = H(dom2? ‖ R ‖ A ‖ M), dom2 = "SigEd25519 no Ed25519 collisions" ‖ 1 ‖ len ‖ ctx, key expansion = H(seed), the batch transcript
"hram"* then "sig.s"*, hash-to-scalar / hash-to-group = H(input)).  Dropping, duplicating or reordering a hash input breaks it.
-/
namespace Dalek.Props.C08.HashInputs
open Dalek.Gen.HashInventory Dalek.Model.HashTable

/-- the regenerated hash / transcript input sequences are exactly the specified ones -/
theorem hash_inputs_as_specified : hashKeys = expected := by decide +kernel

/-- not vacuous: the inventory is non-empty (62 events on the pinned tree) -/
example : 40 ≤ hashEvents.length := by decide +kernel

/-- the theorem has teeth: removing one event (e.g. a dropped `chain_update(ctx)`) changes the list -/
example : hashKeys.eraseIdx 40 ≠ expected := by decide +kernel

end Dalek.Props.C08.HashInputs

import Dalek.Proofs.EdsSign
import Dalek.Proofs.EdsFast
/-!
# C08 — Ed25519 key derivation and signing are the deterministic RFC 8032 functions

Statements are about the executable specification `Dalek.Spec.Ed25519` (`publicKey`, `sign`, `signPh`;
`expandSeed`, `rawSignWith`), whose text follows RFC 8032 §5.1.5/§5.1.6 and ed25519-dalek 2.1.1
(`signing.rs`: `From<&SecretKey> for ExpandedSecretKey` 802-808, `raw_sign` 824-849, `raw_sign_prehashed`
862-925, `from_keypair_bytes` 136-146; `hazmat.rs`: `ExpandedSecretKey::from_bytes` 61-76) and is tied to the
Rust code by the correspondence run (ops `eds.keygen`, `eds.expand`, `eds.sign`, `eds.sign_ph`,
`eds.sign_ctx`, `eds.raw_sign`, `eds.from_keypair`).  Being Lean functions, they are deterministic.

Notation as in `Dalek.Props.C09`: `Ed` the group of the curve, `Bpt` the basepoint (order `ℓ = L`),
`encodeEd` the canonical RFC 8032 point encoding, `n • Q` scalar multiplication.  SHA-512 enters only through
the length of its output (`sha512_length`): all theorems hold for any 64-byte hash in its place.

`verify legacy strict`, `verifyPh legacy strict`, `verifyBatch legacy` are the verification functions of C09
and C13 (`legacy` = feature `legacy_compatibility`).

What is **not** proved here (C08's "rejected under any other key, message or context"): that is a
computational statement (it fails for colliding hash inputs); its absolute part — verification fails unless
the group equation holds for the *recomputed* hash — is `Dalek.Props.C09.verify_iff`.
-/
namespace Dalek.Props.C08

open Dalek.Spec Dalek.Spec.Ed25519 Dalek.Bridge Dalek.Eds

-- elaboration hint only: keeps the elaborator from evaluating `decompress` on symbolic input
attribute [local irreducible] decompress

/-- Key derivation and signing do not depend on how the group operations are computed, as long as they
return the specification's results (the model driver uses such a replacement). -/
theorem sign_ops_independent {ops : Ops} (hc : OpsCorrect ops) (seed msg : List UInt8)
    (ctx : Option (List UInt8)) :
    publicKeyWith ops seed = publicKey seed ∧ signWith ops seed msg = sign seed msg ∧
      signPhWith ops seed msg ctx = signPh seed msg ctx :=
  ⟨publicKeyWith_congr hc seed, signWith_congr hc seed msg, signPhWith_congr hc seed msg ctx⟩

/-- In particular the functions executed by the model driver in the correspondence run (group operations
`Dalek.Driver.fastOps`) are the specification functions the theorems below are about. -/
theorem sign_driver_eq (seed msg : List UInt8) (ctx : Option (List UInt8)) (b : List UInt8) :
    publicKeyWith Dalek.Driver.fastOps seed = publicKey seed ∧
    signWith Dalek.Driver.fastOps seed msg = sign seed msg ∧
    signPhWith Dalek.Driver.fastOps seed msg ctx = signPh seed msg ctx ∧
    fromKeypairWith Dalek.Driver.fastOps b = fromKeypairWith Ops.spec b :=
  ⟨(sign_ops_independent opsCorrect_fastOps seed msg ctx).1,
   (sign_ops_independent opsCorrect_fastOps seed msg ctx).2.1,
   (sign_ops_independent opsCorrect_fastOps seed msg ctx).2.2,
   fromKeypairWith_congr opsCorrect_fastOps b⟩

/-! ## Unfolding theorems: the functions are the RFC 8032 formulas -/

/-- **Key generation** (RFC 8032 §5.1.5): `h = SHA-512(seed)`; `a` = the clamped integer from `h[0..32]`
(low three bits cleared, bit 255 cleared, bit 254 set: `a = 2^254 + (x mod 2^254) - (x mod 8)` for
`x = LE(h[0..32])`); the public key is the canonical encoding of `[a]B`. -/
theorem keygen_eq_rfc (seed : List UInt8) :
    let h := sha512 seed
    let x := leToNat (h.take 32)
    let a := 2 ^ 254 + x % 2 ^ 254 - x % 8
    (expandSeed seed).1 = a ∧ (expandSeed seed).2 = h.drop 32 ∧ publicKey seed = encodeEd (a • Bpt) := by
  intro h x a
  have ha : (expandSeed seed).1 = a := by
    rw [expandSeed_fst]
    exact clampedNat_eq (by rw [List.length_take, sha512_length]; rfl)
  exact ⟨ha, rfl, by rw [publicKey_eq, ha]⟩

/-- **Signing** (RFC 8032 §5.1.6).  With `(a, prefix)` from the seed and `A` the public key:
`r = H(prefix ‖ M) mod ℓ`, `R = enc([r]B)`, `k = H(R ‖ A ‖ M) mod ℓ`, `S = (r + k·a) mod ℓ`, and the signature
is `R ‖ LE₃₂(S)`. -/
theorem sign_eq_rfc (seed msg : List UInt8) :
    let a := (expandSeed seed).1
    let pre := (expandSeed seed).2
    let A := publicKey seed
    let r := leToNat (sha512 (pre ++ msg)) % L
    let R := encodeEd (r • Bpt)
    let k := leToNat (sha512 (R ++ A ++ msg)) % L
    let S := (r + k * a) % L
    sign seed msg = R ++ natToLe S 32 := by
  intro a pre A r R k S
  show signWith Ops.spec seed msg = _
  rw [signWith_eq, rawSign_eq]
  simp only [nonceOf, challengeOf, hashToScalar, List.nil_append]
  rfl

/-- **Prehashed signing, Ed25519ph** (RFC 8032 §5.1 with `dom2(1, ctx)`, `PH = SHA-512`), for a context of at
most 255 bytes (`None` = empty): as `sign`, with `dom2(1, ctx)` prepended to both hash inputs and
`SHA-512(msg)` in place of the message. -/
theorem sign_ph_eq_rfc (seed msg : List UInt8) (ctx : Option (List UInt8))
    (hctx : (ctx.getD []).length ≤ 255) :
    let a := (expandSeed seed).1
    let pre := (expandSeed seed).2
    let A := publicKey seed
    let dom := dom2 1 (ctx.getD [])
    let ph := sha512 msg
    let r := leToNat (sha512 (dom ++ pre ++ ph)) % L
    let R := encodeEd (r • Bpt)
    let k := leToNat (sha512 (dom ++ R ++ A ++ ph)) % L
    let S := (r + k * a) % L
    signPh seed msg ctx = some (R ++ natToLe S 32) := by
  intro a pre A dom ph r R k S
  show signPhWith Ops.spec seed msg ctx = _
  rw [signPhWith_eq, if_neg (by omega), rawSign_eq]
  simp only [nonceOf, challengeOf, hashToScalar]
  rfl

/-- `dom2(1, ctx) = "SigEd25519 no Ed25519 collisions" ‖ 01 ‖ len(ctx) ‖ ctx`. -/
theorem dom2_eq (ctx : List UInt8) :
    dom2 1 ctx = "SigEd25519 no Ed25519 collisions".toUTF8.toList ++ [1, UInt8.ofNat ctx.length] ++ ctx :=
  rfl

/-- **`ctx_too_long`**: `sign_prehashed` returns an error exactly for contexts longer than 255 bytes. -/
theorem ctx_too_long (seed msg : List UInt8) (ctx : Option (List UInt8)) :
    signPh seed msg ctx = none ↔ 255 < (ctx.getD []).length := by
  show signPhWith Ops.spec seed msg ctx = none ↔ _
  rw [signPhWith_eq]
  by_cases h : (ctx.getD []).length > 255
  · rw [if_pos h]; exact ⟨fun _ => h, fun _ => rfl⟩
  · rw [if_neg h]; exact ⟨fun e => (by cases e), fun e => absurd e h⟩

/-- Shape of a signature: 64 bytes, `S` half canonical (`< ℓ`), `R` half a canonical point encoding. -/
theorem sign_shape (seed msg : List UInt8) :
    (sign seed msg).length = 64 ∧ leToNat ((sign seed msg).drop 32) < L ∧
      IsCanonicalEnc ((sign seed msg).take 32) := by
  have e : sign seed msg = signWith Ops.spec seed msg := rfl
  rw [e, signWith_eq]
  exact ⟨rawSign_length _ _ _ _ _, rawSign_S_canonical _ _ _ _ _, ⟨_, (rawSign_take _ _ _ _ _).symm⟩⟩

/-- The same for Ed25519ph. -/
theorem sign_ph_shape (seed msg : List UInt8) (ctx : Option (List UInt8)) (sig : List UInt8)
    (h : signPh seed msg ctx = some sig) :
    sig.length = 64 ∧ leToNat (sig.drop 32) < L ∧ IsCanonicalEnc (sig.take 32) := by
  have e : signPh seed msg ctx = signPhWith Ops.spec seed msg ctx := rfl
  rw [e, signPhWith_eq] at h
  by_cases hc : (ctx.getD []).length > 255
  · rw [if_pos hc] at h; cases h
  · rw [if_neg hc] at h
    rw [← Option.some.inj h]
    exact ⟨rawSign_length _ _ _ _ _, rawSign_S_canonical _ _ _ _ _, ⟨_, (rawSign_take _ _ _ _ _).symm⟩⟩

/-- **`clamped_nonzero_mod_l`**: the secret scalar is a multiple of 8 in `[2^254, 2^255)` and is not a
multiple of `ℓ`; hence the public key `[a]B` has order exactly `ℓ` and is not of small order. -/
theorem clamped_nonzero_mod_l (seed : List UInt8) :
    (expandSeed seed).1 % 8 = 0 ∧ 2 ^ 254 ≤ (expandSeed seed).1 ∧ (expandSeed seed).1 < 2 ^ 255 ∧
      (expandSeed seed).1 % L ≠ 0 ∧ 8 • ((expandSeed seed).1 • Bpt) ≠ 0 := by
  obtain ⟨h1, h2, h3⟩ := expandSeed_clamped seed
  exact ⟨h1, h2, h3, expandSeed_mod_L_ne_zero seed, eight_nsmul_Bpt_ne_zero (expandSeed_mod_L_ne_zero seed)⟩

/-! ## `from_keypair_bytes` -/

/-- **`keypair_mismatch`**.  `SigningKey::from_keypair_bytes(sk ‖ pk)` (model `fromKeypairWith`, the
expression evaluated by the driver op `eds.from_keypair`) succeeds iff `pk` is, byte for byte, the public key
derived from `sk`; it then returns that key.  The comparison is on bytes, so a non-canonical encoding of the
right point is refused as well (`publicKey` is a canonical encoding: `keygen_eq_rfc`). -/
theorem from_keypair_iff (b vk : List UInt8) :
    fromKeypairWith Ops.spec b = some vk ↔ vk = b.drop 32 ∧ b.drop 32 = publicKey (b.take 32) :=
  fromKeypair_iff b vk

/-- On `sk ‖ pk` with a 32-byte `sk`: accepted iff `pk = publicKey sk`. -/
theorem from_keypair_iff' (sk pk : List UInt8) (hsk : sk.length = 32) :
    (fromKeypairWith Ops.spec (sk ++ pk)).isSome = true ↔ pk = publicKey sk := by
  rw [Option.isSome_iff_exists]
  simp only [fromKeypair_iff, List.drop_left' hsk, List.take_left' hsk]
  exact ⟨fun ⟨_, _, h⟩ => h, fun h => ⟨pk, rfl, h⟩⟩

theorem from_keypair_ops_independent {ops : Ops} (hc : OpsCorrect ops) (b : List UInt8) :
    fromKeypairWith ops b = fromKeypairWith Ops.spec b := fromKeypairWith_congr hc b

/-! ## Every honest signature verifies -/

/-- **Completeness**: for every seed and message, `verify` accepts `sign seed msg` under `publicKey seed`,
with and without `legacy_compatibility`.  (Group argument through the bridge:
`[S]B - [k]A = [(r + k·a) mod ℓ]B - [k][a]B = [r]B`, using that `[n]B` depends only on `n mod ℓ`, and
`decompress (compress A) = A`; the recomputed `k` is the signer's `k` because the same bytes are hashed.) -/
theorem honest_verifies (legacy : Bool) (seed msg : List UInt8) :
    verify legacy false (publicKey seed) msg (sign seed msg) = true := by
  show verifyCoreWith Ops.spec legacy false [] (Ops.spec.mulBase (expandSeed seed).1) msg
    (signWith Ops.spec seed msg) = true
  rw [signWith_eq]
  exact rawSign_verifies legacy [] _ _ msg

/-- **Completeness, Ed25519ph**: for a context of at most 255 bytes, `sign_prehashed` succeeds and
`verify_prehashed` with the same context accepts the result. -/
theorem honest_verifies_ph (legacy : Bool) (seed msg : List UInt8) (ctx : Option (List UInt8))
    (hctx : (ctx.getD []).length ≤ 255) :
    ∃ sig, signPh seed msg ctx = some sig ∧ verifyPh legacy false (publicKey seed) msg ctx sig = true := by
  refine ⟨rawSignWith Ops.spec (dom2 1 (ctx.getD [])) (expandSeed seed).1 (expandSeed seed).2 (sha512 msg)
        (Ops.spec.mulBase (expandSeed seed).1), ?_, ?_⟩
  · show signPhWith Ops.spec seed msg ctx = _
    rw [signPhWith_eq, if_neg (by omega)]
  · show verifyPhWith Ops.spec legacy false (Ops.spec.mulBase (expandSeed seed).1) msg ctx _ = true
    unfold verifyPhWith
    simp only [gt_iff_lt, show ¬ 255 < (ctx.getD []).length by omega, if_false]
    exact rawSign_verifies legacy _ _ _ _

/-- **Strict verification of honest signatures — exact condition.**  `verify_strict` accepts
`sign seed msg` iff the nonce `r = H(prefix ‖ msg) mod ℓ` is non-zero.  (The key `[a]B` is never of small
order, `clamped_nonzero_mod_l`; `R = [r]B` is of small order iff it is the identity iff `r = 0`.) -/
theorem honest_verifies_strict_iff (legacy : Bool) (seed msg : List UInt8) :
    verify legacy true (publicKey seed) msg (sign seed msg) = true ↔
      hashToScalar ((expandSeed seed).2 ++ msg) ≠ 0 := by
  have hmod : hashToScalar ((expandSeed seed).2 ++ msg) % L = hashToScalar ((expandSeed seed).2 ++ msg) :=
    Nat.mod_eq_of_lt (Nat.mod_lt _ L_pos)
  constructor
  · intro h hz
    have h' : verifyCoreWith Ops.spec legacy true [] (Ops.spec.mulBase (expandSeed seed).1) msg
        (rawSignWith Ops.spec [] (expandSeed seed).1 (expandSeed seed).2 msg
          (Ops.spec.mulBase (expandSeed seed).1)) = true := h
    obtain ⟨A, s, -, -, hst, -⟩ := (verifyCore_iff _ _ _ _ _ _).1 h'
    obtain ⟨R, hR, h8, -⟩ := hst rfl
    rw [rawSign_take, decodeEd_encodeEd] at hR
    apply h8
    have : nonceOf [] (expandSeed seed).2 msg = 0 := by
      simpa only [nonceOf, List.nil_append] using hz
    rw [← Option.some.inj hR, this, zero_nsmul, smul_zero]
  · intro hr
    show verifyCoreWith Ops.spec legacy true [] (Ops.spec.mulBase (expandSeed seed).1) msg
      (signWith Ops.spec seed msg) = true
    rw [signWith_eq]
    refine rawSign_verifies_strict legacy [] _ _ msg (expandSeed_mod_L_ne_zero seed) ?_
    simp only [nonceOf, List.nil_append]
    rw [hmod]; exact hr

/-- **`honest_verifies_strict_partial`**: `verify_strict` accepts every honest signature whose nonce
`r = H(prefix ‖ msg) mod ℓ` is non-zero.  *Partial*: the hypothesis `r ≠ 0` cannot be discharged — for
`r = 0` the signature has `R` = identity and strict verification rejects it (`honest_verifies_strict_iff`);
producing such an input requires a SHA-512 output that is a multiple of `ℓ` (probability `≈ 2^-252` per
message; no such preimage is known). -/
theorem honest_verifies_strict_partial (legacy : Bool) (seed msg : List UInt8)
    (hr : hashToScalar ((expandSeed seed).2 ++ msg) ≠ 0) :
    verify legacy true (publicKey seed) msg (sign seed msg) = true :=
  (honest_verifies_strict_iff legacy seed msg).2 hr

/-- Strict prehashed verification, same condition on the nonce
`r = H(dom2(1,ctx) ‖ prefix ‖ SHA-512(msg)) mod ℓ`.  *Partial* for the same reason. -/
theorem honest_verifies_ph_strict_partial (legacy : Bool) (seed msg : List UInt8)
    (ctx : Option (List UInt8)) (hctx : (ctx.getD []).length ≤ 255)
    (hr : hashToScalar (dom2 1 (ctx.getD []) ++ (expandSeed seed).2 ++ sha512 msg) ≠ 0) :
    ∃ sig, signPh seed msg ctx = some sig ∧ verifyPh legacy true (publicKey seed) msg ctx sig = true := by
  refine ⟨rawSignWith Ops.spec (dom2 1 (ctx.getD [])) (expandSeed seed).1 (expandSeed seed).2 (sha512 msg)
        (Ops.spec.mulBase (expandSeed seed).1), ?_, ?_⟩
  · show signPhWith Ops.spec seed msg ctx = _
    rw [signPhWith_eq, if_neg (by omega)]
  · show verifyPhWith Ops.spec legacy true (Ops.spec.mulBase (expandSeed seed).1) msg ctx _ = true
    unfold verifyPhWith
    simp only [gt_iff_lt, show ¬ 255 < (ctx.getD []).length by omega, if_false]
    refine rawSign_verifies_strict legacy _ _ _ _ (expandSeed_mod_L_ne_zero seed) ?_
    simp only [nonceOf]
    have hlt : hashToScalar (dom2 1 (ctx.getD []) ++ (expandSeed seed).2 ++ sha512 msg) < L :=
      Nat.mod_lt _ L_pos
    rw [Nat.mod_eq_of_lt hlt]; exact hr

/-- **Batch verification accepts every batch of honest signatures** (model `verifyBatch` of C13: every
entry's equation holds; see `Dalek.Props.C13` for the relation to the code's single random linear
combination), for any list of (seed, message) pairs — any length including 0, repetitions allowed. -/
theorem honest_verifies_batch (legacy : Bool) (l : List (List UInt8 × List UInt8)) :
    verifyBatch legacy (l.map (·.2)) (l.map fun x => sign x.1 x.2) (l.map fun x => publicKey x.1) = true := by
  show verifyBatchWith Ops.spec legacy _ _ _ = true
  rw [verifyBatch_iff]
  refine ⟨by simp only [List.length_map], by simp only [List.length_map], ?_⟩
  intro x hx
  rw [List.zip_map', List.zip_map', List.mem_map] at hx
  obtain ⟨y, -, rfl⟩ := hx
  have hv : verifyCoreWith Ops.spec legacy false [] (publicKey y.1) y.2 (sign y.1 y.2) = true :=
    honest_verifies legacy y.1 y.2
  have hb := ((verify_iff_batchItem legacy y.2 (sign y.1 y.2) (publicKey y.1)).1 hv).1
  dsimp only
  exact hb

/-! ## Non-vacuity and a reference vector -/

/-- The hypothesis of `honest_verifies_strict_partial` is satisfiable (and so is the whole chain: seeds,
messages, accepted signatures exist): RFC 8032 §7.1 TEST 1 has `r ≠ 0`.  Kernel evaluation of SHA-512. -/
example :
    hashToScalar ((expandSeed (natToLe
      43647624700350065415986689228612485845309737963740022737531181108678917972381 32)).2 ++ []) ≠ 0 := by
  decide +kernel

/-- RFC 8032 §7.1 TEST 1 (secret key `9d61b19d…7f60`): the derived public key is `d75a9801…511a`.
Kernel evaluation of the specification (SHA-512, clamping, one affine scalar multiplication, compression;
about 50 s).  The signature of the same vector (`e5564300…100b`) is checked by the correspondence run on the
RFC vectors; its kernel evaluation (two more scalar multiplications) takes over a minute and is omitted. -/
example :
    publicKey (natToLe 43647624700350065415986689228612485845309737963740022737531181108678917972381 32) =
      natToLe 11903303657706407974989296177215005343713679411332034699907763981919547054807 32 := by
  decide +kernel

/-! ## Axiom audit -/

/-- info: 'Dalek.Props.C08.sign_driver_eq' depends on axioms: [propext, Classical.choice, Quot.sound] -/
#guard_msgs in #print axioms sign_driver_eq
/-- info: 'Dalek.Props.C08.keygen_eq_rfc' depends on axioms: [propext, Classical.choice, Quot.sound] -/
#guard_msgs in #print axioms keygen_eq_rfc
/-- info: 'Dalek.Props.C08.sign_eq_rfc' depends on axioms: [propext, Classical.choice, Quot.sound] -/
#guard_msgs in #print axioms sign_eq_rfc
/-- info: 'Dalek.Props.C08.sign_ph_eq_rfc' depends on axioms: [propext, Classical.choice, Quot.sound] -/
#guard_msgs in #print axioms sign_ph_eq_rfc
/-- info: 'Dalek.Props.C08.ctx_too_long' depends on axioms: [propext, Quot.sound] -/
#guard_msgs in #print axioms ctx_too_long
/-- info: 'Dalek.Props.C08.from_keypair_iff' depends on axioms: [propext, Classical.choice, Quot.sound] -/
#guard_msgs in #print axioms from_keypair_iff
/-- info: 'Dalek.Props.C08.clamped_nonzero_mod_l' depends on axioms: [propext, Classical.choice, Quot.sound] -/
#guard_msgs in #print axioms clamped_nonzero_mod_l
/-- info: 'Dalek.Props.C08.honest_verifies' depends on axioms: [propext, Classical.choice, Quot.sound] -/
#guard_msgs in #print axioms honest_verifies
/-- info: 'Dalek.Props.C08.honest_verifies_ph' depends on axioms: [propext, Classical.choice, Quot.sound] -/
#guard_msgs in #print axioms honest_verifies_ph
/-- info: 'Dalek.Props.C08.honest_verifies_strict_iff' depends on axioms: [propext, Classical.choice, Quot.sound] -/
#guard_msgs in #print axioms honest_verifies_strict_iff
/-- info: 'Dalek.Props.C08.honest_verifies_ph_strict_partial' depends on axioms: [propext, Classical.choice, Quot.sound] -/
#guard_msgs in #print axioms honest_verifies_ph_strict_partial
/-- info: 'Dalek.Props.C08.honest_verifies_batch' depends on axioms: [propext, Classical.choice, Quot.sound] -/
#guard_msgs in #print axioms honest_verifies_batch

end Dalek.Props.C08

import Dalek.Props.C03.Vector
import Dalek.Props.C03.Formulas
/-!
# C05 — the vector backends (AVX2, IFMA) agree with the serial backend on the point formulas

Property theorems.  The vector point formulas (`Dalek.Gen.AlgAvx2Edwards.*`, `Dalek.Gen.AlgIfmaEdwards.*`,
REGENERATED from `backend/vector/{avx2,ifma}/edwards.rs` by lane scalarisation, interpreted by
`zmodOpsV`) and the serial ones (`Dalek.Gen.AlgEdwards.*`, REGENERATED from `edwards.rs` +
`backend/serial/curve_models/mod.rs`, interpreted by `zmodOps`) compute DIFFERENT projective
representatives (the vector addition output is `121666²` times the serial one, the vector doubling output
is the negated serial one) of the SAME group element; hence every observation that factors through the
group element — in particular the compressed encoding `EdwardsPoint::compress`, the only way a point
leaves the library — is identical.

The inputs of the two pipelines are allowed to be different representatives `(Xi:Yi:Zi:Ti)` /
`(Xi':Yi':Zi':Ti')` of the same points (this includes the case of identical coordinates, which is what
`ExtendedPoint::from(EdwardsPoint)` produces), so the theorems compose along whole computations.
The vector side is the composition `ExtendedPoint ± CachedPoint::from(ExtendedPoint)` (the output of the
first program is appended to the first operand to form the input of the second).
-/
namespace Dalek.Props.C05.Vector

open Dalek.IR Dalek.Proofs Dalek.Gen
open Dalek.Edwards
open Dalek.Bridge (Ed edParams edParams_d)
open Dalek.Props.C03

/-- **Representation independence of `compress`**: two valid extended representatives of the same
group element have the same compressed encoding (`y` and the sign of `x`). -/
theorem compress_rep_indep {P : Ed} {X Y Z T X' Y' Z' T' : Fp}
    (h : RepExt P X Y Z T) (h' : RepExt P X' Y' Z' T') :
    AProg.run zmodOps AlgEdwards.compress [X, Y, Z, T]
      = AProg.run zmodOps AlgEdwards.compress [X', Y', Z', T'] := by
  rw [compress_spec h, compress_spec h']

/-- Converse: equal compressed encodings of valid extended points ⟹ the same group element (so the
agreement statements below say exactly that the represented points are equal). -/
theorem eq_of_compress_eq {P Q : Ed} {X Y Z T X' Y' Z' T' : Fp}
    (h : RepExt P X Y Z T) (h' : RepExt Q X' Y' Z' T')
    (e : AProg.run zmodOps AlgEdwards.compress [X, Y, Z, T]
      = AProg.run zmodOps AlgEdwards.compress [X', Y', Z', T']) : P = Q := by
  rw [compress_spec h, compress_spec h'] at e
  have hy : P.y = Q.y := List.head_eq_of_cons_eq e
  have hs : c2f (fpIsNeg P.x) = c2f (fpIsNeg Q.x) :=
    List.head_eq_of_cons_eq (List.tail_eq_of_cons_eq e)
  have hon := P.on
  have hon' := Q.on
  unfold onCurve at hon hon'
  rw [hy] at hon
  have hd := Bridge.dyy_add_one_ne_zero Q.y
  have hsq : P.x ^ 2 = Q.x ^ 2 := by
    have h1 : P.x ^ 2 * (edParams.d * Q.y ^ 2 + 1) = Q.x ^ 2 * (edParams.d * Q.y ^ 2 + 1) := by
      linear_combination hon' - hon
    rw [edParams_d] at h1
    exact mul_right_cancel₀ hd h1
  rcases sq_eq_sq_iff_eq_or_eq_neg.1 hsq with hxx | hxx
  · exact EdPoint.ext hxx hy
  · by_cases hq : Q.x = 0
    · exact EdPoint.ext (by rw [hxx, hq, neg_zero]) hy
    · exfalso
      have hiff : fpIsNeg P.x ↔ fpIsNeg Q.x := by
        constructor
        · intro hp'
          by_contra hq'
          rw [c2f_true hp', c2f_false hq'] at hs
          exact one_ne_zero hs
        · intro hq'
          by_contra hp'
          rw [c2f_false hp', c2f_true hq'] at hs
          exact one_ne_zero hs.symm
      rw [hxx, fpIsNeg_neg hq] at hiff
      by_cases hq' : fpIsNeg Q.x
      · exact (hiff.2 hq') hq'
      · exact hq' (hiff.1 hq')

/-! ## AVX2 vs. serial -/

namespace Avx2

/-- **Addition agrees**: the vector `&ExtendedPoint + &CachedPoint::from(ExtendedPoint)` and the serial
`&EdwardsPoint + &EdwardsPoint` (`as_projective_niels` → `add_ProjectiveNielsPoint` → `as_extended`)
return valid extended points for the same group element `P + Q`, and their compressed encodings are
equal. -/
theorem add_agrees {P Q : Ed} {X1 Y1 Z1 T1 X2 Y2 Z2 T2 X1' Y1' Z1' T1' X2' Y2' Z2' T2' : Fp}
    (hP : RepExt P X1 Y1 Z1 T1) (hQ : RepExt Q X2 Y2 Z2 T2)
    (hP' : RepExt P X1' Y1' Z1' T1') (hQ' : RepExt Q X2' Y2' Z2' T2') :
    ∃ X Y Z T X' Y' Z' T',
      AProg.run zmodOpsV AlgAvx2Edwards.ExtendedPoint_add_CachedPoint
          ([X1, Y1, Z1, T1] ++ AProg.run zmodOpsV AlgAvx2Edwards.CachedPoint_from_ExtendedPoint [X2, Y2, Z2, T2])
        = [X, Y, Z, T] ∧
      AProg.run zmodOps AlgEdwards.add [X1', Y1', Z1', T1', X2', Y2', Z2', T2'] = [X', Y', Z', T'] ∧
      RepExt (P + Q) X Y Z T ∧ RepExt (P + Q) X' Y' Z' T' ∧
      AProg.run zmodOps AlgEdwards.compress [X, Y, Z, T]
        = AProg.run zmodOps AlgEdwards.compress [X', Y', Z', T'] := by
  obtain ⟨X, Y, Z, T, hv, hr⟩ := C03.Vector.Avx2.add_via_cached_spec hP hQ
  obtain ⟨X', Y', Z', T', hs, hr'⟩ := add_spec hP' hQ'
  exact ⟨X, Y, Z, T, X', Y', Z', T', hv, hs, hr, hr', compress_rep_indep hr hr'⟩

/-- **Subtraction agrees** (vector `&ExtendedPoint - &CachedPoint::from(ExtendedPoint)` vs. serial
`&EdwardsPoint - &EdwardsPoint`). -/
theorem sub_agrees {P Q : Ed} {X1 Y1 Z1 T1 X2 Y2 Z2 T2 X1' Y1' Z1' T1' X2' Y2' Z2' T2' : Fp}
    (hP : RepExt P X1 Y1 Z1 T1) (hQ : RepExt Q X2 Y2 Z2 T2)
    (hP' : RepExt P X1' Y1' Z1' T1') (hQ' : RepExt Q X2' Y2' Z2' T2') :
    ∃ X Y Z T X' Y' Z' T',
      AProg.run zmodOpsV AlgAvx2Edwards.ExtendedPoint_sub_CachedPoint
          ([X1, Y1, Z1, T1] ++ AProg.run zmodOpsV AlgAvx2Edwards.CachedPoint_from_ExtendedPoint [X2, Y2, Z2, T2])
        = [X, Y, Z, T] ∧
      AProg.run zmodOps AlgEdwards.sub [X1', Y1', Z1', T1', X2', Y2', Z2', T2'] = [X', Y', Z', T'] ∧
      RepExt (P - Q) X Y Z T ∧ RepExt (P - Q) X' Y' Z' T' ∧
      AProg.run zmodOps AlgEdwards.compress [X, Y, Z, T]
        = AProg.run zmodOps AlgEdwards.compress [X', Y', Z', T'] := by
  obtain ⟨X, Y, Z, T, hv, hr⟩ := C03.Vector.Avx2.sub_via_cached_spec hP hQ
  obtain ⟨X', Y', Z', T', hs, hr'⟩ := sub_spec hP' hQ'
  exact ⟨X, Y, Z, T, X', Y', Z', T', hv, hs, hr, hr', compress_rep_indep hr hr'⟩

/-- **Doubling agrees** (vector `ExtendedPoint::double` vs. serial `EdwardsPoint::double`). -/
theorem double_agrees {P : Ed} {X Y Z T X' Y' Z' T' : Fp}
    (hP : RepExt P X Y Z T) (hP' : RepExt P X' Y' Z' T') :
    ∃ A B C D A' B' C' D',
      AProg.run zmodOpsV AlgAvx2Edwards.ExtendedPoint_double [X, Y, Z, T] = [A, B, C, D] ∧
      AProg.run zmodOps AlgEdwards.double [X', Y', Z', T'] = [A', B', C', D'] ∧
      RepExt (2 • P) A B C D ∧ RepExt (2 • P) A' B' C' D' ∧
      AProg.run zmodOps AlgEdwards.compress [A, B, C, D]
        = AProg.run zmodOps AlgEdwards.compress [A', B', C', D'] := by
  obtain ⟨A, B, C, D, hv, hr⟩ := C03.Vector.Avx2.ExtendedPoint_double_spec hP
  obtain ⟨A', B', C', D', hs, hr'⟩ := double_spec hP'
  exact ⟨A, B, C, D, A', B', C', D', hv, hs, hr, hr', compress_rep_indep hr hr'⟩

/-- **`mul_by_pow_2(k)` agrees**: `k` iterations of the vector loop body vs. `k` serial doublings
(the serial `EdwardsPoint::mul_by_pow_2` is `k` doublings in the `ProjectivePoint`/`CompletedPoint`
models; here the composed `EdwardsPoint::double` is iterated). -/
theorem mul_by_pow_2_agrees (k : Nat) {P : Ed} {X Y Z T X' Y' Z' T' : Fp}
    (hP : RepExt P X Y Z T) (hP' : RepExt P X' Y' Z' T') :
    ∃ A B C D A' B' C' D',
      (AProg.run zmodOpsV AlgAvx2Edwards.ExtendedPoint_mul_by_pow_2_body)^[k] [X, Y, Z, T] = [A, B, C, D] ∧
      (AProg.run zmodOps AlgEdwards.double)^[k] [X', Y', Z', T'] = [A', B', C', D'] ∧
      RepExt (2 ^ k • P) A B C D ∧ RepExt (2 ^ k • P) A' B' C' D' ∧
      AProg.run zmodOps AlgEdwards.compress [A, B, C, D]
        = AProg.run zmodOps AlgEdwards.compress [A', B', C', D'] := by
  obtain ⟨A, B, C, D, hv, hr⟩ := C03.Vector.Avx2.ExtendedPoint_mul_by_pow_2_spec k hP
  obtain ⟨A', B', C', D', hs, hr'⟩ := iterate_double_rep (fun h => double_spec h) k hP'
  exact ⟨A, B, C, D, A', B', C', D', hv, hs, hr, hr', compress_rep_indep hr hr'⟩

/-- **Negation of the cached operand agrees**: adding the negated cached point is the serial
subtraction. -/
theorem add_neg_cached_agrees {P Q : Ed} {X1 Y1 Z1 T1 a b c e X1' Y1' Z1' T1' X2' Y2' Z2' T2' : Fp}
    (hP : RepExt P X1 Y1 Z1 T1) (hQ : RepCached Q a b c e)
    (hP' : RepExt P X1' Y1' Z1' T1') (hQ' : RepExt Q X2' Y2' Z2' T2') :
    ∃ X Y Z T X' Y' Z' T',
      AProg.run zmodOpsV AlgAvx2Edwards.ExtendedPoint_add_CachedPoint
          ([X1, Y1, Z1, T1] ++ AProg.run zmodOpsV AlgAvx2Edwards.CachedPoint_neg [a, b, c, e]) = [X, Y, Z, T] ∧
      AProg.run zmodOps AlgEdwards.sub [X1', Y1', Z1', T1', X2', Y2', Z2', T2'] = [X', Y', Z', T'] ∧
      RepExt (P - Q) X Y Z T ∧ RepExt (P - Q) X' Y' Z' T' ∧
      AProg.run zmodOps AlgEdwards.compress [X, Y, Z, T]
        = AProg.run zmodOps AlgEdwards.compress [X', Y', Z', T'] := by
  obtain ⟨a', b', c', e', hn, hQn⟩ := C03.Vector.Avx2.CachedPoint_neg_spec hQ
  obtain ⟨X, Y, Z, T, hv, hr⟩ := C03.Vector.Avx2.ExtendedPoint_add_CachedPoint_spec hP hQn
  obtain ⟨X', Y', Z', T', hs, hr'⟩ := sub_spec hP' hQ'
  rw [← sub_eq_add_neg] at hr
  refine ⟨X, Y, Z, T, X', Y', Z', T', ?_, hs, hr, hr', compress_rep_indep hr hr'⟩
  rw [hn]; exact hv

/-- **Identity agrees**: the vector `ExtendedPoint::identity()` and the serial
`EdwardsPoint::identity()` have the same compressed encoding. -/
theorem identity_agrees :
    ∃ X Y Z T X' Y' Z' T',
      AProg.run zmodOpsV AlgAvx2Edwards.ExtendedPoint_identity [] = [X, Y, Z, T] ∧
      AProg.run zmodOps AlgEdwards.identity [] = [X', Y', Z', T'] ∧
      RepExt (0 : Ed) X Y Z T ∧ RepExt (0 : Ed) X' Y' Z' T' ∧
      AProg.run zmodOps AlgEdwards.compress [X, Y, Z, T]
        = AProg.run zmodOps AlgEdwards.compress [X', Y', Z', T'] := by
  obtain ⟨X, Y, Z, T, hv, hr⟩ := C03.Vector.Avx2.ExtendedPoint_identity_spec
  obtain ⟨X', Y', Z', T', hs, hr'⟩ := identity_spec
  exact ⟨X, Y, Z, T, X', Y', Z', T', hv, hs, hr, hr', compress_rep_indep hr hr'⟩

end Avx2

/-! ## IFMA vs. serial -/

namespace Ifma

/-- **Addition agrees**: the vector `&ExtendedPoint + &CachedPoint::from(ExtendedPoint)` and the serial
`&EdwardsPoint + &EdwardsPoint` (`as_projective_niels` → `add_ProjectiveNielsPoint` → `as_extended`)
return valid extended points for the same group element `P + Q`, and their compressed encodings are
equal. -/
theorem add_agrees {P Q : Ed} {X1 Y1 Z1 T1 X2 Y2 Z2 T2 X1' Y1' Z1' T1' X2' Y2' Z2' T2' : Fp}
    (hP : RepExt P X1 Y1 Z1 T1) (hQ : RepExt Q X2 Y2 Z2 T2)
    (hP' : RepExt P X1' Y1' Z1' T1') (hQ' : RepExt Q X2' Y2' Z2' T2') :
    ∃ X Y Z T X' Y' Z' T',
      AProg.run zmodOpsV AlgIfmaEdwards.ExtendedPoint_add_CachedPoint
          ([X1, Y1, Z1, T1] ++ AProg.run zmodOpsV AlgIfmaEdwards.CachedPoint_from_ExtendedPoint [X2, Y2, Z2, T2])
        = [X, Y, Z, T] ∧
      AProg.run zmodOps AlgEdwards.add [X1', Y1', Z1', T1', X2', Y2', Z2', T2'] = [X', Y', Z', T'] ∧
      RepExt (P + Q) X Y Z T ∧ RepExt (P + Q) X' Y' Z' T' ∧
      AProg.run zmodOps AlgEdwards.compress [X, Y, Z, T]
        = AProg.run zmodOps AlgEdwards.compress [X', Y', Z', T'] := by
  obtain ⟨X, Y, Z, T, hv, hr⟩ := C03.Vector.Ifma.add_via_cached_spec hP hQ
  obtain ⟨X', Y', Z', T', hs, hr'⟩ := add_spec hP' hQ'
  exact ⟨X, Y, Z, T, X', Y', Z', T', hv, hs, hr, hr', compress_rep_indep hr hr'⟩

/-- **Subtraction agrees** (vector `&ExtendedPoint - &CachedPoint::from(ExtendedPoint)` vs. serial
`&EdwardsPoint - &EdwardsPoint`). -/
theorem sub_agrees {P Q : Ed} {X1 Y1 Z1 T1 X2 Y2 Z2 T2 X1' Y1' Z1' T1' X2' Y2' Z2' T2' : Fp}
    (hP : RepExt P X1 Y1 Z1 T1) (hQ : RepExt Q X2 Y2 Z2 T2)
    (hP' : RepExt P X1' Y1' Z1' T1') (hQ' : RepExt Q X2' Y2' Z2' T2') :
    ∃ X Y Z T X' Y' Z' T',
      AProg.run zmodOpsV AlgIfmaEdwards.ExtendedPoint_sub_CachedPoint
          ([X1, Y1, Z1, T1] ++ AProg.run zmodOpsV AlgIfmaEdwards.CachedPoint_from_ExtendedPoint [X2, Y2, Z2, T2])
        = [X, Y, Z, T] ∧
      AProg.run zmodOps AlgEdwards.sub [X1', Y1', Z1', T1', X2', Y2', Z2', T2'] = [X', Y', Z', T'] ∧
      RepExt (P - Q) X Y Z T ∧ RepExt (P - Q) X' Y' Z' T' ∧
      AProg.run zmodOps AlgEdwards.compress [X, Y, Z, T]
        = AProg.run zmodOps AlgEdwards.compress [X', Y', Z', T'] := by
  obtain ⟨X, Y, Z, T, hv, hr⟩ := C03.Vector.Ifma.sub_via_cached_spec hP hQ
  obtain ⟨X', Y', Z', T', hs, hr'⟩ := sub_spec hP' hQ'
  exact ⟨X, Y, Z, T, X', Y', Z', T', hv, hs, hr, hr', compress_rep_indep hr hr'⟩

/-- **Doubling agrees** (vector `ExtendedPoint::double` vs. serial `EdwardsPoint::double`). -/
theorem double_agrees {P : Ed} {X Y Z T X' Y' Z' T' : Fp}
    (hP : RepExt P X Y Z T) (hP' : RepExt P X' Y' Z' T') :
    ∃ A B C D A' B' C' D',
      AProg.run zmodOpsV AlgIfmaEdwards.ExtendedPoint_double [X, Y, Z, T] = [A, B, C, D] ∧
      AProg.run zmodOps AlgEdwards.double [X', Y', Z', T'] = [A', B', C', D'] ∧
      RepExt (2 • P) A B C D ∧ RepExt (2 • P) A' B' C' D' ∧
      AProg.run zmodOps AlgEdwards.compress [A, B, C, D]
        = AProg.run zmodOps AlgEdwards.compress [A', B', C', D'] := by
  obtain ⟨A, B, C, D, hv, hr⟩ := C03.Vector.Ifma.ExtendedPoint_double_spec hP
  obtain ⟨A', B', C', D', hs, hr'⟩ := double_spec hP'
  exact ⟨A, B, C, D, A', B', C', D', hv, hs, hr, hr', compress_rep_indep hr hr'⟩

/-- **`mul_by_pow_2(k)` agrees**: `k` iterations of the vector loop body vs. `k` serial doublings
(the serial `EdwardsPoint::mul_by_pow_2` is `k` doublings in the `ProjectivePoint`/`CompletedPoint`
models; here the composed `EdwardsPoint::double` is iterated). -/
theorem mul_by_pow_2_agrees (k : Nat) {P : Ed} {X Y Z T X' Y' Z' T' : Fp}
    (hP : RepExt P X Y Z T) (hP' : RepExt P X' Y' Z' T') :
    ∃ A B C D A' B' C' D',
      (AProg.run zmodOpsV AlgIfmaEdwards.ExtendedPoint_mul_by_pow_2_body)^[k] [X, Y, Z, T] = [A, B, C, D] ∧
      (AProg.run zmodOps AlgEdwards.double)^[k] [X', Y', Z', T'] = [A', B', C', D'] ∧
      RepExt (2 ^ k • P) A B C D ∧ RepExt (2 ^ k • P) A' B' C' D' ∧
      AProg.run zmodOps AlgEdwards.compress [A, B, C, D]
        = AProg.run zmodOps AlgEdwards.compress [A', B', C', D'] := by
  obtain ⟨A, B, C, D, hv, hr⟩ := C03.Vector.Ifma.ExtendedPoint_mul_by_pow_2_spec k hP
  obtain ⟨A', B', C', D', hs, hr'⟩ := iterate_double_rep (fun h => double_spec h) k hP'
  exact ⟨A, B, C, D, A', B', C', D', hv, hs, hr, hr', compress_rep_indep hr hr'⟩

/-- **Negation of the cached operand agrees**: adding the negated cached point is the serial
subtraction. -/
theorem add_neg_cached_agrees {P Q : Ed} {X1 Y1 Z1 T1 a b c e X1' Y1' Z1' T1' X2' Y2' Z2' T2' : Fp}
    (hP : RepExt P X1 Y1 Z1 T1) (hQ : RepCached Q a b c e)
    (hP' : RepExt P X1' Y1' Z1' T1') (hQ' : RepExt Q X2' Y2' Z2' T2') :
    ∃ X Y Z T X' Y' Z' T',
      AProg.run zmodOpsV AlgIfmaEdwards.ExtendedPoint_add_CachedPoint
          ([X1, Y1, Z1, T1] ++ AProg.run zmodOpsV AlgIfmaEdwards.CachedPoint_neg [a, b, c, e]) = [X, Y, Z, T] ∧
      AProg.run zmodOps AlgEdwards.sub [X1', Y1', Z1', T1', X2', Y2', Z2', T2'] = [X', Y', Z', T'] ∧
      RepExt (P - Q) X Y Z T ∧ RepExt (P - Q) X' Y' Z' T' ∧
      AProg.run zmodOps AlgEdwards.compress [X, Y, Z, T]
        = AProg.run zmodOps AlgEdwards.compress [X', Y', Z', T'] := by
  obtain ⟨a', b', c', e', hn, hQn⟩ := C03.Vector.Ifma.CachedPoint_neg_spec hQ
  obtain ⟨X, Y, Z, T, hv, hr⟩ := C03.Vector.Ifma.ExtendedPoint_add_CachedPoint_spec hP hQn
  obtain ⟨X', Y', Z', T', hs, hr'⟩ := sub_spec hP' hQ'
  rw [← sub_eq_add_neg] at hr
  refine ⟨X, Y, Z, T, X', Y', Z', T', ?_, hs, hr, hr', compress_rep_indep hr hr'⟩
  rw [hn]; exact hv

/-- **Identity agrees**: the vector `ExtendedPoint::identity()` and the serial
`EdwardsPoint::identity()` have the same compressed encoding. -/
theorem identity_agrees :
    ∃ X Y Z T X' Y' Z' T',
      AProg.run zmodOpsV AlgIfmaEdwards.ExtendedPoint_identity [] = [X, Y, Z, T] ∧
      AProg.run zmodOps AlgEdwards.identity [] = [X', Y', Z', T'] ∧
      RepExt (0 : Ed) X Y Z T ∧ RepExt (0 : Ed) X' Y' Z' T' ∧
      AProg.run zmodOps AlgEdwards.compress [X, Y, Z, T]
        = AProg.run zmodOps AlgEdwards.compress [X', Y', Z', T'] := by
  obtain ⟨X, Y, Z, T, hv, hr⟩ := C03.Vector.Ifma.ExtendedPoint_identity_spec
  obtain ⟨X', Y', Z', T', hs, hr'⟩ := identity_spec
  exact ⟨X, Y, Z, T, X', Y', Z', T', hv, hs, hr, hr', compress_rep_indep hr hr'⟩

end Ifma

/-! ## AVX2 vs. IFMA -/

/-- The two vector backends agree with each other on addition (both agree with the serial one). -/
theorem avx2_ifma_add_agree {P Q : Ed} {X1 Y1 Z1 T1 X2 Y2 Z2 T2 X1' Y1' Z1' T1' X2' Y2' Z2' T2' : Fp}
    (hP : RepExt P X1 Y1 Z1 T1) (hQ : RepExt Q X2 Y2 Z2 T2)
    (hP' : RepExt P X1' Y1' Z1' T1') (hQ' : RepExt Q X2' Y2' Z2' T2') :
    ∃ X Y Z T X' Y' Z' T',
      AProg.run zmodOpsV AlgAvx2Edwards.ExtendedPoint_add_CachedPoint
          ([X1, Y1, Z1, T1] ++ AProg.run zmodOpsV AlgAvx2Edwards.CachedPoint_from_ExtendedPoint [X2, Y2, Z2, T2])
        = [X, Y, Z, T] ∧
      AProg.run zmodOpsV AlgIfmaEdwards.ExtendedPoint_add_CachedPoint
          ([X1', Y1', Z1', T1'] ++ AProg.run zmodOpsV AlgIfmaEdwards.CachedPoint_from_ExtendedPoint [X2', Y2', Z2', T2'])
        = [X', Y', Z', T'] ∧
      RepExt (P + Q) X Y Z T ∧ RepExt (P + Q) X' Y' Z' T' ∧
      AProg.run zmodOps AlgEdwards.compress [X, Y, Z, T]
        = AProg.run zmodOps AlgEdwards.compress [X', Y', Z', T'] := by
  obtain ⟨X, Y, Z, T, hv, hr⟩ := C03.Vector.Avx2.add_via_cached_spec hP hQ
  obtain ⟨X', Y', Z', T', hs, hr'⟩ := C03.Vector.Ifma.add_via_cached_spec hP' hQ'
  exact ⟨X, Y, Z, T, X', Y', Z', T', hv, hs, hr, hr', compress_rep_indep hr hr'⟩

/-- … and on doubling. -/
theorem avx2_ifma_double_agree {P : Ed} {X Y Z T X' Y' Z' T' : Fp}
    (hP : RepExt P X Y Z T) (hP' : RepExt P X' Y' Z' T') :
    ∃ A B C D A' B' C' D',
      AProg.run zmodOpsV AlgAvx2Edwards.ExtendedPoint_double [X, Y, Z, T] = [A, B, C, D] ∧
      AProg.run zmodOpsV AlgIfmaEdwards.ExtendedPoint_double [X', Y', Z', T'] = [A', B', C', D'] ∧
      RepExt (2 • P) A B C D ∧ RepExt (2 • P) A' B' C' D' ∧
      AProg.run zmodOps AlgEdwards.compress [A, B, C, D]
        = AProg.run zmodOps AlgEdwards.compress [A', B', C', D'] := by
  obtain ⟨A, B, C, D, hv, hr⟩ := C03.Vector.Avx2.ExtendedPoint_double_spec hP
  obtain ⟨A', B', C', D', hs, hr'⟩ := C03.Vector.Ifma.ExtendedPoint_double_spec hP'
  exact ⟨A, B, C, D, A', B', C', D', hv, hs, hr, hr', compress_rep_indep hr hr'⟩

/-! ### The hypotheses are satisfiable -/

/-- The identity has (at least) two different valid representatives, `(0:1:1:0)` and `(0:2:2:0)`;
the agreement theorems apply to such pairs. -/
example : RepExt (0 : Ed) 0 1 1 0 ∧ RepExt (0 : Ed) 0 2 2 0 :=
  ⟨repExt_zero, (repExt_zero.scale (k := 2) Dalek.FieldFacts.two_ne_zero_p).of_eq
    (by ring) (by ring) (by ring) (by ring)⟩

/-! ### Axiom audit -/

/-- info: 'Dalek.Props.C05.Vector.compress_rep_indep' depends on axioms: [propext, Classical.choice, Quot.sound] -/
#guard_msgs (whitespace := lax) in #print axioms compress_rep_indep

/-- info: 'Dalek.Props.C05.Vector.eq_of_compress_eq' depends on axioms: [propext, Classical.choice, Quot.sound] -/
#guard_msgs (whitespace := lax) in #print axioms eq_of_compress_eq

/-- info: 'Dalek.Props.C05.Vector.avx2_ifma_add_agree' depends on axioms: [propext, Classical.choice, Quot.sound] -/
#guard_msgs (whitespace := lax) in #print axioms avx2_ifma_add_agree

/-- info: 'Dalek.Props.C05.Vector.avx2_ifma_double_agree' depends on axioms: [propext, Classical.choice, Quot.sound] -/
#guard_msgs (whitespace := lax) in #print axioms avx2_ifma_double_agree

/-- info: 'Dalek.Props.C05.Vector.Avx2.add_agrees' depends on axioms: [propext, Classical.choice, Quot.sound] -/
#guard_msgs (whitespace := lax) in #print axioms Avx2.add_agrees

/-- info: 'Dalek.Props.C05.Vector.Avx2.sub_agrees' depends on axioms: [propext, Classical.choice, Quot.sound] -/
#guard_msgs (whitespace := lax) in #print axioms Avx2.sub_agrees

/-- info: 'Dalek.Props.C05.Vector.Avx2.double_agrees' depends on axioms: [propext, Classical.choice, Quot.sound] -/
#guard_msgs (whitespace := lax) in #print axioms Avx2.double_agrees

/-- info: 'Dalek.Props.C05.Vector.Avx2.mul_by_pow_2_agrees' depends on axioms: [propext, Classical.choice, Quot.sound] -/
#guard_msgs (whitespace := lax) in #print axioms Avx2.mul_by_pow_2_agrees

/-- info: 'Dalek.Props.C05.Vector.Avx2.add_neg_cached_agrees' depends on axioms: [propext, Classical.choice, Quot.sound] -/
#guard_msgs (whitespace := lax) in #print axioms Avx2.add_neg_cached_agrees

/-- info: 'Dalek.Props.C05.Vector.Avx2.identity_agrees' depends on axioms: [propext, Classical.choice, Quot.sound] -/
#guard_msgs (whitespace := lax) in #print axioms Avx2.identity_agrees

/-- info: 'Dalek.Props.C05.Vector.Ifma.add_agrees' depends on axioms: [propext, Classical.choice, Quot.sound] -/
#guard_msgs (whitespace := lax) in #print axioms Ifma.add_agrees

/-- info: 'Dalek.Props.C05.Vector.Ifma.sub_agrees' depends on axioms: [propext, Classical.choice, Quot.sound] -/
#guard_msgs (whitespace := lax) in #print axioms Ifma.sub_agrees

/-- info: 'Dalek.Props.C05.Vector.Ifma.double_agrees' depends on axioms: [propext, Classical.choice, Quot.sound] -/
#guard_msgs (whitespace := lax) in #print axioms Ifma.double_agrees

/-- info: 'Dalek.Props.C05.Vector.Ifma.mul_by_pow_2_agrees' depends on axioms: [propext, Classical.choice, Quot.sound] -/
#guard_msgs (whitespace := lax) in #print axioms Ifma.mul_by_pow_2_agrees

/-- info: 'Dalek.Props.C05.Vector.Ifma.add_neg_cached_agrees' depends on axioms: [propext, Classical.choice, Quot.sound] -/
#guard_msgs (whitespace := lax) in #print axioms Ifma.add_neg_cached_agrees

/-- info: 'Dalek.Props.C05.Vector.Ifma.identity_agrees' depends on axioms: [propext, Classical.choice, Quot.sound] -/
#guard_msgs (whitespace := lax) in #print axioms Ifma.identity_agrees

end Dalek.Props.C05.Vector

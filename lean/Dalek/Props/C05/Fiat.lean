import Dalek.Props.C01.FiatHistory51
import Dalek.Props.C01.FiatHistory26
/-!
# C05 — the fiat backends are unobservable against each other and against the serial backends (property theorems)

`fiat_expr_agree`: take ANY expression over the field operations (`+ - * neg square square2 pow2k`) and evaluate it with the
release semantics of the translated fiat u64 wrappers and of the translated fiat u32 wrappers, on environments of tight limb
vectors that represent the same field values.  Both runs are panic-free in checked builds and the two results represent the
same element of `ZMod p` — so every observation that factors through the field value (canonical bytes, equality, sign) is the
same on both.  `fiat51_serial51_*`: kernel-level agreement of the fiat u64 wrapper with the serial u64 kernel.
-/
namespace Dalek.Props.C05.Fiat
open Dalek.IR Dalek.Model.Contracts Dalek.Props.C01 Dalek.Props.C01.FiatExpr

/-- **fiat u64 and fiat u32 agree on every expression**, for all tight representations of equal values. -/
theorem fiat_expr_agree (env51 env26 : List (List Nat))
    (h51 : ∀ l ∈ env51, EnvIn l Fiat51.tightOut) (h26 : ∀ l ∈ env26, EnvIn l Fiat26.tightOut)
    (hv : env51.map Field51.val51 = env26.map Field26.val26) (e : FExpr) (hs : e.scoped env51.length) :
    ∃ o51 o26, Fiat51.evalC env51 e = some o51 ∧ Fiat51.evalW env51 e = o51 ∧
      Fiat26.evalC env26 e = some o26 ∧ Fiat26.evalW env26 e = o26 ∧
      Field51.val51 o51 = Field26.val26 o26 := by
  have hlen : env51.length = env26.length := by simpa using congrArg List.length hv
  obtain ⟨o51, a1, a2, _, a4⟩ := Fiat51.fiat51_expr env51 h51 e hs
  obtain ⟨o26, b1, b2, _, b4⟩ := Fiat26.fiat26_expr env26 h26 e (hlen ▸ hs)
  exact ⟨o51, o26, a1, a2, b1, b2, by rw [a4, b4, hv]⟩

section
variable (a0 a1 a2 a3 a4 b0 b1 b2 b3 b4 c0 c1 c2 c3 c4 d0 d1 d2 d3 d4 : Nat)

/-- fiat u64 `mul` and serial u64 `mul` on representations of equal values -/
theorem fiat51_serial51_mul
    (hf : EnvIn [a0, a1, a2, a3, a4, b0, b1, b2, b3, b4] FiatField51.pre_mul)
    (hs : EnvIn [c0, c1, c2, c3, c4, d0, d1, d2, d3, d4] Field51.pre_mul)
    (ha : Field51.val51 [a0, a1, a2, a3, a4] = Field51.val51 [c0, c1, c2, c3, c4])
    (hb : Field51.val51 [b0, b1, b2, b3, b4] = Field51.val51 [d0, d1, d2, d3, d4]) :
    Field51.val51 (Dalek.Gen.FiatField51.mul.evalW [a0, a1, a2, a3, a4, b0, b1, b2, b3, b4])
      = Field51.val51 (Dalek.Gen.Field51.mul.evalW [c0, c1, c2, c3, c4, d0, d1, d2, d3, d4]) := by
  obtain ⟨o1, _, w1, _, v1⟩ := Fiat51.mul_spec a0 a1 a2 a3 a4 b0 b1 b2 b3 b4 hf
  obtain ⟨o2, _, w2, _, v2⟩ := Field51.mul_spec c0 c1 c2 c3 c4 d0 d1 d2 d3 d4 hs
  rw [w1, w2, v1, v2, ha, hb]

theorem fiat51_serial51_sub
    (hf : EnvIn [a0, a1, a2, a3, a4, b0, b1, b2, b3, b4] FiatField51.pre_sub)
    (hs : EnvIn [c0, c1, c2, c3, c4, d0, d1, d2, d3, d4] Field51.pre_sub)
    (ha : Field51.val51 [a0, a1, a2, a3, a4] = Field51.val51 [c0, c1, c2, c3, c4])
    (hb : Field51.val51 [b0, b1, b2, b3, b4] = Field51.val51 [d0, d1, d2, d3, d4]) :
    Field51.val51 (Dalek.Gen.FiatField51.sub.evalW [a0, a1, a2, a3, a4, b0, b1, b2, b3, b4])
      = Field51.val51 (Dalek.Gen.Field51.sub.evalW [c0, c1, c2, c3, c4, d0, d1, d2, d3, d4]) := by
  obtain ⟨o1, _, w1, _, v1⟩ := Fiat51.sub_spec a0 a1 a2 a3 a4 b0 b1 b2 b3 b4 hf
  obtain ⟨o2, _, w2, _, v2⟩ := Field51.sub_spec c0 c1 c2 c3 c4 d0 d1 d2 d3 d4 hs
  rw [w1, w2, v1, v2, ha, hb]

theorem fiat51_serial51_add
    (hf : EnvIn [a0, a1, a2, a3, a4, b0, b1, b2, b3, b4] FiatField51.pre_add)
    (hs : EnvIn [c0, c1, c2, c3, c4, d0, d1, d2, d3, d4] Field51.pre_add)
    (ha : Field51.val51 [a0, a1, a2, a3, a4] = Field51.val51 [c0, c1, c2, c3, c4])
    (hb : Field51.val51 [b0, b1, b2, b3, b4] = Field51.val51 [d0, d1, d2, d3, d4]) :
    Field51.val51 (Dalek.Gen.FiatField51.add.evalW [a0, a1, a2, a3, a4, b0, b1, b2, b3, b4])
      = Field51.val51 (Dalek.Gen.Field51.add.evalW [c0, c1, c2, c3, c4, d0, d1, d2, d3, d4]) := by
  obtain ⟨o1, _, w1, _, v1⟩ := Fiat51.add_spec a0 a1 a2 a3 a4 b0 b1 b2 b3 b4 hf
  obtain ⟨o2, _, w2, _, v2⟩ := Field51.add_spec c0 c1 c2 c3 c4 d0 d1 d2 d3 d4 hs
  rw [w1, w2, v1, v2, ha, hb]

theorem fiat51_serial51_neg
    (hf : EnvIn [a0, a1, a2, a3, a4] FiatField51.pre_neg) (hs : EnvIn [c0, c1, c2, c3, c4] Field51.pre_neg)
    (ha : Field51.val51 [a0, a1, a2, a3, a4] = Field51.val51 [c0, c1, c2, c3, c4]) :
    Field51.val51 (Dalek.Gen.FiatField51.neg.evalW [a0, a1, a2, a3, a4])
      = Field51.val51 (Dalek.Gen.Field51.neg.evalW [c0, c1, c2, c3, c4]) := by
  obtain ⟨o1, _, w1, _, v1⟩ := Fiat51.neg_spec a0 a1 a2 a3 a4 hf
  obtain ⟨o2, _, w2, _, v2⟩ := Field51.neg_spec c0 c1 c2 c3 c4 hs
  rw [w1, w2, v1, v2, ha]

theorem fiat51_serial51_square
    (hf : EnvIn [a0, a1, a2, a3, a4] FiatField51.pre_square) (hs : EnvIn [c0, c1, c2, c3, c4] Field51.pre_pow2k_body)
    (ha : Field51.val51 [a0, a1, a2, a3, a4] = Field51.val51 [c0, c1, c2, c3, c4]) :
    Field51.val51 (Dalek.Gen.FiatField51.square.evalW [a0, a1, a2, a3, a4])
      = Field51.val51 (Dalek.Gen.Field51.pow2k_body.evalW [c0, c1, c2, c3, c4]) := by
  obtain ⟨o1, _, w1, _, v1⟩ := Fiat51.square_spec a0 a1 a2 a3 a4 hf
  obtain ⟨o2, _, w2, _, v2⟩ := Field51.pow2k_body_spec c0 c1 c2 c3 c4 hs
  rw [w1, w2, v1, v2, ha]
end

/-- non-vacuity: the two tight encodings of the value 1 satisfy the hypotheses of `fiat_expr_agree` -/
example : (∀ l ∈ [[1, 0, 0, 0, 0]], EnvIn l Fiat51.tightOut) ∧
    (∀ l ∈ [[1, 0, 0, 0, 0, 0, 0, 0, 0, 0]], EnvIn l Fiat26.tightOut) := by
  constructor <;> (intro l hl; simp only [List.mem_singleton] at hl; subst hl; decide +kernel)

end Dalek.Props.C05.Fiat

import Dalek.Proofs.AlgRefineFiat51
import Dalek.Proofs.AlgRefineFiat26
import Dalek.Proofs.AlgRefineOk
import Dalek.Props.C05.Refinement
/-!
# C05 / C03 / C11 — the fiat u64 and fiat u32 backends refine every translated field-level formula

`all_formulas_refine_fiat51`: for EVERY translated formula of `field.rs` (`invert`, `pow22501`, `pow_p58`, `sqrt_ratio_i`, `invsqrt`),
`curve_models`, `edwards.rs`, `montgomery.rs`, `ristretto.rs` (the table `Dalek.Props.C11.Formulas.sigs`, instantiated with ONE type
invariant: fiat's tight bound), the execution on the TRANSLATED fiat u64 wrapper kernels — `Dalek.Gen.FiatField51.*`, fiat-crypto
functions inlined — does not panic in a checked build, equals the release execution, returns tight limbs, and its values in `ZMod p`
are the formula's field-level meaning.  With the C03/C06/C07 theorems about that meaning: point addition, doubling, decompression,
compression, the ladder step, Elligator, … are correct on this backend for all tight inputs.
`fiat51_serial51_agree_on_formulas`: C05 at formula level between the fiat u64 and the serial u64 backend.
-/
namespace Dalek.Props.C05.RefinementFiat
open Dalek.IR Dalek.Gen Dalek.Model.AlgBounds Dalek.Proofs Dalek.Proofs.AlgRefine Dalek.Proofs.AlgBoundsSound
open Dalek.Props.C11.Formulas
open Dalek.Edwards
open Dalek.Bridge (Ed)

/-- fiat u64: every translated formula refines its field-level meaning, from the single invariant "tight" -/
theorem all_formulas_refine_fiat51 : ∀ s ∈ sigs IF51, Refines BF51 v51 s.F s.pre s.post := by
  intro s hs
  have h := List.all_eq_true.mp all_refOkF51 s hs
  exact Sig.refines_of_ok specF51 h

/-- **C05 at formula level, fiat u64 vs serial u64**: for two table entries with the same translated program (`sig_X IF51` and
`sig_X I51` for any formula `X`), limb inputs inside the respective type invariants that represent the same field elements give limb
outputs that represent the same field elements (neither execution panics). -/
theorem fiat51_serial51_agree_on_formulas (sF s51 : Sig) (hF : sF ∈ sigs IF51) (h51 : s51 ∈ sigs I51) (hP : sF.F = s51.F)
    (insF ins51 : List (List Nat))
    (hinF : EnvsIn insF sF.pre) (hin51 : EnvsIn ins51 s51.pre) (hval : insF.map v51 = ins51.map v51) :
    (sF.F.run (limbOpsW BF51) insF).map v51 = (s51.F.run (limbOpsW B51) ins51).map v51 := by
  have rF := (all_formulas_refine_fiat51 sF hF insF hinF).2.2.2
  have r51 := (Refinement.all_formulas_refine51 s51 h51 ins51 hin51).2.2.2
  rw [rF, r51, hval, hP]

/-- the hypothesis `sF.F = s51.F` is satisfiable: same formula, two invariant tables -/
example : (sig_Edwards_add IF51).F = (sig_Edwards_add I51).F ∧ (sig_Field_invert IF51).F = (sig_Field_invert I51).F := ⟨rfl, rfl⟩

theorem Edwards_add_refOkF51 : Sig.refOk BF51 CF51 (sig_Edwards_add IF51) = true := by decide +kernel

/-- **fiat u64**: limb-level `&EdwardsPoint + &EdwardsPoint` on tight representatives of `P` and `Q` returns, without panic and
identically in release builds, tight limbs representing `P + Q`. -/
theorem limb_add_refines_fiat51 {P Q : Ed} (x1 y1 z1 t1 x2 y2 z2 t2 : List Nat)
    (hin : EnvsIn [x1, y1, z1, t1, x2, y2, z2, t2] (EdwardsPoint IF51 ++ EdwardsPoint IF51))
    (hP : RepExt P (v51 x1) (v51 y1) (v51 z1) (v51 t1)) (hQ : RepExt Q (v51 x2) (v51 y2) (v51 z2) (v51 t2)) :
    ∃ X Y Z T, AlgEdwards.add.run (limbOpsW BF51) [x1, y1, z1, t1, x2, y2, z2, t2] = [X, Y, Z, T] ∧
      AlgEdwards.add.run (limbOps BF51) ([x1, y1, z1, t1, x2, y2, z2, t2].map some) = [some X, some Y, some Z, some T] ∧
      EnvsIn [X, Y, Z, T] (EdwardsPoint IF51) ∧ RepExt (P + Q) (v51 X) (v51 Y) (v51 Z) (v51 T) := by
  have h : Refines BF51 v51 AlgEdwards.add (EdwardsPoint IF51 ++ EdwardsPoint IF51) (EdwardsPoint IF51) :=
    Sig.refines_of_ok specF51 Edwards_add_refOkF51
  exact Refinement.limb_add_refines (B := BF51) h x1 y1 z1 t1 x2 y2 z2 t2 hin hP hQ


/-! ## fiat u32 -/

/-- fiat u32: every translated formula refines its field-level meaning, from the single invariant "tight" -/
theorem all_formulas_refine_fiat26 : ∀ s ∈ sigs IF26, Refines BF26 v26 s.F s.pre s.post := by
  intro s hs
  have h := List.all_eq_true.mp all_refOkF26 s hs
  exact Sig.refines_of_ok specF26 h

/-- **C05 at formula level, fiat u64 vs fiat u32**: same translated program, tight limb inputs representing the same field elements:
the outputs represent the same field elements (neither execution panics). -/
theorem fiat51_fiat26_agree_on_formulas (s51 s26 : Sig) (h51 : s51 ∈ sigs IF51) (h26 : s26 ∈ sigs IF26) (hP : s51.F = s26.F)
    (ins51 ins26 : List (List Nat))
    (hin51 : EnvsIn ins51 s51.pre) (hin26 : EnvsIn ins26 s26.pre) (hval : ins51.map v51 = ins26.map v26) :
    (s51.F.run (limbOpsW BF51) ins51).map v51 = (s26.F.run (limbOpsW BF26) ins26).map v26 := by
  have r51 := (all_formulas_refine_fiat51 s51 h51 ins51 hin51).2.2.2
  have r26 := (all_formulas_refine_fiat26 s26 h26 ins26 hin26).2.2.2
  rw [r51, r26, hval, hP]

/-- the hypothesis is satisfiable -/
example : (sig_Edwards_add IF51).F = (sig_Edwards_add IF26).F ∧ (sig_Field_sqrt_ratio_i IF51).F = (sig_Field_sqrt_ratio_i IF26).F := ⟨rfl, rfl⟩

theorem Edwards_add_refOkF26 : Sig.refOk BF26 CF26 (sig_Edwards_add IF26) = true := by decide +kernel

/-- **fiat u32**: limb-level `&EdwardsPoint + &EdwardsPoint` on tight representatives of `P` and `Q` -/
theorem limb_add_refines_fiat26 {P Q : Ed} (x1 y1 z1 t1 x2 y2 z2 t2 : List Nat)
    (hin : EnvsIn [x1, y1, z1, t1, x2, y2, z2, t2] (EdwardsPoint IF26 ++ EdwardsPoint IF26))
    (hP : RepExt P (v26 x1) (v26 y1) (v26 z1) (v26 t1)) (hQ : RepExt Q (v26 x2) (v26 y2) (v26 z2) (v26 t2)) :
    ∃ X Y Z T, AlgEdwards.add.run (limbOpsW BF26) [x1, y1, z1, t1, x2, y2, z2, t2] = [X, Y, Z, T] ∧
      AlgEdwards.add.run (limbOps BF26) ([x1, y1, z1, t1, x2, y2, z2, t2].map some) = [some X, some Y, some Z, some T] ∧
      EnvsIn [X, Y, Z, T] (EdwardsPoint IF26) ∧ RepExt (P + Q) (v26 X) (v26 Y) (v26 Z) (v26 T) := by
  have h : Refines BF26 v26 AlgEdwards.add (EdwardsPoint IF26 ++ EdwardsPoint IF26) (EdwardsPoint IF26) :=
    Sig.refines_of_ok specF26 Edwards_add_refOkF26
  exact Refinement.limb_add_refines (B := BF26) h x1 y1 z1 t1 x2 y2 z2 t2 hin hP hQ

/-- non-vacuity: the table is not empty and the basepoint's tight limbs satisfy the `EdwardsPoint` invariant -/
example : 0 < (sigs IF51).length := by decide

end Dalek.Props.C05.RefinementFiat

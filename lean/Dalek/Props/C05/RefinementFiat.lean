import Dalek.Proofs.AlgRefineFiat51
import Dalek.Proofs.AlgRefineFiat26
import Dalek.Proofs.AlgRefineOk
import Dalek.Props.C05.Refinement
/-!
# C05 / C03 / C11 — the fiat u64 and fiat u32 backends refine every translated field-level formula

`all_formulas_refine_fiat51`: for EVERY translated formula of `field.rs` (`invert`, `pow22501`, `pow_p58`, `sqrt_ratio_i`, `invsqrt`),
`curve_models`, `edwards.rs`, `montgomery.rs`, `ristretto.rs` (the table `Dalek.Props.C11.Formulas.sigs`, instantiated with ONE type
invariant: fiat's tight bound), the execution on the TRANSLATED fiat u64 wrapper kernels — `Dalek.Gen.FiatField51.*`, fiat-crypto
functions inlined — does not panic in a checked build, equals the release execution, returns tight limbs, and its values in `ZMod p`
are the formula's field-level meaning.  With the C03/C06/C07 theorems about that meaning: point addition, doubling, decompression,
compression, the ladder step, Elligator, … are correct on this backend for all tight inputs.
`fiat51_serial51_agree_on_formulas`: C05 at formula level between the fiat u64 and the serial u64 backend.
-/
namespace Dalek.Props.C05.RefinementFiat
open Dalek.IR Dalek.Gen Dalek.Model.AlgBounds Dalek.Proofs Dalek.Proofs.AlgRefine Dalek.Proofs.AlgBoundsSound
open Dalek.Props.C11.Formulas
open Dalek.Edwards
open Dalek.Bridge (Ed)

/-- fiat u64: every translated formula refines its field-level meaning, from the single invariant "tight" -/
theorem all_formulas_refine_fiat51 : ∀ s ∈ sigs IF51, Refines BF51 v51 s.F s.pre s.post := by
  intro s hs
  have h := List.all_eq_true.mp all_refOkF51 s hs
  exact Sig.refines_of_ok specF51 h

/-- **C05 at formula level, fiat u64 vs serial u64**: for two table entries with the same translated program (`sig_X IF51` and
`sig_X I51` for any formula `X`), limb inputs inside the respective type invariants that represent the same field elements give limb
outputs that represent the same field elements (neither execution panics). -/
theorem fiat51_serial51_agree_on_formulas (sF s51 : Sig) (hF : sF ∈ sigs IF51) (h51 : s51 ∈ sigs I51) (hP : sF.F = s51.F)
    (insF ins51 : List (List Nat))
    (hinF : EnvsIn insF sF.pre) (hin51 : EnvsIn ins51 s51.pre) (hval : insF.map v51 = ins51.map v51) :
    (sF.F.run (limbOpsW BF51) insF).map v51 = (s51.F.run (limbOpsW B51) ins51).map v51 := by
  have rF := (all_formulas_refine_fiat51 sF hF insF hinF).2.2.2
  have r51 := (Refinement.all_formulas_refine51 s51 h51 ins51 hin51).2.2.2
  rw [rF, r51, hval, hP]

/-- the hypothesis `sF.F = s51.F` is satisfiable: same formula, two invariant tables -/
example : (sig_Edwards_add IF51).F = (sig_Edwards_add I51).F ∧ (sig_Field_invert IF51).F = (sig_Field_invert I51).F := ⟨rfl, rfl⟩

theorem Edwards_add_refOkF51 : Sig.refOk BF51 CF51 (sig_Edwards_add IF51) = true := by decide +kernel

/-- **fiat u64**: limb-level `&EdwardsPoint + &EdwardsPoint` on tight representatives of `P` and `Q` returns, without panic and
identically in release builds, tight limbs representing `P + Q`. -/
theorem limb_add_refines_fiat51 {P Q : Ed} (x1 y1 z1 t1 x2 y2 z2 t2 : List Nat)
    (hin : EnvsIn [x1, y1, z1, t1, x2, y2, z2, t2] (EdwardsPoint IF51 ++ EdwardsPoint IF51))
    (hP : RepExt P (v51 x1) (v51 y1) (v51 z1) (v51 t1)) (hQ : RepExt Q (v51 x2) (v51 y2) (v51 z2) (v51 t2)) :
    ∃ X Y Z T, AlgEdwards.add.run (limbOpsW BF51) [x1, y1, z1, t1, x2, y2, z2, t2] = [X, Y, Z, T] ∧
      AlgEdwards.add.run (limbOps BF51) ([x1, y1, z1, t1, x2, y2, z2, t2].map some) = [some X, some Y, some Z, some T] ∧
      EnvsIn [X, Y, Z, T] (EdwardsPoint IF51) ∧ RepExt (P + Q) (v51 X) (v51 Y) (v51 Z) (v51 T) := by
  have h : Refines BF51 v51 AlgEdwards.add (EdwardsPoint IF51 ++ EdwardsPoint IF51) (EdwardsPoint IF51) :=
    Sig.refines_of_ok specF51 Edwards_add_refOkF51
  exact Refinement.limb_add_refines (B := BF51) h x1 y1 z1 t1 x2 y2 z2 t2 hin hP hQ



/-! ## decompression on the fiat u64 backend: bytes → limbs → point, against the specification -/

theorem Edwards_decompress_step_1_refOkF51 : Sig.refOk BF51 CF51 (sig_Edwards_decompress_step_1 IF51) = true := by decide +kernel
theorem Edwards_decompress_step_2_refOkF51 : Sig.refOk BF51 CF51 (sig_Edwards_decompress_step_2 IF51) = true := by decide +kernel

/-- **fiat u64: limb-level decompression agrees with the specification.**  For any 32 bytes `b`: the fiat `from_bytes` wrapper does not
panic; the limb-level `decompress::step_1` on its result does not panic (checked = release) and its validity flag is `[0]` when
`Spec.decompress b = none`; when `Spec.decompress b = some p` the flag is `[1]` and the limb-level `step_2` returns tight limbs whose
values are `(x : y : 1 : x·y)` of the specification's point — a valid representative of it. -/
theorem limb_decompress_agrees_fiat51 (b : List UInt8) (hlen : b.length = 32) :
    ∃ yL okL rL yL' oneL,
      FiatField51.from_bytes.evalC (b.map UInt8.toNat) = some yL ∧ FiatField51.from_bytes.evalW (b.map UInt8.toNat) = yL ∧
      AlgEdwards.decompress_step_1.run (limbOpsW BF51) [yL] = [okL, rL, yL', oneL] ∧
      AlgEdwards.decompress_step_1.run (limbOps BF51) [some yL] = [some okL, some rL, some yL', some oneL] ∧
      (Spec.decompress b = none → okL = [0]) ∧
      (∀ p, Spec.decompress b = some p → okL = [1] ∧
        ∃ X Y Z T,
          AlgEdwards.decompress_step_2.run (limbOpsW BF51) [rL, yL', oneL, [if Spec.signBit b then 1 else 0]]
            = [X, Y, Z, T] ∧
          AlgEdwards.decompress_step_2.run (limbOps BF51)
            [some rL, some yL', some oneL, some [if Spec.signBit b then 1 else 0]] = [some X, some Y, some Z, some T] ∧
          EnvsIn [X, Y, Z, T] (EdwardsPoint IF51) ∧
          v51 X = (p.x : Fp) ∧ v51 Y = (p.y : Fp) ∧ v51 Z = 1 ∧ v51 T = (p.x : Fp) * (p.y : Fp) ∧
          ∃ h : Spec.onCurve p = true, RepExt (Dalek.Bridge.toEd p h) (v51 X) (v51 Y) (v51 Z) (v51 T)) := by
  obtain ⟨yL, hC, hW, hb, _, hv⟩ := Dalek.Props.C01.FiatBytes51.from_bytes_spec' b hlen
  have hy : EnvIn yL IF51.fe := hb
  have hval : v51 yL = ((Spec.feFromBytes b : Nat) : Fp) := by
    unfold v51; exact natCast_eq_of_mod (by rw [← hv]; exact (Nat.mod_mod _ _).symm)
  have h1 : Refines BF51 v51 AlgEdwards.decompress_step_1 [IF51.fe] [inv_choice, IF51.fe, IF51.fe, IF51.fe] :=
    Sig.refines_of_ok specF51 Edwards_decompress_step_1_refOkF51
  have h2 : Refines BF51 v51 AlgEdwards.decompress_step_2 [IF51.fe, IF51.fe, IF51.fe, inv_choice]
      [IF51.fe, IF51.fe, IF51.fe, IF51.fe] := Sig.refines_of_ok specF51 Edwards_decompress_step_2_refOkF51
  obtain ⟨okL, rL, yL', oneL, r⟩ := Refinement.limb_decompress_agrees (B := BF51) specF51.choice h1 h2 b yL hy hval
  exact ⟨yL, okL, rL, yL', oneL, hC, hW, r⟩

/-! ## fiat u32 -/

/-- fiat u32: every translated formula refines its field-level meaning, from the single invariant "tight" -/
theorem all_formulas_refine_fiat26 : ∀ s ∈ sigs IF26, Refines BF26 v26 s.F s.pre s.post := by
  intro s hs
  have h := List.all_eq_true.mp all_refOkF26 s hs
  exact Sig.refines_of_ok specF26 h

/-- **C05 at formula level, fiat u64 vs fiat u32**: same translated program, tight limb inputs representing the same field elements:
the outputs represent the same field elements (neither execution panics). -/
theorem fiat51_fiat26_agree_on_formulas (s51 s26 : Sig) (h51 : s51 ∈ sigs IF51) (h26 : s26 ∈ sigs IF26) (hP : s51.F = s26.F)
    (ins51 ins26 : List (List Nat))
    (hin51 : EnvsIn ins51 s51.pre) (hin26 : EnvsIn ins26 s26.pre) (hval : ins51.map v51 = ins26.map v26) :
    (s51.F.run (limbOpsW BF51) ins51).map v51 = (s26.F.run (limbOpsW BF26) ins26).map v26 := by
  have r51 := (all_formulas_refine_fiat51 s51 h51 ins51 hin51).2.2.2
  have r26 := (all_formulas_refine_fiat26 s26 h26 ins26 hin26).2.2.2
  rw [r51, r26, hval, hP]

/-- the hypothesis is satisfiable -/
example : (sig_Edwards_add IF51).F = (sig_Edwards_add IF26).F ∧ (sig_Field_sqrt_ratio_i IF51).F = (sig_Field_sqrt_ratio_i IF26).F := ⟨rfl, rfl⟩

theorem Edwards_add_refOkF26 : Sig.refOk BF26 CF26 (sig_Edwards_add IF26) = true := by decide +kernel

/-- **fiat u32**: limb-level `&EdwardsPoint + &EdwardsPoint` on tight representatives of `P` and `Q` -/
theorem limb_add_refines_fiat26 {P Q : Ed} (x1 y1 z1 t1 x2 y2 z2 t2 : List Nat)
    (hin : EnvsIn [x1, y1, z1, t1, x2, y2, z2, t2] (EdwardsPoint IF26 ++ EdwardsPoint IF26))
    (hP : RepExt P (v26 x1) (v26 y1) (v26 z1) (v26 t1)) (hQ : RepExt Q (v26 x2) (v26 y2) (v26 z2) (v26 t2)) :
    ∃ X Y Z T, AlgEdwards.add.run (limbOpsW BF26) [x1, y1, z1, t1, x2, y2, z2, t2] = [X, Y, Z, T] ∧
      AlgEdwards.add.run (limbOps BF26) ([x1, y1, z1, t1, x2, y2, z2, t2].map some) = [some X, some Y, some Z, some T] ∧
      EnvsIn [X, Y, Z, T] (EdwardsPoint IF26) ∧ RepExt (P + Q) (v26 X) (v26 Y) (v26 Z) (v26 T) := by
  have h : Refines BF26 v26 AlgEdwards.add (EdwardsPoint IF26 ++ EdwardsPoint IF26) (EdwardsPoint IF26) :=
    Sig.refines_of_ok specF26 Edwards_add_refOkF26
  exact Refinement.limb_add_refines (B := BF26) h x1 y1 z1 t1 x2 y2 z2 t2 hin hP hQ

/-! ## decompression on the fiat u32 backend -/

theorem Edwards_decompress_step_1_refOkF26 : Sig.refOk BF26 CF26 (sig_Edwards_decompress_step_1 IF26) = true := by decide +kernel
theorem Edwards_decompress_step_2_refOkF26 : Sig.refOk BF26 CF26 (sig_Edwards_decompress_step_2 IF26) = true := by decide +kernel

/-- **fiat u32: limb-level decompression agrees with the specification.**  For any 32 bytes `b`: the fiat `from_bytes` wrapper does not
panic; the limb-level `decompress::step_1` on its result does not panic (checked = release) and its validity flag is `[0]` when
`Spec.decompress b = none`; when `Spec.decompress b = some p` the flag is `[1]` and the limb-level `step_2` returns tight limbs whose
values are `(x : y : 1 : x·y)` of the specification's point — a valid representative of it. -/
theorem limb_decompress_agrees_fiat26 (b : List UInt8) (hlen : b.length = 32) :
    ∃ yL okL rL yL' oneL,
      FiatField26.from_bytes.evalC (b.map UInt8.toNat) = some yL ∧ FiatField26.from_bytes.evalW (b.map UInt8.toNat) = yL ∧
      AlgEdwards.decompress_step_1.run (limbOpsW BF26) [yL] = [okL, rL, yL', oneL] ∧
      AlgEdwards.decompress_step_1.run (limbOps BF26) [some yL] = [some okL, some rL, some yL', some oneL] ∧
      (Spec.decompress b = none → okL = [0]) ∧
      (∀ p, Spec.decompress b = some p → okL = [1] ∧
        ∃ X Y Z T,
          AlgEdwards.decompress_step_2.run (limbOpsW BF26) [rL, yL', oneL, [if Spec.signBit b then 1 else 0]]
            = [X, Y, Z, T] ∧
          AlgEdwards.decompress_step_2.run (limbOps BF26)
            [some rL, some yL', some oneL, some [if Spec.signBit b then 1 else 0]] = [some X, some Y, some Z, some T] ∧
          EnvsIn [X, Y, Z, T] (EdwardsPoint IF26) ∧
          v26 X = (p.x : Fp) ∧ v26 Y = (p.y : Fp) ∧ v26 Z = 1 ∧ v26 T = (p.x : Fp) * (p.y : Fp) ∧
          ∃ h : Spec.onCurve p = true, RepExt (Dalek.Bridge.toEd p h) (v26 X) (v26 Y) (v26 Z) (v26 T)) := by
  obtain ⟨yL, hC, hW, hb, _, hv⟩ := Dalek.Props.C01.FiatBytes26.from_bytes_spec' b hlen
  have hy : EnvIn yL IF26.fe := hb
  have hval : v26 yL = ((Spec.feFromBytes b : Nat) : Fp) := by
    unfold v26; exact natCast_eq_of_mod (by rw [← hv]; exact (Nat.mod_mod _ _).symm)
  have h1 : Refines BF26 v26 AlgEdwards.decompress_step_1 [IF26.fe] [inv_choice, IF26.fe, IF26.fe, IF26.fe] :=
    Sig.refines_of_ok specF26 Edwards_decompress_step_1_refOkF26
  have h2 : Refines BF26 v26 AlgEdwards.decompress_step_2 [IF26.fe, IF26.fe, IF26.fe, inv_choice]
      [IF26.fe, IF26.fe, IF26.fe, IF26.fe] := Sig.refines_of_ok specF26 Edwards_decompress_step_2_refOkF26
  obtain ⟨okL, rL, yL', oneL, r⟩ := Refinement.limb_decompress_agrees (B := BF26) specF26.choice h1 h2 b yL hy hval
  exact ⟨yL, okL, rL, yL', oneL, hC, hW, r⟩

/-- non-vacuity: the table is not empty and the basepoint's tight limbs satisfy the `EdwardsPoint` invariant -/
example : 0 < (sigs IF51).length := by decide

end Dalek.Props.C05.RefinementFiat

import Dalek.Props.C01.Field51
import Dalek.Props.C01.Field26
/-!
# C05 — the word size of the field backend is unobservable (property theorems, kernel level)

Corollaries of the C01 refinement theorems: the 64-bit (5×51-bit limbs) and 32-bit (10×25.5-bit limbs) serial
kernels, both REGENERATED from their Rust sources, are refinements of the SAME abstract operation on `ZMod p`.
Whenever the two backends hold representations of the same field values (inside their bound contracts), the
results of `mul`, `add`, `sub`, `neg` and `square` again represent the same field value in both — so any
observation that factors through the field value (canonical bytes, equality, sign) cannot distinguish them.
-/
namespace Dalek.Props.C05.Backends
open Dalek.IR Dalek.Model.Contracts
open Dalek.Props.C01

section
variable (a0 a1 a2 a3 a4 b0 b1 b2 b3 b4 : Nat)
variable (c0 c1 c2 c3 c4 c5 c6 c7 c8 c9 d0 d1 d2 d3 d4 d5 d6 d7 d8 d9 : Nat)

theorem mul_agrees
    (h51 : EnvIn [a0, a1, a2, a3, a4, b0, b1, b2, b3, b4] Field51.pre_mul)
    (h26 : EnvIn [c0, c1, c2, c3, c4, c5, c6, c7, c8, c9, d0, d1, d2, d3, d4, d5, d6, d7, d8, d9] Field26.pre_mul)
    (ha : Field51.val51 [a0, a1, a2, a3, a4] = Field26.val26 [c0, c1, c2, c3, c4, c5, c6, c7, c8, c9])
    (hb : Field51.val51 [b0, b1, b2, b3, b4] = Field26.val26 [d0, d1, d2, d3, d4, d5, d6, d7, d8, d9]) :
    ∃ o51 o26,
      Dalek.Gen.Field51.mul.evalW [a0, a1, a2, a3, a4, b0, b1, b2, b3, b4] = o51 ∧
      Dalek.Gen.Field26.mul.evalW [c0, c1, c2, c3, c4, c5, c6, c7, c8, c9, d0, d1, d2, d3, d4, d5, d6, d7, d8, d9] = o26 ∧
      Field51.val51 o51 = Field26.val26 o26 := by
  obtain ⟨o51, _, hW51, _, hv51⟩ := Field51.mul_spec a0 a1 a2 a3 a4 b0 b1 b2 b3 b4 h51
  obtain ⟨o26, _, hW26, _, hv26⟩ := Field26.mul_spec c0 c1 c2 c3 c4 c5 c6 c7 c8 c9 d0 d1 d2 d3 d4 d5 d6 d7 d8 d9 h26
  exact ⟨o51, o26, hW51, hW26, by rw [hv51, hv26, ha, hb]⟩

theorem add_agrees
    (h51 : EnvIn [a0, a1, a2, a3, a4, b0, b1, b2, b3, b4] Field51.pre_add)
    (h26 : EnvIn [c0, c1, c2, c3, c4, c5, c6, c7, c8, c9, d0, d1, d2, d3, d4, d5, d6, d7, d8, d9] Field26.pre_add)
    (ha : Field51.val51 [a0, a1, a2, a3, a4] = Field26.val26 [c0, c1, c2, c3, c4, c5, c6, c7, c8, c9])
    (hb : Field51.val51 [b0, b1, b2, b3, b4] = Field26.val26 [d0, d1, d2, d3, d4, d5, d6, d7, d8, d9]) :
    ∃ o51 o26,
      Dalek.Gen.Field51.add.evalW [a0, a1, a2, a3, a4, b0, b1, b2, b3, b4] = o51 ∧
      Dalek.Gen.Field26.add.evalW [c0, c1, c2, c3, c4, c5, c6, c7, c8, c9, d0, d1, d2, d3, d4, d5, d6, d7, d8, d9] = o26 ∧
      Field51.val51 o51 = Field26.val26 o26 := by
  obtain ⟨o51, _, hW51, _, hv51⟩ := Field51.add_spec a0 a1 a2 a3 a4 b0 b1 b2 b3 b4 h51
  obtain ⟨o26, _, hW26, _, hv26⟩ := Field26.add_spec c0 c1 c2 c3 c4 c5 c6 c7 c8 c9 d0 d1 d2 d3 d4 d5 d6 d7 d8 d9 h26
  exact ⟨o51, o26, hW51, hW26, by rw [hv51, hv26, ha, hb]⟩

theorem sub_agrees
    (h51 : EnvIn [a0, a1, a2, a3, a4, b0, b1, b2, b3, b4] Field51.pre_sub)
    (h26 : EnvIn [c0, c1, c2, c3, c4, c5, c6, c7, c8, c9, d0, d1, d2, d3, d4, d5, d6, d7, d8, d9] Field26.pre_sub)
    (ha : Field51.val51 [a0, a1, a2, a3, a4] = Field26.val26 [c0, c1, c2, c3, c4, c5, c6, c7, c8, c9])
    (hb : Field51.val51 [b0, b1, b2, b3, b4] = Field26.val26 [d0, d1, d2, d3, d4, d5, d6, d7, d8, d9]) :
    ∃ o51 o26,
      Dalek.Gen.Field51.sub.evalW [a0, a1, a2, a3, a4, b0, b1, b2, b3, b4] = o51 ∧
      Dalek.Gen.Field26.sub.evalW [c0, c1, c2, c3, c4, c5, c6, c7, c8, c9, d0, d1, d2, d3, d4, d5, d6, d7, d8, d9] = o26 ∧
      Field51.val51 o51 = Field26.val26 o26 := by
  obtain ⟨o51, _, hW51, _, hv51⟩ := Field51.sub_spec a0 a1 a2 a3 a4 b0 b1 b2 b3 b4 h51
  obtain ⟨o26, _, hW26, _, hv26⟩ := Field26.sub_spec c0 c1 c2 c3 c4 c5 c6 c7 c8 c9 d0 d1 d2 d3 d4 d5 d6 d7 d8 d9 h26
  exact ⟨o51, o26, hW51, hW26, by rw [hv51, hv26, ha, hb]⟩

theorem neg_agrees
    (h51 : EnvIn [a0, a1, a2, a3, a4] Field51.pre_neg)
    (h26 : EnvIn [c0, c1, c2, c3, c4, c5, c6, c7, c8, c9] Field26.pre_neg)
    (ha : Field51.val51 [a0, a1, a2, a3, a4] = Field26.val26 [c0, c1, c2, c3, c4, c5, c6, c7, c8, c9]) :
    ∃ o51 o26,
      Dalek.Gen.Field51.neg.evalW [a0, a1, a2, a3, a4] = o51 ∧
      Dalek.Gen.Field26.neg.evalW [c0, c1, c2, c3, c4, c5, c6, c7, c8, c9] = o26 ∧
      Field51.val51 o51 = Field26.val26 o26 := by
  obtain ⟨o51, _, hW51, _, hv51⟩ := Field51.neg_spec a0 a1 a2 a3 a4 h51
  obtain ⟨o26, _, hW26, _, hv26⟩ := Field26.neg_spec c0 c1 c2 c3 c4 c5 c6 c7 c8 c9 h26
  exact ⟨o51, o26, hW51, hW26, by rw [hv51, hv26, ha]⟩

theorem square_agrees
    (h51 : EnvIn [a0, a1, a2, a3, a4] Field51.pre_pow2k_body)
    (h26 : EnvIn [c0, c1, c2, c3, c4, c5, c6, c7, c8, c9] Field26.pre_square)
    (ha : Field51.val51 [a0, a1, a2, a3, a4] = Field26.val26 [c0, c1, c2, c3, c4, c5, c6, c7, c8, c9]) :
    ∃ o51 o26,
      Dalek.Gen.Field51.pow2k_body.evalW [a0, a1, a2, a3, a4] = o51 ∧
      Dalek.Gen.Field26.square.evalW [c0, c1, c2, c3, c4, c5, c6, c7, c8, c9] = o26 ∧
      Field51.val51 o51 = Field26.val26 o26 := by
  obtain ⟨o51, _, hW51, _, hv51⟩ := Field51.pow2k_body_spec a0 a1 a2 a3 a4 h51
  obtain ⟨o26, _, hW26, _, hv26⟩ := Field26.square_spec c0 c1 c2 c3 c4 c5 c6 c7 c8 c9 h26
  exact ⟨o51, o26, hW51, hW26, by rw [hv51, hv26, ha]⟩

end
end Dalek.Props.C05.Backends

import Dalek.Proofs.AlgRefineOk
import Dalek.Props.C03.Formulas
/-!
# C05 / C01+C11+C03 capstone — the limb-level execution of every translated formula refines its field-level meaning

The group formulas, the ladder step, the encoders / decoders and the exponent chains are translated ONCE from the
Rust source into AlgIR programs (`Dalek.Gen.Alg*`).  They are given meaning

* at the LIMB level by `limbOps B` (debug build: checked arithmetic, `none` = panic) and `limbOpsW B` (release
  build), every field operation being the regenerated limb kernel of the backend `B` (`B51`: serial u64, `B26`:
  serial u32);
* at the FIELD level by `zmodOps` over `ZMod p`, the interpretation all algebraic theorems (C03, C06, C07) are about.

`all_formulas_refine51/26` (`Dalek.Proofs.AlgRefine.Refines`): for EVERY translated formula of the table
`Dalek.Props.C11.Formulas.sigs` (all 51 items) and ALL limb inputs inside the type invariants of C11: no statement
panics in the debug build, debug = release, the outputs are inside the type invariants, and the VALUES of the output
limbs (`v51` / `v26`; a choice `[c]` has the value `c`) are exactly the outputs of the `zmodOps` run on the values of
the input limbs.  Proof: `AProg.run_rel` with the operation-wise three-way relation `specOps_rel`, whose cases are
the kernel value theorems of C01 (`mul_spec`, `sub_spec`, `add_spec`, `neg_spec`, `pow2k_spec`, `square2…`,
`as_bytes_canonical`) and the constant table.

NOTE on the hypothesis.  The C01 value theorems hold inside the DOCUMENTED CONTRACT of each kernel (they go through
the normal form the analyser computes at the contract vector), so the abstract interpretation used here is the
"contracts compose" one (`specOps`: operands inside the contract ⇒ fixed post-condition of the contract), not the
per-call analysis `boundOps` of C11; every formula passes it with the same type invariants (`*_refOk51/26`, cheap
`decide +kernel`).  The u32 `add` needed a wider contract than the registered one (`add26_wide_spec`).

Corollaries: `backends_agree_on_formulas` (C05 at formula level: the u64 and u32 executions of any formula yield
equal field values, hence — `backends_agree_on_bytes` — equal canonical encodings); `limb_add_refines51/26`
(limb-level `EdwardsPoint + EdwardsPoint` on representatives of `P`, `Q` returns a representative of `P + Q`);
`limb_decompress_agrees51` (limb-level decompression agrees with `Spec.decompress`).
-/
namespace Dalek.Props.C05.Refinement
open Dalek.IR Dalek.Gen Dalek.Model.AlgBounds Dalek.Proofs Dalek.Proofs.AlgRefine Dalek.Proofs.AlgBoundsSound
open Dalek.Props.C11.Formulas
open Dalek.Edwards
open Dalek.Bridge (Ed)

/-! ## every formula refines its field-level meaning -/

/-- serial u64: every translated formula, from the C11 type invariants -/
theorem all_formulas_refine51 : ∀ s ∈ sigs I51, Refines B51 v51 s.F s.pre s.post :=
  fun s hs => Sig.refines_of_ok spec51 (all_refOk51 s hs)

/-- serial u32: every translated formula, from the C11 type invariants -/
theorem all_formulas_refine26 : ∀ s ∈ sigs I26, Refines B26 v26 s.F s.pre s.post :=
  fun s hs => Sig.refines_of_ok spec26 (all_refOk26 s hs)

/-- what it says, unfolded, for one formula (the Montgomery ladder step, serial u32) -/
example (ins : List (List Nat)) (h : EnvsIn ins (LadderStep I26)) :
    arunBody limbOps26 AlgMontgomery.differential_add_and_double.body (ins.map some) =
      (arunBody limbOpsW26 AlgMontgomery.differential_add_and_double.body ins).map some ∧
    AlgMontgomery.differential_add_and_double.run limbOps26 (ins.map some) =
      (AlgMontgomery.differential_add_and_double.run limbOpsW26 ins).map some ∧
    EnvsIn (AlgMontgomery.differential_add_and_double.run limbOpsW26 ins) [I26.fe, I26.fe, I26.fe, I26.fe] ∧
    (AlgMontgomery.differential_add_and_double.run limbOpsW26 ins).map v26 =
      AlgMontgomery.differential_add_and_double.run zmodOps (ins.map v26) :=
  Sig.refines_of_ok spec26 Montgomery_differential_add_and_double_refOk26 ins h

/-! ## (a) the two serial backends agree on every formula -/

/-- **C05 at formula level.**  For every translated formula (entry `i` of the table): if the u64 limb inputs and
the u32 limb inputs are inside their type invariants and represent the same field elements, then the u64 and the
u32 limb executions (neither of which panics) return limbs representing the SAME field elements (and equal
choices). -/
theorem backends_agree_on_formulas (i : Nat) (s51 s26 : Sig) (h51 : (sigs I51)[i]? = some s51)
    (h26 : (sigs I26)[i]? = some s26) (ins51 ins26 : List (List Nat))
    (hin51 : EnvsIn ins51 s51.pre) (hin26 : EnvsIn ins26 s26.pre) (hval : ins51.map v51 = ins26.map v26) :
    s51.F = s26.F ∧ (s51.F.run limbOpsW51 ins51).map v51 = (s26.F.run limbOpsW26 ins26).map v26 := by
  have hF : s51.F = s26.F := by
    have := congrArg (fun l => l[i]?) sigs_same_programs
    simp only [List.getElem?_map, h51, h26, Option.map_some, Option.some.injEq] at this
    exact this
  refine ⟨hF, ?_⟩
  obtain ⟨_, _, _, r51⟩ := all_formulas_refine51 s51 (List.mem_of_getElem? h51) ins51 hin51
  obtain ⟨_, _, _, r26⟩ := all_formulas_refine26 s26 (List.mem_of_getElem? h26) ins26 hin26
  show (s51.F.run (limbOpsW B51) ins51).map v51 = (s26.F.run (limbOpsW B26) ins26).map v26
  rw [r51, r26, hval, hF]

/-- … hence equal canonical bytes: limb vectors of the two backends (inside the `as_bytes` contracts) that
represent the same field element encode to the same 32 bytes, in both builds -/
theorem backends_agree_on_bytes (l51 l26 : List Nat) (h51 : EnvIn l51 C51.preBytes) (h26 : EnvIn l26 C26.preBytes)
    (hv : v51 l51 = v26 l26) :
    Field51.as_bytes.evalW l51 = Field26.as_bytes.evalW l26 ∧
    Field51.as_bytes.evalC l51 = Field26.as_bytes.evalC l26 := by
  obtain ⟨a1, a2⟩ := spec51.bytes l51 h51
  obtain ⟨b1, b2⟩ := spec26.bytes l26 h26
  have a2' : Field51.as_bytes.evalW l51 = enc (v51 l51) := a2
  have b2' : Field26.as_bytes.evalW l26 = enc (v26 l26) := b2
  have a1' : Field51.as_bytes.evalC l51 = some (Field51.as_bytes.evalW l51) := a1
  have b1' : Field26.as_bytes.evalC l26 = some (Field26.as_bytes.evalW l26) := b1
  have e : Field51.as_bytes.evalW l51 = Field26.as_bytes.evalW l26 := by rw [a2', b2', hv]
  exact ⟨e, by rw [a1', b1', e]⟩

/-! ## (b) flagship statements: limb level ⇒ group level -/

/-- generic in the backend: limb-level `&EdwardsPoint + &EdwardsPoint` -/
theorem limb_add_refines {B : Backend} {val : List Nat → Fp} {pre post : List (List Itv)}
    (h : Refines B val AlgEdwards.add pre post) {P Q : Ed} (x1 y1 z1 t1 x2 y2 z2 t2 : List Nat)
    (hin : EnvsIn [x1, y1, z1, t1, x2, y2, z2, t2] pre)
    (hP : RepExt P (val x1) (val y1) (val z1) (val t1)) (hQ : RepExt Q (val x2) (val y2) (val z2) (val t2)) :
    ∃ X Y Z T, AlgEdwards.add.run (limbOpsW B) [x1, y1, z1, t1, x2, y2, z2, t2] = [X, Y, Z, T] ∧
      AlgEdwards.add.run (limbOps B) ([x1, y1, z1, t1, x2, y2, z2, t2].map some) = [some X, some Y, some Z, some T] ∧
      EnvsIn [X, Y, Z, T] post ∧ RepExt (P + Q) (val X) (val Y) (val Z) (val T) := by
  obtain ⟨_, hC, hpost, hv⟩ := h _ hin
  obtain ⟨X', Y', Z', T', hz, hrep⟩ := Dalek.Props.C03.add_spec hP hQ
  have hz' : AlgEdwards.add.run zmodOps ([x1, y1, z1, t1, x2, y2, z2, t2].map val) = [X', Y', Z', T'] := hz
  rw [hz'] at hv
  obtain ⟨X, Y, Z, T, hl, rfl, rfl, rfl, rfl⟩ := map_eq_four hv
  rw [hl] at hC hpost
  exact ⟨X, Y, Z, T, hl, hC, hpost, hrep⟩

/-- **serial u64**: for limb vectors inside the `EdwardsPoint` invariant whose values represent the points `P` and
`Q` (`RepExt`: on the curve, `Z ≠ 0`, `XY = ZT`), the limb-level addition — in the debug build, without panic, and
identically in the release build — returns limbs inside the invariant whose values represent `P + Q`. -/
theorem limb_add_refines51 {P Q : Ed} (x1 y1 z1 t1 x2 y2 z2 t2 : List Nat)
    (hin : EnvsIn [x1, y1, z1, t1, x2, y2, z2, t2] (EdwardsPoint I51 ++ EdwardsPoint I51))
    (hP : RepExt P (v51 x1) (v51 y1) (v51 z1) (v51 t1)) (hQ : RepExt Q (v51 x2) (v51 y2) (v51 z2) (v51 t2)) :
    ∃ X Y Z T, AlgEdwards.add.run limbOpsW51 [x1, y1, z1, t1, x2, y2, z2, t2] = [X, Y, Z, T] ∧
      AlgEdwards.add.run limbOps51 ([x1, y1, z1, t1, x2, y2, z2, t2].map some) = [some X, some Y, some Z, some T] ∧
      EnvsIn [X, Y, Z, T] (EdwardsPoint I51) ∧ RepExt (P + Q) (v51 X) (v51 Y) (v51 Z) (v51 T) := by
  have h : Refines B51 v51 AlgEdwards.add (EdwardsPoint I51 ++ EdwardsPoint I51) (EdwardsPoint I51) :=
    Sig.refines_of_ok spec51 Edwards_add_refOk51
  exact limb_add_refines (B := B51) h x1 y1 z1 t1 x2 y2 z2 t2 hin hP hQ

/-- **serial u32**: the same -/
theorem limb_add_refines26 {P Q : Ed} (x1 y1 z1 t1 x2 y2 z2 t2 : List Nat)
    (hin : EnvsIn [x1, y1, z1, t1, x2, y2, z2, t2] (EdwardsPoint I26 ++ EdwardsPoint I26))
    (hP : RepExt P (v26 x1) (v26 y1) (v26 z1) (v26 t1)) (hQ : RepExt Q (v26 x2) (v26 y2) (v26 z2) (v26 t2)) :
    ∃ X Y Z T, AlgEdwards.add.run limbOpsW26 [x1, y1, z1, t1, x2, y2, z2, t2] = [X, Y, Z, T] ∧
      AlgEdwards.add.run limbOps26 ([x1, y1, z1, t1, x2, y2, z2, t2].map some) = [some X, some Y, some Z, some T] ∧
      EnvsIn [X, Y, Z, T] (EdwardsPoint I26) ∧ RepExt (P + Q) (v26 X) (v26 Y) (v26 Z) (v26 T) := by
  have h : Refines B26 v26 AlgEdwards.add (EdwardsPoint I26 ++ EdwardsPoint I26) (EdwardsPoint I26) :=
    Sig.refines_of_ok spec26 Edwards_add_refOk26
  exact limb_add_refines (B := B26) h x1 y1 z1 t1 x2 y2 z2 t2 hin hP hQ

/-- generic in the backend: limb-level Edwards decompression (both translated steps) on a decoded `y` whose value
is `Spec.feFromBytes b` agrees with `Spec.decompress b` -/
theorem limb_decompress_agrees {B : Backend} {val : List Nat → Fp} {fe : List Itv}
    (hch : ∀ c : Nat, val [c] = (c : Fp))
    (h1 : Refines B val AlgEdwards.decompress_step_1 [fe] [inv_choice, fe, fe, fe])
    (h2 : Refines B val AlgEdwards.decompress_step_2 [fe, fe, fe, inv_choice] [fe, fe, fe, fe])
    (b : List UInt8) (yL : List Nat) (hy : EnvIn yL fe) (hv : val yL = ((Spec.feFromBytes b : Nat) : Fp)) :
    ∃ okL rL yL' oneL,
      AlgEdwards.decompress_step_1.run (limbOpsW B) [yL] = [okL, rL, yL', oneL] ∧
      AlgEdwards.decompress_step_1.run (limbOps B) [some yL] = [some okL, some rL, some yL', some oneL] ∧
      (Spec.decompress b = none → okL = [0]) ∧
      (∀ p, Spec.decompress b = some p → okL = [1] ∧
        ∃ X Y Z T,
          AlgEdwards.decompress_step_2.run (limbOpsW B) [rL, yL', oneL, [if Spec.signBit b then 1 else 0]]
            = [X, Y, Z, T] ∧
          AlgEdwards.decompress_step_2.run (limbOps B)
            [some rL, some yL', some oneL, some [if Spec.signBit b then 1 else 0]] = [some X, some Y, some Z, some T] ∧
          EnvsIn [X, Y, Z, T] [fe, fe, fe, fe] ∧
          val X = (p.x : Fp) ∧ val Y = (p.y : Fp) ∧ val Z = 1 ∧ val T = (p.x : Fp) * (p.y : Fp) ∧
          ∃ h : Spec.onCurve p = true, RepExt (Dalek.Bridge.toEd p h) (val X) (val Y) (val Z) (val T)) := by
  obtain ⟨ok, r, hz1, hnone, hsome⟩ := Dalek.Props.C03.decompress_eq_spec b
  obtain ⟨_, hC1, hpost1, hv1⟩ := h1 [yL] ⟨hy, trivial⟩
  have hv1' : (AlgEdwards.decompress_step_1.run (limbOpsW B) [yL]).map val =
      [ok, r, ((Spec.feFromBytes b : Nat) : Fp), 1] := by
    rw [hv1]; show AlgEdwards.decompress_step_1.run zmodOps [val yL] = _; rw [hv, hz1]
  obtain ⟨okL, rL, yL', oneL, hl, e1, e2, e3, e4⟩ := map_eq_four hv1'
  rw [hl] at hC1 hpost1
  obtain ⟨pok, pr, py, pone, _⟩ := hpost1
  obtain ⟨c0, c1⟩ := choice_limb hch pok
  refine ⟨okL, rL, yL', oneL, hl, hC1, fun hn => c0 (by rw [e1]; exact hnone hn), fun p hp => ?_⟩
  obtain ⟨hok, hz2, hon, hrep⟩ := hsome p hp
  refine ⟨c1 (by rw [e1]; exact hok), ?_⟩
  have hs : EnvIn [if Spec.signBit b then 1 else 0] inv_choice := by
    cases Spec.signBit b <;> exact EnvIn_choice (by decide)
  obtain ⟨_, hC2, hpost2, hv2⟩ := h2 [rL, yL', oneL, [if Spec.signBit b then 1 else 0]] ⟨pr, py, pone, hs, trivial⟩
  have hsv : val [if Spec.signBit b then 1 else 0] = c2f (Spec.signBit b = true) := by
    rw [hch]; cases Spec.signBit b <;> simp [c2f]
  have hv2' : (AlgEdwards.decompress_step_2.run (limbOpsW B)
      [rL, yL', oneL, [if Spec.signBit b then 1 else 0]]).map val =
      [(p.x : Fp), (p.y : Fp), 1, (p.x : Fp) * (p.y : Fp)] := by
    rw [hv2]
    show AlgEdwards.decompress_step_2.run zmodOps
      [val rL, val yL', val oneL, val [if Spec.signBit b then 1 else 0]] = _
    rw [e2, e3, e4, hsv, hz2]
  obtain ⟨X, Y, Z, T, hl2, f1, f2, f3, f4⟩ := map_eq_four hv2'
  rw [hl2] at hC2 hpost2
  refine ⟨X, Y, Z, T, hl2, hC2, hpost2, f1, f2, f3, f4, hon, ?_⟩
  rw [f1, f2, f3, f4]; exact hrep

/-- **serial u64: limb-level decompression agrees with the specification.**  For any 32 bytes `b`:
`from_bytes` does not panic; the limb-level `decompress::step_1` on its result does not panic (debug = release) and
its validity flag is the limb `[0]` when `Spec.decompress b = none`; when `Spec.decompress b = some p` the flag is
`[1]`, and the limb-level `step_2` (on the limbs returned by step 1 and the sign bit of `b`) does not panic and
returns limbs inside the `EdwardsPoint` invariant whose values are `(x : y : 1 : x·y)` of the specification's point
`p` — a valid representative of it. -/
theorem limb_decompress_agrees51 (b : List UInt8) (hlen : b.length = 32) :
    ∃ yL okL rL yL' oneL,
      Field51.from_bytes.evalC (b.map UInt8.toNat) = some yL ∧ Field51.from_bytes.evalW (b.map UInt8.toNat) = yL ∧
      AlgEdwards.decompress_step_1.run limbOpsW51 [yL] = [okL, rL, yL', oneL] ∧
      AlgEdwards.decompress_step_1.run limbOps51 [some yL] = [some okL, some rL, some yL', some oneL] ∧
      (Spec.decompress b = none → okL = [0]) ∧
      (∀ p, Spec.decompress b = some p → okL = [1] ∧
        ∃ X Y Z T,
          AlgEdwards.decompress_step_2.run limbOpsW51 [rL, yL', oneL, [if Spec.signBit b then 1 else 0]]
            = [X, Y, Z, T] ∧
          AlgEdwards.decompress_step_2.run limbOps51
            [some rL, some yL', some oneL, some [if Spec.signBit b then 1 else 0]] = [some X, some Y, some Z, some T] ∧
          EnvsIn [X, Y, Z, T] (EdwardsPoint I51) ∧
          v51 X = (p.x : Fp) ∧ v51 Y = (p.y : Fp) ∧ v51 Z = 1 ∧ v51 T = (p.x : Fp) * (p.y : Fp) ∧
          ∃ h : Spec.onCurve p = true, RepExt (Dalek.Bridge.toEd p h) (v51 X) (v51 Y) (v51 Z) (v51 T)) := by
  obtain ⟨yL, hC, hW, hb, _, hv⟩ := Dalek.Props.C01.Bytes51.from_bytes_spec' b hlen
  have hy : EnvIn yL I51.fe := EnvIn_of_itvsLe hb (by decide +kernel)
  have hval : v51 yL = ((Spec.feFromBytes b : Nat) : Fp) := by
    unfold v51; exact natCast_eq_of_mod (by rw [← hv]; exact (Nat.mod_mod _ _).symm)
  have h1 : Refines B51 v51 AlgEdwards.decompress_step_1 [I51.fe] [inv_choice, I51.fe, I51.fe, I51.fe] :=
    Sig.refines_of_ok spec51 Edwards_decompress_step_1_refOk51
  have h2 : Refines B51 v51 AlgEdwards.decompress_step_2 [I51.fe, I51.fe, I51.fe, inv_choice]
      [I51.fe, I51.fe, I51.fe, I51.fe] := Sig.refines_of_ok spec51 Edwards_decompress_step_2_refOk51
  obtain ⟨okL, rL, yL', oneL, r⟩ := limb_decompress_agrees (B := B51) spec51.choice h1 h2 b yL hy hval
  exact ⟨yL, okL, rL, yL', oneL, hC, hW, r⟩

/-- **serial u32**: the same -/
theorem limb_decompress_agrees26 (b : List UInt8) (hlen : b.length = 32) :
    ∃ yL okL rL yL' oneL,
      Field26.from_bytes.evalC (b.map UInt8.toNat) = some yL ∧ Field26.from_bytes.evalW (b.map UInt8.toNat) = yL ∧
      AlgEdwards.decompress_step_1.run limbOpsW26 [yL] = [okL, rL, yL', oneL] ∧
      AlgEdwards.decompress_step_1.run limbOps26 [some yL] = [some okL, some rL, some yL', some oneL] ∧
      (Spec.decompress b = none → okL = [0]) ∧
      (∀ p, Spec.decompress b = some p → okL = [1] ∧
        ∃ X Y Z T,
          AlgEdwards.decompress_step_2.run limbOpsW26 [rL, yL', oneL, [if Spec.signBit b then 1 else 0]]
            = [X, Y, Z, T] ∧
          AlgEdwards.decompress_step_2.run limbOps26
            [some rL, some yL', some oneL, some [if Spec.signBit b then 1 else 0]] = [some X, some Y, some Z, some T] ∧
          EnvsIn [X, Y, Z, T] (EdwardsPoint I26) ∧
          v26 X = (p.x : Fp) ∧ v26 Y = (p.y : Fp) ∧ v26 Z = 1 ∧ v26 T = (p.x : Fp) * (p.y : Fp) ∧
          ∃ h : Spec.onCurve p = true, RepExt (Dalek.Bridge.toEd p h) (v26 X) (v26 Y) (v26 Z) (v26 T)) := by
  obtain ⟨yL, hC, hW, hb, _, hv⟩ := Dalek.Props.C01.Bytes26.from_bytes_spec' b hlen
  have hy : EnvIn yL I26.fe := EnvIn_of_itvsLe hb (by decide +kernel)
  have hval : v26 yL = ((Spec.feFromBytes b : Nat) : Fp) := by
    unfold v26; exact natCast_eq_of_mod (by rw [← hv]; exact (Nat.mod_mod _ _).symm)
  have h1 : Refines B26 v26 AlgEdwards.decompress_step_1 [I26.fe] [inv_choice, I26.fe, I26.fe, I26.fe] :=
    Sig.refines_of_ok spec26 Edwards_decompress_step_1_refOk26
  have h2 : Refines B26 v26 AlgEdwards.decompress_step_2 [I26.fe, I26.fe, I26.fe, inv_choice]
      [I26.fe, I26.fe, I26.fe, I26.fe] := Sig.refines_of_ok spec26 Edwards_decompress_step_2_refOk26
  obtain ⟨okL, rL, yL', oneL, r⟩ := limb_decompress_agrees (B := B26) spec26.choice h1 h2 b yL hy hval
  exact ⟨yL, okL, rL, yL', oneL, hC, hW, r⟩

/-! ## non-vacuity -/

/-- the hypotheses of `limb_add_refines51` are satisfiable: the limbs of the identity represent `0 : Ed` -/
example : EnvsIn (List.replicate 2 [[0, 0, 0, 0, 0], [1, 0, 0, 0, 0], [1, 0, 0, 0, 0], [0, 0, 0, 0, 0]]).flatten
      (EdwardsPoint I51 ++ EdwardsPoint I51) ∧
    RepExt (0 : Ed) (v51 [0, 0, 0, 0, 0]) (v51 [1, 0, 0, 0, 0]) (v51 [1, 0, 0, 0, 0]) (v51 [0, 0, 0, 0, 0]) := by
  refine ⟨envsIn_iff.1 (by decide +kernel), ?_⟩
  have e0 : v51 [0, 0, 0, 0, 0] = 0 := by simp [v51, Dalek.Model.FieldBytes.val51N]
  have e1 : v51 [1, 0, 0, 0, 0] = 1 := by simp [v51, Dalek.Model.FieldBytes.val51N]
  rw [e0, e1]; exact repExt_zero

/-- the all-limbs-at-the-bound inputs are inside the hypotheses of `all_formulas_refine26` for the ladder step -/
example : EnvsIn ((LadderStep I26).map (fun v => v.map (·.hi))) (sig_Montgomery_differential_add_and_double I26).pre :=
  envsIn_iff.1 (by decide +kernel)

end Dalek.Props.C05.Refinement

import Dalek.Model.CfgTable
/-!
# C05 / C07 / C04 — no behaviour hides behind a cargo feature that the driver configurations do not exercise

`Dalek.Gen.CfgInventory.cfgSites` is REGENERATED from the sources of the three crates on every run: every `#[cfg(..)]`-gated
statement, block or match arm inside a function body.  `all_feature_gated_classified`: each one that mentions a cargo feature is
(a) inert (a lone zeroize call, a `Zeroizing` wrapper, a lint attribute), or (b) gated on `precomputed-tables`, both polarities of
which are run by the `-notables` driver builds, or (c) one of three hand-classified sites (an item inside a macro, two `Display`
arms).  Consequently the request streams, which run on builds with every other feature switched ON, exercise the same statements
as a build with any of those features switched OFF — e.g. a Montgomery ladder whose last conditional swap only exists with
`zeroize` on would appear here as an unclassified site.
-/
namespace Dalek.Props.C05.CfgGated
open Dalek.Gen.CfgInventory Dalek.Model.CfgTable

/-- every feature-gated site inside a function body is classified -/
theorem all_feature_gated_classified : cfgSites.all classified = true := by decide +kernel

/-- the only feature-gated sites that are not syntactically inert are `precomputed-tables` alternatives and the three
hand-classified sites (so: nothing is gated on `zeroize`, `alloc`, `digest`, `rand_core`, `serde`, `group`, `batch`,
`legacy_compatibility` … except inert statements and those three) -/
theorem non_inert_are_tables_or_hand :
    nonInert.all (fun s => s.tables || handTable.any (fun e => e.key == s.key)) = true := by decide +kernel

/-- no stale hand entries: each of the three hand classifications matches a site of the current source -/
theorem hand_table_live : staleHand = [] := by decide +kernel

/-- the statements are not vacuous: the inventory is non-empty and contains inert, tables and hand sites -/
example : 0 < cfgSites.length ∧ (cfgSites.any fun s => s.code == 1) = true ∧ (cfgSites.any fun s => s.tables) = true ∧
    (cfgSites.any fun s => handTable.any (fun e => e.key == s.key)) = true := by decide +kernel

/-- the classification has teeth: a gated site of shape `other` on a feature other than `precomputed-tables` with an unknown key
is rejected -/
example : classified ⟨"f.rs", 1, "g", "#[cfg(feature = \"zeroize\")]", "{ swap(); x.zeroize(); }", "other", true, 0, 12345, 4, false⟩
    = false := by decide +kernel

end Dalek.Props.C05.CfgGated

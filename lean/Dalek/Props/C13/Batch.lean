import Dalek.Proofs.EdsBatch
import Dalek.Proofs.EdsFast
/-!
# C13 — Batch verification agrees with single verification and is deterministic

## What is modelled, and what is not

The statements are about the **model** `Dalek.Spec.Ed25519.verifyBatch legacy msgs sigs vks` of
ed25519-dalek 2.1.1 `verify_batch` (`batch.rs` 140-240), tied to the Rust code by the correspondence run (op
`eds.batch`, feature `batch`).  The model returns an error (`false`) if the three slices differ in length
(`batch.rs` 146-160), if some key does not decode (in Rust: no `VerifyingKey` exists), if some `S` fails
`check_scalar` (`InternalSignature::try_from`, 201-205) or some `R` does not decompress
(`optional_multiscalar_mul` returns `None`, 233-238); otherwise it accepts iff **every** equation
`Eᵢ := [Sᵢ]B - Rᵢ - [kᵢ]Aᵢ = 0` holds, `kᵢ = H(Rᵢ ‖ vkᵢ ‖ msgᵢ) mod ℓ`.

The real code does **not** check each equation: it checks ONE linear combination
`(-Σ zᵢSᵢ mod ℓ)•B + Σ zᵢ•Rᵢ + Σ (zᵢkᵢ mod ℓ)•Aᵢ = 0` whose 128-bit coefficients `zᵢ` come from a merlin
transcript of all `H(Rᵢ‖Aᵢ‖Mᵢ)` and all `Sᵢ` (deterministic in the inputs).  The relation between the two,
proved here for an arbitrary choice of the `zᵢ`:

* `code_point_eq` — for keys of order dividing `ℓ` the point the code tests is `-(Σ zᵢ•Eᵢ)`;
* `all_valid_any_z` — if every `Eᵢ = 0` the combination is `0` **for every choice of the `zᵢ`**: the code
  accepts whenever the model accepts (no assumption on the transcript);
* `single_fault_rejected` — if exactly one entry is faulty and its error `Eⱼ` has order `ℓ`, the combination
  is non-zero unless `zⱼ ≡ 0 (mod ℓ)`, i.e. (128-bit `zⱼ`) unless `zⱼ = 0`.

**Residual, named and not proved**: (a) `zⱼ = 0` for the faulty entry (probability `2^-128` over the
transcript); (b) two or more faulty entries whose `zᵢ`-weighted errors cancel (probability about `2^-128`);
(c) error terms with a component in the 8-torsion subgroup (keys or `R` of mixed order — outside C13's
quantifier "points in the prime-order subgroup"), where the code's answer depends on `zᵢ mod 8`.
The correspondence generators send torsion-free points only, where model and code agree except in (a), (b).

Notation as in C09: `Ed`, `Bpt`, `decodeEd`, `encodeEd`, `IsCanonicalEnc`, `ScalarOk`, `hashToScalar`;
`R = sig.take 32`, `S = sig.drop 32`.  No property of SHA-512 is used.
-/
namespace Dalek.Props.C13

open Dalek.Spec Dalek.Spec.Ed25519 Dalek.Bridge Dalek.Eds

-- elaboration hint only: keeps the elaborator from evaluating `decompress` on symbolic input
attribute [local irreducible] decompress

/-- The batch model does not depend on how the group operations are computed. -/
theorem batch_ops_independent {ops : Ops} (hc : OpsCorrect ops) (legacy : Bool)
    (msgs sigs vks : List (List UInt8)) :
    verifyBatchWith ops legacy msgs sigs vks = verifyBatch legacy msgs sigs vks :=
  verifyBatchWith_congr hc legacy msgs sigs vks

/-- In particular the function executed by the model driver in the correspondence run (group operations
`Dalek.Driver.fastOps`) is the model the theorems below are about. -/
theorem batch_driver_eq (legacy : Bool) (msgs sigs vks : List (List UInt8)) :
    verifyBatchWith Dalek.Driver.fastOps legacy msgs sigs vks = verifyBatch legacy msgs sigs vks :=
  batch_ops_independent opsCorrect_fastOps legacy msgs sigs vks

/-! ## Errors -/

/-- **Mismatched lengths** give an error (not a panic, not an acceptance). -/
theorem batch_len_mismatch (legacy : Bool) (msgs sigs vks : List (List UInt8))
    (h : msgs.length ≠ sigs.length ∨ sigs.length ≠ vks.length) :
    verifyBatch legacy msgs sigs vks = false := by
  rw [← Bool.not_eq_true]
  intro hb
  obtain ⟨h1, h2, -⟩ := (verifyBatch_iff legacy msgs sigs vks).1 hb
  rcases h with h | h
  · exact h h1
  · exact h h2

/-- **A non-canonical `S`** (`S ≥ ℓ`, default build) in entry `i` gives an error. -/
theorem batch_noncanonical_S (msgs sigs vks : List (List UInt8)) (i : Nat) (hi : i < sigs.length)
    (h : L ≤ leToNat ((sigs[i]).drop 32)) : verifyBatch false msgs sigs vks = false := by
  rw [← Bool.not_eq_true]
  intro hb
  obtain ⟨h1, h2, hall⟩ := (verifyBatch_iff false msgs sigs vks).1 hb
  have := hall _ (mem_zip3_of_lt msgs sigs vks h1 h2 i hi)
  obtain ⟨A, s, R, -, hs, -⟩ := (batchItem_eq_some_true_iff _ _ _ _).1 this
  have := (checkScalar_false_iff.1 hs).1
  simp only at this
  omega

/-- With `legacy_compatibility`: an `S` with one of the top three bits set in entry `i` gives an error. -/
theorem batch_bad_S_legacy (msgs sigs vks : List (List UInt8)) (i : Nat) (hi : i < sigs.length)
    (h : ((sigs[i]).drop 32).getD 31 0 &&& 224 ≠ 0) : verifyBatch true msgs sigs vks = false := by
  rw [← Bool.not_eq_true]
  intro hb
  obtain ⟨h1, h2, hall⟩ := (verifyBatch_iff true msgs sigs vks).1 hb
  have := hall _ (mem_zip3_of_lt msgs sigs vks h1 h2 i hi)
  obtain ⟨A, s, R, -, hs, -⟩ := (batchItem_eq_some_true_iff _ _ _ _).1 this
  exact h (checkScalar_true_iff.1 hs).1

/-- **An undecodable `R`** in entry `i` gives an error. -/
theorem batch_bad_R (legacy : Bool) (msgs sigs vks : List (List UInt8)) (i : Nat) (hi : i < sigs.length)
    (h : decodeEd ((sigs[i]).take 32) = none) : verifyBatch legacy msgs sigs vks = false := by
  rw [← Bool.not_eq_true]
  intro hb
  obtain ⟨h1, h2, hall⟩ := (verifyBatch_iff legacy msgs sigs vks).1 hb
  have := hall _ (mem_zip3_of_lt msgs sigs vks h1 h2 i hi)
  obtain ⟨A, s, R, -, -, hR, -⟩ := (batchItem_eq_some_true_iff _ _ _ _).1 this
  simp only at hR
  rw [h] at hR; cases hR

/-- An undecodable key in entry `i` gives an error (in Rust such a `VerifyingKey` cannot be constructed). -/
theorem batch_bad_key (legacy : Bool) (msgs sigs vks : List (List UInt8)) (i : Nat) (hi : i < vks.length)
    (h : decodeEd (vks[i]) = none) : verifyBatch legacy msgs sigs vks = false := by
  rw [← Bool.not_eq_true]
  intro hb
  obtain ⟨h1, h2, hall⟩ := (verifyBatch_iff legacy msgs sigs vks).1 hb
  have := hall _ (mem_zip3_of_lt msgs sigs vks h1 h2 i (h2 ▸ hi))
  obtain ⟨A, s, R, hA, -⟩ := (batchItem_eq_some_true_iff _ _ _ _).1 this
  simp only at hA
  rw [h] at hA; cases hA

/-! ## Acceptance -/

/-- **`batch_ok_iff`** (as the model defines it): equal lengths, and for every index `i`: the key decodes to
`Aᵢ`, `Sᵢ` passes `check_scalar`, `Rᵢ` decodes to `R'ᵢ`, and `[Sᵢ]B - R'ᵢ - [kᵢ]Aᵢ = 0`. -/
theorem batch_ok_iff (legacy : Bool) (msgs sigs vks : List (List UInt8)) :
    verifyBatch legacy msgs sigs vks = true ↔
      msgs.length = sigs.length ∧ sigs.length = vks.length ∧
      ∀ (i : Nat) (h1 : i < msgs.length) (h2 : i < sigs.length) (h3 : i < vks.length),
        ScalarOk legacy ((sigs[i]).drop 32) ∧
        ∃ A R', decodeEd (vks[i]) = some A ∧ decodeEd ((sigs[i]).take 32) = some R' ∧
          leToNat ((sigs[i]).drop 32) • Bpt - R' -
            hashToScalar ((sigs[i]).take 32 ++ vks[i] ++ msgs[i]) • A = 0 := by
  show verifyBatchWith Ops.spec legacy msgs sigs vks = true ↔ _
  rw [verifyBatch_iff]
  constructor
  · rintro ⟨hl1, hl2, hall⟩
    refine ⟨hl1, hl2, fun i h1 h2 h3 => ?_⟩
    have := hall _ (mem_zip3_of_lt msgs sigs vks hl1 hl2 i h2)
    obtain ⟨A, s, R, hA, hs, hR, he⟩ := (batchItem_eq_some_true_iff _ _ _ _).1 this
    obtain ⟨hok, rfl⟩ := checkScalar_iff.1 hs
    exact ⟨hok, A, R, hA, hR, he⟩
  · rintro ⟨hl1, hl2, hall⟩
    refine ⟨hl1, hl2, fun x hx => ?_⟩
    obtain ⟨i, h1, h2, h3, rfl⟩ := exists_index_of_mem_zip3 hx
    obtain ⟨hok, A, R, hA, hR, he⟩ := hall i h1 h2 h3
    exact (batchItem_eq_some_true_iff _ _ _ _).2 ⟨A, _, R, hA, checkScalar_iff.2 ⟨hok, rfl⟩, hR, he⟩

/-- **Relation of one batch equation to single verification, stated precisely.**  `verify` (non-strict)
accepts entry `(msg, sig, vk)` iff the entry's batch equation holds **and** the `R` bytes are the canonical
encoding of a point.  The two notions differ exactly on non-canonical `R` (`y ≥ p` or "negative zero"):
`verify` compares `R` as bytes, the batch equation uses the decoded point. -/
theorem verify_iff_batch_entry (legacy : Bool) (msg sig vk : List UInt8) :
    verify legacy false vk msg sig = true ↔
      batchItemWith Ops.spec legacy msg sig vk = some true ∧ IsCanonicalEnc (sig.take 32) :=
  verify_iff_batchItem legacy msg sig vk

/-- **All valid ⇒ batch ok**: if the lengths agree and every entry is accepted by ordinary (non-strict)
single verification, the batch model accepts.  Any number of entries (including 0), any order, repetitions
allowed. -/
theorem batch_all_valid_ok (legacy : Bool) (msgs sigs vks : List (List UInt8))
    (hl1 : msgs.length = sigs.length) (hl2 : sigs.length = vks.length)
    (h : ∀ (i : Nat) (h1 : i < msgs.length) (h2 : i < sigs.length) (h3 : i < vks.length),
      verify legacy false (vks[i]) (msgs[i]) (sigs[i]) = true) :
    verifyBatch legacy msgs sigs vks = true := by
  show verifyBatchWith Ops.spec legacy msgs sigs vks = true
  rw [verifyBatch_iff]
  refine ⟨hl1, hl2, fun x hx => ?_⟩
  obtain ⟨i, h1, h2, h3, rfl⟩ := exists_index_of_mem_zip3 hx
  exact ((verify_iff_batchItem legacy _ _ _).1 (h i h1 h2 h3)).1

/-- **Batch ⇔ all single verifications**, for inputs whose `R` components are canonical encodings (C13's
quantifier): the batch model accepts exactly when the lengths agree and every entry would be accepted
individually. -/
theorem batch_iff_all_verify (legacy : Bool) (msgs sigs vks : List (List UInt8))
    (hcanon : ∀ s ∈ sigs, IsCanonicalEnc (s.take 32)) :
    verifyBatch legacy msgs sigs vks = true ↔
      msgs.length = sigs.length ∧ sigs.length = vks.length ∧
      ∀ (i : Nat) (h1 : i < msgs.length) (h2 : i < sigs.length) (h3 : i < vks.length),
        verify legacy false (vks[i]) (msgs[i]) (sigs[i]) = true := by
  constructor
  · intro hb
    have hb' : verifyBatchWith Ops.spec legacy msgs sigs vks = true := hb
    obtain ⟨hl1, hl2, hall⟩ := (verifyBatch_iff legacy msgs sigs vks).1 hb'
    refine ⟨hl1, hl2, fun i h1 h2 h3 => ?_⟩
    have := hall _ (mem_zip3_of_lt msgs sigs vks hl1 hl2 i h2)
    exact (verify_iff_batchItem legacy _ _ _).2 ⟨this, hcanon _ (List.getElem_mem h2)⟩
  · rintro ⟨hl1, hl2, h⟩
    exact batch_all_valid_ok legacy msgs sigs vks hl1 hl2 h

/-- A single invalid entry (with canonical `R`) makes the batch model reject. -/
theorem batch_one_invalid (legacy : Bool) (msgs sigs vks : List (List UInt8))
    (i : Nat) (h1 : i < msgs.length) (h2 : i < sigs.length) (h3 : i < vks.length)
    (hcanon : IsCanonicalEnc ((sigs[i]).take 32))
    (hbad : verify legacy false (vks[i]) (msgs[i]) (sigs[i]) = false) :
    verifyBatch legacy msgs sigs vks = false := by
  rw [← Bool.not_eq_true]
  intro hb
  have hb' : verifyBatchWith Ops.spec legacy msgs sigs vks = true := hb
  obtain ⟨hl1, hl2, hall⟩ := (verifyBatch_iff legacy msgs sigs vks).1 hb'
  have := hall _ (mem_zip3_of_lt msgs sigs vks hl1 hl2 i h2)
  have hv := (verify_iff_batchItem legacy _ _ _).2 ⟨this, hcanon⟩
  have hbad' : verifyCoreWith Ops.spec legacy false [] (vks[i]) (msgs[i]) (sigs[i]) = false := hbad
  rw [hbad'] at hv; cases hv

/-! ## Independence of size, order and duplication; determinism

`batchOf legacy es` is `verifyBatch` on the three projections of a list of entries `(msg, sig, vk)`.
Determinism ("repetition of the call") is immediate: `verifyBatch` is a function of its arguments. -/

/-- The **empty batch** is accepted. -/
theorem batch_empty (legacy : Bool) : verifyBatch legacy [] [] [] = true := by
  show verifyBatchWith Ops.spec legacy [] [] [] = true
  rw [verifyBatch_iff]
  exact ⟨rfl, rfl, fun x hx => by simp at hx⟩

/-- The result depends only on the **set** of entries: -/
theorem batch_congr_set (legacy : Bool) (es es' : List (List UInt8 × List UInt8 × List UInt8))
    (h : ∀ x, x ∈ es ↔ x ∈ es') : batchOf legacy es = batchOf legacy es' := by
  rw [Bool.eq_iff_iff, batchOf_iff, batchOf_iff]
  exact ⟨fun hh x hx => hh x ((h x).2 hx), fun hh x hx => hh x ((h x).1 hx)⟩

/-- hence it is invariant under **reordering**, -/
theorem batch_perm (legacy : Bool) (es es' : List (List UInt8 × List UInt8 × List UInt8))
    (h : es.Perm es') : batchOf legacy es = batchOf legacy es' :=
  batch_congr_set legacy es es' (fun _ => h.mem_iff)

/-- under **duplication** of entries, -/
theorem batch_dup (legacy : Bool) (e : List UInt8 × List UInt8 × List UInt8)
    (es : List (List UInt8 × List UInt8 × List UInt8)) :
    batchOf legacy (e :: e :: es) = batchOf legacy (e :: es) :=
  batch_congr_set legacy _ _ (fun x => by simp)

/-- and a batch is accepted iff each of its entries is accepted as a batch of size one (**size
independence**). -/
theorem batch_iff_singletons (legacy : Bool) (es : List (List UInt8 × List UInt8 × List UInt8)) :
    batchOf legacy es = true ↔ ∀ e ∈ es, batchOf legacy [e] = true := by
  simp only [batchOf_iff, List.mem_singleton, forall_eq]

/-- Concatenation: `es ++ es'` is accepted iff both parts are. -/
theorem batch_append (legacy : Bool) (es es' : List (List UInt8 × List UInt8 × List UInt8)) :
    batchOf legacy (es ++ es') = (batchOf legacy es && batchOf legacy es') := by
  rw [Bool.eq_iff_iff, Bool.and_eq_true, batchOf_iff, batchOf_iff, batchOf_iff]
  simp only [List.mem_append]
  exact ⟨fun h => ⟨fun x hx => h x (Or.inl hx), fun x hx => h x (Or.inr hx)⟩,
    fun h x hx => hx.elim (h.1 x) (h.2 x)⟩

/-! ## The random linear combination checked by the real code -/

/-- **What the code computes.**  For decoded terms `(zᵢ, sᵢ, Rᵢ, kᵢ, Aᵢ)` with keys of order dividing `ℓ`, the
point `(-Σ zᵢsᵢ mod ℓ)•B + Σ zᵢ•Rᵢ + Σ (zᵢkᵢ mod ℓ)•Aᵢ` that `verify_batch` compares with the identity is
`-(Σ zᵢ•Eᵢ)`, `Eᵢ = sᵢ•B - Rᵢ - kᵢ•Aᵢ` (`BatchTerm.err`). -/
theorem code_point_eq (ts : List BatchTerm) (hA : ∀ t ∈ ts, L • t.A = 0) :
    codeBatchPoint ts = -((ts.map fun t => t.z • t.err).sum) :=
  codeBatchPoint_eq ts hA

/-- **All valid ⇒ accepted for every choice of the coefficients**: if every error term vanishes, so does
every linear combination.  (So the real code accepts whenever the model does, whatever the transcript
produces.) -/
theorem all_valid_any_z (z : List Nat) (E : List Ed) (h : ∀ e ∈ E, e = 0) :
    (List.zipWith (fun (n : Nat) (e : Ed) => n • e) z E).sum = 0 :=
  combination_eq_zero_of_all_zero z E h

/-- The same, for the point the code computes. -/
theorem all_valid_code_point (ts : List BatchTerm) (hA : ∀ t ∈ ts, L • t.A = 0)
    (h : ∀ t ∈ ts, t.err = 0) : codeBatchPoint ts = 0 := by
  rw [codeBatchPoint_eq ts hA, neg_eq_zero]
  apply List.sum_eq_zero
  intro x hx
  obtain ⟨t, ht, rfl⟩ := List.mem_map.1 hx
  rw [h t ht, smul_zero]

/-- **A single faulty entry of prime order is rejected unless its coefficient vanishes.**  If exactly one
error term `Eⱼ` is non-zero, `ℓ•Eⱼ = 0`, and the combination `Σ zᵢ•Eᵢ` is `0`, then `zⱼ ≡ 0 (mod ℓ)`; for a
128-bit coefficient, `zⱼ = 0`. -/
theorem single_fault_rejected (z1 z2 : List Nat) (zj : Nat) (E1 E2 : List Ed) (Ej : Ed)
    (hlen : z1.length = E1.length) (h1 : ∀ e ∈ E1, e = 0) (h2 : ∀ e ∈ E2, e = 0)
    (hL : L • Ej = 0) (hne : Ej ≠ 0)
    (hsum : (List.zipWith (fun (n : Nat) (e : Ed) => n • e) (z1 ++ zj :: z2) (E1 ++ Ej :: E2)).sum = 0) :
    L ∣ zj ∧ (zj < 2 ^ 128 → zj = 0) := by
  have hd := single_fault_dvd z1 z2 zj E1 E2 Ej hlen h1 h2 hL hne hsum
  exact ⟨hd, eq_zero_of_dvd_of_lt_128 hd⟩

/-- The underlying group fact: `z•E = 0`, `E ≠ 0`, `ℓ•E = 0` ⇒ `ℓ ∣ z` (`ℓ` prime). -/
theorem prime_order_annihilator (E : Ed) (z : Nat) (hL : L • E = 0) (hne : E ≠ 0) (hz : z • E = 0) :
    L ∣ z := dvd_of_nsmul_eq_zero hL hne hz

/-- When is an error term of order `ℓ`?  When key and `R` are in the prime-order subgroup
(`ℓ•A = 0`, `ℓ•R = 0`), as in C13's quantifier. -/
theorem err_order (t : BatchTerm) (hA : L • t.A = 0) (hR : L • t.R = 0) : L • t.err = 0 := by
  unfold BatchTerm.err
  rw [smul_sub, smul_sub, smul_comm L t.s, L_nsmul_Bpt, smul_zero, hR, smul_comm L t.k, hA, smul_zero,
    sub_zero, sub_zero]

/-! ## The transcript that seeds the coefficients

`batchTranscript msgs sigs vks` (Spec) is the sequence of merlin operations of `verify_batch`, compared with
the Rust code by the correspondence op `eds.batch_transcript`.  The coefficients `zᵢ` are a function of this
sequence (merlin/STROBE itself is not modelled): hence they are deterministic in the inputs, and -/

/-- **the transcript binds every `H(Rᵢ‖Aᵢ‖Mᵢ)` and every `Sᵢ`**: batches with the same transcript have the same
size, the same challenge hashes and the same `S` halves. -/
theorem transcript_binds (msgs sigs vks msgs' sigs' vks' : List (List UInt8))
    (hl1 : msgs.length = sigs.length) (hl2 : sigs.length = vks.length)
    (hl1' : msgs'.length = sigs'.length) (hl2' : sigs'.length = vks'.length)
    (h : batchTranscript msgs sigs vks = batchTranscript msgs' sigs' vks') :
    sigs.length = sigs'.length ∧ batchHrams msgs sigs vks = batchHrams msgs' sigs' vks' ∧
      sigs.map (·.drop 32) = sigs'.map (·.drop 32) :=
  batchTranscript_binds msgs sigs vks msgs' sigs' vks' hl1 hl2 hl1' hl2' h

/-- With mismatched lengths the error is returned before any transcript operation. -/
theorem transcript_len_mismatch (msgs sigs vks : List (List UInt8))
    (h : msgs.length ≠ sigs.length ∨ sigs.length ≠ vks.length) : batchTranscript msgs sigs vks = [] :=
  batchTranscript_len_mismatch msgs sigs vks h

/-! ## Non-vacuity -/

/-- Accepted non-empty batches exist: see `Dalek.Props.C08.honest_verifies_batch`.  Mismatched lengths are
rejected on concrete input: -/
example : verifyBatch false [[]] [] [] = false := batch_len_mismatch false _ _ _ (Or.inl (by decide))

/-- The hypotheses of `single_fault_rejected` are satisfiable: `Eⱼ = B`. -/
example : L • Bpt = 0 ∧ Bpt ≠ 0 := ⟨L_nsmul_Bpt, Bpt_ne_zero⟩

/-! ## Axiom audit -/

/-- info: 'Dalek.Props.C13.batch_len_mismatch' depends on axioms: [propext, Quot.sound] -/
#guard_msgs in #print axioms batch_len_mismatch
/-- info: 'Dalek.Props.C13.batch_driver_eq' depends on axioms: [propext, Classical.choice, Quot.sound] -/
#guard_msgs in #print axioms batch_driver_eq
/-- info: 'Dalek.Props.C13.batch_noncanonical_S' depends on axioms: [propext, Classical.choice, Quot.sound] -/
#guard_msgs in #print axioms batch_noncanonical_S
/-- info: 'Dalek.Props.C13.batch_bad_R' depends on axioms: [propext, Classical.choice, Quot.sound] -/
#guard_msgs in #print axioms batch_bad_R
/-- info: 'Dalek.Props.C13.batch_ok_iff' depends on axioms: [propext, Classical.choice, Quot.sound] -/
#guard_msgs in #print axioms batch_ok_iff
/-- info: 'Dalek.Props.C13.batch_iff_all_verify' depends on axioms: [propext, Classical.choice, Quot.sound] -/
#guard_msgs in #print axioms batch_iff_all_verify
/-- info: 'Dalek.Props.C13.batch_congr_set' depends on axioms: [propext, Quot.sound] -/
#guard_msgs in #print axioms batch_congr_set
/-- info: 'Dalek.Props.C13.code_point_eq' depends on axioms: [propext, Classical.choice, Quot.sound] -/
#guard_msgs in #print axioms code_point_eq
/-- info: 'Dalek.Props.C13.transcript_binds' depends on axioms: [propext, Quot.sound] -/
#guard_msgs in #print axioms transcript_binds
/-- info: 'Dalek.Props.C13.single_fault_rejected' depends on axioms: [propext, Classical.choice, Quot.sound] -/
#guard_msgs in #print axioms single_fault_rejected

end Dalek.Props.C13

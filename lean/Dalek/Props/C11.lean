import Dalek.Props.C11.Kernels

import Dalek.Props.C11.Kernels
import Dalek.Props.C11.Formulas
import Dalek.Props.C11.Avx2
import Dalek.Props.C11.Ifma
import Dalek.Props.C11.VecChain
import Dalek.Props.C11.Fiat
import Dalek.Props.C05.RefinementFiat

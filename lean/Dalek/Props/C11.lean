import Dalek.Props.C11.Kernels
import Dalek.Props.C11.Formulas

import Dalek.Props.C09.Verify
import Dalek.Props.C08.HashInputs

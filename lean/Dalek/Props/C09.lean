import Dalek.Props.C09.Verify

import Dalek.Props.C05.Backends

import Dalek.Props.C05.Backends
import Dalek.Props.C05.Refinement
import Dalek.Props.C05.Vector
import Dalek.Props.C05.Fiat
import Dalek.Props.C05.CfgGated
import Dalek.Props.C05.RefinementFiat

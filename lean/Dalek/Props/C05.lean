import Dalek.Props.C05.Backends
import Dalek.Props.C05.Refinement
import Dalek.Props.C05.Vector

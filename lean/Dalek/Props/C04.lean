import Dalek.Props.C04.Recode
import Dalek.Props.C04.Algorithms
import Dalek.Props.C05.CfgGated

import Dalek.Props.C04.Recode

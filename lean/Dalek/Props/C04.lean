import Dalek.Props.C04.Recode
import Dalek.Props.C04.Algorithms

-- C01 property theorems (one module per backend / topic)
import Dalek.Props.C01.Field51

-- C01 property theorems (one module per backend / topic)
import Dalek.Props.C01.Field51
import Dalek.Props.C01.Field26
import Dalek.Props.C01.Pow2k
import Dalek.Props.C01.FieldChains
import Dalek.Props.C01.Bytes51
import Dalek.Props.C01.Bytes26
import Dalek.Props.C01.Fiat51
import Dalek.Props.C01.Fiat26
import Dalek.Props.C01.Avx2
import Dalek.Props.C01.Ifma
import Dalek.Props.C01.VecFormulas
import Dalek.Props.C01.FiatHistory51
import Dalek.Props.C01.FiatHistory26
import Dalek.Props.C01.FiatBytes51
import Dalek.Props.C01.FiatBytes26
import Dalek.Props.C01.FiatIdioms

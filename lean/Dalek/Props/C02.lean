import Dalek.Props.C02.Scalar52
import Dalek.Props.C02.Api

import Dalek.Props.C02.Scalar52
import Dalek.Props.C02.Api
import Dalek.Props.C02.Scalar29
import Dalek.Props.C02.Scalar29Composed
import Dalek.Props.C02.Api29

import Dalek.Props.C02.Scalar52

import Dalek.IR.LimbSound
import Dalek.Proofs.Scalar29
import Dalek.Proofs.Scalar29.Inline
/-!
# C02 — scalar arithmetic is exact arithmetic modulo `l` (serial u32 backend, 29-bit limbs; property theorems)

Statements are about `Dalek.Gen.Scalar29.*`: the LimbIR programs REGENERATED from
`curve25519-dalek/src/backend/serial/u32/scalar.rs` (constants `L`, `R`, `RR`, `LFACTOR` from `u32/constants.rs`).
Same shape as `Dalek/Props/C02/Scalar52.lean`: for inputs inside the bound contract (`Dalek.Model.Contracts.Scalar29`:
limbs `< 2^29`; `montgomery_reduce` words `≤ 9·(2^29-1)^2`) and satisfying the value hypothesis, the debug build
(`evalC`) does not panic, the release build (`evalW`) returns the same limbs, the output limbs are `< 2^29`, and
`val29 out` is the stated function of the input values.  The Montgomery radix is `2^261`.

`mul_internal` is the one-level Karatsuba with `wrapping_sub`; `mul_internal_spec` states that its 17 outputs are
nevertheless the schoolbook coefficients and lie inside the `montgomery_reduce` contract (this bound is NOT an
interval fact; it is proved from the value statement).

The composed items `montgomery_mul, mul, square, as_montgomery` are not registered kernels (that the inlined Karatsuba
output stays inside the `montgomery_reduce` contract is not an interval fact).  Their theorems (section "composed
items") are nevertheless about the translated composed PROGRAMS `Dalek.Gen.Scalar29.{montgomery_mul, mul, square,
as_montgomery}`: `Dalek.IR.Inline.pipe_prog` shows that the body of each of them is the inlined sequence of its
callees (a decidable check on the regenerated programs, `*_is_pipeline`, by `decide +kernel`), so a non-panicking run
of the callees in sequence is a non-panicking run of the composed program with the same result.
NOT covered here: `from_bytes_wide` (its limb-extraction prefix is not a separate kernel).
-/
set_option exponentiation.threshold 600

namespace Dalek.Props.C02.Scalar29
open Dalek.IR Dalek.Proofs.Scalar29 Dalek.Gen.Norm.Scalar29 Dalek.Model.Contracts Dalek.Gen.Consts
open Dalek.Proofs.Scalar52 (ell_eq toZ_cons toZ_nil)
open Dalek.Model.FieldBytes (leVal)

/-- the group order -/
abbrev l : Nat := 2 ^ 252 + 27742317777372353535851937790883648493

/-- output contract: nine limbs `< 2^29` -/
abbrev limbs29 : List Itv := rep 9 (ub (2 ^ 29 - 1))

/-! ## the constants -/

theorem L_value : val29 U32.L = l := val29_L
theorem R_value : val29 U32.R = 2 ^ 261 % l := val29_R
theorem RR_value : val29 U32.RR = (2 ^ 261) ^ 2 % l := val29_RR
theorem LFACTOR_value : U32.LFACTOR * U32.L.getD 0 0 % 2 ^ 29 = 2 ^ 29 - 1 := lfactor_spec

section
variable (a0 a1 a2 a3 a4 a5 a6 a7 a8 b0 b1 b2 b3 b4 b5 b6 b7 b8 : Nat)

/-- `Scalar29::sub(a, b)` on canonical inputs: `(a - b) mod l`, canonical -/
theorem sub_spec (hin : EnvIn [a0, a1, a2, a3, a4, a5, a6, a7, a8, b0, b1, b2, b3, b4, b5, b6, b7, b8] Scalar29.pre_sub)
    (ha : val29 [a0, a1, a2, a3, a4, a5, a6, a7, a8] < l) (hb : val29 [b0, b1, b2, b3, b4, b5, b6, b7, b8] < l) :
    ∃ out, Dalek.Gen.Scalar29.sub.evalC [a0, a1, a2, a3, a4, a5, a6, a7, a8, b0, b1, b2, b3, b4, b5, b6, b7, b8] = some out ∧
      Dalek.Gen.Scalar29.sub.evalW [a0, a1, a2, a3, a4, a5, a6, a7, a8, b0, b1, b2, b3, b4, b5, b6, b7, b8] = out ∧
      EnvIn out limbs29 ∧ val29 out < l ∧
      val29 out = (val29 [a0, a1, a2, a3, a4, a5, a6, a7, a8] + l - val29 [b0, b1, b2, b3, b4, b5, b6, b7, b8]) % l := by
  obtain ⟨out, hC, hW, hpost, hZ⟩ := Prog.norm_sound _ _ _ _ sub_norm_ok _ hin
  have hl := lim29_of_envIn hin
  simp only [toZ_cons, toZ_nil] at hZ hl
  rw [sub_fn_ok] at hZ
  refine ⟨out, hC, hW, EnvIn_of_itvsLe hpost (by decide +kernel), ?_⟩
  obtain ⟨hla, hlb⟩ := Lim_split9 hl
  obtain ⟨o0, o1, o2, o3, o4, o5, o6, o7, o8, he, -, hv⟩ := sub_fn_canon _ _ _ _ _ _ _ _ _ _ _ _ _ _ _ _ _ _ hla hlb
    (by rw [repZ_cast9]; exact_mod_cast ha) (by rw [repZ_cast9]; exact_mod_cast hb)
  rw [he] at hZ
  have h := val_of_toZ hZ.symm
  rw [hv, repZ_cast9, repZ_cast9] at h
  simp only [l, ell_eq] at *
  omega

/-- `Scalar29::sub(a, L)` for `a < 2l`: the canonical representative `a mod l` -/
theorem sub_L_spec (hin : EnvIn ([a0, a1, a2, a3, a4, a5, a6, a7, a8] ++ U32.L) Scalar29.pre_sub)
    (ha : val29 [a0, a1, a2, a3, a4, a5, a6, a7, a8] < 2 * l) :
    ∃ out, Dalek.Gen.Scalar29.sub.evalC ([a0, a1, a2, a3, a4, a5, a6, a7, a8] ++ U32.L) = some out ∧
      Dalek.Gen.Scalar29.sub.evalW ([a0, a1, a2, a3, a4, a5, a6, a7, a8] ++ U32.L) = out ∧
      EnvIn out limbs29 ∧ val29 out = val29 [a0, a1, a2, a3, a4, a5, a6, a7, a8] % l := by
  obtain ⟨out, hC, hW, hpost, hZ⟩ := Prog.norm_sound _ _ _ _ sub_norm_ok _ hin
  refine ⟨out, hC, hW, EnvIn_of_itvsLe hpost (by decide +kernel), ?_⟩
  have hl := lim29_of_envIn hin
  simp only [U32.L, List.cons_append, List.nil_append, toZ_cons, toZ_nil] at hZ hl
  obtain ⟨hla, -⟩ := Lim_split9 hl
  rw [sub_fn_ok] at hZ
  obtain ⟨o0, o1, o2, o3, o4, o5, o6, o7, o8, he, -, hv⟩ := sub_fn_L_spec _ _ _ _ _ _ _ _ _ hla
    (by rw [repZ_cast9]; exact_mod_cast ha)
  norm_num only at hZ
  rw [he] at hZ
  have h := val_of_toZ hZ.symm
  rw [hv, repZ_cast9] at h
  exact nat_emod_of_int h

/-- `Scalar29::add(a, b)` on canonical inputs: `(a + b) mod l`, canonical -/
theorem add_spec (hin : EnvIn [a0, a1, a2, a3, a4, a5, a6, a7, a8, b0, b1, b2, b3, b4, b5, b6, b7, b8] Scalar29.pre_add)
    (ha : val29 [a0, a1, a2, a3, a4, a5, a6, a7, a8] < l) (hb : val29 [b0, b1, b2, b3, b4, b5, b6, b7, b8] < l) :
    ∃ out, Dalek.Gen.Scalar29.add.evalC [a0, a1, a2, a3, a4, a5, a6, a7, a8, b0, b1, b2, b3, b4, b5, b6, b7, b8] = some out ∧
      Dalek.Gen.Scalar29.add.evalW [a0, a1, a2, a3, a4, a5, a6, a7, a8, b0, b1, b2, b3, b4, b5, b6, b7, b8] = out ∧
      EnvIn out limbs29 ∧
      val29 out = (val29 [a0, a1, a2, a3, a4, a5, a6, a7, a8] + val29 [b0, b1, b2, b3, b4, b5, b6, b7, b8]) % l := by
  obtain ⟨out, hC, hW, hpost, hZ⟩ := Prog.norm_sound _ _ _ _ add_norm_ok _ hin
  have hl := lim29_of_envIn hin
  simp only [toZ_cons, toZ_nil] at hZ hl
  rw [add_fn_ok] at hZ
  refine ⟨out, hC, hW, EnvIn_of_itvsLe hpost (by decide +kernel), ?_⟩
  obtain ⟨hla, hlb⟩ := Lim_split9 hl
  obtain ⟨o0, o1, o2, o3, o4, o5, o6, o7, o8, he, -, hv⟩ := add_fn_spec _ _ _ _ _ _ _ _ _ _ _ _ _ _ _ _ _ _ hla hlb
    (by rw [repZ_cast9]; exact_mod_cast ha) (by rw [repZ_cast9]; exact_mod_cast hb)
  rw [he] at hZ
  have h := val_of_toZ hZ.symm
  rw [hv, repZ_cast9, repZ_cast9] at h
  exact nat_emod_of_int (by exact_mod_cast h)

/-- `Scalar29::mul_internal(a, b)` (Karatsuba with wrapping subtractions): the seventeen outputs are the schoolbook
coefficients — their radix-2^29 value is the integer product — and each is within the `montgomery_reduce` contract -/
theorem mul_internal_spec (hin : EnvIn [a0, a1, a2, a3, a4, a5, a6, a7, a8, b0, b1, b2, b3, b4, b5, b6, b7, b8] Scalar29.pre_mul_internal) :
    ∃ out, Dalek.Gen.Scalar29.mul_internal.evalC [a0, a1, a2, a3, a4, a5, a6, a7, a8, b0, b1, b2, b3, b4, b5, b6, b7, b8] = some out ∧
      Dalek.Gen.Scalar29.mul_internal.evalW [a0, a1, a2, a3, a4, a5, a6, a7, a8, b0, b1, b2, b3, b4, b5, b6, b7, b8] = out ∧
      EnvIn out Scalar29.pre_montgomery_reduce ∧
      val29 out = val29 [a0, a1, a2, a3, a4, a5, a6, a7, a8] * val29 [b0, b1, b2, b3, b4, b5, b6, b7, b8] := by
  obtain ⟨out, hC, hW, hpost, hZ⟩ := Prog.norm_sound _ _ _ _ mul_internal_norm_ok _ hin
  have hl := lim29_of_envIn hin
  simp only [toZ_cons, toZ_nil] at hZ hl
  rw [mul_internal_fn_ok] at hZ
  obtain ⟨hla, hlb⟩ := Lim_split9 hl
  obtain ⟨z0, z1, z2, z3, z4, z5, z6, z7, z8, z9, z10, z11, z12, z13, z14, z15, z16, he, hzl, hv⟩ := mul_internal_fn_spec _ _ _ _ _ _ _ _ _ _ _ _ _ _ _ _ _ _ hla hlb
  rw [he] at hZ
  refine ⟨out, hC, hW, envIn_wide_of_lim (length_of_toZ hZ.symm) (by rw [← hZ]; exact hzl), ?_⟩
  have h := val_of_toZ hZ.symm
  rw [hv, repZ_cast9, repZ_cast9] at h
  exact_mod_cast h

/-- `Scalar29::square_internal(a)`: the seventeen coefficients of the integer square -/
theorem square_internal_spec (hin : EnvIn [a0, a1, a2, a3, a4, a5, a6, a7, a8] Scalar29.pre_square_internal) :
    ∃ out, Dalek.Gen.Scalar29.square_internal.evalC [a0, a1, a2, a3, a4, a5, a6, a7, a8] = some out ∧
      Dalek.Gen.Scalar29.square_internal.evalW [a0, a1, a2, a3, a4, a5, a6, a7, a8] = out ∧
      EnvIn out Scalar29.pre_montgomery_reduce ∧
      val29 out = val29 [a0, a1, a2, a3, a4, a5, a6, a7, a8] * val29 [a0, a1, a2, a3, a4, a5, a6, a7, a8] := by
  obtain ⟨out, hC, hW, hpost, hZ⟩ := Prog.norm_sound _ _ _ _ square_internal_norm_ok _ hin
  have hl := lim29_of_envIn hin
  simp only [toZ_cons, toZ_nil] at hZ hl
  rw [square_internal_fn_ok] at hZ
  rw [square_internal_fn_eq] at hZ
  obtain ⟨z0, z1, z2, z3, z4, z5, z6, z7, z8, z9, z10, z11, z12, z13, z14, z15, z16, he, hzl, hv⟩ := school_spec _ _ _ _ _ _ _ _ _ _ _ _ _ _ _ _ _ _ hl hl
  rw [he] at hZ
  refine ⟨out, hC, hW, envIn_wide_of_lim (length_of_toZ hZ.symm) (by rw [← hZ]; exact hzl), ?_⟩
  have h := val_of_toZ hZ.symm
  rw [hv, repZ_cast9] at h
  exact_mod_cast h

/-- `Scalar29::montgomery_square(a)` for `a² < 2^261·l`: canonical `out` with `out·2^261 ≡ a² (mod l)` -/
theorem montgomery_square_spec (hin : EnvIn [a0, a1, a2, a3, a4, a5, a6, a7, a8] Scalar29.pre_montgomery_square)
    (haa : val29 [a0, a1, a2, a3, a4, a5, a6, a7, a8] * val29 [a0, a1, a2, a3, a4, a5, a6, a7, a8] < 2 ^ 261 * l) :
    ∃ out, Dalek.Gen.Scalar29.montgomery_square.evalC [a0, a1, a2, a3, a4, a5, a6, a7, a8] = some out ∧
      Dalek.Gen.Scalar29.montgomery_square.evalW [a0, a1, a2, a3, a4, a5, a6, a7, a8] = out ∧
      EnvIn out limbs29 ∧ val29 out < l ∧
      val29 out * 2 ^ 261 % l = val29 [a0, a1, a2, a3, a4, a5, a6, a7, a8] * val29 [a0, a1, a2, a3, a4, a5, a6, a7, a8] % l := by
  obtain ⟨out, hC, hW, hpost, hZ⟩ := Prog.norm_sound _ _ _ _ montgomery_square_norm_ok _ hin
  have hl := lim29_of_envIn hin
  simp only [toZ_cons, toZ_nil] at hZ hl
  rw [montgomery_square_fn_ok] at hZ
  refine ⟨out, hC, hW, EnvIn_of_itvsLe hpost (by decide +kernel), ?_⟩
  obtain ⟨o0, o1, o2, o3, o4, o5, o6, o7, o8, he, -, hcan, hv⟩ := montgomery_square_fn_spec _ _ _ _ _ _ _ _ _ hl
    (by rw [repZ_cast9]; exact_mod_cast haa)
  rw [he] at hZ
  have h := val_of_toZ hZ.symm
  rw [← h, repZ_cast9] at hv
  rw [← h] at hcan
  exact ⟨by exact_mod_cast hcan.2, nat_mont_mul_of_zmod hv⟩

/-- `Scalar29::from_montgomery(a)` for ANY nine 29-bit limbs: canonical `out` with `out·2^261 ≡ a (mod l)` -/
theorem from_montgomery_spec (hin : EnvIn [a0, a1, a2, a3, a4, a5, a6, a7, a8] Scalar29.pre_from_montgomery) :
    ∃ out, Dalek.Gen.Scalar29.from_montgomery.evalC [a0, a1, a2, a3, a4, a5, a6, a7, a8] = some out ∧
      Dalek.Gen.Scalar29.from_montgomery.evalW [a0, a1, a2, a3, a4, a5, a6, a7, a8] = out ∧
      EnvIn out limbs29 ∧ val29 out < l ∧
      val29 out * 2 ^ 261 % l = val29 [a0, a1, a2, a3, a4, a5, a6, a7, a8] % l := by
  obtain ⟨out, hC, hW, hpost, hZ⟩ := Prog.norm_sound _ _ _ _ from_montgomery_norm_ok _ hin
  have hl := lim29_of_envIn hin
  simp only [toZ_cons, toZ_nil] at hZ hl
  rw [from_montgomery_fn_ok] at hZ
  refine ⟨out, hC, hW, EnvIn_of_itvsLe hpost (by decide +kernel), ?_⟩
  obtain ⟨o0, o1, o2, o3, o4, o5, o6, o7, o8, he, -, hcan, hv⟩ := from_montgomery_fn_spec _ _ _ _ _ _ _ _ _ hl
  rw [he] at hZ
  have h := val_of_toZ hZ.symm
  rw [← h, repZ_cast9] at hv
  rw [← h] at hcan
  exact ⟨by exact_mod_cast hcan.2, nat_mont_of_zmod hv⟩

/-- `Scalar29::as_bytes`: for limbs `< 2^29` with value `< 2^256` the 32 output bytes are the little-endian
encoding of the value -/
theorem as_bytes_spec (hin : EnvIn [a0, a1, a2, a3, a4, a5, a6, a7, a8] Scalar29.pre_as_bytes)
    (hv : val29 [a0, a1, a2, a3, a4, a5, a6, a7, a8] < 2 ^ 256) :
    ∃ out, Dalek.Gen.Scalar29.as_bytes.evalC [a0, a1, a2, a3, a4, a5, a6, a7, a8] = some out ∧
      Dalek.Gen.Scalar29.as_bytes.evalW [a0, a1, a2, a3, a4, a5, a6, a7, a8] = out ∧
      EnvIn out (bytes 32) ∧ leVal out = val29 [a0, a1, a2, a3, a4, a5, a6, a7, a8] := by
  obtain ⟨out, hC, hW, hpost, hZ⟩ := Prog.norm_sound _ _ _ _ as_bytes_norm_ok _ hin
  have hl := lim29_of_envIn hin
  simp only [toZ_cons, toZ_nil] at hZ hl
  rw [as_bytes_fn_ok] at hZ
  refine ⟨out, hC, hW, EnvIn_of_itvsLe hpost (by decide +kernel), ?_⟩
  obtain ⟨hl8, hl1⟩ := Lim_split8 hl
  have h8 : (a8 : Int) < 2 ^ 24 := top_limb_lt_of_lt _ _ _ _ _ _ _ _ _ hl8 (by rw [repZ_cast9]; exact_mod_cast hv)
  have h := leVal_of_toZ hZ.symm
  have hs := as_bytes_fn_spec (a0 : Int) (a1 : Int) (a2 : Int) (a3 : Int) (a4 : Int) (a5 : Int) (a6 : Int) (a7 : Int) (a8 : Int) hl8 ⟨Int.natCast_nonneg a8, h8⟩
  rw [hs, repZ_cast9] at h
  exact_mod_cast h

end

section
variable (z0 z1 z2 z3 z4 z5 z6 z7 z8 z9 z10 z11 z12 z13 z14 z15 z16 : Nat)

/-- `Scalar29::montgomery_reduce(z)` for seventeen words within the contract whose radix-2^29 value `N` is
`< 2^261·l`: canonical `out` with `out·2^261 ≡ N (mod l)` -/
theorem montgomery_reduce_spec (hin : EnvIn [z0, z1, z2, z3, z4, z5, z6, z7, z8, z9, z10, z11, z12, z13, z14, z15, z16] Scalar29.pre_montgomery_reduce)
    (hN : val29 [z0, z1, z2, z3, z4, z5, z6, z7, z8, z9, z10, z11, z12, z13, z14, z15, z16] < 2 ^ 261 * l) :
    ∃ out, Dalek.Gen.Scalar29.montgomery_reduce.evalC [z0, z1, z2, z3, z4, z5, z6, z7, z8, z9, z10, z11, z12, z13, z14, z15, z16] = some out ∧
      Dalek.Gen.Scalar29.montgomery_reduce.evalW [z0, z1, z2, z3, z4, z5, z6, z7, z8, z9, z10, z11, z12, z13, z14, z15, z16] = out ∧
      EnvIn out limbs29 ∧ val29 out < l ∧
      val29 out * 2 ^ 261 % l = val29 [z0, z1, z2, z3, z4, z5, z6, z7, z8, z9, z10, z11, z12, z13, z14, z15, z16] % l := by
  obtain ⟨out, hC, hW, hpost, hZ⟩ := Prog.norm_sound _ _ _ _ montgomery_reduce_norm_ok _ hin
  have hl := limW_of_envIn hin
  simp only [toZ_cons, toZ_nil] at hZ hl
  rw [montgomery_reduce_fn_ok] at hZ
  refine ⟨out, hC, hW, EnvIn_of_itvsLe hpost (by decide +kernel), ?_⟩
  obtain ⟨o0, o1, o2, o3, o4, o5, o6, o7, o8, he, -, hcan, hd⟩ := montgomery_reduce_fn_spec _ _ _ _ _ _ _ _ _ _ _ _ _ _ _ _ _ hl
    (by rw [repZ_cast17]; exact_mod_cast hN)
  rw [he] at hZ
  have h := val_of_toZ hZ.symm
  rw [← h, repZ_cast17] at hd
  rw [← h] at hcan
  exact ⟨by exact_mod_cast hcan.2, nat_mont_of_zmod (zmod_of_dvd hd)⟩

end

section
variable (x0 x1 x2 x3 x4 x5 x6 x7 x8 x9 x10 x11 x12 x13 x14 x15 x16 x17 x18 x19 x20 x21 x22 x23 x24 x25 x26 x27 x28 x29 x30 x31 : Nat)

/-- `Scalar29::from_bytes`: the nine limbs (`< 2^29`, top limb `< 2^24`) of the little-endian value of the 32 bytes -/
theorem from_bytes_spec (hin : EnvIn [x0, x1, x2, x3, x4, x5, x6, x7, x8, x9, x10, x11, x12, x13, x14, x15, x16, x17, x18, x19, x20, x21, x22, x23, x24, x25, x26, x27, x28, x29, x30, x31] Scalar29.pre_from_bytes) :
    ∃ out, Dalek.Gen.Scalar29.from_bytes.evalC [x0, x1, x2, x3, x4, x5, x6, x7, x8, x9, x10, x11, x12, x13, x14, x15, x16, x17, x18, x19, x20, x21, x22, x23, x24, x25, x26, x27, x28, x29, x30, x31] = some out ∧
      Dalek.Gen.Scalar29.from_bytes.evalW [x0, x1, x2, x3, x4, x5, x6, x7, x8, x9, x10, x11, x12, x13, x14, x15, x16, x17, x18, x19, x20, x21, x22, x23, x24, x25, x26, x27, x28, x29, x30, x31] = out ∧
      EnvIn out (rep 8 (ub (2 ^ 29 - 1)) ++ [ub (2 ^ 24 - 1)]) ∧
      val29 out = leVal [x0, x1, x2, x3, x4, x5, x6, x7, x8, x9, x10, x11, x12, x13, x14, x15, x16, x17, x18, x19, x20, x21, x22, x23, x24, x25, x26, x27, x28, x29, x30, x31] := by
  obtain ⟨out, hC, hW, hpost, hZ⟩ := Prog.norm_sound _ _ _ _ from_bytes_norm_ok _ hin
  have hl := limBytes_of_envIn hin
  simp only [toZ_cons, toZ_nil] at hZ hl
  rw [from_bytes_fn_ok] at hZ
  refine ⟨out, hC, hW, EnvIn_of_itvsLe hpost (by decide +kernel), ?_⟩
  obtain ⟨o0, o1, o2, o3, o4, o5, o6, o7, o8, he, -, -, hv⟩ := from_bytes_fn_spec _ _ _ _ _ _ _ _ _ _ _ _ _ _ _ _ _ _ _ _ _ _ _ _ _ _ _ _ _ _ _ _ hl
  rw [he] at hZ
  have h := val_of_toZ hZ.symm
  rw [hv] at h
  have h2 := leValZ_toZ [x0, x1, x2, x3, x4, x5, x6, x7, x8, x9, x10, x11, x12, x13, x14, x15, x16, x17, x18, x19, x20, x21, x22, x23, x24, x25, x26, x27, x28, x29, x30, x31]
  simp only [toZ_cons, toZ_nil] at h2
  rw [h2] at h
  exact_mod_cast h

end

/-! ## composed items -/

open Dalek.IR.Inline

/-- the body of `montgomery_mul` is `mul_internal` followed by `montgomery_reduce`, inlined -/
theorem montgomery_mul_is_pipeline :
    pipeChk [(Dalek.Gen.Scalar29.mul_internal, []), (Dalek.Gen.Scalar29.montgomery_reduce, [])]
      ((List.range Dalek.Gen.Scalar29.montgomery_mul.nIn).map E.v) Dalek.Gen.Scalar29.montgomery_mul.nIn
      Dalek.Gen.Scalar29.montgomery_mul.body = some (Dalek.Gen.Scalar29.montgomery_mul.outs.map E.v, []) := by
  decide +kernel

/-- `mul = montgomery_reduce ∘ mul_internal(·, RR) ∘ montgomery_reduce ∘ mul_internal`, inlined (with `RR` folded) -/
theorem mul_is_pipeline :
    pipeChk [(Dalek.Gen.Scalar29.mul_internal, []), (Dalek.Gen.Scalar29.montgomery_reduce, []),
        (Dalek.Gen.Scalar29.mul_internal, U32.RR), (Dalek.Gen.Scalar29.montgomery_reduce, [])]
      ((List.range Dalek.Gen.Scalar29.mul.nIn).map E.v) Dalek.Gen.Scalar29.mul.nIn
      Dalek.Gen.Scalar29.mul.body = some (Dalek.Gen.Scalar29.mul.outs.map E.v, []) := by
  decide +kernel

theorem square_is_pipeline :
    pipeChk [(Dalek.Gen.Scalar29.square_internal, []), (Dalek.Gen.Scalar29.montgomery_reduce, []),
        (Dalek.Gen.Scalar29.mul_internal, U32.RR), (Dalek.Gen.Scalar29.montgomery_reduce, [])]
      ((List.range Dalek.Gen.Scalar29.square.nIn).map E.v) Dalek.Gen.Scalar29.square.nIn
      Dalek.Gen.Scalar29.square.body = some (Dalek.Gen.Scalar29.square.outs.map E.v, []) := by
  decide +kernel

theorem as_montgomery_is_pipeline :
    pipeChk [(Dalek.Gen.Scalar29.mul_internal, U32.RR), (Dalek.Gen.Scalar29.montgomery_reduce, [])]
      ((List.range Dalek.Gen.Scalar29.as_montgomery.nIn).map E.v) Dalek.Gen.Scalar29.as_montgomery.nIn
      Dalek.Gen.Scalar29.as_montgomery.body = some (Dalek.Gen.Scalar29.as_montgomery.outs.map E.v, []) := by
  decide +kernel

theorem RR_envIn : EnvIn U32.RR (rep 9 Scalar29.lim) := by decide +kernel

/-- checked run of `montgomery_reduce ∘ mul_internal` on `a ++ b` (two limb vectors inside the contract with
`a·b < 2^261·l`) -/
theorem mr_mi_run (a0 a1 a2 a3 a4 a5 a6 a7 a8 b0 b1 b2 b3 b4 b5 b6 b7 b8 : Nat) (hin : EnvIn ([a0, a1, a2, a3, a4, a5, a6, a7, a8] ++ [b0, b1, b2, b3, b4, b5, b6, b7, b8]) Scalar29.pre_mul_internal)
    (hab : val29 [a0, a1, a2, a3, a4, a5, a6, a7, a8] * val29 [b0, b1, b2, b3, b4, b5, b6, b7, b8] < 2 ^ 261 * l) :
    ∃ out, pipeC [(Dalek.Gen.Scalar29.mul_internal, []), (Dalek.Gen.Scalar29.montgomery_reduce, [])] ([a0, a1, a2, a3, a4, a5, a6, a7, a8] ++ [b0, b1, b2, b3, b4, b5, b6, b7, b8]) = some out ∧
      EnvIn out limbs29 ∧ val29 out < l ∧ val29 out * 2 ^ 261 % l = val29 [a0, a1, a2, a3, a4, a5, a6, a7, a8] * val29 [b0, b1, b2, b3, b4, b5, b6, b7, b8] % l := by
  obtain ⟨z, hC1, -, hz, hv1⟩ := mul_internal_spec a0 a1 a2 a3 a4 a5 a6 a7 a8 b0 b1 b2 b3 b4 b5 b6 b7 b8 hin
  obtain ⟨z0, z1, z2, z3, z4, z5, z6, z7, z8, z9, z10, z11, z12, z13, z14, z15, z16, rfl⟩ := list17_of_length (by rw [envIn_length hz]; rfl : z.length = 17)
  obtain ⟨out, hC2, -, ho, hlt, hv2⟩ := montgomery_reduce_spec z0 z1 z2 z3 z4 z5 z6 z7 z8 z9 z10 z11 z12 z13 z14 z15 z16 hz (by rw [hv1]; exact hab)
  refine ⟨out, ?_, ho, hlt, by rw [hv2, hv1]⟩
  simp only [pipeC, List.append_nil, List.cons_append, List.nil_append] at hC1 ⊢
  rw [hC1]; simp only [Option.bind_some, List.append_nil]; rw [hC2]; rfl

/-- the same with `square_internal` as the first stage -/
theorem mr_sq_run (a0 a1 a2 a3 a4 a5 a6 a7 a8 : Nat) (hin : EnvIn [a0, a1, a2, a3, a4, a5, a6, a7, a8] Scalar29.pre_square_internal)
    (haa : val29 [a0, a1, a2, a3, a4, a5, a6, a7, a8] * val29 [a0, a1, a2, a3, a4, a5, a6, a7, a8] < 2 ^ 261 * l) :
    ∃ out, pipeC [(Dalek.Gen.Scalar29.square_internal, []), (Dalek.Gen.Scalar29.montgomery_reduce, [])] [a0, a1, a2, a3, a4, a5, a6, a7, a8] = some out ∧
      EnvIn out limbs29 ∧ val29 out < l ∧ val29 out * 2 ^ 261 % l = val29 [a0, a1, a2, a3, a4, a5, a6, a7, a8] * val29 [a0, a1, a2, a3, a4, a5, a6, a7, a8] % l := by
  obtain ⟨z, hC1, -, hz, hv1⟩ := square_internal_spec a0 a1 a2 a3 a4 a5 a6 a7 a8 hin
  obtain ⟨z0, z1, z2, z3, z4, z5, z6, z7, z8, z9, z10, z11, z12, z13, z14, z15, z16, rfl⟩ := list17_of_length (by rw [envIn_length hz]; rfl : z.length = 17)
  obtain ⟨out, hC2, -, ho, hlt, hv2⟩ := montgomery_reduce_spec z0 z1 z2 z3 z4 z5 z6 z7 z8 z9 z10 z11 z12 z13 z14 z15 z16 hz (by rw [hv1]; exact haa)
  refine ⟨out, ?_, ho, hlt, by rw [hv2, hv1]⟩
  simp only [pipeC, List.append_nil] at hC1 ⊢
  rw [hC1]; simp only [Option.bind_some, List.append_nil]; rw [hC2]; rfl

/-- second half of `mul`/`square`: `montgomery_reduce(mul_internal(c, RR))` for canonical `c` -/
theorem mr_miRR_run (c0 c1 c2 c3 c4 c5 c6 c7 c8 : Nat) (hc : EnvIn [c0, c1, c2, c3, c4, c5, c6, c7, c8] limbs29) :
    ∃ out, pipeC [(Dalek.Gen.Scalar29.mul_internal, U32.RR), (Dalek.Gen.Scalar29.montgomery_reduce, [])] [c0, c1, c2, c3, c4, c5, c6, c7, c8] = some out ∧
      EnvIn out limbs29 ∧ val29 out < l ∧ val29 out * 2 ^ 261 % l = val29 [c0, c1, c2, c3, c4, c5, c6, c7, c8] * val29 U32.RR % l := by
  have hin2 : EnvIn ([c0, c1, c2, c3, c4, c5, c6, c7, c8] ++ U32.RR) Scalar29.pre_mul_internal := envIn_append hc RR_envIn
  have hC9 : val29 [c0, c1, c2, c3, c4, c5, c6, c7, c8] < 2 ^ 261 := by
    have h1 := lim29_of_envIn hc
    simp only [toZ_cons, toZ_nil] at h1
    have h2 := (repZ9_bd _ _ _ _ _ _ _ _ _ h1).2
    rw [repZ_cast9] at h2
    exact_mod_cast h2
  obtain ⟨out, hp, ho, hlt, hv⟩ := mr_mi_run c0 c1 c2 c3 c4 c5 c6 c7 c8 190815506 504634135 361594685 339687255 426956673 70249340 485410621 504909086 328813 hin2
    (by show val29 [c0, c1, c2, c3, c4, c5, c6, c7, c8] * val29 U32.RR < 2 ^ 261 * l
        rw [val29_RR]
        exact Nat.mul_lt_mul'' hC9 (Nat.mod_lt _ (by norm_num [l])))
  refine ⟨out, ?_, ho, hlt, hv⟩
  simp only [pipeC] at hp ⊢
  exact hp

section
variable (a0 a1 a2 a3 a4 a5 a6 a7 a8 b0 b1 b2 b3 b4 b5 b6 b7 b8 : Nat)

/-- `Scalar29::montgomery_mul(a, b)` for `a·b < 2^261·l`: canonical `out` with `out·2^261 ≡ a·b (mod l)` -/
theorem montgomery_mul_spec (hin : EnvIn [a0, a1, a2, a3, a4, a5, a6, a7, a8, b0, b1, b2, b3, b4, b5, b6, b7, b8] Scalar29.pre_mul_internal)
    (hab : val29 [a0, a1, a2, a3, a4, a5, a6, a7, a8] * val29 [b0, b1, b2, b3, b4, b5, b6, b7, b8] < 2 ^ 261 * l) :
    ∃ out, Dalek.Gen.Scalar29.montgomery_mul.evalC [a0, a1, a2, a3, a4, a5, a6, a7, a8, b0, b1, b2, b3, b4, b5, b6, b7, b8] = some out ∧
      Dalek.Gen.Scalar29.montgomery_mul.evalW [a0, a1, a2, a3, a4, a5, a6, a7, a8, b0, b1, b2, b3, b4, b5, b6, b7, b8] = out ∧
      EnvIn out limbs29 ∧ val29 out < l ∧
      val29 out * 2 ^ 261 % l = val29 [a0, a1, a2, a3, a4, a5, a6, a7, a8] * val29 [b0, b1, b2, b3, b4, b5, b6, b7, b8] % l := by
  obtain ⟨out, hp, ho, hlt, hv⟩ := mr_mi_run a0 a1 a2 a3 a4 a5 a6 a7 a8 b0 b1 b2 b3 b4 b5 b6 b7 b8 hin hab
  obtain ⟨hC, hW⟩ := pipe_prog _ _ montgomery_mul_is_pipeline [a0, a1, a2, a3, a4, a5, a6, a7, a8, b0, b1, b2, b3, b4, b5, b6, b7, b8] out rfl hp
  exact ⟨out, hC, hW, ho, hlt, hv⟩

/-- `Scalar29::mul(a, b)` for `a·b < 2^261·l`: the canonical representative of the product -/
theorem mul_spec_of_lt (hin : EnvIn [a0, a1, a2, a3, a4, a5, a6, a7, a8, b0, b1, b2, b3, b4, b5, b6, b7, b8] Scalar29.pre_mul_internal)
    (hab : val29 [a0, a1, a2, a3, a4, a5, a6, a7, a8] * val29 [b0, b1, b2, b3, b4, b5, b6, b7, b8] < 2 ^ 261 * l) :
    ∃ out, Dalek.Gen.Scalar29.mul.evalC [a0, a1, a2, a3, a4, a5, a6, a7, a8, b0, b1, b2, b3, b4, b5, b6, b7, b8] = some out ∧
      Dalek.Gen.Scalar29.mul.evalW [a0, a1, a2, a3, a4, a5, a6, a7, a8, b0, b1, b2, b3, b4, b5, b6, b7, b8] = out ∧
      EnvIn out limbs29 ∧ val29 out = val29 [a0, a1, a2, a3, a4, a5, a6, a7, a8] * val29 [b0, b1, b2, b3, b4, b5, b6, b7, b8] % l := by
  obtain ⟨c, hp1, hc, hclt, hcv⟩ := mr_mi_run a0 a1 a2 a3 a4 a5 a6 a7 a8 b0 b1 b2 b3 b4 b5 b6 b7 b8 hin hab
  obtain ⟨c0, c1, c2, c3, c4, c5, c6, c7, c8, rfl⟩ := list9_of_length (by rw [envIn_length hc]; rfl : c.length = 9)
  obtain ⟨out, hp2, ho, hlt, hv⟩ := mr_miRR_run c0 c1 c2 c3 c4 c5 c6 c7 c8 hc
  have hp : pipeC [(Dalek.Gen.Scalar29.mul_internal, []), (Dalek.Gen.Scalar29.montgomery_reduce, []),
      (Dalek.Gen.Scalar29.mul_internal, U32.RR), (Dalek.Gen.Scalar29.montgomery_reduce, [])] [a0, a1, a2, a3, a4, a5, a6, a7, a8, b0, b1, b2, b3, b4, b5, b6, b7, b8] = some out := by
    simp only [pipeC, Option.bind_eq_some_iff] at hp1 hp2 ⊢
    obtain ⟨z1, h1, c', h2, h3⟩ := hp1
    simp only [Option.some.injEq] at h3; subst h3
    obtain ⟨z2, h4, o', h5, h6⟩ := hp2
    simp only [Option.some.injEq] at h6; subst h6
    exact ⟨z1, h1, _, h2, z2, h4, _, h5, rfl⟩
  obtain ⟨hC, hW⟩ := pipe_prog _ _ mul_is_pipeline [a0, a1, a2, a3, a4, a5, a6, a7, a8, b0, b1, b2, b3, b4, b5, b6, b7, b8] out rfl hp
  exact ⟨out, hC, hW, ho, mont_twice hcv hv val29_RR hlt⟩

/-- `Scalar29::mul(a, b)` on canonical inputs: `a·b mod l`, canonical -/
theorem mul_spec (hin : EnvIn [a0, a1, a2, a3, a4, a5, a6, a7, a8, b0, b1, b2, b3, b4, b5, b6, b7, b8] Scalar29.pre_mul_internal)
    (ha : val29 [a0, a1, a2, a3, a4, a5, a6, a7, a8] < l) (hb : val29 [b0, b1, b2, b3, b4, b5, b6, b7, b8] < l) :
    ∃ out, Dalek.Gen.Scalar29.mul.evalC [a0, a1, a2, a3, a4, a5, a6, a7, a8, b0, b1, b2, b3, b4, b5, b6, b7, b8] = some out ∧
      Dalek.Gen.Scalar29.mul.evalW [a0, a1, a2, a3, a4, a5, a6, a7, a8, b0, b1, b2, b3, b4, b5, b6, b7, b8] = out ∧
      EnvIn out limbs29 ∧ val29 out = val29 [a0, a1, a2, a3, a4, a5, a6, a7, a8] * val29 [b0, b1, b2, b3, b4, b5, b6, b7, b8] % l :=
  mul_spec_of_lt a0 a1 a2 a3 a4 a5 a6 a7 a8 b0 b1 b2 b3 b4 b5 b6 b7 b8 hin (Nat.mul_lt_mul'' (lt_trans ha (by norm_num [l])) hb)

/-- `Scalar29::square(a)` for `a² < 2^261·l`: the canonical representative of the square -/
theorem square_spec_of_lt (hin : EnvIn [a0, a1, a2, a3, a4, a5, a6, a7, a8] Scalar29.pre_square_internal)
    (haa : val29 [a0, a1, a2, a3, a4, a5, a6, a7, a8] * val29 [a0, a1, a2, a3, a4, a5, a6, a7, a8] < 2 ^ 261 * l) :
    ∃ out, Dalek.Gen.Scalar29.square.evalC [a0, a1, a2, a3, a4, a5, a6, a7, a8] = some out ∧
      Dalek.Gen.Scalar29.square.evalW [a0, a1, a2, a3, a4, a5, a6, a7, a8] = out ∧
      EnvIn out limbs29 ∧ val29 out = val29 [a0, a1, a2, a3, a4, a5, a6, a7, a8] * val29 [a0, a1, a2, a3, a4, a5, a6, a7, a8] % l := by
  obtain ⟨c, hp1, hc, hclt, hcv⟩ := mr_sq_run a0 a1 a2 a3 a4 a5 a6 a7 a8 hin haa
  obtain ⟨c0, c1, c2, c3, c4, c5, c6, c7, c8, rfl⟩ := list9_of_length (by rw [envIn_length hc]; rfl : c.length = 9)
  obtain ⟨out, hp2, ho, hlt, hv⟩ := mr_miRR_run c0 c1 c2 c3 c4 c5 c6 c7 c8 hc
  have hp : pipeC [(Dalek.Gen.Scalar29.square_internal, []), (Dalek.Gen.Scalar29.montgomery_reduce, []),
      (Dalek.Gen.Scalar29.mul_internal, U32.RR), (Dalek.Gen.Scalar29.montgomery_reduce, [])] [a0, a1, a2, a3, a4, a5, a6, a7, a8] = some out := by
    simp only [pipeC, Option.bind_eq_some_iff] at hp1 hp2 ⊢
    obtain ⟨z1, h1, c', h2, h3⟩ := hp1
    simp only [Option.some.injEq] at h3; subst h3
    obtain ⟨z2, h4, o', h5, h6⟩ := hp2
    simp only [Option.some.injEq] at h6; subst h6
    exact ⟨z1, h1, _, h2, z2, h4, _, h5, rfl⟩
  obtain ⟨hC, hW⟩ := pipe_prog _ _ square_is_pipeline [a0, a1, a2, a3, a4, a5, a6, a7, a8] out rfl hp
  exact ⟨out, hC, hW, ho, mont_twice hcv hv val29_RR hlt⟩

/-- `Scalar29::square(a)` on a canonical input: `a² mod l`, canonical -/
theorem square_spec (hin : EnvIn [a0, a1, a2, a3, a4, a5, a6, a7, a8] Scalar29.pre_square_internal) (ha : val29 [a0, a1, a2, a3, a4, a5, a6, a7, a8] < l) :
    ∃ out, Dalek.Gen.Scalar29.square.evalC [a0, a1, a2, a3, a4, a5, a6, a7, a8] = some out ∧
      Dalek.Gen.Scalar29.square.evalW [a0, a1, a2, a3, a4, a5, a6, a7, a8] = out ∧
      EnvIn out limbs29 ∧ val29 out = val29 [a0, a1, a2, a3, a4, a5, a6, a7, a8] * val29 [a0, a1, a2, a3, a4, a5, a6, a7, a8] % l :=
  square_spec_of_lt a0 a1 a2 a3 a4 a5 a6 a7 a8 hin (Nat.mul_lt_mul'' (lt_trans ha (by norm_num [l])) ha)

/-- `Scalar29::as_montgomery(a)` for ANY nine 29-bit limbs: the canonical representative of `a·2^261` -/
theorem as_montgomery_spec (hin : EnvIn [a0, a1, a2, a3, a4, a5, a6, a7, a8] limbs29) :
    ∃ out, Dalek.Gen.Scalar29.as_montgomery.evalC [a0, a1, a2, a3, a4, a5, a6, a7, a8] = some out ∧
      Dalek.Gen.Scalar29.as_montgomery.evalW [a0, a1, a2, a3, a4, a5, a6, a7, a8] = out ∧
      EnvIn out limbs29 ∧ val29 out = val29 [a0, a1, a2, a3, a4, a5, a6, a7, a8] * 2 ^ 261 % l := by
  obtain ⟨out, hp, ho, hlt, hv⟩ := mr_miRR_run a0 a1 a2 a3 a4 a5 a6 a7 a8 hin
  obtain ⟨hC, hW⟩ := pipe_prog _ _ as_montgomery_is_pipeline [a0, a1, a2, a3, a4, a5, a6, a7, a8] out rfl hp
  exact ⟨out, hC, hW, ho, mont_as hv val29_RR hlt⟩

end

/-! ## non-vacuity of the hypotheses -/

example : EnvIn (List.replicate 18 (2 ^ 29 - 1)) Scalar29.pre_mul_internal := by decide +kernel
/-- `l - 1` is a canonical input inside the limb contract -/
example : EnvIn [485872620, 9640146, 501691798, 502512965, 333, 0, 0, 0, 1048576] (rep 9 Scalar29.lim) ∧
    val29 [485872620, 9640146, 501691798, 502512965, 333, 0, 0, 0, 1048576] < l := by decide +kernel
example : EnvIn (List.replicate 17 (9 * (2 ^ 29 - 1) * (2 ^ 29 - 1))) Scalar29.pre_montgomery_reduce := by decide +kernel
example : EnvIn [1, 2, 3, 4, 5, 6, 7, 8, 9, 10, 11, 12, 13, 14, 15, 16, 17] Scalar29.pre_montgomery_reduce ∧
    val29 [1, 2, 3, 4, 5, 6, 7, 8, 9, 10, 11, 12, 13, 14, 15, 16, 17] < 2 ^ 261 * l := by decide +kernel

end Dalek.Props.C02.Scalar29

import Dalek.IR.LimbSound
import Dalek.Proofs.Scalar29
/-!
# C02 — scalar arithmetic is exact arithmetic modulo `l` (serial u32 backend, 29-bit limbs; property theorems)

Statements are about `Dalek.Gen.Scalar29.*`: the LimbIR programs REGENERATED from
`curve25519-dalek/src/backend/serial/u32/scalar.rs` (constants `L`, `R`, `RR`, `LFACTOR` from `u32/constants.rs`).
Same shape as `Dalek/Props/C02/Scalar52.lean`: for inputs inside the bound contract (`Dalek.Model.Contracts.Scalar29`:
limbs `< 2^29`; `montgomery_reduce` words `≤ 9·(2^29-1)^2`) and satisfying the value hypothesis, the debug build
(`evalC`) does not panic, the release build (`evalW`) returns the same limbs, the output limbs are `< 2^29`, and
`val29 out` is the stated function of the input values.  The Montgomery radix is `2^261`.

`mul_internal` is the one-level Karatsuba with `wrapping_sub`; `mul_internal_spec` states that its 17 outputs are
nevertheless the schoolbook coefficients and lie inside the `montgomery_reduce` contract (this bound is NOT an
interval fact; it is proved from the value statement).

The composed items `montgomery_mul, mul, square, as_montgomery, from_bytes_wide` are not registered kernels (that the
inlined Karatsuba output stays inside the `montgomery_reduce` contract is not an interval fact).  Their theorems — about
the translated composed PROGRAMS, with the same statement shape — are in `Dalek/Props/C02/Scalar29Composed.lean`.
-/
set_option exponentiation.threshold 600

namespace Dalek.Props.C02.Scalar29
open Dalek.IR Dalek.Proofs.Scalar29 Dalek.Gen.Norm.Scalar29 Dalek.Model.Contracts Dalek.Gen.Consts
open Dalek.Proofs.Scalar52 (ell_eq toZ_cons toZ_nil)
open Dalek.Model.FieldBytes (leVal)

/-- the group order -/
abbrev l : Nat := 2 ^ 252 + 27742317777372353535851937790883648493

/-- output contract: nine limbs `< 2^29` -/
abbrev limbs29 : List Itv := rep 9 (ub (2 ^ 29 - 1))

/-! ## the constants -/

theorem L_value : val29 U32.L = l := val29_L
theorem R_value : val29 U32.R = 2 ^ 261 % l := val29_R
theorem RR_value : val29 U32.RR = (2 ^ 261) ^ 2 % l := val29_RR
theorem LFACTOR_value : U32.LFACTOR * U32.L.getD 0 0 % 2 ^ 29 = 2 ^ 29 - 1 := lfactor_spec

section
variable (a0 a1 a2 a3 a4 a5 a6 a7 a8 b0 b1 b2 b3 b4 b5 b6 b7 b8 : Nat)

/-- `Scalar29::sub(a, b)` on canonical inputs: `(a - b) mod l`, canonical -/
theorem sub_spec (hin : EnvIn [a0, a1, a2, a3, a4, a5, a6, a7, a8, b0, b1, b2, b3, b4, b5, b6, b7, b8] Scalar29.pre_sub)
    (ha : val29 [a0, a1, a2, a3, a4, a5, a6, a7, a8] < l) (hb : val29 [b0, b1, b2, b3, b4, b5, b6, b7, b8] < l) :
    ∃ out, Dalek.Gen.Scalar29.sub.evalC [a0, a1, a2, a3, a4, a5, a6, a7, a8, b0, b1, b2, b3, b4, b5, b6, b7, b8] = some out ∧
      Dalek.Gen.Scalar29.sub.evalW [a0, a1, a2, a3, a4, a5, a6, a7, a8, b0, b1, b2, b3, b4, b5, b6, b7, b8] = out ∧
      EnvIn out limbs29 ∧ val29 out < l ∧
      val29 out = (val29 [a0, a1, a2, a3, a4, a5, a6, a7, a8] + l - val29 [b0, b1, b2, b3, b4, b5, b6, b7, b8]) % l := by
  obtain ⟨out, hC, hW, hpost, hZ⟩ := Prog.norm_sound _ _ _ _ sub_norm_ok _ hin
  have hl := lim29_of_envIn hin
  simp only [toZ_cons, toZ_nil] at hZ hl
  rw [sub_fn_ok] at hZ
  refine ⟨out, hC, hW, EnvIn_of_itvsLe hpost (by decide +kernel), ?_⟩
  obtain ⟨hla, hlb⟩ := Lim_split9 hl
  obtain ⟨o0, o1, o2, o3, o4, o5, o6, o7, o8, he, -, hv⟩ := sub_fn_canon _ _ _ _ _ _ _ _ _ _ _ _ _ _ _ _ _ _ hla hlb
    (by rw [repZ_cast9]; exact_mod_cast ha) (by rw [repZ_cast9]; exact_mod_cast hb)
  rw [he] at hZ
  have h := val_of_toZ hZ.symm
  rw [hv, repZ_cast9, repZ_cast9] at h
  simp only [l, ell_eq] at *
  omega

/-- `Scalar29::sub(a, L)` for `a < 2l`: the canonical representative `a mod l` -/
theorem sub_L_spec (hin : EnvIn ([a0, a1, a2, a3, a4, a5, a6, a7, a8] ++ U32.L) Scalar29.pre_sub)
    (ha : val29 [a0, a1, a2, a3, a4, a5, a6, a7, a8] < 2 * l) :
    ∃ out, Dalek.Gen.Scalar29.sub.evalC ([a0, a1, a2, a3, a4, a5, a6, a7, a8] ++ U32.L) = some out ∧
      Dalek.Gen.Scalar29.sub.evalW ([a0, a1, a2, a3, a4, a5, a6, a7, a8] ++ U32.L) = out ∧
      EnvIn out limbs29 ∧ val29 out = val29 [a0, a1, a2, a3, a4, a5, a6, a7, a8] % l := by
  obtain ⟨out, hC, hW, hpost, hZ⟩ := Prog.norm_sound _ _ _ _ sub_norm_ok _ hin
  refine ⟨out, hC, hW, EnvIn_of_itvsLe hpost (by decide +kernel), ?_⟩
  have hl := lim29_of_envIn hin
  simp only [U32.L, List.cons_append, List.nil_append, toZ_cons, toZ_nil] at hZ hl
  obtain ⟨hla, -⟩ := Lim_split9 hl
  rw [sub_fn_ok] at hZ
  obtain ⟨o0, o1, o2, o3, o4, o5, o6, o7, o8, he, -, hv⟩ := sub_fn_L_spec _ _ _ _ _ _ _ _ _ hla
    (by rw [repZ_cast9]; exact_mod_cast ha)
  norm_num only at hZ
  rw [he] at hZ
  have h := val_of_toZ hZ.symm
  rw [hv, repZ_cast9] at h
  exact nat_emod_of_int h

/-- `Scalar29::add(a, b)` on canonical inputs: `(a + b) mod l`, canonical -/
theorem add_spec (hin : EnvIn [a0, a1, a2, a3, a4, a5, a6, a7, a8, b0, b1, b2, b3, b4, b5, b6, b7, b8] Scalar29.pre_add)
    (ha : val29 [a0, a1, a2, a3, a4, a5, a6, a7, a8] < l) (hb : val29 [b0, b1, b2, b3, b4, b5, b6, b7, b8] < l) :
    ∃ out, Dalek.Gen.Scalar29.add.evalC [a0, a1, a2, a3, a4, a5, a6, a7, a8, b0, b1, b2, b3, b4, b5, b6, b7, b8] = some out ∧
      Dalek.Gen.Scalar29.add.evalW [a0, a1, a2, a3, a4, a5, a6, a7, a8, b0, b1, b2, b3, b4, b5, b6, b7, b8] = out ∧
      EnvIn out limbs29 ∧
      val29 out = (val29 [a0, a1, a2, a3, a4, a5, a6, a7, a8] + val29 [b0, b1, b2, b3, b4, b5, b6, b7, b8]) % l := by
  obtain ⟨out, hC, hW, hpost, hZ⟩ := Prog.norm_sound _ _ _ _ add_norm_ok _ hin
  have hl := lim29_of_envIn hin
  simp only [toZ_cons, toZ_nil] at hZ hl
  rw [add_fn_ok] at hZ
  refine ⟨out, hC, hW, EnvIn_of_itvsLe hpost (by decide +kernel), ?_⟩
  obtain ⟨hla, hlb⟩ := Lim_split9 hl
  obtain ⟨o0, o1, o2, o3, o4, o5, o6, o7, o8, he, -, hv⟩ := add_fn_spec _ _ _ _ _ _ _ _ _ _ _ _ _ _ _ _ _ _ hla hlb
    (by rw [repZ_cast9]; exact_mod_cast ha) (by rw [repZ_cast9]; exact_mod_cast hb)
  rw [he] at hZ
  have h := val_of_toZ hZ.symm
  rw [hv, repZ_cast9, repZ_cast9] at h
  exact nat_emod_of_int (by exact_mod_cast h)

/-- `Scalar29::mul_internal(a, b)` (Karatsuba with wrapping subtractions): the seventeen outputs are the schoolbook
coefficients — their radix-2^29 value is the integer product — and each is within the `montgomery_reduce` contract -/
theorem mul_internal_spec (hin : EnvIn [a0, a1, a2, a3, a4, a5, a6, a7, a8, b0, b1, b2, b3, b4, b5, b6, b7, b8] Scalar29.pre_mul_internal) :
    ∃ out, Dalek.Gen.Scalar29.mul_internal.evalC [a0, a1, a2, a3, a4, a5, a6, a7, a8, b0, b1, b2, b3, b4, b5, b6, b7, b8] = some out ∧
      Dalek.Gen.Scalar29.mul_internal.evalW [a0, a1, a2, a3, a4, a5, a6, a7, a8, b0, b1, b2, b3, b4, b5, b6, b7, b8] = out ∧
      EnvIn out Scalar29.pre_montgomery_reduce ∧
      val29 out = val29 [a0, a1, a2, a3, a4, a5, a6, a7, a8] * val29 [b0, b1, b2, b3, b4, b5, b6, b7, b8] := by
  obtain ⟨out, hC, hW, hpost, hZ⟩ := Prog.norm_sound _ _ _ _ mul_internal_norm_ok _ hin
  have hl := lim29_of_envIn hin
  simp only [toZ_cons, toZ_nil] at hZ hl
  rw [mul_internal_fn_ok] at hZ
  obtain ⟨hla, hlb⟩ := Lim_split9 hl
  obtain ⟨z0, z1, z2, z3, z4, z5, z6, z7, z8, z9, z10, z11, z12, z13, z14, z15, z16, he, hzl, hv⟩ := mul_internal_fn_spec _ _ _ _ _ _ _ _ _ _ _ _ _ _ _ _ _ _ hla hlb
  rw [he] at hZ
  refine ⟨out, hC, hW, envIn_wide_of_lim (length_of_toZ hZ.symm) (by rw [← hZ]; exact hzl), ?_⟩
  have h := val_of_toZ hZ.symm
  rw [hv, repZ_cast9, repZ_cast9] at h
  exact_mod_cast h

/-- `Scalar29::square_internal(a)`: the seventeen coefficients of the integer square -/
theorem square_internal_spec (hin : EnvIn [a0, a1, a2, a3, a4, a5, a6, a7, a8] Scalar29.pre_square_internal) :
    ∃ out, Dalek.Gen.Scalar29.square_internal.evalC [a0, a1, a2, a3, a4, a5, a6, a7, a8] = some out ∧
      Dalek.Gen.Scalar29.square_internal.evalW [a0, a1, a2, a3, a4, a5, a6, a7, a8] = out ∧
      EnvIn out Scalar29.pre_montgomery_reduce ∧
      val29 out = val29 [a0, a1, a2, a3, a4, a5, a6, a7, a8] * val29 [a0, a1, a2, a3, a4, a5, a6, a7, a8] := by
  obtain ⟨out, hC, hW, hpost, hZ⟩ := Prog.norm_sound _ _ _ _ square_internal_norm_ok _ hin
  have hl := lim29_of_envIn hin
  simp only [toZ_cons, toZ_nil] at hZ hl
  rw [square_internal_fn_ok] at hZ
  rw [square_internal_fn_eq] at hZ
  obtain ⟨z0, z1, z2, z3, z4, z5, z6, z7, z8, z9, z10, z11, z12, z13, z14, z15, z16, he, hzl, hv⟩ := school_spec _ _ _ _ _ _ _ _ _ _ _ _ _ _ _ _ _ _ hl hl
  rw [he] at hZ
  refine ⟨out, hC, hW, envIn_wide_of_lim (length_of_toZ hZ.symm) (by rw [← hZ]; exact hzl), ?_⟩
  have h := val_of_toZ hZ.symm
  rw [hv, repZ_cast9] at h
  exact_mod_cast h

/-- `Scalar29::montgomery_square(a)` for `a² < 2^261·l`: canonical `out` with `out·2^261 ≡ a² (mod l)` -/
theorem montgomery_square_spec (hin : EnvIn [a0, a1, a2, a3, a4, a5, a6, a7, a8] Scalar29.pre_montgomery_square)
    (haa : val29 [a0, a1, a2, a3, a4, a5, a6, a7, a8] * val29 [a0, a1, a2, a3, a4, a5, a6, a7, a8] < 2 ^ 261 * l) :
    ∃ out, Dalek.Gen.Scalar29.montgomery_square.evalC [a0, a1, a2, a3, a4, a5, a6, a7, a8] = some out ∧
      Dalek.Gen.Scalar29.montgomery_square.evalW [a0, a1, a2, a3, a4, a5, a6, a7, a8] = out ∧
      EnvIn out limbs29 ∧ val29 out < l ∧
      val29 out * 2 ^ 261 % l = val29 [a0, a1, a2, a3, a4, a5, a6, a7, a8] * val29 [a0, a1, a2, a3, a4, a5, a6, a7, a8] % l := by
  obtain ⟨out, hC, hW, hpost, hZ⟩ := Prog.norm_sound _ _ _ _ montgomery_square_norm_ok _ hin
  have hl := lim29_of_envIn hin
  simp only [toZ_cons, toZ_nil] at hZ hl
  rw [montgomery_square_fn_ok] at hZ
  refine ⟨out, hC, hW, EnvIn_of_itvsLe hpost (by decide +kernel), ?_⟩
  obtain ⟨o0, o1, o2, o3, o4, o5, o6, o7, o8, he, -, hcan, hv⟩ := montgomery_square_fn_spec _ _ _ _ _ _ _ _ _ hl
    (by rw [repZ_cast9]; exact_mod_cast haa)
  rw [he] at hZ
  have h := val_of_toZ hZ.symm
  rw [← h, repZ_cast9] at hv
  rw [← h] at hcan
  exact ⟨by exact_mod_cast hcan.2, nat_mont_mul_of_zmod hv⟩

/-- `Scalar29::from_montgomery(a)` for ANY nine 29-bit limbs: canonical `out` with `out·2^261 ≡ a (mod l)` -/
theorem from_montgomery_spec (hin : EnvIn [a0, a1, a2, a3, a4, a5, a6, a7, a8] Scalar29.pre_from_montgomery) :
    ∃ out, Dalek.Gen.Scalar29.from_montgomery.evalC [a0, a1, a2, a3, a4, a5, a6, a7, a8] = some out ∧
      Dalek.Gen.Scalar29.from_montgomery.evalW [a0, a1, a2, a3, a4, a5, a6, a7, a8] = out ∧
      EnvIn out limbs29 ∧ val29 out < l ∧
      val29 out * 2 ^ 261 % l = val29 [a0, a1, a2, a3, a4, a5, a6, a7, a8] % l := by
  obtain ⟨out, hC, hW, hpost, hZ⟩ := Prog.norm_sound _ _ _ _ from_montgomery_norm_ok _ hin
  have hl := lim29_of_envIn hin
  simp only [toZ_cons, toZ_nil] at hZ hl
  rw [from_montgomery_fn_ok] at hZ
  refine ⟨out, hC, hW, EnvIn_of_itvsLe hpost (by decide +kernel), ?_⟩
  obtain ⟨o0, o1, o2, o3, o4, o5, o6, o7, o8, he, -, hcan, hv⟩ := from_montgomery_fn_spec _ _ _ _ _ _ _ _ _ hl
  rw [he] at hZ
  have h := val_of_toZ hZ.symm
  rw [← h, repZ_cast9] at hv
  rw [← h] at hcan
  exact ⟨by exact_mod_cast hcan.2, nat_mont_of_zmod hv⟩

/-- `Scalar29::as_bytes`: for limbs `< 2^29` with value `< 2^256` the 32 output bytes are the little-endian
encoding of the value -/
theorem as_bytes_spec (hin : EnvIn [a0, a1, a2, a3, a4, a5, a6, a7, a8] Scalar29.pre_as_bytes)
    (hv : val29 [a0, a1, a2, a3, a4, a5, a6, a7, a8] < 2 ^ 256) :
    ∃ out, Dalek.Gen.Scalar29.as_bytes.evalC [a0, a1, a2, a3, a4, a5, a6, a7, a8] = some out ∧
      Dalek.Gen.Scalar29.as_bytes.evalW [a0, a1, a2, a3, a4, a5, a6, a7, a8] = out ∧
      EnvIn out (bytes 32) ∧ leVal out = val29 [a0, a1, a2, a3, a4, a5, a6, a7, a8] := by
  obtain ⟨out, hC, hW, hpost, hZ⟩ := Prog.norm_sound _ _ _ _ as_bytes_norm_ok _ hin
  have hl := lim29_of_envIn hin
  simp only [toZ_cons, toZ_nil] at hZ hl
  rw [as_bytes_fn_ok] at hZ
  refine ⟨out, hC, hW, EnvIn_of_itvsLe hpost (by decide +kernel), ?_⟩
  obtain ⟨hl8, hl1⟩ := Lim_split8 hl
  have h8 : (a8 : Int) < 2 ^ 24 := top_limb_lt_of_lt _ _ _ _ _ _ _ _ _ hl8 (by rw [repZ_cast9]; exact_mod_cast hv)
  have h := leVal_of_toZ hZ.symm
  have hs := as_bytes_fn_spec (a0 : Int) (a1 : Int) (a2 : Int) (a3 : Int) (a4 : Int) (a5 : Int) (a6 : Int) (a7 : Int) (a8 : Int) hl8 ⟨Int.natCast_nonneg a8, h8⟩
  rw [hs, repZ_cast9] at h
  exact_mod_cast h

end

section
variable (z0 z1 z2 z3 z4 z5 z6 z7 z8 z9 z10 z11 z12 z13 z14 z15 z16 : Nat)

/-- `Scalar29::montgomery_reduce(z)` for seventeen words within the contract whose radix-2^29 value `N` is
`< 2^261·l`: canonical `out` with `out·2^261 ≡ N (mod l)` -/
theorem montgomery_reduce_spec (hin : EnvIn [z0, z1, z2, z3, z4, z5, z6, z7, z8, z9, z10, z11, z12, z13, z14, z15, z16] Scalar29.pre_montgomery_reduce)
    (hN : val29 [z0, z1, z2, z3, z4, z5, z6, z7, z8, z9, z10, z11, z12, z13, z14, z15, z16] < 2 ^ 261 * l) :
    ∃ out, Dalek.Gen.Scalar29.montgomery_reduce.evalC [z0, z1, z2, z3, z4, z5, z6, z7, z8, z9, z10, z11, z12, z13, z14, z15, z16] = some out ∧
      Dalek.Gen.Scalar29.montgomery_reduce.evalW [z0, z1, z2, z3, z4, z5, z6, z7, z8, z9, z10, z11, z12, z13, z14, z15, z16] = out ∧
      EnvIn out limbs29 ∧ val29 out < l ∧
      val29 out * 2 ^ 261 % l = val29 [z0, z1, z2, z3, z4, z5, z6, z7, z8, z9, z10, z11, z12, z13, z14, z15, z16] % l := by
  obtain ⟨out, hC, hW, hpost, hZ⟩ := Prog.norm_sound _ _ _ _ montgomery_reduce_norm_ok _ hin
  have hl := limW_of_envIn hin
  simp only [toZ_cons, toZ_nil] at hZ hl
  rw [montgomery_reduce_fn_ok] at hZ
  refine ⟨out, hC, hW, EnvIn_of_itvsLe hpost (by decide +kernel), ?_⟩
  obtain ⟨o0, o1, o2, o3, o4, o5, o6, o7, o8, he, -, hcan, hd⟩ := montgomery_reduce_fn_spec _ _ _ _ _ _ _ _ _ _ _ _ _ _ _ _ _ hl
    (by rw [repZ_cast17]; exact_mod_cast hN)
  rw [he] at hZ
  have h := val_of_toZ hZ.symm
  rw [← h, repZ_cast17] at hd
  rw [← h] at hcan
  exact ⟨by exact_mod_cast hcan.2, nat_mont_of_zmod (zmod_of_dvd hd)⟩

end

section
variable (x0 x1 x2 x3 x4 x5 x6 x7 x8 x9 x10 x11 x12 x13 x14 x15 x16 x17 x18 x19 x20 x21 x22 x23 x24 x25 x26 x27 x28 x29 x30 x31 : Nat)

/-- `Scalar29::from_bytes`: the nine limbs (`< 2^29`, top limb `< 2^24`) of the little-endian value of the 32 bytes -/
theorem from_bytes_spec (hin : EnvIn [x0, x1, x2, x3, x4, x5, x6, x7, x8, x9, x10, x11, x12, x13, x14, x15, x16, x17, x18, x19, x20, x21, x22, x23, x24, x25, x26, x27, x28, x29, x30, x31] Scalar29.pre_from_bytes) :
    ∃ out, Dalek.Gen.Scalar29.from_bytes.evalC [x0, x1, x2, x3, x4, x5, x6, x7, x8, x9, x10, x11, x12, x13, x14, x15, x16, x17, x18, x19, x20, x21, x22, x23, x24, x25, x26, x27, x28, x29, x30, x31] = some out ∧
      Dalek.Gen.Scalar29.from_bytes.evalW [x0, x1, x2, x3, x4, x5, x6, x7, x8, x9, x10, x11, x12, x13, x14, x15, x16, x17, x18, x19, x20, x21, x22, x23, x24, x25, x26, x27, x28, x29, x30, x31] = out ∧
      EnvIn out (rep 8 (ub (2 ^ 29 - 1)) ++ [ub (2 ^ 24 - 1)]) ∧
      val29 out = leVal [x0, x1, x2, x3, x4, x5, x6, x7, x8, x9, x10, x11, x12, x13, x14, x15, x16, x17, x18, x19, x20, x21, x22, x23, x24, x25, x26, x27, x28, x29, x30, x31] := by
  obtain ⟨out, hC, hW, hpost, hZ⟩ := Prog.norm_sound _ _ _ _ from_bytes_norm_ok _ hin
  have hl := limBytes_of_envIn hin
  simp only [toZ_cons, toZ_nil] at hZ hl
  rw [from_bytes_fn_ok] at hZ
  refine ⟨out, hC, hW, EnvIn_of_itvsLe hpost (by decide +kernel), ?_⟩
  obtain ⟨o0, o1, o2, o3, o4, o5, o6, o7, o8, he, -, -, hv⟩ := from_bytes_fn_spec _ _ _ _ _ _ _ _ _ _ _ _ _ _ _ _ _ _ _ _ _ _ _ _ _ _ _ _ _ _ _ _ hl
  rw [he] at hZ
  have h := val_of_toZ hZ.symm
  rw [hv] at h
  have h2 := leValZ_toZ [x0, x1, x2, x3, x4, x5, x6, x7, x8, x9, x10, x11, x12, x13, x14, x15, x16, x17, x18, x19, x20, x21, x22, x23, x24, x25, x26, x27, x28, x29, x30, x31]
  simp only [toZ_cons, toZ_nil] at h2
  rw [h2] at h
  exact_mod_cast h

end

/-! ## non-vacuity of the hypotheses -/

example : EnvIn (List.replicate 18 (2 ^ 29 - 1)) Scalar29.pre_mul_internal := by decide +kernel
/-- `l - 1` is a canonical input inside the limb contract -/
example : EnvIn [485872620, 9640146, 501691798, 502512965, 333, 0, 0, 0, 1048576] (rep 9 Scalar29.lim) ∧
    val29 [485872620, 9640146, 501691798, 502512965, 333, 0, 0, 0, 1048576] < l := by decide +kernel
example : EnvIn (List.replicate 17 (9 * (2 ^ 29 - 1) * (2 ^ 29 - 1))) Scalar29.pre_montgomery_reduce := by decide +kernel
example : EnvIn [1, 2, 3, 4, 5, 6, 7, 8, 9, 10, 11, 12, 13, 14, 15, 16, 17] Scalar29.pre_montgomery_reduce ∧
    val29 [1, 2, 3, 4, 5, 6, 7, 8, 9, 10, 11, 12, 13, 14, 15, 16, 17] < 2 ^ 261 * l := by decide +kernel

end Dalek.Props.C02.Scalar29

import Dalek.Proofs.ScalarApiInvert
import Dalek.Spec.Scalar
/-!
# C02 — the `Scalar` API of `curve25519-dalek/src/scalar.rs` is exact arithmetic modulo `l`, canonical output
(serial u64 backend; property theorems about the glue that composes the 52-bit kernels)

Statements are about `Dalek.Model.ScalarApi.*`: a model whose every arithmetic step is the release semantics
(`evalW`) of a kernel TRANSLATED from `backend/serial/u64/scalar.rs` (`Dalek.Gen.Scalar52.*`, constants from
`Dalek.Gen.Consts`) — a kernel or constant change therefore propagates — and whose COMPOSITION (`reduce`,
`from_bytes_mod_order(_wide)`, `from_canonical_bytes`/`is_canonical`, `Add/Sub/Mul/Neg`, `Sum`, `Product`, `invert`
with the full addition chain of `montgomery_invert`, `batch_invert`, `From<u8…u128>`, `from_hash`, `unpack`/`pack`)
is transcribed by hand from `scalar.rs`.  The composition is NOT regenerated: the tie of that layer to the source
is the transcription (line references in `Dalek/Model/ScalarApi.lean`) plus the differential run of the model.

A scalar is a `List Nat` of 32 bytes; `leVal` is its little-endian value; `Canonical b` means
`EnvIn b (bytes 32)` (exactly 32 entries `≤ 255`) and `leVal b < l`.  The proofs use the kernel theorems of
`Dalek/Props/C02/Scalar52.lean` for every step (`Dalek/Proofs/ScalarApi*.lean`).
-/
set_option exponentiation.threshold 600

namespace Dalek.Props.C02.Api
open Dalek.IR Dalek.Model.Contracts Dalek.Gen.Consts Dalek.Model.ScalarApi Dalek.Proofs.ScalarApi
open Dalek.Model.FieldBytes (leVal natToLeN)
open Dalek.Props.C02.Scalar52 (l)

/-! ## the invariant -/

/-- bit 255 (indeed bits 253–255) of a canonical scalar is clear: `bytes[31] >> 7 == 0` -/
theorem canonical_high_bit_clear {b : List Nat} (h : Canonical b) :
    b.getD 31 0 < 32 ∧ b.getD 31 0 >>> 7 = 0 := by
  have := h.byte31
  refine ⟨this, ?_⟩
  rw [Nat.shiftRight_eq_div_pow]
  omega

/-- canonical byte strings with the same value are equal (so equalities of values below are equalities of
`Scalar`s) -/
theorem canonical_ext {a b : List Nat} (ha : Canonical a) (hb : Canonical b) (h : leVal a = leVal b) : a = b :=
  ha.isSc.unique (by rw [h]; exact hb.isSc)

/-! ## `unpack` / `pack` -/

/-- `Scalar::unpack` then `UnpackedScalar::pack` is the identity on ALL 32-byte strings (also non-canonical ones):
the five limbs hold the full 256-bit integer -/
theorem pack_unpack (b : List Nat) (hb : EnvIn b (bytes 32)) : pack (unpack b) = b := by
  obtain ⟨h1, h2, h3⟩ := unpack_any hb
  obtain ⟨h4, h5⟩ := pack_ok h1 h3
  obtain ⟨hl, hbb⟩ := (Dalek.Proofs.Bytes51.envIn_bytes 32 b).1 hb
  obtain ⟨hl', hbb'⟩ := (Dalek.Proofs.Bytes51.envIn_bytes 32 _).1 h4
  have e : leVal (pack (unpack b)) = leVal b := h5.trans h2
  exact (Dalek.Proofs.Bytes51.eq_natToLeN_of_leVal (l := pack (unpack b)) hl' hbb' e).trans
    (Dalek.Proofs.Bytes51.eq_natToLeN_of_leVal hl hbb rfl).symm

/-- `unpack` of a canonical scalar: five limbs `< 2^52` whose radix-2^52 value is the scalar -/
theorem unpack_spec (b : List Nat) (hb : EnvIn b (bytes 32)) :
    EnvIn (unpack b) Dalek.Props.C02.Scalar52.limbs52 ∧ Dalek.Proofs.Scalar52.val52 (unpack b) = leVal b :=
  ⟨(unpack_any hb).1, (unpack_any hb).2.1⟩

/-! ## reduction and the constructors -/

/-- `Scalar::reduce`, for ALL 32-byte inputs (all 2^256): the canonical encoding of `LE(b) mod l` -/
theorem reduce_spec (b : List Nat) (hb : EnvIn b (bytes 32)) :
    Canonical (reduce52 b) ∧ leVal (reduce52 b) = leVal b % l :=
  ⟨(reduce_isSc hb).canonical, (reduce_isSc hb).val_eq⟩

/-- the same on `List UInt8` against the executable specification `Dalek.Spec.scFromBytesModOrder` -/
theorem reduce_spec_bytes (b : List UInt8) (hb : b.length = 32) :
    Dalek.Spec.leToNat ((reduce52 (b.map UInt8.toNat)).map UInt8.ofNat) = Dalek.Spec.scFromBytesModOrder b := by
  have hin : EnvIn (b.map UInt8.toNat) (bytes 32) :=
    (Dalek.Proofs.Bytes51.envIn_bytes 32 _).2 ⟨by simpa using hb, Dalek.Proofs.Bytes51.allBytes_map_toNat b⟩
  obtain ⟨hc, hv⟩ := reduce_spec _ hin
  rw [Dalek.Proofs.Bytes51.leToNat_map_ofNat _ ((Dalek.Proofs.Bytes51.envIn_bytes 32 _).1 hc.1).2, hv,
    Dalek.Proofs.Bytes51.leVal_map_toNat]
  rfl

/-- `Scalar::from_bytes_mod_order`, for ALL 32-byte inputs -/
theorem from_bytes_mod_order_spec (b : List Nat) (hb : EnvIn b (bytes 32)) :
    Canonical (fromBytesModOrder b) ∧ leVal (fromBytesModOrder b) = leVal b % l :=
  reduce_spec b hb

/-- the `debug_assert_eq!(0u8, s[31] >> 7)` of `from_bytes_mod_order` holds for every input -/
theorem from_bytes_mod_order_high_bit (b : List Nat) (hb : EnvIn b (bytes 32)) :
    (fromBytesModOrder b).getD 31 0 >>> 7 = 0 :=
  (canonical_high_bit_clear (from_bytes_mod_order_spec b hb).1).2

/-- `Scalar::from_bytes_mod_order_wide`, for ALL 64-byte inputs (all 2^512) -/
theorem from_bytes_mod_order_wide_spec (b : List Nat) (hb : EnvIn b (bytes 64)) :
    Canonical (fromBytesModOrderWide b) ∧ leVal (fromBytesModOrderWide b) = leVal b % l :=
  ⟨(wide_isSc hb).canonical, (wide_isSc hb).val_eq⟩

/-- `Scalar::from_hash` / `hash_from_bytes`: the 64-byte digest reduced mod `l` (the hash is a parameter) -/
theorem from_hash_spec (digest : List Nat) (hd : EnvIn digest (bytes 64)) :
    Canonical (fromHash digest) ∧ leVal (fromHash digest) = leVal digest % l :=
  from_bytes_mod_order_wide_spec digest hd

/-- `is_canonical` decides `LE(b) < l`, for ALL 32-byte inputs -/
theorem is_canonical_spec (b : List Nat) (hb : EnvIn b (bytes 32)) : isCanonical b = true ↔ leVal b < l := by
  obtain ⟨hc, hv⟩ := reduce_spec b hb
  simp only [isCanonical, beq_iff_eq]
  constructor
  · intro h
    rw [h]; exact hc.2
  · intro h
    exact canonical_ext ⟨hb, h⟩ hc (by rw [hv, Nat.mod_eq_of_lt h])

/-- `Scalar::from_canonical_bytes`, for ALL 32-byte inputs: `Some` exactly for the encodings of integers `< l`,
and then the scalar IS the input -/
theorem from_canonical_bytes_spec (b : List Nat) (hb : EnvIn b (bytes 32)) :
    ((fromCanonicalBytes b).isSome ↔ leVal b < l) ∧ (∀ s, fromCanonicalBytes b = some s → s = b) ∧
      fromCanonicalBytes b = if leVal b < l then some b else none := by
  have key : fromCanonicalBytes b = if leVal b < l then some b else none := by
    by_cases h : leVal b < l
    · have h1 := (canonical_high_bit_clear (b := b) ⟨hb, h⟩).2
      have h2 := (is_canonical_spec b hb).2 h
      simp only [fromCanonicalBytes, h1, h2, h, beq_self_eq_true, Bool.and_self, ↓reduceIte]
    · have h2 : isCanonical b = false := by
        rw [← Bool.not_eq_true]; exact fun h' => h ((is_canonical_spec b hb).1 h')
      simp only [fromCanonicalBytes, h2, h, Bool.and_false, Bool.false_eq_true, ↓reduceIte]
  refine ⟨?_, ?_, key⟩
  · rw [key]; split <;> simp [*]
  · intro s hs
    rw [key] at hs
    split at hs
    · exact (Option.some.inj hs).symm
    · cases hs

/-- the integer conversions `From<u8>` (`k = 1`), `From<u16>` (2), `From<u32>` (4), `From<u64>` (8),
`From<u128>` (16): the scalar of that integer -/
theorem from_uint_spec (k x : Nat) (hk : k ≤ 16) (hx : x < 256 ^ k) :
    Canonical (fromUInt k x) ∧ leVal (fromUInt k x) = x := by
  have h := fromUInt_isSc hk hx
  have hx' : x < l := lt_of_lt_of_le hx
    (le_trans (Nat.pow_le_pow_right (by norm_num) hk) (by norm_num [l]))
  exact ⟨h.canonical, by rw [h.val_eq, Nat.mod_eq_of_lt hx']⟩

theorem from_u8_spec (x : Nat) (hx : x < 2 ^ 8) : Canonical (fromU8 x) ∧ leVal (fromU8 x) = x :=
  from_uint_spec 1 x (by norm_num) (by norm_num at hx ⊢; exact hx)
theorem from_u16_spec (x : Nat) (hx : x < 2 ^ 16) : Canonical (fromU16 x) ∧ leVal (fromU16 x) = x :=
  from_uint_spec 2 x (by norm_num) (by norm_num at hx ⊢; exact hx)
theorem from_u32_spec (x : Nat) (hx : x < 2 ^ 32) : Canonical (fromU32 x) ∧ leVal (fromU32 x) = x :=
  from_uint_spec 4 x (by norm_num) (by norm_num at hx ⊢; exact hx)
theorem from_u64_spec (x : Nat) (hx : x < 2 ^ 64) : Canonical (fromU64 x) ∧ leVal (fromU64 x) = x :=
  from_uint_spec 8 x (by norm_num) (by norm_num at hx ⊢; exact hx)
theorem from_u128_spec (x : Nat) (hx : x < 2 ^ 128) : Canonical (fromU128 x) ∧ leVal (fromU128 x) = x :=
  from_uint_spec 16 x (by norm_num) (by norm_num at hx ⊢; exact hx)

/-! ## the operators (all pairs of canonical scalars) -/

/-- `&a + &b` -/
theorem add_spec (a b : List Nat) (ha : Canonical a) (hb : Canonical b) :
    Canonical (add a b) ∧ leVal (add a b) = (leVal a + leVal b) % l := by
  have h : IsSc (add a b) ((leVal a + leVal b : Nat) : F) := by
    rw [Nat.cast_add]; exact add_isSc ha.isSc hb.isSc
  exact ⟨h.canonical, h.val_eq⟩

/-- `&a - &b` -/
theorem sub_spec (a b : List Nat) (ha : Canonical a) (hb : Canonical b) :
    Canonical (sub a b) ∧ leVal (sub a b) = (leVal a + l - leVal b) % l := by
  have h : IsSc (sub a b) ((leVal a + (l - leVal b) : Nat) : F) := by
    rw [Nat.cast_add, Nat.cast_sub hb.2.le, ZMod.natCast_self, zero_sub, ← sub_eq_add_neg]
    exact sub_isSc ha.isSc hb.isSc
  have e : leVal a + l - leVal b = leVal a + (l - leVal b) := by have := hb.2; omega
  exact ⟨h.canonical, by rw [e]; exact h.val_eq⟩

/-- `&a * &b` -/
theorem mul_spec (a b : List Nat) (ha : Canonical a) (hb : Canonical b) :
    Canonical (mul a b) ∧ leVal (mul a b) = leVal a * leVal b % l := by
  have h : IsSc (mul a b) ((leVal a * leVal b : Nat) : F) := by
    rw [Nat.cast_mul]; exact mul_isSc ha.isSc hb.isSc
  exact ⟨h.canonical, h.val_eq⟩

/-- `-&a`: `(l - a) mod l`; in particular `0` for `a = 0` (see `neg_zero`) -/
theorem neg_spec (a : List Nat) (ha : Canonical a) :
    Canonical (neg a) ∧ leVal (neg a) = (l - leVal a) % l := by
  have h : IsSc (neg a) ((l - leVal a : Nat) : F) := by
    rw [Nat.cast_sub ha.2.le, ZMod.natCast_self, zero_sub]
    exact neg_isSc ha.isSc
  exact ⟨h.canonical, h.val_eq⟩

/-- the negation of zero is zero (the case a `sub(L, x)` rewrite of `Neg` gets wrong) -/
theorem neg_zero : neg ScalarRs.ZERO = ScalarRs.ZERO := by
  have h := neg_isSc ZERO_isSc
  rw [_root_.neg_zero] at h
  exact h.unique ZERO_isSc

/-- more generally the negation of any canonical scalar of value zero has value zero -/
theorem neg_val_zero (a : List Nat) (ha : Canonical a) (h0 : leVal a = 0) : leVal (neg a) = 0 := by
  rw [(neg_spec a ha).2, h0, Nat.sub_zero, Nat.mod_self]

/-- `Sum`: the fold of `+` from `Scalar::ZERO` -/
theorem sum_spec (bs : List (List Nat)) (h : ∀ b ∈ bs, Canonical b) :
    Canonical (sum bs) ∧ leVal (sum bs) = (bs.map leVal).sum % l := by
  have hs := sum_isSc (forall2_isSc_of_canonical h) ZERO_isSc
  rw [zero_add] at hs
  have e : ((bs.map (fun b => ((leVal b : Nat) : F))).sum) = (((bs.map leVal).sum : Nat) : F) := by
    rw [Nat.cast_list_sum, List.map_map]; rfl
  change IsSc (sum bs) _ at hs
  rw [e] at hs
  exact ⟨hs.canonical, hs.val_eq⟩

/-- `Product`: the fold of `*` from `Scalar::ONE` -/
theorem product_spec (bs : List (List Nat)) (h : ∀ b ∈ bs, Canonical b) :
    Canonical (product bs) ∧ leVal (product bs) = (bs.map leVal).prod % l := by
  have hs := product_isSc (forall2_isSc_of_canonical h) ONE_isSc
  rw [one_mul] at hs
  have e : ((bs.map (fun b => ((leVal b : Nat) : F))).prod) = (((bs.map leVal).prod : Nat) : F) := by
    rw [Nat.cast_list_prod, List.map_map]; rfl
  change IsSc (product bs) _ at hs
  rw [e] at hs
  exact ⟨hs.canonical, hs.val_eq⟩

/-! ## inversion -/

/-- the addition chain of `montgomery_invert` computes the power `l - 2` -/
theorem invert_chain_exponent :
    invertChain (fun e : Nat => 2 * e) (fun a b : Nat => a + b) 1 = l - 2 := invertChain_exponent

/-- `Scalar::invert` on every canonical scalar: the canonical encoding of `x^(l-2) mod l` -/
theorem invert_pow_spec (x : List Nat) (hx : Canonical x) :
    Canonical (invert x) ∧ leVal (invert x) = leVal x ^ (l - 2) % l := by
  have h : IsSc (invert x) ((leVal x ^ (l - 2) : Nat) : F) := by
    rw [Nat.cast_pow, pow_l_sub_two]; exact invert_isSc hx.isSc
  exact ⟨h.canonical, h.val_eq⟩

/-- `Scalar::invert` of a non-zero scalar is its inverse: `invert(x)·x ≡ 1 (mod l)` -/
theorem invert_spec (x : List Nat) (hx : Canonical x) (h0 : leVal x ≠ 0) :
    Canonical (invert x) ∧ leVal (invert x) * leVal x % l = 1 := by
  have h := invert_isSc hx.isSc
  refine ⟨h.canonical, ?_⟩
  have e : ((leVal (invert x) * leVal x : Nat) : F) = ((1 : Nat) : F) := by
    rw [Nat.cast_mul, h.2, Nat.cast_one, inv_mul_cancel₀ (cast_ne_zero h0 hx.2)]
  have := (ZMod.natCast_eq_natCast_iff' _ _ l).1 e
  rwa [Nat.mod_eq_of_lt (show 1 < l by norm_num [l])] at this

/-- `invert(0) = 0` (the documented convention) -/
theorem invert_zero : invert ScalarRs.ZERO = ScalarRs.ZERO := by
  have h := invert_isSc ZERO_isSc
  rw [inv_zero] at h
  exact h.unique ZERO_isSc

/-- `Scalar::batch_invert`, for ALL batch lengths `n ≥ 0`: if all inputs are canonical and non-zero, every input is
replaced by its inverse and the returned scalar is the inverse of the product of the inputs -/
theorem batch_invert_spec (inputs : List (List Nat)) (hc : ∀ b ∈ inputs, Canonical b)
    (h0 : ∀ b ∈ inputs, leVal b ≠ 0) :
    List.Forall₂ (fun out inp => Canonical out ∧ leVal out * leVal inp % l = 1) (batchInvert inputs).1 inputs ∧
      Canonical (batchInvert inputs).2 ∧
      leVal (batchInvert inputs).2 * (inputs.map leVal).prod % l = 1 := by
  have hne : ∀ x ∈ inputs.map (fun b => ((leVal b : Nat) : F)), x ≠ 0 := by
    intro x hx
    obtain ⟨b, hb, rfl⟩ := List.mem_map.1 hx
    exact cast_ne_zero (h0 b hb) (hc b hb).2
  obtain ⟨h1, h2⟩ := batchInvert_isSc (forall2_isSc_of_canonical hc) hne
  have one_lt : 1 < l := by norm_num [l]
  refine ⟨?_, h2.canonical, ?_⟩
  · rw [List.forall₂_map_right_iff] at h1
    -- pointwise, using membership for the non-zero hypothesis
    have aux : ∀ {os is : List (List Nat)}, (∀ b ∈ is, Canonical b ∧ leVal b ≠ 0) →
        List.Forall₂ (fun o b => IsSc o (((leVal b : Nat) : F))⁻¹) os is →
        List.Forall₂ (fun out inp => Canonical out ∧ leVal out * leVal inp % l = 1) os is := by
      intro os is hm hf
      induction hf with
      | nil => exact .nil
      | cons h hs ih =>
        rename_i o b os' is'
        refine .cons ⟨h.canonical, ?_⟩ (ih (fun x hx => hm x (by simp [hx])))
        obtain ⟨hcb, h0b⟩ := hm b (by simp)
        have e : ((leVal o * leVal b : Nat) : F) = ((1 : Nat) : F) := by
          rw [Nat.cast_mul, h.2, Nat.cast_one, inv_mul_cancel₀ (cast_ne_zero h0b hcb.2)]
        have := (ZMod.natCast_eq_natCast_iff' _ _ l).1 e
        rwa [Nat.mod_eq_of_lt one_lt] at this
    exact aux (fun b hb => ⟨hc b hb, h0 b hb⟩) h1
  · have hp : (inputs.map (fun b => ((leVal b : Nat) : F))).prod ≠ 0 :=
      List.prod_ne_zero (fun h => hne 0 h rfl)
    have e0 : ((inputs.map (fun b => ((leVal b : Nat) : F))).prod) = (((inputs.map leVal).prod : Nat) : F) := by
      rw [Nat.cast_list_prod, List.map_map]; rfl
    have e : ((leVal (batchInvert inputs).2 * (inputs.map leVal).prod : Nat) : F) = ((1 : Nat) : F) := by
      rw [Nat.cast_mul, h2.2, ← e0, Nat.cast_one, inv_mul_cancel₀ hp]
    have := (ZMod.natCast_eq_natCast_iff' _ _ l).1 e
    rwa [Nat.mod_eq_of_lt one_lt] at this

/-- the empty batch returns one -/
theorem batch_invert_nil : batchInvert [] = ([], ScalarRs.ONE) := by
  have h := (batchInvert_isSc (bs := []) (xs := []) .nil (by simp)).2
  rw [List.prod_nil, inv_one] at h
  have e : (batchInvert []).2 = ScalarRs.ONE := h.unique ONE_isSc
  exact Prod.ext rfl e

/-! ## every constructor and operator returns a canonical scalar -/

/-- **canonical invariant** (scalar invariant #2): every public constructor/operator of the model returns 32 bytes
whose value is `< l` — for ALL byte inputs of the reducing constructors and all canonical operands -/
theorem canonical_invariant :
    (∀ b, EnvIn b (bytes 32) → Canonical (fromBytesModOrder b)) ∧
    (∀ b, EnvIn b (bytes 64) → Canonical (fromBytesModOrderWide b)) ∧
    (∀ d, EnvIn d (bytes 64) → Canonical (fromHash d)) ∧
    (∀ b s, EnvIn b (bytes 32) → fromCanonicalBytes b = some s → Canonical s) ∧
    (∀ k x, k ≤ 16 → x < 256 ^ k → Canonical (fromUInt k x)) ∧
    Canonical ScalarRs.ZERO ∧ Canonical ScalarRs.ONE ∧
    (∀ a b, Canonical a → Canonical b → Canonical (add a b)) ∧
    (∀ a b, Canonical a → Canonical b → Canonical (sub a b)) ∧
    (∀ a b, Canonical a → Canonical b → Canonical (mul a b)) ∧
    (∀ a, Canonical a → Canonical (neg a)) ∧
    (∀ bs, (∀ b ∈ bs, Canonical b) → Canonical (sum bs)) ∧
    (∀ bs, (∀ b ∈ bs, Canonical b) → Canonical (product bs)) ∧
    (∀ a, Canonical a → Canonical (invert a)) ∧
    (∀ bs, (∀ b ∈ bs, Canonical b) → (∀ o ∈ (batchInvert bs).1, Canonical o) ∧ Canonical (batchInvert bs).2) := by
  refine ⟨fun b hb => (from_bytes_mod_order_spec b hb).1, fun b hb => (from_bytes_mod_order_wide_spec b hb).1,
    fun d hd => (from_hash_spec d hd).1, ?_, fun k x hk hx => (from_uint_spec k x hk hx).1,
    ZERO_isSc.canonical, ONE_isSc.canonical,
    fun a b ha hb => (add_spec a b ha hb).1, fun a b ha hb => (sub_spec a b ha hb).1,
    fun a b ha hb => (mul_spec a b ha hb).1, fun a ha => (neg_spec a ha).1,
    fun bs h => (sum_spec bs h).1, fun bs h => (product_spec bs h).1,
    fun a ha => (invert_pow_spec a ha).1, ?_⟩
  · intro b s hb hs
    obtain ⟨h1, h2, -⟩ := from_canonical_bytes_spec b hb
    have := h2 s hs
    subst this
    exact ⟨hb, h1.1 (by rw [hs]; rfl)⟩
  · intro bs h
    -- also for inputs containing zero: every output is a packed canonical limb vector
    have hz := batchInvert_canonical (forall2_isSc_of_canonical h)
    exact hz

/-! ## non-vacuity -/

example : Canonical (natToLeN (l - 1) 32) := by
  refine ⟨by decide +kernel, ?_⟩
  rw [Dalek.Proofs.Bytes51.leVal_natToLeN]; decide +kernel
example : EnvIn (List.replicate 32 255) (bytes 32) ∧ ¬ leVal (List.replicate 32 255) < l := by decide +kernel
example : EnvIn (List.replicate 64 255) (bytes 64) := by decide +kernel
example : ∃ b, Canonical b ∧ leVal b ≠ 0 := ⟨ScalarRs.ONE, ONE_isSc.canonical, by decide +kernel⟩

/-! ## axiom audit -/

/-- info: 'Dalek.Props.C02.Api.reduce_spec' depends on axioms: [propext, Classical.choice, Quot.sound] -/
#guard_msgs in #print axioms reduce_spec
/-- info: 'Dalek.Props.C02.Api.from_bytes_mod_order_wide_spec' depends on axioms: [propext, Classical.choice, Quot.sound] -/
#guard_msgs in #print axioms from_bytes_mod_order_wide_spec
/-- info: 'Dalek.Props.C02.Api.from_canonical_bytes_spec' depends on axioms: [propext, Classical.choice, Quot.sound] -/
#guard_msgs in #print axioms from_canonical_bytes_spec
/-- info: 'Dalek.Props.C02.Api.from_uint_spec' depends on axioms: [propext, Classical.choice, Quot.sound] -/
#guard_msgs in #print axioms from_uint_spec
/-- info: 'Dalek.Props.C02.Api.add_spec' depends on axioms: [propext, Classical.choice, Quot.sound] -/
#guard_msgs in #print axioms add_spec
/-- info: 'Dalek.Props.C02.Api.sub_spec' depends on axioms: [propext, Classical.choice, Quot.sound] -/
#guard_msgs in #print axioms sub_spec
/-- info: 'Dalek.Props.C02.Api.mul_spec' depends on axioms: [propext, Classical.choice, Quot.sound] -/
#guard_msgs in #print axioms mul_spec
/-- info: 'Dalek.Props.C02.Api.neg_spec' depends on axioms: [propext, Classical.choice, Quot.sound] -/
#guard_msgs in #print axioms neg_spec
/-- info: 'Dalek.Props.C02.Api.neg_zero' depends on axioms: [propext, Classical.choice, Quot.sound] -/
#guard_msgs in #print axioms neg_zero
/-- info: 'Dalek.Props.C02.Api.sum_spec' depends on axioms: [propext, Classical.choice, Quot.sound] -/
#guard_msgs in #print axioms sum_spec
/-- info: 'Dalek.Props.C02.Api.product_spec' depends on axioms: [propext, Classical.choice, Quot.sound] -/
#guard_msgs in #print axioms product_spec
/-- info: 'Dalek.Props.C02.Api.invert_spec' depends on axioms: [propext, Classical.choice, Quot.sound] -/
#guard_msgs in #print axioms invert_spec
/-- info: 'Dalek.Props.C02.Api.batch_invert_spec' depends on axioms: [propext, Classical.choice, Quot.sound] -/
#guard_msgs in #print axioms batch_invert_spec
/-- info: 'Dalek.Props.C02.Api.canonical_invariant' depends on axioms: [propext, Classical.choice, Quot.sound] -/
#guard_msgs in #print axioms canonical_invariant
/-- info: 'Dalek.Props.C02.Api.pack_unpack' depends on axioms: [propext, Classical.choice, Quot.sound] -/
#guard_msgs in #print axioms pack_unpack

end Dalek.Props.C02.Api

import Dalek.Proofs.ScalarApi29Kernels
import Dalek.Props.C02.Api
/-!
# C02 / C05 — the `Scalar` API of `curve25519-dalek/src/scalar.rs` on the serial u32 backend (`Scalar29`):
exact arithmetic modulo `l`, canonical output, and AGREEMENT with the serial u64 backend

Statements are about `Dalek.Model.ScalarApi29.*`: the backend-parametric transcription of the `scalar.rs` glue
(`Dalek/Model/ScalarKernels.lean`: `reduce`, `from_bytes_mod_order(_wide)`, `from_canonical_bytes`/`is_canonical`,
`Add/Sub/Mul/Neg`, `Sum`, `Product`, `invert` with the full addition chain of `montgomery_invert`, `batch_invert`,
`From<u8…u128>`, `from_hash`, `unpack`/`pack`) instantiated at `K29`, the record of the release semantics (`evalW`)
of the kernels TRANSLATED from `backend/serial/u32/scalar.rs` (`Dalek.Gen.Scalar29.*`, nine 29-bit limbs, Montgomery
radix `2^261`, constant `R` from `Dalek.Gen.Consts.U32`).  A kernel or constant change therefore propagates; the
COMPOSITION is a hand transcription (line references in `Dalek/Model/ScalarKernels.lean` / `ScalarApi.lean`), tied to
the source by the transcription and the differential run.

Same theorem list and statement shapes as `Dalek/Props/C02/Api.lean` (u64): a scalar is a `List Nat` of 32 bytes,
`leVal` its little-endian value, `Canonical b` (`Dalek.Proofs.ScalarApi.Canonical`, the SAME predicate as for the
u64 backend) means `EnvIn b (bytes 32)` and `leVal b < l`.  The backend-independent lemmas
`Api.canonical_ext`, `Api.canonical_high_bit_clear` and the addition-chain exponent are reused from there.
The proofs use the kernel theorems of `Dalek/Props/C02/Scalar29.lean` / `Scalar29Composed.lean` for every step
(`Dalek/Proofs/ScalarApi29*.lean`).

**C05 (backends agree), scalar API** — `api_agree_*`: for all inputs in the domain of each operation (ALL byte
strings for the reducing constructors, `is_canonical`, `from_canonical_bytes` and `Neg`; all canonical operands for
the operators, `invert`, and every list — zero entries included — for `Sum`, `Product`, `batch_invert`) the u32
model and the u64 model `Dalek.Model.ScalarApi.*` return the SAME bytes.
-/
set_option exponentiation.threshold 600

namespace Dalek.Props.C02.Api29
open Dalek.IR Dalek.Model.Contracts Dalek.Gen.Consts Dalek.Model Dalek.Model.ScalarApi29
open Dalek.Proofs.ScalarApi (F Canonical IsSc ZERO_isSc ONE_isSc forall2_isSc_of_canonical cast_ne_zero
  pow_l_sub_two)
open Dalek.Proofs.ScalarApiGen (ok29 ok52)
open Dalek.Model.FieldBytes (leVal natToLeN)
open Dalek.Props.C02.Scalar52 (l)

/-! ## `unpack` / `pack` -/

/-- `Scalar::unpack` then `UnpackedScalar::pack` is the identity on ALL 32-byte strings (also non-canonical ones):
the nine limbs hold the full 256-bit integer -/
theorem pack_unpack (b : List Nat) (hb : EnvIn b (bytes 32)) : pack (unpack b) = b := by
  obtain ⟨h1, h2, h3⟩ := Dalek.Proofs.ScalarApiGen.unpack_any ok29 hb
  obtain ⟨h4, h5⟩ := Dalek.Proofs.ScalarApiGen.pack_ok ok29 h1 h3
  obtain ⟨hl, hbb⟩ := (Dalek.Proofs.Bytes51.envIn_bytes 32 b).1 hb
  obtain ⟨hl', hbb'⟩ := (Dalek.Proofs.Bytes51.envIn_bytes 32 _).1 h4
  have e : leVal (pack (unpack b)) = leVal b := h5.trans h2
  exact (Dalek.Proofs.Bytes51.eq_natToLeN_of_leVal (l := pack (unpack b)) hl' hbb' e).trans
    (Dalek.Proofs.Bytes51.eq_natToLeN_of_leVal hl hbb rfl).symm

/-- `unpack` of any 32 bytes: nine limbs `< 2^29` whose radix-2^29 value is the little-endian value -/
theorem unpack_spec (b : List Nat) (hb : EnvIn b (bytes 32)) :
    EnvIn (unpack b) Dalek.Props.C02.Scalar29.limbs29 ∧ Dalek.Proofs.Scalar29.val29 (unpack b) = leVal b :=
  ⟨(Dalek.Proofs.ScalarApiGen.unpack_any ok29 hb).1, (Dalek.Proofs.ScalarApiGen.unpack_any ok29 hb).2.1⟩

/-! ## reduction and the constructors -/

/-- `Scalar::reduce`, for ALL 32-byte inputs (all 2^256): the canonical encoding of `LE(b) mod l` -/
theorem reduce_spec (b : List Nat) (hb : EnvIn b (bytes 32)) :
    Canonical (reduce29 b) ∧ leVal (reduce29 b) = leVal b % l :=
  ⟨(Dalek.Proofs.ScalarApiGen.reduce_isSc ok29 hb).canonical, (Dalek.Proofs.ScalarApiGen.reduce_isSc ok29 hb).val_eq⟩

/-- the same on `List UInt8` against the executable specification `Dalek.Spec.scFromBytesModOrder` -/
theorem reduce_spec_bytes (b : List UInt8) (hb : b.length = 32) :
    Dalek.Spec.leToNat ((reduce29 (b.map UInt8.toNat)).map UInt8.ofNat) = Dalek.Spec.scFromBytesModOrder b := by
  have hin : EnvIn (b.map UInt8.toNat) (bytes 32) :=
    (Dalek.Proofs.Bytes51.envIn_bytes 32 _).2 ⟨by simpa using hb, Dalek.Proofs.Bytes51.allBytes_map_toNat b⟩
  obtain ⟨hc, hv⟩ := reduce_spec _ hin
  rw [Dalek.Proofs.Bytes51.leToNat_map_ofNat _ ((Dalek.Proofs.Bytes51.envIn_bytes 32 _).1 hc.1).2, hv,
    Dalek.Proofs.Bytes51.leVal_map_toNat]
  rfl

/-- `Scalar::from_bytes_mod_order`, for ALL 32-byte inputs -/
theorem from_bytes_mod_order_spec (b : List Nat) (hb : EnvIn b (bytes 32)) :
    Canonical (fromBytesModOrder b) ∧ leVal (fromBytesModOrder b) = leVal b % l :=
  reduce_spec b hb

/-- the `debug_assert_eq!(0u8, s[31] >> 7)` of `from_bytes_mod_order` holds for every input -/
theorem from_bytes_mod_order_high_bit (b : List Nat) (hb : EnvIn b (bytes 32)) :
    (fromBytesModOrder b).getD 31 0 >>> 7 = 0 :=
  (Api.canonical_high_bit_clear (from_bytes_mod_order_spec b hb).1).2

/-- `Scalar::from_bytes_mod_order_wide`, for ALL 64-byte inputs (all 2^512) -/
theorem from_bytes_mod_order_wide_spec (b : List Nat) (hb : EnvIn b (bytes 64)) :
    Canonical (fromBytesModOrderWide b) ∧ leVal (fromBytesModOrderWide b) = leVal b % l :=
  ⟨(Dalek.Proofs.ScalarApiGen.wide_isSc ok29 hb).canonical, (Dalek.Proofs.ScalarApiGen.wide_isSc ok29 hb).val_eq⟩

/-- `Scalar::from_hash` / `hash_from_bytes`: the 64-byte digest reduced mod `l` (the hash is a parameter) -/
theorem from_hash_spec (digest : List Nat) (hd : EnvIn digest (bytes 64)) :
    Canonical (fromHash digest) ∧ leVal (fromHash digest) = leVal digest % l :=
  from_bytes_mod_order_wide_spec digest hd

/-- `is_canonical` decides `LE(b) < l`, for ALL 32-byte inputs -/
theorem is_canonical_spec (b : List Nat) (hb : EnvIn b (bytes 32)) : isCanonical b = true ↔ leVal b < l := by
  obtain ⟨hc, hv⟩ := reduce_spec b hb
  simp only [isCanonical, ScalarKernels.isCanonical, beq_iff_eq]
  constructor
  · intro h
    rw [h]; exact hc.2
  · intro h
    exact Api.canonical_ext ⟨hb, h⟩ hc (by rw [hv, Nat.mod_eq_of_lt h])

/-- `Scalar::from_canonical_bytes`, for ALL 32-byte inputs: `Some` exactly for the encodings of integers `< l`,
and then the scalar IS the input -/
theorem from_canonical_bytes_spec (b : List Nat) (hb : EnvIn b (bytes 32)) :
    ((fromCanonicalBytes b).isSome ↔ leVal b < l) ∧ (∀ s, fromCanonicalBytes b = some s → s = b) ∧
      fromCanonicalBytes b = if leVal b < l then some b else none := by
  have key : fromCanonicalBytes b = if leVal b < l then some b else none := by
    by_cases h : leVal b < l
    · have h1 := (Api.canonical_high_bit_clear (b := b) ⟨hb, h⟩).2
      have h2 : K29.isCanonical b = true := (is_canonical_spec b hb).2 h
      simp only [fromCanonicalBytes, ScalarKernels.fromCanonicalBytes, h1, h2, h, beq_self_eq_true, Bool.and_self,
        ↓reduceIte]
    · have h2 : K29.isCanonical b = false := by
        rw [← Bool.not_eq_true]; exact fun h' => h ((is_canonical_spec b hb).1 h')
      simp only [fromCanonicalBytes, ScalarKernels.fromCanonicalBytes, h2, h, Bool.and_false, Bool.false_eq_true,
        ↓reduceIte]
  refine ⟨?_, ?_, key⟩
  · rw [key]; split <;> simp [*]
  · intro s hs
    rw [key] at hs
    split at hs
    · exact (Option.some.inj hs).symm
    · cases hs

/-- the integer conversions `From<u8>` (`k = 1`), `From<u16>` (2), `From<u32>` (4), `From<u64>` (8),
`From<u128>` (16): the scalar of that integer (these conversions do not touch the backend) -/
theorem from_uint_spec (k x : Nat) (hk : k ≤ 16) (hx : x < 256 ^ k) :
    Canonical (fromUInt k x) ∧ leVal (fromUInt k x) = x :=
  Api.from_uint_spec k x hk hx

theorem from_u8_spec (x : Nat) (hx : x < 2 ^ 8) : Canonical (fromU8 x) ∧ leVal (fromU8 x) = x :=
  Api.from_u8_spec x hx
theorem from_u16_spec (x : Nat) (hx : x < 2 ^ 16) : Canonical (fromU16 x) ∧ leVal (fromU16 x) = x :=
  Api.from_u16_spec x hx
theorem from_u32_spec (x : Nat) (hx : x < 2 ^ 32) : Canonical (fromU32 x) ∧ leVal (fromU32 x) = x :=
  Api.from_u32_spec x hx
theorem from_u64_spec (x : Nat) (hx : x < 2 ^ 64) : Canonical (fromU64 x) ∧ leVal (fromU64 x) = x :=
  Api.from_u64_spec x hx
theorem from_u128_spec (x : Nat) (hx : x < 2 ^ 128) : Canonical (fromU128 x) ∧ leVal (fromU128 x) = x :=
  Api.from_u128_spec x hx

/-! ## the operators (all pairs of canonical scalars) -/

/-- `&a + &b` -/
theorem add_spec (a b : List Nat) (ha : Canonical a) (hb : Canonical b) :
    Canonical (add a b) ∧ leVal (add a b) = (leVal a + leVal b) % l := by
  have h : IsSc (add a b) ((leVal a + leVal b : Nat) : F) := by
    rw [Nat.cast_add]; exact Dalek.Proofs.ScalarApiGen.add_isSc ok29 ha.isSc hb.isSc
  exact ⟨h.canonical, h.val_eq⟩

/-- `&a - &b` -/
theorem sub_spec (a b : List Nat) (ha : Canonical a) (hb : Canonical b) :
    Canonical (sub a b) ∧ leVal (sub a b) = (leVal a + l - leVal b) % l := by
  have h : IsSc (sub a b) ((leVal a + (l - leVal b) : Nat) : F) := by
    rw [Nat.cast_add, Nat.cast_sub hb.2.le, ZMod.natCast_self, zero_sub, ← sub_eq_add_neg]
    exact Dalek.Proofs.ScalarApiGen.sub_isSc ok29 ha.isSc hb.isSc
  have e : leVal a + l - leVal b = leVal a + (l - leVal b) := by have := hb.2; omega
  exact ⟨h.canonical, by rw [e]; exact h.val_eq⟩

/-- `&a * &b` -/
theorem mul_spec (a b : List Nat) (ha : Canonical a) (hb : Canonical b) :
    Canonical (mul a b) ∧ leVal (mul a b) = leVal a * leVal b % l := by
  have h : IsSc (mul a b) ((leVal a * leVal b : Nat) : F) := by
    rw [Nat.cast_mul]; exact Dalek.Proofs.ScalarApiGen.mul_isSc ok29 ha.isSc hb.isSc
  exact ⟨h.canonical, h.val_eq⟩

/-- `-&a`: `(l - a) mod l`; in particular `0` for `a = 0` (see `neg_zero`) -/
theorem neg_spec (a : List Nat) (ha : Canonical a) :
    Canonical (neg a) ∧ leVal (neg a) = (l - leVal a) % l := by
  have h : IsSc (neg a) ((l - leVal a : Nat) : F) := by
    rw [Nat.cast_sub ha.2.le, ZMod.natCast_self, zero_sub]
    exact Dalek.Proofs.ScalarApiGen.neg_isSc ok29 ha.isSc
  exact ⟨h.canonical, h.val_eq⟩

/-- the negation of zero is zero (the case a `sub(L, x)` rewrite of `Neg` gets wrong) -/
theorem neg_zero : neg ScalarRs.ZERO = ScalarRs.ZERO := by
  have h := Dalek.Proofs.ScalarApiGen.neg_isSc ok29 ZERO_isSc
  rw [_root_.neg_zero] at h
  exact h.unique ZERO_isSc

/-- more generally the negation of any canonical scalar of value zero has value zero -/
theorem neg_val_zero (a : List Nat) (ha : Canonical a) (h0 : leVal a = 0) : leVal (neg a) = 0 := by
  rw [(neg_spec a ha).2, h0, Nat.sub_zero, Nat.mod_self]

/-- `Sum`: the fold of `+` from `Scalar::ZERO` -/
theorem sum_spec (bs : List (List Nat)) (h : ∀ b ∈ bs, Canonical b) :
    Canonical (sum bs) ∧ leVal (sum bs) = (bs.map leVal).sum % l := by
  have hs := Dalek.Proofs.ScalarApiGen.sum_isSc ok29 (forall2_isSc_of_canonical h) ZERO_isSc
  rw [zero_add] at hs
  have e : ((bs.map (fun b => ((leVal b : Nat) : F))).sum) = (((bs.map leVal).sum : Nat) : F) := by
    rw [Nat.cast_list_sum, List.map_map]; rfl
  change IsSc (sum bs) _ at hs
  rw [e] at hs
  exact ⟨hs.canonical, hs.val_eq⟩

/-- `Product`: the fold of `*` from `Scalar::ONE` -/
theorem product_spec (bs : List (List Nat)) (h : ∀ b ∈ bs, Canonical b) :
    Canonical (product bs) ∧ leVal (product bs) = (bs.map leVal).prod % l := by
  have hs := Dalek.Proofs.ScalarApiGen.product_isSc ok29 (forall2_isSc_of_canonical h) ONE_isSc
  rw [one_mul] at hs
  have e : ((bs.map (fun b => ((leVal b : Nat) : F))).prod) = (((bs.map leVal).prod : Nat) : F) := by
    rw [Nat.cast_list_prod, List.map_map]; rfl
  change IsSc (product bs) _ at hs
  rw [e] at hs
  exact ⟨hs.canonical, hs.val_eq⟩

/-! ## inversion -/

/-- the addition chain of `montgomery_invert` (the SAME chain `Dalek.Model.ScalarApi.invertChain` the u32 model
runs on `Scalar29::montgomery_square` / `montgomery_mul`) computes the power `l - 2` -/
theorem invert_chain_exponent :
    Dalek.Model.ScalarApi.invertChain (fun e : Nat => 2 * e) (fun a b : Nat => a + b) 1 = l - 2 :=
  Api.invert_chain_exponent

/-- the u32 `montgomery_invert` IS that chain on the translated `Scalar29` kernels -/
theorem montgomery_invert_is_chain (a : List Nat) :
    montgomeryInvert a = Dalek.Model.ScalarApi.invertChain montgomerySquare29 montgomeryMul29 a := rfl

/-- `Scalar::invert` on every canonical scalar: the canonical encoding of `x^(l-2) mod l` -/
theorem invert_pow_spec (x : List Nat) (hx : Canonical x) :
    Canonical (invert x) ∧ leVal (invert x) = leVal x ^ (l - 2) % l := by
  have h : IsSc (invert x) ((leVal x ^ (l - 2) : Nat) : F) := by
    rw [Nat.cast_pow, pow_l_sub_two]; exact Dalek.Proofs.ScalarApiGen.invert_isSc ok29 hx.isSc
  exact ⟨h.canonical, h.val_eq⟩

/-- `Scalar::invert` of a non-zero scalar is its inverse: `invert(x)·x ≡ 1 (mod l)` -/
theorem invert_spec (x : List Nat) (hx : Canonical x) (h0 : leVal x ≠ 0) :
    Canonical (invert x) ∧ leVal (invert x) * leVal x % l = 1 := by
  have h := Dalek.Proofs.ScalarApiGen.invert_isSc ok29 hx.isSc
  refine ⟨h.canonical, ?_⟩
  have e : ((leVal (invert x) * leVal x : Nat) : F) = ((1 : Nat) : F) := by
    rw [Nat.cast_mul, h.2, Nat.cast_one, inv_mul_cancel₀ (cast_ne_zero h0 hx.2)]
  have := (ZMod.natCast_eq_natCast_iff' _ _ l).1 e
  rwa [Nat.mod_eq_of_lt (show 1 < l by norm_num [l])] at this

/-- `invert(0) = 0` (the documented convention) -/
theorem invert_zero : invert ScalarRs.ZERO = ScalarRs.ZERO := by
  have h := Dalek.Proofs.ScalarApiGen.invert_isSc ok29 ZERO_isSc
  rw [inv_zero] at h
  exact h.unique ZERO_isSc

/-- `Scalar::batch_invert`, for ALL batch lengths `n ≥ 0`: if all inputs are canonical and non-zero, every input is
replaced by its inverse and the returned scalar is the inverse of the product of the inputs -/
theorem batch_invert_spec (inputs : List (List Nat)) (hc : ∀ b ∈ inputs, Canonical b)
    (h0 : ∀ b ∈ inputs, leVal b ≠ 0) :
    List.Forall₂ (fun out inp => Canonical out ∧ leVal out * leVal inp % l = 1) (batchInvert inputs).1 inputs ∧
      Canonical (batchInvert inputs).2 ∧
      leVal (batchInvert inputs).2 * (inputs.map leVal).prod % l = 1 := by
  have hne : ∀ x ∈ inputs.map (fun b => ((leVal b : Nat) : F)), x ≠ 0 := by
    intro x hx
    obtain ⟨b, hb, rfl⟩ := List.mem_map.1 hx
    exact cast_ne_zero (h0 b hb) (hc b hb).2
  obtain ⟨h1, h2⟩ := Dalek.Proofs.ScalarApiGen.batchInvert_isSc ok29 (forall2_isSc_of_canonical hc) hne
  have one_lt : 1 < l := by norm_num [l]
  refine ⟨?_, h2.canonical, ?_⟩
  · rw [List.forall₂_map_right_iff] at h1
    -- pointwise, using membership for the non-zero hypothesis
    have aux : ∀ {os is : List (List Nat)}, (∀ b ∈ is, Canonical b ∧ leVal b ≠ 0) →
        List.Forall₂ (fun o b => IsSc o (((leVal b : Nat) : F))⁻¹) os is →
        List.Forall₂ (fun out inp => Canonical out ∧ leVal out * leVal inp % l = 1) os is := by
      intro os is hm hf
      induction hf with
      | nil => exact .nil
      | cons h hs ih =>
        rename_i o b os' is'
        refine .cons ⟨h.canonical, ?_⟩ (ih (fun x hx => hm x (by simp [hx])))
        obtain ⟨hcb, h0b⟩ := hm b (by simp)
        have e : ((leVal o * leVal b : Nat) : F) = ((1 : Nat) : F) := by
          rw [Nat.cast_mul, h.2, Nat.cast_one, inv_mul_cancel₀ (cast_ne_zero h0b hcb.2)]
        have := (ZMod.natCast_eq_natCast_iff' _ _ l).1 e
        rwa [Nat.mod_eq_of_lt one_lt] at this
    exact aux (fun b hb => ⟨hc b hb, h0 b hb⟩) h1
  · have hp : (inputs.map (fun b => ((leVal b : Nat) : F))).prod ≠ 0 :=
      List.prod_ne_zero (fun h => hne 0 h rfl)
    have e0 : ((inputs.map (fun b => ((leVal b : Nat) : F))).prod) = (((inputs.map leVal).prod : Nat) : F) := by
      rw [Nat.cast_list_prod, List.map_map]; rfl
    have e : ((leVal (batchInvert inputs).2 * (inputs.map leVal).prod : Nat) : F) = ((1 : Nat) : F) := by
      rw [Nat.cast_mul, h2.2, ← e0, Nat.cast_one, inv_mul_cancel₀ hp]
    have := (ZMod.natCast_eq_natCast_iff' _ _ l).1 e
    rwa [Nat.mod_eq_of_lt one_lt] at this

/-- the empty batch returns one -/
theorem batch_invert_nil : batchInvert [] = ([], ScalarRs.ONE) := by
  have h := (Dalek.Proofs.ScalarApiGen.batchInvert_isSc ok29 (bs := []) (xs := []) .nil (by simp)).2
  rw [List.prod_nil, inv_one] at h
  have e : (batchInvert []).2 = ScalarRs.ONE := h.unique ONE_isSc
  exact Prod.ext rfl e

/-! ## every constructor and operator returns a canonical scalar -/

/-- **canonical invariant** (scalar invariant #2): every public constructor/operator of the model returns 32 bytes
whose value is `< l` — for ALL byte inputs of the reducing constructors and all canonical operands -/
theorem canonical_invariant :
    (∀ b, EnvIn b (bytes 32) → Canonical (fromBytesModOrder b)) ∧
    (∀ b, EnvIn b (bytes 64) → Canonical (fromBytesModOrderWide b)) ∧
    (∀ d, EnvIn d (bytes 64) → Canonical (fromHash d)) ∧
    (∀ b s, EnvIn b (bytes 32) → fromCanonicalBytes b = some s → Canonical s) ∧
    (∀ k x, k ≤ 16 → x < 256 ^ k → Canonical (fromUInt k x)) ∧
    Canonical ScalarRs.ZERO ∧ Canonical ScalarRs.ONE ∧
    (∀ a b, Canonical a → Canonical b → Canonical (add a b)) ∧
    (∀ a b, Canonical a → Canonical b → Canonical (sub a b)) ∧
    (∀ a b, Canonical a → Canonical b → Canonical (mul a b)) ∧
    (∀ a, Canonical a → Canonical (neg a)) ∧
    (∀ bs, (∀ b ∈ bs, Canonical b) → Canonical (sum bs)) ∧
    (∀ bs, (∀ b ∈ bs, Canonical b) → Canonical (product bs)) ∧
    (∀ a, Canonical a → Canonical (invert a)) ∧
    (∀ bs, (∀ b ∈ bs, Canonical b) → (∀ o ∈ (batchInvert bs).1, Canonical o) ∧ Canonical (batchInvert bs).2) := by
  refine ⟨fun b hb => (from_bytes_mod_order_spec b hb).1, fun b hb => (from_bytes_mod_order_wide_spec b hb).1,
    fun d hd => (from_hash_spec d hd).1, ?_, fun k x hk hx => (from_uint_spec k x hk hx).1,
    ZERO_isSc.canonical, ONE_isSc.canonical,
    fun a b ha hb => (add_spec a b ha hb).1, fun a b ha hb => (sub_spec a b ha hb).1,
    fun a b ha hb => (mul_spec a b ha hb).1, fun a ha => (neg_spec a ha).1,
    fun bs h => (sum_spec bs h).1, fun bs h => (product_spec bs h).1,
    fun a ha => (invert_pow_spec a ha).1, ?_⟩
  · intro b s hb hs
    obtain ⟨h1, h2, -⟩ := from_canonical_bytes_spec b hb
    have := h2 s hs
    subst this
    exact ⟨hb, h1.1 (by rw [hs]; rfl)⟩
  · intro bs h
    -- also for inputs containing zero: every output is a packed canonical limb vector
    exact Dalek.Proofs.ScalarApiGen.batchInvert_canonical ok29 (forall2_isSc_of_canonical h)

/-! ## C05 — the u32 and the u64 backend agree on the whole scalar API

Both models return canonical byte strings of the same value, and canonical byte strings are determined by their
value (`Api.canonical_ext`).  `Dalek.Model.ScalarApi.*` is the u64 model of `Dalek/Props/C02/Api.lean`. -/

/-- `Scalar::reduce`, ALL 32-byte inputs -/
theorem api_agree_reduce (b : List Nat) (hb : EnvIn b (bytes 32)) : reduce29 b = Dalek.Model.ScalarApi.reduce52 b :=
  Api.canonical_ext (reduce_spec b hb).1 (Api.reduce_spec b hb).1
    (by rw [(reduce_spec b hb).2, (Api.reduce_spec b hb).2])

/-- `Scalar::from_bytes_mod_order`, ALL 32-byte inputs -/
theorem api_agree_from_bytes_mod_order (b : List Nat) (hb : EnvIn b (bytes 32)) :
    fromBytesModOrder b = Dalek.Model.ScalarApi.fromBytesModOrder b :=
  api_agree_reduce b hb

/-- `Scalar::from_bytes_mod_order_wide`, ALL 64-byte inputs -/
theorem api_agree_from_bytes_mod_order_wide (b : List Nat) (hb : EnvIn b (bytes 64)) :
    fromBytesModOrderWide b = Dalek.Model.ScalarApi.fromBytesModOrderWide b :=
  Api.canonical_ext (from_bytes_mod_order_wide_spec b hb).1 (Api.from_bytes_mod_order_wide_spec b hb).1
    (by rw [(from_bytes_mod_order_wide_spec b hb).2, (Api.from_bytes_mod_order_wide_spec b hb).2])

/-- `Scalar::from_hash`, ALL 64-byte digests -/
theorem api_agree_from_hash (d : List Nat) (hd : EnvIn d (bytes 64)) :
    fromHash d = Dalek.Model.ScalarApi.fromHash d :=
  api_agree_from_bytes_mod_order_wide d hd

/-- `Scalar::is_canonical`, ALL 32-byte inputs -/
theorem api_agree_is_canonical (b : List Nat) (hb : EnvIn b (bytes 32)) :
    isCanonical b = Dalek.Model.ScalarApi.isCanonical b := by
  rw [Bool.eq_iff_iff, is_canonical_spec b hb, Api.is_canonical_spec b hb]

/-- `Scalar::from_canonical_bytes`, ALL 32-byte inputs -/
theorem api_agree_from_canonical_bytes (b : List Nat) (hb : EnvIn b (bytes 32)) :
    fromCanonicalBytes b = Dalek.Model.ScalarApi.fromCanonicalBytes b := by
  rw [(from_canonical_bytes_spec b hb).2.2, (Api.from_canonical_bytes_spec b hb).2.2]

/-- `From<u8>` … `From<u128>`: the same backend-independent function -/
theorem api_agree_from_uint (k x : Nat) : fromUInt k x = Dalek.Model.ScalarApi.fromUInt k x := rfl

/-- `&a + &b`, all canonical operands -/
theorem api_agree_add (a b : List Nat) (ha : Canonical a) (hb : Canonical b) :
    add a b = Dalek.Model.ScalarApi.add a b :=
  Api.canonical_ext (add_spec a b ha hb).1 (Api.add_spec a b ha hb).1
    (by rw [(add_spec a b ha hb).2, (Api.add_spec a b ha hb).2])

/-- `&a - &b`, all canonical operands -/
theorem api_agree_sub (a b : List Nat) (ha : Canonical a) (hb : Canonical b) :
    sub a b = Dalek.Model.ScalarApi.sub a b :=
  Api.canonical_ext (sub_spec a b ha hb).1 (Api.sub_spec a b ha hb).1
    (by rw [(sub_spec a b ha hb).2, (Api.sub_spec a b ha hb).2])

/-- `&a * &b`, all canonical operands -/
theorem api_agree_mul (a b : List Nat) (ha : Canonical a) (hb : Canonical b) :
    mul a b = Dalek.Model.ScalarApi.mul a b :=
  Api.canonical_ext (mul_spec a b ha hb).1 (Api.mul_spec a b ha hb).1
    (by rw [(mul_spec a b ha hb).2, (Api.mul_spec a b ha hb).2])

/-- `-&a`, ALL 32-byte inputs (`Neg` reduces first, so also unreduced scalars) -/
theorem api_agree_neg (a : List Nat) (ha : EnvIn a (bytes 32)) : neg a = Dalek.Model.ScalarApi.neg a :=
  (Dalek.Proofs.ScalarApiGen.neg_any ok29 ha).unique (Dalek.Proofs.ScalarApi.neg_any ha)

/-- `Sum`, every list of canonical scalars -/
theorem api_agree_sum (bs : List (List Nat)) (h : ∀ b ∈ bs, Canonical b) :
    sum bs = Dalek.Model.ScalarApi.sum bs :=
  Api.canonical_ext (sum_spec bs h).1 (Api.sum_spec bs h).1 (by rw [(sum_spec bs h).2, (Api.sum_spec bs h).2])

/-- `Product`, every list of canonical scalars -/
theorem api_agree_product (bs : List (List Nat)) (h : ∀ b ∈ bs, Canonical b) :
    product bs = Dalek.Model.ScalarApi.product bs :=
  Api.canonical_ext (product_spec bs h).1 (Api.product_spec bs h).1
    (by rw [(product_spec bs h).2, (Api.product_spec bs h).2])

/-- `Scalar::invert`, every canonical scalar (zero included) -/
theorem api_agree_invert (x : List Nat) (hx : Canonical x) : invert x = Dalek.Model.ScalarApi.invert x :=
  Api.canonical_ext (invert_pow_spec x hx).1 (Api.invert_pow_spec x hx).1
    (by rw [(invert_pow_spec x hx).2, (Api.invert_pow_spec x hx).2])

/-- `Scalar::batch_invert`, EVERY list of canonical scalars — every length, zero entries included (for which the
function is outside its documented domain, but still deterministic): the same new `inputs` and the same return
value -/
theorem api_agree_batch_invert (inputs : List (List Nat)) (hc : ∀ b ∈ inputs, Canonical b) :
    batchInvert inputs = Dalek.Model.ScalarApi.batchInvert inputs := by
  rw [Dalek.Proofs.ScalarApiGen.gen52_batchInvert]
  exact Dalek.Proofs.ScalarApiGen.batchInvert_agree ok29 ok52 (forall2_isSc_of_canonical hc)

/-- `unpack` of the two backends: different limbs, the same integer -/
theorem api_agree_unpack_value (b : List Nat) (hb : EnvIn b (bytes 32)) :
    Dalek.Proofs.Scalar29.val29 (unpack b) = Dalek.Proofs.Scalar52.val52 (Dalek.Model.ScalarApi.unpack b) := by
  rw [(unpack_spec b hb).2, (Api.unpack_spec b hb).2]

/-! ## non-vacuity -/

example : Canonical (natToLeN (l - 1) 32) := by
  refine ⟨by decide +kernel, ?_⟩
  rw [Dalek.Proofs.Bytes51.leVal_natToLeN]; decide +kernel
example : EnvIn (List.replicate 32 255) (bytes 32) ∧ ¬ leVal (List.replicate 32 255) < l := by decide +kernel
example : EnvIn (List.replicate 64 255) (bytes 64) := by decide +kernel
example : ∃ b, Canonical b ∧ leVal b ≠ 0 := ⟨ScalarRs.ONE, ONE_isSc.canonical, by decide +kernel⟩
/-- the agreement theorems are about two DIFFERENT computations: the limbs differ -/
example : unpack ScalarRs.ONE ≠ Dalek.Model.ScalarApi.unpack ScalarRs.ONE := by decide +kernel

/-! ## axiom audit -/

/-- info: 'Dalek.Props.C02.Api29.reduce_spec' depends on axioms: [propext, Classical.choice, Quot.sound] -/
#guard_msgs in #print axioms reduce_spec
/-- info: 'Dalek.Props.C02.Api29.from_bytes_mod_order_wide_spec' depends on axioms: [propext, Classical.choice, Quot.sound] -/
#guard_msgs in #print axioms from_bytes_mod_order_wide_spec
/-- info: 'Dalek.Props.C02.Api29.from_canonical_bytes_spec' depends on axioms: [propext, Classical.choice, Quot.sound] -/
#guard_msgs in #print axioms from_canonical_bytes_spec
/-- info: 'Dalek.Props.C02.Api29.from_uint_spec' depends on axioms: [propext, Classical.choice, Quot.sound] -/
#guard_msgs in #print axioms from_uint_spec
/-- info: 'Dalek.Props.C02.Api29.add_spec' depends on axioms: [propext, Classical.choice, Quot.sound] -/
#guard_msgs in #print axioms add_spec
/-- info: 'Dalek.Props.C02.Api29.sub_spec' depends on axioms: [propext, Classical.choice, Quot.sound] -/
#guard_msgs in #print axioms sub_spec
/-- info: 'Dalek.Props.C02.Api29.mul_spec' depends on axioms: [propext, Classical.choice, Quot.sound] -/
#guard_msgs in #print axioms mul_spec
/-- info: 'Dalek.Props.C02.Api29.neg_spec' depends on axioms: [propext, Classical.choice, Quot.sound] -/
#guard_msgs in #print axioms neg_spec
/-- info: 'Dalek.Props.C02.Api29.neg_zero' depends on axioms: [propext, Classical.choice, Quot.sound] -/
#guard_msgs in #print axioms neg_zero
/-- info: 'Dalek.Props.C02.Api29.sum_spec' depends on axioms: [propext, Classical.choice, Quot.sound] -/
#guard_msgs in #print axioms sum_spec
/-- info: 'Dalek.Props.C02.Api29.product_spec' depends on axioms: [propext, Classical.choice, Quot.sound] -/
#guard_msgs in #print axioms product_spec
/-- info: 'Dalek.Props.C02.Api29.invert_spec' depends on axioms: [propext, Classical.choice, Quot.sound] -/
#guard_msgs in #print axioms invert_spec
/-- info: 'Dalek.Props.C02.Api29.invert_zero' depends on axioms: [propext, Classical.choice, Quot.sound] -/
#guard_msgs in #print axioms invert_zero
/-- info: 'Dalek.Props.C02.Api29.batch_invert_spec' depends on axioms: [propext, Classical.choice, Quot.sound] -/
#guard_msgs in #print axioms batch_invert_spec
/-- info: 'Dalek.Props.C02.Api29.canonical_invariant' depends on axioms: [propext, Classical.choice, Quot.sound] -/
#guard_msgs in #print axioms canonical_invariant
/-- info: 'Dalek.Props.C02.Api29.pack_unpack' depends on axioms: [propext, Classical.choice, Quot.sound] -/
#guard_msgs in #print axioms pack_unpack
/-- info: 'Dalek.Props.C02.Api29.api_agree_reduce' depends on axioms: [propext, Classical.choice, Quot.sound] -/
#guard_msgs in #print axioms api_agree_reduce
/-- info: 'Dalek.Props.C02.Api29.api_agree_from_bytes_mod_order_wide' depends on axioms: [propext, Classical.choice, Quot.sound] -/
#guard_msgs in #print axioms api_agree_from_bytes_mod_order_wide
/-- info: 'Dalek.Props.C02.Api29.api_agree_from_canonical_bytes' depends on axioms: [propext, Classical.choice, Quot.sound] -/
#guard_msgs in #print axioms api_agree_from_canonical_bytes
/-- info: 'Dalek.Props.C02.Api29.api_agree_add' depends on axioms: [propext, Classical.choice, Quot.sound] -/
#guard_msgs in #print axioms api_agree_add
/-- info: 'Dalek.Props.C02.Api29.api_agree_sub' depends on axioms: [propext, Classical.choice, Quot.sound] -/
#guard_msgs in #print axioms api_agree_sub
/-- info: 'Dalek.Props.C02.Api29.api_agree_mul' depends on axioms: [propext, Classical.choice, Quot.sound] -/
#guard_msgs in #print axioms api_agree_mul
/-- info: 'Dalek.Props.C02.Api29.api_agree_neg' depends on axioms: [propext, Classical.choice, Quot.sound] -/
#guard_msgs in #print axioms api_agree_neg
/-- info: 'Dalek.Props.C02.Api29.api_agree_sum' depends on axioms: [propext, Classical.choice, Quot.sound] -/
#guard_msgs in #print axioms api_agree_sum
/-- info: 'Dalek.Props.C02.Api29.api_agree_product' depends on axioms: [propext, Classical.choice, Quot.sound] -/
#guard_msgs in #print axioms api_agree_product
/-- info: 'Dalek.Props.C02.Api29.api_agree_invert' depends on axioms: [propext, Classical.choice, Quot.sound] -/
#guard_msgs in #print axioms api_agree_invert
/-- info: 'Dalek.Props.C02.Api29.api_agree_batch_invert' depends on axioms: [propext, Classical.choice, Quot.sound] -/
#guard_msgs in #print axioms api_agree_batch_invert

end Dalek.Props.C02.Api29

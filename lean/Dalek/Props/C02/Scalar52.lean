import Dalek.IR.LimbSound
import Dalek.Proofs.Scalar52
/-!
# C02 — scalar arithmetic is exact arithmetic modulo `l = 2^252 + 27742317777372353535851937790883648493`
(serial u64 backend, 52-bit limbs; property theorems)

Statements are about `Dalek.Gen.Scalar52.*`: the LimbIR programs REGENERATED from
`curve25519-dalek/src/backend/serial/u64/scalar.rs` (and the constants `L`, `R`, `RR`, `LFACTOR` regenerated from
`constants.rs`) on every run.  For every input inside the bound contract (`Dalek.Model.Contracts.Scalar52`: all limbs
`< 2^52`; `montgomery_reduce` words `≤ 5·(2^52-1)^2`) and satisfying the stated value hypothesis, the debug build
(`evalC`, overflow checks) does not panic, the release build (`evalW`, wrapping) returns the same limbs, the limbs are
`< 2^52`, and their radix-2^52 value `val52` is the stated function of the values of the inputs — in particular it is
the canonical representative (`< l`).
-/
set_option exponentiation.threshold 600

namespace Dalek.Props.C02.Scalar52
open Dalek.IR Dalek.Proofs.Scalar52 Dalek.Gen.Norm.Scalar52 Dalek.Model.Contracts Dalek.Gen.Consts
open Dalek.Model.FieldBytes (leVal)

/-- the group order -/
abbrev l : Nat := 2 ^ 252 + 27742317777372353535851937790883648493

/-- output contract: five limbs `< 2^52` -/
abbrev limbs52 : List Itv := rep 5 (ub (2 ^ 52 - 1))

/-! ## the constants -/

theorem L_value : val52 U64.L = l := val52_L
theorem R_value : val52 U64.R = 2 ^ 260 % l := val52_R
theorem RR_value : val52 U64.RR = (2 ^ 260) ^ 2 % l := val52_RR
theorem LFACTOR_value : U64.LFACTOR * U64.L.getD 0 0 % 2 ^ 52 = 2 ^ 52 - 1 := lfactor_spec
theorem l_prime : Nat.Prime l := Dalek.Primes.prime_l

section
variable (a0 a1 a2 a3 a4 b0 b1 b2 b3 b4 : Nat)

/-- `Scalar52::sub(a, b)` on canonical inputs: `(a - b) mod l`, canonical -/
theorem sub_spec (hin : EnvIn [a0, a1, a2, a3, a4, b0, b1, b2, b3, b4] Scalar52.pre_sub)
    (ha : val52 [a0, a1, a2, a3, a4] < l) (hb : val52 [b0, b1, b2, b3, b4] < l) :
    ∃ out, Dalek.Gen.Scalar52.sub.evalC [a0, a1, a2, a3, a4, b0, b1, b2, b3, b4] = some out ∧
      Dalek.Gen.Scalar52.sub.evalW [a0, a1, a2, a3, a4, b0, b1, b2, b3, b4] = out ∧
      EnvIn out limbs52 ∧ val52 out < l ∧
      val52 out = (val52 [a0, a1, a2, a3, a4] + l - val52 [b0, b1, b2, b3, b4]) % l := by
  obtain ⟨out, hC, hW, hpost, hZ⟩ := Prog.norm_sound _ _ _ _ sub_norm_ok _ hin
  refine ⟨out, hC, hW, EnvIn_of_itvsLe hpost (by decide +kernel), ?_⟩
  have hl := lim52_of_envIn hin
  simp only [toZ_cons, toZ_nil] at hZ hl
  obtain ⟨hla, hlb⟩ := Lim_split5 hl
  rw [sub_fn_ok] at hZ
  obtain ⟨o0, o1, o2, o3, o4, he, -, hv⟩ := sub_fn_canon _ _ _ _ _ _ _ _ _ _ hla hlb
    (by rw [repZ_cast5]; exact_mod_cast ha) (by rw [repZ_cast5]; exact_mod_cast hb)
  rw [he] at hZ
  have h := val_of_toZ hZ.symm
  rw [hv, repZ_cast5, repZ_cast5] at h
  simp only [l, ell_eq] at *
  omega

/-- `Scalar52::sub(a, L)` for `a < 2l` (the conditional subtraction at the end of `add` and
`montgomery_reduce`): the canonical representative `a mod l` -/
theorem sub_L_spec (hin : EnvIn ([a0, a1, a2, a3, a4] ++ U64.L) Scalar52.pre_sub)
    (ha : val52 [a0, a1, a2, a3, a4] < 2 * l) :
    ∃ out, Dalek.Gen.Scalar52.sub.evalC ([a0, a1, a2, a3, a4] ++ U64.L) = some out ∧
      Dalek.Gen.Scalar52.sub.evalW ([a0, a1, a2, a3, a4] ++ U64.L) = out ∧
      EnvIn out limbs52 ∧ val52 out = val52 [a0, a1, a2, a3, a4] % l := by
  obtain ⟨out, hC, hW, hpost, hZ⟩ := Prog.norm_sound _ _ _ _ sub_norm_ok _ hin
  refine ⟨out, hC, hW, EnvIn_of_itvsLe hpost (by decide +kernel), ?_⟩
  have hl := lim52_of_envIn hin
  simp only [U64.L, List.cons_append, List.nil_append, toZ_cons, toZ_nil] at hZ hl
  obtain ⟨hla, -⟩ := Lim_split5 hl
  rw [sub_fn_ok] at hZ
  obtain ⟨o0, o1, o2, o3, o4, he, -, hv⟩ := sub_fn_L_spec _ _ _ _ _ hla
    (by rw [repZ_cast5]; exact_mod_cast ha)
  norm_num only at hZ
  rw [he] at hZ
  have h := val_of_toZ hZ.symm
  rw [hv, repZ_cast5] at h
  exact nat_emod_of_int h

/-- `Scalar52::add(a, b)` on canonical inputs: `(a + b) mod l`, canonical -/
theorem add_spec (hin : EnvIn [a0, a1, a2, a3, a4, b0, b1, b2, b3, b4] Scalar52.pre_add)
    (ha : val52 [a0, a1, a2, a3, a4] < l) (hb : val52 [b0, b1, b2, b3, b4] < l) :
    ∃ out, Dalek.Gen.Scalar52.add.evalC [a0, a1, a2, a3, a4, b0, b1, b2, b3, b4] = some out ∧
      Dalek.Gen.Scalar52.add.evalW [a0, a1, a2, a3, a4, b0, b1, b2, b3, b4] = out ∧
      EnvIn out limbs52 ∧
      val52 out = (val52 [a0, a1, a2, a3, a4] + val52 [b0, b1, b2, b3, b4]) % l := by
  obtain ⟨out, hC, hW, hpost, hZ⟩ := Prog.norm_sound _ _ _ _ add_norm_ok _ hin
  refine ⟨out, hC, hW, EnvIn_of_itvsLe hpost (by decide +kernel), ?_⟩
  have hl := lim52_of_envIn hin
  simp only [toZ_cons, toZ_nil] at hZ hl
  obtain ⟨hla, hlb⟩ := Lim_split5 hl
  rw [add_fn_ok] at hZ
  obtain ⟨o0, o1, o2, o3, o4, he, -, hv⟩ := add_fn_spec _ _ _ _ _ _ _ _ _ _ hla hlb
    (by rw [repZ_cast5]; exact_mod_cast ha) (by rw [repZ_cast5]; exact_mod_cast hb)
  rw [he] at hZ
  have h := val_of_toZ hZ.symm
  rw [hv, repZ_cast5, repZ_cast5] at h
  exact nat_emod_of_int (by exact_mod_cast h)

/-- `Scalar52::mul_internal(a, b)`: the nine schoolbook coefficients; their radix-2^52 value is the integer
product, and each is within the `montgomery_reduce` input contract -/
theorem mul_internal_spec (hin : EnvIn [a0, a1, a2, a3, a4, b0, b1, b2, b3, b4] Scalar52.pre_mul_internal) :
    ∃ out, Dalek.Gen.Scalar52.mul_internal.evalC [a0, a1, a2, a3, a4, b0, b1, b2, b3, b4] = some out ∧
      Dalek.Gen.Scalar52.mul_internal.evalW [a0, a1, a2, a3, a4, b0, b1, b2, b3, b4] = out ∧
      EnvIn out Scalar52.pre_montgomery_reduce ∧
      val52 out = val52 [a0, a1, a2, a3, a4] * val52 [b0, b1, b2, b3, b4] := by
  obtain ⟨out, hC, hW, hpost, hZ⟩ := Prog.norm_sound _ _ _ _ mul_internal_norm_ok _ hin
  refine ⟨out, hC, hW, EnvIn_of_itvsLe hpost (by decide +kernel), ?_⟩
  have hl := lim52_of_envIn hin
  simp only [toZ_cons, toZ_nil] at hZ hl
  obtain ⟨hla, hlb⟩ := Lim_split5 hl
  rw [mul_internal_fn_ok] at hZ
  obtain ⟨z0, z1, z2, z3, z4, z5, z6, z7, z8, he, -, hv⟩ := mul_internal_fn_spec _ _ _ _ _ _ _ _ _ _ hla hlb
  rw [he] at hZ
  have h := val_of_toZ hZ.symm
  rw [hv, repZ_cast5, repZ_cast5] at h
  exact_mod_cast h

/-- `Scalar52::square_internal(a)`: the nine coefficients of the integer square -/
theorem square_internal_spec (hin : EnvIn [a0, a1, a2, a3, a4] Scalar52.pre_square_internal) :
    ∃ out, Dalek.Gen.Scalar52.square_internal.evalC [a0, a1, a2, a3, a4] = some out ∧
      Dalek.Gen.Scalar52.square_internal.evalW [a0, a1, a2, a3, a4] = out ∧
      EnvIn out Scalar52.pre_montgomery_reduce ∧
      val52 out = val52 [a0, a1, a2, a3, a4] * val52 [a0, a1, a2, a3, a4] := by
  obtain ⟨out, hC, hW, hpost, hZ⟩ := Prog.norm_sound _ _ _ _ square_internal_norm_ok _ hin
  refine ⟨out, hC, hW, EnvIn_of_itvsLe hpost (by decide +kernel), ?_⟩
  have hl := lim52_of_envIn hin
  simp only [toZ_cons, toZ_nil] at hZ hl
  rw [square_internal_fn_ok, square_internal_fn_eq] at hZ
  obtain ⟨z0, z1, z2, z3, z4, z5, z6, z7, z8, he, -, hv⟩ := mul_internal_fn_spec _ _ _ _ _ _ _ _ _ _ hl hl
  rw [he] at hZ
  have h := val_of_toZ hZ.symm
  rw [hv, repZ_cast5] at h
  exact_mod_cast h

/-- `Scalar52::montgomery_mul(a, b)` for `a·b < 2^260·l` (e.g. one factor canonical):
canonical `out` with `out·2^260 ≡ a·b (mod l)` -/
theorem montgomery_mul_spec (hin : EnvIn [a0, a1, a2, a3, a4, b0, b1, b2, b3, b4] Scalar52.pre_montgomery_mul)
    (hab : val52 [a0, a1, a2, a3, a4] * val52 [b0, b1, b2, b3, b4] < 2 ^ 260 * l) :
    ∃ out, Dalek.Gen.Scalar52.montgomery_mul.evalC [a0, a1, a2, a3, a4, b0, b1, b2, b3, b4] = some out ∧
      Dalek.Gen.Scalar52.montgomery_mul.evalW [a0, a1, a2, a3, a4, b0, b1, b2, b3, b4] = out ∧
      EnvIn out limbs52 ∧ val52 out < l ∧
      val52 out * 2 ^ 260 % l = val52 [a0, a1, a2, a3, a4] * val52 [b0, b1, b2, b3, b4] % l := by
  obtain ⟨out, hC, hW, hpost, hZ⟩ := Prog.norm_sound _ _ _ _ montgomery_mul_norm_ok _ hin
  refine ⟨out, hC, hW, EnvIn_of_itvsLe hpost (by decide +kernel), ?_⟩
  have hl := lim52_of_envIn hin
  simp only [toZ_cons, toZ_nil] at hZ hl
  obtain ⟨hla, hlb⟩ := Lim_split5 hl
  rw [montgomery_mul_fn_ok] at hZ
  obtain ⟨o0, o1, o2, o3, o4, he, -, hcan, hv⟩ := montgomery_mul_fn_spec _ _ _ _ _ _ _ _ _ _ hla hlb
    (by rw [repZ_cast5, repZ_cast5]; exact_mod_cast hab)
  rw [he] at hZ
  have h := val_of_toZ hZ.symm
  rw [← h, repZ_cast5, repZ_cast5] at hv
  rw [← h] at hcan
  exact ⟨by exact_mod_cast hcan.2, nat_mont_mul_of_zmod hv⟩

/-- `Scalar52::mul(a, b)` for `a·b < 2^260·l`: the canonical representative of the product -/
theorem mul_spec_of_lt (hin : EnvIn [a0, a1, a2, a3, a4, b0, b1, b2, b3, b4] Scalar52.pre_mul)
    (hab : val52 [a0, a1, a2, a3, a4] * val52 [b0, b1, b2, b3, b4] < 2 ^ 260 * l) :
    ∃ out, Dalek.Gen.Scalar52.mul.evalC [a0, a1, a2, a3, a4, b0, b1, b2, b3, b4] = some out ∧
      Dalek.Gen.Scalar52.mul.evalW [a0, a1, a2, a3, a4, b0, b1, b2, b3, b4] = out ∧
      EnvIn out limbs52 ∧
      val52 out = val52 [a0, a1, a2, a3, a4] * val52 [b0, b1, b2, b3, b4] % l := by
  obtain ⟨out, hC, hW, hpost, hZ⟩ := Prog.norm_sound _ _ _ _ mul_norm_ok _ hin
  refine ⟨out, hC, hW, EnvIn_of_itvsLe hpost (by decide +kernel), ?_⟩
  have hl := lim52_of_envIn hin
  simp only [toZ_cons, toZ_nil] at hZ hl
  obtain ⟨hla, hlb⟩ := Lim_split5 hl
  rw [mul_fn_ok] at hZ
  obtain ⟨o0, o1, o2, o3, o4, he, -, hv⟩ := mul_fn_spec _ _ _ _ _ _ _ _ _ _ hla hlb
    (by rw [repZ_cast5, repZ_cast5]; exact_mod_cast hab)
  rw [he] at hZ
  have h := val_of_toZ hZ.symm
  rw [hv, repZ_cast5, repZ_cast5] at h
  exact nat_emod_of_int (by exact_mod_cast h)

/-- `Scalar52::mul(a, b)` on canonical inputs: `a·b mod l`, canonical -/
theorem mul_spec (hin : EnvIn [a0, a1, a2, a3, a4, b0, b1, b2, b3, b4] Scalar52.pre_mul)
    (ha : val52 [a0, a1, a2, a3, a4] < l) (hb : val52 [b0, b1, b2, b3, b4] < l) :
    ∃ out, Dalek.Gen.Scalar52.mul.evalC [a0, a1, a2, a3, a4, b0, b1, b2, b3, b4] = some out ∧
      Dalek.Gen.Scalar52.mul.evalW [a0, a1, a2, a3, a4, b0, b1, b2, b3, b4] = out ∧
      EnvIn out limbs52 ∧
      val52 out = val52 [a0, a1, a2, a3, a4] * val52 [b0, b1, b2, b3, b4] % l :=
  mul_spec_of_lt a0 a1 a2 a3 a4 b0 b1 b2 b3 b4 hin
    (Nat.mul_lt_mul'' (lt_trans ha (by norm_num [l])) hb)

/-- `Scalar52::montgomery_square(a)` for `a² < 2^260·l`: canonical `out` with `out·2^260 ≡ a² (mod l)` -/
theorem montgomery_square_spec (hin : EnvIn [a0, a1, a2, a3, a4] Scalar52.pre_montgomery_square)
    (haa : val52 [a0, a1, a2, a3, a4] * val52 [a0, a1, a2, a3, a4] < 2 ^ 260 * l) :
    ∃ out, Dalek.Gen.Scalar52.montgomery_square.evalC [a0, a1, a2, a3, a4] = some out ∧
      Dalek.Gen.Scalar52.montgomery_square.evalW [a0, a1, a2, a3, a4] = out ∧
      EnvIn out limbs52 ∧ val52 out < l ∧
      val52 out * 2 ^ 260 % l = val52 [a0, a1, a2, a3, a4] * val52 [a0, a1, a2, a3, a4] % l := by
  obtain ⟨out, hC, hW, hpost, hZ⟩ := Prog.norm_sound _ _ _ _ montgomery_square_norm_ok _ hin
  refine ⟨out, hC, hW, EnvIn_of_itvsLe hpost (by decide +kernel), ?_⟩
  have hl := lim52_of_envIn hin
  simp only [toZ_cons, toZ_nil] at hZ hl
  rw [montgomery_square_fn_ok] at hZ
  obtain ⟨o0, o1, o2, o3, o4, he, -, hcan, hv⟩ := montgomery_square_fn_spec _ _ _ _ _ hl
    (by rw [repZ_cast5]; exact_mod_cast haa)
  rw [he] at hZ
  have h := val_of_toZ hZ.symm
  rw [← h, repZ_cast5] at hv
  rw [← h] at hcan
  exact ⟨by exact_mod_cast hcan.2, nat_mont_mul_of_zmod hv⟩

/-- `Scalar52::square(a)` for `a² < 2^260·l`: the canonical representative of the square -/
theorem square_spec_of_lt (hin : EnvIn [a0, a1, a2, a3, a4] Scalar52.pre_square)
    (haa : val52 [a0, a1, a2, a3, a4] * val52 [a0, a1, a2, a3, a4] < 2 ^ 260 * l) :
    ∃ out, Dalek.Gen.Scalar52.square.evalC [a0, a1, a2, a3, a4] = some out ∧
      Dalek.Gen.Scalar52.square.evalW [a0, a1, a2, a3, a4] = out ∧
      EnvIn out limbs52 ∧
      val52 out = val52 [a0, a1, a2, a3, a4] * val52 [a0, a1, a2, a3, a4] % l := by
  obtain ⟨out, hC, hW, hpost, hZ⟩ := Prog.norm_sound _ _ _ _ square_norm_ok _ hin
  refine ⟨out, hC, hW, EnvIn_of_itvsLe hpost (by decide +kernel), ?_⟩
  have hl := lim52_of_envIn hin
  simp only [toZ_cons, toZ_nil] at hZ hl
  rw [square_fn_ok] at hZ
  obtain ⟨o0, o1, o2, o3, o4, he, -, hv⟩ := square_fn_spec _ _ _ _ _ hl
    (by rw [repZ_cast5]; exact_mod_cast haa)
  rw [he] at hZ
  have h := val_of_toZ hZ.symm
  rw [hv, repZ_cast5] at h
  exact nat_emod_of_int (by exact_mod_cast h)

/-- `Scalar52::square(a)` on a canonical input: `a² mod l`, canonical -/
theorem square_spec (hin : EnvIn [a0, a1, a2, a3, a4] Scalar52.pre_square)
    (ha : val52 [a0, a1, a2, a3, a4] < l) :
    ∃ out, Dalek.Gen.Scalar52.square.evalC [a0, a1, a2, a3, a4] = some out ∧
      Dalek.Gen.Scalar52.square.evalW [a0, a1, a2, a3, a4] = out ∧
      EnvIn out limbs52 ∧
      val52 out = val52 [a0, a1, a2, a3, a4] * val52 [a0, a1, a2, a3, a4] % l :=
  square_spec_of_lt a0 a1 a2 a3 a4 hin (Nat.mul_lt_mul'' (lt_trans ha (by norm_num [l])) ha)

/-- `Scalar52::as_montgomery(a)` for ANY five 52-bit limbs: the canonical representative of `a·2^260` -/
theorem as_montgomery_spec (hin : EnvIn [a0, a1, a2, a3, a4] Scalar52.pre_as_montgomery) :
    ∃ out, Dalek.Gen.Scalar52.as_montgomery.evalC [a0, a1, a2, a3, a4] = some out ∧
      Dalek.Gen.Scalar52.as_montgomery.evalW [a0, a1, a2, a3, a4] = out ∧
      EnvIn out limbs52 ∧
      val52 out = val52 [a0, a1, a2, a3, a4] * 2 ^ 260 % l := by
  obtain ⟨out, hC, hW, hpost, hZ⟩ := Prog.norm_sound _ _ _ _ as_montgomery_norm_ok _ hin
  refine ⟨out, hC, hW, EnvIn_of_itvsLe hpost (by decide +kernel), ?_⟩
  have hl := lim52_of_envIn hin
  simp only [toZ_cons, toZ_nil] at hZ hl
  rw [as_montgomery_fn_ok] at hZ
  obtain ⟨o0, o1, o2, o3, o4, he, -, hv⟩ := as_montgomery_fn_spec _ _ _ _ _ hl
  rw [he] at hZ
  have h := val_of_toZ hZ.symm
  rw [hv, repZ_cast5] at h
  exact nat_emod_of_int (by rw [h, Nat.cast_mul, Nat.cast_pow, Nat.cast_ofNat])

/-- `Scalar52::from_montgomery(a)` for ANY five 52-bit limbs: canonical `out` with `out·2^260 ≡ a (mod l)` -/
theorem from_montgomery_spec (hin : EnvIn [a0, a1, a2, a3, a4] Scalar52.pre_from_montgomery) :
    ∃ out, Dalek.Gen.Scalar52.from_montgomery.evalC [a0, a1, a2, a3, a4] = some out ∧
      Dalek.Gen.Scalar52.from_montgomery.evalW [a0, a1, a2, a3, a4] = out ∧
      EnvIn out limbs52 ∧ val52 out < l ∧
      val52 out * 2 ^ 260 % l = val52 [a0, a1, a2, a3, a4] % l := by
  obtain ⟨out, hC, hW, hpost, hZ⟩ := Prog.norm_sound _ _ _ _ from_montgomery_norm_ok _ hin
  refine ⟨out, hC, hW, EnvIn_of_itvsLe hpost (by decide +kernel), ?_⟩
  have hl := lim52_of_envIn hin
  simp only [toZ_cons, toZ_nil] at hZ hl
  rw [from_montgomery_fn_ok] at hZ
  obtain ⟨o0, o1, o2, o3, o4, he, -, hcan, hv⟩ := from_montgomery_fn_spec _ _ _ _ _ hl
  rw [he] at hZ
  have h := val_of_toZ hZ.symm
  rw [← h, repZ_cast5] at hv
  rw [← h] at hcan
  exact ⟨by exact_mod_cast hcan.2, nat_mont_of_zmod hv⟩

end

section
variable (z0 z1 z2 z3 z4 z5 z6 z7 z8 : Nat)

/-- `Scalar52::montgomery_reduce(z)` for nine words within the contract whose radix-2^52 value `N` is
`< 2^260·l`: canonical `out` with `out·2^260 ≡ N (mod l)` -/
theorem montgomery_reduce_spec (hin : EnvIn [z0, z1, z2, z3, z4, z5, z6, z7, z8] Scalar52.pre_montgomery_reduce)
    (hN : val52 [z0, z1, z2, z3, z4, z5, z6, z7, z8] < 2 ^ 260 * l) :
    ∃ out, Dalek.Gen.Scalar52.montgomery_reduce.evalC [z0, z1, z2, z3, z4, z5, z6, z7, z8] = some out ∧
      Dalek.Gen.Scalar52.montgomery_reduce.evalW [z0, z1, z2, z3, z4, z5, z6, z7, z8] = out ∧
      EnvIn out limbs52 ∧ val52 out < l ∧
      val52 out * 2 ^ 260 % l = val52 [z0, z1, z2, z3, z4, z5, z6, z7, z8] % l := by
  obtain ⟨out, hC, hW, hpost, hZ⟩ := Prog.norm_sound _ _ _ _ montgomery_reduce_norm_ok _ hin
  refine ⟨out, hC, hW, EnvIn_of_itvsLe hpost (by decide +kernel), ?_⟩
  have hl := limW_of_envIn hin
  simp only [toZ_cons, toZ_nil] at hZ hl
  rw [montgomery_reduce_fn_ok] at hZ
  obtain ⟨o0, o1, o2, o3, o4, he, -, hcan, hd⟩ := montgomery_reduce_fn_spec _ _ _ _ _ _ _ _ _ hl
    (by rw [repZ_cast9]; exact_mod_cast hN)
  rw [he] at hZ
  have h := val_of_toZ hZ.symm
  rw [← h, repZ_cast9] at hd
  rw [← h] at hcan
  exact ⟨by exact_mod_cast hcan.2, nat_mont_of_zmod (zmod_of_dvd hd)⟩

end


section
variable (x0 x1 x2 x3 x4 x5 x6 x7 x8 x9 x10 x11 x12 x13 x14 x15 x16 x17 x18 x19 x20 x21 x22 x23 x24 x25 x26 x27 x28 x29 x30 x31 : Nat)

/-- `Scalar52::from_bytes`: the five limbs (`< 2^52`, top limb `< 2^48`) of the little-endian value of the 32 bytes -/
theorem from_bytes_spec (hin : EnvIn [x0, x1, x2, x3, x4, x5, x6, x7, x8, x9, x10, x11, x12, x13, x14, x15, x16, x17, x18, x19, x20, x21, x22, x23, x24, x25, x26, x27, x28, x29, x30, x31] Scalar52.pre_from_bytes) :
    ∃ out, Dalek.Gen.Scalar52.from_bytes.evalC [x0, x1, x2, x3, x4, x5, x6, x7, x8, x9, x10, x11, x12, x13, x14, x15, x16, x17, x18, x19, x20, x21, x22, x23, x24, x25, x26, x27, x28, x29, x30, x31] = some out ∧
      Dalek.Gen.Scalar52.from_bytes.evalW [x0, x1, x2, x3, x4, x5, x6, x7, x8, x9, x10, x11, x12, x13, x14, x15, x16, x17, x18, x19, x20, x21, x22, x23, x24, x25, x26, x27, x28, x29, x30, x31] = out ∧
      EnvIn out (rep 4 (ub (2 ^ 52 - 1)) ++ [ub (2 ^ 48 - 1)]) ∧
      val52 out = leVal [x0, x1, x2, x3, x4, x5, x6, x7, x8, x9, x10, x11, x12, x13, x14, x15, x16, x17, x18, x19, x20, x21, x22, x23, x24, x25, x26, x27, x28, x29, x30, x31] := by
  obtain ⟨out, hC, hW, hpost, hZ⟩ := Prog.norm_sound _ _ _ _ from_bytes_norm_ok _ hin
  refine ⟨out, hC, hW, EnvIn_of_itvsLe hpost (by decide +kernel), ?_⟩
  have hl := limBytes_of_envIn hin
  simp only [toZ_cons, toZ_nil] at hZ hl
  rw [from_bytes_fn_ok] at hZ
  obtain ⟨o0, o1, o2, o3, o4, he, -, -, hv⟩ := from_bytes_fn_spec _ _ _ _ _ _ _ _ _ _ _ _ _ _ _ _ _ _ _ _ _ _ _ _ _ _ _ _ _ _ _ _ hl
  rw [he] at hZ
  have h := val_of_toZ hZ.symm
  rw [hv] at h
  have h2 := leValZ_toZ [x0, x1, x2, x3, x4, x5, x6, x7, x8, x9, x10, x11, x12, x13, x14, x15, x16, x17, x18, x19, x20, x21, x22, x23, x24, x25, x26, x27, x28, x29, x30, x31]
  simp only [toZ_cons, toZ_nil] at h2
  rw [h2] at h
  exact_mod_cast h

end

section
variable (a0 a1 a2 a3 a4 : Nat)

/-- `Scalar52::as_bytes`: for limbs `< 2^52` with value `< 2^256` the 32 output bytes are the little-endian
encoding of the value -/
theorem as_bytes_spec (hin : EnvIn [a0, a1, a2, a3, a4] Scalar52.pre_as_bytes)
    (hv : val52 [a0, a1, a2, a3, a4] < 2 ^ 256) :
    ∃ out, Dalek.Gen.Scalar52.as_bytes.evalC [a0, a1, a2, a3, a4] = some out ∧
      Dalek.Gen.Scalar52.as_bytes.evalW [a0, a1, a2, a3, a4] = out ∧
      EnvIn out (bytes 32) ∧ leVal out = val52 [a0, a1, a2, a3, a4] := by
  obtain ⟨out, hC, hW, hpost, hZ⟩ := Prog.norm_sound _ _ _ _ as_bytes_norm_ok _ hin
  refine ⟨out, hC, hW, EnvIn_of_itvsLe hpost (by decide +kernel), ?_⟩
  have hl := lim52_of_envIn hin
  simp only [toZ_cons, toZ_nil] at hZ hl
  obtain ⟨hl4, hl1⟩ := Lim_split4 hl
  rw [as_bytes_fn_ok] at hZ
  have h := leVal_of_toZ hZ.symm
  rw [as_bytes_fn_spec _ _ _ _ _ hl4 ⟨Int.natCast_nonneg a4, by simp only [val52] at hv; omega⟩, repZ_cast5] at h
  exact_mod_cast h

end

section
variable (x0 x1 x2 x3 x4 x5 x6 x7 x8 x9 x10 x11 x12 x13 x14 x15 x16 x17 x18 x19 x20 x21 x22 x23 x24 x25 x26 x27 x28 x29 x30 x31 x32 x33 x34 x35 x36 x37 x38 x39 x40 x41 x42 x43 x44 x45 x46 x47 x48 x49 x50 x51 x52 x53 x54 x55 x56 x57 x58 x59 x60 x61 x62 x63 : Nat)

/-- `Scalar52::from_bytes_wide`: the canonical representative of the little-endian value of the 64 bytes -/
theorem from_bytes_wide_spec (hin : EnvIn [x0, x1, x2, x3, x4, x5, x6, x7, x8, x9, x10, x11, x12, x13, x14, x15, x16, x17, x18, x19, x20, x21, x22, x23, x24, x25, x26, x27, x28, x29, x30, x31, x32, x33, x34, x35, x36, x37, x38, x39, x40, x41, x42, x43, x44, x45, x46, x47, x48, x49, x50, x51, x52, x53, x54, x55, x56, x57, x58, x59, x60, x61, x62, x63] Scalar52.pre_from_bytes_wide) :
    ∃ out, Dalek.Gen.Scalar52.from_bytes_wide.evalC [x0, x1, x2, x3, x4, x5, x6, x7, x8, x9, x10, x11, x12, x13, x14, x15, x16, x17, x18, x19, x20, x21, x22, x23, x24, x25, x26, x27, x28, x29, x30, x31, x32, x33, x34, x35, x36, x37, x38, x39, x40, x41, x42, x43, x44, x45, x46, x47, x48, x49, x50, x51, x52, x53, x54, x55, x56, x57, x58, x59, x60, x61, x62, x63] = some out ∧
      Dalek.Gen.Scalar52.from_bytes_wide.evalW [x0, x1, x2, x3, x4, x5, x6, x7, x8, x9, x10, x11, x12, x13, x14, x15, x16, x17, x18, x19, x20, x21, x22, x23, x24, x25, x26, x27, x28, x29, x30, x31, x32, x33, x34, x35, x36, x37, x38, x39, x40, x41, x42, x43, x44, x45, x46, x47, x48, x49, x50, x51, x52, x53, x54, x55, x56, x57, x58, x59, x60, x61, x62, x63] = out ∧
      EnvIn out limbs52 ∧
      val52 out = leVal [x0, x1, x2, x3, x4, x5, x6, x7, x8, x9, x10, x11, x12, x13, x14, x15, x16, x17, x18, x19, x20, x21, x22, x23, x24, x25, x26, x27, x28, x29, x30, x31, x32, x33, x34, x35, x36, x37, x38, x39, x40, x41, x42, x43, x44, x45, x46, x47, x48, x49, x50, x51, x52, x53, x54, x55, x56, x57, x58, x59, x60, x61, x62, x63] % l := by
  obtain ⟨out, hC, hW, hpost, hZ⟩ := Prog.norm_sound _ _ _ _ from_bytes_wide_norm_ok _ hin
  refine ⟨out, hC, hW, EnvIn_of_itvsLe hpost (by decide +kernel), ?_⟩
  have hl := limBytes_of_envIn hin
  simp only [toZ_cons, toZ_nil] at hZ hl
  rw [from_bytes_wide_fn_ok] at hZ
  obtain ⟨o0, o1, o2, o3, o4, he, -, hv⟩ := from_bytes_wide_fn_spec _ _ _ _ _ _ _ _ _ _ _ _ _ _ _ _ _ _ _ _ _ _ _ _ _ _ _ _ _ _ _ _ _ _ _ _ _ _ _ _ _ _ _ _ _ _ _ _ _ _ _ _ _ _ _ _ _ _ _ _ _ _ _ _ hl
  rw [he] at hZ
  have h := val_of_toZ hZ.symm
  rw [hv] at h
  have h2 := leValZ_toZ [x0, x1, x2, x3, x4, x5, x6, x7, x8, x9, x10, x11, x12, x13, x14, x15, x16, x17, x18, x19, x20, x21, x22, x23, x24, x25, x26, x27, x28, x29, x30, x31, x32, x33, x34, x35, x36, x37, x38, x39, x40, x41, x42, x43, x44, x45, x46, x47, x48, x49, x50, x51, x52, x53, x54, x55, x56, x57, x58, x59, x60, x61, x62, x63]
  simp only [toZ_cons, toZ_nil] at h2
  rw [h2] at h
  exact nat_emod_of_int h

end

/-! ## non-vacuity of the hypotheses -/

/-- the all-limbs-at-the-bound input satisfies the limb contract (used by `sub`, `add`, `mul`, …) -/
example : EnvIn (List.replicate 10 (2 ^ 52 - 1)) Scalar52.pre_mul := by decide +kernel
/-- `l - 1` is a canonical input inside the limb contract -/
example : EnvIn [671914833335276, 3916664325105025, 1367801, 0, 17592186044416] (rep 5 Scalar52.lim) ∧
    val52 [671914833335276, 3916664325105025, 1367801, 0, 17592186044416] < l := by decide +kernel
/-- the largest `mul_internal` output satisfies the `montgomery_reduce` contract -/
example : EnvIn (List.replicate 9 (5 * (2 ^ 52 - 1) * (2 ^ 52 - 1))) Scalar52.pre_montgomery_reduce := by decide +kernel
/-- the value bound of `montgomery_reduce_spec` is satisfiable together with the contract -/
example : EnvIn [1, 2, 3, 4, 5, 6, 7, 8, 9] Scalar52.pre_montgomery_reduce ∧
    val52 [1, 2, 3, 4, 5, 6, 7, 8, 9] < 2 ^ 260 * l := by decide +kernel
example : EnvIn (List.replicate 64 255) Scalar52.pre_from_bytes_wide := by decide +kernel

end Dalek.Props.C02.Scalar52

import Dalek.Props.C02.Scalar29
import Dalek.Proofs.Scalar29.Inline
import Dalek.Proofs.Scalar29.Wide
/-!
# C02, serial u32 backend — the composed items `montgomery_mul`, `mul`, `square`, `as_montgomery`, `from_bytes_wide`

The theorems are about the translated composed PROGRAMS `Dalek.Gen.Scalar29.{montgomery_mul, mul, square,
as_montgomery, from_bytes_wide}` (regenerated from the Rust source), in the same shape as for the registered kernels:
`∃ out, evalC … = some out ∧ evalW … = out ∧ bounds ∧ value`.

Method.  `*_is_pipeline` / `from_bytes_wide_is_script` (decidable checks on the regenerated programs, by
`decide +kernel`) show that the body of each composed program is the inlined sequence of its callees — the callee's
variables replaced by atoms of the caller, the constant arguments `R`, `RR` folded as the translator does;
`Dalek.IR.Inline.pipe_prog` / `script_prog'` (`Dalek/Proofs/Scalar29/Inline.lean`) then turn a non-panicking run of
the callees in sequence into a non-panicking run of the composed program with the same result, and
`Prog.evalW_of_evalC` gives the release build.  The value statements come from the theorems about the callees in
`Dalek/Props/C02/Scalar29.lean`.  For `from_bytes_wide` the limb-extraction prefix is isolated as the program
`widePrefix` (`Dalek/Proofs/Scalar29/Wide.lean`).
-/
set_option exponentiation.threshold 600
set_option maxRecDepth 100000

namespace Dalek.Props.C02.Scalar29
open Dalek.IR Dalek.Proofs.Scalar29 Dalek.Model.Contracts Dalek.Gen.Consts
open Dalek.Proofs.Scalar52 (toZ_cons toZ_nil)

open Dalek.IR.Inline

/-- the body of `montgomery_mul` is `mul_internal` followed by `montgomery_reduce`, inlined -/
theorem montgomery_mul_is_pipeline :
    pipeChk [(Dalek.Gen.Scalar29.mul_internal, []), (Dalek.Gen.Scalar29.montgomery_reduce, [])]
      ((List.range Dalek.Gen.Scalar29.montgomery_mul.nIn).map E.v) Dalek.Gen.Scalar29.montgomery_mul.nIn
      Dalek.Gen.Scalar29.montgomery_mul.body = some (Dalek.Gen.Scalar29.montgomery_mul.outs.map E.v, []) := by
  decide +kernel

/-- `mul = montgomery_reduce ∘ mul_internal(·, RR) ∘ montgomery_reduce ∘ mul_internal`, inlined (with `RR` folded) -/
theorem mul_is_pipeline :
    pipeChk [(Dalek.Gen.Scalar29.mul_internal, []), (Dalek.Gen.Scalar29.montgomery_reduce, []),
        (Dalek.Gen.Scalar29.mul_internal, U32.RR), (Dalek.Gen.Scalar29.montgomery_reduce, [])]
      ((List.range Dalek.Gen.Scalar29.mul.nIn).map E.v) Dalek.Gen.Scalar29.mul.nIn
      Dalek.Gen.Scalar29.mul.body = some (Dalek.Gen.Scalar29.mul.outs.map E.v, []) := by
  decide +kernel

theorem square_is_pipeline :
    pipeChk [(Dalek.Gen.Scalar29.square_internal, []), (Dalek.Gen.Scalar29.montgomery_reduce, []),
        (Dalek.Gen.Scalar29.mul_internal, U32.RR), (Dalek.Gen.Scalar29.montgomery_reduce, [])]
      ((List.range Dalek.Gen.Scalar29.square.nIn).map E.v) Dalek.Gen.Scalar29.square.nIn
      Dalek.Gen.Scalar29.square.body = some (Dalek.Gen.Scalar29.square.outs.map E.v, []) := by
  decide +kernel

theorem as_montgomery_is_pipeline :
    pipeChk [(Dalek.Gen.Scalar29.mul_internal, U32.RR), (Dalek.Gen.Scalar29.montgomery_reduce, [])]
      ((List.range Dalek.Gen.Scalar29.as_montgomery.nIn).map E.v) Dalek.Gen.Scalar29.as_montgomery.nIn
      Dalek.Gen.Scalar29.as_montgomery.body = some (Dalek.Gen.Scalar29.as_montgomery.outs.map E.v, []) := by
  decide +kernel

theorem RR_envIn : EnvIn U32.RR (rep 9 Scalar29.lim) := by decide +kernel

abbrev MI := Dalek.Gen.Scalar29.mul_internal
abbrev SQ := Dalek.Gen.Scalar29.square_internal
abbrev MR := Dalek.Gen.Scalar29.montgomery_reduce

/-- checked run of `mul_internal` then `montgomery_reduce` on `a ++ b` (two limb vectors inside the contract with
`a·b < 2^261·l`) -/
theorem mr_mi_run (a0 a1 a2 a3 a4 a5 a6 a7 a8 b0 b1 b2 b3 b4 b5 b6 b7 b8 : Nat) (hin : EnvIn ([a0, a1, a2, a3, a4, a5, a6, a7, a8] ++ [b0, b1, b2, b3, b4, b5, b6, b7, b8]) Scalar29.pre_mul_internal)
    (hab : val29 [a0, a1, a2, a3, a4, a5, a6, a7, a8] * val29 [b0, b1, b2, b3, b4, b5, b6, b7, b8] < 2 ^ 261 * l) :
    ∃ z out, MI.evalC ([a0, a1, a2, a3, a4, a5, a6, a7, a8] ++ [b0, b1, b2, b3, b4, b5, b6, b7, b8]) = some z ∧ MR.evalC z = some out ∧
      z.length = 17 ∧ EnvIn out limbs29 ∧ val29 out < l ∧ val29 out * 2 ^ 261 % l = val29 [a0, a1, a2, a3, a4, a5, a6, a7, a8] * val29 [b0, b1, b2, b3, b4, b5, b6, b7, b8] % l := by
  obtain ⟨z, hC1, -, hz, hv1⟩ := mul_internal_spec a0 a1 a2 a3 a4 a5 a6 a7 a8 b0 b1 b2 b3 b4 b5 b6 b7 b8 hin
  obtain ⟨z0, z1, z2, z3, z4, z5, z6, z7, z8, z9, z10, z11, z12, z13, z14, z15, z16, rfl⟩ := list17_of_length (by rw [envIn_length hz]; rfl : z.length = 17)
  obtain ⟨out, hC2, -, ho, hlt, hv2⟩ := montgomery_reduce_spec z0 z1 z2 z3 z4 z5 z6 z7 z8 z9 z10 z11 z12 z13 z14 z15 z16 hz (by rw [hv1]; exact hab)
  exact ⟨_, out, hC1, hC2, rfl, ho, hlt, by rw [hv2, hv1]⟩

/-- the same with `square_internal` as the first stage -/
theorem mr_sq_run (a0 a1 a2 a3 a4 a5 a6 a7 a8 : Nat) (hin : EnvIn [a0, a1, a2, a3, a4, a5, a6, a7, a8] Scalar29.pre_square_internal)
    (haa : val29 [a0, a1, a2, a3, a4, a5, a6, a7, a8] * val29 [a0, a1, a2, a3, a4, a5, a6, a7, a8] < 2 ^ 261 * l) :
    ∃ z out, SQ.evalC [a0, a1, a2, a3, a4, a5, a6, a7, a8] = some z ∧ MR.evalC z = some out ∧
      EnvIn out limbs29 ∧ val29 out < l ∧ val29 out * 2 ^ 261 % l = val29 [a0, a1, a2, a3, a4, a5, a6, a7, a8] * val29 [a0, a1, a2, a3, a4, a5, a6, a7, a8] % l := by
  obtain ⟨z, hC1, -, hz, hv1⟩ := square_internal_spec a0 a1 a2 a3 a4 a5 a6 a7 a8 hin
  obtain ⟨z0, z1, z2, z3, z4, z5, z6, z7, z8, z9, z10, z11, z12, z13, z14, z15, z16, rfl⟩ := list17_of_length (by rw [envIn_length hz]; rfl : z.length = 17)
  obtain ⟨out, hC2, -, ho, hlt, hv2⟩ := montgomery_reduce_spec z0 z1 z2 z3 z4 z5 z6 z7 z8 z9 z10 z11 z12 z13 z14 z15 z16 hz (by rw [hv1]; exact haa)
  exact ⟨_, out, hC1, hC2, ho, hlt, by rw [hv2, hv1]⟩

/-- `montgomery_reduce(mul_internal(c, RR))` for any limb vector `c` inside the contract -/
theorem mr_miRR_run (c0 c1 c2 c3 c4 c5 c6 c7 c8 : Nat) (hc : EnvIn [c0, c1, c2, c3, c4, c5, c6, c7, c8] limbs29) :
    ∃ out, pipeC [(MI, U32.RR), (MR, [])] [c0, c1, c2, c3, c4, c5, c6, c7, c8] = some out ∧
      EnvIn out limbs29 ∧ val29 out < l ∧ val29 out * 2 ^ 261 % l = val29 [c0, c1, c2, c3, c4, c5, c6, c7, c8] * val29 U32.RR % l := by
  have hin2 : EnvIn ([c0, c1, c2, c3, c4, c5, c6, c7, c8] ++ U32.RR) Scalar29.pre_mul_internal := envIn_append hc RR_envIn
  have hC9 : val29 [c0, c1, c2, c3, c4, c5, c6, c7, c8] < 2 ^ 261 := by
    have h1 := lim29_of_envIn hc
    simp only [toZ_cons, toZ_nil] at h1
    have h2 := (repZ9_bd _ _ _ _ _ _ _ _ _ h1).2
    rw [repZ_cast9] at h2
    exact_mod_cast h2
  obtain ⟨z, out, h1, h2, -, ho, hlt, hv⟩ := mr_mi_run c0 c1 c2 c3 c4 c5 c6 c7 c8 190815506 504634135 361594685 339687255 426956673 70249340 485410621 504909086 328813 hin2
    (by show val29 [c0, c1, c2, c3, c4, c5, c6, c7, c8] * val29 U32.RR < 2 ^ 261 * l
        rw [val29_RR]
        exact Nat.mul_lt_mul'' hC9 (Nat.mod_lt _ (by norm_num [l])))
  exact ⟨out, pipeC_two MI MR U32.RR [c0, c1, c2, c3, c4, c5, c6, c7, c8] z out h1 h2, ho, hlt, hv⟩

section
variable (a0 a1 a2 a3 a4 a5 a6 a7 a8 b0 b1 b2 b3 b4 b5 b6 b7 b8 : Nat)

/-- `Scalar29::montgomery_mul(a, b)` for `a·b < 2^261·l`: canonical `out` with `out·2^261 ≡ a·b (mod l)` -/
theorem montgomery_mul_spec (hin : EnvIn [a0, a1, a2, a3, a4, a5, a6, a7, a8, b0, b1, b2, b3, b4, b5, b6, b7, b8] Scalar29.pre_mul_internal)
    (hab : val29 [a0, a1, a2, a3, a4, a5, a6, a7, a8] * val29 [b0, b1, b2, b3, b4, b5, b6, b7, b8] < 2 ^ 261 * l) :
    ∃ out, Dalek.Gen.Scalar29.montgomery_mul.evalC [a0, a1, a2, a3, a4, a5, a6, a7, a8, b0, b1, b2, b3, b4, b5, b6, b7, b8] = some out ∧
      Dalek.Gen.Scalar29.montgomery_mul.evalW [a0, a1, a2, a3, a4, a5, a6, a7, a8, b0, b1, b2, b3, b4, b5, b6, b7, b8] = out ∧
      EnvIn out limbs29 ∧ val29 out < l ∧
      val29 out * 2 ^ 261 % l = val29 [a0, a1, a2, a3, a4, a5, a6, a7, a8] * val29 [b0, b1, b2, b3, b4, b5, b6, b7, b8] % l := by
  obtain ⟨z, out, h1, h2, -, ho, hlt, hv⟩ := mr_mi_run a0 a1 a2 a3 a4 a5 a6 a7 a8 b0 b1 b2 b3 b4 b5 b6 b7 b8 hin hab
  obtain ⟨hC, hW⟩ := pipe_prog _ _ montgomery_mul_is_pipeline [a0, a1, a2, a3, a4, a5, a6, a7, a8, b0, b1, b2, b3, b4, b5, b6, b7, b8] out rfl
    (pipeC_two_nil MI MR _ z out h1 h2)
  exact ⟨out, hC, hW, ho, hlt, hv⟩

/-- `Scalar29::mul(a, b)` for `a·b < 2^261·l`: the canonical representative of the product -/
theorem mul_spec_of_lt (hin : EnvIn [a0, a1, a2, a3, a4, a5, a6, a7, a8, b0, b1, b2, b3, b4, b5, b6, b7, b8] Scalar29.pre_mul_internal)
    (hab : val29 [a0, a1, a2, a3, a4, a5, a6, a7, a8] * val29 [b0, b1, b2, b3, b4, b5, b6, b7, b8] < 2 ^ 261 * l) :
    ∃ out, Dalek.Gen.Scalar29.mul.evalC [a0, a1, a2, a3, a4, a5, a6, a7, a8, b0, b1, b2, b3, b4, b5, b6, b7, b8] = some out ∧
      Dalek.Gen.Scalar29.mul.evalW [a0, a1, a2, a3, a4, a5, a6, a7, a8, b0, b1, b2, b3, b4, b5, b6, b7, b8] = out ∧
      EnvIn out limbs29 ∧ val29 out = val29 [a0, a1, a2, a3, a4, a5, a6, a7, a8] * val29 [b0, b1, b2, b3, b4, b5, b6, b7, b8] % l := by
  obtain ⟨z, c, h1, h2, -, hc, hclt, hcv⟩ := mr_mi_run a0 a1 a2 a3 a4 a5 a6 a7 a8 b0 b1 b2 b3 b4 b5 b6 b7 b8 hin hab
  obtain ⟨c0, c1, c2, c3, c4, c5, c6, c7, c8, rfl⟩ := list9_of_length (by rw [envIn_length hc]; rfl : c.length = 9)
  obtain ⟨out, hp2, ho, hlt, hv⟩ := mr_miRR_run c0 c1 c2 c3 c4 c5 c6 c7 c8 hc
  obtain ⟨hC, hW⟩ := pipe_prog _ _ mul_is_pipeline [a0, a1, a2, a3, a4, a5, a6, a7, a8, b0, b1, b2, b3, b4, b5, b6, b7, b8] out rfl
    (pipeC_append [(MI, []), (MR, [])] [(MI, U32.RR), (MR, [])] _ _ out (pipeC_two_nil MI MR _ z _ h1 h2) hp2)
  exact ⟨out, hC, hW, ho, mont_twice hcv hv val29_RR hlt⟩

/-- `Scalar29::mul(a, b)` on canonical inputs: `a·b mod l`, canonical -/
theorem mul_spec (hin : EnvIn [a0, a1, a2, a3, a4, a5, a6, a7, a8, b0, b1, b2, b3, b4, b5, b6, b7, b8] Scalar29.pre_mul_internal)
    (ha : val29 [a0, a1, a2, a3, a4, a5, a6, a7, a8] < l) (hb : val29 [b0, b1, b2, b3, b4, b5, b6, b7, b8] < l) :
    ∃ out, Dalek.Gen.Scalar29.mul.evalC [a0, a1, a2, a3, a4, a5, a6, a7, a8, b0, b1, b2, b3, b4, b5, b6, b7, b8] = some out ∧
      Dalek.Gen.Scalar29.mul.evalW [a0, a1, a2, a3, a4, a5, a6, a7, a8, b0, b1, b2, b3, b4, b5, b6, b7, b8] = out ∧
      EnvIn out limbs29 ∧ val29 out = val29 [a0, a1, a2, a3, a4, a5, a6, a7, a8] * val29 [b0, b1, b2, b3, b4, b5, b6, b7, b8] % l :=
  mul_spec_of_lt a0 a1 a2 a3 a4 a5 a6 a7 a8 b0 b1 b2 b3 b4 b5 b6 b7 b8 hin (Nat.mul_lt_mul'' (lt_trans ha (by norm_num [l])) hb)

/-- `Scalar29::square(a)` for `a² < 2^261·l`: the canonical representative of the square -/
theorem square_spec_of_lt (hin : EnvIn [a0, a1, a2, a3, a4, a5, a6, a7, a8] Scalar29.pre_square_internal)
    (haa : val29 [a0, a1, a2, a3, a4, a5, a6, a7, a8] * val29 [a0, a1, a2, a3, a4, a5, a6, a7, a8] < 2 ^ 261 * l) :
    ∃ out, Dalek.Gen.Scalar29.square.evalC [a0, a1, a2, a3, a4, a5, a6, a7, a8] = some out ∧
      Dalek.Gen.Scalar29.square.evalW [a0, a1, a2, a3, a4, a5, a6, a7, a8] = out ∧
      EnvIn out limbs29 ∧ val29 out = val29 [a0, a1, a2, a3, a4, a5, a6, a7, a8] * val29 [a0, a1, a2, a3, a4, a5, a6, a7, a8] % l := by
  obtain ⟨z, c, h1, h2, hc, hclt, hcv⟩ := mr_sq_run a0 a1 a2 a3 a4 a5 a6 a7 a8 hin haa
  obtain ⟨c0, c1, c2, c3, c4, c5, c6, c7, c8, rfl⟩ := list9_of_length (by rw [envIn_length hc]; rfl : c.length = 9)
  obtain ⟨out, hp2, ho, hlt, hv⟩ := mr_miRR_run c0 c1 c2 c3 c4 c5 c6 c7 c8 hc
  obtain ⟨hC, hW⟩ := pipe_prog _ _ square_is_pipeline [a0, a1, a2, a3, a4, a5, a6, a7, a8] out rfl
    (pipeC_append [(SQ, []), (MR, [])] [(MI, U32.RR), (MR, [])] _ _ out (pipeC_two_nil SQ MR _ z _ h1 h2) hp2)
  exact ⟨out, hC, hW, ho, mont_twice hcv hv val29_RR hlt⟩

/-- `Scalar29::square(a)` on a canonical input: `a² mod l`, canonical -/
theorem square_spec (hin : EnvIn [a0, a1, a2, a3, a4, a5, a6, a7, a8] Scalar29.pre_square_internal) (ha : val29 [a0, a1, a2, a3, a4, a5, a6, a7, a8] < l) :
    ∃ out, Dalek.Gen.Scalar29.square.evalC [a0, a1, a2, a3, a4, a5, a6, a7, a8] = some out ∧
      Dalek.Gen.Scalar29.square.evalW [a0, a1, a2, a3, a4, a5, a6, a7, a8] = out ∧
      EnvIn out limbs29 ∧ val29 out = val29 [a0, a1, a2, a3, a4, a5, a6, a7, a8] * val29 [a0, a1, a2, a3, a4, a5, a6, a7, a8] % l :=
  square_spec_of_lt a0 a1 a2 a3 a4 a5 a6 a7 a8 hin (Nat.mul_lt_mul'' (lt_trans ha (by norm_num [l])) ha)

/-- `Scalar29::as_montgomery(a)` for ANY nine 29-bit limbs: the canonical representative of `a·2^261` -/
theorem as_montgomery_spec (hin : EnvIn [a0, a1, a2, a3, a4, a5, a6, a7, a8] limbs29) :
    ∃ out, Dalek.Gen.Scalar29.as_montgomery.evalC [a0, a1, a2, a3, a4, a5, a6, a7, a8] = some out ∧
      Dalek.Gen.Scalar29.as_montgomery.evalW [a0, a1, a2, a3, a4, a5, a6, a7, a8] = out ∧
      EnvIn out limbs29 ∧ val29 out = val29 [a0, a1, a2, a3, a4, a5, a6, a7, a8] * 2 ^ 261 % l := by
  obtain ⟨out, hp, ho, hlt, hv⟩ := mr_miRR_run a0 a1 a2 a3 a4 a5 a6 a7 a8 hin
  obtain ⟨hC, hW⟩ := pipe_prog _ _ as_montgomery_is_pipeline [a0, a1, a2, a3, a4, a5, a6, a7, a8] out rfl hp
  exact ⟨out, hC, hW, ho, mont_as hv val29_RR hlt⟩

end

/-! ## `from_bytes_wide` -/

open Dalek.Model.FieldBytes (leVal)

def vals (a n : Nat) : List Arg := (List.range' a n).map Sum.inl
def cst (l : List Nat) : List Arg := l.map Sum.inr

/-- `from_bytes_wide`: cut the bytes into `lo`, `hi`; `lo' = montgomery_mul(lo, R)`; `hi' = montgomery_mul(hi, RR)`;
`add(hi', lo')`.  Values are numbered: 0..63 the bytes, 64..72 `lo`, 73..81 `hi`, 82..98 and 99..107 the two stages
of the first `montgomery_mul`, 108..124 and 125..133 of the second, 134..142 the result. -/
def wideScript : List (Prog × List Arg) :=
  [(widePrefix, vals 0 64),
   (MI, vals 64 9 ++ cst U32.R), (MR, vals 82 17),
   (MI, vals 73 9 ++ cst U32.RR), (MR, vals 108 17),
   (Dalek.Gen.Scalar29.add, vals 125 9 ++ vals 99 9)]

/-- the body of the translated `from_bytes_wide` is this script, inlined -/
theorem from_bytes_wide_is_script :
    scriptOK Dalek.Gen.Scalar29.from_bytes_wide wideScript (List.range' 134 9) = true := by
  decide +kernel

theorem R_envIn : EnvIn U32.R (rep 9 Scalar29.lim) := by decide +kernel

/-- the limb-extraction prefix, at the level of naturals -/
theorem widePrefix_spec (x0 x1 x2 x3 x4 x5 x6 x7 x8 x9 x10 x11 x12 x13 x14 x15 x16 x17 x18 x19 x20 x21 x22 x23 x24 x25 x26 x27 x28 x29 x30 x31 x32 x33 x34 x35 x36 x37 x38 x39 x40 x41 x42 x43 x44 x45 x46 x47 x48 x49 x50 x51 x52 x53 x54 x55 x56 x57 x58 x59 x60 x61 x62 x63 : Nat) (hin : EnvIn [x0, x1, x2, x3, x4, x5, x6, x7, x8, x9, x10, x11, x12, x13, x14, x15, x16, x17, x18, x19, x20, x21, x22, x23, x24, x25, x26, x27, x28, x29, x30, x31, x32, x33, x34, x35, x36, x37, x38, x39, x40, x41, x42, x43, x44, x45, x46, x47, x48, x49, x50, x51, x52, x53, x54, x55, x56, x57, x58, x59, x60, x61, x62, x63] (bytes 64)) :
    ∃ P0 P1 P2 P3 P4 P5 P6 P7 P8 Q0 Q1 Q2 Q3 Q4 Q5 Q6 Q7 Q8, widePrefix.evalC [x0, x1, x2, x3, x4, x5, x6, x7, x8, x9, x10, x11, x12, x13, x14, x15, x16, x17, x18, x19, x20, x21, x22, x23, x24, x25, x26, x27, x28, x29, x30, x31, x32, x33, x34, x35, x36, x37, x38, x39, x40, x41, x42, x43, x44, x45, x46, x47, x48, x49, x50, x51, x52, x53, x54, x55, x56, x57, x58, x59, x60, x61, x62, x63] = some [P0, P1, P2, P3, P4, P5, P6, P7, P8, Q0, Q1, Q2, Q3, Q4, Q5, Q6, Q7, Q8] ∧
      EnvIn [P0, P1, P2, P3, P4, P5, P6, P7, P8] limbs29 ∧ EnvIn [Q0, Q1, Q2, Q3, Q4, Q5, Q6, Q7, Q8] limbs29 ∧
      val29 [P0, P1, P2, P3, P4, P5, P6, P7, P8] + 2 ^ 261 * val29 [Q0, Q1, Q2, Q3, Q4, Q5, Q6, Q7, Q8] = leVal [x0, x1, x2, x3, x4, x5, x6, x7, x8, x9, x10, x11, x12, x13, x14, x15, x16, x17, x18, x19, x20, x21, x22, x23, x24, x25, x26, x27, x28, x29, x30, x31, x32, x33, x34, x35, x36, x37, x38, x39, x40, x41, x42, x43, x44, x45, x46, x47, x48, x49, x50, x51, x52, x53, x54, x55, x56, x57, x58, x59, x60, x61, x62, x63] := by
  obtain ⟨out, hC, -, hpost, hZ⟩ := Prog.norm_sound _ _ _ _ widePrefix_norm_ok _ hin
  have hpost' := EnvIn_of_itvsLe hpost widePrefix_post_le
  obtain ⟨P0, P1, P2, P3, P4, P5, P6, P7, P8, Q0, Q1, Q2, Q3, Q4, Q5, Q6, Q7, Q8, rfl⟩ := list18_of_length (by rw [envIn_length hpost']; rfl : out.length = 18)
  have hl := limBytes_of_envIn hin
  simp only [toZ_cons, toZ_nil] at hZ hl
  obtain ⟨p0, p1, p2, p3, p4, p5, p6, p7, p8, q0, q1, q2, q3, q4, q5, q6, q7, q8, he, -, -, hv⟩ := widePrefix_fn_spec _ _ _ _ _ _ _ _ _ _ _ _ _ _ _ _ _ _ _ _ _ _ _ _ _ _ _ _ _ _ _ _ _ _ _ _ _ _ _ _ _ _ _ _ _ _ _ _ _ _ _ _ _ _ _ _ _ _ _ _ _ _ _ _ hl
  rw [he] at hZ
  simp only [List.cons.injEq, and_true] at hZ
  obtain ⟨e0, e1, e2, e3, e4, e5, e6, e7, e8, f0, f1, f2, f3, f4, f5, f6, f7, f8⟩ := hZ
  subst e0 e1 e2 e3 e4 e5 e6 e7 e8 f0 f1 f2 f3 f4 f5 f6 f7 f8
  have h2 := leValZ_toZ [x0, x1, x2, x3, x4, x5, x6, x7, x8, x9, x10, x11, x12, x13, x14, x15, x16, x17, x18, x19, x20, x21, x22, x23, x24, x25, x26, x27, x28, x29, x30, x31, x32, x33, x34, x35, x36, x37, x38, x39, x40, x41, x42, x43, x44, x45, x46, x47, x48, x49, x50, x51, x52, x53, x54, x55, x56, x57, x58, x59, x60, x61, x62, x63]
  simp only [toZ_cons, toZ_nil] at h2
  rw [h2, repZ_cast9, repZ_cast9] at hv
  refine ⟨P0, P1, P2, P3, P4, P5, P6, P7, P8, Q0, Q1, Q2, Q3, Q4, Q5, Q6, Q7, Q8, hC, ?_, ?_, by exact_mod_cast hv⟩
  · simp only [limbs29, rep, List.replicate, EnvIn] at hpost' ⊢
    exact ⟨hpost'.1, hpost'.2.1, hpost'.2.2.1, hpost'.2.2.2.1, hpost'.2.2.2.2.1, hpost'.2.2.2.2.2.1,
      hpost'.2.2.2.2.2.2.1, hpost'.2.2.2.2.2.2.2.1, hpost'.2.2.2.2.2.2.2.2.1, trivial⟩
  · simp only [limbs29, rep, List.replicate, EnvIn] at hpost' ⊢
    exact hpost'.2.2.2.2.2.2.2.2.2

section
variable (x0 x1 x2 x3 x4 x5 x6 x7 x8 x9 x10 x11 x12 x13 x14 x15 x16 x17 x18 x19 x20 x21 x22 x23 x24 x25 x26 x27 x28 x29 x30 x31 x32 x33 x34 x35 x36 x37 x38 x39 x40 x41 x42 x43 x44 x45 x46 x47 x48 x49 x50 x51 x52 x53 x54 x55 x56 x57 x58 x59 x60 x61 x62 x63 : Nat)

/-- `Scalar29::from_bytes_wide`: the canonical representative of the little-endian value of the 64 bytes -/
theorem from_bytes_wide_spec (hin : EnvIn [x0, x1, x2, x3, x4, x5, x6, x7, x8, x9, x10, x11, x12, x13, x14, x15, x16, x17, x18, x19, x20, x21, x22, x23, x24, x25, x26, x27, x28, x29, x30, x31, x32, x33, x34, x35, x36, x37, x38, x39, x40, x41, x42, x43, x44, x45, x46, x47, x48, x49, x50, x51, x52, x53, x54, x55, x56, x57, x58, x59, x60, x61, x62, x63] Scalar29.pre_from_bytes_wide) :
    ∃ out, Dalek.Gen.Scalar29.from_bytes_wide.evalC [x0, x1, x2, x3, x4, x5, x6, x7, x8, x9, x10, x11, x12, x13, x14, x15, x16, x17, x18, x19, x20, x21, x22, x23, x24, x25, x26, x27, x28, x29, x30, x31, x32, x33, x34, x35, x36, x37, x38, x39, x40, x41, x42, x43, x44, x45, x46, x47, x48, x49, x50, x51, x52, x53, x54, x55, x56, x57, x58, x59, x60, x61, x62, x63] = some out ∧
      Dalek.Gen.Scalar29.from_bytes_wide.evalW [x0, x1, x2, x3, x4, x5, x6, x7, x8, x9, x10, x11, x12, x13, x14, x15, x16, x17, x18, x19, x20, x21, x22, x23, x24, x25, x26, x27, x28, x29, x30, x31, x32, x33, x34, x35, x36, x37, x38, x39, x40, x41, x42, x43, x44, x45, x46, x47, x48, x49, x50, x51, x52, x53, x54, x55, x56, x57, x58, x59, x60, x61, x62, x63] = out ∧
      EnvIn out limbs29 ∧ val29 out = leVal [x0, x1, x2, x3, x4, x5, x6, x7, x8, x9, x10, x11, x12, x13, x14, x15, x16, x17, x18, x19, x20, x21, x22, x23, x24, x25, x26, x27, x28, x29, x30, x31, x32, x33, x34, x35, x36, x37, x38, x39, x40, x41, x42, x43, x44, x45, x46, x47, x48, x49, x50, x51, x52, x53, x54, x55, x56, x57, x58, x59, x60, x61, x62, x63] % l := by
  obtain ⟨P0, P1, P2, P3, P4, P5, P6, P7, P8, Q0, Q1, Q2, Q3, Q4, Q5, Q6, Q7, Q8, hC0, hp, hq, hv0⟩ := widePrefix_spec x0 x1 x2 x3 x4 x5 x6 x7 x8 x9 x10 x11 x12 x13 x14 x15 x16 x17 x18 x19 x20 x21 x22 x23 x24 x25 x26 x27 x28 x29 x30 x31 x32 x33 x34 x35 x36 x37 x38 x39 x40 x41 x42 x43 x44 x45 x46 x47 x48 x49 x50 x51 x52 x53 x54 x55 x56 x57 x58 x59 x60 x61 x62 x63 hin
  -- lo' = montgomery_mul(lo, R)
  have hP : val29 [P0, P1, P2, P3, P4, P5, P6, P7, P8] < 2 ^ 261 := by
    have h1 := lim29_of_envIn hp
    simp only [toZ_cons, toZ_nil] at h1
    have h2 := (repZ9_bd _ _ _ _ _ _ _ _ _ h1).2
    rw [repZ_cast9] at h2
    exact_mod_cast h2
  have hQ : val29 [Q0, Q1, Q2, Q3, Q4, Q5, Q6, Q7, Q8] < 2 ^ 261 := by
    have h1 := lim29_of_envIn hq
    simp only [toZ_cons, toZ_nil] at h1
    have h2 := (repZ9_bd _ _ _ _ _ _ _ _ _ h1).2
    rw [repZ_cast9] at h2
    exact_mod_cast h2
  obtain ⟨z1, lo', h1, h2, hz1, hlo, hlolt, hlov⟩ := mr_mi_run P0 P1 P2 P3 P4 P5 P6 P7 P8 290322925 442594051 259787148 377041255 536700270 536870911 536870911 536870911 1048575
    (envIn_append hp R_envIn)
    (by show val29 [P0, P1, P2, P3, P4, P5, P6, P7, P8] * val29 U32.R < 2 ^ 261 * l
        rw [val29_R]
        exact Nat.mul_lt_mul'' hP (Nat.mod_lt _ (by norm_num [l])))
  obtain ⟨z2, hi', h3, h4, hz2, hhi, hhilt, hhiv⟩ := mr_mi_run Q0 Q1 Q2 Q3 Q4 Q5 Q6 Q7 Q8 190815506 504634135 361594685 339687255 426956673 70249340 485410621 504909086 328813
    (envIn_append hq RR_envIn)
    (by show val29 [Q0, Q1, Q2, Q3, Q4, Q5, Q6, Q7, Q8] * val29 U32.RR < 2 ^ 261 * l
        rw [val29_RR]
        exact Nat.mul_lt_mul'' hQ (Nat.mod_lt _ (by norm_num [l])))
  obtain ⟨Z0, Z1, Z2, Z3, Z4, Z5, Z6, Z7, Z8, Z9, Z10, Z11, Z12, Z13, Z14, Z15, Z16, rfl⟩ := list17_of_length hz1
  obtain ⟨Y0, Y1, Y2, Y3, Y4, Y5, Y6, Y7, Y8, Y9, Y10, Y11, Y12, Y13, Y14, Y15, Y16, rfl⟩ := list17_of_length hz2
  obtain ⟨L0, L1, L2, L3, L4, L5, L6, L7, L8, rfl⟩ := list9_of_length (by rw [envIn_length hlo]; rfl : lo'.length = 9)
  obtain ⟨H0, H1, H2, H3, H4, H5, H6, H7, H8, rfl⟩ := list9_of_length (by rw [envIn_length hhi]; rfl : hi'.length = 9)
  obtain ⟨out, hC5, -, ho, hov⟩ := add_spec H0 H1 H2 H3 H4 H5 H6 H7 H8 L0 L1 L2 L3 L4 L5 L6 L7 L8 (envIn_append hhi hlo) hhilt hlolt
  obtain ⟨O0, O1, O2, O3, O4, O5, O6, O7, O8, rfl⟩ := list9_of_length (by rw [envIn_length ho]; rfl : out.length = 9)
  have hs : scriptC wideScript [x0, x1, x2, x3, x4, x5, x6, x7, x8, x9, x10, x11, x12, x13, x14, x15, x16, x17, x18, x19, x20, x21, x22, x23, x24, x25, x26, x27, x28, x29, x30, x31, x32, x33, x34, x35, x36, x37, x38, x39, x40, x41, x42, x43, x44, x45, x46, x47, x48, x49, x50, x51, x52, x53, x54, x55, x56, x57, x58, x59, x60, x61, x62, x63] = some ([x0, x1, x2, x3, x4, x5, x6, x7, x8, x9, x10, x11, x12, x13, x14, x15, x16, x17, x18, x19, x20, x21, x22, x23, x24, x25, x26, x27, x28, x29, x30, x31, x32, x33, x34, x35, x36, x37, x38, x39, x40, x41, x42, x43, x44, x45, x46, x47, x48, x49, x50, x51, x52, x53, x54, x55, x56, x57, x58, x59, x60, x61, x62, x63] ++ [P0, P1, P2, P3, P4, P5, P6, P7, P8, Q0, Q1, Q2, Q3, Q4, Q5, Q6, Q7, Q8] ++ [Z0, Z1, Z2, Z3, Z4, Z5, Z6, Z7, Z8, Z9, Z10, Z11, Z12, Z13, Z14, Z15, Z16] ++ [L0, L1, L2, L3, L4, L5, L6, L7, L8] ++ [Y0, Y1, Y2, Y3, Y4, Y5, Y6, Y7, Y8, Y9, Y10, Y11, Y12, Y13, Y14, Y15, Y16] ++ [H0, H1, H2, H3, H4, H5, H6, H7, H8] ++ [O0, O1, O2, O3, O4, O5, O6, O7, O8]) :=
    scriptC_cons _ _ _ _ _ _ hC0 <|
    scriptC_cons _ _ _ _ _ _ h1 <|
    scriptC_cons _ _ _ _ _ _ h2 <|
    scriptC_cons _ _ _ _ _ _ h3 <|
    scriptC_cons _ _ _ _ _ _ h4 <|
    scriptC_cons _ _ _ _ _ _ hC5 rfl
  have hlen : [x0, x1, x2, x3, x4, x5, x6, x7, x8, x9, x10, x11, x12, x13, x14, x15, x16, x17, x18, x19, x20, x21, x22, x23, x24, x25, x26, x27, x28, x29, x30, x31, x32, x33, x34, x35, x36, x37, x38, x39, x40, x41, x42, x43, x44, x45, x46, x47, x48, x49, x50, x51, x52, x53, x54, x55, x56, x57, x58, x59, x60, x61, x62, x63].length = Dalek.Gen.Scalar29.from_bytes_wide.nIn := rfl
  have hsp := script_prog' Dalek.Gen.Scalar29.from_bytes_wide wideScript (List.range' 134 9) from_bytes_wide_is_script _ _ hlen hs
  have hpick : pick ([x0, x1, x2, x3, x4, x5, x6, x7, x8, x9, x10, x11, x12, x13, x14, x15, x16, x17, x18, x19, x20, x21, x22, x23, x24, x25, x26, x27, x28, x29, x30, x31, x32, x33, x34, x35, x36, x37, x38, x39, x40, x41, x42, x43, x44, x45, x46, x47, x48, x49, x50, x51, x52, x53, x54, x55, x56, x57, x58, x59, x60, x61, x62, x63] ++ [P0, P1, P2, P3, P4, P5, P6, P7, P8, Q0, Q1, Q2, Q3, Q4, Q5, Q6, Q7, Q8] ++ [Z0, Z1, Z2, Z3, Z4, Z5, Z6, Z7, Z8, Z9, Z10, Z11, Z12, Z13, Z14, Z15, Z16] ++ [L0, L1, L2, L3, L4, L5, L6, L7, L8] ++ [Y0, Y1, Y2, Y3, Y4, Y5, Y6, Y7, Y8, Y9, Y10, Y11, Y12, Y13, Y14, Y15, Y16] ++ [H0, H1, H2, H3, H4, H5, H6, H7, H8] ++ [O0, O1, O2, O3, O4, O5, O6, O7, O8]) (List.range' 134 9) = [O0, O1, O2, O3, O4, O5, O6, O7, O8] := rfl
  rw [hpick] at hsp
  refine ⟨[O0, O1, O2, O3, O4, O5, O6, O7, O8], hsp.1, hsp.2, ho, ?_⟩
  rw [hov, mont_as hhiv val29_RR hhilt, mont_R hlov val29_R hlolt, ← Nat.add_mod, ← hv0, Nat.add_comm, Nat.mul_comm]

end

/-! ## non-vacuity of the hypotheses -/

example : EnvIn (List.replicate 64 255) Scalar29.pre_from_bytes_wide := by decide +kernel
/-- all limbs at the bound times `l - 1` satisfies the contract and the product bound of `mul_spec_of_lt` -/
example : EnvIn (List.replicate 9 (2 ^ 29 - 1) ++ [485872620, 9640146, 501691798, 502512965, 333, 0, 0, 0, 1048576])
      Scalar29.pre_mul_internal ∧
    val29 (List.replicate 9 (2 ^ 29 - 1)) * val29 [485872620, 9640146, 501691798, 502512965, 333, 0, 0, 0, 1048576]
      < 2 ^ 261 * l := by decide +kernel

end Dalek.Props.C02.Scalar29

import Dalek.IR.LimbSound
import Dalek.Proofs.FiatField51
import Dalek.Props.C01.Field51
import Dalek.Proofs.MontClamp
/-!
# C01 / C11 / C05 — the fiat u64 backend: field arithmetic is exact arithmetic modulo 2^255-19 (property theorems)

Statements are about `Dalek.Gen.FiatField51.*`: LimbIR programs REGENERATED on every run from the wrapper methods of
`curve25519-dalek/src/backend/serial/fiat_u64/field.rs` with the `fiat_crypto::curve25519_64` functions they call
INLINED (source: the cargo-registry copy of the fiat-crypto version pinned by /repo/Cargo.lock).  For every input inside
fiat's documented *tight* bounds (`Dalek.Model.Contracts.FiatField51.tight`) the debug build (`evalC`: overflow checks) does not
panic, the release build (`evalW`) returns the same limbs, the result is again *tight* (so every composition of these
operations stays inside the contracts: the C11 invariant of this backend is one interval vector), and its value in `ZMod p`
is the field operation applied to the values of the inputs.
-/
namespace Dalek.Props.C01.Fiat51
open Dalek.IR Dalek.Model.Contracts
open Dalek.Proofs.Field51 (P rep51)
open Dalek.Props.C01.Field51 (val51 toZ_cons toZ_nil)

/-- the output contract of every fiat wrapper operation: fiat's tight bounds -/
abbrev tightOut : List Itv := rep 5 FiatField51.tight

section
variable (a0 a1 a2 a3 a4 b0 b1 b2 b3 b4 : Nat)

/-- `-&a`: `fiat_25519_opp` then `fiat_25519_carry` -/
theorem neg_spec (hin : EnvIn [a0, a1, a2, a3, a4] FiatField51.pre_neg) :
    ∃ out, Dalek.Gen.FiatField51.neg.evalC [a0, a1, a2, a3, a4] = some out ∧
      Dalek.Gen.FiatField51.neg.evalW [a0, a1, a2, a3, a4] = out ∧
      EnvIn out tightOut ∧ val51 out = - val51 [a0, a1, a2, a3, a4] := by
  obtain ⟨out, hC, hW, hpost, hZ⟩ := Prog.norm_sound _ _ _ _ Dalek.Gen.Norm.FiatField51.neg_norm_ok _ hin
  refine ⟨out, hC, hW, EnvIn_of_itvsLe hpost (by decide +kernel), ?_⟩
  have h := Dalek.Proofs.FiatField51.neg_correct a0 a1 a2 a3 a4
  rw [← Dalek.Gen.Norm.FiatField51.neg_fn_ok] at h
  simp only [toZ_cons, toZ_nil] at hZ
  rw [hZ] at h
  simpa [val51, toZ_cons, toZ_nil] using h

/-- `square()`: relax, `fiat_25519_carry_square` -/
theorem square_spec (hin : EnvIn [a0, a1, a2, a3, a4] FiatField51.pre_square) :
    ∃ out, Dalek.Gen.FiatField51.square.evalC [a0, a1, a2, a3, a4] = some out ∧
      Dalek.Gen.FiatField51.square.evalW [a0, a1, a2, a3, a4] = out ∧
      EnvIn out tightOut ∧ val51 out = val51 [a0, a1, a2, a3, a4] ^ 2 := by
  obtain ⟨out, hC, hW, hpost, hZ⟩ := Prog.norm_sound _ _ _ _ Dalek.Gen.Norm.FiatField51.square_norm_ok _ hin
  refine ⟨out, hC, hW, EnvIn_of_itvsLe hpost (by decide +kernel), ?_⟩
  have h := Dalek.Proofs.FiatField51.square_correct a0 a1 a2 a3 a4
  rw [← Dalek.Gen.Norm.FiatField51.square_fn_ok] at h
  simp only [toZ_cons, toZ_nil] at hZ
  rw [hZ] at h
  simpa [val51, toZ_cons, toZ_nil] using h

/-- `square2()`: carry_square, `add(sq, sq)`, carry -/
theorem square2_spec (hin : EnvIn [a0, a1, a2, a3, a4] FiatField51.pre_square2) :
    ∃ out, Dalek.Gen.FiatField51.square2.evalC [a0, a1, a2, a3, a4] = some out ∧
      Dalek.Gen.FiatField51.square2.evalW [a0, a1, a2, a3, a4] = out ∧
      EnvIn out tightOut ∧ val51 out = 2 * val51 [a0, a1, a2, a3, a4] ^ 2 := by
  obtain ⟨out, hC, hW, hpost, hZ⟩ := Prog.norm_sound _ _ _ _ Dalek.Gen.Norm.FiatField51.square2_norm_ok _ hin
  refine ⟨out, hC, hW, EnvIn_of_itvsLe hpost (by decide +kernel), ?_⟩
  have h := Dalek.Proofs.FiatField51.square2_correct a0 a1 a2 a3 a4
  rw [← Dalek.Gen.Norm.FiatField51.square2_fn_ok] at h
  simp only [toZ_cons, toZ_nil] at hZ
  rw [hZ] at h
  simpa [val51, toZ_cons, toZ_nil] using h

/-- one iteration of the `pow2k` loop (tight in, tight out: it iterates) -/
theorem pow2k_body_spec (hin : EnvIn [a0, a1, a2, a3, a4] FiatField51.pre_pow2k_body) :
    ∃ out, Dalek.Gen.FiatField51.pow2k_body.evalC [a0, a1, a2, a3, a4] = some out ∧
      Dalek.Gen.FiatField51.pow2k_body.evalW [a0, a1, a2, a3, a4] = out ∧
      EnvIn out tightOut ∧ val51 out = val51 [a0, a1, a2, a3, a4] ^ 2 := by
  obtain ⟨out, hC, hW, hpost, hZ⟩ := Prog.norm_sound _ _ _ _ Dalek.Gen.Norm.FiatField51.pow2k_body_norm_ok _ hin
  refine ⟨out, hC, hW, EnvIn_of_itvsLe hpost (by decide +kernel), ?_⟩
  have h := Dalek.Proofs.FiatField51.pow2k_body_correct a0 a1 a2 a3 a4
  rw [← Dalek.Gen.Norm.FiatField51.pow2k_body_fn_ok] at h
  simp only [toZ_cons, toZ_nil] at hZ
  rw [hZ] at h
  simpa [val51, toZ_cons, toZ_nil] using h

/-- the private `reduce` (= `fiat_25519_carry`): any LOOSE limbs -/
theorem reduce_spec (hin : EnvIn [a0, a1, a2, a3, a4] FiatField51.pre_reduce) :
    ∃ out, Dalek.Gen.FiatField51.reduce.evalC [a0, a1, a2, a3, a4] = some out ∧
      Dalek.Gen.FiatField51.reduce.evalW [a0, a1, a2, a3, a4] = out ∧
      EnvIn out tightOut ∧ val51 out = val51 [a0, a1, a2, a3, a4] := by
  obtain ⟨out, hC, hW, hpost, hZ⟩ := Prog.norm_sound _ _ _ _ Dalek.Gen.Norm.FiatField51.reduce_norm_ok _ hin
  refine ⟨out, hC, hW, EnvIn_of_itvsLe hpost (by decide +kernel), ?_⟩
  have h := Dalek.Proofs.FiatField51.reduce_correct a0 a1 a2 a3 a4
  rw [← Dalek.Gen.Norm.FiatField51.reduce_fn_ok] at h
  simp only [toZ_cons, toZ_nil] at hZ
  rw [hZ] at h
  simpa [val51, toZ_cons, toZ_nil] using h

/-- `+=`: `fiat_25519_add` then `fiat_25519_carry` -/
theorem add_spec (hin : EnvIn [a0, a1, a2, a3, a4, b0, b1, b2, b3, b4] FiatField51.pre_add) :
    ∃ out, Dalek.Gen.FiatField51.add.evalC [a0, a1, a2, a3, a4, b0, b1, b2, b3, b4] = some out ∧
      Dalek.Gen.FiatField51.add.evalW [a0, a1, a2, a3, a4, b0, b1, b2, b3, b4] = out ∧
      EnvIn out tightOut ∧ val51 out = val51 [a0, a1, a2, a3, a4] + val51 [b0, b1, b2, b3, b4] := by
  obtain ⟨out, hC, hW, hpost, hZ⟩ := Prog.norm_sound _ _ _ _ Dalek.Gen.Norm.FiatField51.add_norm_ok _ hin
  refine ⟨out, hC, hW, EnvIn_of_itvsLe hpost (by decide +kernel), ?_⟩
  have h := Dalek.Proofs.FiatField51.add_correct a0 a1 a2 a3 a4 b0 b1 b2 b3 b4
  rw [← Dalek.Gen.Norm.FiatField51.add_fn_ok] at h
  simp only [toZ_cons, toZ_nil] at hZ
  rw [hZ] at h
  simpa [val51, toZ_cons, toZ_nil] using h

/-- `&a + &b` -/
theorem add_ref_spec (hin : EnvIn [a0, a1, a2, a3, a4, b0, b1, b2, b3, b4] FiatField51.pre_add_ref) :
    ∃ out, Dalek.Gen.FiatField51.add_ref.evalC [a0, a1, a2, a3, a4, b0, b1, b2, b3, b4] = some out ∧
      Dalek.Gen.FiatField51.add_ref.evalW [a0, a1, a2, a3, a4, b0, b1, b2, b3, b4] = out ∧
      EnvIn out tightOut ∧ val51 out = val51 [a0, a1, a2, a3, a4] + val51 [b0, b1, b2, b3, b4] := by
  obtain ⟨out, hC, hW, hpost, hZ⟩ := Prog.norm_sound _ _ _ _ Dalek.Gen.Norm.FiatField51.add_ref_norm_ok _ hin
  refine ⟨out, hC, hW, EnvIn_of_itvsLe hpost (by decide +kernel), ?_⟩
  have h := Dalek.Proofs.FiatField51.add_ref_correct a0 a1 a2 a3 a4 b0 b1 b2 b3 b4
  rw [← Dalek.Gen.Norm.FiatField51.add_ref_fn_ok] at h
  simp only [toZ_cons, toZ_nil] at hZ
  rw [hZ] at h
  simpa [val51, toZ_cons, toZ_nil] using h

/-- `&a - &b`: `fiat_25519_sub` (adds 2p) then carry -/
theorem sub_spec (hin : EnvIn [a0, a1, a2, a3, a4, b0, b1, b2, b3, b4] FiatField51.pre_sub) :
    ∃ out, Dalek.Gen.FiatField51.sub.evalC [a0, a1, a2, a3, a4, b0, b1, b2, b3, b4] = some out ∧
      Dalek.Gen.FiatField51.sub.evalW [a0, a1, a2, a3, a4, b0, b1, b2, b3, b4] = out ∧
      EnvIn out tightOut ∧ val51 out = val51 [a0, a1, a2, a3, a4] - val51 [b0, b1, b2, b3, b4] := by
  obtain ⟨out, hC, hW, hpost, hZ⟩ := Prog.norm_sound _ _ _ _ Dalek.Gen.Norm.FiatField51.sub_norm_ok _ hin
  refine ⟨out, hC, hW, EnvIn_of_itvsLe hpost (by decide +kernel), ?_⟩
  have h := Dalek.Proofs.FiatField51.sub_correct a0 a1 a2 a3 a4 b0 b1 b2 b3 b4
  rw [← Dalek.Gen.Norm.FiatField51.sub_fn_ok] at h
  simp only [toZ_cons, toZ_nil] at hZ
  rw [hZ] at h
  simpa [val51, toZ_cons, toZ_nil] using h

/-- `-=` -/
theorem sub_assign_spec (hin : EnvIn [a0, a1, a2, a3, a4, b0, b1, b2, b3, b4] FiatField51.pre_sub_assign) :
    ∃ out, Dalek.Gen.FiatField51.sub_assign.evalC [a0, a1, a2, a3, a4, b0, b1, b2, b3, b4] = some out ∧
      Dalek.Gen.FiatField51.sub_assign.evalW [a0, a1, a2, a3, a4, b0, b1, b2, b3, b4] = out ∧
      EnvIn out tightOut ∧ val51 out = val51 [a0, a1, a2, a3, a4] - val51 [b0, b1, b2, b3, b4] := by
  obtain ⟨out, hC, hW, hpost, hZ⟩ := Prog.norm_sound _ _ _ _ Dalek.Gen.Norm.FiatField51.sub_assign_norm_ok _ hin
  refine ⟨out, hC, hW, EnvIn_of_itvsLe hpost (by decide +kernel), ?_⟩
  have h := Dalek.Proofs.FiatField51.sub_assign_correct a0 a1 a2 a3 a4 b0 b1 b2 b3 b4
  rw [← Dalek.Gen.Norm.FiatField51.sub_assign_fn_ok] at h
  simp only [toZ_cons, toZ_nil] at hZ
  rw [hZ] at h
  simpa [val51, toZ_cons, toZ_nil] using h

/-- `&a * &b`: relax both, `fiat_25519_carry_mul` -/
theorem mul_spec (hin : EnvIn [a0, a1, a2, a3, a4, b0, b1, b2, b3, b4] FiatField51.pre_mul) :
    ∃ out, Dalek.Gen.FiatField51.mul.evalC [a0, a1, a2, a3, a4, b0, b1, b2, b3, b4] = some out ∧
      Dalek.Gen.FiatField51.mul.evalW [a0, a1, a2, a3, a4, b0, b1, b2, b3, b4] = out ∧
      EnvIn out tightOut ∧ val51 out = val51 [a0, a1, a2, a3, a4] * val51 [b0, b1, b2, b3, b4] := by
  obtain ⟨out, hC, hW, hpost, hZ⟩ := Prog.norm_sound _ _ _ _ Dalek.Gen.Norm.FiatField51.mul_norm_ok _ hin
  refine ⟨out, hC, hW, EnvIn_of_itvsLe hpost (by decide +kernel), ?_⟩
  have h := Dalek.Proofs.FiatField51.mul_correct a0 a1 a2 a3 a4 b0 b1 b2 b3 b4
  rw [← Dalek.Gen.Norm.FiatField51.mul_fn_ok] at h
  simp only [toZ_cons, toZ_nil] at hZ
  rw [hZ] at h
  simpa [val51, toZ_cons, toZ_nil] using h

/-- `*=` -/
theorem mul_assign_spec (hin : EnvIn [a0, a1, a2, a3, a4, b0, b1, b2, b3, b4] FiatField51.pre_mul_assign) :
    ∃ out, Dalek.Gen.FiatField51.mul_assign.evalC [a0, a1, a2, a3, a4, b0, b1, b2, b3, b4] = some out ∧
      Dalek.Gen.FiatField51.mul_assign.evalW [a0, a1, a2, a3, a4, b0, b1, b2, b3, b4] = out ∧
      EnvIn out tightOut ∧ val51 out = val51 [a0, a1, a2, a3, a4] * val51 [b0, b1, b2, b3, b4] := by
  obtain ⟨out, hC, hW, hpost, hZ⟩ := Prog.norm_sound _ _ _ _ Dalek.Gen.Norm.FiatField51.mul_assign_norm_ok _ hin
  refine ⟨out, hC, hW, EnvIn_of_itvsLe hpost (by decide +kernel), ?_⟩
  have h := Dalek.Proofs.FiatField51.mul_assign_correct a0 a1 a2 a3 a4 b0 b1 b2 b3 b4
  rw [← Dalek.Gen.Norm.FiatField51.mul_assign_fn_ok] at h
  simp only [toZ_cons, toZ_nil] at hZ
  rw [hZ] at h
  simpa [val51, toZ_cons, toZ_nil] using h

end

section
variable (a0 a1 a2 a3 a4 b0 b1 b2 b3 b4 c : Nat)

/-- `conditional_select(a, b, c)` (`fiat_25519_selectznz`): limb-for-limb `a` if `c = 0`, `b` if `c = 1` -/
theorem conditional_select_spec (hin : EnvIn [a0, a1, a2, a3, a4, b0, b1, b2, b3, b4, c] FiatField51.pre_conditional_select) :
    ∃ out, Dalek.Gen.FiatField51.conditional_select.evalC [a0, a1, a2, a3, a4, b0, b1, b2, b3, b4, c] = some out ∧
      Dalek.Gen.FiatField51.conditional_select.evalW [a0, a1, a2, a3, a4, b0, b1, b2, b3, b4, c] = out ∧
      out = if c = 0 then [a0, a1, a2, a3, a4] else [b0, b1, b2, b3, b4] := by
  obtain ⟨out, hC, hW, hpost, hZ⟩ := Prog.norm_sound _ _ _ _ Dalek.Gen.Norm.FiatField51.conditional_select_norm_ok _ hin
  refine ⟨out, hC, hW, ?_⟩
  have h := Dalek.Proofs.FiatField51.conditional_select_correct a0 a1 a2 a3 a4 b0 b1 b2 b3 b4 c
  rw [← Dalek.Gen.Norm.FiatField51.conditional_select_fn_ok] at h
  simp only [toZ_cons, toZ_nil] at hZ
  rw [hZ] at h
  apply Dalek.Proofs.Mont.toZ_inj
  rw [h]
  split <;> simp_all [toZ_cons, toZ_nil]

/-- `a.conditional_assign(b, c)` (five/ten `fiat_25519_cmovznz`) -/
theorem conditional_assign_spec (hin : EnvIn [a0, a1, a2, a3, a4, b0, b1, b2, b3, b4, c] FiatField51.pre_conditional_assign) :
    ∃ out, Dalek.Gen.FiatField51.conditional_assign.evalC [a0, a1, a2, a3, a4, b0, b1, b2, b3, b4, c] = some out ∧
      Dalek.Gen.FiatField51.conditional_assign.evalW [a0, a1, a2, a3, a4, b0, b1, b2, b3, b4, c] = out ∧
      out = if c = 0 then [a0, a1, a2, a3, a4] else [b0, b1, b2, b3, b4] := by
  obtain ⟨out, hC, hW, hpost, hZ⟩ := Prog.norm_sound _ _ _ _ Dalek.Gen.Norm.FiatField51.conditional_assign_norm_ok _ hin
  refine ⟨out, hC, hW, ?_⟩
  have h := Dalek.Proofs.FiatField51.conditional_assign_correct a0 a1 a2 a3 a4 b0 b1 b2 b3 b4 c
  rw [← Dalek.Gen.Norm.FiatField51.conditional_assign_fn_ok] at h
  simp only [toZ_cons, toZ_nil] at hZ
  rw [hZ] at h
  apply Dalek.Proofs.Mont.toZ_inj
  rw [h]
  split <;> simp_all [toZ_cons, toZ_nil]

/-- `conditional_swap(a, b, c)` (five/ten `u64::conditional_swap` on the limbs): the pair unchanged if `c = 0`, exchanged if `c = 1` -/
theorem conditional_swap_spec (hin : EnvIn [a0, a1, a2, a3, a4, b0, b1, b2, b3, b4, c] FiatField51.pre_conditional_swap) :
    ∃ out, Dalek.Gen.FiatField51.conditional_swap.evalC [a0, a1, a2, a3, a4, b0, b1, b2, b3, b4, c] = some out ∧
      Dalek.Gen.FiatField51.conditional_swap.evalW [a0, a1, a2, a3, a4, b0, b1, b2, b3, b4, c] = out ∧
      out = if c = 0 then [a0, a1, a2, a3, a4, b0, b1, b2, b3, b4] else [b0, b1, b2, b3, b4, a0, a1, a2, a3, a4] := by
  obtain ⟨out, hC, hW, hpost, hZ⟩ := Prog.norm_sound _ _ _ _ Dalek.Gen.Norm.FiatField51.conditional_swap_norm_ok _ hin
  refine ⟨out, hC, hW, ?_⟩
  have h := Dalek.Proofs.FiatField51.conditional_swap_correct a0 a1 a2 a3 a4 b0 b1 b2 b3 b4 c
  rw [← Dalek.Gen.Norm.FiatField51.conditional_swap_fn_ok] at h
  simp only [toZ_cons, toZ_nil] at hZ
  rw [hZ] at h
  apply Dalek.Proofs.Mont.toZ_inj
  rw [h]
  split <;> simp_all [toZ_cons, toZ_nil]

end

/-- non-vacuity: all limbs at the tight bound satisfy the contract of `mul` -/
example : EnvIn (List.replicate 5 0x8000000000000 ++ List.replicate 5 0x8000000000000) FiatField51.pre_mul := by decide +kernel

end Dalek.Props.C01.Fiat51

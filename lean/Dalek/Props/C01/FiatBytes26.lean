import Dalek.IR.LimbSound
import Dalek.Proofs.FiatBytes26
import Dalek.Props.C01.Bytes26
/-!
# C01 — byte decoding / canonical encoding of the fiat u32 field backend (property theorems)

Statements are about `Dalek.Gen.FiatField26.from_bytes` / `as_bytes`: the LimbIR programs REGENERATED on every run from
the wrapper methods of `curve25519-dalek/src/backend/serial/fiat_u32/field.rs` with the `fiat_crypto::curve25519_32`
functions they call (`fiat_25519_from_bytes`, `fiat_25519_to_bytes`) INLINED.  `evalC` is the debug build (overflow
checks; `none` = panic), `evalW` the release build (wrapping).  `FiatField26.tight` is fiat's documented bound of a
`fiat_25519_tight_field_element`: even limbs `≤ 2^26`, odd limbs `≤ 2^25` (inclusive).  The value of ten limbs is
`Σ l_i 2^⌈25.5 i⌉` (`val26N`).  Same statements as `Dalek/Props/C01/Bytes26.lean` (serial u32) and `FiatBytes51.lean`.

* `from_bytes_spec`: decoding 32 bytes ignores bit 255: the limbs are tight (even reduced: even `< 2^26`, odd `< 2^25`:
  `from_bytes_limbs_lt`) and their INTEGER value is `LE(bytes) mod 2^255` (so the field element is that number reduced
  mod p: `from_bytes_val`).
* `as_bytes_spec`: for TIGHT limbs the encoding is 32 bytes whose INTEGER little-endian value is
  `(Σ a_i 2^⌈25.5 i⌉) mod p`, the unique representative below `p`; top bit clear (`as_bytes_lt`, `as_bytes_top_bit`),
  `as_bytes_canonical` (the bytes are the base-256 digits of that number), `as_bytes_unique` (two limb vectors encode
  identically iff they have the same value mod p), `as_bytes_from_bytes` (round trip).
* `*_list`: the same for an arbitrary input list satisfying the contract; `*_spec'`: link to `Dalek.Spec.Field`.
-/
namespace Dalek.Props.C01.FiatBytes26
open Dalek.IR Dalek.Gen.Norm.FiatField26 Dalek.Model.Contracts
open Dalek.Proofs.Field26 (P rep26)
open Dalek.Model.FieldBytes
open Dalek.Proofs.Bytes26 (val26Z_toZ list_eq_of_length_10)
open Dalek.Props.C01.Bytes26 (val26_eq limbs26)
open Dalek.Proofs.Bytes51 (toZ_cons toZ_nil leValZ_toZ envIn_bytes envIn_length eq_natToLeN_of_leVal natToLeN_getD
  leVal_natToLeN natToLeN_leVal map_ofNat_natToLeN leVal_map_toNat allBytes_map_toNat list_eq_of_length_32 AllBytes)

/-- fiat's tight bounds on ten limbs (even `≤ 2^26`, odd `≤ 2^25`): the output contract of `from_bytes`, the input
contract of `as_bytes` and of every other fiat kernel -/
abbrev tight26 : List Itv := FiatField26.tight

section
variable (b0 b1 b2 b3 b4 b5 b6 b7 b8 b9 b10 b11 b12 b13 b14 b15 b16 b17 b18 b19 b20 b21 b22 b23 b24 b25 b26 b27 b28 b29 b30 b31 : Nat)

/-- fiat `FieldElement2625::from_bytes`: never panics, debug = release, the limbs are tight, and the integer value of the
limbs is the little-endian value of the 32 bytes with bit 255 cleared. -/
theorem from_bytes_spec (hin : EnvIn [b0, b1, b2, b3, b4, b5, b6, b7, b8, b9, b10, b11, b12, b13, b14, b15, b16, b17, b18, b19, b20, b21, b22, b23, b24, b25, b26, b27, b28, b29, b30, b31] FiatField26.pre_from_bytes) :
    ∃ out, Dalek.Gen.FiatField26.from_bytes.evalC [b0, b1, b2, b3, b4, b5, b6, b7, b8, b9, b10, b11, b12, b13, b14, b15, b16, b17, b18, b19, b20, b21, b22, b23, b24, b25, b26, b27, b28, b29, b30, b31] = some out ∧
      Dalek.Gen.FiatField26.from_bytes.evalW [b0, b1, b2, b3, b4, b5, b6, b7, b8, b9, b10, b11, b12, b13, b14, b15, b16, b17, b18, b19, b20, b21, b22, b23, b24, b25, b26, b27, b28, b29, b30, b31] = out ∧
      EnvIn out tight26 ∧
      val26N out = leVal [b0, b1, b2, b3, b4, b5, b6, b7, b8, b9, b10, b11, b12, b13, b14, b15, b16, b17, b18, b19, b20, b21, b22, b23, b24, b25, b26, b27, b28, b29, b30, b31] % 2 ^ 255 := by
  obtain ⟨out, hC, hW, hpost, hZ⟩ := Prog.norm_sound _ _ _ _ from_bytes_norm_ok _ hin
  refine ⟨out, hC, hW, EnvIn_of_itvsLe hpost (by decide +kernel), ?_⟩
  simp only [EnvIn, Itv.mem, FiatField26.pre_from_bytes, bytes, rep, ub, List.replicate, Nat.zero_le, pow_zero,
    one_dvd, and_true, true_and] at hin
  obtain ⟨h0, h1, h2, h3, h4, h5, h6, h7, h8, h9, h10, h11, h12, h13, h14, h15, h16, h17, h18, h19, h20, h21, h22, h23, h24, h25, h26, h27, h28, h29, h30, h31⟩ := hin
  have h := Dalek.Proofs.FiatBytes26.from_bytes_fn_val b0 b1 b2 b3 b4 b5 b6 b7 b8 b9 b10 b11 b12 b13 b14 b15 b16 b17 b18 b19 b20 b21 b22 b23 b24 b25 b26 b27 b28 b29 b30 b31
    ⟨Int.natCast_nonneg _, by exact_mod_cast h0⟩ ⟨Int.natCast_nonneg _, by exact_mod_cast h1⟩ ⟨Int.natCast_nonneg _, by exact_mod_cast h2⟩ ⟨Int.natCast_nonneg _, by exact_mod_cast h3⟩ ⟨Int.natCast_nonneg _, by exact_mod_cast h4⟩ ⟨Int.natCast_nonneg _, by exact_mod_cast h5⟩ ⟨Int.natCast_nonneg _, by exact_mod_cast h6⟩ ⟨Int.natCast_nonneg _, by exact_mod_cast h7⟩ ⟨Int.natCast_nonneg _, by exact_mod_cast h8⟩ ⟨Int.natCast_nonneg _, by exact_mod_cast h9⟩ ⟨Int.natCast_nonneg _, by exact_mod_cast h10⟩ ⟨Int.natCast_nonneg _, by exact_mod_cast h11⟩ ⟨Int.natCast_nonneg _, by exact_mod_cast h12⟩ ⟨Int.natCast_nonneg _, by exact_mod_cast h13⟩ ⟨Int.natCast_nonneg _, by exact_mod_cast h14⟩ ⟨Int.natCast_nonneg _, by exact_mod_cast h15⟩ ⟨Int.natCast_nonneg _, by exact_mod_cast h16⟩ ⟨Int.natCast_nonneg _, by exact_mod_cast h17⟩ ⟨Int.natCast_nonneg _, by exact_mod_cast h18⟩ ⟨Int.natCast_nonneg _, by exact_mod_cast h19⟩ ⟨Int.natCast_nonneg _, by exact_mod_cast h20⟩ ⟨Int.natCast_nonneg _, by exact_mod_cast h21⟩ ⟨Int.natCast_nonneg _, by exact_mod_cast h22⟩ ⟨Int.natCast_nonneg _, by exact_mod_cast h23⟩ ⟨Int.natCast_nonneg _, by exact_mod_cast h24⟩ ⟨Int.natCast_nonneg _, by exact_mod_cast h25⟩ ⟨Int.natCast_nonneg _, by exact_mod_cast h26⟩ ⟨Int.natCast_nonneg _, by exact_mod_cast h27⟩ ⟨Int.natCast_nonneg _, by exact_mod_cast h28⟩ ⟨Int.natCast_nonneg _, by exact_mod_cast h29⟩ ⟨Int.natCast_nonneg _, by exact_mod_cast h30⟩ ⟨Int.natCast_nonneg _, by exact_mod_cast h31⟩
  rw [← from_bytes_fn_ok, ← toZ_nil] at h
  simp only [← toZ_cons] at h
  rw [hZ, val26Z_toZ, leValZ_toZ] at h
  exact_mod_cast h

/-- the decoded limbs are even reduced: even limbs `< 2^26`, odd limbs `< 2^25` -/
theorem from_bytes_limbs_lt (hin : EnvIn [b0, b1, b2, b3, b4, b5, b6, b7, b8, b9, b10, b11, b12, b13, b14, b15, b16, b17, b18, b19, b20, b21, b22, b23, b24, b25, b26, b27, b28, b29, b30, b31] FiatField26.pre_from_bytes) :
    ∃ out, Dalek.Gen.FiatField26.from_bytes.evalC [b0, b1, b2, b3, b4, b5, b6, b7, b8, b9, b10, b11, b12, b13, b14, b15, b16, b17, b18, b19, b20, b21, b22, b23, b24, b25, b26, b27, b28, b29, b30, b31] = some out ∧
      Dalek.Gen.FiatField26.from_bytes.evalW [b0, b1, b2, b3, b4, b5, b6, b7, b8, b9, b10, b11, b12, b13, b14, b15, b16, b17, b18, b19, b20, b21, b22, b23, b24, b25, b26, b27, b28, b29, b30, b31] = out ∧
      EnvIn out limbs26 := by
  obtain ⟨out, hC, hW, hpost, _⟩ := Prog.norm_sound _ _ _ _ from_bytes_norm_ok _ hin
  exact ⟨out, hC, hW, EnvIn_of_itvsLe hpost (by decide +kernel)⟩

/-- hence the decoded field element is `LE(bytes) mod 2^255` (reduced mod p) -/
theorem from_bytes_val (hin : EnvIn [b0, b1, b2, b3, b4, b5, b6, b7, b8, b9, b10, b11, b12, b13, b14, b15, b16, b17, b18, b19, b20, b21, b22, b23, b24, b25, b26, b27, b28, b29, b30, b31] FiatField26.pre_from_bytes) :
    ∃ out, Dalek.Gen.FiatField26.from_bytes.evalC [b0, b1, b2, b3, b4, b5, b6, b7, b8, b9, b10, b11, b12, b13, b14, b15, b16, b17, b18, b19, b20, b21, b22, b23, b24, b25, b26, b27, b28, b29, b30, b31] = some out ∧
      Dalek.Gen.FiatField26.from_bytes.evalW [b0, b1, b2, b3, b4, b5, b6, b7, b8, b9, b10, b11, b12, b13, b14, b15, b16, b17, b18, b19, b20, b21, b22, b23, b24, b25, b26, b27, b28, b29, b30, b31] = out ∧
      EnvIn out tight26 ∧
      Field26.val26 out = ((leVal [b0, b1, b2, b3, b4, b5, b6, b7, b8, b9, b10, b11, b12, b13, b14, b15, b16, b17, b18, b19, b20, b21, b22, b23, b24, b25, b26, b27, b28, b29, b30, b31] % 2 ^ 255 : Nat) : ZMod P) := by
  obtain ⟨out, hC, hW, hb, hv⟩ := from_bytes_spec b0 b1 b2 b3 b4 b5 b6 b7 b8 b9 b10 b11 b12 b13 b14 b15 b16 b17 b18 b19 b20 b21 b22 b23 b24 b25 b26 b27 b28 b29 b30 b31 hin
  exact ⟨out, hC, hW, hb, by rw [val26_eq, hv]⟩

end

section
variable (a0 a1 a2 a3 a4 a5 a6 a7 a8 a9 : Nat)

/-- fiat `FieldElement2625::as_bytes` on TIGHT limbs (even `≤ 2^26`, odd `≤ 2^25`): never panics, debug = release, the
output is 32 bytes, and the INTEGER little-endian value of the output is `(Σ a_i 2^⌈25.5 i⌉) mod p`. -/
theorem as_bytes_spec (hin : EnvIn [a0, a1, a2, a3, a4, a5, a6, a7, a8, a9] FiatField26.pre_as_bytes) :
    ∃ out, Dalek.Gen.FiatField26.as_bytes.evalC [a0, a1, a2, a3, a4, a5, a6, a7, a8, a9] = some out ∧
      Dalek.Gen.FiatField26.as_bytes.evalW [a0, a1, a2, a3, a4, a5, a6, a7, a8, a9] = out ∧
      EnvIn out (bytes 32) ∧
      leVal out = val26N [a0, a1, a2, a3, a4, a5, a6, a7, a8, a9] % P := by
  obtain ⟨out, hC, hW, hpost, hZ⟩ := Prog.norm_sound _ _ _ _ as_bytes_norm_ok _ hin
  refine ⟨out, hC, hW, EnvIn_of_itvsLe hpost (by decide +kernel), ?_⟩
  have hpre : FiatField26.pre_as_bytes = [ub (2 ^ 26), ub (2 ^ 25), ub (2 ^ 26), ub (2 ^ 25), ub (2 ^ 26),
      ub (2 ^ 25), ub (2 ^ 26), ub (2 ^ 25), ub (2 ^ 26), ub (2 ^ 25)] := by decide +kernel
  rw [hpre] at hin
  simp only [EnvIn, Itv.mem, ub, Nat.zero_le, pow_zero, one_dvd, and_true, true_and] at hin
  obtain ⟨h0, h1, h2, h3, h4, h5, h6, h7, h8, h9⟩ := hin
  have h := (Dalek.Proofs.FiatBytes26.as_bytes_fn_val a0 a1 a2 a3 a4 a5 a6 a7 a8 a9
    ⟨by omega, by omega⟩ ⟨by omega, by omega⟩ ⟨by omega, by omega⟩ ⟨by omega, by omega⟩ ⟨by omega, by omega⟩ ⟨by omega, by omega⟩ ⟨by omega, by omega⟩ ⟨by omega, by omega⟩ ⟨by omega, by omega⟩ ⟨by omega, by omega⟩).2
  rw [← as_bytes_fn_ok, ← toZ_nil] at h
  simp only [← toZ_cons] at h
  rw [hZ, val26Z_toZ, leValZ_toZ] at h
  have hP : ((P : Nat) : Int) = 2 ^ 255 - 19 := by norm_num [P]
  rw [← hP] at h
  exact_mod_cast h

end
/-! ### list forms (arbitrary input list inside the contract) -/

/-- `from_bytes` on any list satisfying the contract (= exactly 32 entries, each a byte) -/
theorem from_bytes_spec_list (bs : List Nat) (hin : EnvIn bs FiatField26.pre_from_bytes) :
    ∃ out, Dalek.Gen.FiatField26.from_bytes.evalC bs = some out ∧ Dalek.Gen.FiatField26.from_bytes.evalW bs = out ∧
      EnvIn out tight26 ∧ val26N out = leVal bs % 2 ^ 255 := by
  have hl : bs.length = 32 := by
    rw [envIn_length hin]; simp [FiatField26.pre_from_bytes, bytes, rep]
  obtain ⟨b0, b1, b2, b3, b4, b5, b6, b7, b8, b9, b10, b11, b12, b13, b14, b15, b16, b17, b18, b19, b20, b21, b22, b23, b24, b25, b26, b27, b28, b29, b30, b31, rfl⟩ := list_eq_of_length_32 hl
  exact from_bytes_spec b0 b1 b2 b3 b4 b5 b6 b7 b8 b9 b10 b11 b12 b13 b14 b15 b16 b17 b18 b19 b20 b21 b22 b23 b24 b25 b26 b27 b28 b29 b30 b31 hin

/-- `as_bytes` on any list satisfying the contract (= exactly ten tight limbs) -/
theorem as_bytes_spec_list (l : List Nat) (hin : EnvIn l FiatField26.pre_as_bytes) :
    ∃ out, Dalek.Gen.FiatField26.as_bytes.evalC l = some out ∧ Dalek.Gen.FiatField26.as_bytes.evalW l = out ∧
      EnvIn out (bytes 32) ∧ leVal out = val26N l % P := by
  have hl : l.length = 10 := by
    rw [envIn_length hin]; simp [FiatField26.pre_as_bytes, FiatField26.tight]
  obtain ⟨a0, a1, a2, a3, a4, a5, a6, a7, a8, a9, rfl⟩ := list_eq_of_length_10 hl
  exact as_bytes_spec a0 a1 a2 a3 a4 a5 a6 a7 a8 a9 hin

/-- the output of `from_bytes` is inside the input contract of `as_bytes` (and of every other fiat kernel) -/
theorem tight26_le_pre_as_bytes {l : List Nat} (h : EnvIn l tight26) : EnvIn l FiatField26.pre_as_bytes := h

/-! ### canonical encoding -/

/-- **canonical encoding**: the output of `as_bytes` is exactly the 32 little-endian base-256 digits of the unique
representative `< p` of the value; in particular it depends only on the value mod p. -/
theorem as_bytes_canonical (l : List Nat) (hin : EnvIn l FiatField26.pre_as_bytes) :
    Dalek.Gen.FiatField26.as_bytes.evalC l = some (natToLeN (val26N l % P) 32) ∧
    Dalek.Gen.FiatField26.as_bytes.evalW l = natToLeN (val26N l % P) 32 := by
  obtain ⟨out, hC, hW, hb, hv⟩ := as_bytes_spec_list l hin
  obtain ⟨hlen, hbytes⟩ := (envIn_bytes 32 out).mp hb
  have : out = natToLeN (val26N l % P) 32 := eq_natToLeN_of_leVal hlen hbytes hv
  subst this
  exact ⟨hC, hW⟩

/-- the encoded integer is below `p` -/
theorem as_bytes_lt (l : List Nat) (hin : EnvIn l FiatField26.pre_as_bytes) :
    ∃ out, Dalek.Gen.FiatField26.as_bytes.evalC l = some out ∧ leVal out < P := by
  obtain ⟨out, hC, _, _, hv⟩ := as_bytes_spec_list l hin
  exact ⟨out, hC, by rw [hv]; exact Nat.mod_lt _ (by norm_num [P])⟩

/-- bit 255 of the encoding is clear -/
theorem as_bytes_top_bit (l : List Nat) (hin : EnvIn l FiatField26.pre_as_bytes) :
    ∃ out, Dalek.Gen.FiatField26.as_bytes.evalC l = some out ∧ out.getD 31 0 < 128 := by
  refine ⟨_, (as_bytes_canonical l hin).1, ?_⟩
  rw [natToLeN_getD 32 _ 31 (by norm_num)]
  have : val26N l % P < P := Nat.mod_lt _ (by norm_num [P])
  generalize val26N l % P = v at this ⊢
  simp only [P] at this
  omega

/-- **uniqueness**: two limb vectors (inside the contract) encode identically iff they represent the same element of
`ZMod p` -/
theorem as_bytes_unique (l l' : List Nat) (hin : EnvIn l FiatField26.pre_as_bytes)
    (hin' : EnvIn l' FiatField26.pre_as_bytes) :
    Dalek.Gen.FiatField26.as_bytes.evalC l = Dalek.Gen.FiatField26.as_bytes.evalC l' ↔
      Field26.val26 l = Field26.val26 l' := by
  rw [(as_bytes_canonical l hin).1, (as_bytes_canonical l' hin').1, val26_eq, val26_eq,
    ZMod.natCast_eq_natCast_iff']
  constructor
  · intro h
    have h2 := congrArg leVal (Option.some.inj h)
    rw [leVal_natToLeN, leVal_natToLeN] at h2
    have hp : P < 256 ^ 32 := by norm_num [P]
    have h1 : val26N l % P < P := Nat.mod_lt _ (by norm_num [P])
    have h1' : val26N l' % P < P := Nat.mod_lt _ (by norm_num [P])
    rwa [Nat.mod_eq_of_lt (lt_trans h1 hp), Nat.mod_eq_of_lt (lt_trans h1' hp)] at h2
  · intro h; rw [h]

/-- the same for the release build -/
theorem as_bytes_unique_release (l l' : List Nat) (hin : EnvIn l FiatField26.pre_as_bytes)
    (hin' : EnvIn l' FiatField26.pre_as_bytes) :
    Dalek.Gen.FiatField26.as_bytes.evalW l = Dalek.Gen.FiatField26.as_bytes.evalW l' ↔
      Field26.val26 l = Field26.val26 l' := by
  rw [← as_bytes_unique l l' hin hin', (as_bytes_canonical l hin).1, (as_bytes_canonical l' hin').1,
    (as_bytes_canonical l hin).2, (as_bytes_canonical l' hin').2]
  exact ⟨fun h => by rw [h], fun h => Option.some.inj h⟩

/-- **round trip** `as_bytes (from_bytes b)`: the canonical encoding of `LE(b) mod 2^255` reduced mod p -/
theorem as_bytes_from_bytes (bs : List Nat) (hin : EnvIn bs FiatField26.pre_from_bytes) :
    ∃ limbs, Dalek.Gen.FiatField26.from_bytes.evalC bs = some limbs ∧
      Dalek.Gen.FiatField26.from_bytes.evalW bs = limbs ∧
      Dalek.Gen.FiatField26.as_bytes.evalC limbs = some (natToLeN (leVal bs % 2 ^ 255 % P) 32) ∧
      Dalek.Gen.FiatField26.as_bytes.evalW limbs = natToLeN (leVal bs % 2 ^ 255 % P) 32 := by
  obtain ⟨limbs, hC, hW, hb, hv⟩ := from_bytes_spec_list bs hin
  have h := as_bytes_canonical limbs (tight26_le_pre_as_bytes hb)
  rw [hv] at h
  exact ⟨limbs, hC, hW, h.1, h.2⟩

/-- decoding a canonical encoding (an integer `< p`) and re-encoding gives the same bytes back -/
theorem as_bytes_from_bytes_canonical (bs : List Nat) (hin : EnvIn bs FiatField26.pre_from_bytes)
    (hc : leVal bs < P) :
    ∃ limbs, Dalek.Gen.FiatField26.from_bytes.evalC bs = some limbs ∧
      Dalek.Gen.FiatField26.as_bytes.evalC limbs = some bs := by
  obtain ⟨limbs, hC, _, h, _⟩ := as_bytes_from_bytes bs hin
  refine ⟨limbs, hC, ?_⟩
  rw [h]
  obtain ⟨hlen, hbytes⟩ := (envIn_bytes 32 bs).mp hin
  have hp : P < 2 ^ 255 := by norm_num [P]
  have e1 : leVal bs % 2 ^ 255 = leVal bs := Nat.mod_eq_of_lt (lt_trans hc hp)
  rw [e1, Nat.mod_eq_of_lt hc, ← hlen, natToLeN_leVal bs hbytes]

/-! ### link to the executable specification `Dalek.Spec.Field` (byte strings as `List UInt8`) -/

/-- `as_bytes` computes `Dalek.Spec.feToBytes` of the value of the limbs -/
theorem as_bytes_spec' (l : List Nat) (hin : EnvIn l FiatField26.pre_as_bytes) :
    ∃ out, Dalek.Gen.FiatField26.as_bytes.evalC l = some out ∧ Dalek.Gen.FiatField26.as_bytes.evalW l = out ∧
      out.map UInt8.ofNat = Dalek.Spec.feToBytes (val26N l) := by
  refine ⟨_, (as_bytes_canonical l hin).1, (as_bytes_canonical l hin).2, ?_⟩
  rw [map_ofNat_natToLeN]; rfl

/-- `from_bytes` computes `Dalek.Spec.feFromBytes` (the limbs even hold the unreduced 255-bit integer) -/
theorem from_bytes_spec' (bs : List UInt8) (hlen : bs.length = 32) :
    ∃ out, Dalek.Gen.FiatField26.from_bytes.evalC (bs.map UInt8.toNat) = some out ∧
      Dalek.Gen.FiatField26.from_bytes.evalW (bs.map UInt8.toNat) = out ∧ EnvIn out tight26 ∧
      val26N out = Dalek.Spec.leToNat bs % 2 ^ 255 ∧ val26N out % P = Dalek.Spec.feFromBytes bs := by
  have hin : EnvIn (bs.map UInt8.toNat) FiatField26.pre_from_bytes :=
    (envIn_bytes 32 _).mpr ⟨by simpa using hlen, allBytes_map_toNat bs⟩
  obtain ⟨out, hC, hW, hb, hv⟩ := from_bytes_spec_list _ hin
  rw [leVal_map_toNat] at hv
  exact ⟨out, hC, hW, hb, hv, by rw [hv]; rfl⟩

/-! ### non-vacuity -/

example : EnvIn (List.replicate 32 255) FiatField26.pre_from_bytes := by decide +kernel
/-- every limb exactly AT the (inclusive) tight bound is inside the contract ... -/
example : EnvIn [2 ^ 26, 2 ^ 25, 2 ^ 26, 2 ^ 25, 2 ^ 26, 2 ^ 25, 2 ^ 26, 2 ^ 25, 2 ^ 26, 2 ^ 25] FiatField26.pre_as_bytes := by decide +kernel
/-- ... and encodes as `2^26 + 2^51 + … + 2^230 + 2^255 - p` (here the subtraction of `p` does not borrow) -/
example : Dalek.Gen.FiatField26.as_bytes.evalC [2 ^ 26, 2 ^ 25, 2 ^ 26, 2 ^ 25, 2 ^ 26, 2 ^ 25, 2 ^ 26, 2 ^ 25, 2 ^ 26, 2 ^ 25]
    = some (natToLeN (2 ^ 26 + 2 ^ 51 + 2 ^ 77 + 2 ^ 102 + 2 ^ 128 + 2 ^ 153 + 2 ^ 179 + 2 ^ 204 + 2 ^ 230 + 19) 32) := by decide +kernel
/-- a non-canonical input: `p + 1` (limbs of `2^255 - 18`) encodes as `1` -/
example : Dalek.Gen.FiatField26.as_bytes.evalC [2 ^ 26 - 18, 2 ^ 25 - 1, 2 ^ 26 - 1, 2 ^ 25 - 1, 2 ^ 26 - 1, 2 ^ 25 - 1, 2 ^ 26 - 1, 2 ^ 25 - 1, 2 ^ 26 - 1, 2 ^ 25 - 1]
    = some (natToLeN 1 32) := by decide +kernel
/-- `p` itself encodes as `0`, `p - 1` as `p - 1` (the subtraction borrows, `p` is added back) -/
example : Dalek.Gen.FiatField26.as_bytes.evalC [2 ^ 26 - 19, 2 ^ 25 - 1, 2 ^ 26 - 1, 2 ^ 25 - 1, 2 ^ 26 - 1, 2 ^ 25 - 1, 2 ^ 26 - 1, 2 ^ 25 - 1, 2 ^ 26 - 1, 2 ^ 25 - 1]
    = some (natToLeN 0 32) := by decide +kernel
example : Dalek.Gen.FiatField26.as_bytes.evalC [2 ^ 26 - 20, 2 ^ 25 - 1, 2 ^ 26 - 1, 2 ^ 25 - 1, 2 ^ 26 - 1, 2 ^ 25 - 1, 2 ^ 26 - 1, 2 ^ 25 - 1, 2 ^ 26 - 1, 2 ^ 25 - 1]
    = some (natToLeN (2 ^ 255 - 20) 32) := by decide +kernel

end Dalek.Props.C01.FiatBytes26

import Dalek.IR.LimbSound
import Dalek.Proofs.Field26
/-!
# C01 — field arithmetic is exact arithmetic modulo 2^255-19 (property theorems, serial-u32 backend)

Statements are about `Dalek.Gen.Field26.*`: the LimbIR programs REGENERATED from
`curve25519-dalek/src/backend/serial/u32/field.rs` on every run.  For every input inside the bound
contract (`Dalek.Model.Contracts.Field26`), the debug build (`evalC`, overflow checks + debug assertions) does
not panic, the release build (`evalW`, wrapping) returns the same limbs, the limbs satisfy the stated output
bound, and their value in `ZMod p` is the field operation applied to the values of the inputs.

Limb `i` of the ten limbs has weight `2^⌈25.5 i⌉` (`rep26`); even limbs nominally have 26 bits, odd limbs 25.
-/
namespace Dalek.Props.C01.Field26
open Dalek.IR Dalek.Proofs.Field26 Dalek.Gen.Norm.Field26 Dalek.Model.Contracts

/-- value of a 10-limb radix-2^25.5 vector of naturals in `ZMod p` -/
def val26 (l : List Nat) : ZMod P := ((rep26 (toZ l) : Int) : ZMod P)

/-- output contract of the reducing kernels: even limbs `< 1.004 · 2^26`, odd limbs `< 1.004 · 2^25`.
`1.004 < 2^0.007`, so this is (slightly stronger than) the excess `b < 0.007` documented for `reduce`.
(What the analyser actually derives: even limbs `< 2^26`, limbs 3, 7, 9 `< 2^25`, limbs 1 and 5 `< 2^25 + 2^17`.) -/
def reduced26 : List Itv := l2625f 1004 1000

theorem toZ_cons (x : Nat) (xs : List Nat) : toZ (x :: xs) = (x : Int) :: toZ xs := rfl
theorem toZ_nil : toZ [] = [] := rfl

section
variable (a0 a1 a2 a3 a4 a5 a6 a7 a8 a9 b0 b1 b2 b3 b4 b5 b6 b7 b8 b9 : Nat)

/-- `&a * &b` (serial u32): first operand with excess `b < 2.5` (limbs `< 5.65 · 2^{26,25}`), second operand
with excess `b < 1.75` (limbs `< 3.36 · 2^{26,25}`), as documented in the source -/
theorem mul_spec (hin : EnvIn [a0, a1, a2, a3, a4, a5, a6, a7, a8, a9, b0, b1, b2, b3, b4, b5, b6, b7, b8, b9] Field26.pre_mul) :
    ∃ out, Dalek.Gen.Field26.mul.evalC [a0, a1, a2, a3, a4, a5, a6, a7, a8, a9, b0, b1, b2, b3, b4, b5, b6, b7, b8, b9] = some out ∧
      Dalek.Gen.Field26.mul.evalW [a0, a1, a2, a3, a4, a5, a6, a7, a8, a9, b0, b1, b2, b3, b4, b5, b6, b7, b8, b9] = out ∧
      EnvIn out reduced26 ∧
      val26 out = val26 [a0, a1, a2, a3, a4, a5, a6, a7, a8, a9] * val26 [b0, b1, b2, b3, b4, b5, b6, b7, b8, b9] := by
  obtain ⟨out, hC, hW, hpost, hZ⟩ := Prog.norm_sound _ _ _ _ mul_norm_ok _ hin
  refine ⟨out, hC, hW, EnvIn_of_itvsLe hpost (by decide +kernel), ?_⟩
  have h := mul_correct a0 a1 a2 a3 a4 a5 a6 a7 a8 a9 b0 b1 b2 b3 b4 b5 b6 b7 b8 b9
  rw [← mul_fn_ok] at h
  simp only [toZ_cons, toZ_nil] at hZ
  rw [hZ] at h
  simpa [val26, toZ_cons, toZ_nil] using h

/-- `&a - &b`: limbs of both operands `< 2^{28,27}` -/
theorem sub_spec (hin : EnvIn [a0, a1, a2, a3, a4, a5, a6, a7, a8, a9, b0, b1, b2, b3, b4, b5, b6, b7, b8, b9] Field26.pre_sub) :
    ∃ out, Dalek.Gen.Field26.sub.evalC [a0, a1, a2, a3, a4, a5, a6, a7, a8, a9, b0, b1, b2, b3, b4, b5, b6, b7, b8, b9] = some out ∧
      Dalek.Gen.Field26.sub.evalW [a0, a1, a2, a3, a4, a5, a6, a7, a8, a9, b0, b1, b2, b3, b4, b5, b6, b7, b8, b9] = out ∧
      EnvIn out reduced26 ∧
      val26 out = val26 [a0, a1, a2, a3, a4, a5, a6, a7, a8, a9] - val26 [b0, b1, b2, b3, b4, b5, b6, b7, b8, b9] := by
  obtain ⟨out, hC, hW, hpost, hZ⟩ := Prog.norm_sound _ _ _ _ sub_norm_ok _ hin
  refine ⟨out, hC, hW, EnvIn_of_itvsLe hpost (by decide +kernel), ?_⟩
  have h := sub_correct a0 a1 a2 a3 a4 a5 a6 a7 a8 a9 b0 b1 b2 b3 b4 b5 b6 b7 b8 b9
  rw [← sub_fn_ok] at h
  simp only [toZ_cons, toZ_nil] at hZ
  rw [hZ] at h
  simpa [val26, toZ_cons, toZ_nil] using h

/-- `a += &b` (no reduction: limbs of both operands `< 2^{27,26}`, limbs of the sum `< 2^{28,27}`) -/
theorem add_spec (hin : EnvIn [a0, a1, a2, a3, a4, a5, a6, a7, a8, a9, b0, b1, b2, b3, b4, b5, b6, b7, b8, b9] Field26.pre_add) :
    ∃ out, Dalek.Gen.Field26.add.evalC [a0, a1, a2, a3, a4, a5, a6, a7, a8, a9, b0, b1, b2, b3, b4, b5, b6, b7, b8, b9] = some out ∧
      Dalek.Gen.Field26.add.evalW [a0, a1, a2, a3, a4, a5, a6, a7, a8, a9, b0, b1, b2, b3, b4, b5, b6, b7, b8, b9] = out ∧
      EnvIn out (l2625 2) ∧
      val26 out = val26 [a0, a1, a2, a3, a4, a5, a6, a7, a8, a9] + val26 [b0, b1, b2, b3, b4, b5, b6, b7, b8, b9] := by
  obtain ⟨out, hC, hW, hpost, hZ⟩ := Prog.norm_sound _ _ _ _ add_norm_ok _ hin
  refine ⟨out, hC, hW, EnvIn_of_itvsLe hpost (by decide +kernel), ?_⟩
  have h := add_correct a0 a1 a2 a3 a4 a5 a6 a7 a8 a9 b0 b1 b2 b3 b4 b5 b6 b7 b8 b9
  rw [← add_fn_ok] at h
  simp only [toZ_cons, toZ_nil] at hZ
  rw [hZ] at h
  simpa [val26, toZ_cons, toZ_nil] using h

/-- `a.negate()`: limbs `< 2^{28,27}` -/
theorem neg_spec (hin : EnvIn [a0, a1, a2, a3, a4, a5, a6, a7, a8, a9] Field26.pre_neg) :
    ∃ out, Dalek.Gen.Field26.neg.evalC [a0, a1, a2, a3, a4, a5, a6, a7, a8, a9] = some out ∧
      Dalek.Gen.Field26.neg.evalW [a0, a1, a2, a3, a4, a5, a6, a7, a8, a9] = out ∧
      EnvIn out reduced26 ∧
      val26 out = - val26 [a0, a1, a2, a3, a4, a5, a6, a7, a8, a9] := by
  obtain ⟨out, hC, hW, hpost, hZ⟩ := Prog.norm_sound _ _ _ _ neg_norm_ok _ hin
  refine ⟨out, hC, hW, EnvIn_of_itvsLe hpost (by decide +kernel), ?_⟩
  have h := neg_correct a0 a1 a2 a3 a4 a5 a6 a7 a8 a9
  rw [← neg_fn_ok] at h
  simp only [toZ_cons, toZ_nil] at hZ
  rw [hZ] at h
  simpa [val26, toZ_cons, toZ_nil] using h

/-- `FieldElement2625::reduce`: ANY ten words below `2^63` -/
theorem reduce_spec (hin : EnvIn [a0, a1, a2, a3, a4, a5, a6, a7, a8, a9] Field26.pre_reduce) :
    ∃ out, Dalek.Gen.Field26.reduce.evalC [a0, a1, a2, a3, a4, a5, a6, a7, a8, a9] = some out ∧
      Dalek.Gen.Field26.reduce.evalW [a0, a1, a2, a3, a4, a5, a6, a7, a8, a9] = out ∧
      EnvIn out reduced26 ∧
      val26 out = val26 [a0, a1, a2, a3, a4, a5, a6, a7, a8, a9] := by
  obtain ⟨out, hC, hW, hpost, hZ⟩ := Prog.norm_sound _ _ _ _ reduce_norm_ok _ hin
  refine ⟨out, hC, hW, EnvIn_of_itvsLe hpost (by decide +kernel), ?_⟩
  have h := reduce_correct a0 a1 a2 a3 a4 a5 a6 a7 a8 a9
  rw [← reduce_fn_ok] at h
  simp only [toZ_cons, toZ_nil] at hZ
  rw [hZ] at h
  simpa [val26, toZ_cons, toZ_nil] using h

/-- `square_inner`: the ten unreduced u64 coefficients of the square; they satisfy the contract of `reduce` -/
theorem square_inner_spec (hin : EnvIn [a0, a1, a2, a3, a4, a5, a6, a7, a8, a9] Field26.pre_square_inner) :
    ∃ out, Dalek.Gen.Field26.square_inner.evalC [a0, a1, a2, a3, a4, a5, a6, a7, a8, a9] = some out ∧
      Dalek.Gen.Field26.square_inner.evalW [a0, a1, a2, a3, a4, a5, a6, a7, a8, a9] = out ∧
      EnvIn out Field26.pre_reduce ∧
      val26 out = val26 [a0, a1, a2, a3, a4, a5, a6, a7, a8, a9] ^ 2 := by
  obtain ⟨out, hC, hW, hpost, hZ⟩ := Prog.norm_sound _ _ _ _ square_inner_norm_ok _ hin
  refine ⟨out, hC, hW, EnvIn_of_itvsLe hpost (by decide +kernel), ?_⟩
  have h := square_inner_correct a0 a1 a2 a3 a4 a5 a6 a7 a8 a9
  rw [← square_inner_fn_ok] at h
  simp only [toZ_cons, toZ_nil] at hZ
  rw [hZ] at h
  simpa [val26, toZ_cons, toZ_nil] using h

/-- `a.square()`: limbs `< 3.36 · 2^{26,25}` (excess `b < 1.75`) -/
theorem square_spec (hin : EnvIn [a0, a1, a2, a3, a4, a5, a6, a7, a8, a9] Field26.pre_square) :
    ∃ out, Dalek.Gen.Field26.square.evalC [a0, a1, a2, a3, a4, a5, a6, a7, a8, a9] = some out ∧
      Dalek.Gen.Field26.square.evalW [a0, a1, a2, a3, a4, a5, a6, a7, a8, a9] = out ∧
      EnvIn out reduced26 ∧
      val26 out = val26 [a0, a1, a2, a3, a4, a5, a6, a7, a8, a9] ^ 2 := by
  obtain ⟨out, hC, hW, hpost, hZ⟩ := Prog.norm_sound _ _ _ _ square_norm_ok _ hin
  refine ⟨out, hC, hW, EnvIn_of_itvsLe hpost (by decide +kernel), ?_⟩
  have h := square_correct a0 a1 a2 a3 a4 a5 a6 a7 a8 a9
  rw [← square_fn_ok] at h
  simp only [toZ_cons, toZ_nil] at hZ
  rw [hZ] at h
  simpa [val26, toZ_cons, toZ_nil] using h

/-- `a.square2()` computes `2 a^2` -/
theorem square2_spec (hin : EnvIn [a0, a1, a2, a3, a4, a5, a6, a7, a8, a9] Field26.pre_square2) :
    ∃ out, Dalek.Gen.Field26.square2.evalC [a0, a1, a2, a3, a4, a5, a6, a7, a8, a9] = some out ∧
      Dalek.Gen.Field26.square2.evalW [a0, a1, a2, a3, a4, a5, a6, a7, a8, a9] = out ∧
      EnvIn out reduced26 ∧
      val26 out = 2 * val26 [a0, a1, a2, a3, a4, a5, a6, a7, a8, a9] ^ 2 := by
  obtain ⟨out, hC, hW, hpost, hZ⟩ := Prog.norm_sound _ _ _ _ square2_norm_ok _ hin
  refine ⟨out, hC, hW, EnvIn_of_itvsLe hpost (by decide +kernel), ?_⟩
  have h := square2_correct a0 a1 a2 a3 a4 a5 a6 a7 a8 a9
  rw [← square2_fn_ok] at h
  simp only [toZ_cons, toZ_nil] at hZ
  rw [hZ] at h
  simpa [val26, toZ_cons, toZ_nil] using h

/-- one squaring step of `pow2k` (the loop body); output again inside the input contract, so it iterates
(see `Dalek.Props.C01.Pow2k`) -/
theorem pow2k_body_spec (hin : EnvIn [a0, a1, a2, a3, a4, a5, a6, a7, a8, a9] Field26.pre_pow2k_body) :
    ∃ out, Dalek.Gen.Field26.pow2k_body.evalC [a0, a1, a2, a3, a4, a5, a6, a7, a8, a9] = some out ∧
      Dalek.Gen.Field26.pow2k_body.evalW [a0, a1, a2, a3, a4, a5, a6, a7, a8, a9] = out ∧
      EnvIn out reduced26 ∧
      val26 out = val26 [a0, a1, a2, a3, a4, a5, a6, a7, a8, a9] ^ 2 := by
  obtain ⟨out, hC, hW, hpost, hZ⟩ := Prog.norm_sound _ _ _ _ pow2k_body_norm_ok _ hin
  refine ⟨out, hC, hW, EnvIn_of_itvsLe hpost (by decide +kernel), ?_⟩
  have h := pow2k_body_correct a0 a1 a2 a3 a4 a5 a6 a7 a8 a9
  rw [← pow2k_body_fn_ok] at h
  simp only [toZ_cons, toZ_nil] at hZ
  rw [hZ] at h
  simpa [val26, toZ_cons, toZ_nil] using h

end

/-! Non-vacuity: the all-limbs-at-the-bound input satisfies each contract. -/
example : EnvIn (Field26.pre_mul.map (·.hi)) Field26.pre_mul := by decide +kernel
example : EnvIn (Field26.pre_sub.map (·.hi)) Field26.pre_sub := by decide +kernel
example : EnvIn (Field26.pre_add.map (·.hi)) Field26.pre_add := by decide +kernel
example : EnvIn (Field26.pre_neg.map (·.hi)) Field26.pre_neg := by decide +kernel
example : EnvIn (Field26.pre_reduce.map (·.hi)) Field26.pre_reduce := by decide +kernel
example : EnvIn (Field26.pre_square_inner.map (·.hi)) Field26.pre_square_inner := by decide +kernel
example : EnvIn (Field26.pre_square.map (·.hi)) Field26.pre_square := by decide +kernel
example : EnvIn (Field26.pre_square2.map (·.hi)) Field26.pre_square2 := by decide +kernel
example : EnvIn (Field26.pre_pow2k_body.map (·.hi)) Field26.pre_pow2k_body := by decide +kernel
/-- the output contract of the reducing kernels is inside every input contract of a 10-limb operand -/
example : itvsLe reduced26 Field26.pre_pow2k_body = true ∧ itvsLe reduced26 (l2625 1) = true := by decide +kernel

end Dalek.Props.C01.Field26

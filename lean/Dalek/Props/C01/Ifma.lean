import Dalek.IR.LimbSound
import Dalek.Proofs.IfmaField
/-!
# C01 — the AVX512-IFMA vector field backend computes exact arithmetic modulo 2^255-19, lane by lane

Statements are about `Dalek.Gen.IfmaField.*`: the LimbIR programs REGENERATED on every run from
`curve25519-dalek/src/backend/vector/ifma/field.rs` by lane scalarisation.  An `F51x4Unreduced` / `F51x4Reduced =
[u64x4; 5]` is a list of 20 u64 lanes; lane `4 i + j` holds limb `i` (radix 2^51) of element `j` of `(A, B, C, D)`.
`vecVal51 k v : ZMod (2^255-19)` is the value `Σ_i 2^(51 i) · limb_i` of element `k` of `v`, `vecLimbs51 k v` its five
limbs, `elemVal k l` the value of the `k`-th of four `FieldElement51`.

Every theorem: for ALL inputs inside the contract `Dalek.Model.Contracts.IfmaField.pre_<k>`, the lane-checked semantics
`evalC` does not fail (no u64 lane wraps), the wrapping semantics `evalW` (what the SIMD instructions compute) returns
the same lanes, and their lane values in `ZMod p` are the field operation applied to the lane values of the inputs.
-/
set_option maxRecDepth 100000
namespace Dalek.Props.C01.Ifma
open Dalek.IR Dalek.Proofs.Avx2Field Dalek.Proofs.IfmaField Dalek.Proofs.Field26 Dalek.Gen.Norm.IfmaField Dalek.Model.Contracts

section
variable (x0 x1 x2 x3 x4 x5 x6 x7 x8 x9 x10 x11 x12 x13 x14 x15 x16 x17 x18 x19 y0 y1 y2 y3 y4 y5 y6 y7 y8 y9 y10 y11 y12 y13 y14 y15 y16 y17 y18 y19 : Nat)
/-- the vector `x` (20 lanes) -/
local notation "X" => (x0 :: x1 :: x2 :: x3 :: x4 :: x5 :: x6 :: x7 :: x8 :: x9 :: x10 :: x11 :: x12 :: x13 :: x14 :: x15 :: x16 :: x17 :: x18 :: x19 :: [])
/-- the vector `y` (20 lanes) -/
local notation "Y" => (y0 :: y1 :: y2 :: y3 :: y4 :: y5 :: y6 :: y7 :: y8 :: y9 :: y10 :: y11 :: y12 :: y13 :: y14 :: y15 :: y16 :: y17 :: y18 :: y19 :: [])

/-- `&x * &y` on `F51x4Reduced` (limbs `< 2^52`) ↦ `F51x4Unreduced` (limbs `< 2^56`), element-wise product -/
theorem mul_spec (hin : EnvIn (X ++ Y) IfmaField.pre_mul) :
    ∃ out, Dalek.Gen.IfmaField.mul.evalC (X ++ Y) = some out ∧ Dalek.Gen.IfmaField.mul.evalW (X ++ Y) = out ∧
      EnvIn out (rep 20 (ub (2 ^ 56 - 1))) ∧
      ∀ k : Lane, vecVal51 k out = vecVal51 k X * vecVal51 k Y := by
  obtain ⟨out, hC, hW, hpost, hZ⟩ := Prog.norm_sound _ _ _ _ mul_norm_ok _ hin
  refine ⟨out, hC, hW, EnvIn_of_itvsLe hpost (by decide +kernel), fun k => ?_⟩
  have h := mul_correct k ↑x0 ↑x1 ↑x2 ↑x3 ↑x4 ↑x5 ↑x6 ↑x7 ↑x8 ↑x9 ↑x10 ↑x11 ↑x12 ↑x13 ↑x14 ↑x15 ↑x16 ↑x17 ↑x18 ↑x19 ↑y0 ↑y1 ↑y2 ↑y3 ↑y4 ↑y5 ↑y6 ↑y7 ↑y8 ↑y9 ↑y10 ↑y11 ↑y12 ↑y13 ↑y14 ↑y15 ↑y16 ↑y17 ↑y18 ↑y19
  have e : mul_fn ↑x0 ↑x1 ↑x2 ↑x3 ↑x4 ↑x5 ↑x6 ↑x7 ↑x8 ↑x9 ↑x10 ↑x11 ↑x12 ↑x13 ↑x14 ↑x15 ↑x16 ↑x17 ↑x18 ↑x19 ↑y0 ↑y1 ↑y2 ↑y3 ↑y4 ↑y5 ↑y6 ↑y7 ↑y8 ↑y9 ↑y10 ↑y11 ↑y12 ↑y13 ↑y14 ↑y15 ↑y16 ↑y17 ↑y18 ↑y19 = toZ out := (mul_fn_ok ↑x0 ↑x1 ↑x2 ↑x3 ↑x4 ↑x5 ↑x6 ↑x7 ↑x8 ↑x9 ↑x10 ↑x11 ↑x12 ↑x13 ↑x14 ↑x15 ↑x16 ↑x17 ↑x18 ↑x19 ↑y0 ↑y1 ↑y2 ↑y3 ↑y4 ↑y5 ↑y6 ↑y7 ↑y8 ↑y9 ↑y10 ↑y11 ↑y12 ↑y13 ↑y14 ↑y15 ↑y16 ↑y17 ↑y18 ↑y19).symm.trans hZ
  rw [e] at h
  exact h

/-- `x.square()` on `F51x4Reduced` (limbs `< 2^52`) ↦ limbs `< 2^56`, element-wise square -/
theorem square_spec (hin : EnvIn X IfmaField.pre_square) :
    ∃ out, Dalek.Gen.IfmaField.square.evalC X = some out ∧ Dalek.Gen.IfmaField.square.evalW X = out ∧
      EnvIn out (rep 20 (ub (2 ^ 56 - 1))) ∧
      ∀ k : Lane, vecVal51 k out = vecVal51 k X ^ 2 := by
  obtain ⟨out, hC, hW, hpost, hZ⟩ := Prog.norm_sound _ _ _ _ square_norm_ok _ hin
  refine ⟨out, hC, hW, EnvIn_of_itvsLe hpost (by decide +kernel), fun k => ?_⟩
  have h := square_correct k ↑x0 ↑x1 ↑x2 ↑x3 ↑x4 ↑x5 ↑x6 ↑x7 ↑x8 ↑x9 ↑x10 ↑x11 ↑x12 ↑x13 ↑x14 ↑x15 ↑x16 ↑x17 ↑x18 ↑x19
  have e : square_fn ↑x0 ↑x1 ↑x2 ↑x3 ↑x4 ↑x5 ↑x6 ↑x7 ↑x8 ↑x9 ↑x10 ↑x11 ↑x12 ↑x13 ↑x14 ↑x15 ↑x16 ↑x17 ↑x18 ↑x19 = toZ out := (square_fn_ok ↑x0 ↑x1 ↑x2 ↑x3 ↑x4 ↑x5 ↑x6 ↑x7 ↑x8 ↑x9 ↑x10 ↑x11 ↑x12 ↑x13 ↑x14 ↑x15 ↑x16 ↑x17 ↑x18 ↑x19).symm.trans hZ
  rw [e] at h
  exact h

/-- `x + y` on `F51x4Unreduced`: lanes of both operands `< 2^63` ↦ element-wise sum -/
theorem add_spec (hin : EnvIn (X ++ Y) IfmaField.pre_add) :
    ∃ out, Dalek.Gen.IfmaField.add.evalC (X ++ Y) = some out ∧ Dalek.Gen.IfmaField.add.evalW (X ++ Y) = out ∧
      EnvIn out IfmaField.anyU64 ∧
      ∀ k : Lane, vecVal51 k out = vecVal51 k X + vecVal51 k Y := by
  obtain ⟨out, hC, hW, hpost, hZ⟩ := Prog.norm_sound _ _ _ _ add_norm_ok _ hin
  refine ⟨out, hC, hW, EnvIn_of_itvsLe hpost (by decide +kernel), fun k => ?_⟩
  have h := add_correct k ↑x0 ↑x1 ↑x2 ↑x3 ↑x4 ↑x5 ↑x6 ↑x7 ↑x8 ↑x9 ↑x10 ↑x11 ↑x12 ↑x13 ↑x14 ↑x15 ↑x16 ↑x17 ↑x18 ↑x19 ↑y0 ↑y1 ↑y2 ↑y3 ↑y4 ↑y5 ↑y6 ↑y7 ↑y8 ↑y9 ↑y10 ↑y11 ↑y12 ↑y13 ↑y14 ↑y15 ↑y16 ↑y17 ↑y18 ↑y19
  have e : add_fn ↑x0 ↑x1 ↑x2 ↑x3 ↑x4 ↑x5 ↑x6 ↑x7 ↑x8 ↑x9 ↑x10 ↑x11 ↑x12 ↑x13 ↑x14 ↑x15 ↑x16 ↑x17 ↑x18 ↑x19 ↑y0 ↑y1 ↑y2 ↑y3 ↑y4 ↑y5 ↑y6 ↑y7 ↑y8 ↑y9 ↑y10 ↑y11 ↑y12 ↑y13 ↑y14 ↑y15 ↑y16 ↑y17 ↑y18 ↑y19 = toZ out := (add_fn_ok ↑x0 ↑x1 ↑x2 ↑x3 ↑x4 ↑x5 ↑x6 ↑x7 ↑x8 ↑x9 ↑x10 ↑x11 ↑x12 ↑x13 ↑x14 ↑x15 ↑x16 ↑x17 ↑x18 ↑x19 ↑y0 ↑y1 ↑y2 ↑y3 ↑y4 ↑y5 ↑y6 ↑y7 ↑y8 ↑y9 ↑y10 ↑y11 ↑y12 ↑y13 ↑y14 ↑y15 ↑y16 ↑y17 ↑y18 ↑y19).symm.trans hZ
  rw [e] at h
  exact h

/-- `x.negate_lazy()` (`32p − x`): lanes `≤` the lanes of `32p` (in particular: any product or square of reduced vectors, `Dalek.Props.C11.Ifma.mul_post_le32p`) ↦ lanes `< 2^56`, element-wise negation -/
theorem negate_lazy_spec (hin : EnvIn X IfmaField.pre_negate_lazy) :
    ∃ out, Dalek.Gen.IfmaField.negate_lazy.evalC X = some out ∧ Dalek.Gen.IfmaField.negate_lazy.evalW X = out ∧
      EnvIn out (rep 20 (ub (2 ^ 56 - 1))) ∧
      ∀ k : Lane, vecVal51 k out = - vecVal51 k X := by
  obtain ⟨out, hC, hW, hpost, hZ⟩ := Prog.norm_sound _ _ _ _ negate_lazy_norm_ok _ hin
  refine ⟨out, hC, hW, EnvIn_of_itvsLe hpost (by decide +kernel), fun k => ?_⟩
  have h := negate_lazy_correct k ↑x0 ↑x1 ↑x2 ↑x3 ↑x4 ↑x5 ↑x6 ↑x7 ↑x8 ↑x9 ↑x10 ↑x11 ↑x12 ↑x13 ↑x14 ↑x15 ↑x16 ↑x17 ↑x18 ↑x19
  have e : negate_lazy_fn ↑x0 ↑x1 ↑x2 ↑x3 ↑x4 ↑x5 ↑x6 ↑x7 ↑x8 ↑x9 ↑x10 ↑x11 ↑x12 ↑x13 ↑x14 ↑x15 ↑x16 ↑x17 ↑x18 ↑x19 = toZ out := (negate_lazy_fn_ok ↑x0 ↑x1 ↑x2 ↑x3 ↑x4 ↑x5 ↑x6 ↑x7 ↑x8 ↑x9 ↑x10 ↑x11 ↑x12 ↑x13 ↑x14 ↑x15 ↑x16 ↑x17 ↑x18 ↑x19).symm.trans hZ
  rw [e] at h
  exact h

/-- `x.diff_sum()`: lanes `≤` the lanes of `32p` ↦ lanes `< 2^57`, `(A,B,C,D) ↦ (B − A, B + A, D − C, D + C)` -/
theorem diff_sum_spec (hin : EnvIn X IfmaField.pre_diff_sum) :
    ∃ out, Dalek.Gen.IfmaField.diff_sum.evalC X = some out ∧ Dalek.Gen.IfmaField.diff_sum.evalW X = out ∧
      EnvIn out (rep 20 (ub (2 ^ 57 - 1))) ∧
      ∀ k : Lane, vecVal51 k out = k.sel (vecVal51 .B X - vecVal51 .A X) (vecVal51 .B X + vecVal51 .A X) (vecVal51 .D X - vecVal51 .C X) (vecVal51 .D X + vecVal51 .C X) := by
  obtain ⟨out, hC, hW, hpost, hZ⟩ := Prog.norm_sound _ _ _ _ diff_sum_norm_ok _ hin
  refine ⟨out, hC, hW, EnvIn_of_itvsLe hpost (by decide +kernel), fun k => ?_⟩
  have h := diff_sum_correct k ↑x0 ↑x1 ↑x2 ↑x3 ↑x4 ↑x5 ↑x6 ↑x7 ↑x8 ↑x9 ↑x10 ↑x11 ↑x12 ↑x13 ↑x14 ↑x15 ↑x16 ↑x17 ↑x18 ↑x19
  have e : diff_sum_fn ↑x0 ↑x1 ↑x2 ↑x3 ↑x4 ↑x5 ↑x6 ↑x7 ↑x8 ↑x9 ↑x10 ↑x11 ↑x12 ↑x13 ↑x14 ↑x15 ↑x16 ↑x17 ↑x18 ↑x19 = toZ out := (diff_sum_fn_ok ↑x0 ↑x1 ↑x2 ↑x3 ↑x4 ↑x5 ↑x6 ↑x7 ↑x8 ↑x9 ↑x10 ↑x11 ↑x12 ↑x13 ↑x14 ↑x15 ↑x16 ↑x17 ↑x18 ↑x19).symm.trans hZ
  rw [e] at h
  exact h

/-- `F51x4Reduced::from(x)` (weak reduction): ANY twenty u64 lanes ↦ limbs `< 2^51 + 2^18` (so `< 2^52`), same four values -/
theorem reduce_spec (hin : EnvIn X IfmaField.pre_reduce) :
    ∃ out, Dalek.Gen.IfmaField.reduce.evalC X = some out ∧ Dalek.Gen.IfmaField.reduce.evalW X = out ∧
      EnvIn out (rep 20 (ub (2 ^ 51 + 2 ^ 18 - 1))) ∧
      ∀ k : Lane, vecVal51 k out = vecVal51 k X := by
  obtain ⟨out, hC, hW, hpost, hZ⟩ := Prog.norm_sound _ _ _ _ reduce_norm_ok _ hin
  refine ⟨out, hC, hW, EnvIn_of_itvsLe hpost (by decide +kernel), fun k => ?_⟩
  have h := reduce_correct k ↑x0 ↑x1 ↑x2 ↑x3 ↑x4 ↑x5 ↑x6 ↑x7 ↑x8 ↑x9 ↑x10 ↑x11 ↑x12 ↑x13 ↑x14 ↑x15 ↑x16 ↑x17 ↑x18 ↑x19
  have e : reduce_fn ↑x0 ↑x1 ↑x2 ↑x3 ↑x4 ↑x5 ↑x6 ↑x7 ↑x8 ↑x9 ↑x10 ↑x11 ↑x12 ↑x13 ↑x14 ↑x15 ↑x16 ↑x17 ↑x18 ↑x19 = toZ out := (reduce_fn_ok ↑x0 ↑x1 ↑x2 ↑x3 ↑x4 ↑x5 ↑x6 ↑x7 ↑x8 ↑x9 ↑x10 ↑x11 ↑x12 ↑x13 ↑x14 ↑x15 ↑x16 ↑x17 ↑x18 ↑x19).symm.trans hZ
  rw [e] at h
  exact h

/-- `F51x4Unreduced::from(x)`: identity -/
theorem unreduce_spec (hin : EnvIn X IfmaField.pre_unreduce) :
    ∃ out, Dalek.Gen.IfmaField.unreduce.evalC X = some out ∧ Dalek.Gen.IfmaField.unreduce.evalW X = out ∧
      EnvIn out IfmaField.anyU64 ∧
      ∀ k : Lane, vecVal51 k out = vecVal51 k X := by
  obtain ⟨out, hC, hW, hpost, hZ⟩ := Prog.norm_sound _ _ _ _ unreduce_norm_ok _ hin
  refine ⟨out, hC, hW, EnvIn_of_itvsLe hpost (by decide +kernel), fun k => ?_⟩
  have h := unreduce_correct k ↑x0 ↑x1 ↑x2 ↑x3 ↑x4 ↑x5 ↑x6 ↑x7 ↑x8 ↑x9 ↑x10 ↑x11 ↑x12 ↑x13 ↑x14 ↑x15 ↑x16 ↑x17 ↑x18 ↑x19
  have e : unreduce_fn ↑x0 ↑x1 ↑x2 ↑x3 ↑x4 ↑x5 ↑x6 ↑x7 ↑x8 ↑x9 ↑x10 ↑x11 ↑x12 ↑x13 ↑x14 ↑x15 ↑x16 ↑x17 ↑x18 ↑x19 = toZ out := (unreduce_fn_ok ↑x0 ↑x1 ↑x2 ↑x3 ↑x4 ↑x5 ↑x6 ↑x7 ↑x8 ↑x9 ↑x10 ↑x11 ↑x12 ↑x13 ↑x14 ↑x15 ↑x16 ↑x17 ↑x18 ↑x19).symm.trans hZ
  rw [e] at h
  exact h

/-- `-x` on `F51x4Reduced` (limbs `< 2^52`) ↦ reduced again (limbs `< 2^51 + 2^10`), element-wise negation -/
theorem neg_spec (hin : EnvIn X IfmaField.pre_neg) :
    ∃ out, Dalek.Gen.IfmaField.neg.evalC X = some out ∧ Dalek.Gen.IfmaField.neg.evalW X = out ∧
      EnvIn out (rep 20 (ub (2 ^ 51 + 2 ^ 10 - 1))) ∧
      ∀ k : Lane, vecVal51 k out = - vecVal51 k X := by
  obtain ⟨out, hC, hW, hpost, hZ⟩ := Prog.norm_sound _ _ _ _ neg_norm_ok _ hin
  refine ⟨out, hC, hW, EnvIn_of_itvsLe hpost (by decide +kernel), fun k => ?_⟩
  have h := neg_correct k ↑x0 ↑x1 ↑x2 ↑x3 ↑x4 ↑x5 ↑x6 ↑x7 ↑x8 ↑x9 ↑x10 ↑x11 ↑x12 ↑x13 ↑x14 ↑x15 ↑x16 ↑x17 ↑x18 ↑x19
  have e : neg_fn ↑x0 ↑x1 ↑x2 ↑x3 ↑x4 ↑x5 ↑x6 ↑x7 ↑x8 ↑x9 ↑x10 ↑x11 ↑x12 ↑x13 ↑x14 ↑x15 ↑x16 ↑x17 ↑x18 ↑x19 = toZ out := (neg_fn_ok ↑x0 ↑x1 ↑x2 ↑x3 ↑x4 ↑x5 ↑x6 ↑x7 ↑x8 ↑x9 ↑x10 ↑x11 ↑x12 ↑x13 ↑x14 ↑x15 ↑x16 ↑x17 ↑x18 ↑x19).symm.trans hZ
  rw [e] at h
  exact h

/-- `x.split()`: any twenty u64 lanes ↦ four `FieldElement51` with the four lane values -/
theorem split_spec (hin : EnvIn X IfmaField.pre_split) :
    ∃ out, Dalek.Gen.IfmaField.split.evalC X = some out ∧ Dalek.Gen.IfmaField.split.evalW X = out ∧
      EnvIn out IfmaField.anyU64 ∧
      ∀ k : Lane, elemVal k out = vecVal51 k X := by
  obtain ⟨out, hC, hW, hpost, hZ⟩ := Prog.norm_sound _ _ _ _ split_norm_ok _ hin
  refine ⟨out, hC, hW, EnvIn_of_itvsLe hpost (by decide +kernel), fun k => ?_⟩
  have h := split_correct k ↑x0 ↑x1 ↑x2 ↑x3 ↑x4 ↑x5 ↑x6 ↑x7 ↑x8 ↑x9 ↑x10 ↑x11 ↑x12 ↑x13 ↑x14 ↑x15 ↑x16 ↑x17 ↑x18 ↑x19
  have e : split_fn ↑x0 ↑x1 ↑x2 ↑x3 ↑x4 ↑x5 ↑x6 ↑x7 ↑x8 ↑x9 ↑x10 ↑x11 ↑x12 ↑x13 ↑x14 ↑x15 ↑x16 ↑x17 ↑x18 ↑x19 = toZ out := (split_fn_ok ↑x0 ↑x1 ↑x2 ↑x3 ↑x4 ↑x5 ↑x6 ↑x7 ↑x8 ↑x9 ↑x10 ↑x11 ↑x12 ↑x13 ↑x14 ↑x15 ↑x16 ↑x17 ↑x18 ↑x19).symm.trans hZ
  rw [e] at h
  exact h

/-- `&x * (s0, s1, s2, s3)` on `F51x4Reduced` (limbs `< 2^52`), any u32 scalars ↦ limbs `< 2^53`,
`(s0 A, s1 B, s2 C, s3 D)` -/
theorem mul_consts_spec (s0 s1 s2 s3 : Nat) (hin : EnvIn (X ++ [s0, s1, s2, s3]) IfmaField.pre_mul_consts) :
    ∃ out, Dalek.Gen.IfmaField.mul_consts.evalC (X ++ [s0, s1, s2, s3]) = some out ∧ Dalek.Gen.IfmaField.mul_consts.evalW (X ++ [s0, s1, s2, s3]) = out ∧
      EnvIn out (rep 20 (ub (2 ^ 53 - 1))) ∧
      ∀ k : Lane, vecVal51 k out = vecVal51 k X * ((k.sel s0 s1 s2 s3 : Nat) : ZMod P) := by
  obtain ⟨out, hC, hW, hpost, hZ⟩ := Prog.norm_sound _ _ _ _ mul_consts_norm_ok _ hin
  refine ⟨out, hC, hW, EnvIn_of_itvsLe hpost (by decide +kernel), fun k => ?_⟩
  have h := mul_consts_correct k ↑x0 ↑x1 ↑x2 ↑x3 ↑x4 ↑x5 ↑x6 ↑x7 ↑x8 ↑x9 ↑x10 ↑x11 ↑x12 ↑x13 ↑x14 ↑x15 ↑x16 ↑x17 ↑x18 ↑x19 ↑s0 ↑s1 ↑s2 ↑s3
  have e : mul_consts_fn ↑x0 ↑x1 ↑x2 ↑x3 ↑x4 ↑x5 ↑x6 ↑x7 ↑x8 ↑x9 ↑x10 ↑x11 ↑x12 ↑x13 ↑x14 ↑x15 ↑x16 ↑x17 ↑x18 ↑x19 ↑s0 ↑s1 ↑s2 ↑s3 = toZ out := (mul_consts_fn_ok ↑x0 ↑x1 ↑x2 ↑x3 ↑x4 ↑x5 ↑x6 ↑x7 ↑x8 ↑x9 ↑x10 ↑x11 ↑x12 ↑x13 ↑x14 ↑x15 ↑x16 ↑x17 ↑x18 ↑x19 ↑s0 ↑s1 ↑s2 ↑s3).symm.trans hZ
  rw [e] at h
  have hs : ((k.sel (s0 : Int) s1 s2 s3 : Int) : ZMod P) = ((k.sel s0 s1 s2 s3 : Nat) : ZMod P) := by
    cases k <;> simp [Lane.sel]
  rw [hs] at h
  exact h

/-- `conditional_select(x, y, choice)`: all lanes of `x` if `choice = 0`, all lanes of `y` if `choice = 1` -/
theorem conditional_select_spec (c : Nat) (hin : EnvIn (X ++ Y ++ [c]) IfmaField.pre_conditional_select) :
    ∃ out, Dalek.Gen.IfmaField.conditional_select.evalC (X ++ Y ++ [c]) = some out ∧ Dalek.Gen.IfmaField.conditional_select.evalW (X ++ Y ++ [c]) = out ∧
      out = if c = 0 then X else Y := by
  obtain ⟨out, hC, hW, _, hZ⟩ := Prog.norm_sound _ _ _ _ conditional_select_norm_ok _ hin
  refine ⟨out, hC, hW, toZ_injective ?_⟩
  have h := conditional_select_correct ↑x0 ↑x1 ↑x2 ↑x3 ↑x4 ↑x5 ↑x6 ↑x7 ↑x8 ↑x9 ↑x10 ↑x11 ↑x12 ↑x13 ↑x14 ↑x15 ↑x16 ↑x17 ↑x18 ↑x19 ↑y0 ↑y1 ↑y2 ↑y3 ↑y4 ↑y5 ↑y6 ↑y7 ↑y8 ↑y9 ↑y10 ↑y11 ↑y12 ↑y13 ↑y14 ↑y15 ↑y16 ↑y17 ↑y18 ↑y19 ↑c
  have e : conditional_select_fn ↑x0 ↑x1 ↑x2 ↑x3 ↑x4 ↑x5 ↑x6 ↑x7 ↑x8 ↑x9 ↑x10 ↑x11 ↑x12 ↑x13 ↑x14 ↑x15 ↑x16 ↑x17 ↑x18 ↑x19 ↑y0 ↑y1 ↑y2 ↑y3 ↑y4 ↑y5 ↑y6 ↑y7 ↑y8 ↑y9 ↑y10 ↑y11 ↑y12 ↑y13 ↑y14 ↑y15 ↑y16 ↑y17 ↑y18 ↑y19 ↑c = toZ out := (conditional_select_fn_ok ↑x0 ↑x1 ↑x2 ↑x3 ↑x4 ↑x5 ↑x6 ↑x7 ↑x8 ↑x9 ↑x10 ↑x11 ↑x12 ↑x13 ↑x14 ↑x15 ↑x16 ↑x17 ↑x18 ↑x19 ↑y0 ↑y1 ↑y2 ↑y3 ↑y4 ↑y5 ↑y6 ↑y7 ↑y8 ↑y9 ↑y10 ↑y11 ↑y12 ↑y13 ↑y14 ↑y15 ↑y16 ↑y17 ↑y18 ↑y19 ↑c).symm.trans hZ
  rw [e] at h
  rw [h]
  by_cases hc : c = 0
  · subst hc; rfl
  · have hc' : ((c : Nat) : Int) ≠ 0 := by exact_mod_cast hc
    simp only [hc, hc', ↓reduceIte]; rfl

/-- `conditional_assign(x, y, choice)`: all lanes of `x` if `choice = 0`, all lanes of `y` if `choice = 1` -/
theorem conditional_assign_spec (c : Nat) (hin : EnvIn (X ++ Y ++ [c]) IfmaField.pre_conditional_assign) :
    ∃ out, Dalek.Gen.IfmaField.conditional_assign.evalC (X ++ Y ++ [c]) = some out ∧ Dalek.Gen.IfmaField.conditional_assign.evalW (X ++ Y ++ [c]) = out ∧
      out = if c = 0 then X else Y := by
  obtain ⟨out, hC, hW, _, hZ⟩ := Prog.norm_sound _ _ _ _ conditional_assign_norm_ok _ hin
  refine ⟨out, hC, hW, toZ_injective ?_⟩
  have h := conditional_assign_correct ↑x0 ↑x1 ↑x2 ↑x3 ↑x4 ↑x5 ↑x6 ↑x7 ↑x8 ↑x9 ↑x10 ↑x11 ↑x12 ↑x13 ↑x14 ↑x15 ↑x16 ↑x17 ↑x18 ↑x19 ↑y0 ↑y1 ↑y2 ↑y3 ↑y4 ↑y5 ↑y6 ↑y7 ↑y8 ↑y9 ↑y10 ↑y11 ↑y12 ↑y13 ↑y14 ↑y15 ↑y16 ↑y17 ↑y18 ↑y19 ↑c
  have e : conditional_assign_fn ↑x0 ↑x1 ↑x2 ↑x3 ↑x4 ↑x5 ↑x6 ↑x7 ↑x8 ↑x9 ↑x10 ↑x11 ↑x12 ↑x13 ↑x14 ↑x15 ↑x16 ↑x17 ↑x18 ↑x19 ↑y0 ↑y1 ↑y2 ↑y3 ↑y4 ↑y5 ↑y6 ↑y7 ↑y8 ↑y9 ↑y10 ↑y11 ↑y12 ↑y13 ↑y14 ↑y15 ↑y16 ↑y17 ↑y18 ↑y19 ↑c = toZ out := (conditional_assign_fn_ok ↑x0 ↑x1 ↑x2 ↑x3 ↑x4 ↑x5 ↑x6 ↑x7 ↑x8 ↑x9 ↑x10 ↑x11 ↑x12 ↑x13 ↑x14 ↑x15 ↑x16 ↑x17 ↑x18 ↑x19 ↑y0 ↑y1 ↑y2 ↑y3 ↑y4 ↑y5 ↑y6 ↑y7 ↑y8 ↑y9 ↑y10 ↑y11 ↑y12 ↑y13 ↑y14 ↑y15 ↑y16 ↑y17 ↑y18 ↑y19 ↑c).symm.trans hZ
  rw [e] at h
  rw [h]
  by_cases hc : c = 0
  · subst hc; rfl
  · have hc' : ((c : Nat) : Int) ≠ 0 := by exact_mod_cast hc
    simp only [hc, hc', ↓reduceIte]; rfl

/-! ### shuffles and blends (of `F51x4Unreduced` and, prefixed `reduced_`, of `F51x4Reduced`): pure renamings -/

/-- `x.shuffle(Shuffle::AAAA)`: `(A,B,C,D) ↦ (A,A,A,A)` -/
theorem shuffle_AAAA_spec (hin : EnvIn X IfmaField.pre_shuffle_AAAA) :
    ∃ out, Dalek.Gen.IfmaField.shuffle_AAAA.evalC X = some out ∧ Dalek.Gen.IfmaField.shuffle_AAAA.evalW X = out ∧
      ∀ k : Lane, vecLimbs51 k out = vecLimbs51 (k.sel .A .A .A .A) X := by
  obtain ⟨out, hC, hW, _, hZ⟩ := Prog.norm_sound _ _ _ _ shuffle_AAAA_norm_ok _ hin
  refine ⟨out, hC, hW, fun k => ?_⟩
  have h := shuffle_AAAA_correct k ↑x0 ↑x1 ↑x2 ↑x3 ↑x4 ↑x5 ↑x6 ↑x7 ↑x8 ↑x9 ↑x10 ↑x11 ↑x12 ↑x13 ↑x14 ↑x15 ↑x16 ↑x17 ↑x18 ↑x19
  have e : shuffle_AAAA_fn ↑x0 ↑x1 ↑x2 ↑x3 ↑x4 ↑x5 ↑x6 ↑x7 ↑x8 ↑x9 ↑x10 ↑x11 ↑x12 ↑x13 ↑x14 ↑x15 ↑x16 ↑x17 ↑x18 ↑x19 = toZ out := (shuffle_AAAA_fn_ok ↑x0 ↑x1 ↑x2 ↑x3 ↑x4 ↑x5 ↑x6 ↑x7 ↑x8 ↑x9 ↑x10 ↑x11 ↑x12 ↑x13 ↑x14 ↑x15 ↑x16 ↑x17 ↑x18 ↑x19).symm.trans hZ
  rw [e] at h
  exact h

/-- `x.shuffle(Shuffle::BBBB)`: `(A,B,C,D) ↦ (B,B,B,B)` -/
theorem shuffle_BBBB_spec (hin : EnvIn X IfmaField.pre_shuffle_BBBB) :
    ∃ out, Dalek.Gen.IfmaField.shuffle_BBBB.evalC X = some out ∧ Dalek.Gen.IfmaField.shuffle_BBBB.evalW X = out ∧
      ∀ k : Lane, vecLimbs51 k out = vecLimbs51 (k.sel .B .B .B .B) X := by
  obtain ⟨out, hC, hW, _, hZ⟩ := Prog.norm_sound _ _ _ _ shuffle_BBBB_norm_ok _ hin
  refine ⟨out, hC, hW, fun k => ?_⟩
  have h := shuffle_BBBB_correct k ↑x0 ↑x1 ↑x2 ↑x3 ↑x4 ↑x5 ↑x6 ↑x7 ↑x8 ↑x9 ↑x10 ↑x11 ↑x12 ↑x13 ↑x14 ↑x15 ↑x16 ↑x17 ↑x18 ↑x19
  have e : shuffle_BBBB_fn ↑x0 ↑x1 ↑x2 ↑x3 ↑x4 ↑x5 ↑x6 ↑x7 ↑x8 ↑x9 ↑x10 ↑x11 ↑x12 ↑x13 ↑x14 ↑x15 ↑x16 ↑x17 ↑x18 ↑x19 = toZ out := (shuffle_BBBB_fn_ok ↑x0 ↑x1 ↑x2 ↑x3 ↑x4 ↑x5 ↑x6 ↑x7 ↑x8 ↑x9 ↑x10 ↑x11 ↑x12 ↑x13 ↑x14 ↑x15 ↑x16 ↑x17 ↑x18 ↑x19).symm.trans hZ
  rw [e] at h
  exact h

/-- `x.shuffle(Shuffle::BADC)`: `(A,B,C,D) ↦ (B,A,D,C)` -/
theorem shuffle_BADC_spec (hin : EnvIn X IfmaField.pre_shuffle_BADC) :
    ∃ out, Dalek.Gen.IfmaField.shuffle_BADC.evalC X = some out ∧ Dalek.Gen.IfmaField.shuffle_BADC.evalW X = out ∧
      ∀ k : Lane, vecLimbs51 k out = vecLimbs51 (k.sel .B .A .D .C) X := by
  obtain ⟨out, hC, hW, _, hZ⟩ := Prog.norm_sound _ _ _ _ shuffle_BADC_norm_ok _ hin
  refine ⟨out, hC, hW, fun k => ?_⟩
  have h := shuffle_BADC_correct k ↑x0 ↑x1 ↑x2 ↑x3 ↑x4 ↑x5 ↑x6 ↑x7 ↑x8 ↑x9 ↑x10 ↑x11 ↑x12 ↑x13 ↑x14 ↑x15 ↑x16 ↑x17 ↑x18 ↑x19
  have e : shuffle_BADC_fn ↑x0 ↑x1 ↑x2 ↑x3 ↑x4 ↑x5 ↑x6 ↑x7 ↑x8 ↑x9 ↑x10 ↑x11 ↑x12 ↑x13 ↑x14 ↑x15 ↑x16 ↑x17 ↑x18 ↑x19 = toZ out := (shuffle_BADC_fn_ok ↑x0 ↑x1 ↑x2 ↑x3 ↑x4 ↑x5 ↑x6 ↑x7 ↑x8 ↑x9 ↑x10 ↑x11 ↑x12 ↑x13 ↑x14 ↑x15 ↑x16 ↑x17 ↑x18 ↑x19).symm.trans hZ
  rw [e] at h
  exact h

/-- `x.shuffle(Shuffle::BACD)`: `(A,B,C,D) ↦ (B,A,C,D)` -/
theorem shuffle_BACD_spec (hin : EnvIn X IfmaField.pre_shuffle_BACD) :
    ∃ out, Dalek.Gen.IfmaField.shuffle_BACD.evalC X = some out ∧ Dalek.Gen.IfmaField.shuffle_BACD.evalW X = out ∧
      ∀ k : Lane, vecLimbs51 k out = vecLimbs51 (k.sel .B .A .C .D) X := by
  obtain ⟨out, hC, hW, _, hZ⟩ := Prog.norm_sound _ _ _ _ shuffle_BACD_norm_ok _ hin
  refine ⟨out, hC, hW, fun k => ?_⟩
  have h := shuffle_BACD_correct k ↑x0 ↑x1 ↑x2 ↑x3 ↑x4 ↑x5 ↑x6 ↑x7 ↑x8 ↑x9 ↑x10 ↑x11 ↑x12 ↑x13 ↑x14 ↑x15 ↑x16 ↑x17 ↑x18 ↑x19
  have e : shuffle_BACD_fn ↑x0 ↑x1 ↑x2 ↑x3 ↑x4 ↑x5 ↑x6 ↑x7 ↑x8 ↑x9 ↑x10 ↑x11 ↑x12 ↑x13 ↑x14 ↑x15 ↑x16 ↑x17 ↑x18 ↑x19 = toZ out := (shuffle_BACD_fn_ok ↑x0 ↑x1 ↑x2 ↑x3 ↑x4 ↑x5 ↑x6 ↑x7 ↑x8 ↑x9 ↑x10 ↑x11 ↑x12 ↑x13 ↑x14 ↑x15 ↑x16 ↑x17 ↑x18 ↑x19).symm.trans hZ
  rw [e] at h
  exact h

/-- `x.shuffle(Shuffle::ADDA)`: `(A,B,C,D) ↦ (A,D,D,A)` -/
theorem shuffle_ADDA_spec (hin : EnvIn X IfmaField.pre_shuffle_ADDA) :
    ∃ out, Dalek.Gen.IfmaField.shuffle_ADDA.evalC X = some out ∧ Dalek.Gen.IfmaField.shuffle_ADDA.evalW X = out ∧
      ∀ k : Lane, vecLimbs51 k out = vecLimbs51 (k.sel .A .D .D .A) X := by
  obtain ⟨out, hC, hW, _, hZ⟩ := Prog.norm_sound _ _ _ _ shuffle_ADDA_norm_ok _ hin
  refine ⟨out, hC, hW, fun k => ?_⟩
  have h := shuffle_ADDA_correct k ↑x0 ↑x1 ↑x2 ↑x3 ↑x4 ↑x5 ↑x6 ↑x7 ↑x8 ↑x9 ↑x10 ↑x11 ↑x12 ↑x13 ↑x14 ↑x15 ↑x16 ↑x17 ↑x18 ↑x19
  have e : shuffle_ADDA_fn ↑x0 ↑x1 ↑x2 ↑x3 ↑x4 ↑x5 ↑x6 ↑x7 ↑x8 ↑x9 ↑x10 ↑x11 ↑x12 ↑x13 ↑x14 ↑x15 ↑x16 ↑x17 ↑x18 ↑x19 = toZ out := (shuffle_ADDA_fn_ok ↑x0 ↑x1 ↑x2 ↑x3 ↑x4 ↑x5 ↑x6 ↑x7 ↑x8 ↑x9 ↑x10 ↑x11 ↑x12 ↑x13 ↑x14 ↑x15 ↑x16 ↑x17 ↑x18 ↑x19).symm.trans hZ
  rw [e] at h
  exact h

/-- `x.shuffle(Shuffle::CBCB)`: `(A,B,C,D) ↦ (C,B,C,B)` -/
theorem shuffle_CBCB_spec (hin : EnvIn X IfmaField.pre_shuffle_CBCB) :
    ∃ out, Dalek.Gen.IfmaField.shuffle_CBCB.evalC X = some out ∧ Dalek.Gen.IfmaField.shuffle_CBCB.evalW X = out ∧
      ∀ k : Lane, vecLimbs51 k out = vecLimbs51 (k.sel .C .B .C .B) X := by
  obtain ⟨out, hC, hW, _, hZ⟩ := Prog.norm_sound _ _ _ _ shuffle_CBCB_norm_ok _ hin
  refine ⟨out, hC, hW, fun k => ?_⟩
  have h := shuffle_CBCB_correct k ↑x0 ↑x1 ↑x2 ↑x3 ↑x4 ↑x5 ↑x6 ↑x7 ↑x8 ↑x9 ↑x10 ↑x11 ↑x12 ↑x13 ↑x14 ↑x15 ↑x16 ↑x17 ↑x18 ↑x19
  have e : shuffle_CBCB_fn ↑x0 ↑x1 ↑x2 ↑x3 ↑x4 ↑x5 ↑x6 ↑x7 ↑x8 ↑x9 ↑x10 ↑x11 ↑x12 ↑x13 ↑x14 ↑x15 ↑x16 ↑x17 ↑x18 ↑x19 = toZ out := (shuffle_CBCB_fn_ok ↑x0 ↑x1 ↑x2 ↑x3 ↑x4 ↑x5 ↑x6 ↑x7 ↑x8 ↑x9 ↑x10 ↑x11 ↑x12 ↑x13 ↑x14 ↑x15 ↑x16 ↑x17 ↑x18 ↑x19).symm.trans hZ
  rw [e] at h
  exact h

/-- `x.shuffle(Shuffle::ABDC)`: `(A,B,C,D) ↦ (A,B,D,C)` -/
theorem shuffle_ABDC_spec (hin : EnvIn X IfmaField.pre_shuffle_ABDC) :
    ∃ out, Dalek.Gen.IfmaField.shuffle_ABDC.evalC X = some out ∧ Dalek.Gen.IfmaField.shuffle_ABDC.evalW X = out ∧
      ∀ k : Lane, vecLimbs51 k out = vecLimbs51 (k.sel .A .B .D .C) X := by
  obtain ⟨out, hC, hW, _, hZ⟩ := Prog.norm_sound _ _ _ _ shuffle_ABDC_norm_ok _ hin
  refine ⟨out, hC, hW, fun k => ?_⟩
  have h := shuffle_ABDC_correct k ↑x0 ↑x1 ↑x2 ↑x3 ↑x4 ↑x5 ↑x6 ↑x7 ↑x8 ↑x9 ↑x10 ↑x11 ↑x12 ↑x13 ↑x14 ↑x15 ↑x16 ↑x17 ↑x18 ↑x19
  have e : shuffle_ABDC_fn ↑x0 ↑x1 ↑x2 ↑x3 ↑x4 ↑x5 ↑x6 ↑x7 ↑x8 ↑x9 ↑x10 ↑x11 ↑x12 ↑x13 ↑x14 ↑x15 ↑x16 ↑x17 ↑x18 ↑x19 = toZ out := (shuffle_ABDC_fn_ok ↑x0 ↑x1 ↑x2 ↑x3 ↑x4 ↑x5 ↑x6 ↑x7 ↑x8 ↑x9 ↑x10 ↑x11 ↑x12 ↑x13 ↑x14 ↑x15 ↑x16 ↑x17 ↑x18 ↑x19).symm.trans hZ
  rw [e] at h
  exact h

/-- `x.shuffle(Shuffle::ABAB)`: `(A,B,C,D) ↦ (A,B,A,B)` -/
theorem shuffle_ABAB_spec (hin : EnvIn X IfmaField.pre_shuffle_ABAB) :
    ∃ out, Dalek.Gen.IfmaField.shuffle_ABAB.evalC X = some out ∧ Dalek.Gen.IfmaField.shuffle_ABAB.evalW X = out ∧
      ∀ k : Lane, vecLimbs51 k out = vecLimbs51 (k.sel .A .B .A .B) X := by
  obtain ⟨out, hC, hW, _, hZ⟩ := Prog.norm_sound _ _ _ _ shuffle_ABAB_norm_ok _ hin
  refine ⟨out, hC, hW, fun k => ?_⟩
  have h := shuffle_ABAB_correct k ↑x0 ↑x1 ↑x2 ↑x3 ↑x4 ↑x5 ↑x6 ↑x7 ↑x8 ↑x9 ↑x10 ↑x11 ↑x12 ↑x13 ↑x14 ↑x15 ↑x16 ↑x17 ↑x18 ↑x19
  have e : shuffle_ABAB_fn ↑x0 ↑x1 ↑x2 ↑x3 ↑x4 ↑x5 ↑x6 ↑x7 ↑x8 ↑x9 ↑x10 ↑x11 ↑x12 ↑x13 ↑x14 ↑x15 ↑x16 ↑x17 ↑x18 ↑x19 = toZ out := (shuffle_ABAB_fn_ok ↑x0 ↑x1 ↑x2 ↑x3 ↑x4 ↑x5 ↑x6 ↑x7 ↑x8 ↑x9 ↑x10 ↑x11 ↑x12 ↑x13 ↑x14 ↑x15 ↑x16 ↑x17 ↑x18 ↑x19).symm.trans hZ
  rw [e] at h
  exact h

/-- `x.shuffle(Shuffle::DBBD)`: `(A,B,C,D) ↦ (D,B,B,D)` -/
theorem shuffle_DBBD_spec (hin : EnvIn X IfmaField.pre_shuffle_DBBD) :
    ∃ out, Dalek.Gen.IfmaField.shuffle_DBBD.evalC X = some out ∧ Dalek.Gen.IfmaField.shuffle_DBBD.evalW X = out ∧
      ∀ k : Lane, vecLimbs51 k out = vecLimbs51 (k.sel .D .B .B .D) X := by
  obtain ⟨out, hC, hW, _, hZ⟩ := Prog.norm_sound _ _ _ _ shuffle_DBBD_norm_ok _ hin
  refine ⟨out, hC, hW, fun k => ?_⟩
  have h := shuffle_DBBD_correct k ↑x0 ↑x1 ↑x2 ↑x3 ↑x4 ↑x5 ↑x6 ↑x7 ↑x8 ↑x9 ↑x10 ↑x11 ↑x12 ↑x13 ↑x14 ↑x15 ↑x16 ↑x17 ↑x18 ↑x19
  have e : shuffle_DBBD_fn ↑x0 ↑x1 ↑x2 ↑x3 ↑x4 ↑x5 ↑x6 ↑x7 ↑x8 ↑x9 ↑x10 ↑x11 ↑x12 ↑x13 ↑x14 ↑x15 ↑x16 ↑x17 ↑x18 ↑x19 = toZ out := (shuffle_DBBD_fn_ok ↑x0 ↑x1 ↑x2 ↑x3 ↑x4 ↑x5 ↑x6 ↑x7 ↑x8 ↑x9 ↑x10 ↑x11 ↑x12 ↑x13 ↑x14 ↑x15 ↑x16 ↑x17 ↑x18 ↑x19).symm.trans hZ
  rw [e] at h
  exact h

/-- `x.shuffle(Shuffle::CACA)`: `(A,B,C,D) ↦ (C,A,C,A)` -/
theorem shuffle_CACA_spec (hin : EnvIn X IfmaField.pre_shuffle_CACA) :
    ∃ out, Dalek.Gen.IfmaField.shuffle_CACA.evalC X = some out ∧ Dalek.Gen.IfmaField.shuffle_CACA.evalW X = out ∧
      ∀ k : Lane, vecLimbs51 k out = vecLimbs51 (k.sel .C .A .C .A) X := by
  obtain ⟨out, hC, hW, _, hZ⟩ := Prog.norm_sound _ _ _ _ shuffle_CACA_norm_ok _ hin
  refine ⟨out, hC, hW, fun k => ?_⟩
  have h := shuffle_CACA_correct k ↑x0 ↑x1 ↑x2 ↑x3 ↑x4 ↑x5 ↑x6 ↑x7 ↑x8 ↑x9 ↑x10 ↑x11 ↑x12 ↑x13 ↑x14 ↑x15 ↑x16 ↑x17 ↑x18 ↑x19
  have e : shuffle_CACA_fn ↑x0 ↑x1 ↑x2 ↑x3 ↑x4 ↑x5 ↑x6 ↑x7 ↑x8 ↑x9 ↑x10 ↑x11 ↑x12 ↑x13 ↑x14 ↑x15 ↑x16 ↑x17 ↑x18 ↑x19 = toZ out := (shuffle_CACA_fn_ok ↑x0 ↑x1 ↑x2 ↑x3 ↑x4 ↑x5 ↑x6 ↑x7 ↑x8 ↑x9 ↑x10 ↑x11 ↑x12 ↑x13 ↑x14 ↑x15 ↑x16 ↑x17 ↑x18 ↑x19).symm.trans hZ
  rw [e] at h
  exact h

/-- `x.blend(y, Lanes::D)`: elements D from `y`, the others from `x` -/
theorem blend_D_spec (hin : EnvIn (X ++ Y) IfmaField.pre_blend_D) :
    ∃ out, Dalek.Gen.IfmaField.blend_D.evalC (X ++ Y) = some out ∧ Dalek.Gen.IfmaField.blend_D.evalW (X ++ Y) = out ∧
      ∀ k : Lane, vecLimbs51 k out = k.sel (vecLimbs51 .A X) (vecLimbs51 .B X) (vecLimbs51 .C X) (vecLimbs51 .D Y) := by
  obtain ⟨out, hC, hW, _, hZ⟩ := Prog.norm_sound _ _ _ _ blend_D_norm_ok _ hin
  refine ⟨out, hC, hW, fun k => ?_⟩
  have h := blend_D_correct k ↑x0 ↑x1 ↑x2 ↑x3 ↑x4 ↑x5 ↑x6 ↑x7 ↑x8 ↑x9 ↑x10 ↑x11 ↑x12 ↑x13 ↑x14 ↑x15 ↑x16 ↑x17 ↑x18 ↑x19 ↑y0 ↑y1 ↑y2 ↑y3 ↑y4 ↑y5 ↑y6 ↑y7 ↑y8 ↑y9 ↑y10 ↑y11 ↑y12 ↑y13 ↑y14 ↑y15 ↑y16 ↑y17 ↑y18 ↑y19
  have e : blend_D_fn ↑x0 ↑x1 ↑x2 ↑x3 ↑x4 ↑x5 ↑x6 ↑x7 ↑x8 ↑x9 ↑x10 ↑x11 ↑x12 ↑x13 ↑x14 ↑x15 ↑x16 ↑x17 ↑x18 ↑x19 ↑y0 ↑y1 ↑y2 ↑y3 ↑y4 ↑y5 ↑y6 ↑y7 ↑y8 ↑y9 ↑y10 ↑y11 ↑y12 ↑y13 ↑y14 ↑y15 ↑y16 ↑y17 ↑y18 ↑y19 = toZ out := (blend_D_fn_ok ↑x0 ↑x1 ↑x2 ↑x3 ↑x4 ↑x5 ↑x6 ↑x7 ↑x8 ↑x9 ↑x10 ↑x11 ↑x12 ↑x13 ↑x14 ↑x15 ↑x16 ↑x17 ↑x18 ↑x19 ↑y0 ↑y1 ↑y2 ↑y3 ↑y4 ↑y5 ↑y6 ↑y7 ↑y8 ↑y9 ↑y10 ↑y11 ↑y12 ↑y13 ↑y14 ↑y15 ↑y16 ↑y17 ↑y18 ↑y19).symm.trans hZ
  rw [e] at h
  exact h

/-- `x.blend(y, Lanes::C)`: elements C from `y`, the others from `x` -/
theorem blend_C_spec (hin : EnvIn (X ++ Y) IfmaField.pre_blend_C) :
    ∃ out, Dalek.Gen.IfmaField.blend_C.evalC (X ++ Y) = some out ∧ Dalek.Gen.IfmaField.blend_C.evalW (X ++ Y) = out ∧
      ∀ k : Lane, vecLimbs51 k out = k.sel (vecLimbs51 .A X) (vecLimbs51 .B X) (vecLimbs51 .C Y) (vecLimbs51 .D X) := by
  obtain ⟨out, hC, hW, _, hZ⟩ := Prog.norm_sound _ _ _ _ blend_C_norm_ok _ hin
  refine ⟨out, hC, hW, fun k => ?_⟩
  have h := blend_C_correct k ↑x0 ↑x1 ↑x2 ↑x3 ↑x4 ↑x5 ↑x6 ↑x7 ↑x8 ↑x9 ↑x10 ↑x11 ↑x12 ↑x13 ↑x14 ↑x15 ↑x16 ↑x17 ↑x18 ↑x19 ↑y0 ↑y1 ↑y2 ↑y3 ↑y4 ↑y5 ↑y6 ↑y7 ↑y8 ↑y9 ↑y10 ↑y11 ↑y12 ↑y13 ↑y14 ↑y15 ↑y16 ↑y17 ↑y18 ↑y19
  have e : blend_C_fn ↑x0 ↑x1 ↑x2 ↑x3 ↑x4 ↑x5 ↑x6 ↑x7 ↑x8 ↑x9 ↑x10 ↑x11 ↑x12 ↑x13 ↑x14 ↑x15 ↑x16 ↑x17 ↑x18 ↑x19 ↑y0 ↑y1 ↑y2 ↑y3 ↑y4 ↑y5 ↑y6 ↑y7 ↑y8 ↑y9 ↑y10 ↑y11 ↑y12 ↑y13 ↑y14 ↑y15 ↑y16 ↑y17 ↑y18 ↑y19 = toZ out := (blend_C_fn_ok ↑x0 ↑x1 ↑x2 ↑x3 ↑x4 ↑x5 ↑x6 ↑x7 ↑x8 ↑x9 ↑x10 ↑x11 ↑x12 ↑x13 ↑x14 ↑x15 ↑x16 ↑x17 ↑x18 ↑x19 ↑y0 ↑y1 ↑y2 ↑y3 ↑y4 ↑y5 ↑y6 ↑y7 ↑y8 ↑y9 ↑y10 ↑y11 ↑y12 ↑y13 ↑y14 ↑y15 ↑y16 ↑y17 ↑y18 ↑y19).symm.trans hZ
  rw [e] at h
  exact h

/-- `x.blend(y, Lanes::AB)`: elements A,B from `y`, the others from `x` -/
theorem blend_AB_spec (hin : EnvIn (X ++ Y) IfmaField.pre_blend_AB) :
    ∃ out, Dalek.Gen.IfmaField.blend_AB.evalC (X ++ Y) = some out ∧ Dalek.Gen.IfmaField.blend_AB.evalW (X ++ Y) = out ∧
      ∀ k : Lane, vecLimbs51 k out = k.sel (vecLimbs51 .A Y) (vecLimbs51 .B Y) (vecLimbs51 .C X) (vecLimbs51 .D X) := by
  obtain ⟨out, hC, hW, _, hZ⟩ := Prog.norm_sound _ _ _ _ blend_AB_norm_ok _ hin
  refine ⟨out, hC, hW, fun k => ?_⟩
  have h := blend_AB_correct k ↑x0 ↑x1 ↑x2 ↑x3 ↑x4 ↑x5 ↑x6 ↑x7 ↑x8 ↑x9 ↑x10 ↑x11 ↑x12 ↑x13 ↑x14 ↑x15 ↑x16 ↑x17 ↑x18 ↑x19 ↑y0 ↑y1 ↑y2 ↑y3 ↑y4 ↑y5 ↑y6 ↑y7 ↑y8 ↑y9 ↑y10 ↑y11 ↑y12 ↑y13 ↑y14 ↑y15 ↑y16 ↑y17 ↑y18 ↑y19
  have e : blend_AB_fn ↑x0 ↑x1 ↑x2 ↑x3 ↑x4 ↑x5 ↑x6 ↑x7 ↑x8 ↑x9 ↑x10 ↑x11 ↑x12 ↑x13 ↑x14 ↑x15 ↑x16 ↑x17 ↑x18 ↑x19 ↑y0 ↑y1 ↑y2 ↑y3 ↑y4 ↑y5 ↑y6 ↑y7 ↑y8 ↑y9 ↑y10 ↑y11 ↑y12 ↑y13 ↑y14 ↑y15 ↑y16 ↑y17 ↑y18 ↑y19 = toZ out := (blend_AB_fn_ok ↑x0 ↑x1 ↑x2 ↑x3 ↑x4 ↑x5 ↑x6 ↑x7 ↑x8 ↑x9 ↑x10 ↑x11 ↑x12 ↑x13 ↑x14 ↑x15 ↑x16 ↑x17 ↑x18 ↑x19 ↑y0 ↑y1 ↑y2 ↑y3 ↑y4 ↑y5 ↑y6 ↑y7 ↑y8 ↑y9 ↑y10 ↑y11 ↑y12 ↑y13 ↑y14 ↑y15 ↑y16 ↑y17 ↑y18 ↑y19).symm.trans hZ
  rw [e] at h
  exact h

/-- `x.blend(y, Lanes::AC)`: elements A,C from `y`, the others from `x` -/
theorem blend_AC_spec (hin : EnvIn (X ++ Y) IfmaField.pre_blend_AC) :
    ∃ out, Dalek.Gen.IfmaField.blend_AC.evalC (X ++ Y) = some out ∧ Dalek.Gen.IfmaField.blend_AC.evalW (X ++ Y) = out ∧
      ∀ k : Lane, vecLimbs51 k out = k.sel (vecLimbs51 .A Y) (vecLimbs51 .B X) (vecLimbs51 .C Y) (vecLimbs51 .D X) := by
  obtain ⟨out, hC, hW, _, hZ⟩ := Prog.norm_sound _ _ _ _ blend_AC_norm_ok _ hin
  refine ⟨out, hC, hW, fun k => ?_⟩
  have h := blend_AC_correct k ↑x0 ↑x1 ↑x2 ↑x3 ↑x4 ↑x5 ↑x6 ↑x7 ↑x8 ↑x9 ↑x10 ↑x11 ↑x12 ↑x13 ↑x14 ↑x15 ↑x16 ↑x17 ↑x18 ↑x19 ↑y0 ↑y1 ↑y2 ↑y3 ↑y4 ↑y5 ↑y6 ↑y7 ↑y8 ↑y9 ↑y10 ↑y11 ↑y12 ↑y13 ↑y14 ↑y15 ↑y16 ↑y17 ↑y18 ↑y19
  have e : blend_AC_fn ↑x0 ↑x1 ↑x2 ↑x3 ↑x4 ↑x5 ↑x6 ↑x7 ↑x8 ↑x9 ↑x10 ↑x11 ↑x12 ↑x13 ↑x14 ↑x15 ↑x16 ↑x17 ↑x18 ↑x19 ↑y0 ↑y1 ↑y2 ↑y3 ↑y4 ↑y5 ↑y6 ↑y7 ↑y8 ↑y9 ↑y10 ↑y11 ↑y12 ↑y13 ↑y14 ↑y15 ↑y16 ↑y17 ↑y18 ↑y19 = toZ out := (blend_AC_fn_ok ↑x0 ↑x1 ↑x2 ↑x3 ↑x4 ↑x5 ↑x6 ↑x7 ↑x8 ↑x9 ↑x10 ↑x11 ↑x12 ↑x13 ↑x14 ↑x15 ↑x16 ↑x17 ↑x18 ↑x19 ↑y0 ↑y1 ↑y2 ↑y3 ↑y4 ↑y5 ↑y6 ↑y7 ↑y8 ↑y9 ↑y10 ↑y11 ↑y12 ↑y13 ↑y14 ↑y15 ↑y16 ↑y17 ↑y18 ↑y19).symm.trans hZ
  rw [e] at h
  exact h

/-- `x.blend(y, Lanes::AD)`: elements A,D from `y`, the others from `x` -/
theorem blend_AD_spec (hin : EnvIn (X ++ Y) IfmaField.pre_blend_AD) :
    ∃ out, Dalek.Gen.IfmaField.blend_AD.evalC (X ++ Y) = some out ∧ Dalek.Gen.IfmaField.blend_AD.evalW (X ++ Y) = out ∧
      ∀ k : Lane, vecLimbs51 k out = k.sel (vecLimbs51 .A Y) (vecLimbs51 .B X) (vecLimbs51 .C X) (vecLimbs51 .D Y) := by
  obtain ⟨out, hC, hW, _, hZ⟩ := Prog.norm_sound _ _ _ _ blend_AD_norm_ok _ hin
  refine ⟨out, hC, hW, fun k => ?_⟩
  have h := blend_AD_correct k ↑x0 ↑x1 ↑x2 ↑x3 ↑x4 ↑x5 ↑x6 ↑x7 ↑x8 ↑x9 ↑x10 ↑x11 ↑x12 ↑x13 ↑x14 ↑x15 ↑x16 ↑x17 ↑x18 ↑x19 ↑y0 ↑y1 ↑y2 ↑y3 ↑y4 ↑y5 ↑y6 ↑y7 ↑y8 ↑y9 ↑y10 ↑y11 ↑y12 ↑y13 ↑y14 ↑y15 ↑y16 ↑y17 ↑y18 ↑y19
  have e : blend_AD_fn ↑x0 ↑x1 ↑x2 ↑x3 ↑x4 ↑x5 ↑x6 ↑x7 ↑x8 ↑x9 ↑x10 ↑x11 ↑x12 ↑x13 ↑x14 ↑x15 ↑x16 ↑x17 ↑x18 ↑x19 ↑y0 ↑y1 ↑y2 ↑y3 ↑y4 ↑y5 ↑y6 ↑y7 ↑y8 ↑y9 ↑y10 ↑y11 ↑y12 ↑y13 ↑y14 ↑y15 ↑y16 ↑y17 ↑y18 ↑y19 = toZ out := (blend_AD_fn_ok ↑x0 ↑x1 ↑x2 ↑x3 ↑x4 ↑x5 ↑x6 ↑x7 ↑x8 ↑x9 ↑x10 ↑x11 ↑x12 ↑x13 ↑x14 ↑x15 ↑x16 ↑x17 ↑x18 ↑x19 ↑y0 ↑y1 ↑y2 ↑y3 ↑y4 ↑y5 ↑y6 ↑y7 ↑y8 ↑y9 ↑y10 ↑y11 ↑y12 ↑y13 ↑y14 ↑y15 ↑y16 ↑y17 ↑y18 ↑y19).symm.trans hZ
  rw [e] at h
  exact h

/-- `x.blend(y, Lanes::BCD)`: elements B,C,D from `y`, the others from `x` -/
theorem blend_BCD_spec (hin : EnvIn (X ++ Y) IfmaField.pre_blend_BCD) :
    ∃ out, Dalek.Gen.IfmaField.blend_BCD.evalC (X ++ Y) = some out ∧ Dalek.Gen.IfmaField.blend_BCD.evalW (X ++ Y) = out ∧
      ∀ k : Lane, vecLimbs51 k out = k.sel (vecLimbs51 .A X) (vecLimbs51 .B Y) (vecLimbs51 .C Y) (vecLimbs51 .D Y) := by
  obtain ⟨out, hC, hW, _, hZ⟩ := Prog.norm_sound _ _ _ _ blend_BCD_norm_ok _ hin
  refine ⟨out, hC, hW, fun k => ?_⟩
  have h := blend_BCD_correct k ↑x0 ↑x1 ↑x2 ↑x3 ↑x4 ↑x5 ↑x6 ↑x7 ↑x8 ↑x9 ↑x10 ↑x11 ↑x12 ↑x13 ↑x14 ↑x15 ↑x16 ↑x17 ↑x18 ↑x19 ↑y0 ↑y1 ↑y2 ↑y3 ↑y4 ↑y5 ↑y6 ↑y7 ↑y8 ↑y9 ↑y10 ↑y11 ↑y12 ↑y13 ↑y14 ↑y15 ↑y16 ↑y17 ↑y18 ↑y19
  have e : blend_BCD_fn ↑x0 ↑x1 ↑x2 ↑x3 ↑x4 ↑x5 ↑x6 ↑x7 ↑x8 ↑x9 ↑x10 ↑x11 ↑x12 ↑x13 ↑x14 ↑x15 ↑x16 ↑x17 ↑x18 ↑x19 ↑y0 ↑y1 ↑y2 ↑y3 ↑y4 ↑y5 ↑y6 ↑y7 ↑y8 ↑y9 ↑y10 ↑y11 ↑y12 ↑y13 ↑y14 ↑y15 ↑y16 ↑y17 ↑y18 ↑y19 = toZ out := (blend_BCD_fn_ok ↑x0 ↑x1 ↑x2 ↑x3 ↑x4 ↑x5 ↑x6 ↑x7 ↑x8 ↑x9 ↑x10 ↑x11 ↑x12 ↑x13 ↑x14 ↑x15 ↑x16 ↑x17 ↑x18 ↑x19 ↑y0 ↑y1 ↑y2 ↑y3 ↑y4 ↑y5 ↑y6 ↑y7 ↑y8 ↑y9 ↑y10 ↑y11 ↑y12 ↑y13 ↑y14 ↑y15 ↑y16 ↑y17 ↑y18 ↑y19).symm.trans hZ
  rw [e] at h
  exact h

/-- `x.shuffle(Shuffle::AAAA)`: `(A,B,C,D) ↦ (A,A,A,A)` -/
theorem reduced_shuffle_AAAA_spec (hin : EnvIn X IfmaField.pre_reduced_shuffle_AAAA) :
    ∃ out, Dalek.Gen.IfmaField.reduced_shuffle_AAAA.evalC X = some out ∧ Dalek.Gen.IfmaField.reduced_shuffle_AAAA.evalW X = out ∧
      ∀ k : Lane, vecLimbs51 k out = vecLimbs51 (k.sel .A .A .A .A) X := by
  obtain ⟨out, hC, hW, _, hZ⟩ := Prog.norm_sound _ _ _ _ reduced_shuffle_AAAA_norm_ok _ hin
  refine ⟨out, hC, hW, fun k => ?_⟩
  have h := reduced_shuffle_AAAA_correct k ↑x0 ↑x1 ↑x2 ↑x3 ↑x4 ↑x5 ↑x6 ↑x7 ↑x8 ↑x9 ↑x10 ↑x11 ↑x12 ↑x13 ↑x14 ↑x15 ↑x16 ↑x17 ↑x18 ↑x19
  have e : reduced_shuffle_AAAA_fn ↑x0 ↑x1 ↑x2 ↑x3 ↑x4 ↑x5 ↑x6 ↑x7 ↑x8 ↑x9 ↑x10 ↑x11 ↑x12 ↑x13 ↑x14 ↑x15 ↑x16 ↑x17 ↑x18 ↑x19 = toZ out := (reduced_shuffle_AAAA_fn_ok ↑x0 ↑x1 ↑x2 ↑x3 ↑x4 ↑x5 ↑x6 ↑x7 ↑x8 ↑x9 ↑x10 ↑x11 ↑x12 ↑x13 ↑x14 ↑x15 ↑x16 ↑x17 ↑x18 ↑x19).symm.trans hZ
  rw [e] at h
  exact h

/-- `x.shuffle(Shuffle::BBBB)`: `(A,B,C,D) ↦ (B,B,B,B)` -/
theorem reduced_shuffle_BBBB_spec (hin : EnvIn X IfmaField.pre_reduced_shuffle_BBBB) :
    ∃ out, Dalek.Gen.IfmaField.reduced_shuffle_BBBB.evalC X = some out ∧ Dalek.Gen.IfmaField.reduced_shuffle_BBBB.evalW X = out ∧
      ∀ k : Lane, vecLimbs51 k out = vecLimbs51 (k.sel .B .B .B .B) X := by
  obtain ⟨out, hC, hW, _, hZ⟩ := Prog.norm_sound _ _ _ _ reduced_shuffle_BBBB_norm_ok _ hin
  refine ⟨out, hC, hW, fun k => ?_⟩
  have h := reduced_shuffle_BBBB_correct k ↑x0 ↑x1 ↑x2 ↑x3 ↑x4 ↑x5 ↑x6 ↑x7 ↑x8 ↑x9 ↑x10 ↑x11 ↑x12 ↑x13 ↑x14 ↑x15 ↑x16 ↑x17 ↑x18 ↑x19
  have e : reduced_shuffle_BBBB_fn ↑x0 ↑x1 ↑x2 ↑x3 ↑x4 ↑x5 ↑x6 ↑x7 ↑x8 ↑x9 ↑x10 ↑x11 ↑x12 ↑x13 ↑x14 ↑x15 ↑x16 ↑x17 ↑x18 ↑x19 = toZ out := (reduced_shuffle_BBBB_fn_ok ↑x0 ↑x1 ↑x2 ↑x3 ↑x4 ↑x5 ↑x6 ↑x7 ↑x8 ↑x9 ↑x10 ↑x11 ↑x12 ↑x13 ↑x14 ↑x15 ↑x16 ↑x17 ↑x18 ↑x19).symm.trans hZ
  rw [e] at h
  exact h

/-- `x.shuffle(Shuffle::BADC)`: `(A,B,C,D) ↦ (B,A,D,C)` -/
theorem reduced_shuffle_BADC_spec (hin : EnvIn X IfmaField.pre_reduced_shuffle_BADC) :
    ∃ out, Dalek.Gen.IfmaField.reduced_shuffle_BADC.evalC X = some out ∧ Dalek.Gen.IfmaField.reduced_shuffle_BADC.evalW X = out ∧
      ∀ k : Lane, vecLimbs51 k out = vecLimbs51 (k.sel .B .A .D .C) X := by
  obtain ⟨out, hC, hW, _, hZ⟩ := Prog.norm_sound _ _ _ _ reduced_shuffle_BADC_norm_ok _ hin
  refine ⟨out, hC, hW, fun k => ?_⟩
  have h := reduced_shuffle_BADC_correct k ↑x0 ↑x1 ↑x2 ↑x3 ↑x4 ↑x5 ↑x6 ↑x7 ↑x8 ↑x9 ↑x10 ↑x11 ↑x12 ↑x13 ↑x14 ↑x15 ↑x16 ↑x17 ↑x18 ↑x19
  have e : reduced_shuffle_BADC_fn ↑x0 ↑x1 ↑x2 ↑x3 ↑x4 ↑x5 ↑x6 ↑x7 ↑x8 ↑x9 ↑x10 ↑x11 ↑x12 ↑x13 ↑x14 ↑x15 ↑x16 ↑x17 ↑x18 ↑x19 = toZ out := (reduced_shuffle_BADC_fn_ok ↑x0 ↑x1 ↑x2 ↑x3 ↑x4 ↑x5 ↑x6 ↑x7 ↑x8 ↑x9 ↑x10 ↑x11 ↑x12 ↑x13 ↑x14 ↑x15 ↑x16 ↑x17 ↑x18 ↑x19).symm.trans hZ
  rw [e] at h
  exact h

/-- `x.shuffle(Shuffle::BACD)`: `(A,B,C,D) ↦ (B,A,C,D)` -/
theorem reduced_shuffle_BACD_spec (hin : EnvIn X IfmaField.pre_reduced_shuffle_BACD) :
    ∃ out, Dalek.Gen.IfmaField.reduced_shuffle_BACD.evalC X = some out ∧ Dalek.Gen.IfmaField.reduced_shuffle_BACD.evalW X = out ∧
      ∀ k : Lane, vecLimbs51 k out = vecLimbs51 (k.sel .B .A .C .D) X := by
  obtain ⟨out, hC, hW, _, hZ⟩ := Prog.norm_sound _ _ _ _ reduced_shuffle_BACD_norm_ok _ hin
  refine ⟨out, hC, hW, fun k => ?_⟩
  have h := reduced_shuffle_BACD_correct k ↑x0 ↑x1 ↑x2 ↑x3 ↑x4 ↑x5 ↑x6 ↑x7 ↑x8 ↑x9 ↑x10 ↑x11 ↑x12 ↑x13 ↑x14 ↑x15 ↑x16 ↑x17 ↑x18 ↑x19
  have e : reduced_shuffle_BACD_fn ↑x0 ↑x1 ↑x2 ↑x3 ↑x4 ↑x5 ↑x6 ↑x7 ↑x8 ↑x9 ↑x10 ↑x11 ↑x12 ↑x13 ↑x14 ↑x15 ↑x16 ↑x17 ↑x18 ↑x19 = toZ out := (reduced_shuffle_BACD_fn_ok ↑x0 ↑x1 ↑x2 ↑x3 ↑x4 ↑x5 ↑x6 ↑x7 ↑x8 ↑x9 ↑x10 ↑x11 ↑x12 ↑x13 ↑x14 ↑x15 ↑x16 ↑x17 ↑x18 ↑x19).symm.trans hZ
  rw [e] at h
  exact h

/-- `x.shuffle(Shuffle::ADDA)`: `(A,B,C,D) ↦ (A,D,D,A)` -/
theorem reduced_shuffle_ADDA_spec (hin : EnvIn X IfmaField.pre_reduced_shuffle_ADDA) :
    ∃ out, Dalek.Gen.IfmaField.reduced_shuffle_ADDA.evalC X = some out ∧ Dalek.Gen.IfmaField.reduced_shuffle_ADDA.evalW X = out ∧
      ∀ k : Lane, vecLimbs51 k out = vecLimbs51 (k.sel .A .D .D .A) X := by
  obtain ⟨out, hC, hW, _, hZ⟩ := Prog.norm_sound _ _ _ _ reduced_shuffle_ADDA_norm_ok _ hin
  refine ⟨out, hC, hW, fun k => ?_⟩
  have h := reduced_shuffle_ADDA_correct k ↑x0 ↑x1 ↑x2 ↑x3 ↑x4 ↑x5 ↑x6 ↑x7 ↑x8 ↑x9 ↑x10 ↑x11 ↑x12 ↑x13 ↑x14 ↑x15 ↑x16 ↑x17 ↑x18 ↑x19
  have e : reduced_shuffle_ADDA_fn ↑x0 ↑x1 ↑x2 ↑x3 ↑x4 ↑x5 ↑x6 ↑x7 ↑x8 ↑x9 ↑x10 ↑x11 ↑x12 ↑x13 ↑x14 ↑x15 ↑x16 ↑x17 ↑x18 ↑x19 = toZ out := (reduced_shuffle_ADDA_fn_ok ↑x0 ↑x1 ↑x2 ↑x3 ↑x4 ↑x5 ↑x6 ↑x7 ↑x8 ↑x9 ↑x10 ↑x11 ↑x12 ↑x13 ↑x14 ↑x15 ↑x16 ↑x17 ↑x18 ↑x19).symm.trans hZ
  rw [e] at h
  exact h

/-- `x.shuffle(Shuffle::CBCB)`: `(A,B,C,D) ↦ (C,B,C,B)` -/
theorem reduced_shuffle_CBCB_spec (hin : EnvIn X IfmaField.pre_reduced_shuffle_CBCB) :
    ∃ out, Dalek.Gen.IfmaField.reduced_shuffle_CBCB.evalC X = some out ∧ Dalek.Gen.IfmaField.reduced_shuffle_CBCB.evalW X = out ∧
      ∀ k : Lane, vecLimbs51 k out = vecLimbs51 (k.sel .C .B .C .B) X := by
  obtain ⟨out, hC, hW, _, hZ⟩ := Prog.norm_sound _ _ _ _ reduced_shuffle_CBCB_norm_ok _ hin
  refine ⟨out, hC, hW, fun k => ?_⟩
  have h := reduced_shuffle_CBCB_correct k ↑x0 ↑x1 ↑x2 ↑x3 ↑x4 ↑x5 ↑x6 ↑x7 ↑x8 ↑x9 ↑x10 ↑x11 ↑x12 ↑x13 ↑x14 ↑x15 ↑x16 ↑x17 ↑x18 ↑x19
  have e : reduced_shuffle_CBCB_fn ↑x0 ↑x1 ↑x2 ↑x3 ↑x4 ↑x5 ↑x6 ↑x7 ↑x8 ↑x9 ↑x10 ↑x11 ↑x12 ↑x13 ↑x14 ↑x15 ↑x16 ↑x17 ↑x18 ↑x19 = toZ out := (reduced_shuffle_CBCB_fn_ok ↑x0 ↑x1 ↑x2 ↑x3 ↑x4 ↑x5 ↑x6 ↑x7 ↑x8 ↑x9 ↑x10 ↑x11 ↑x12 ↑x13 ↑x14 ↑x15 ↑x16 ↑x17 ↑x18 ↑x19).symm.trans hZ
  rw [e] at h
  exact h

/-- `x.shuffle(Shuffle::ABDC)`: `(A,B,C,D) ↦ (A,B,D,C)` -/
theorem reduced_shuffle_ABDC_spec (hin : EnvIn X IfmaField.pre_reduced_shuffle_ABDC) :
    ∃ out, Dalek.Gen.IfmaField.reduced_shuffle_ABDC.evalC X = some out ∧ Dalek.Gen.IfmaField.reduced_shuffle_ABDC.evalW X = out ∧
      ∀ k : Lane, vecLimbs51 k out = vecLimbs51 (k.sel .A .B .D .C) X := by
  obtain ⟨out, hC, hW, _, hZ⟩ := Prog.norm_sound _ _ _ _ reduced_shuffle_ABDC_norm_ok _ hin
  refine ⟨out, hC, hW, fun k => ?_⟩
  have h := reduced_shuffle_ABDC_correct k ↑x0 ↑x1 ↑x2 ↑x3 ↑x4 ↑x5 ↑x6 ↑x7 ↑x8 ↑x9 ↑x10 ↑x11 ↑x12 ↑x13 ↑x14 ↑x15 ↑x16 ↑x17 ↑x18 ↑x19
  have e : reduced_shuffle_ABDC_fn ↑x0 ↑x1 ↑x2 ↑x3 ↑x4 ↑x5 ↑x6 ↑x7 ↑x8 ↑x9 ↑x10 ↑x11 ↑x12 ↑x13 ↑x14 ↑x15 ↑x16 ↑x17 ↑x18 ↑x19 = toZ out := (reduced_shuffle_ABDC_fn_ok ↑x0 ↑x1 ↑x2 ↑x3 ↑x4 ↑x5 ↑x6 ↑x7 ↑x8 ↑x9 ↑x10 ↑x11 ↑x12 ↑x13 ↑x14 ↑x15 ↑x16 ↑x17 ↑x18 ↑x19).symm.trans hZ
  rw [e] at h
  exact h

/-- `x.shuffle(Shuffle::ABAB)`: `(A,B,C,D) ↦ (A,B,A,B)` -/
theorem reduced_shuffle_ABAB_spec (hin : EnvIn X IfmaField.pre_reduced_shuffle_ABAB) :
    ∃ out, Dalek.Gen.IfmaField.reduced_shuffle_ABAB.evalC X = some out ∧ Dalek.Gen.IfmaField.reduced_shuffle_ABAB.evalW X = out ∧
      ∀ k : Lane, vecLimbs51 k out = vecLimbs51 (k.sel .A .B .A .B) X := by
  obtain ⟨out, hC, hW, _, hZ⟩ := Prog.norm_sound _ _ _ _ reduced_shuffle_ABAB_norm_ok _ hin
  refine ⟨out, hC, hW, fun k => ?_⟩
  have h := reduced_shuffle_ABAB_correct k ↑x0 ↑x1 ↑x2 ↑x3 ↑x4 ↑x5 ↑x6 ↑x7 ↑x8 ↑x9 ↑x10 ↑x11 ↑x12 ↑x13 ↑x14 ↑x15 ↑x16 ↑x17 ↑x18 ↑x19
  have e : reduced_shuffle_ABAB_fn ↑x0 ↑x1 ↑x2 ↑x3 ↑x4 ↑x5 ↑x6 ↑x7 ↑x8 ↑x9 ↑x10 ↑x11 ↑x12 ↑x13 ↑x14 ↑x15 ↑x16 ↑x17 ↑x18 ↑x19 = toZ out := (reduced_shuffle_ABAB_fn_ok ↑x0 ↑x1 ↑x2 ↑x3 ↑x4 ↑x5 ↑x6 ↑x7 ↑x8 ↑x9 ↑x10 ↑x11 ↑x12 ↑x13 ↑x14 ↑x15 ↑x16 ↑x17 ↑x18 ↑x19).symm.trans hZ
  rw [e] at h
  exact h

/-- `x.shuffle(Shuffle::DBBD)`: `(A,B,C,D) ↦ (D,B,B,D)` -/
theorem reduced_shuffle_DBBD_spec (hin : EnvIn X IfmaField.pre_reduced_shuffle_DBBD) :
    ∃ out, Dalek.Gen.IfmaField.reduced_shuffle_DBBD.evalC X = some out ∧ Dalek.Gen.IfmaField.reduced_shuffle_DBBD.evalW X = out ∧
      ∀ k : Lane, vecLimbs51 k out = vecLimbs51 (k.sel .D .B .B .D) X := by
  obtain ⟨out, hC, hW, _, hZ⟩ := Prog.norm_sound _ _ _ _ reduced_shuffle_DBBD_norm_ok _ hin
  refine ⟨out, hC, hW, fun k => ?_⟩
  have h := reduced_shuffle_DBBD_correct k ↑x0 ↑x1 ↑x2 ↑x3 ↑x4 ↑x5 ↑x6 ↑x7 ↑x8 ↑x9 ↑x10 ↑x11 ↑x12 ↑x13 ↑x14 ↑x15 ↑x16 ↑x17 ↑x18 ↑x19
  have e : reduced_shuffle_DBBD_fn ↑x0 ↑x1 ↑x2 ↑x3 ↑x4 ↑x5 ↑x6 ↑x7 ↑x8 ↑x9 ↑x10 ↑x11 ↑x12 ↑x13 ↑x14 ↑x15 ↑x16 ↑x17 ↑x18 ↑x19 = toZ out := (reduced_shuffle_DBBD_fn_ok ↑x0 ↑x1 ↑x2 ↑x3 ↑x4 ↑x5 ↑x6 ↑x7 ↑x8 ↑x9 ↑x10 ↑x11 ↑x12 ↑x13 ↑x14 ↑x15 ↑x16 ↑x17 ↑x18 ↑x19).symm.trans hZ
  rw [e] at h
  exact h

/-- `x.shuffle(Shuffle::CACA)`: `(A,B,C,D) ↦ (C,A,C,A)` -/
theorem reduced_shuffle_CACA_spec (hin : EnvIn X IfmaField.pre_reduced_shuffle_CACA) :
    ∃ out, Dalek.Gen.IfmaField.reduced_shuffle_CACA.evalC X = some out ∧ Dalek.Gen.IfmaField.reduced_shuffle_CACA.evalW X = out ∧
      ∀ k : Lane, vecLimbs51 k out = vecLimbs51 (k.sel .C .A .C .A) X := by
  obtain ⟨out, hC, hW, _, hZ⟩ := Prog.norm_sound _ _ _ _ reduced_shuffle_CACA_norm_ok _ hin
  refine ⟨out, hC, hW, fun k => ?_⟩
  have h := reduced_shuffle_CACA_correct k ↑x0 ↑x1 ↑x2 ↑x3 ↑x4 ↑x5 ↑x6 ↑x7 ↑x8 ↑x9 ↑x10 ↑x11 ↑x12 ↑x13 ↑x14 ↑x15 ↑x16 ↑x17 ↑x18 ↑x19
  have e : reduced_shuffle_CACA_fn ↑x0 ↑x1 ↑x2 ↑x3 ↑x4 ↑x5 ↑x6 ↑x7 ↑x8 ↑x9 ↑x10 ↑x11 ↑x12 ↑x13 ↑x14 ↑x15 ↑x16 ↑x17 ↑x18 ↑x19 = toZ out := (reduced_shuffle_CACA_fn_ok ↑x0 ↑x1 ↑x2 ↑x3 ↑x4 ↑x5 ↑x6 ↑x7 ↑x8 ↑x9 ↑x10 ↑x11 ↑x12 ↑x13 ↑x14 ↑x15 ↑x16 ↑x17 ↑x18 ↑x19).symm.trans hZ
  rw [e] at h
  exact h

/-- `x.blend(y, Lanes::D)`: elements D from `y`, the others from `x` -/
theorem reduced_blend_D_spec (hin : EnvIn (X ++ Y) IfmaField.pre_reduced_blend_D) :
    ∃ out, Dalek.Gen.IfmaField.reduced_blend_D.evalC (X ++ Y) = some out ∧ Dalek.Gen.IfmaField.reduced_blend_D.evalW (X ++ Y) = out ∧
      ∀ k : Lane, vecLimbs51 k out = k.sel (vecLimbs51 .A X) (vecLimbs51 .B X) (vecLimbs51 .C X) (vecLimbs51 .D Y) := by
  obtain ⟨out, hC, hW, _, hZ⟩ := Prog.norm_sound _ _ _ _ reduced_blend_D_norm_ok _ hin
  refine ⟨out, hC, hW, fun k => ?_⟩
  have h := reduced_blend_D_correct k ↑x0 ↑x1 ↑x2 ↑x3 ↑x4 ↑x5 ↑x6 ↑x7 ↑x8 ↑x9 ↑x10 ↑x11 ↑x12 ↑x13 ↑x14 ↑x15 ↑x16 ↑x17 ↑x18 ↑x19 ↑y0 ↑y1 ↑y2 ↑y3 ↑y4 ↑y5 ↑y6 ↑y7 ↑y8 ↑y9 ↑y10 ↑y11 ↑y12 ↑y13 ↑y14 ↑y15 ↑y16 ↑y17 ↑y18 ↑y19
  have e : reduced_blend_D_fn ↑x0 ↑x1 ↑x2 ↑x3 ↑x4 ↑x5 ↑x6 ↑x7 ↑x8 ↑x9 ↑x10 ↑x11 ↑x12 ↑x13 ↑x14 ↑x15 ↑x16 ↑x17 ↑x18 ↑x19 ↑y0 ↑y1 ↑y2 ↑y3 ↑y4 ↑y5 ↑y6 ↑y7 ↑y8 ↑y9 ↑y10 ↑y11 ↑y12 ↑y13 ↑y14 ↑y15 ↑y16 ↑y17 ↑y18 ↑y19 = toZ out := (reduced_blend_D_fn_ok ↑x0 ↑x1 ↑x2 ↑x3 ↑x4 ↑x5 ↑x6 ↑x7 ↑x8 ↑x9 ↑x10 ↑x11 ↑x12 ↑x13 ↑x14 ↑x15 ↑x16 ↑x17 ↑x18 ↑x19 ↑y0 ↑y1 ↑y2 ↑y3 ↑y4 ↑y5 ↑y6 ↑y7 ↑y8 ↑y9 ↑y10 ↑y11 ↑y12 ↑y13 ↑y14 ↑y15 ↑y16 ↑y17 ↑y18 ↑y19).symm.trans hZ
  rw [e] at h
  exact h

/-- `x.blend(y, Lanes::C)`: elements C from `y`, the others from `x` -/
theorem reduced_blend_C_spec (hin : EnvIn (X ++ Y) IfmaField.pre_reduced_blend_C) :
    ∃ out, Dalek.Gen.IfmaField.reduced_blend_C.evalC (X ++ Y) = some out ∧ Dalek.Gen.IfmaField.reduced_blend_C.evalW (X ++ Y) = out ∧
      ∀ k : Lane, vecLimbs51 k out = k.sel (vecLimbs51 .A X) (vecLimbs51 .B X) (vecLimbs51 .C Y) (vecLimbs51 .D X) := by
  obtain ⟨out, hC, hW, _, hZ⟩ := Prog.norm_sound _ _ _ _ reduced_blend_C_norm_ok _ hin
  refine ⟨out, hC, hW, fun k => ?_⟩
  have h := reduced_blend_C_correct k ↑x0 ↑x1 ↑x2 ↑x3 ↑x4 ↑x5 ↑x6 ↑x7 ↑x8 ↑x9 ↑x10 ↑x11 ↑x12 ↑x13 ↑x14 ↑x15 ↑x16 ↑x17 ↑x18 ↑x19 ↑y0 ↑y1 ↑y2 ↑y3 ↑y4 ↑y5 ↑y6 ↑y7 ↑y8 ↑y9 ↑y10 ↑y11 ↑y12 ↑y13 ↑y14 ↑y15 ↑y16 ↑y17 ↑y18 ↑y19
  have e : reduced_blend_C_fn ↑x0 ↑x1 ↑x2 ↑x3 ↑x4 ↑x5 ↑x6 ↑x7 ↑x8 ↑x9 ↑x10 ↑x11 ↑x12 ↑x13 ↑x14 ↑x15 ↑x16 ↑x17 ↑x18 ↑x19 ↑y0 ↑y1 ↑y2 ↑y3 ↑y4 ↑y5 ↑y6 ↑y7 ↑y8 ↑y9 ↑y10 ↑y11 ↑y12 ↑y13 ↑y14 ↑y15 ↑y16 ↑y17 ↑y18 ↑y19 = toZ out := (reduced_blend_C_fn_ok ↑x0 ↑x1 ↑x2 ↑x3 ↑x4 ↑x5 ↑x6 ↑x7 ↑x8 ↑x9 ↑x10 ↑x11 ↑x12 ↑x13 ↑x14 ↑x15 ↑x16 ↑x17 ↑x18 ↑x19 ↑y0 ↑y1 ↑y2 ↑y3 ↑y4 ↑y5 ↑y6 ↑y7 ↑y8 ↑y9 ↑y10 ↑y11 ↑y12 ↑y13 ↑y14 ↑y15 ↑y16 ↑y17 ↑y18 ↑y19).symm.trans hZ
  rw [e] at h
  exact h

/-- `x.blend(y, Lanes::AB)`: elements A,B from `y`, the others from `x` -/
theorem reduced_blend_AB_spec (hin : EnvIn (X ++ Y) IfmaField.pre_reduced_blend_AB) :
    ∃ out, Dalek.Gen.IfmaField.reduced_blend_AB.evalC (X ++ Y) = some out ∧ Dalek.Gen.IfmaField.reduced_blend_AB.evalW (X ++ Y) = out ∧
      ∀ k : Lane, vecLimbs51 k out = k.sel (vecLimbs51 .A Y) (vecLimbs51 .B Y) (vecLimbs51 .C X) (vecLimbs51 .D X) := by
  obtain ⟨out, hC, hW, _, hZ⟩ := Prog.norm_sound _ _ _ _ reduced_blend_AB_norm_ok _ hin
  refine ⟨out, hC, hW, fun k => ?_⟩
  have h := reduced_blend_AB_correct k ↑x0 ↑x1 ↑x2 ↑x3 ↑x4 ↑x5 ↑x6 ↑x7 ↑x8 ↑x9 ↑x10 ↑x11 ↑x12 ↑x13 ↑x14 ↑x15 ↑x16 ↑x17 ↑x18 ↑x19 ↑y0 ↑y1 ↑y2 ↑y3 ↑y4 ↑y5 ↑y6 ↑y7 ↑y8 ↑y9 ↑y10 ↑y11 ↑y12 ↑y13 ↑y14 ↑y15 ↑y16 ↑y17 ↑y18 ↑y19
  have e : reduced_blend_AB_fn ↑x0 ↑x1 ↑x2 ↑x3 ↑x4 ↑x5 ↑x6 ↑x7 ↑x8 ↑x9 ↑x10 ↑x11 ↑x12 ↑x13 ↑x14 ↑x15 ↑x16 ↑x17 ↑x18 ↑x19 ↑y0 ↑y1 ↑y2 ↑y3 ↑y4 ↑y5 ↑y6 ↑y7 ↑y8 ↑y9 ↑y10 ↑y11 ↑y12 ↑y13 ↑y14 ↑y15 ↑y16 ↑y17 ↑y18 ↑y19 = toZ out := (reduced_blend_AB_fn_ok ↑x0 ↑x1 ↑x2 ↑x3 ↑x4 ↑x5 ↑x6 ↑x7 ↑x8 ↑x9 ↑x10 ↑x11 ↑x12 ↑x13 ↑x14 ↑x15 ↑x16 ↑x17 ↑x18 ↑x19 ↑y0 ↑y1 ↑y2 ↑y3 ↑y4 ↑y5 ↑y6 ↑y7 ↑y8 ↑y9 ↑y10 ↑y11 ↑y12 ↑y13 ↑y14 ↑y15 ↑y16 ↑y17 ↑y18 ↑y19).symm.trans hZ
  rw [e] at h
  exact h

/-- `x.blend(y, Lanes::AC)`: elements A,C from `y`, the others from `x` -/
theorem reduced_blend_AC_spec (hin : EnvIn (X ++ Y) IfmaField.pre_reduced_blend_AC) :
    ∃ out, Dalek.Gen.IfmaField.reduced_blend_AC.evalC (X ++ Y) = some out ∧ Dalek.Gen.IfmaField.reduced_blend_AC.evalW (X ++ Y) = out ∧
      ∀ k : Lane, vecLimbs51 k out = k.sel (vecLimbs51 .A Y) (vecLimbs51 .B X) (vecLimbs51 .C Y) (vecLimbs51 .D X) := by
  obtain ⟨out, hC, hW, _, hZ⟩ := Prog.norm_sound _ _ _ _ reduced_blend_AC_norm_ok _ hin
  refine ⟨out, hC, hW, fun k => ?_⟩
  have h := reduced_blend_AC_correct k ↑x0 ↑x1 ↑x2 ↑x3 ↑x4 ↑x5 ↑x6 ↑x7 ↑x8 ↑x9 ↑x10 ↑x11 ↑x12 ↑x13 ↑x14 ↑x15 ↑x16 ↑x17 ↑x18 ↑x19 ↑y0 ↑y1 ↑y2 ↑y3 ↑y4 ↑y5 ↑y6 ↑y7 ↑y8 ↑y9 ↑y10 ↑y11 ↑y12 ↑y13 ↑y14 ↑y15 ↑y16 ↑y17 ↑y18 ↑y19
  have e : reduced_blend_AC_fn ↑x0 ↑x1 ↑x2 ↑x3 ↑x4 ↑x5 ↑x6 ↑x7 ↑x8 ↑x9 ↑x10 ↑x11 ↑x12 ↑x13 ↑x14 ↑x15 ↑x16 ↑x17 ↑x18 ↑x19 ↑y0 ↑y1 ↑y2 ↑y3 ↑y4 ↑y5 ↑y6 ↑y7 ↑y8 ↑y9 ↑y10 ↑y11 ↑y12 ↑y13 ↑y14 ↑y15 ↑y16 ↑y17 ↑y18 ↑y19 = toZ out := (reduced_blend_AC_fn_ok ↑x0 ↑x1 ↑x2 ↑x3 ↑x4 ↑x5 ↑x6 ↑x7 ↑x8 ↑x9 ↑x10 ↑x11 ↑x12 ↑x13 ↑x14 ↑x15 ↑x16 ↑x17 ↑x18 ↑x19 ↑y0 ↑y1 ↑y2 ↑y3 ↑y4 ↑y5 ↑y6 ↑y7 ↑y8 ↑y9 ↑y10 ↑y11 ↑y12 ↑y13 ↑y14 ↑y15 ↑y16 ↑y17 ↑y18 ↑y19).symm.trans hZ
  rw [e] at h
  exact h

/-- `x.blend(y, Lanes::AD)`: elements A,D from `y`, the others from `x` -/
theorem reduced_blend_AD_spec (hin : EnvIn (X ++ Y) IfmaField.pre_reduced_blend_AD) :
    ∃ out, Dalek.Gen.IfmaField.reduced_blend_AD.evalC (X ++ Y) = some out ∧ Dalek.Gen.IfmaField.reduced_blend_AD.evalW (X ++ Y) = out ∧
      ∀ k : Lane, vecLimbs51 k out = k.sel (vecLimbs51 .A Y) (vecLimbs51 .B X) (vecLimbs51 .C X) (vecLimbs51 .D Y) := by
  obtain ⟨out, hC, hW, _, hZ⟩ := Prog.norm_sound _ _ _ _ reduced_blend_AD_norm_ok _ hin
  refine ⟨out, hC, hW, fun k => ?_⟩
  have h := reduced_blend_AD_correct k ↑x0 ↑x1 ↑x2 ↑x3 ↑x4 ↑x5 ↑x6 ↑x7 ↑x8 ↑x9 ↑x10 ↑x11 ↑x12 ↑x13 ↑x14 ↑x15 ↑x16 ↑x17 ↑x18 ↑x19 ↑y0 ↑y1 ↑y2 ↑y3 ↑y4 ↑y5 ↑y6 ↑y7 ↑y8 ↑y9 ↑y10 ↑y11 ↑y12 ↑y13 ↑y14 ↑y15 ↑y16 ↑y17 ↑y18 ↑y19
  have e : reduced_blend_AD_fn ↑x0 ↑x1 ↑x2 ↑x3 ↑x4 ↑x5 ↑x6 ↑x7 ↑x8 ↑x9 ↑x10 ↑x11 ↑x12 ↑x13 ↑x14 ↑x15 ↑x16 ↑x17 ↑x18 ↑x19 ↑y0 ↑y1 ↑y2 ↑y3 ↑y4 ↑y5 ↑y6 ↑y7 ↑y8 ↑y9 ↑y10 ↑y11 ↑y12 ↑y13 ↑y14 ↑y15 ↑y16 ↑y17 ↑y18 ↑y19 = toZ out := (reduced_blend_AD_fn_ok ↑x0 ↑x1 ↑x2 ↑x3 ↑x4 ↑x5 ↑x6 ↑x7 ↑x8 ↑x9 ↑x10 ↑x11 ↑x12 ↑x13 ↑x14 ↑x15 ↑x16 ↑x17 ↑x18 ↑x19 ↑y0 ↑y1 ↑y2 ↑y3 ↑y4 ↑y5 ↑y6 ↑y7 ↑y8 ↑y9 ↑y10 ↑y11 ↑y12 ↑y13 ↑y14 ↑y15 ↑y16 ↑y17 ↑y18 ↑y19).symm.trans hZ
  rw [e] at h
  exact h

/-- `x.blend(y, Lanes::BCD)`: elements B,C,D from `y`, the others from `x` -/
theorem reduced_blend_BCD_spec (hin : EnvIn (X ++ Y) IfmaField.pre_reduced_blend_BCD) :
    ∃ out, Dalek.Gen.IfmaField.reduced_blend_BCD.evalC (X ++ Y) = some out ∧ Dalek.Gen.IfmaField.reduced_blend_BCD.evalW (X ++ Y) = out ∧
      ∀ k : Lane, vecLimbs51 k out = k.sel (vecLimbs51 .A X) (vecLimbs51 .B Y) (vecLimbs51 .C Y) (vecLimbs51 .D Y) := by
  obtain ⟨out, hC, hW, _, hZ⟩ := Prog.norm_sound _ _ _ _ reduced_blend_BCD_norm_ok _ hin
  refine ⟨out, hC, hW, fun k => ?_⟩
  have h := reduced_blend_BCD_correct k ↑x0 ↑x1 ↑x2 ↑x3 ↑x4 ↑x5 ↑x6 ↑x7 ↑x8 ↑x9 ↑x10 ↑x11 ↑x12 ↑x13 ↑x14 ↑x15 ↑x16 ↑x17 ↑x18 ↑x19 ↑y0 ↑y1 ↑y2 ↑y3 ↑y4 ↑y5 ↑y6 ↑y7 ↑y8 ↑y9 ↑y10 ↑y11 ↑y12 ↑y13 ↑y14 ↑y15 ↑y16 ↑y17 ↑y18 ↑y19
  have e : reduced_blend_BCD_fn ↑x0 ↑x1 ↑x2 ↑x3 ↑x4 ↑x5 ↑x6 ↑x7 ↑x8 ↑x9 ↑x10 ↑x11 ↑x12 ↑x13 ↑x14 ↑x15 ↑x16 ↑x17 ↑x18 ↑x19 ↑y0 ↑y1 ↑y2 ↑y3 ↑y4 ↑y5 ↑y6 ↑y7 ↑y8 ↑y9 ↑y10 ↑y11 ↑y12 ↑y13 ↑y14 ↑y15 ↑y16 ↑y17 ↑y18 ↑y19 = toZ out := (reduced_blend_BCD_fn_ok ↑x0 ↑x1 ↑x2 ↑x3 ↑x4 ↑x5 ↑x6 ↑x7 ↑x8 ↑x9 ↑x10 ↑x11 ↑x12 ↑x13 ↑x14 ↑x15 ↑x16 ↑x17 ↑x18 ↑x19 ↑y0 ↑y1 ↑y2 ↑y3 ↑y4 ↑y5 ↑y6 ↑y7 ↑y8 ↑y9 ↑y10 ↑y11 ↑y12 ↑y13 ↑y14 ↑y15 ↑y16 ↑y17 ↑y18 ↑y19).symm.trans hZ
  rw [e] at h
  exact h

end

/-- `F51x4Unreduced::new(a, b, c, d)`: element `k` of the result has the value of the `k`-th argument (any limbs) -/
theorem new_spec (a0 a1 a2 a3 a4 b0 b1 b2 b3 b4 c0 c1 c2 c3 c4 d0 d1 d2 d3 d4 : Nat)
    (hin : EnvIn (a0 :: a1 :: a2 :: a3 :: a4 :: b0 :: b1 :: b2 :: b3 :: b4 :: c0 :: c1 :: c2 :: c3 :: c4 :: d0 :: d1 :: d2 :: d3 :: d4 :: []) IfmaField.pre_new) :
    ∃ out, Dalek.Gen.IfmaField.new.evalC (a0 :: a1 :: a2 :: a3 :: a4 :: b0 :: b1 :: b2 :: b3 :: b4 :: c0 :: c1 :: c2 :: c3 :: c4 :: d0 :: d1 :: d2 :: d3 :: d4 :: []) = some out ∧
      Dalek.Gen.IfmaField.new.evalW (a0 :: a1 :: a2 :: a3 :: a4 :: b0 :: b1 :: b2 :: b3 :: b4 :: c0 :: c1 :: c2 :: c3 :: c4 :: d0 :: d1 :: d2 :: d3 :: d4 :: []) = out ∧
      ∀ k : Lane, vecVal51 k out = elemVal k (a0 :: a1 :: a2 :: a3 :: a4 :: b0 :: b1 :: b2 :: b3 :: b4 :: c0 :: c1 :: c2 :: c3 :: c4 :: d0 :: d1 :: d2 :: d3 :: d4 :: []) := by
  obtain ⟨out, hC, hW, _, hZ⟩ := Prog.norm_sound _ _ _ _ new_norm_ok _ hin
  refine ⟨out, hC, hW, fun k => ?_⟩
  have h := new_correct k ↑a0 ↑a1 ↑a2 ↑a3 ↑a4 ↑b0 ↑b1 ↑b2 ↑b3 ↑b4 ↑c0 ↑c1 ↑c2 ↑c3 ↑c4 ↑d0 ↑d1 ↑d2 ↑d3 ↑d4
  have e : new_fn ↑a0 ↑a1 ↑a2 ↑a3 ↑a4 ↑b0 ↑b1 ↑b2 ↑b3 ↑b4 ↑c0 ↑c1 ↑c2 ↑c3 ↑c4 ↑d0 ↑d1 ↑d2 ↑d3 ↑d4 = toZ out := (new_fn_ok ↑a0 ↑a1 ↑a2 ↑a3 ↑a4 ↑b0 ↑b1 ↑b2 ↑b3 ↑b4 ↑c0 ↑c1 ↑c2 ↑c3 ↑c4 ↑d0 ↑d1 ↑d2 ↑d3 ↑d4).symm.trans hZ
  rw [e] at h
  exact h

/-- the value of an element is a function of its five limbs: the shuffle / blend statements transfer to values -/
theorem vecVal51_congr {k k' : Lane} {v w : List Nat} (h : vecLimbs51 k v = vecLimbs51 k' w) :
    vecVal51 k v = vecVal51 k' w := by
  rw [vecVal51_eq_limbs, vecVal51_eq_limbs, h]

/-! Non-vacuity: the all-lanes-at-the-bound inputs satisfy the contracts. -/
example : EnvIn (IfmaField.pre_new.map (·.hi)) IfmaField.pre_new := by decide +kernel
example : EnvIn (IfmaField.pre_split.map (·.hi)) IfmaField.pre_split := by decide +kernel
example : EnvIn (IfmaField.pre_negate_lazy.map (·.hi)) IfmaField.pre_negate_lazy := by decide +kernel
example : EnvIn (IfmaField.pre_diff_sum.map (·.hi)) IfmaField.pre_diff_sum := by decide +kernel
example : EnvIn (IfmaField.pre_reduce.map (·.hi)) IfmaField.pre_reduce := by decide +kernel
example : EnvIn (IfmaField.pre_unreduce.map (·.hi)) IfmaField.pre_unreduce := by decide +kernel
example : EnvIn (IfmaField.pre_neg.map (·.hi)) IfmaField.pre_neg := by decide +kernel
example : EnvIn (IfmaField.pre_add.map (·.hi)) IfmaField.pre_add := by decide +kernel
example : EnvIn (IfmaField.pre_mul_consts.map (·.hi)) IfmaField.pre_mul_consts := by decide +kernel
example : EnvIn (IfmaField.pre_square.map (·.hi)) IfmaField.pre_square := by decide +kernel
example : EnvIn (IfmaField.pre_mul.map (·.hi)) IfmaField.pre_mul := by decide +kernel
example : EnvIn (IfmaField.pre_conditional_select.map (·.hi)) IfmaField.pre_conditional_select := by decide +kernel
example : EnvIn (IfmaField.pre_conditional_assign.map (·.hi)) IfmaField.pre_conditional_assign := by decide +kernel
example : EnvIn (IfmaField.pre_shuffle_BADC.map (·.hi)) IfmaField.pre_shuffle_BADC := by decide +kernel
example : EnvIn (IfmaField.pre_blend_AB.map (·.hi)) IfmaField.pre_blend_AB := by decide +kernel

end Dalek.Props.C01.Ifma

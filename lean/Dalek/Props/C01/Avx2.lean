import Dalek.IR.LimbSound
import Dalek.Proofs.Avx2Field
/-!
# C01 — the AVX2 vector field backend computes exact arithmetic modulo 2^255-19, lane by lane

Statements are about `Dalek.Gen.Avx2Field.*`: the LimbIR programs REGENERATED on every run from
`curve25519-dalek/src/backend/vector/avx2/field.rs` by lane scalarisation.  A `FieldElement2625x4 = [u32x8; 5]` is a
list of 40 u32 lanes (lane `8 i + j` = lane `j` of vector `i`), holding four field elements A, B, C, D in radix
2^25.5: vector `i` is `(a_{2i}, b_{2i}, a_{2i+1}, b_{2i+1}, c_{2i}, d_{2i}, c_{2i+1}, d_{2i+1})`.
`vecVal k v : ZMod (2^255-19)` is the value of element `k ∈ {A,B,C,D}` of `v` (`Σ_m 2^⌈25.5 m⌉ · limb_m`),
`vecLimbs k v` its ten limbs, `elemVal k l` the value of the `k`-th of four `FieldElement51`, `wideVal k z` the value
of element `k` of ten u64x4 coefficient vectors.

Every theorem: for ALL inputs inside the bound contract `Dalek.Model.Contracts.Avx2Field.pre_<k>` (the documented
pre-condition), the lane-checked semantics `evalC` does not fail (no u32/u64 lane wraps), the wrapping semantics `evalW`
(what the SIMD instructions compute) returns the same lanes, these satisfy the DOCUMENTED output bound, and their
lane values in `ZMod p` are the field operation applied to the lane values of the inputs.
-/
set_option maxRecDepth 100000
namespace Dalek.Props.C01.Avx2
open Dalek.IR Dalek.Proofs.Avx2Field Dalek.Proofs.Field26 Dalek.Gen.Norm.Avx2Field Dalek.Model.Contracts

section
variable (x0 x1 x2 x3 x4 x5 x6 x7 x8 x9 x10 x11 x12 x13 x14 x15 x16 x17 x18 x19 x20 x21 x22 x23 x24 x25 x26 x27 x28 x29 x30 x31 x32 x33 x34 x35 x36 x37 x38 x39 y0 y1 y2 y3 y4 y5 y6 y7 y8 y9 y10 y11 y12 y13 y14 y15 y16 y17 y18 y19 y20 y21 y22 y23 y24 y25 y26 y27 y28 y29 y30 y31 y32 y33 y34 y35 y36 y37 y38 y39 : Nat)
/-- the vector `x` (40 lanes) -/
local notation "X" => (x0 :: x1 :: x2 :: x3 :: x4 :: x5 :: x6 :: x7 :: x8 :: x9 :: x10 :: x11 :: x12 :: x13 :: x14 :: x15 :: x16 :: x17 :: x18 :: x19 :: x20 :: x21 :: x22 :: x23 :: x24 :: x25 :: x26 :: x27 :: x28 :: x29 :: x30 :: x31 :: x32 :: x33 :: x34 :: x35 :: x36 :: x37 :: x38 :: x39 :: [])
/-- the vector `y` (40 lanes) -/
local notation "Y" => (y0 :: y1 :: y2 :: y3 :: y4 :: y5 :: y6 :: y7 :: y8 :: y9 :: y10 :: y11 :: y12 :: y13 :: y14 :: y15 :: y16 :: y17 :: y18 :: y19 :: y20 :: y21 :: y22 :: y23 :: y24 :: y25 :: y26 :: y27 :: y28 :: y29 :: y30 :: y31 :: y32 :: y33 :: y34 :: y35 :: y36 :: y37 :: y38 :: y39 :: [])

/-- `&x * &y`: first operand bounded with `b < 2.5`, second with `b < 1.75` (documented) ↦ `b < 0.007`, element-wise product -/
theorem mul_spec (hin : EnvIn (X ++ Y) Avx2Field.pre_mul) :
    ∃ out, Dalek.Gen.Avx2Field.mul.evalC (X ++ Y) = some out ∧ Dalek.Gen.Avx2Field.mul.evalW (X ++ Y) = out ∧
      EnvIn out b007 ∧
      ∀ k : Lane, vecVal k out = vecVal k X * vecVal k Y := by
  obtain ⟨out, hC, hW, hpost, hZ⟩ := Prog.norm_sound _ _ _ _ mul_norm_ok _ hin
  refine ⟨out, hC, hW, EnvIn_of_itvsLe hpost (by decide +kernel), fun k => ?_⟩
  have h := mul_correct k ↑x0 ↑x1 ↑x2 ↑x3 ↑x4 ↑x5 ↑x6 ↑x7 ↑x8 ↑x9 ↑x10 ↑x11 ↑x12 ↑x13 ↑x14 ↑x15 ↑x16 ↑x17 ↑x18 ↑x19 ↑x20 ↑x21 ↑x22 ↑x23 ↑x24 ↑x25 ↑x26 ↑x27 ↑x28 ↑x29 ↑x30 ↑x31 ↑x32 ↑x33 ↑x34 ↑x35 ↑x36 ↑x37 ↑x38 ↑x39 ↑y0 ↑y1 ↑y2 ↑y3 ↑y4 ↑y5 ↑y6 ↑y7 ↑y8 ↑y9 ↑y10 ↑y11 ↑y12 ↑y13 ↑y14 ↑y15 ↑y16 ↑y17 ↑y18 ↑y19 ↑y20 ↑y21 ↑y22 ↑y23 ↑y24 ↑y25 ↑y26 ↑y27 ↑y28 ↑y29 ↑y30 ↑y31 ↑y32 ↑y33 ↑y34 ↑y35 ↑y36 ↑y37 ↑y38 ↑y39
  have e : mul_fn ↑x0 ↑x1 ↑x2 ↑x3 ↑x4 ↑x5 ↑x6 ↑x7 ↑x8 ↑x9 ↑x10 ↑x11 ↑x12 ↑x13 ↑x14 ↑x15 ↑x16 ↑x17 ↑x18 ↑x19 ↑x20 ↑x21 ↑x22 ↑x23 ↑x24 ↑x25 ↑x26 ↑x27 ↑x28 ↑x29 ↑x30 ↑x31 ↑x32 ↑x33 ↑x34 ↑x35 ↑x36 ↑x37 ↑x38 ↑x39 ↑y0 ↑y1 ↑y2 ↑y3 ↑y4 ↑y5 ↑y6 ↑y7 ↑y8 ↑y9 ↑y10 ↑y11 ↑y12 ↑y13 ↑y14 ↑y15 ↑y16 ↑y17 ↑y18 ↑y19 ↑y20 ↑y21 ↑y22 ↑y23 ↑y24 ↑y25 ↑y26 ↑y27 ↑y28 ↑y29 ↑y30 ↑y31 ↑y32 ↑y33 ↑y34 ↑y35 ↑y36 ↑y37 ↑y38 ↑y39 = toZ out := (mul_fn_ok ↑x0 ↑x1 ↑x2 ↑x3 ↑x4 ↑x5 ↑x6 ↑x7 ↑x8 ↑x9 ↑x10 ↑x11 ↑x12 ↑x13 ↑x14 ↑x15 ↑x16 ↑x17 ↑x18 ↑x19 ↑x20 ↑x21 ↑x22 ↑x23 ↑x24 ↑x25 ↑x26 ↑x27 ↑x28 ↑x29 ↑x30 ↑x31 ↑x32 ↑x33 ↑x34 ↑x35 ↑x36 ↑x37 ↑x38 ↑x39 ↑y0 ↑y1 ↑y2 ↑y3 ↑y4 ↑y5 ↑y6 ↑y7 ↑y8 ↑y9 ↑y10 ↑y11 ↑y12 ↑y13 ↑y14 ↑y15 ↑y16 ↑y17 ↑y18 ↑y19 ↑y20 ↑y21 ↑y22 ↑y23 ↑y24 ↑y25 ↑y26 ↑y27 ↑y28 ↑y29 ↑y30 ↑y31 ↑y32 ↑y33 ↑y34 ↑y35 ↑y36 ↑y37 ↑y38 ↑y39).symm.trans hZ
  rw [e] at h
  exact h

/-- `x.square_and_negate_D()`: `b < 1.5` ↦ `b < 0.007`, `(A,B,C,D) ↦ (A², B², C², −D²)` -/
theorem square_and_negate_D_spec (hin : EnvIn X Avx2Field.pre_square_and_negate_D) :
    ∃ out, Dalek.Gen.Avx2Field.square_and_negate_D.evalC X = some out ∧ Dalek.Gen.Avx2Field.square_and_negate_D.evalW X = out ∧
      EnvIn out b007 ∧
      ∀ k : Lane, vecVal k out = k.sel (vecVal .A X ^ 2) (vecVal .B X ^ 2) (vecVal .C X ^ 2) (- vecVal .D X ^ 2) := by
  obtain ⟨out, hC, hW, hpost, hZ⟩ := Prog.norm_sound _ _ _ _ square_and_negate_D_norm_ok _ hin
  refine ⟨out, hC, hW, EnvIn_of_itvsLe hpost (by decide +kernel), fun k => ?_⟩
  have h := square_and_negate_D_correct k ↑x0 ↑x1 ↑x2 ↑x3 ↑x4 ↑x5 ↑x6 ↑x7 ↑x8 ↑x9 ↑x10 ↑x11 ↑x12 ↑x13 ↑x14 ↑x15 ↑x16 ↑x17 ↑x18 ↑x19 ↑x20 ↑x21 ↑x22 ↑x23 ↑x24 ↑x25 ↑x26 ↑x27 ↑x28 ↑x29 ↑x30 ↑x31 ↑x32 ↑x33 ↑x34 ↑x35 ↑x36 ↑x37 ↑x38 ↑x39
  have e : square_and_negate_D_fn ↑x0 ↑x1 ↑x2 ↑x3 ↑x4 ↑x5 ↑x6 ↑x7 ↑x8 ↑x9 ↑x10 ↑x11 ↑x12 ↑x13 ↑x14 ↑x15 ↑x16 ↑x17 ↑x18 ↑x19 ↑x20 ↑x21 ↑x22 ↑x23 ↑x24 ↑x25 ↑x26 ↑x27 ↑x28 ↑x29 ↑x30 ↑x31 ↑x32 ↑x33 ↑x34 ↑x35 ↑x36 ↑x37 ↑x38 ↑x39 = toZ out := (square_and_negate_D_fn_ok ↑x0 ↑x1 ↑x2 ↑x3 ↑x4 ↑x5 ↑x6 ↑x7 ↑x8 ↑x9 ↑x10 ↑x11 ↑x12 ↑x13 ↑x14 ↑x15 ↑x16 ↑x17 ↑x18 ↑x19 ↑x20 ↑x21 ↑x22 ↑x23 ↑x24 ↑x25 ↑x26 ↑x27 ↑x28 ↑x29 ↑x30 ↑x31 ↑x32 ↑x33 ↑x34 ↑x35 ↑x36 ↑x37 ↑x38 ↑x39).symm.trans hZ
  rw [e] at h
  exact h

/-- `x + y` (no reduction): lanes of both operands `< 2^31` ↦ element-wise sum -/
theorem add_spec (hin : EnvIn (X ++ Y) Avx2Field.pre_add) :
    ∃ out, Dalek.Gen.Avx2Field.add.evalC (X ++ Y) = some out ∧ Dalek.Gen.Avx2Field.add.evalW (X ++ Y) = out ∧
      EnvIn out Avx2Field.anyU32 ∧
      ∀ k : Lane, vecVal k out = vecVal k X + vecVal k Y := by
  obtain ⟨out, hC, hW, hpost, hZ⟩ := Prog.norm_sound _ _ _ _ add_norm_ok _ hin
  refine ⟨out, hC, hW, EnvIn_of_itvsLe hpost (by decide +kernel), fun k => ?_⟩
  have h := add_correct k ↑x0 ↑x1 ↑x2 ↑x3 ↑x4 ↑x5 ↑x6 ↑x7 ↑x8 ↑x9 ↑x10 ↑x11 ↑x12 ↑x13 ↑x14 ↑x15 ↑x16 ↑x17 ↑x18 ↑x19 ↑x20 ↑x21 ↑x22 ↑x23 ↑x24 ↑x25 ↑x26 ↑x27 ↑x28 ↑x29 ↑x30 ↑x31 ↑x32 ↑x33 ↑x34 ↑x35 ↑x36 ↑x37 ↑x38 ↑x39 ↑y0 ↑y1 ↑y2 ↑y3 ↑y4 ↑y5 ↑y6 ↑y7 ↑y8 ↑y9 ↑y10 ↑y11 ↑y12 ↑y13 ↑y14 ↑y15 ↑y16 ↑y17 ↑y18 ↑y19 ↑y20 ↑y21 ↑y22 ↑y23 ↑y24 ↑y25 ↑y26 ↑y27 ↑y28 ↑y29 ↑y30 ↑y31 ↑y32 ↑y33 ↑y34 ↑y35 ↑y36 ↑y37 ↑y38 ↑y39
  have e : add_fn ↑x0 ↑x1 ↑x2 ↑x3 ↑x4 ↑x5 ↑x6 ↑x7 ↑x8 ↑x9 ↑x10 ↑x11 ↑x12 ↑x13 ↑x14 ↑x15 ↑x16 ↑x17 ↑x18 ↑x19 ↑x20 ↑x21 ↑x22 ↑x23 ↑x24 ↑x25 ↑x26 ↑x27 ↑x28 ↑x29 ↑x30 ↑x31 ↑x32 ↑x33 ↑x34 ↑x35 ↑x36 ↑x37 ↑x38 ↑x39 ↑y0 ↑y1 ↑y2 ↑y3 ↑y4 ↑y5 ↑y6 ↑y7 ↑y8 ↑y9 ↑y10 ↑y11 ↑y12 ↑y13 ↑y14 ↑y15 ↑y16 ↑y17 ↑y18 ↑y19 ↑y20 ↑y21 ↑y22 ↑y23 ↑y24 ↑y25 ↑y26 ↑y27 ↑y28 ↑y29 ↑y30 ↑y31 ↑y32 ↑y33 ↑y34 ↑y35 ↑y36 ↑y37 ↑y38 ↑y39 = toZ out := (add_fn_ok ↑x0 ↑x1 ↑x2 ↑x3 ↑x4 ↑x5 ↑x6 ↑x7 ↑x8 ↑x9 ↑x10 ↑x11 ↑x12 ↑x13 ↑x14 ↑x15 ↑x16 ↑x17 ↑x18 ↑x19 ↑x20 ↑x21 ↑x22 ↑x23 ↑x24 ↑x25 ↑x26 ↑x27 ↑x28 ↑x29 ↑x30 ↑x31 ↑x32 ↑x33 ↑x34 ↑x35 ↑x36 ↑x37 ↑x38 ↑x39 ↑y0 ↑y1 ↑y2 ↑y3 ↑y4 ↑y5 ↑y6 ↑y7 ↑y8 ↑y9 ↑y10 ↑y11 ↑y12 ↑y13 ↑y14 ↑y15 ↑y16 ↑y17 ↑y18 ↑y19 ↑y20 ↑y21 ↑y22 ↑y23 ↑y24 ↑y25 ↑y26 ↑y27 ↑y28 ↑y29 ↑y30 ↑y31 ↑y32 ↑y33 ↑y34 ↑y35 ↑y36 ↑y37 ↑y38 ↑y39).symm.trans hZ
  rw [e] at h
  exact h

/-- `x.negate_lazy()` (`2p − x`): `b < 0.999` ↦ `b < 1`, element-wise negation -/
theorem negate_lazy_spec (hin : EnvIn X Avx2Field.pre_negate_lazy) :
    ∃ out, Dalek.Gen.Avx2Field.negate_lazy.evalC X = some out ∧ Dalek.Gen.Avx2Field.negate_lazy.evalW X = out ∧
      EnvIn out b1 ∧
      ∀ k : Lane, vecVal k out = - vecVal k X := by
  obtain ⟨out, hC, hW, hpost, hZ⟩ := Prog.norm_sound _ _ _ _ negate_lazy_norm_ok _ hin
  refine ⟨out, hC, hW, EnvIn_of_itvsLe hpost (by decide +kernel), fun k => ?_⟩
  have h := negate_lazy_correct k ↑x0 ↑x1 ↑x2 ↑x3 ↑x4 ↑x5 ↑x6 ↑x7 ↑x8 ↑x9 ↑x10 ↑x11 ↑x12 ↑x13 ↑x14 ↑x15 ↑x16 ↑x17 ↑x18 ↑x19 ↑x20 ↑x21 ↑x22 ↑x23 ↑x24 ↑x25 ↑x26 ↑x27 ↑x28 ↑x29 ↑x30 ↑x31 ↑x32 ↑x33 ↑x34 ↑x35 ↑x36 ↑x37 ↑x38 ↑x39
  have e : negate_lazy_fn ↑x0 ↑x1 ↑x2 ↑x3 ↑x4 ↑x5 ↑x6 ↑x7 ↑x8 ↑x9 ↑x10 ↑x11 ↑x12 ↑x13 ↑x14 ↑x15 ↑x16 ↑x17 ↑x18 ↑x19 ↑x20 ↑x21 ↑x22 ↑x23 ↑x24 ↑x25 ↑x26 ↑x27 ↑x28 ↑x29 ↑x30 ↑x31 ↑x32 ↑x33 ↑x34 ↑x35 ↑x36 ↑x37 ↑x38 ↑x39 = toZ out := (negate_lazy_fn_ok ↑x0 ↑x1 ↑x2 ↑x3 ↑x4 ↑x5 ↑x6 ↑x7 ↑x8 ↑x9 ↑x10 ↑x11 ↑x12 ↑x13 ↑x14 ↑x15 ↑x16 ↑x17 ↑x18 ↑x19 ↑x20 ↑x21 ↑x22 ↑x23 ↑x24 ↑x25 ↑x26 ↑x27 ↑x28 ↑x29 ↑x30 ↑x31 ↑x32 ↑x33 ↑x34 ↑x35 ↑x36 ↑x37 ↑x38 ↑x39).symm.trans hZ
  rw [e] at h
  exact h

/-- `x.diff_sum()`: `b < 0.01` ↦ `b < 1.6`, `(A,B,C,D) ↦ (B − A, B + A, D − C, D + C)` -/
theorem diff_sum_spec (hin : EnvIn X Avx2Field.pre_diff_sum) :
    ∃ out, Dalek.Gen.Avx2Field.diff_sum.evalC X = some out ∧ Dalek.Gen.Avx2Field.diff_sum.evalW X = out ∧
      EnvIn out b16 ∧
      ∀ k : Lane, vecVal k out = k.sel (vecVal .B X - vecVal .A X) (vecVal .B X + vecVal .A X) (vecVal .D X - vecVal .C X) (vecVal .D X + vecVal .C X) := by
  obtain ⟨out, hC, hW, hpost, hZ⟩ := Prog.norm_sound _ _ _ _ diff_sum_norm_ok _ hin
  refine ⟨out, hC, hW, EnvIn_of_itvsLe hpost (by decide +kernel), fun k => ?_⟩
  have h := diff_sum_correct k ↑x0 ↑x1 ↑x2 ↑x3 ↑x4 ↑x5 ↑x6 ↑x7 ↑x8 ↑x9 ↑x10 ↑x11 ↑x12 ↑x13 ↑x14 ↑x15 ↑x16 ↑x17 ↑x18 ↑x19 ↑x20 ↑x21 ↑x22 ↑x23 ↑x24 ↑x25 ↑x26 ↑x27 ↑x28 ↑x29 ↑x30 ↑x31 ↑x32 ↑x33 ↑x34 ↑x35 ↑x36 ↑x37 ↑x38 ↑x39
  have e : diff_sum_fn ↑x0 ↑x1 ↑x2 ↑x3 ↑x4 ↑x5 ↑x6 ↑x7 ↑x8 ↑x9 ↑x10 ↑x11 ↑x12 ↑x13 ↑x14 ↑x15 ↑x16 ↑x17 ↑x18 ↑x19 ↑x20 ↑x21 ↑x22 ↑x23 ↑x24 ↑x25 ↑x26 ↑x27 ↑x28 ↑x29 ↑x30 ↑x31 ↑x32 ↑x33 ↑x34 ↑x35 ↑x36 ↑x37 ↑x38 ↑x39 = toZ out := (diff_sum_fn_ok ↑x0 ↑x1 ↑x2 ↑x3 ↑x4 ↑x5 ↑x6 ↑x7 ↑x8 ↑x9 ↑x10 ↑x11 ↑x12 ↑x13 ↑x14 ↑x15 ↑x16 ↑x17 ↑x18 ↑x19 ↑x20 ↑x21 ↑x22 ↑x23 ↑x24 ↑x25 ↑x26 ↑x27 ↑x28 ↑x29 ↑x30 ↑x31 ↑x32 ↑x33 ↑x34 ↑x35 ↑x36 ↑x37 ↑x38 ↑x39).symm.trans hZ
  rw [e] at h
  exact h

/-- `x.reduce()`: ANY forty u32 lanes ↦ `b < 0.0002`, same four values -/
theorem reduce_spec (hin : EnvIn X Avx2Field.pre_reduce) :
    ∃ out, Dalek.Gen.Avx2Field.reduce.evalC X = some out ∧ Dalek.Gen.Avx2Field.reduce.evalW X = out ∧
      EnvIn out b0002 ∧
      ∀ k : Lane, vecVal k out = vecVal k X := by
  obtain ⟨out, hC, hW, hpost, hZ⟩ := Prog.norm_sound _ _ _ _ reduce_norm_ok _ hin
  refine ⟨out, hC, hW, EnvIn_of_itvsLe hpost (by decide +kernel), fun k => ?_⟩
  have hb := bounded_of_envIn hin
  rw [show Avx2Field.pre_reduce.map (·.hi) = List.replicate 40 4294967295 by decide +kernel] at hb
  have h := reduce_correct k ↑x0 ↑x1 ↑x2 ↑x3 ↑x4 ↑x5 ↑x6 ↑x7 ↑x8 ↑x9 ↑x10 ↑x11 ↑x12 ↑x13 ↑x14 ↑x15 ↑x16 ↑x17 ↑x18 ↑x19 ↑x20 ↑x21 ↑x22 ↑x23 ↑x24 ↑x25 ↑x26 ↑x27 ↑x28 ↑x29 ↑x30 ↑x31 ↑x32 ↑x33 ↑x34 ↑x35 ↑x36 ↑x37 ↑x38 ↑x39 hb
  have e : reduce_fn ↑x0 ↑x1 ↑x2 ↑x3 ↑x4 ↑x5 ↑x6 ↑x7 ↑x8 ↑x9 ↑x10 ↑x11 ↑x12 ↑x13 ↑x14 ↑x15 ↑x16 ↑x17 ↑x18 ↑x19 ↑x20 ↑x21 ↑x22 ↑x23 ↑x24 ↑x25 ↑x26 ↑x27 ↑x28 ↑x29 ↑x30 ↑x31 ↑x32 ↑x33 ↑x34 ↑x35 ↑x36 ↑x37 ↑x38 ↑x39 = toZ out := (reduce_fn_ok ↑x0 ↑x1 ↑x2 ↑x3 ↑x4 ↑x5 ↑x6 ↑x7 ↑x8 ↑x9 ↑x10 ↑x11 ↑x12 ↑x13 ↑x14 ↑x15 ↑x16 ↑x17 ↑x18 ↑x19 ↑x20 ↑x21 ↑x22 ↑x23 ↑x24 ↑x25 ↑x26 ↑x27 ↑x28 ↑x29 ↑x30 ↑x31 ↑x32 ↑x33 ↑x34 ↑x35 ↑x36 ↑x37 ↑x38 ↑x39).symm.trans hZ
  rw [e] at h
  exact h

/-- `-x` (`16p − x`, then `reduce`): every lane `≤` the lane of `(16p,16p,16p,16p)` [documented: `b < 4.0`, which is not sufficient, see `Dalek.Props.C11.Avx2.neg_documented_bound_insufficient`] ↦ `b < 0.0002`, element-wise negation -/
theorem neg_spec (hin : EnvIn X Avx2Field.pre_neg) :
    ∃ out, Dalek.Gen.Avx2Field.neg.evalC X = some out ∧ Dalek.Gen.Avx2Field.neg.evalW X = out ∧
      EnvIn out b0002 ∧
      ∀ k : Lane, vecVal k out = - vecVal k X := by
  obtain ⟨out, hC, hW, hpost, hZ⟩ := Prog.norm_sound _ _ _ _ neg_norm_ok _ hin
  refine ⟨out, hC, hW, EnvIn_of_itvsLe hpost (by decide +kernel), fun k => ?_⟩
  have hb := bounded_of_envIn hin
  rw [show Avx2Field.pre_neg.map (·.hi) = p16Lanes by decide +kernel] at hb
  have h := neg_correct k ↑x0 ↑x1 ↑x2 ↑x3 ↑x4 ↑x5 ↑x6 ↑x7 ↑x8 ↑x9 ↑x10 ↑x11 ↑x12 ↑x13 ↑x14 ↑x15 ↑x16 ↑x17 ↑x18 ↑x19 ↑x20 ↑x21 ↑x22 ↑x23 ↑x24 ↑x25 ↑x26 ↑x27 ↑x28 ↑x29 ↑x30 ↑x31 ↑x32 ↑x33 ↑x34 ↑x35 ↑x36 ↑x37 ↑x38 ↑x39 hb
  have e : neg_fn ↑x0 ↑x1 ↑x2 ↑x3 ↑x4 ↑x5 ↑x6 ↑x7 ↑x8 ↑x9 ↑x10 ↑x11 ↑x12 ↑x13 ↑x14 ↑x15 ↑x16 ↑x17 ↑x18 ↑x19 ↑x20 ↑x21 ↑x22 ↑x23 ↑x24 ↑x25 ↑x26 ↑x27 ↑x28 ↑x29 ↑x30 ↑x31 ↑x32 ↑x33 ↑x34 ↑x35 ↑x36 ↑x37 ↑x38 ↑x39 = toZ out := (neg_fn_ok ↑x0 ↑x1 ↑x2 ↑x3 ↑x4 ↑x5 ↑x6 ↑x7 ↑x8 ↑x9 ↑x10 ↑x11 ↑x12 ↑x13 ↑x14 ↑x15 ↑x16 ↑x17 ↑x18 ↑x19 ↑x20 ↑x21 ↑x22 ↑x23 ↑x24 ↑x25 ↑x26 ↑x27 ↑x28 ↑x29 ↑x30 ↑x31 ↑x32 ↑x33 ↑x34 ↑x35 ↑x36 ↑x37 ↑x38 ↑x39).symm.trans hZ
  rw [e] at h
  exact h

/-- `reduce64(z)`: ten wide coefficient vectors (here: the 40 u64 lanes `X`) `≤ 2^64 − 2^39` ↦ `b < 0.007`, same four values -/
theorem reduce64_spec (hin : EnvIn X Avx2Field.pre_reduce64) :
    ∃ out, Dalek.Gen.Avx2Field.reduce64.evalC X = some out ∧ Dalek.Gen.Avx2Field.reduce64.evalW X = out ∧
      EnvIn out b007 ∧
      ∀ k : Lane, vecVal k out = wideVal k X := by
  obtain ⟨out, hC, hW, hpost, hZ⟩ := Prog.norm_sound _ _ _ _ reduce64_norm_ok _ hin
  refine ⟨out, hC, hW, EnvIn_of_itvsLe hpost (by decide +kernel), fun k => ?_⟩
  have h := reduce64_correct k ↑x0 ↑x1 ↑x2 ↑x3 ↑x4 ↑x5 ↑x6 ↑x7 ↑x8 ↑x9 ↑x10 ↑x11 ↑x12 ↑x13 ↑x14 ↑x15 ↑x16 ↑x17 ↑x18 ↑x19 ↑x20 ↑x21 ↑x22 ↑x23 ↑x24 ↑x25 ↑x26 ↑x27 ↑x28 ↑x29 ↑x30 ↑x31 ↑x32 ↑x33 ↑x34 ↑x35 ↑x36 ↑x37 ↑x38 ↑x39
  have e : reduce64_fn ↑x0 ↑x1 ↑x2 ↑x3 ↑x4 ↑x5 ↑x6 ↑x7 ↑x8 ↑x9 ↑x10 ↑x11 ↑x12 ↑x13 ↑x14 ↑x15 ↑x16 ↑x17 ↑x18 ↑x19 ↑x20 ↑x21 ↑x22 ↑x23 ↑x24 ↑x25 ↑x26 ↑x27 ↑x28 ↑x29 ↑x30 ↑x31 ↑x32 ↑x33 ↑x34 ↑x35 ↑x36 ↑x37 ↑x38 ↑x39 = toZ out := (reduce64_fn_ok ↑x0 ↑x1 ↑x2 ↑x3 ↑x4 ↑x5 ↑x6 ↑x7 ↑x8 ↑x9 ↑x10 ↑x11 ↑x12 ↑x13 ↑x14 ↑x15 ↑x16 ↑x17 ↑x18 ↑x19 ↑x20 ↑x21 ↑x22 ↑x23 ↑x24 ↑x25 ↑x26 ↑x27 ↑x28 ↑x29 ↑x30 ↑x31 ↑x32 ↑x33 ↑x34 ↑x35 ↑x36 ↑x37 ↑x38 ↑x39).symm.trans hZ
  rw [e] at h
  exact h

/-- `x.split()`: any forty u32 lanes ↦ four `FieldElement51` (20 limbs `< 2^59`) with the four lane values -/
theorem split_spec (hin : EnvIn X Avx2Field.pre_split) :
    ∃ out, Dalek.Gen.Avx2Field.split.evalC X = some out ∧ Dalek.Gen.Avx2Field.split.evalW X = out ∧
      EnvIn out (rep 20 (ub (2 ^ 59 - 1))) ∧
      ∀ k : Lane, elemVal k out = vecVal k X := by
  obtain ⟨out, hC, hW, hpost, hZ⟩ := Prog.norm_sound _ _ _ _ split_norm_ok _ hin
  refine ⟨out, hC, hW, EnvIn_of_itvsLe hpost (by decide +kernel), fun k => ?_⟩
  have h := split_correct k ↑x0 ↑x1 ↑x2 ↑x3 ↑x4 ↑x5 ↑x6 ↑x7 ↑x8 ↑x9 ↑x10 ↑x11 ↑x12 ↑x13 ↑x14 ↑x15 ↑x16 ↑x17 ↑x18 ↑x19 ↑x20 ↑x21 ↑x22 ↑x23 ↑x24 ↑x25 ↑x26 ↑x27 ↑x28 ↑x29 ↑x30 ↑x31 ↑x32 ↑x33 ↑x34 ↑x35 ↑x36 ↑x37 ↑x38 ↑x39
  have e : split_fn ↑x0 ↑x1 ↑x2 ↑x3 ↑x4 ↑x5 ↑x6 ↑x7 ↑x8 ↑x9 ↑x10 ↑x11 ↑x12 ↑x13 ↑x14 ↑x15 ↑x16 ↑x17 ↑x18 ↑x19 ↑x20 ↑x21 ↑x22 ↑x23 ↑x24 ↑x25 ↑x26 ↑x27 ↑x28 ↑x29 ↑x30 ↑x31 ↑x32 ↑x33 ↑x34 ↑x35 ↑x36 ↑x37 ↑x38 ↑x39 = toZ out := (split_fn_ok ↑x0 ↑x1 ↑x2 ↑x3 ↑x4 ↑x5 ↑x6 ↑x7 ↑x8 ↑x9 ↑x10 ↑x11 ↑x12 ↑x13 ↑x14 ↑x15 ↑x16 ↑x17 ↑x18 ↑x19 ↑x20 ↑x21 ↑x22 ↑x23 ↑x24 ↑x25 ↑x26 ↑x27 ↑x28 ↑x29 ↑x30 ↑x31 ↑x32 ↑x33 ↑x34 ↑x35 ↑x36 ↑x37 ↑x38 ↑x39).symm.trans hZ
  rw [e] at h
  exact h

/-- `x * (s0, s1, s2, s3)`: any u32 lanes, scalars `< 2^31` ↦ `b < 0.007`, `(s0 A, s1 B, s2 C, s3 D)` -/
theorem mul_consts_spec (s0 s1 s2 s3 : Nat) (hin : EnvIn (X ++ [s0, s1, s2, s3]) Avx2Field.pre_mul_consts) :
    ∃ out, Dalek.Gen.Avx2Field.mul_consts.evalC (X ++ [s0, s1, s2, s3]) = some out ∧ Dalek.Gen.Avx2Field.mul_consts.evalW (X ++ [s0, s1, s2, s3]) = out ∧
      EnvIn out b007 ∧
      ∀ k : Lane, vecVal k out = vecVal k X * ((k.sel s0 s1 s2 s3 : Nat) : ZMod P) := by
  obtain ⟨out, hC, hW, hpost, hZ⟩ := Prog.norm_sound _ _ _ _ mul_consts_norm_ok _ hin
  refine ⟨out, hC, hW, EnvIn_of_itvsLe hpost (by decide +kernel), fun k => ?_⟩
  have h := mul_consts_correct k ↑x0 ↑x1 ↑x2 ↑x3 ↑x4 ↑x5 ↑x6 ↑x7 ↑x8 ↑x9 ↑x10 ↑x11 ↑x12 ↑x13 ↑x14 ↑x15 ↑x16 ↑x17 ↑x18 ↑x19 ↑x20 ↑x21 ↑x22 ↑x23 ↑x24 ↑x25 ↑x26 ↑x27 ↑x28 ↑x29 ↑x30 ↑x31 ↑x32 ↑x33 ↑x34 ↑x35 ↑x36 ↑x37 ↑x38 ↑x39 ↑s0 ↑s1 ↑s2 ↑s3
  have e : mul_consts_fn ↑x0 ↑x1 ↑x2 ↑x3 ↑x4 ↑x5 ↑x6 ↑x7 ↑x8 ↑x9 ↑x10 ↑x11 ↑x12 ↑x13 ↑x14 ↑x15 ↑x16 ↑x17 ↑x18 ↑x19 ↑x20 ↑x21 ↑x22 ↑x23 ↑x24 ↑x25 ↑x26 ↑x27 ↑x28 ↑x29 ↑x30 ↑x31 ↑x32 ↑x33 ↑x34 ↑x35 ↑x36 ↑x37 ↑x38 ↑x39 ↑s0 ↑s1 ↑s2 ↑s3 = toZ out := (mul_consts_fn_ok ↑x0 ↑x1 ↑x2 ↑x3 ↑x4 ↑x5 ↑x6 ↑x7 ↑x8 ↑x9 ↑x10 ↑x11 ↑x12 ↑x13 ↑x14 ↑x15 ↑x16 ↑x17 ↑x18 ↑x19 ↑x20 ↑x21 ↑x22 ↑x23 ↑x24 ↑x25 ↑x26 ↑x27 ↑x28 ↑x29 ↑x30 ↑x31 ↑x32 ↑x33 ↑x34 ↑x35 ↑x36 ↑x37 ↑x38 ↑x39 ↑s0 ↑s1 ↑s2 ↑s3).symm.trans hZ
  rw [e] at h
  have hs : ((k.sel (s0 : Int) s1 s2 s3 : Int) : ZMod P) = ((k.sel s0 s1 s2 s3 : Nat) : ZMod P) := by
    cases k <;> simp [Lane.sel]
  rw [hs] at h
  exact h

/-- `conditional_select(x, y, choice)` / `conditional_assign`: all lanes of `x` if `choice = 0`, all lanes of `y` if
`choice = 1` -/
theorem conditional_select_spec (c : Nat) (hin : EnvIn (X ++ Y ++ [c]) Avx2Field.pre_conditional_select) :
    ∃ out, Dalek.Gen.Avx2Field.conditional_select.evalC (X ++ Y ++ [c]) = some out ∧ Dalek.Gen.Avx2Field.conditional_select.evalW (X ++ Y ++ [c]) = out ∧
      out = if c = 0 then X else Y := by
  obtain ⟨out, hC, hW, _, hZ⟩ := Prog.norm_sound _ _ _ _ conditional_select_norm_ok _ hin
  refine ⟨out, hC, hW, toZ_injective ?_⟩
  have h := conditional_select_correct ↑x0 ↑x1 ↑x2 ↑x3 ↑x4 ↑x5 ↑x6 ↑x7 ↑x8 ↑x9 ↑x10 ↑x11 ↑x12 ↑x13 ↑x14 ↑x15 ↑x16 ↑x17 ↑x18 ↑x19 ↑x20 ↑x21 ↑x22 ↑x23 ↑x24 ↑x25 ↑x26 ↑x27 ↑x28 ↑x29 ↑x30 ↑x31 ↑x32 ↑x33 ↑x34 ↑x35 ↑x36 ↑x37 ↑x38 ↑x39 ↑y0 ↑y1 ↑y2 ↑y3 ↑y4 ↑y5 ↑y6 ↑y7 ↑y8 ↑y9 ↑y10 ↑y11 ↑y12 ↑y13 ↑y14 ↑y15 ↑y16 ↑y17 ↑y18 ↑y19 ↑y20 ↑y21 ↑y22 ↑y23 ↑y24 ↑y25 ↑y26 ↑y27 ↑y28 ↑y29 ↑y30 ↑y31 ↑y32 ↑y33 ↑y34 ↑y35 ↑y36 ↑y37 ↑y38 ↑y39 ↑c
  have e : conditional_select_fn ↑x0 ↑x1 ↑x2 ↑x3 ↑x4 ↑x5 ↑x6 ↑x7 ↑x8 ↑x9 ↑x10 ↑x11 ↑x12 ↑x13 ↑x14 ↑x15 ↑x16 ↑x17 ↑x18 ↑x19 ↑x20 ↑x21 ↑x22 ↑x23 ↑x24 ↑x25 ↑x26 ↑x27 ↑x28 ↑x29 ↑x30 ↑x31 ↑x32 ↑x33 ↑x34 ↑x35 ↑x36 ↑x37 ↑x38 ↑x39 ↑y0 ↑y1 ↑y2 ↑y3 ↑y4 ↑y5 ↑y6 ↑y7 ↑y8 ↑y9 ↑y10 ↑y11 ↑y12 ↑y13 ↑y14 ↑y15 ↑y16 ↑y17 ↑y18 ↑y19 ↑y20 ↑y21 ↑y22 ↑y23 ↑y24 ↑y25 ↑y26 ↑y27 ↑y28 ↑y29 ↑y30 ↑y31 ↑y32 ↑y33 ↑y34 ↑y35 ↑y36 ↑y37 ↑y38 ↑y39 ↑c = toZ out := (conditional_select_fn_ok ↑x0 ↑x1 ↑x2 ↑x3 ↑x4 ↑x5 ↑x6 ↑x7 ↑x8 ↑x9 ↑x10 ↑x11 ↑x12 ↑x13 ↑x14 ↑x15 ↑x16 ↑x17 ↑x18 ↑x19 ↑x20 ↑x21 ↑x22 ↑x23 ↑x24 ↑x25 ↑x26 ↑x27 ↑x28 ↑x29 ↑x30 ↑x31 ↑x32 ↑x33 ↑x34 ↑x35 ↑x36 ↑x37 ↑x38 ↑x39 ↑y0 ↑y1 ↑y2 ↑y3 ↑y4 ↑y5 ↑y6 ↑y7 ↑y8 ↑y9 ↑y10 ↑y11 ↑y12 ↑y13 ↑y14 ↑y15 ↑y16 ↑y17 ↑y18 ↑y19 ↑y20 ↑y21 ↑y22 ↑y23 ↑y24 ↑y25 ↑y26 ↑y27 ↑y28 ↑y29 ↑y30 ↑y31 ↑y32 ↑y33 ↑y34 ↑y35 ↑y36 ↑y37 ↑y38 ↑y39 ↑c).symm.trans hZ
  rw [e] at h
  rw [h]
  by_cases hc : c = 0
  · subst hc; rfl
  · have hc' : ((c : Nat) : Int) ≠ 0 := by exact_mod_cast hc
    simp only [hc, hc', ↓reduceIte]; rfl

theorem conditional_assign_spec (c : Nat) (hin : EnvIn (X ++ Y ++ [c]) Avx2Field.pre_conditional_assign) :
    ∃ out, Dalek.Gen.Avx2Field.conditional_assign.evalC (X ++ Y ++ [c]) = some out ∧ Dalek.Gen.Avx2Field.conditional_assign.evalW (X ++ Y ++ [c]) = out ∧
      out = if c = 0 then X else Y := by
  obtain ⟨out, hC, hW, _, hZ⟩ := Prog.norm_sound _ _ _ _ conditional_assign_norm_ok _ hin
  refine ⟨out, hC, hW, toZ_injective ?_⟩
  have h := conditional_assign_correct ↑x0 ↑x1 ↑x2 ↑x3 ↑x4 ↑x5 ↑x6 ↑x7 ↑x8 ↑x9 ↑x10 ↑x11 ↑x12 ↑x13 ↑x14 ↑x15 ↑x16 ↑x17 ↑x18 ↑x19 ↑x20 ↑x21 ↑x22 ↑x23 ↑x24 ↑x25 ↑x26 ↑x27 ↑x28 ↑x29 ↑x30 ↑x31 ↑x32 ↑x33 ↑x34 ↑x35 ↑x36 ↑x37 ↑x38 ↑x39 ↑y0 ↑y1 ↑y2 ↑y3 ↑y4 ↑y5 ↑y6 ↑y7 ↑y8 ↑y9 ↑y10 ↑y11 ↑y12 ↑y13 ↑y14 ↑y15 ↑y16 ↑y17 ↑y18 ↑y19 ↑y20 ↑y21 ↑y22 ↑y23 ↑y24 ↑y25 ↑y26 ↑y27 ↑y28 ↑y29 ↑y30 ↑y31 ↑y32 ↑y33 ↑y34 ↑y35 ↑y36 ↑y37 ↑y38 ↑y39 ↑c
  have e : conditional_assign_fn ↑x0 ↑x1 ↑x2 ↑x3 ↑x4 ↑x5 ↑x6 ↑x7 ↑x8 ↑x9 ↑x10 ↑x11 ↑x12 ↑x13 ↑x14 ↑x15 ↑x16 ↑x17 ↑x18 ↑x19 ↑x20 ↑x21 ↑x22 ↑x23 ↑x24 ↑x25 ↑x26 ↑x27 ↑x28 ↑x29 ↑x30 ↑x31 ↑x32 ↑x33 ↑x34 ↑x35 ↑x36 ↑x37 ↑x38 ↑x39 ↑y0 ↑y1 ↑y2 ↑y3 ↑y4 ↑y5 ↑y6 ↑y7 ↑y8 ↑y9 ↑y10 ↑y11 ↑y12 ↑y13 ↑y14 ↑y15 ↑y16 ↑y17 ↑y18 ↑y19 ↑y20 ↑y21 ↑y22 ↑y23 ↑y24 ↑y25 ↑y26 ↑y27 ↑y28 ↑y29 ↑y30 ↑y31 ↑y32 ↑y33 ↑y34 ↑y35 ↑y36 ↑y37 ↑y38 ↑y39 ↑c = toZ out := (conditional_assign_fn_ok ↑x0 ↑x1 ↑x2 ↑x3 ↑x4 ↑x5 ↑x6 ↑x7 ↑x8 ↑x9 ↑x10 ↑x11 ↑x12 ↑x13 ↑x14 ↑x15 ↑x16 ↑x17 ↑x18 ↑x19 ↑x20 ↑x21 ↑x22 ↑x23 ↑x24 ↑x25 ↑x26 ↑x27 ↑x28 ↑x29 ↑x30 ↑x31 ↑x32 ↑x33 ↑x34 ↑x35 ↑x36 ↑x37 ↑x38 ↑x39 ↑y0 ↑y1 ↑y2 ↑y3 ↑y4 ↑y5 ↑y6 ↑y7 ↑y8 ↑y9 ↑y10 ↑y11 ↑y12 ↑y13 ↑y14 ↑y15 ↑y16 ↑y17 ↑y18 ↑y19 ↑y20 ↑y21 ↑y22 ↑y23 ↑y24 ↑y25 ↑y26 ↑y27 ↑y28 ↑y29 ↑y30 ↑y31 ↑y32 ↑y33 ↑y34 ↑y35 ↑y36 ↑y37 ↑y38 ↑y39 ↑c).symm.trans hZ
  rw [e] at h
  rw [h]
  by_cases hc : c = 0
  · subst hc; rfl
  · have hc' : ((c : Nat) : Int) ≠ 0 := by exact_mod_cast hc
    simp only [hc, hc', ↓reduceIte]; rfl

/-! ### shuffles and blends: pure renamings of whole elements (all ten limbs move together; no arithmetic, any lanes) -/

/-- `x.shuffle(Shuffle::AAAA)`: `(A,B,C,D) ↦ (A,A,A,A)` -/
theorem shuffle_AAAA_spec (hin : EnvIn X Avx2Field.pre_shuffle_AAAA) :
    ∃ out, Dalek.Gen.Avx2Field.shuffle_AAAA.evalC X = some out ∧ Dalek.Gen.Avx2Field.shuffle_AAAA.evalW X = out ∧
      ∀ k : Lane, vecLimbs k out = vecLimbs (k.sel .A .A .A .A) X := by
  obtain ⟨out, hC, hW, _, hZ⟩ := Prog.norm_sound _ _ _ _ shuffle_AAAA_norm_ok _ hin
  refine ⟨out, hC, hW, fun k => ?_⟩
  have h := shuffle_AAAA_correct k ↑x0 ↑x1 ↑x2 ↑x3 ↑x4 ↑x5 ↑x6 ↑x7 ↑x8 ↑x9 ↑x10 ↑x11 ↑x12 ↑x13 ↑x14 ↑x15 ↑x16 ↑x17 ↑x18 ↑x19 ↑x20 ↑x21 ↑x22 ↑x23 ↑x24 ↑x25 ↑x26 ↑x27 ↑x28 ↑x29 ↑x30 ↑x31 ↑x32 ↑x33 ↑x34 ↑x35 ↑x36 ↑x37 ↑x38 ↑x39
  have e : shuffle_AAAA_fn ↑x0 ↑x1 ↑x2 ↑x3 ↑x4 ↑x5 ↑x6 ↑x7 ↑x8 ↑x9 ↑x10 ↑x11 ↑x12 ↑x13 ↑x14 ↑x15 ↑x16 ↑x17 ↑x18 ↑x19 ↑x20 ↑x21 ↑x22 ↑x23 ↑x24 ↑x25 ↑x26 ↑x27 ↑x28 ↑x29 ↑x30 ↑x31 ↑x32 ↑x33 ↑x34 ↑x35 ↑x36 ↑x37 ↑x38 ↑x39 = toZ out := (shuffle_AAAA_fn_ok ↑x0 ↑x1 ↑x2 ↑x3 ↑x4 ↑x5 ↑x6 ↑x7 ↑x8 ↑x9 ↑x10 ↑x11 ↑x12 ↑x13 ↑x14 ↑x15 ↑x16 ↑x17 ↑x18 ↑x19 ↑x20 ↑x21 ↑x22 ↑x23 ↑x24 ↑x25 ↑x26 ↑x27 ↑x28 ↑x29 ↑x30 ↑x31 ↑x32 ↑x33 ↑x34 ↑x35 ↑x36 ↑x37 ↑x38 ↑x39).symm.trans hZ
  rw [e] at h
  exact h

/-- `x.shuffle(Shuffle::BBBB)`: `(A,B,C,D) ↦ (B,B,B,B)` -/
theorem shuffle_BBBB_spec (hin : EnvIn X Avx2Field.pre_shuffle_BBBB) :
    ∃ out, Dalek.Gen.Avx2Field.shuffle_BBBB.evalC X = some out ∧ Dalek.Gen.Avx2Field.shuffle_BBBB.evalW X = out ∧
      ∀ k : Lane, vecLimbs k out = vecLimbs (k.sel .B .B .B .B) X := by
  obtain ⟨out, hC, hW, _, hZ⟩ := Prog.norm_sound _ _ _ _ shuffle_BBBB_norm_ok _ hin
  refine ⟨out, hC, hW, fun k => ?_⟩
  have h := shuffle_BBBB_correct k ↑x0 ↑x1 ↑x2 ↑x3 ↑x4 ↑x5 ↑x6 ↑x7 ↑x8 ↑x9 ↑x10 ↑x11 ↑x12 ↑x13 ↑x14 ↑x15 ↑x16 ↑x17 ↑x18 ↑x19 ↑x20 ↑x21 ↑x22 ↑x23 ↑x24 ↑x25 ↑x26 ↑x27 ↑x28 ↑x29 ↑x30 ↑x31 ↑x32 ↑x33 ↑x34 ↑x35 ↑x36 ↑x37 ↑x38 ↑x39
  have e : shuffle_BBBB_fn ↑x0 ↑x1 ↑x2 ↑x3 ↑x4 ↑x5 ↑x6 ↑x7 ↑x8 ↑x9 ↑x10 ↑x11 ↑x12 ↑x13 ↑x14 ↑x15 ↑x16 ↑x17 ↑x18 ↑x19 ↑x20 ↑x21 ↑x22 ↑x23 ↑x24 ↑x25 ↑x26 ↑x27 ↑x28 ↑x29 ↑x30 ↑x31 ↑x32 ↑x33 ↑x34 ↑x35 ↑x36 ↑x37 ↑x38 ↑x39 = toZ out := (shuffle_BBBB_fn_ok ↑x0 ↑x1 ↑x2 ↑x3 ↑x4 ↑x5 ↑x6 ↑x7 ↑x8 ↑x9 ↑x10 ↑x11 ↑x12 ↑x13 ↑x14 ↑x15 ↑x16 ↑x17 ↑x18 ↑x19 ↑x20 ↑x21 ↑x22 ↑x23 ↑x24 ↑x25 ↑x26 ↑x27 ↑x28 ↑x29 ↑x30 ↑x31 ↑x32 ↑x33 ↑x34 ↑x35 ↑x36 ↑x37 ↑x38 ↑x39).symm.trans hZ
  rw [e] at h
  exact h

/-- `x.shuffle(Shuffle::CACA)`: `(A,B,C,D) ↦ (C,A,C,A)` -/
theorem shuffle_CACA_spec (hin : EnvIn X Avx2Field.pre_shuffle_CACA) :
    ∃ out, Dalek.Gen.Avx2Field.shuffle_CACA.evalC X = some out ∧ Dalek.Gen.Avx2Field.shuffle_CACA.evalW X = out ∧
      ∀ k : Lane, vecLimbs k out = vecLimbs (k.sel .C .A .C .A) X := by
  obtain ⟨out, hC, hW, _, hZ⟩ := Prog.norm_sound _ _ _ _ shuffle_CACA_norm_ok _ hin
  refine ⟨out, hC, hW, fun k => ?_⟩
  have h := shuffle_CACA_correct k ↑x0 ↑x1 ↑x2 ↑x3 ↑x4 ↑x5 ↑x6 ↑x7 ↑x8 ↑x9 ↑x10 ↑x11 ↑x12 ↑x13 ↑x14 ↑x15 ↑x16 ↑x17 ↑x18 ↑x19 ↑x20 ↑x21 ↑x22 ↑x23 ↑x24 ↑x25 ↑x26 ↑x27 ↑x28 ↑x29 ↑x30 ↑x31 ↑x32 ↑x33 ↑x34 ↑x35 ↑x36 ↑x37 ↑x38 ↑x39
  have e : shuffle_CACA_fn ↑x0 ↑x1 ↑x2 ↑x3 ↑x4 ↑x5 ↑x6 ↑x7 ↑x8 ↑x9 ↑x10 ↑x11 ↑x12 ↑x13 ↑x14 ↑x15 ↑x16 ↑x17 ↑x18 ↑x19 ↑x20 ↑x21 ↑x22 ↑x23 ↑x24 ↑x25 ↑x26 ↑x27 ↑x28 ↑x29 ↑x30 ↑x31 ↑x32 ↑x33 ↑x34 ↑x35 ↑x36 ↑x37 ↑x38 ↑x39 = toZ out := (shuffle_CACA_fn_ok ↑x0 ↑x1 ↑x2 ↑x3 ↑x4 ↑x5 ↑x6 ↑x7 ↑x8 ↑x9 ↑x10 ↑x11 ↑x12 ↑x13 ↑x14 ↑x15 ↑x16 ↑x17 ↑x18 ↑x19 ↑x20 ↑x21 ↑x22 ↑x23 ↑x24 ↑x25 ↑x26 ↑x27 ↑x28 ↑x29 ↑x30 ↑x31 ↑x32 ↑x33 ↑x34 ↑x35 ↑x36 ↑x37 ↑x38 ↑x39).symm.trans hZ
  rw [e] at h
  exact h

/-- `x.shuffle(Shuffle::DBBD)`: `(A,B,C,D) ↦ (D,B,B,D)` -/
theorem shuffle_DBBD_spec (hin : EnvIn X Avx2Field.pre_shuffle_DBBD) :
    ∃ out, Dalek.Gen.Avx2Field.shuffle_DBBD.evalC X = some out ∧ Dalek.Gen.Avx2Field.shuffle_DBBD.evalW X = out ∧
      ∀ k : Lane, vecLimbs k out = vecLimbs (k.sel .D .B .B .D) X := by
  obtain ⟨out, hC, hW, _, hZ⟩ := Prog.norm_sound _ _ _ _ shuffle_DBBD_norm_ok _ hin
  refine ⟨out, hC, hW, fun k => ?_⟩
  have h := shuffle_DBBD_correct k ↑x0 ↑x1 ↑x2 ↑x3 ↑x4 ↑x5 ↑x6 ↑x7 ↑x8 ↑x9 ↑x10 ↑x11 ↑x12 ↑x13 ↑x14 ↑x15 ↑x16 ↑x17 ↑x18 ↑x19 ↑x20 ↑x21 ↑x22 ↑x23 ↑x24 ↑x25 ↑x26 ↑x27 ↑x28 ↑x29 ↑x30 ↑x31 ↑x32 ↑x33 ↑x34 ↑x35 ↑x36 ↑x37 ↑x38 ↑x39
  have e : shuffle_DBBD_fn ↑x0 ↑x1 ↑x2 ↑x3 ↑x4 ↑x5 ↑x6 ↑x7 ↑x8 ↑x9 ↑x10 ↑x11 ↑x12 ↑x13 ↑x14 ↑x15 ↑x16 ↑x17 ↑x18 ↑x19 ↑x20 ↑x21 ↑x22 ↑x23 ↑x24 ↑x25 ↑x26 ↑x27 ↑x28 ↑x29 ↑x30 ↑x31 ↑x32 ↑x33 ↑x34 ↑x35 ↑x36 ↑x37 ↑x38 ↑x39 = toZ out := (shuffle_DBBD_fn_ok ↑x0 ↑x1 ↑x2 ↑x3 ↑x4 ↑x5 ↑x6 ↑x7 ↑x8 ↑x9 ↑x10 ↑x11 ↑x12 ↑x13 ↑x14 ↑x15 ↑x16 ↑x17 ↑x18 ↑x19 ↑x20 ↑x21 ↑x22 ↑x23 ↑x24 ↑x25 ↑x26 ↑x27 ↑x28 ↑x29 ↑x30 ↑x31 ↑x32 ↑x33 ↑x34 ↑x35 ↑x36 ↑x37 ↑x38 ↑x39).symm.trans hZ
  rw [e] at h
  exact h

/-- `x.shuffle(Shuffle::ADDA)`: `(A,B,C,D) ↦ (A,D,D,A)` -/
theorem shuffle_ADDA_spec (hin : EnvIn X Avx2Field.pre_shuffle_ADDA) :
    ∃ out, Dalek.Gen.Avx2Field.shuffle_ADDA.evalC X = some out ∧ Dalek.Gen.Avx2Field.shuffle_ADDA.evalW X = out ∧
      ∀ k : Lane, vecLimbs k out = vecLimbs (k.sel .A .D .D .A) X := by
  obtain ⟨out, hC, hW, _, hZ⟩ := Prog.norm_sound _ _ _ _ shuffle_ADDA_norm_ok _ hin
  refine ⟨out, hC, hW, fun k => ?_⟩
  have h := shuffle_ADDA_correct k ↑x0 ↑x1 ↑x2 ↑x3 ↑x4 ↑x5 ↑x6 ↑x7 ↑x8 ↑x9 ↑x10 ↑x11 ↑x12 ↑x13 ↑x14 ↑x15 ↑x16 ↑x17 ↑x18 ↑x19 ↑x20 ↑x21 ↑x22 ↑x23 ↑x24 ↑x25 ↑x26 ↑x27 ↑x28 ↑x29 ↑x30 ↑x31 ↑x32 ↑x33 ↑x34 ↑x35 ↑x36 ↑x37 ↑x38 ↑x39
  have e : shuffle_ADDA_fn ↑x0 ↑x1 ↑x2 ↑x3 ↑x4 ↑x5 ↑x6 ↑x7 ↑x8 ↑x9 ↑x10 ↑x11 ↑x12 ↑x13 ↑x14 ↑x15 ↑x16 ↑x17 ↑x18 ↑x19 ↑x20 ↑x21 ↑x22 ↑x23 ↑x24 ↑x25 ↑x26 ↑x27 ↑x28 ↑x29 ↑x30 ↑x31 ↑x32 ↑x33 ↑x34 ↑x35 ↑x36 ↑x37 ↑x38 ↑x39 = toZ out := (shuffle_ADDA_fn_ok ↑x0 ↑x1 ↑x2 ↑x3 ↑x4 ↑x5 ↑x6 ↑x7 ↑x8 ↑x9 ↑x10 ↑x11 ↑x12 ↑x13 ↑x14 ↑x15 ↑x16 ↑x17 ↑x18 ↑x19 ↑x20 ↑x21 ↑x22 ↑x23 ↑x24 ↑x25 ↑x26 ↑x27 ↑x28 ↑x29 ↑x30 ↑x31 ↑x32 ↑x33 ↑x34 ↑x35 ↑x36 ↑x37 ↑x38 ↑x39).symm.trans hZ
  rw [e] at h
  exact h

/-- `x.shuffle(Shuffle::CBCB)`: `(A,B,C,D) ↦ (C,B,C,B)` -/
theorem shuffle_CBCB_spec (hin : EnvIn X Avx2Field.pre_shuffle_CBCB) :
    ∃ out, Dalek.Gen.Avx2Field.shuffle_CBCB.evalC X = some out ∧ Dalek.Gen.Avx2Field.shuffle_CBCB.evalW X = out ∧
      ∀ k : Lane, vecLimbs k out = vecLimbs (k.sel .C .B .C .B) X := by
  obtain ⟨out, hC, hW, _, hZ⟩ := Prog.norm_sound _ _ _ _ shuffle_CBCB_norm_ok _ hin
  refine ⟨out, hC, hW, fun k => ?_⟩
  have h := shuffle_CBCB_correct k ↑x0 ↑x1 ↑x2 ↑x3 ↑x4 ↑x5 ↑x6 ↑x7 ↑x8 ↑x9 ↑x10 ↑x11 ↑x12 ↑x13 ↑x14 ↑x15 ↑x16 ↑x17 ↑x18 ↑x19 ↑x20 ↑x21 ↑x22 ↑x23 ↑x24 ↑x25 ↑x26 ↑x27 ↑x28 ↑x29 ↑x30 ↑x31 ↑x32 ↑x33 ↑x34 ↑x35 ↑x36 ↑x37 ↑x38 ↑x39
  have e : shuffle_CBCB_fn ↑x0 ↑x1 ↑x2 ↑x3 ↑x4 ↑x5 ↑x6 ↑x7 ↑x8 ↑x9 ↑x10 ↑x11 ↑x12 ↑x13 ↑x14 ↑x15 ↑x16 ↑x17 ↑x18 ↑x19 ↑x20 ↑x21 ↑x22 ↑x23 ↑x24 ↑x25 ↑x26 ↑x27 ↑x28 ↑x29 ↑x30 ↑x31 ↑x32 ↑x33 ↑x34 ↑x35 ↑x36 ↑x37 ↑x38 ↑x39 = toZ out := (shuffle_CBCB_fn_ok ↑x0 ↑x1 ↑x2 ↑x3 ↑x4 ↑x5 ↑x6 ↑x7 ↑x8 ↑x9 ↑x10 ↑x11 ↑x12 ↑x13 ↑x14 ↑x15 ↑x16 ↑x17 ↑x18 ↑x19 ↑x20 ↑x21 ↑x22 ↑x23 ↑x24 ↑x25 ↑x26 ↑x27 ↑x28 ↑x29 ↑x30 ↑x31 ↑x32 ↑x33 ↑x34 ↑x35 ↑x36 ↑x37 ↑x38 ↑x39).symm.trans hZ
  rw [e] at h
  exact h

/-- `x.shuffle(Shuffle::ABAB)`: `(A,B,C,D) ↦ (A,B,A,B)` -/
theorem shuffle_ABAB_spec (hin : EnvIn X Avx2Field.pre_shuffle_ABAB) :
    ∃ out, Dalek.Gen.Avx2Field.shuffle_ABAB.evalC X = some out ∧ Dalek.Gen.Avx2Field.shuffle_ABAB.evalW X = out ∧
      ∀ k : Lane, vecLimbs k out = vecLimbs (k.sel .A .B .A .B) X := by
  obtain ⟨out, hC, hW, _, hZ⟩ := Prog.norm_sound _ _ _ _ shuffle_ABAB_norm_ok _ hin
  refine ⟨out, hC, hW, fun k => ?_⟩
  have h := shuffle_ABAB_correct k ↑x0 ↑x1 ↑x2 ↑x3 ↑x4 ↑x5 ↑x6 ↑x7 ↑x8 ↑x9 ↑x10 ↑x11 ↑x12 ↑x13 ↑x14 ↑x15 ↑x16 ↑x17 ↑x18 ↑x19 ↑x20 ↑x21 ↑x22 ↑x23 ↑x24 ↑x25 ↑x26 ↑x27 ↑x28 ↑x29 ↑x30 ↑x31 ↑x32 ↑x33 ↑x34 ↑x35 ↑x36 ↑x37 ↑x38 ↑x39
  have e : shuffle_ABAB_fn ↑x0 ↑x1 ↑x2 ↑x3 ↑x4 ↑x5 ↑x6 ↑x7 ↑x8 ↑x9 ↑x10 ↑x11 ↑x12 ↑x13 ↑x14 ↑x15 ↑x16 ↑x17 ↑x18 ↑x19 ↑x20 ↑x21 ↑x22 ↑x23 ↑x24 ↑x25 ↑x26 ↑x27 ↑x28 ↑x29 ↑x30 ↑x31 ↑x32 ↑x33 ↑x34 ↑x35 ↑x36 ↑x37 ↑x38 ↑x39 = toZ out := (shuffle_ABAB_fn_ok ↑x0 ↑x1 ↑x2 ↑x3 ↑x4 ↑x5 ↑x6 ↑x7 ↑x8 ↑x9 ↑x10 ↑x11 ↑x12 ↑x13 ↑x14 ↑x15 ↑x16 ↑x17 ↑x18 ↑x19 ↑x20 ↑x21 ↑x22 ↑x23 ↑x24 ↑x25 ↑x26 ↑x27 ↑x28 ↑x29 ↑x30 ↑x31 ↑x32 ↑x33 ↑x34 ↑x35 ↑x36 ↑x37 ↑x38 ↑x39).symm.trans hZ
  rw [e] at h
  exact h

/-- `x.shuffle(Shuffle::BADC)`: `(A,B,C,D) ↦ (B,A,D,C)` -/
theorem shuffle_BADC_spec (hin : EnvIn X Avx2Field.pre_shuffle_BADC) :
    ∃ out, Dalek.Gen.Avx2Field.shuffle_BADC.evalC X = some out ∧ Dalek.Gen.Avx2Field.shuffle_BADC.evalW X = out ∧
      ∀ k : Lane, vecLimbs k out = vecLimbs (k.sel .B .A .D .C) X := by
  obtain ⟨out, hC, hW, _, hZ⟩ := Prog.norm_sound _ _ _ _ shuffle_BADC_norm_ok _ hin
  refine ⟨out, hC, hW, fun k => ?_⟩
  have h := shuffle_BADC_correct k ↑x0 ↑x1 ↑x2 ↑x3 ↑x4 ↑x5 ↑x6 ↑x7 ↑x8 ↑x9 ↑x10 ↑x11 ↑x12 ↑x13 ↑x14 ↑x15 ↑x16 ↑x17 ↑x18 ↑x19 ↑x20 ↑x21 ↑x22 ↑x23 ↑x24 ↑x25 ↑x26 ↑x27 ↑x28 ↑x29 ↑x30 ↑x31 ↑x32 ↑x33 ↑x34 ↑x35 ↑x36 ↑x37 ↑x38 ↑x39
  have e : shuffle_BADC_fn ↑x0 ↑x1 ↑x2 ↑x3 ↑x4 ↑x5 ↑x6 ↑x7 ↑x8 ↑x9 ↑x10 ↑x11 ↑x12 ↑x13 ↑x14 ↑x15 ↑x16 ↑x17 ↑x18 ↑x19 ↑x20 ↑x21 ↑x22 ↑x23 ↑x24 ↑x25 ↑x26 ↑x27 ↑x28 ↑x29 ↑x30 ↑x31 ↑x32 ↑x33 ↑x34 ↑x35 ↑x36 ↑x37 ↑x38 ↑x39 = toZ out := (shuffle_BADC_fn_ok ↑x0 ↑x1 ↑x2 ↑x3 ↑x4 ↑x5 ↑x6 ↑x7 ↑x8 ↑x9 ↑x10 ↑x11 ↑x12 ↑x13 ↑x14 ↑x15 ↑x16 ↑x17 ↑x18 ↑x19 ↑x20 ↑x21 ↑x22 ↑x23 ↑x24 ↑x25 ↑x26 ↑x27 ↑x28 ↑x29 ↑x30 ↑x31 ↑x32 ↑x33 ↑x34 ↑x35 ↑x36 ↑x37 ↑x38 ↑x39).symm.trans hZ
  rw [e] at h
  exact h

/-- `x.shuffle(Shuffle::BACD)`: `(A,B,C,D) ↦ (B,A,C,D)` -/
theorem shuffle_BACD_spec (hin : EnvIn X Avx2Field.pre_shuffle_BACD) :
    ∃ out, Dalek.Gen.Avx2Field.shuffle_BACD.evalC X = some out ∧ Dalek.Gen.Avx2Field.shuffle_BACD.evalW X = out ∧
      ∀ k : Lane, vecLimbs k out = vecLimbs (k.sel .B .A .C .D) X := by
  obtain ⟨out, hC, hW, _, hZ⟩ := Prog.norm_sound _ _ _ _ shuffle_BACD_norm_ok _ hin
  refine ⟨out, hC, hW, fun k => ?_⟩
  have h := shuffle_BACD_correct k ↑x0 ↑x1 ↑x2 ↑x3 ↑x4 ↑x5 ↑x6 ↑x7 ↑x8 ↑x9 ↑x10 ↑x11 ↑x12 ↑x13 ↑x14 ↑x15 ↑x16 ↑x17 ↑x18 ↑x19 ↑x20 ↑x21 ↑x22 ↑x23 ↑x24 ↑x25 ↑x26 ↑x27 ↑x28 ↑x29 ↑x30 ↑x31 ↑x32 ↑x33 ↑x34 ↑x35 ↑x36 ↑x37 ↑x38 ↑x39
  have e : shuffle_BACD_fn ↑x0 ↑x1 ↑x2 ↑x3 ↑x4 ↑x5 ↑x6 ↑x7 ↑x8 ↑x9 ↑x10 ↑x11 ↑x12 ↑x13 ↑x14 ↑x15 ↑x16 ↑x17 ↑x18 ↑x19 ↑x20 ↑x21 ↑x22 ↑x23 ↑x24 ↑x25 ↑x26 ↑x27 ↑x28 ↑x29 ↑x30 ↑x31 ↑x32 ↑x33 ↑x34 ↑x35 ↑x36 ↑x37 ↑x38 ↑x39 = toZ out := (shuffle_BACD_fn_ok ↑x0 ↑x1 ↑x2 ↑x3 ↑x4 ↑x5 ↑x6 ↑x7 ↑x8 ↑x9 ↑x10 ↑x11 ↑x12 ↑x13 ↑x14 ↑x15 ↑x16 ↑x17 ↑x18 ↑x19 ↑x20 ↑x21 ↑x22 ↑x23 ↑x24 ↑x25 ↑x26 ↑x27 ↑x28 ↑x29 ↑x30 ↑x31 ↑x32 ↑x33 ↑x34 ↑x35 ↑x36 ↑x37 ↑x38 ↑x39).symm.trans hZ
  rw [e] at h
  exact h

/-- `x.shuffle(Shuffle::ABDC)`: `(A,B,C,D) ↦ (A,B,D,C)` -/
theorem shuffle_ABDC_spec (hin : EnvIn X Avx2Field.pre_shuffle_ABDC) :
    ∃ out, Dalek.Gen.Avx2Field.shuffle_ABDC.evalC X = some out ∧ Dalek.Gen.Avx2Field.shuffle_ABDC.evalW X = out ∧
      ∀ k : Lane, vecLimbs k out = vecLimbs (k.sel .A .B .D .C) X := by
  obtain ⟨out, hC, hW, _, hZ⟩ := Prog.norm_sound _ _ _ _ shuffle_ABDC_norm_ok _ hin
  refine ⟨out, hC, hW, fun k => ?_⟩
  have h := shuffle_ABDC_correct k ↑x0 ↑x1 ↑x2 ↑x3 ↑x4 ↑x5 ↑x6 ↑x7 ↑x8 ↑x9 ↑x10 ↑x11 ↑x12 ↑x13 ↑x14 ↑x15 ↑x16 ↑x17 ↑x18 ↑x19 ↑x20 ↑x21 ↑x22 ↑x23 ↑x24 ↑x25 ↑x26 ↑x27 ↑x28 ↑x29 ↑x30 ↑x31 ↑x32 ↑x33 ↑x34 ↑x35 ↑x36 ↑x37 ↑x38 ↑x39
  have e : shuffle_ABDC_fn ↑x0 ↑x1 ↑x2 ↑x3 ↑x4 ↑x5 ↑x6 ↑x7 ↑x8 ↑x9 ↑x10 ↑x11 ↑x12 ↑x13 ↑x14 ↑x15 ↑x16 ↑x17 ↑x18 ↑x19 ↑x20 ↑x21 ↑x22 ↑x23 ↑x24 ↑x25 ↑x26 ↑x27 ↑x28 ↑x29 ↑x30 ↑x31 ↑x32 ↑x33 ↑x34 ↑x35 ↑x36 ↑x37 ↑x38 ↑x39 = toZ out := (shuffle_ABDC_fn_ok ↑x0 ↑x1 ↑x2 ↑x3 ↑x4 ↑x5 ↑x6 ↑x7 ↑x8 ↑x9 ↑x10 ↑x11 ↑x12 ↑x13 ↑x14 ↑x15 ↑x16 ↑x17 ↑x18 ↑x19 ↑x20 ↑x21 ↑x22 ↑x23 ↑x24 ↑x25 ↑x26 ↑x27 ↑x28 ↑x29 ↑x30 ↑x31 ↑x32 ↑x33 ↑x34 ↑x35 ↑x36 ↑x37 ↑x38 ↑x39).symm.trans hZ
  rw [e] at h
  exact h

/-- `x.blend(y, Lanes::C)`: elements C from `y`, the others from `x` -/
theorem blend_C_spec (hin : EnvIn (X ++ Y) Avx2Field.pre_blend_C) :
    ∃ out, Dalek.Gen.Avx2Field.blend_C.evalC (X ++ Y) = some out ∧ Dalek.Gen.Avx2Field.blend_C.evalW (X ++ Y) = out ∧
      ∀ k : Lane, vecLimbs k out = k.sel (vecLimbs .A X) (vecLimbs .B X) (vecLimbs .C Y) (vecLimbs .D X) := by
  obtain ⟨out, hC, hW, _, hZ⟩ := Prog.norm_sound _ _ _ _ blend_C_norm_ok _ hin
  refine ⟨out, hC, hW, fun k => ?_⟩
  have h := blend_C_correct k ↑x0 ↑x1 ↑x2 ↑x3 ↑x4 ↑x5 ↑x6 ↑x7 ↑x8 ↑x9 ↑x10 ↑x11 ↑x12 ↑x13 ↑x14 ↑x15 ↑x16 ↑x17 ↑x18 ↑x19 ↑x20 ↑x21 ↑x22 ↑x23 ↑x24 ↑x25 ↑x26 ↑x27 ↑x28 ↑x29 ↑x30 ↑x31 ↑x32 ↑x33 ↑x34 ↑x35 ↑x36 ↑x37 ↑x38 ↑x39 ↑y0 ↑y1 ↑y2 ↑y3 ↑y4 ↑y5 ↑y6 ↑y7 ↑y8 ↑y9 ↑y10 ↑y11 ↑y12 ↑y13 ↑y14 ↑y15 ↑y16 ↑y17 ↑y18 ↑y19 ↑y20 ↑y21 ↑y22 ↑y23 ↑y24 ↑y25 ↑y26 ↑y27 ↑y28 ↑y29 ↑y30 ↑y31 ↑y32 ↑y33 ↑y34 ↑y35 ↑y36 ↑y37 ↑y38 ↑y39
  have e : blend_C_fn ↑x0 ↑x1 ↑x2 ↑x3 ↑x4 ↑x5 ↑x6 ↑x7 ↑x8 ↑x9 ↑x10 ↑x11 ↑x12 ↑x13 ↑x14 ↑x15 ↑x16 ↑x17 ↑x18 ↑x19 ↑x20 ↑x21 ↑x22 ↑x23 ↑x24 ↑x25 ↑x26 ↑x27 ↑x28 ↑x29 ↑x30 ↑x31 ↑x32 ↑x33 ↑x34 ↑x35 ↑x36 ↑x37 ↑x38 ↑x39 ↑y0 ↑y1 ↑y2 ↑y3 ↑y4 ↑y5 ↑y6 ↑y7 ↑y8 ↑y9 ↑y10 ↑y11 ↑y12 ↑y13 ↑y14 ↑y15 ↑y16 ↑y17 ↑y18 ↑y19 ↑y20 ↑y21 ↑y22 ↑y23 ↑y24 ↑y25 ↑y26 ↑y27 ↑y28 ↑y29 ↑y30 ↑y31 ↑y32 ↑y33 ↑y34 ↑y35 ↑y36 ↑y37 ↑y38 ↑y39 = toZ out := (blend_C_fn_ok ↑x0 ↑x1 ↑x2 ↑x3 ↑x4 ↑x5 ↑x6 ↑x7 ↑x8 ↑x9 ↑x10 ↑x11 ↑x12 ↑x13 ↑x14 ↑x15 ↑x16 ↑x17 ↑x18 ↑x19 ↑x20 ↑x21 ↑x22 ↑x23 ↑x24 ↑x25 ↑x26 ↑x27 ↑x28 ↑x29 ↑x30 ↑x31 ↑x32 ↑x33 ↑x34 ↑x35 ↑x36 ↑x37 ↑x38 ↑x39 ↑y0 ↑y1 ↑y2 ↑y3 ↑y4 ↑y5 ↑y6 ↑y7 ↑y8 ↑y9 ↑y10 ↑y11 ↑y12 ↑y13 ↑y14 ↑y15 ↑y16 ↑y17 ↑y18 ↑y19 ↑y20 ↑y21 ↑y22 ↑y23 ↑y24 ↑y25 ↑y26 ↑y27 ↑y28 ↑y29 ↑y30 ↑y31 ↑y32 ↑y33 ↑y34 ↑y35 ↑y36 ↑y37 ↑y38 ↑y39).symm.trans hZ
  rw [e] at h
  exact h

/-- `x.blend(y, Lanes::D)`: elements D from `y`, the others from `x` -/
theorem blend_D_spec (hin : EnvIn (X ++ Y) Avx2Field.pre_blend_D) :
    ∃ out, Dalek.Gen.Avx2Field.blend_D.evalC (X ++ Y) = some out ∧ Dalek.Gen.Avx2Field.blend_D.evalW (X ++ Y) = out ∧
      ∀ k : Lane, vecLimbs k out = k.sel (vecLimbs .A X) (vecLimbs .B X) (vecLimbs .C X) (vecLimbs .D Y) := by
  obtain ⟨out, hC, hW, _, hZ⟩ := Prog.norm_sound _ _ _ _ blend_D_norm_ok _ hin
  refine ⟨out, hC, hW, fun k => ?_⟩
  have h := blend_D_correct k ↑x0 ↑x1 ↑x2 ↑x3 ↑x4 ↑x5 ↑x6 ↑x7 ↑x8 ↑x9 ↑x10 ↑x11 ↑x12 ↑x13 ↑x14 ↑x15 ↑x16 ↑x17 ↑x18 ↑x19 ↑x20 ↑x21 ↑x22 ↑x23 ↑x24 ↑x25 ↑x26 ↑x27 ↑x28 ↑x29 ↑x30 ↑x31 ↑x32 ↑x33 ↑x34 ↑x35 ↑x36 ↑x37 ↑x38 ↑x39 ↑y0 ↑y1 ↑y2 ↑y3 ↑y4 ↑y5 ↑y6 ↑y7 ↑y8 ↑y9 ↑y10 ↑y11 ↑y12 ↑y13 ↑y14 ↑y15 ↑y16 ↑y17 ↑y18 ↑y19 ↑y20 ↑y21 ↑y22 ↑y23 ↑y24 ↑y25 ↑y26 ↑y27 ↑y28 ↑y29 ↑y30 ↑y31 ↑y32 ↑y33 ↑y34 ↑y35 ↑y36 ↑y37 ↑y38 ↑y39
  have e : blend_D_fn ↑x0 ↑x1 ↑x2 ↑x3 ↑x4 ↑x5 ↑x6 ↑x7 ↑x8 ↑x9 ↑x10 ↑x11 ↑x12 ↑x13 ↑x14 ↑x15 ↑x16 ↑x17 ↑x18 ↑x19 ↑x20 ↑x21 ↑x22 ↑x23 ↑x24 ↑x25 ↑x26 ↑x27 ↑x28 ↑x29 ↑x30 ↑x31 ↑x32 ↑x33 ↑x34 ↑x35 ↑x36 ↑x37 ↑x38 ↑x39 ↑y0 ↑y1 ↑y2 ↑y3 ↑y4 ↑y5 ↑y6 ↑y7 ↑y8 ↑y9 ↑y10 ↑y11 ↑y12 ↑y13 ↑y14 ↑y15 ↑y16 ↑y17 ↑y18 ↑y19 ↑y20 ↑y21 ↑y22 ↑y23 ↑y24 ↑y25 ↑y26 ↑y27 ↑y28 ↑y29 ↑y30 ↑y31 ↑y32 ↑y33 ↑y34 ↑y35 ↑y36 ↑y37 ↑y38 ↑y39 = toZ out := (blend_D_fn_ok ↑x0 ↑x1 ↑x2 ↑x3 ↑x4 ↑x5 ↑x6 ↑x7 ↑x8 ↑x9 ↑x10 ↑x11 ↑x12 ↑x13 ↑x14 ↑x15 ↑x16 ↑x17 ↑x18 ↑x19 ↑x20 ↑x21 ↑x22 ↑x23 ↑x24 ↑x25 ↑x26 ↑x27 ↑x28 ↑x29 ↑x30 ↑x31 ↑x32 ↑x33 ↑x34 ↑x35 ↑x36 ↑x37 ↑x38 ↑x39 ↑y0 ↑y1 ↑y2 ↑y3 ↑y4 ↑y5 ↑y6 ↑y7 ↑y8 ↑y9 ↑y10 ↑y11 ↑y12 ↑y13 ↑y14 ↑y15 ↑y16 ↑y17 ↑y18 ↑y19 ↑y20 ↑y21 ↑y22 ↑y23 ↑y24 ↑y25 ↑y26 ↑y27 ↑y28 ↑y29 ↑y30 ↑y31 ↑y32 ↑y33 ↑y34 ↑y35 ↑y36 ↑y37 ↑y38 ↑y39).symm.trans hZ
  rw [e] at h
  exact h

/-- `x.blend(y, Lanes::AB)`: elements A,B from `y`, the others from `x` -/
theorem blend_AB_spec (hin : EnvIn (X ++ Y) Avx2Field.pre_blend_AB) :
    ∃ out, Dalek.Gen.Avx2Field.blend_AB.evalC (X ++ Y) = some out ∧ Dalek.Gen.Avx2Field.blend_AB.evalW (X ++ Y) = out ∧
      ∀ k : Lane, vecLimbs k out = k.sel (vecLimbs .A Y) (vecLimbs .B Y) (vecLimbs .C X) (vecLimbs .D X) := by
  obtain ⟨out, hC, hW, _, hZ⟩ := Prog.norm_sound _ _ _ _ blend_AB_norm_ok _ hin
  refine ⟨out, hC, hW, fun k => ?_⟩
  have h := blend_AB_correct k ↑x0 ↑x1 ↑x2 ↑x3 ↑x4 ↑x5 ↑x6 ↑x7 ↑x8 ↑x9 ↑x10 ↑x11 ↑x12 ↑x13 ↑x14 ↑x15 ↑x16 ↑x17 ↑x18 ↑x19 ↑x20 ↑x21 ↑x22 ↑x23 ↑x24 ↑x25 ↑x26 ↑x27 ↑x28 ↑x29 ↑x30 ↑x31 ↑x32 ↑x33 ↑x34 ↑x35 ↑x36 ↑x37 ↑x38 ↑x39 ↑y0 ↑y1 ↑y2 ↑y3 ↑y4 ↑y5 ↑y6 ↑y7 ↑y8 ↑y9 ↑y10 ↑y11 ↑y12 ↑y13 ↑y14 ↑y15 ↑y16 ↑y17 ↑y18 ↑y19 ↑y20 ↑y21 ↑y22 ↑y23 ↑y24 ↑y25 ↑y26 ↑y27 ↑y28 ↑y29 ↑y30 ↑y31 ↑y32 ↑y33 ↑y34 ↑y35 ↑y36 ↑y37 ↑y38 ↑y39
  have e : blend_AB_fn ↑x0 ↑x1 ↑x2 ↑x3 ↑x4 ↑x5 ↑x6 ↑x7 ↑x8 ↑x9 ↑x10 ↑x11 ↑x12 ↑x13 ↑x14 ↑x15 ↑x16 ↑x17 ↑x18 ↑x19 ↑x20 ↑x21 ↑x22 ↑x23 ↑x24 ↑x25 ↑x26 ↑x27 ↑x28 ↑x29 ↑x30 ↑x31 ↑x32 ↑x33 ↑x34 ↑x35 ↑x36 ↑x37 ↑x38 ↑x39 ↑y0 ↑y1 ↑y2 ↑y3 ↑y4 ↑y5 ↑y6 ↑y7 ↑y8 ↑y9 ↑y10 ↑y11 ↑y12 ↑y13 ↑y14 ↑y15 ↑y16 ↑y17 ↑y18 ↑y19 ↑y20 ↑y21 ↑y22 ↑y23 ↑y24 ↑y25 ↑y26 ↑y27 ↑y28 ↑y29 ↑y30 ↑y31 ↑y32 ↑y33 ↑y34 ↑y35 ↑y36 ↑y37 ↑y38 ↑y39 = toZ out := (blend_AB_fn_ok ↑x0 ↑x1 ↑x2 ↑x3 ↑x4 ↑x5 ↑x6 ↑x7 ↑x8 ↑x9 ↑x10 ↑x11 ↑x12 ↑x13 ↑x14 ↑x15 ↑x16 ↑x17 ↑x18 ↑x19 ↑x20 ↑x21 ↑x22 ↑x23 ↑x24 ↑x25 ↑x26 ↑x27 ↑x28 ↑x29 ↑x30 ↑x31 ↑x32 ↑x33 ↑x34 ↑x35 ↑x36 ↑x37 ↑x38 ↑x39 ↑y0 ↑y1 ↑y2 ↑y3 ↑y4 ↑y5 ↑y6 ↑y7 ↑y8 ↑y9 ↑y10 ↑y11 ↑y12 ↑y13 ↑y14 ↑y15 ↑y16 ↑y17 ↑y18 ↑y19 ↑y20 ↑y21 ↑y22 ↑y23 ↑y24 ↑y25 ↑y26 ↑y27 ↑y28 ↑y29 ↑y30 ↑y31 ↑y32 ↑y33 ↑y34 ↑y35 ↑y36 ↑y37 ↑y38 ↑y39).symm.trans hZ
  rw [e] at h
  exact h

/-- `x.blend(y, Lanes::AC)`: elements A,C from `y`, the others from `x` -/
theorem blend_AC_spec (hin : EnvIn (X ++ Y) Avx2Field.pre_blend_AC) :
    ∃ out, Dalek.Gen.Avx2Field.blend_AC.evalC (X ++ Y) = some out ∧ Dalek.Gen.Avx2Field.blend_AC.evalW (X ++ Y) = out ∧
      ∀ k : Lane, vecLimbs k out = k.sel (vecLimbs .A Y) (vecLimbs .B X) (vecLimbs .C Y) (vecLimbs .D X) := by
  obtain ⟨out, hC, hW, _, hZ⟩ := Prog.norm_sound _ _ _ _ blend_AC_norm_ok _ hin
  refine ⟨out, hC, hW, fun k => ?_⟩
  have h := blend_AC_correct k ↑x0 ↑x1 ↑x2 ↑x3 ↑x4 ↑x5 ↑x6 ↑x7 ↑x8 ↑x9 ↑x10 ↑x11 ↑x12 ↑x13 ↑x14 ↑x15 ↑x16 ↑x17 ↑x18 ↑x19 ↑x20 ↑x21 ↑x22 ↑x23 ↑x24 ↑x25 ↑x26 ↑x27 ↑x28 ↑x29 ↑x30 ↑x31 ↑x32 ↑x33 ↑x34 ↑x35 ↑x36 ↑x37 ↑x38 ↑x39 ↑y0 ↑y1 ↑y2 ↑y3 ↑y4 ↑y5 ↑y6 ↑y7 ↑y8 ↑y9 ↑y10 ↑y11 ↑y12 ↑y13 ↑y14 ↑y15 ↑y16 ↑y17 ↑y18 ↑y19 ↑y20 ↑y21 ↑y22 ↑y23 ↑y24 ↑y25 ↑y26 ↑y27 ↑y28 ↑y29 ↑y30 ↑y31 ↑y32 ↑y33 ↑y34 ↑y35 ↑y36 ↑y37 ↑y38 ↑y39
  have e : blend_AC_fn ↑x0 ↑x1 ↑x2 ↑x3 ↑x4 ↑x5 ↑x6 ↑x7 ↑x8 ↑x9 ↑x10 ↑x11 ↑x12 ↑x13 ↑x14 ↑x15 ↑x16 ↑x17 ↑x18 ↑x19 ↑x20 ↑x21 ↑x22 ↑x23 ↑x24 ↑x25 ↑x26 ↑x27 ↑x28 ↑x29 ↑x30 ↑x31 ↑x32 ↑x33 ↑x34 ↑x35 ↑x36 ↑x37 ↑x38 ↑x39 ↑y0 ↑y1 ↑y2 ↑y3 ↑y4 ↑y5 ↑y6 ↑y7 ↑y8 ↑y9 ↑y10 ↑y11 ↑y12 ↑y13 ↑y14 ↑y15 ↑y16 ↑y17 ↑y18 ↑y19 ↑y20 ↑y21 ↑y22 ↑y23 ↑y24 ↑y25 ↑y26 ↑y27 ↑y28 ↑y29 ↑y30 ↑y31 ↑y32 ↑y33 ↑y34 ↑y35 ↑y36 ↑y37 ↑y38 ↑y39 = toZ out := (blend_AC_fn_ok ↑x0 ↑x1 ↑x2 ↑x3 ↑x4 ↑x5 ↑x6 ↑x7 ↑x8 ↑x9 ↑x10 ↑x11 ↑x12 ↑x13 ↑x14 ↑x15 ↑x16 ↑x17 ↑x18 ↑x19 ↑x20 ↑x21 ↑x22 ↑x23 ↑x24 ↑x25 ↑x26 ↑x27 ↑x28 ↑x29 ↑x30 ↑x31 ↑x32 ↑x33 ↑x34 ↑x35 ↑x36 ↑x37 ↑x38 ↑x39 ↑y0 ↑y1 ↑y2 ↑y3 ↑y4 ↑y5 ↑y6 ↑y7 ↑y8 ↑y9 ↑y10 ↑y11 ↑y12 ↑y13 ↑y14 ↑y15 ↑y16 ↑y17 ↑y18 ↑y19 ↑y20 ↑y21 ↑y22 ↑y23 ↑y24 ↑y25 ↑y26 ↑y27 ↑y28 ↑y29 ↑y30 ↑y31 ↑y32 ↑y33 ↑y34 ↑y35 ↑y36 ↑y37 ↑y38 ↑y39).symm.trans hZ
  rw [e] at h
  exact h

/-- `x.blend(y, Lanes::CD)`: elements C,D from `y`, the others from `x` -/
theorem blend_CD_spec (hin : EnvIn (X ++ Y) Avx2Field.pre_blend_CD) :
    ∃ out, Dalek.Gen.Avx2Field.blend_CD.evalC (X ++ Y) = some out ∧ Dalek.Gen.Avx2Field.blend_CD.evalW (X ++ Y) = out ∧
      ∀ k : Lane, vecLimbs k out = k.sel (vecLimbs .A X) (vecLimbs .B X) (vecLimbs .C Y) (vecLimbs .D Y) := by
  obtain ⟨out, hC, hW, _, hZ⟩ := Prog.norm_sound _ _ _ _ blend_CD_norm_ok _ hin
  refine ⟨out, hC, hW, fun k => ?_⟩
  have h := blend_CD_correct k ↑x0 ↑x1 ↑x2 ↑x3 ↑x4 ↑x5 ↑x6 ↑x7 ↑x8 ↑x9 ↑x10 ↑x11 ↑x12 ↑x13 ↑x14 ↑x15 ↑x16 ↑x17 ↑x18 ↑x19 ↑x20 ↑x21 ↑x22 ↑x23 ↑x24 ↑x25 ↑x26 ↑x27 ↑x28 ↑x29 ↑x30 ↑x31 ↑x32 ↑x33 ↑x34 ↑x35 ↑x36 ↑x37 ↑x38 ↑x39 ↑y0 ↑y1 ↑y2 ↑y3 ↑y4 ↑y5 ↑y6 ↑y7 ↑y8 ↑y9 ↑y10 ↑y11 ↑y12 ↑y13 ↑y14 ↑y15 ↑y16 ↑y17 ↑y18 ↑y19 ↑y20 ↑y21 ↑y22 ↑y23 ↑y24 ↑y25 ↑y26 ↑y27 ↑y28 ↑y29 ↑y30 ↑y31 ↑y32 ↑y33 ↑y34 ↑y35 ↑y36 ↑y37 ↑y38 ↑y39
  have e : blend_CD_fn ↑x0 ↑x1 ↑x2 ↑x3 ↑x4 ↑x5 ↑x6 ↑x7 ↑x8 ↑x9 ↑x10 ↑x11 ↑x12 ↑x13 ↑x14 ↑x15 ↑x16 ↑x17 ↑x18 ↑x19 ↑x20 ↑x21 ↑x22 ↑x23 ↑x24 ↑x25 ↑x26 ↑x27 ↑x28 ↑x29 ↑x30 ↑x31 ↑x32 ↑x33 ↑x34 ↑x35 ↑x36 ↑x37 ↑x38 ↑x39 ↑y0 ↑y1 ↑y2 ↑y3 ↑y4 ↑y5 ↑y6 ↑y7 ↑y8 ↑y9 ↑y10 ↑y11 ↑y12 ↑y13 ↑y14 ↑y15 ↑y16 ↑y17 ↑y18 ↑y19 ↑y20 ↑y21 ↑y22 ↑y23 ↑y24 ↑y25 ↑y26 ↑y27 ↑y28 ↑y29 ↑y30 ↑y31 ↑y32 ↑y33 ↑y34 ↑y35 ↑y36 ↑y37 ↑y38 ↑y39 = toZ out := (blend_CD_fn_ok ↑x0 ↑x1 ↑x2 ↑x3 ↑x4 ↑x5 ↑x6 ↑x7 ↑x8 ↑x9 ↑x10 ↑x11 ↑x12 ↑x13 ↑x14 ↑x15 ↑x16 ↑x17 ↑x18 ↑x19 ↑x20 ↑x21 ↑x22 ↑x23 ↑x24 ↑x25 ↑x26 ↑x27 ↑x28 ↑x29 ↑x30 ↑x31 ↑x32 ↑x33 ↑x34 ↑x35 ↑x36 ↑x37 ↑x38 ↑x39 ↑y0 ↑y1 ↑y2 ↑y3 ↑y4 ↑y5 ↑y6 ↑y7 ↑y8 ↑y9 ↑y10 ↑y11 ↑y12 ↑y13 ↑y14 ↑y15 ↑y16 ↑y17 ↑y18 ↑y19 ↑y20 ↑y21 ↑y22 ↑y23 ↑y24 ↑y25 ↑y26 ↑y27 ↑y28 ↑y29 ↑y30 ↑y31 ↑y32 ↑y33 ↑y34 ↑y35 ↑y36 ↑y37 ↑y38 ↑y39).symm.trans hZ
  rw [e] at h
  exact h

/-- `x.blend(y, Lanes::AD)`: elements A,D from `y`, the others from `x` -/
theorem blend_AD_spec (hin : EnvIn (X ++ Y) Avx2Field.pre_blend_AD) :
    ∃ out, Dalek.Gen.Avx2Field.blend_AD.evalC (X ++ Y) = some out ∧ Dalek.Gen.Avx2Field.blend_AD.evalW (X ++ Y) = out ∧
      ∀ k : Lane, vecLimbs k out = k.sel (vecLimbs .A Y) (vecLimbs .B X) (vecLimbs .C X) (vecLimbs .D Y) := by
  obtain ⟨out, hC, hW, _, hZ⟩ := Prog.norm_sound _ _ _ _ blend_AD_norm_ok _ hin
  refine ⟨out, hC, hW, fun k => ?_⟩
  have h := blend_AD_correct k ↑x0 ↑x1 ↑x2 ↑x3 ↑x4 ↑x5 ↑x6 ↑x7 ↑x8 ↑x9 ↑x10 ↑x11 ↑x12 ↑x13 ↑x14 ↑x15 ↑x16 ↑x17 ↑x18 ↑x19 ↑x20 ↑x21 ↑x22 ↑x23 ↑x24 ↑x25 ↑x26 ↑x27 ↑x28 ↑x29 ↑x30 ↑x31 ↑x32 ↑x33 ↑x34 ↑x35 ↑x36 ↑x37 ↑x38 ↑x39 ↑y0 ↑y1 ↑y2 ↑y3 ↑y4 ↑y5 ↑y6 ↑y7 ↑y8 ↑y9 ↑y10 ↑y11 ↑y12 ↑y13 ↑y14 ↑y15 ↑y16 ↑y17 ↑y18 ↑y19 ↑y20 ↑y21 ↑y22 ↑y23 ↑y24 ↑y25 ↑y26 ↑y27 ↑y28 ↑y29 ↑y30 ↑y31 ↑y32 ↑y33 ↑y34 ↑y35 ↑y36 ↑y37 ↑y38 ↑y39
  have e : blend_AD_fn ↑x0 ↑x1 ↑x2 ↑x3 ↑x4 ↑x5 ↑x6 ↑x7 ↑x8 ↑x9 ↑x10 ↑x11 ↑x12 ↑x13 ↑x14 ↑x15 ↑x16 ↑x17 ↑x18 ↑x19 ↑x20 ↑x21 ↑x22 ↑x23 ↑x24 ↑x25 ↑x26 ↑x27 ↑x28 ↑x29 ↑x30 ↑x31 ↑x32 ↑x33 ↑x34 ↑x35 ↑x36 ↑x37 ↑x38 ↑x39 ↑y0 ↑y1 ↑y2 ↑y3 ↑y4 ↑y5 ↑y6 ↑y7 ↑y8 ↑y9 ↑y10 ↑y11 ↑y12 ↑y13 ↑y14 ↑y15 ↑y16 ↑y17 ↑y18 ↑y19 ↑y20 ↑y21 ↑y22 ↑y23 ↑y24 ↑y25 ↑y26 ↑y27 ↑y28 ↑y29 ↑y30 ↑y31 ↑y32 ↑y33 ↑y34 ↑y35 ↑y36 ↑y37 ↑y38 ↑y39 = toZ out := (blend_AD_fn_ok ↑x0 ↑x1 ↑x2 ↑x3 ↑x4 ↑x5 ↑x6 ↑x7 ↑x8 ↑x9 ↑x10 ↑x11 ↑x12 ↑x13 ↑x14 ↑x15 ↑x16 ↑x17 ↑x18 ↑x19 ↑x20 ↑x21 ↑x22 ↑x23 ↑x24 ↑x25 ↑x26 ↑x27 ↑x28 ↑x29 ↑x30 ↑x31 ↑x32 ↑x33 ↑x34 ↑x35 ↑x36 ↑x37 ↑x38 ↑x39 ↑y0 ↑y1 ↑y2 ↑y3 ↑y4 ↑y5 ↑y6 ↑y7 ↑y8 ↑y9 ↑y10 ↑y11 ↑y12 ↑y13 ↑y14 ↑y15 ↑y16 ↑y17 ↑y18 ↑y19 ↑y20 ↑y21 ↑y22 ↑y23 ↑y24 ↑y25 ↑y26 ↑y27 ↑y28 ↑y29 ↑y30 ↑y31 ↑y32 ↑y33 ↑y34 ↑y35 ↑y36 ↑y37 ↑y38 ↑y39).symm.trans hZ
  rw [e] at h
  exact h

/-- `x.blend(y, Lanes::BC)`: elements B,C from `y`, the others from `x` -/
theorem blend_BC_spec (hin : EnvIn (X ++ Y) Avx2Field.pre_blend_BC) :
    ∃ out, Dalek.Gen.Avx2Field.blend_BC.evalC (X ++ Y) = some out ∧ Dalek.Gen.Avx2Field.blend_BC.evalW (X ++ Y) = out ∧
      ∀ k : Lane, vecLimbs k out = k.sel (vecLimbs .A X) (vecLimbs .B Y) (vecLimbs .C Y) (vecLimbs .D X) := by
  obtain ⟨out, hC, hW, _, hZ⟩ := Prog.norm_sound _ _ _ _ blend_BC_norm_ok _ hin
  refine ⟨out, hC, hW, fun k => ?_⟩
  have h := blend_BC_correct k ↑x0 ↑x1 ↑x2 ↑x3 ↑x4 ↑x5 ↑x6 ↑x7 ↑x8 ↑x9 ↑x10 ↑x11 ↑x12 ↑x13 ↑x14 ↑x15 ↑x16 ↑x17 ↑x18 ↑x19 ↑x20 ↑x21 ↑x22 ↑x23 ↑x24 ↑x25 ↑x26 ↑x27 ↑x28 ↑x29 ↑x30 ↑x31 ↑x32 ↑x33 ↑x34 ↑x35 ↑x36 ↑x37 ↑x38 ↑x39 ↑y0 ↑y1 ↑y2 ↑y3 ↑y4 ↑y5 ↑y6 ↑y7 ↑y8 ↑y9 ↑y10 ↑y11 ↑y12 ↑y13 ↑y14 ↑y15 ↑y16 ↑y17 ↑y18 ↑y19 ↑y20 ↑y21 ↑y22 ↑y23 ↑y24 ↑y25 ↑y26 ↑y27 ↑y28 ↑y29 ↑y30 ↑y31 ↑y32 ↑y33 ↑y34 ↑y35 ↑y36 ↑y37 ↑y38 ↑y39
  have e : blend_BC_fn ↑x0 ↑x1 ↑x2 ↑x3 ↑x4 ↑x5 ↑x6 ↑x7 ↑x8 ↑x9 ↑x10 ↑x11 ↑x12 ↑x13 ↑x14 ↑x15 ↑x16 ↑x17 ↑x18 ↑x19 ↑x20 ↑x21 ↑x22 ↑x23 ↑x24 ↑x25 ↑x26 ↑x27 ↑x28 ↑x29 ↑x30 ↑x31 ↑x32 ↑x33 ↑x34 ↑x35 ↑x36 ↑x37 ↑x38 ↑x39 ↑y0 ↑y1 ↑y2 ↑y3 ↑y4 ↑y5 ↑y6 ↑y7 ↑y8 ↑y9 ↑y10 ↑y11 ↑y12 ↑y13 ↑y14 ↑y15 ↑y16 ↑y17 ↑y18 ↑y19 ↑y20 ↑y21 ↑y22 ↑y23 ↑y24 ↑y25 ↑y26 ↑y27 ↑y28 ↑y29 ↑y30 ↑y31 ↑y32 ↑y33 ↑y34 ↑y35 ↑y36 ↑y37 ↑y38 ↑y39 = toZ out := (blend_BC_fn_ok ↑x0 ↑x1 ↑x2 ↑x3 ↑x4 ↑x5 ↑x6 ↑x7 ↑x8 ↑x9 ↑x10 ↑x11 ↑x12 ↑x13 ↑x14 ↑x15 ↑x16 ↑x17 ↑x18 ↑x19 ↑x20 ↑x21 ↑x22 ↑x23 ↑x24 ↑x25 ↑x26 ↑x27 ↑x28 ↑x29 ↑x30 ↑x31 ↑x32 ↑x33 ↑x34 ↑x35 ↑x36 ↑x37 ↑x38 ↑x39 ↑y0 ↑y1 ↑y2 ↑y3 ↑y4 ↑y5 ↑y6 ↑y7 ↑y8 ↑y9 ↑y10 ↑y11 ↑y12 ↑y13 ↑y14 ↑y15 ↑y16 ↑y17 ↑y18 ↑y19 ↑y20 ↑y21 ↑y22 ↑y23 ↑y24 ↑y25 ↑y26 ↑y27 ↑y28 ↑y29 ↑y30 ↑y31 ↑y32 ↑y33 ↑y34 ↑y35 ↑y36 ↑y37 ↑y38 ↑y39).symm.trans hZ
  rw [e] at h
  exact h

/-- `x.blend(y, Lanes::ABCD)`: elements A,B,C,D from `y`, the others from `x` -/
theorem blend_ABCD_spec (hin : EnvIn (X ++ Y) Avx2Field.pre_blend_ABCD) :
    ∃ out, Dalek.Gen.Avx2Field.blend_ABCD.evalC (X ++ Y) = some out ∧ Dalek.Gen.Avx2Field.blend_ABCD.evalW (X ++ Y) = out ∧
      ∀ k : Lane, vecLimbs k out = k.sel (vecLimbs .A Y) (vecLimbs .B Y) (vecLimbs .C Y) (vecLimbs .D Y) := by
  obtain ⟨out, hC, hW, _, hZ⟩ := Prog.norm_sound _ _ _ _ blend_ABCD_norm_ok _ hin
  refine ⟨out, hC, hW, fun k => ?_⟩
  have h := blend_ABCD_correct k ↑x0 ↑x1 ↑x2 ↑x3 ↑x4 ↑x5 ↑x6 ↑x7 ↑x8 ↑x9 ↑x10 ↑x11 ↑x12 ↑x13 ↑x14 ↑x15 ↑x16 ↑x17 ↑x18 ↑x19 ↑x20 ↑x21 ↑x22 ↑x23 ↑x24 ↑x25 ↑x26 ↑x27 ↑x28 ↑x29 ↑x30 ↑x31 ↑x32 ↑x33 ↑x34 ↑x35 ↑x36 ↑x37 ↑x38 ↑x39 ↑y0 ↑y1 ↑y2 ↑y3 ↑y4 ↑y5 ↑y6 ↑y7 ↑y8 ↑y9 ↑y10 ↑y11 ↑y12 ↑y13 ↑y14 ↑y15 ↑y16 ↑y17 ↑y18 ↑y19 ↑y20 ↑y21 ↑y22 ↑y23 ↑y24 ↑y25 ↑y26 ↑y27 ↑y28 ↑y29 ↑y30 ↑y31 ↑y32 ↑y33 ↑y34 ↑y35 ↑y36 ↑y37 ↑y38 ↑y39
  have e : blend_ABCD_fn ↑x0 ↑x1 ↑x2 ↑x3 ↑x4 ↑x5 ↑x6 ↑x7 ↑x8 ↑x9 ↑x10 ↑x11 ↑x12 ↑x13 ↑x14 ↑x15 ↑x16 ↑x17 ↑x18 ↑x19 ↑x20 ↑x21 ↑x22 ↑x23 ↑x24 ↑x25 ↑x26 ↑x27 ↑x28 ↑x29 ↑x30 ↑x31 ↑x32 ↑x33 ↑x34 ↑x35 ↑x36 ↑x37 ↑x38 ↑x39 ↑y0 ↑y1 ↑y2 ↑y3 ↑y4 ↑y5 ↑y6 ↑y7 ↑y8 ↑y9 ↑y10 ↑y11 ↑y12 ↑y13 ↑y14 ↑y15 ↑y16 ↑y17 ↑y18 ↑y19 ↑y20 ↑y21 ↑y22 ↑y23 ↑y24 ↑y25 ↑y26 ↑y27 ↑y28 ↑y29 ↑y30 ↑y31 ↑y32 ↑y33 ↑y34 ↑y35 ↑y36 ↑y37 ↑y38 ↑y39 = toZ out := (blend_ABCD_fn_ok ↑x0 ↑x1 ↑x2 ↑x3 ↑x4 ↑x5 ↑x6 ↑x7 ↑x8 ↑x9 ↑x10 ↑x11 ↑x12 ↑x13 ↑x14 ↑x15 ↑x16 ↑x17 ↑x18 ↑x19 ↑x20 ↑x21 ↑x22 ↑x23 ↑x24 ↑x25 ↑x26 ↑x27 ↑x28 ↑x29 ↑x30 ↑x31 ↑x32 ↑x33 ↑x34 ↑x35 ↑x36 ↑x37 ↑x38 ↑x39 ↑y0 ↑y1 ↑y2 ↑y3 ↑y4 ↑y5 ↑y6 ↑y7 ↑y8 ↑y9 ↑y10 ↑y11 ↑y12 ↑y13 ↑y14 ↑y15 ↑y16 ↑y17 ↑y18 ↑y19 ↑y20 ↑y21 ↑y22 ↑y23 ↑y24 ↑y25 ↑y26 ↑y27 ↑y28 ↑y29 ↑y30 ↑y31 ↑y32 ↑y33 ↑y34 ↑y35 ↑y36 ↑y37 ↑y38 ↑y39).symm.trans hZ
  rw [e] at h
  exact h

end

/-- `FieldElement2625x4::new(a, b, c, d)`: four `FieldElement51` with limbs `< 2^54` ↦ vector bounded with
`b < 0.0002` whose element `k` has the value of the `k`-th argument -/
theorem new_spec (a0 a1 a2 a3 a4 b0 b1 b2 b3 b4 c0 c1 c2 c3 c4 d0 d1 d2 d3 d4 : Nat)
    (hin : EnvIn (a0 :: a1 :: a2 :: a3 :: a4 :: b0 :: b1 :: b2 :: b3 :: b4 :: c0 :: c1 :: c2 :: c3 :: c4 :: d0 :: d1 :: d2 :: d3 :: d4 :: []) Avx2Field.pre_new) :
    ∃ out, Dalek.Gen.Avx2Field.new.evalC (a0 :: a1 :: a2 :: a3 :: a4 :: b0 :: b1 :: b2 :: b3 :: b4 :: c0 :: c1 :: c2 :: c3 :: c4 :: d0 :: d1 :: d2 :: d3 :: d4 :: []) = some out ∧
      Dalek.Gen.Avx2Field.new.evalW (a0 :: a1 :: a2 :: a3 :: a4 :: b0 :: b1 :: b2 :: b3 :: b4 :: c0 :: c1 :: c2 :: c3 :: c4 :: d0 :: d1 :: d2 :: d3 :: d4 :: []) = out ∧
      EnvIn out b0002 ∧
      ∀ k : Lane, vecVal k out = elemVal k (a0 :: a1 :: a2 :: a3 :: a4 :: b0 :: b1 :: b2 :: b3 :: b4 :: c0 :: c1 :: c2 :: c3 :: c4 :: d0 :: d1 :: d2 :: d3 :: d4 :: []) := by
  obtain ⟨out, hC, hW, hpost, hZ⟩ := Prog.norm_sound _ _ _ _ new_norm_ok _ hin
  refine ⟨out, hC, hW, EnvIn_of_itvsLe hpost (by decide +kernel), fun k => ?_⟩
  have hb := bounded_of_envIn hin
  rw [show Avx2Field.pre_new.map (·.hi) = List.replicate 20 18014398509481983 by decide +kernel] at hb
  have h := new_correct k ↑a0 ↑a1 ↑a2 ↑a3 ↑a4 ↑b0 ↑b1 ↑b2 ↑b3 ↑b4 ↑c0 ↑c1 ↑c2 ↑c3 ↑c4 ↑d0 ↑d1 ↑d2 ↑d3 ↑d4 hb
  have e : new_fn ↑a0 ↑a1 ↑a2 ↑a3 ↑a4 ↑b0 ↑b1 ↑b2 ↑b3 ↑b4 ↑c0 ↑c1 ↑c2 ↑c3 ↑c4 ↑d0 ↑d1 ↑d2 ↑d3 ↑d4 = toZ out := (new_fn_ok ↑a0 ↑a1 ↑a2 ↑a3 ↑a4 ↑b0 ↑b1 ↑b2 ↑b3 ↑b4 ↑c0 ↑c1 ↑c2 ↑c3 ↑c4 ↑d0 ↑d1 ↑d2 ↑d3 ↑d4).symm.trans hZ
  rw [e] at h
  exact h

/-- the value of an element is a function of its ten limbs: the shuffle / blend statements transfer to values -/
theorem vecVal_congr {k k' : Lane} {v w : List Nat} (h : vecLimbs k v = vecLimbs k' w) : vecVal k v = vecVal k' w := by
  rw [vecVal_eq_limbs, vecVal_eq_limbs, h]

/-! Non-vacuity: the all-lanes-at-the-bound inputs satisfy the contracts (the hypotheses of the theorems above are
`EnvIn <input> pre_<k>` for arbitrary inputs, so this shows they are satisfiable at the extreme point). -/
example : EnvIn (Avx2Field.pre_new.map (·.hi)) Avx2Field.pre_new := by decide +kernel
example : EnvIn (Avx2Field.pre_split.map (·.hi)) Avx2Field.pre_split := by decide +kernel
example : EnvIn (Avx2Field.pre_negate_lazy.map (·.hi)) Avx2Field.pre_negate_lazy := by decide +kernel
example : EnvIn (Avx2Field.pre_diff_sum.map (·.hi)) Avx2Field.pre_diff_sum := by decide +kernel
example : EnvIn (Avx2Field.pre_reduce.map (·.hi)) Avx2Field.pre_reduce := by decide +kernel
example : EnvIn (Avx2Field.pre_neg.map (·.hi)) Avx2Field.pre_neg := by decide +kernel
example : EnvIn (Avx2Field.pre_add.map (·.hi)) Avx2Field.pre_add := by decide +kernel
example : EnvIn (Avx2Field.pre_mul_consts.map (·.hi)) Avx2Field.pre_mul_consts := by decide +kernel
example : EnvIn (Avx2Field.pre_square_and_negate_D.map (·.hi)) Avx2Field.pre_square_and_negate_D := by decide +kernel
example : EnvIn (Avx2Field.pre_mul.map (·.hi)) Avx2Field.pre_mul := by decide +kernel
example : EnvIn (Avx2Field.pre_reduce64.map (·.hi)) Avx2Field.pre_reduce64 := by decide +kernel
example : EnvIn (Avx2Field.pre_conditional_select.map (·.hi)) Avx2Field.pre_conditional_select := by decide +kernel
example : EnvIn (Avx2Field.pre_conditional_assign.map (·.hi)) Avx2Field.pre_conditional_assign := by decide +kernel
example : EnvIn (Avx2Field.pre_shuffle_BADC.map (·.hi)) Avx2Field.pre_shuffle_BADC := by decide +kernel
example : EnvIn (Avx2Field.pre_blend_AB.map (·.hi)) Avx2Field.pre_blend_AB := by decide +kernel

end Dalek.Props.C01.Avx2

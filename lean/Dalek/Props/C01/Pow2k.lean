import Dalek.Proofs.ListAux
import Dalek.Props.C01.Field51
import Dalek.Props.C01.Field26
/-!
# C01 — `pow2k` computes `self^(2^k)` (both serial backends)

`pow2k(k)` runs its loop body `k` times (`k ≥ 1` is a `debug_assert!` in the source: u64 is a
`loop { body; k -= 1; if k == 0 { break } }`, u32 is `z = self.square(); for _ in 1..k { z = z.square() }`, and the
translator checks that the u32 body is `square`).  The loop body is the regenerated LimbIR program
`Dalek.Gen.Field{51,26}.pow2k_body`; here it is iterated: `iterC` is the debug build (`none` = some iteration
panicked), `iterW` the release build.  For every input inside the contract of the body and every `k ≥ 1`: no iteration
panics, both builds agree, the result is reduced, and its value is `(value of the input)^(2^k)` in `ZMod p`.
-/
namespace Dalek.Props.C01.Pow2k
open Dalek.IR Dalek.Model.Contracts

/-- `k` iterations of `p` in the checked (debug-build) semantics; `none` as soon as one iteration panics -/
def iterC (p : Prog) : Nat → List Nat → Option (List Nat)
  | 0, a => some a
  | k + 1, a => (p.evalC a).bind (iterC p k)

/-- `k` iterations of `p` in the wrapping (release-build) semantics -/
def iterW (p : Prog) : Nat → List Nat → List Nat
  | 0, a => a
  | k + 1, a => iterW p k (p.evalW a)

namespace Field51
open Dalek.Props.C01.Field51 Dalek.Proofs.Field51

def pow2kC : Nat → List Nat → Option (List Nat) := iterC Dalek.Gen.Field51.pow2k_body
def pow2kW : Nat → List Nat → List Nat := iterW Dalek.Gen.Field51.pow2k_body

/-- `pow2k_body_spec` for an arbitrary limb list (its length is forced by the contract) -/
theorem pow2k_body_spec_list (a : List Nat) (hin : EnvIn a Field51.pre_pow2k_body) :
    ∃ out, Dalek.Gen.Field51.pow2k_body.evalC a = some out ∧ Dalek.Gen.Field51.pow2k_body.evalW a = out ∧
      EnvIn out reduced51 ∧ val51 out = val51 a ^ 2 := by
  obtain ⟨a0, a1, a2, a3, a4, rfl⟩ :=
    Dalek.Proofs.list_of_length_5 a ((EnvIn_length hin).trans (by decide +kernel))
  exact pow2k_body_spec a0 a1 a2 a3 a4 hin

/-- serial u64 `pow2k`: limbs below 2^54, `k ≥ 1` -/
theorem pow2k_spec (k : Nat) (hk : 1 ≤ k) (a : List Nat) (hin : EnvIn a Field51.pre_pow2k_body) :
    pow2kC k a = some (pow2kW k a) ∧ EnvIn (pow2kW k a) reduced51 ∧
      val51 (pow2kW k a) = val51 a ^ (2 ^ k) := by
  induction k, hk using Nat.le_induction generalizing a with
  | base =>
    obtain ⟨out, hC, hW, hpost, hv⟩ := pow2k_body_spec_list a hin
    subst hW
    refine ⟨?_, hpost, ?_⟩
    · simp only [pow2kC, pow2kW, iterC, iterW, hC, Option.bind_some]
    · simpa only [pow2kW, iterW, pow_one] using hv
  | succ k _ ih =>
    obtain ⟨out, hC, hW, hpost, hv⟩ := pow2k_body_spec_list a hin
    subst hW
    obtain ⟨ihC, ihpost, ihv⟩ := ih _ (EnvIn_of_itvsLe hpost (by decide +kernel))
    refine ⟨?_, ihpost, ?_⟩
    · simpa only [pow2kC, pow2kW, iterC, iterW, hC, Option.bind_some] using ihC
    · have : pow2kW (k + 1) a = pow2kW k (Dalek.Gen.Field51.pow2k_body.evalW a) := rfl
      rw [this, ihv, hv, ← pow_mul, pow_succ']

/-- non-vacuity -/
example : EnvIn (List.replicate 5 (2 ^ 54 - 1)) Field51.pre_pow2k_body := by decide +kernel

end Field51

namespace Field26
open Dalek.Props.C01.Field26 Dalek.Proofs.Field26

def pow2kC : Nat → List Nat → Option (List Nat) := iterC Dalek.Gen.Field26.pow2k_body
def pow2kW : Nat → List Nat → List Nat := iterW Dalek.Gen.Field26.pow2k_body

/-- `pow2k_body_spec` for an arbitrary limb list (its length is forced by the contract) -/
theorem pow2k_body_spec_list (a : List Nat) (hin : EnvIn a Field26.pre_pow2k_body) :
    ∃ out, Dalek.Gen.Field26.pow2k_body.evalC a = some out ∧ Dalek.Gen.Field26.pow2k_body.evalW a = out ∧
      EnvIn out reduced26 ∧ val26 out = val26 a ^ 2 := by
  obtain ⟨a0, a1, a2, a3, a4, a5, a6, a7, a8, a9, rfl⟩ :=
    Dalek.Proofs.list_of_length_10 a ((EnvIn_length hin).trans (by decide +kernel))
  exact pow2k_body_spec a0 a1 a2 a3 a4 a5 a6 a7 a8 a9 hin

/-- serial u32 `pow2k`: limbs `< 3.36 · 2^{26,25}` (excess `b < 1.75`), `k ≥ 1` -/
theorem pow2k_spec (k : Nat) (hk : 1 ≤ k) (a : List Nat) (hin : EnvIn a Field26.pre_pow2k_body) :
    pow2kC k a = some (pow2kW k a) ∧ EnvIn (pow2kW k a) reduced26 ∧
      val26 (pow2kW k a) = val26 a ^ (2 ^ k) := by
  induction k, hk using Nat.le_induction generalizing a with
  | base =>
    obtain ⟨out, hC, hW, hpost, hv⟩ := pow2k_body_spec_list a hin
    subst hW
    refine ⟨?_, hpost, ?_⟩
    · simp only [pow2kC, pow2kW, iterC, iterW, hC, Option.bind_some]
    · simpa only [pow2kW, iterW, pow_one] using hv
  | succ k _ ih =>
    obtain ⟨out, hC, hW, hpost, hv⟩ := pow2k_body_spec_list a hin
    subst hW
    obtain ⟨ihC, ihpost, ihv⟩ := ih _ (EnvIn_of_itvsLe hpost (by decide +kernel))
    refine ⟨?_, ihpost, ?_⟩
    · simpa only [pow2kC, pow2kW, iterC, iterW, hC, Option.bind_some] using ihC
    · have : pow2kW (k + 1) a = pow2kW k (Dalek.Gen.Field26.pow2k_body.evalW a) := rfl
      rw [this, ihv, hv, ← pow_mul, pow_succ']

/-- non-vacuity -/
example : EnvIn (Field26.pre_pow2k_body.map (·.hi)) Field26.pre_pow2k_body := by decide +kernel

end Field26

end Dalek.Props.C01.Pow2k

import Dalek.Proofs.KLane.Avx2_ExtendedPoint_from_EdwardsPoint
import Dalek.Proofs.KLane.Avx2_EdwardsPoint_from_ExtendedPoint
import Dalek.Proofs.KLane.Avx2_CachedPoint_from_ExtendedPoint
import Dalek.Proofs.KLane.Avx2_ExtendedPoint_double
import Dalek.Proofs.KLane.Avx2_ExtendedPoint_mul_by_pow_2_body
import Dalek.Proofs.KLane.Avx2_ExtendedPoint_add_CachedPoint
import Dalek.Proofs.KLane.Avx2_ExtendedPoint_sub_CachedPoint
import Dalek.Proofs.KLane.Avx2_CachedPoint_neg
import Dalek.Proofs.KLane.Avx2_ExtendedPoint_identity
import Dalek.Proofs.KLane.Avx2_CachedPoint_identity
import Dalek.Proofs.KLane.Avx2_ExtendedPoint_conditional_select
import Dalek.Proofs.KLane.Avx2_ExtendedPoint_conditional_assign
import Dalek.Proofs.KLane.Avx2_CachedPoint_conditional_select
import Dalek.Proofs.KLane.Avx2_CachedPoint_conditional_assign
import Dalek.Proofs.KLane.Ifma_ExtendedPoint_from_EdwardsPoint
import Dalek.Proofs.KLane.Ifma_EdwardsPoint_from_ExtendedPoint
import Dalek.Proofs.KLane.Ifma_CachedPoint_from_ExtendedPoint
import Dalek.Proofs.KLane.Ifma_ExtendedPoint_double
import Dalek.Proofs.KLane.Ifma_ExtendedPoint_mul_by_pow_2_body
import Dalek.Proofs.KLane.Ifma_ExtendedPoint_add_CachedPoint
import Dalek.Proofs.KLane.Ifma_ExtendedPoint_sub_CachedPoint
import Dalek.Proofs.KLane.Ifma_CachedPoint_neg
import Dalek.Proofs.KLane.Ifma_ExtendedPoint_identity
import Dalek.Proofs.KLane.Ifma_CachedPoint_identity
import Dalek.Proofs.KLane.Ifma_CachedPoint_conditional_select
import Dalek.Proofs.KLane.Ifma_CachedPoint_conditional_assign
import Dalek.Proofs.KLane.Bridge
import Dalek.Proofs.KLane.Programs
import Dalek.Props.C03.Vector
import Dalek.Props.C11.VecChain
/-!
# C01 — the parallel point formulas, as the sequences of calls of the real limb kernels, compute their lane formulas
# (and hence the group law) down to the machine words

For every point formula of `backend/vector/{avx2,ifma}/edwards.rs` the translator emits (regenerated on every run)
* a `KProg` `Dalek.Gen.K{Avx2,Ifma}Edwards.<item>`: the straight-line sequence of CALLS of the translated limb kernels
  (`Dalek.Gen.{Avx2,Ifma}Field.*`, programs over u32 / u64 machine words), and
* an AlgIR program `Dalek.Gen.Alg{Avx2,Ifma}Edwards.<item>` over FIELD values, one variable per lane, produced with a
  table "method name ↦ lane meaning" inside the translator; the group-law theorems of `Props/C03/Vector.lean` are about
  these.

`<item>_lanes` (REFINEMENT): for ALL machine-word inputs inside the representation invariants (`Dalek.Model.VecInv`, the same
pre-intervals as in `Props/C11/VecChain`: `<item>_safe`), the overflow-checked run of the kernel calls succeeds, equals the
wrapping (release) run, the result is inside the invariant, and EVERY LANE VALUE of the result (`vecVal k out` resp.
`vecVal51 k out`: the field value `Σ 2^⌈25.5 m⌉·limb_m` resp. `Σ 2^(51 m)·limb_m` of the limbs of element `k`) is the
corresponding output of the AlgIR item run in the field `Fp` (`zmodOpsV`) on the lane values of the inputs.  So the
translator's lane-meaning table is no longer trusted: it is replaced by the PROVED table `Dalek.Proofs.KLane.{Avx2,Ifma}.table`
(every entry a theorem about the kernel, from `Props/C01/{Avx2,Ifma}.lean`) and the verified scalariser `KProg.scal`
(`Dalek/Proofs/KLane.lean`).

`<item>_limb_spec` (GROUP LAW ON MACHINE WORDS): combined with `Props/C03/Vector.lean`: if the lane values of the input
words represent curve points, the lane values of the output words of the kernel calls represent the result of the group
operation.  `RepExtW P x` : the words `x` of a vector `ExtendedPoint` represent `P` (`RepExt` of its four lane values
`(A,B,C,D) = (X,Y,Z,T)`); `RepCachedW Q x` likewise for a vector `CachedPoint` (`RepCached`).
-/
set_option maxRecDepth 100000
namespace Dalek.Props.C01.VecFormulas
open Dalek.IR Dalek.Gen Dalek.Model.VecInv Dalek.Proofs Dalek.Proofs.KLane Dalek.Proofs.Avx2Field Dalek.Proofs.IfmaField
open Dalek.Edwards
open Dalek.Bridge (Ed)
open Dalek.Props.C11.VecChain (Step Formulas Backend VOp Ty Typed wellTyped runWith avx2Backend ifmaBackend)

/-- four serial `FieldElement51` (limb lists `X, Y, Z, T`) are extended coordinates of `P` -/
def RepFe (P : Ed) (X Y Z T : List Nat) : Prop := RepExt P (feVal X) (feVal Y) (feVal Z) (feVal T)

/-- the 20 limbs `l` (four serial `FieldElement51` `X, Y, Z, T`, 5 limbs each) are extended coordinates of `P` -/
def RepSer (P : Ed) (l : List Nat) : Prop := RepExt P (elemVal .A l) (elemVal .B l) (elemVal .C l) (elemVal .D l)

/-- the group element reached by a history of steps from `P`: `dbl` doubles, `add q` / `sub q` add / subtract the point
`pt q` denoted by the cached-point words `q` -/
def histPoint (pt : List Nat → Ed) : Ed → List Step → Ed
  | P, [] => P
  | P, .dbl :: ss => histPoint pt (2 • P) ss
  | P, .add q :: ss => histPoint pt (P + pt q) ss
  | P, .sub q :: ss => histPoint pt (P - pt q) ss

/-- the cached operands of a history denote the points given by `pt` -/
def stepsRep (RepC : Ed → List Nat → Prop) (pt : List Nat → Ed) : List Step → Prop
  | [] => True
  | .dbl :: ss => stepsRep RepC pt ss
  | .add q :: ss => RepC (pt q) q ∧ stepsRep RepC pt ss
  | .sub q :: ss => RepC (pt q) q ∧ stepsRep RepC pt ss

/-! ## The AVX2 backend (`backend/vector/avx2/edwards.rs`) -/

namespace Avx2

/-- the 40 u32 words `x` of an `avx2::ExtendedPoint` represent the curve point `P` -/
def RepExtW (P : Ed) (x : List Nat) : Prop := RepExt P (vecVal .A x) (vecVal .B x) (vecVal .C x) (vecVal .D x)

/-- the 40 u32 words `x` of an `avx2::CachedPoint` represent the curve point `Q` -/
def RepCachedW (Q : Ed) (x : List Nat) : Prop := RepCached Q (vecVal .A x) (vecVal .B x) (vecVal .C x) (vecVal .D x)

/-- `ExtendedPoint::from(EdwardsPoint)` (one call of `new`): lanes of the result = AlgIR item on the values of `X, Y, Z, T` -/
theorem ExtendedPoint_from_EdwardsPoint_lanes (X Y Z T : List Nat) (hX : EnvIn X fe54) (hY : EnvIn Y fe54) (hZ : EnvIn Z fe54) (hT : EnvIn T fe54) :
    ∃ out, KAvx2Edwards.ExtendedPoint_from_EdwardsPoint.evalC [X, Y, Z, T] = some [out] ∧ KAvx2Edwards.ExtendedPoint_from_EdwardsPoint.evalW [X, Y, Z, T] = some [out] ∧
      EnvIn out Avx2.invExt ∧
      ∀ k : Lane, vecVal k out = (AProg.run zmodOpsV AlgAvx2Edwards.ExtendedPoint_from_EdwardsPoint [feVal X, feVal Y, feVal Z, feVal T]).getD k.idx 0 :=
  by
  have hin : EnvIn2 [X, Y, Z, T] [fe54, fe54, fe54, fe54] := ⟨hX, hY, hZ, hT, trivial⟩
  have h := Dalek.Proofs.KLane.Avx2.ExtendedPoint_from_EdwardsPoint_refines _ hin
  lanes_simp at h
  exact bridge_v26 Dalek.Props.C11.VecChain.Avx2.ExtendedPoint_from_EdwardsPoint_safe hin h

/-- … hence the result words represent the same point as the serial coordinates -/
theorem ExtendedPoint_from_EdwardsPoint_limb_spec {P : Ed} (X Y Z T : List Nat) (hX : EnvIn X fe54) (hY : EnvIn Y fe54) (hZ : EnvIn Z fe54) (hT : EnvIn T fe54)
    (hP : RepFe P X Y Z T) :
    ∃ out, KAvx2Edwards.ExtendedPoint_from_EdwardsPoint.evalC [X, Y, Z, T] = some [out] ∧ KAvx2Edwards.ExtendedPoint_from_EdwardsPoint.evalW [X, Y, Z, T] = some [out] ∧
      EnvIn out Avx2.invExt ∧ RepExtW P out := by
  obtain ⟨out, h1, h2, h3, hv⟩ := ExtendedPoint_from_EdwardsPoint_lanes X Y Z T hX hY hZ hT
  exact ⟨out, h1, h2, h3, rep_of_lanes (Rp := RepExt P) (f := fun k => vecVal k out) hv (Dalek.Props.C03.Vector.Avx2.ExtendedPoint_from_EdwardsPoint_spec hP)⟩

/-- `EdwardsPoint::from(ExtendedPoint)`: the values of the four serial `FieldElement51` of the result = AlgIR item on the lanes -/
theorem EdwardsPoint_from_ExtendedPoint_lanes (x : List Nat) (hx : EnvIn x Avx2.invExt) :
    ∃ out, KAvx2Edwards.EdwardsPoint_from_ExtendedPoint.evalC [x] = some [out] ∧ KAvx2Edwards.EdwardsPoint_from_ExtendedPoint.evalW [x] = some [out] ∧
      EnvIn out Avx2.splitOut ∧
      ∀ k : Lane, elemVal k out = (AProg.run zmodOpsV AlgAvx2Edwards.EdwardsPoint_from_ExtendedPoint [vecVal .A x, vecVal .B x, vecVal .C x, vecVal .D x]).getD k.idx 0 :=
  by
  have hin : EnvIn2 [x] [Avx2.invExt] := ⟨hx, trivial⟩
  have h := Dalek.Proofs.KLane.Avx2.EdwardsPoint_from_ExtendedPoint_refines _ hin
  lanes_simp at h
  exact bridge_ser Dalek.Props.C11.VecChain.Avx2.EdwardsPoint_from_ExtendedPoint_safe hin h

/-- … hence the serial coordinates represent the same point -/
theorem EdwardsPoint_from_ExtendedPoint_limb_spec {P : Ed} (x : List Nat) (hx : EnvIn x Avx2.invExt) (hP : RepExtW P x) :
    ∃ out, KAvx2Edwards.EdwardsPoint_from_ExtendedPoint.evalC [x] = some [out] ∧ KAvx2Edwards.EdwardsPoint_from_ExtendedPoint.evalW [x] = some [out] ∧
      EnvIn out Avx2.splitOut ∧ RepSer P out := by
  obtain ⟨out, h1, h2, h3, hv⟩ := EdwardsPoint_from_ExtendedPoint_lanes x hx
  exact ⟨out, h1, h2, h3, rep_of_lanes (Rp := RepExt P) (f := fun k => elemVal k out) hv (Dalek.Props.C03.Vector.Avx2.EdwardsPoint_from_ExtendedPoint_spec hP)⟩

/-- `CachedPoint::from(ExtendedPoint)`: lanes of the result of the kernel calls = AlgIR item on the lanes of the input -/
theorem CachedPoint_from_ExtendedPoint_lanes (x : List Nat) (hx : EnvIn x Avx2.invExt) :
    ∃ out, KAvx2Edwards.CachedPoint_from_ExtendedPoint.evalC [x] = some [out] ∧ KAvx2Edwards.CachedPoint_from_ExtendedPoint.evalW [x] = some [out] ∧
      EnvIn out Avx2.invCached ∧
      ∀ k : Lane, vecVal k out = (AProg.run zmodOpsV AlgAvx2Edwards.CachedPoint_from_ExtendedPoint [vecVal .A x, vecVal .B x, vecVal .C x, vecVal .D x]).getD k.idx 0 :=
  by
  have hin : EnvIn2 [x] [Avx2.invExt] := ⟨hx, trivial⟩
  have h := Dalek.Proofs.KLane.Avx2.CachedPoint_from_ExtendedPoint_refines _ hin
  lanes_simp at h
  exact bridge_v26 Dalek.Props.C11.VecChain.Avx2.CachedPoint_from_ExtendedPoint_safe hin h

/-- `CachedPoint::from(ExtendedPoint)` on machine words: the result words represent a valid cached point for the same group element -/
theorem CachedPoint_from_ExtendedPoint_limb_spec {P : Ed} (x : List Nat) (hx : EnvIn x Avx2.invExt) (hP : RepExtW P x) :
    ∃ out, KAvx2Edwards.CachedPoint_from_ExtendedPoint.evalC [x] = some [out] ∧ KAvx2Edwards.CachedPoint_from_ExtendedPoint.evalW [x] = some [out] ∧
      EnvIn out Avx2.invCached ∧ RepCachedW P out := by
  obtain ⟨out, h1, h2, h3, hv⟩ := CachedPoint_from_ExtendedPoint_lanes x hx
  exact ⟨out, h1, h2, h3, rep_of_lanes (Rp := RepCached P) (f := fun k => vecVal k out) hv (Dalek.Props.C03.Vector.Avx2.CachedPoint_from_ExtendedPoint_spec hP)⟩

/-- `ExtendedPoint::double`: lanes of the result of the kernel calls = AlgIR item on the lanes of the input -/
theorem ExtendedPoint_double_lanes (x : List Nat) (hx : EnvIn x Avx2.invExt) :
    ∃ out, KAvx2Edwards.ExtendedPoint_double.evalC [x] = some [out] ∧ KAvx2Edwards.ExtendedPoint_double.evalW [x] = some [out] ∧
      EnvIn out Avx2.invExt ∧
      ∀ k : Lane, vecVal k out = (AProg.run zmodOpsV AlgAvx2Edwards.ExtendedPoint_double [vecVal .A x, vecVal .B x, vecVal .C x, vecVal .D x]).getD k.idx 0 :=
  by
  have hin : EnvIn2 [x] [Avx2.invExt] := ⟨hx, trivial⟩
  have h := Dalek.Proofs.KLane.Avx2.ExtendedPoint_double_refines _ hin
  lanes_simp at h
  exact bridge_v26 Dalek.Props.C11.VecChain.Avx2.ExtendedPoint_double_safe hin h

/-- `ExtendedPoint::double` on machine words: the result words represent `2 • P` -/
theorem ExtendedPoint_double_limb_spec {P : Ed} (x : List Nat) (hx : EnvIn x Avx2.invExt) (hP : RepExtW P x) :
    ∃ out, KAvx2Edwards.ExtendedPoint_double.evalC [x] = some [out] ∧ KAvx2Edwards.ExtendedPoint_double.evalW [x] = some [out] ∧
      EnvIn out Avx2.invExt ∧ RepExtW (2 • P) out := by
  obtain ⟨out, h1, h2, h3, hv⟩ := ExtendedPoint_double_lanes x hx
  exact ⟨out, h1, h2, h3, rep_of_lanes (Rp := RepExt (2 • P)) (f := fun k => vecVal k out) hv (Dalek.Props.C03.Vector.Avx2.ExtendedPoint_double_spec hP)⟩

/-- one iteration of the loop of `ExtendedPoint::mul_by_pow_2`: lanes of the result of the kernel calls = AlgIR item on the lanes of the input -/
theorem ExtendedPoint_mul_by_pow_2_body_lanes (x : List Nat) (hx : EnvIn x Avx2.invExt) :
    ∃ out, KAvx2Edwards.ExtendedPoint_mul_by_pow_2_body.evalC [x] = some [out] ∧ KAvx2Edwards.ExtendedPoint_mul_by_pow_2_body.evalW [x] = some [out] ∧
      EnvIn out Avx2.invExt ∧
      ∀ k : Lane, vecVal k out = (AProg.run zmodOpsV AlgAvx2Edwards.ExtendedPoint_mul_by_pow_2_body [vecVal .A x, vecVal .B x, vecVal .C x, vecVal .D x]).getD k.idx 0 :=
  by
  have hin : EnvIn2 [x] [Avx2.invExt] := ⟨hx, trivial⟩
  have h := Dalek.Proofs.KLane.Avx2.ExtendedPoint_mul_by_pow_2_body_refines _ hin
  lanes_simp at h
  exact bridge_v26 Dalek.Props.C11.VecChain.Avx2.ExtendedPoint_mul_by_pow_2_body_safe hin h

/-- one iteration of the loop of `ExtendedPoint::mul_by_pow_2` on machine words: the result words represent `2 • P` -/
theorem ExtendedPoint_mul_by_pow_2_body_limb_spec {P : Ed} (x : List Nat) (hx : EnvIn x Avx2.invExt) (hP : RepExtW P x) :
    ∃ out, KAvx2Edwards.ExtendedPoint_mul_by_pow_2_body.evalC [x] = some [out] ∧ KAvx2Edwards.ExtendedPoint_mul_by_pow_2_body.evalW [x] = some [out] ∧
      EnvIn out Avx2.invExt ∧ RepExtW (2 • P) out := by
  obtain ⟨out, h1, h2, h3, hv⟩ := ExtendedPoint_mul_by_pow_2_body_lanes x hx
  exact ⟨out, h1, h2, h3, rep_of_lanes (Rp := RepExt (2 • P)) (f := fun k => vecVal k out) hv (Dalek.Props.C03.Vector.Avx2.ExtendedPoint_mul_by_pow_2_body_spec hP)⟩

/-- `-&CachedPoint`: lanes of the result of the kernel calls = AlgIR item on the lanes of the input -/
theorem CachedPoint_neg_lanes (x : List Nat) (hx : EnvIn x Avx2.invCached) :
    ∃ out, KAvx2Edwards.CachedPoint_neg.evalC [x] = some [out] ∧ KAvx2Edwards.CachedPoint_neg.evalW [x] = some [out] ∧
      EnvIn out Avx2.invCached ∧
      ∀ k : Lane, vecVal k out = (AProg.run zmodOpsV AlgAvx2Edwards.CachedPoint_neg [vecVal .A x, vecVal .B x, vecVal .C x, vecVal .D x]).getD k.idx 0 :=
  by
  have hin : EnvIn2 [x] [Avx2.invCached] := ⟨hx, trivial⟩
  have h := Dalek.Proofs.KLane.Avx2.CachedPoint_neg_refines _ hin
  lanes_simp at h
  exact bridge_v26 Dalek.Props.C11.VecChain.Avx2.CachedPoint_neg_safe hin h

/-- `-&CachedPoint` on machine words: the result words represent a valid cached point for `-P` -/
theorem CachedPoint_neg_limb_spec {P : Ed} (x : List Nat) (hx : EnvIn x Avx2.invCached) (hP : RepCachedW P x) :
    ∃ out, KAvx2Edwards.CachedPoint_neg.evalC [x] = some [out] ∧ KAvx2Edwards.CachedPoint_neg.evalW [x] = some [out] ∧
      EnvIn out Avx2.invCached ∧ RepCachedW (-P) out := by
  obtain ⟨out, h1, h2, h3, hv⟩ := CachedPoint_neg_lanes x hx
  exact ⟨out, h1, h2, h3, rep_of_lanes (Rp := RepCached (-P)) (f := fun k => vecVal k out) hv (Dalek.Props.C03.Vector.Avx2.CachedPoint_neg_spec hP)⟩

/-- `&ExtendedPoint + &CachedPoint`: lanes of the result of the kernel calls = AlgIR item on the lanes of the inputs -/
theorem ExtendedPoint_add_CachedPoint_lanes (x y : List Nat) (hx : EnvIn x Avx2.invExt) (hy : EnvIn y Avx2.invCached) :
    ∃ out, KAvx2Edwards.ExtendedPoint_add_CachedPoint.evalC [x, y] = some [out] ∧ KAvx2Edwards.ExtendedPoint_add_CachedPoint.evalW [x, y] = some [out] ∧
      EnvIn out Avx2.invExt ∧
      ∀ k : Lane, vecVal k out = (AProg.run zmodOpsV AlgAvx2Edwards.ExtendedPoint_add_CachedPoint
        [vecVal .A x, vecVal .B x, vecVal .C x, vecVal .D x, vecVal .A y, vecVal .B y, vecVal .C y, vecVal .D y]).getD k.idx 0 :=
  by
  have hin : EnvIn2 [x, y] [Avx2.invExt, Avx2.invCached] := ⟨hx, hy, trivial⟩
  have h := Dalek.Proofs.KLane.Avx2.ExtendedPoint_add_CachedPoint_refines _ hin
  lanes_simp at h
  exact bridge_v26 Dalek.Props.C11.VecChain.Avx2.ExtendedPoint_add_CachedPoint_safe hin h

/-- **`&ExtendedPoint + &CachedPoint` computes `P + Q` on machine words**: if the lane values of the words `x` represent `P` and those of `y`
(a cached point) represent `Q`, the words returned by the sequence of kernel calls represent `P + Q` (and are inside the invariant again) -/
theorem ExtendedPoint_add_CachedPoint_limb_spec {P Q : Ed} (x y : List Nat) (hx : EnvIn x Avx2.invExt) (hy : EnvIn y Avx2.invCached)
    (hP : RepExtW P x) (hQ : RepCachedW Q y) :
    ∃ out, KAvx2Edwards.ExtendedPoint_add_CachedPoint.evalC [x, y] = some [out] ∧ KAvx2Edwards.ExtendedPoint_add_CachedPoint.evalW [x, y] = some [out] ∧
      EnvIn out Avx2.invExt ∧ RepExtW (P + Q) out := by
  obtain ⟨out, h1, h2, h3, hv⟩ := ExtendedPoint_add_CachedPoint_lanes x y hx hy
  exact ⟨out, h1, h2, h3, rep_of_lanes (Rp := RepExt (P + Q)) (f := fun k => vecVal k out) hv (Dalek.Props.C03.Vector.Avx2.ExtendedPoint_add_CachedPoint_spec hP hQ)⟩

/-- `&ExtendedPoint - &CachedPoint`: lanes of the result of the kernel calls = AlgIR item on the lanes of the inputs -/
theorem ExtendedPoint_sub_CachedPoint_lanes (x y : List Nat) (hx : EnvIn x Avx2.invExt) (hy : EnvIn y Avx2.invCached) :
    ∃ out, KAvx2Edwards.ExtendedPoint_sub_CachedPoint.evalC [x, y] = some [out] ∧ KAvx2Edwards.ExtendedPoint_sub_CachedPoint.evalW [x, y] = some [out] ∧
      EnvIn out Avx2.invExt ∧
      ∀ k : Lane, vecVal k out = (AProg.run zmodOpsV AlgAvx2Edwards.ExtendedPoint_sub_CachedPoint
        [vecVal .A x, vecVal .B x, vecVal .C x, vecVal .D x, vecVal .A y, vecVal .B y, vecVal .C y, vecVal .D y]).getD k.idx 0 :=
  by
  have hin : EnvIn2 [x, y] [Avx2.invExt, Avx2.invCached] := ⟨hx, hy, trivial⟩
  have h := Dalek.Proofs.KLane.Avx2.ExtendedPoint_sub_CachedPoint_refines _ hin
  lanes_simp at h
  exact bridge_v26 Dalek.Props.C11.VecChain.Avx2.ExtendedPoint_sub_CachedPoint_safe hin h

/-- **`&ExtendedPoint - &CachedPoint` computes `P - Q` on machine words**: if the lane values of the words `x` represent `P` and those of `y`
(a cached point) represent `Q`, the words returned by the sequence of kernel calls represent `P - Q` (and are inside the invariant again) -/
theorem ExtendedPoint_sub_CachedPoint_limb_spec {P Q : Ed} (x y : List Nat) (hx : EnvIn x Avx2.invExt) (hy : EnvIn y Avx2.invCached)
    (hP : RepExtW P x) (hQ : RepCachedW Q y) :
    ∃ out, KAvx2Edwards.ExtendedPoint_sub_CachedPoint.evalC [x, y] = some [out] ∧ KAvx2Edwards.ExtendedPoint_sub_CachedPoint.evalW [x, y] = some [out] ∧
      EnvIn out Avx2.invExt ∧ RepExtW (P - Q) out := by
  obtain ⟨out, h1, h2, h3, hv⟩ := ExtendedPoint_sub_CachedPoint_lanes x y hx hy
  exact ⟨out, h1, h2, h3, rep_of_lanes (Rp := RepExt (P - Q)) (f := fun k => vecVal k out) hv (Dalek.Props.C03.Vector.Avx2.ExtendedPoint_sub_CachedPoint_spec hP hQ)⟩

/-- `ExtendedPoint::identity()` (a literal constant vector): its lane values = the constants of the AlgIR item -/
theorem ExtendedPoint_identity_lanes :
    ∃ out, KAvx2Edwards.ExtendedPoint_identity.evalC [] = some [out] ∧ KAvx2Edwards.ExtendedPoint_identity.evalW [] = some [out] ∧
      EnvIn out Avx2.invExt ∧
      ∀ k : Lane, vecVal k out = (AProg.run zmodOpsV AlgAvx2Edwards.ExtendedPoint_identity []).getD k.idx 0 :=
  by
  have hin : EnvIn2 [] [] := trivial
  have h := Dalek.Proofs.KLane.Avx2.ExtendedPoint_identity_refines _ hin
  lanes_simp at h
  exact bridge_v26 Dalek.Props.C11.VecChain.Avx2.ExtendedPoint_identity_safe hin h

/-- the constant words represent the neutral element -/
theorem ExtendedPoint_identity_limb_spec :
    ∃ out, KAvx2Edwards.ExtendedPoint_identity.evalC [] = some [out] ∧ KAvx2Edwards.ExtendedPoint_identity.evalW [] = some [out] ∧
      EnvIn out Avx2.invExt ∧ RepExtW 0 out := by
  obtain ⟨out, h1, h2, h3, hv⟩ := ExtendedPoint_identity_lanes
  exact ⟨out, h1, h2, h3, rep_of_lanes (Rp := RepExt (0 : Ed)) (f := fun k => vecVal k out) hv Dalek.Props.C03.Vector.Avx2.ExtendedPoint_identity_spec⟩

/-- `CachedPoint::identity()` (a literal constant vector): its lane values = the constants of the AlgIR item -/
theorem CachedPoint_identity_lanes :
    ∃ out, KAvx2Edwards.CachedPoint_identity.evalC [] = some [out] ∧ KAvx2Edwards.CachedPoint_identity.evalW [] = some [out] ∧
      EnvIn out Avx2.invCached ∧
      ∀ k : Lane, vecVal k out = (AProg.run zmodOpsV AlgAvx2Edwards.CachedPoint_identity []).getD k.idx 0 :=
  by
  have hin : EnvIn2 [] [] := trivial
  have h := Dalek.Proofs.KLane.Avx2.CachedPoint_identity_refines _ hin
  lanes_simp at h
  exact bridge_v26 Dalek.Props.C11.VecChain.Avx2.CachedPoint_identity_safe hin h

/-- the constant words represent the neutral element -/
theorem CachedPoint_identity_limb_spec :
    ∃ out, KAvx2Edwards.CachedPoint_identity.evalC [] = some [out] ∧ KAvx2Edwards.CachedPoint_identity.evalW [] = some [out] ∧
      EnvIn out Avx2.invCached ∧ RepCachedW 0 out := by
  obtain ⟨out, h1, h2, h3, hv⟩ := CachedPoint_identity_lanes
  exact ⟨out, h1, h2, h3, rep_of_lanes (Rp := RepCached (0 : Ed)) (f := fun k => vecVal k out) hv Dalek.Props.C03.Vector.Avx2.CachedPoint_identity_spec⟩

/-- `ExtendedPoint_conditional_select` (`choice` word `c ∈ {0,1}`): lanes of the result = AlgIR item (`csel`) on the lanes of the inputs -/
theorem ExtendedPoint_conditional_select_lanes (x y : List Nat) (c : Nat) (hx : EnvIn x Avx2.invExt) (hy : EnvIn y Avx2.invExt) (hc : EnvIn [c] choice) :
    ∃ out, KAvx2Edwards.ExtendedPoint_conditional_select.evalC [x, y, [c]] = some [out] ∧ KAvx2Edwards.ExtendedPoint_conditional_select.evalW [x, y, [c]] = some [out] ∧
      EnvIn out Avx2.invExt ∧
      ∀ k : Lane, vecVal k out = (AProg.run zmodOpsV AlgAvx2Edwards.ExtendedPoint_conditional_select
        [vecVal .A x, vecVal .B x, vecVal .C x, vecVal .D x, vecVal .A y, vecVal .B y, vecVal .C y, vecVal .D y, ((c : Nat) : Fp)]).getD k.idx 0 := by
  have hin : EnvIn2 [x, y, [c]] [Avx2.invExt, Avx2.invExt, choice] := ⟨hx, hy, hc, trivial⟩
  have h := Dalek.Proofs.KLane.Avx2.ExtendedPoint_conditional_select_refines _ hin
  lanes_simp at h
  exact bridge_v26 Dalek.Props.C11.VecChain.Avx2.ExtendedPoint_conditional_select_safe hin h

/-- … hence the result words represent `P` if `c = 0` and `Q` if `c = 1` -/
theorem ExtendedPoint_conditional_select_limb_spec {P Q : Ed} (x y : List Nat) (c : Nat) (hx : EnvIn x Avx2.invExt) (hy : EnvIn y Avx2.invExt) (hc : EnvIn [c] choice)
    (hP : RepExtW P x) (hQ : RepExtW Q y) :
    ∃ out, KAvx2Edwards.ExtendedPoint_conditional_select.evalC [x, y, [c]] = some [out] ∧ KAvx2Edwards.ExtendedPoint_conditional_select.evalW [x, y, [c]] = some [out] ∧
      EnvIn out Avx2.invExt ∧ RepExtW (if c = 0 then P else Q) out := by
  obtain ⟨out, h1, h2, h3, hv⟩ := ExtendedPoint_conditional_select_lanes x y c hx hy hc
  have e : (if ((c : Nat) : Fp) = 0 then P else Q) = (if c = 0 then P else Q) := by
    simp only [choice_cast_eq_zero (choice_cases hc)]
  exact ⟨out, h1, h2, h3, e ▸ rep_of_lanes (Rp := RepExt (if ((c : Nat) : Fp) = 0 then P else Q)) (f := fun k => vecVal k out) hv
    (Dalek.Props.C03.Vector.Avx2.ExtendedPoint_conditional_select_spec ((c : Nat) : Fp) hP hQ)⟩

/-- `ExtendedPoint_conditional_assign` (`choice` word `c ∈ {0,1}`): lanes of the result = AlgIR item (`csel`) on the lanes of the inputs -/
theorem ExtendedPoint_conditional_assign_lanes (x y : List Nat) (c : Nat) (hx : EnvIn x Avx2.invExt) (hy : EnvIn y Avx2.invExt) (hc : EnvIn [c] choice) :
    ∃ out, KAvx2Edwards.ExtendedPoint_conditional_assign.evalC [x, y, [c]] = some [out] ∧ KAvx2Edwards.ExtendedPoint_conditional_assign.evalW [x, y, [c]] = some [out] ∧
      EnvIn out Avx2.invExt ∧
      ∀ k : Lane, vecVal k out = (AProg.run zmodOpsV AlgAvx2Edwards.ExtendedPoint_conditional_assign
        [vecVal .A x, vecVal .B x, vecVal .C x, vecVal .D x, vecVal .A y, vecVal .B y, vecVal .C y, vecVal .D y, ((c : Nat) : Fp)]).getD k.idx 0 := by
  have hin : EnvIn2 [x, y, [c]] [Avx2.invExt, Avx2.invExt, choice] := ⟨hx, hy, hc, trivial⟩
  have h := Dalek.Proofs.KLane.Avx2.ExtendedPoint_conditional_assign_refines _ hin
  lanes_simp at h
  exact bridge_v26 Dalek.Props.C11.VecChain.Avx2.ExtendedPoint_conditional_assign_safe hin h

/-- … hence the result words represent `P` if `c = 0` and `Q` if `c = 1` -/
theorem ExtendedPoint_conditional_assign_limb_spec {P Q : Ed} (x y : List Nat) (c : Nat) (hx : EnvIn x Avx2.invExt) (hy : EnvIn y Avx2.invExt) (hc : EnvIn [c] choice)
    (hP : RepExtW P x) (hQ : RepExtW Q y) :
    ∃ out, KAvx2Edwards.ExtendedPoint_conditional_assign.evalC [x, y, [c]] = some [out] ∧ KAvx2Edwards.ExtendedPoint_conditional_assign.evalW [x, y, [c]] = some [out] ∧
      EnvIn out Avx2.invExt ∧ RepExtW (if c = 0 then P else Q) out := by
  obtain ⟨out, h1, h2, h3, hv⟩ := ExtendedPoint_conditional_assign_lanes x y c hx hy hc
  have e : (if ((c : Nat) : Fp) = 0 then P else Q) = (if c = 0 then P else Q) := by
    simp only [choice_cast_eq_zero (choice_cases hc)]
  exact ⟨out, h1, h2, h3, e ▸ rep_of_lanes (Rp := RepExt (if ((c : Nat) : Fp) = 0 then P else Q)) (f := fun k => vecVal k out) hv
    (Dalek.Props.C03.Vector.Avx2.ExtendedPoint_conditional_assign_spec ((c : Nat) : Fp) hP hQ)⟩

/-- `CachedPoint_conditional_select` (`choice` word `c ∈ {0,1}`): lanes of the result = AlgIR item (`csel`) on the lanes of the inputs -/
theorem CachedPoint_conditional_select_lanes (x y : List Nat) (c : Nat) (hx : EnvIn x Avx2.invCached) (hy : EnvIn y Avx2.invCached) (hc : EnvIn [c] choice) :
    ∃ out, KAvx2Edwards.CachedPoint_conditional_select.evalC [x, y, [c]] = some [out] ∧ KAvx2Edwards.CachedPoint_conditional_select.evalW [x, y, [c]] = some [out] ∧
      EnvIn out Avx2.invCached ∧
      ∀ k : Lane, vecVal k out = (AProg.run zmodOpsV AlgAvx2Edwards.CachedPoint_conditional_select
        [vecVal .A x, vecVal .B x, vecVal .C x, vecVal .D x, vecVal .A y, vecVal .B y, vecVal .C y, vecVal .D y, ((c : Nat) : Fp)]).getD k.idx 0 := by
  have hin : EnvIn2 [x, y, [c]] [Avx2.invCached, Avx2.invCached, choice] := ⟨hx, hy, hc, trivial⟩
  have h := Dalek.Proofs.KLane.Avx2.CachedPoint_conditional_select_refines _ hin
  lanes_simp at h
  exact bridge_v26 Dalek.Props.C11.VecChain.Avx2.CachedPoint_conditional_select_safe hin h

/-- … hence the result words represent `P` if `c = 0` and `Q` if `c = 1` -/
theorem CachedPoint_conditional_select_limb_spec {P Q : Ed} (x y : List Nat) (c : Nat) (hx : EnvIn x Avx2.invCached) (hy : EnvIn y Avx2.invCached) (hc : EnvIn [c] choice)
    (hP : RepCachedW P x) (hQ : RepCachedW Q y) :
    ∃ out, KAvx2Edwards.CachedPoint_conditional_select.evalC [x, y, [c]] = some [out] ∧ KAvx2Edwards.CachedPoint_conditional_select.evalW [x, y, [c]] = some [out] ∧
      EnvIn out Avx2.invCached ∧ RepCachedW (if c = 0 then P else Q) out := by
  obtain ⟨out, h1, h2, h3, hv⟩ := CachedPoint_conditional_select_lanes x y c hx hy hc
  have e : (if ((c : Nat) : Fp) = 0 then P else Q) = (if c = 0 then P else Q) := by
    simp only [choice_cast_eq_zero (choice_cases hc)]
  exact ⟨out, h1, h2, h3, e ▸ rep_of_lanes (Rp := RepCached (if ((c : Nat) : Fp) = 0 then P else Q)) (f := fun k => vecVal k out) hv
    (Dalek.Props.C03.Vector.Avx2.CachedPoint_conditional_select_spec ((c : Nat) : Fp) hP hQ)⟩

/-- `CachedPoint_conditional_assign` (`choice` word `c ∈ {0,1}`): lanes of the result = AlgIR item (`csel`) on the lanes of the inputs -/
theorem CachedPoint_conditional_assign_lanes (x y : List Nat) (c : Nat) (hx : EnvIn x Avx2.invCached) (hy : EnvIn y Avx2.invCached) (hc : EnvIn [c] choice) :
    ∃ out, KAvx2Edwards.CachedPoint_conditional_assign.evalC [x, y, [c]] = some [out] ∧ KAvx2Edwards.CachedPoint_conditional_assign.evalW [x, y, [c]] = some [out] ∧
      EnvIn out Avx2.invCached ∧
      ∀ k : Lane, vecVal k out = (AProg.run zmodOpsV AlgAvx2Edwards.CachedPoint_conditional_assign
        [vecVal .A x, vecVal .B x, vecVal .C x, vecVal .D x, vecVal .A y, vecVal .B y, vecVal .C y, vecVal .D y, ((c : Nat) : Fp)]).getD k.idx 0 := by
  have hin : EnvIn2 [x, y, [c]] [Avx2.invCached, Avx2.invCached, choice] := ⟨hx, hy, hc, trivial⟩
  have h := Dalek.Proofs.KLane.Avx2.CachedPoint_conditional_assign_refines _ hin
  lanes_simp at h
  exact bridge_v26 Dalek.Props.C11.VecChain.Avx2.CachedPoint_conditional_assign_safe hin h

/-- … hence the result words represent `P` if `c = 0` and `Q` if `c = 1` -/
theorem CachedPoint_conditional_assign_limb_spec {P Q : Ed} (x y : List Nat) (c : Nat) (hx : EnvIn x Avx2.invCached) (hy : EnvIn y Avx2.invCached) (hc : EnvIn [c] choice)
    (hP : RepCachedW P x) (hQ : RepCachedW Q y) :
    ∃ out, KAvx2Edwards.CachedPoint_conditional_assign.evalC [x, y, [c]] = some [out] ∧ KAvx2Edwards.CachedPoint_conditional_assign.evalW [x, y, [c]] = some [out] ∧
      EnvIn out Avx2.invCached ∧ RepCachedW (if c = 0 then P else Q) out := by
  obtain ⟨out, h1, h2, h3, hv⟩ := CachedPoint_conditional_assign_lanes x y c hx hy hc
  have e : (if ((c : Nat) : Fp) = 0 then P else Q) = (if c = 0 then P else Q) := by
    simp only [choice_cast_eq_zero (choice_cases hc)]
  exact ⟨out, h1, h2, h3, e ▸ rep_of_lanes (Rp := RepCached (if ((c : Nat) : Fp) = 0 then P else Q)) (f := fun k => vecVal k out) hv
    (Dalek.Props.C03.Vector.Avx2.CachedPoint_conditional_assign_spec ((c : Nat) : Fp) hP hQ)⟩

/-- **Histories compute the group law on machine words.**  Any sequence of `double` / `+ cached` / `- cached` steps of the
AVX2 backend (the shape of every vector scalar-multiplication loop), from accumulator words representing `P`, with cached operands
inside their invariant representing the points `pt q`: the checked run of all kernel calls succeeds, equals the release run, the
accumulator stays inside the invariant and its final words represent `histPoint pt P steps`. -/
theorem history_limb_spec (pt : List Nat → Ed) : ∀ (steps : List Step) (acc : List Nat) (P : Ed), EnvIn acc Avx2.invExt →
    RepExtW P acc → (∀ s ∈ steps, s.ok Avx2.invCached) → stepsRep RepCachedW pt steps →
    ∃ r, Dalek.Props.C11.VecChain.runC Dalek.Props.C11.VecChain.avx2 acc steps = some r ∧ Dalek.Props.C11.VecChain.runW Dalek.Props.C11.VecChain.avx2 acc steps = some r ∧ EnvIn r Avx2.invExt ∧
      RepExtW (histPoint pt P steps) r
  | [], acc, P, h, hP, _, _ => ⟨acc, rfl, rfl, h, hP⟩
  | .dbl :: ss, acc, P, h, hP, hok, hr => by
    obtain ⟨r, h1, h2, h3, h4⟩ := ExtendedPoint_double_limb_spec acc h hP
    obtain ⟨r', g1, g2, g3, g4⟩ := history_limb_spec pt ss r (2 • P) h3 h4 (fun t ht => hok t (by simp [ht])) hr
    have e1 : Dalek.Props.C11.VecChain.stepC Dalek.Props.C11.VecChain.avx2 acc .dbl = some r := by
      show Dalek.Props.C11.VecChain.one (KAvx2Edwards.ExtendedPoint_double.evalC [acc]) = some r
      rw [h1]; rfl
    have e2 : Dalek.Props.C11.VecChain.stepW Dalek.Props.C11.VecChain.avx2 acc .dbl = some r := by
      show Dalek.Props.C11.VecChain.one (KAvx2Edwards.ExtendedPoint_double.evalW [acc]) = some r
      rw [h2]; rfl
    exact ⟨r', by simp only [Dalek.Props.C11.VecChain.runC, e1, g1], by simp only [Dalek.Props.C11.VecChain.runW, e2, g2], g3, g4⟩
  | .add q :: ss, acc, P, h, hP, hok, hr => by
    have hq : EnvIn q Avx2.invCached := hok (.add q) (by simp)
    obtain ⟨r, h1, h2, h3, h4⟩ := ExtendedPoint_add_CachedPoint_limb_spec acc q h hq hP hr.1
    obtain ⟨r', g1, g2, g3, g4⟩ := history_limb_spec pt ss r (P + pt q) h3 h4 (fun t ht => hok t (by simp [ht])) hr.2
    have e1 : Dalek.Props.C11.VecChain.stepC Dalek.Props.C11.VecChain.avx2 acc (.add q) = some r := by
      show Dalek.Props.C11.VecChain.one (KAvx2Edwards.ExtendedPoint_add_CachedPoint.evalC [acc, q]) = some r
      rw [h1]; rfl
    have e2 : Dalek.Props.C11.VecChain.stepW Dalek.Props.C11.VecChain.avx2 acc (.add q) = some r := by
      show Dalek.Props.C11.VecChain.one (KAvx2Edwards.ExtendedPoint_add_CachedPoint.evalW [acc, q]) = some r
      rw [h2]; rfl
    exact ⟨r', by simp only [Dalek.Props.C11.VecChain.runC, e1, g1], by simp only [Dalek.Props.C11.VecChain.runW, e2, g2], g3, g4⟩
  | .sub q :: ss, acc, P, h, hP, hok, hr => by
    have hq : EnvIn q Avx2.invCached := hok (.sub q) (by simp)
    obtain ⟨r, h1, h2, h3, h4⟩ := ExtendedPoint_sub_CachedPoint_limb_spec acc q h hq hP hr.1
    obtain ⟨r', g1, g2, g3, g4⟩ := history_limb_spec pt ss r (P - pt q) h3 h4 (fun t ht => hok t (by simp [ht])) hr.2
    have e1 : Dalek.Props.C11.VecChain.stepC Dalek.Props.C11.VecChain.avx2 acc (.sub q) = some r := by
      show Dalek.Props.C11.VecChain.one (KAvx2Edwards.ExtendedPoint_sub_CachedPoint.evalC [acc, q]) = some r
      rw [h1]; rfl
    have e2 : Dalek.Props.C11.VecChain.stepW Dalek.Props.C11.VecChain.avx2 acc (.sub q) = some r := by
      show Dalek.Props.C11.VecChain.one (KAvx2Edwards.ExtendedPoint_sub_CachedPoint.evalW [acc, q]) = some r
      rw [h2]; rfl
    exact ⟨r', by simp only [Dalek.Props.C11.VecChain.runC, e1, g1], by simp only [Dalek.Props.C11.VecChain.runW, e2, g2], g3, g4⟩

/-- the nine formulas of the AVX2 backend that make up the vector scalar-multiplication code compute the group law on
machine words (the `_limb_spec` theorems above, packaged) -/
theorem groupLaw : GroupLaw avx2Backend RepExtW RepCachedW where
  dbl := fun x hx hP => ExtendedPoint_double_limb_spec x hx hP
  add := fun x y hx hy hP hQ => ExtendedPoint_add_CachedPoint_limb_spec x y hx hy hP hQ
  sub := fun x y hx hy hP hQ => ExtendedPoint_sub_CachedPoint_limb_spec x y hx hy hP hQ
  toCached := fun x hx hP => CachedPoint_from_ExtendedPoint_limb_spec x hx hP
  negC := fun x hx hP => CachedPoint_neg_limb_spec x hx hP
  selC := fun x y c hx hy hc hP hQ => CachedPoint_conditional_select_limb_spec x y c hx hy hc hP hQ
  asgC := fun x y c hx hy hc hP hQ => CachedPoint_conditional_assign_limb_spec x y c hx hy hc hP hQ
  idE := ExtendedPoint_identity_limb_spec
  idC := CachedPoint_identity_limb_spec

/-- **AVX2: every well-typed program of vector point operations computes the group law on machine words.**  For any
straight-line program `ops` over registers holding `ExtendedPoint`s, `CachedPoint`s and `Choice` words (double, ± cached,
`CachedPoint::from`, cached negation, conditional select / assign = the body of `LookupTable::select`, identities), well typed
in `Γ`, from registers `env` inside their invariants that represent the curve points `den` (choice words `cv`): the
overflow-checked run of ALL kernel calls succeeds, equals the release run, every register is inside the invariant of its type
and REPRESENTS ITS DENOTATION `denRun den cv ops` in the curve group. -/
theorem program_limb_spec (ops : List VOp) (Γ : List Ty) (den : List Ed) (cv : List Nat) (env : List (List Nat))
    (ht : Typed avx2Backend Γ env) (hr : Reps RepExtW RepCachedW Γ den cv env) (hw : wellTyped avx2Backend Γ ops = true) :
    ∃ env', runWith KProg.evalC avx2Backend env ops = some env' ∧ runWith KProg.evalW avx2Backend env ops = some env' ∧
      Typed avx2Backend (tyRun avx2Backend Γ ops) env' ∧
      Reps RepExtW RepCachedW (tyRun avx2Backend Γ ops) (denRun den cv ops) (cv ++ List.replicate ops.length 0) env' :=
  program_group groupLaw ops Γ den cv env ht hr hw

end Avx2

/-! ## The IFMA backend (`backend/vector/ifma/edwards.rs`) -/

namespace Ifma

/-- the 20 u64 words `x` of an `ifma::ExtendedPoint` represent the curve point `P` -/
def RepExtW (P : Ed) (x : List Nat) : Prop := RepExt P (vecVal51 .A x) (vecVal51 .B x) (vecVal51 .C x) (vecVal51 .D x)

/-- the 20 u64 words `x` of an `ifma::CachedPoint` represent the curve point `Q` -/
def RepCachedW (Q : Ed) (x : List Nat) : Prop := RepCached Q (vecVal51 .A x) (vecVal51 .B x) (vecVal51 .C x) (vecVal51 .D x)

/-- `ExtendedPoint::from(EdwardsPoint)` (one call of `new`): lanes of the result = AlgIR item on the values of `X, Y, Z, T` -/
theorem ExtendedPoint_from_EdwardsPoint_lanes (X Y Z T : List Nat) (hX : EnvIn X fe54) (hY : EnvIn Y fe54) (hZ : EnvIn Z fe54) (hT : EnvIn T fe54) :
    ∃ out, KIfmaEdwards.ExtendedPoint_from_EdwardsPoint.evalC [X, Y, Z, T] = some [out] ∧ KIfmaEdwards.ExtendedPoint_from_EdwardsPoint.evalW [X, Y, Z, T] = some [out] ∧
      EnvIn out Ifma.invExt ∧
      ∀ k : Lane, vecVal51 k out = (AProg.run zmodOpsV AlgIfmaEdwards.ExtendedPoint_from_EdwardsPoint [feVal X, feVal Y, feVal Z, feVal T]).getD k.idx 0 :=
  by
  have hin : EnvIn2 [X, Y, Z, T] [fe54, fe54, fe54, fe54] := ⟨hX, hY, hZ, hT, trivial⟩
  have h := Dalek.Proofs.KLane.Ifma.ExtendedPoint_from_EdwardsPoint_refines _ hin
  lanes_simp at h
  exact bridge_v51 Dalek.Props.C11.VecChain.Ifma.ExtendedPoint_from_EdwardsPoint_safe hin h

/-- … hence the result words represent the same point as the serial coordinates -/
theorem ExtendedPoint_from_EdwardsPoint_limb_spec {P : Ed} (X Y Z T : List Nat) (hX : EnvIn X fe54) (hY : EnvIn Y fe54) (hZ : EnvIn Z fe54) (hT : EnvIn T fe54)
    (hP : RepFe P X Y Z T) :
    ∃ out, KIfmaEdwards.ExtendedPoint_from_EdwardsPoint.evalC [X, Y, Z, T] = some [out] ∧ KIfmaEdwards.ExtendedPoint_from_EdwardsPoint.evalW [X, Y, Z, T] = some [out] ∧
      EnvIn out Ifma.invExt ∧ RepExtW P out := by
  obtain ⟨out, h1, h2, h3, hv⟩ := ExtendedPoint_from_EdwardsPoint_lanes X Y Z T hX hY hZ hT
  exact ⟨out, h1, h2, h3, rep_of_lanes (Rp := RepExt P) (f := fun k => vecVal51 k out) hv (Dalek.Props.C03.Vector.Ifma.ExtendedPoint_from_EdwardsPoint_spec hP)⟩

/-- `EdwardsPoint::from(ExtendedPoint)`: the values of the four serial `FieldElement51` of the result = AlgIR item on the lanes -/
theorem EdwardsPoint_from_ExtendedPoint_lanes (x : List Nat) (hx : EnvIn x Ifma.invExt) :
    ∃ out, KIfmaEdwards.EdwardsPoint_from_ExtendedPoint.evalC [x] = some [out] ∧ KIfmaEdwards.EdwardsPoint_from_ExtendedPoint.evalW [x] = some [out] ∧
      EnvIn out Ifma.splitOut ∧
      ∀ k : Lane, elemVal k out = (AProg.run zmodOpsV AlgIfmaEdwards.EdwardsPoint_from_ExtendedPoint [vecVal51 .A x, vecVal51 .B x, vecVal51 .C x, vecVal51 .D x]).getD k.idx 0 :=
  by
  have hin : EnvIn2 [x] [Ifma.invExt] := ⟨hx, trivial⟩
  have h := Dalek.Proofs.KLane.Ifma.EdwardsPoint_from_ExtendedPoint_refines _ hin
  lanes_simp at h
  exact bridge_ser Dalek.Props.C11.VecChain.Ifma.EdwardsPoint_from_ExtendedPoint_safe hin h

/-- … hence the serial coordinates represent the same point -/
theorem EdwardsPoint_from_ExtendedPoint_limb_spec {P : Ed} (x : List Nat) (hx : EnvIn x Ifma.invExt) (hP : RepExtW P x) :
    ∃ out, KIfmaEdwards.EdwardsPoint_from_ExtendedPoint.evalC [x] = some [out] ∧ KIfmaEdwards.EdwardsPoint_from_ExtendedPoint.evalW [x] = some [out] ∧
      EnvIn out Ifma.splitOut ∧ RepSer P out := by
  obtain ⟨out, h1, h2, h3, hv⟩ := EdwardsPoint_from_ExtendedPoint_lanes x hx
  exact ⟨out, h1, h2, h3, rep_of_lanes (Rp := RepExt P) (f := fun k => elemVal k out) hv (Dalek.Props.C03.Vector.Ifma.EdwardsPoint_from_ExtendedPoint_spec hP)⟩

/-- `CachedPoint::from(ExtendedPoint)`: lanes of the result of the kernel calls = AlgIR item on the lanes of the input -/
theorem CachedPoint_from_ExtendedPoint_lanes (x : List Nat) (hx : EnvIn x Ifma.invExt) :
    ∃ out, KIfmaEdwards.CachedPoint_from_ExtendedPoint.evalC [x] = some [out] ∧ KIfmaEdwards.CachedPoint_from_ExtendedPoint.evalW [x] = some [out] ∧
      EnvIn out Ifma.invCached ∧
      ∀ k : Lane, vecVal51 k out = (AProg.run zmodOpsV AlgIfmaEdwards.CachedPoint_from_ExtendedPoint [vecVal51 .A x, vecVal51 .B x, vecVal51 .C x, vecVal51 .D x]).getD k.idx 0 :=
  by
  have hin : EnvIn2 [x] [Ifma.invExt] := ⟨hx, trivial⟩
  have h := Dalek.Proofs.KLane.Ifma.CachedPoint_from_ExtendedPoint_refines _ hin
  lanes_simp at h
  exact bridge_v51 Dalek.Props.C11.VecChain.Ifma.CachedPoint_from_ExtendedPoint_safe hin h

/-- `CachedPoint::from(ExtendedPoint)` on machine words: the result words represent a valid cached point for the same group element -/
theorem CachedPoint_from_ExtendedPoint_limb_spec {P : Ed} (x : List Nat) (hx : EnvIn x Ifma.invExt) (hP : RepExtW P x) :
    ∃ out, KIfmaEdwards.CachedPoint_from_ExtendedPoint.evalC [x] = some [out] ∧ KIfmaEdwards.CachedPoint_from_ExtendedPoint.evalW [x] = some [out] ∧
      EnvIn out Ifma.invCached ∧ RepCachedW P out := by
  obtain ⟨out, h1, h2, h3, hv⟩ := CachedPoint_from_ExtendedPoint_lanes x hx
  exact ⟨out, h1, h2, h3, rep_of_lanes (Rp := RepCached P) (f := fun k => vecVal51 k out) hv (Dalek.Props.C03.Vector.Ifma.CachedPoint_from_ExtendedPoint_spec hP)⟩

/-- `ExtendedPoint::double`: lanes of the result of the kernel calls = AlgIR item on the lanes of the input -/
theorem ExtendedPoint_double_lanes (x : List Nat) (hx : EnvIn x Ifma.invExt) :
    ∃ out, KIfmaEdwards.ExtendedPoint_double.evalC [x] = some [out] ∧ KIfmaEdwards.ExtendedPoint_double.evalW [x] = some [out] ∧
      EnvIn out Ifma.invExt ∧
      ∀ k : Lane, vecVal51 k out = (AProg.run zmodOpsV AlgIfmaEdwards.ExtendedPoint_double [vecVal51 .A x, vecVal51 .B x, vecVal51 .C x, vecVal51 .D x]).getD k.idx 0 :=
  by
  have hin : EnvIn2 [x] [Ifma.invExt] := ⟨hx, trivial⟩
  have h := Dalek.Proofs.KLane.Ifma.ExtendedPoint_double_refines _ hin
  lanes_simp at h
  exact bridge_v51 Dalek.Props.C11.VecChain.Ifma.ExtendedPoint_double_safe hin h

/-- `ExtendedPoint::double` on machine words: the result words represent `2 • P` -/
theorem ExtendedPoint_double_limb_spec {P : Ed} (x : List Nat) (hx : EnvIn x Ifma.invExt) (hP : RepExtW P x) :
    ∃ out, KIfmaEdwards.ExtendedPoint_double.evalC [x] = some [out] ∧ KIfmaEdwards.ExtendedPoint_double.evalW [x] = some [out] ∧
      EnvIn out Ifma.invExt ∧ RepExtW (2 • P) out := by
  obtain ⟨out, h1, h2, h3, hv⟩ := ExtendedPoint_double_lanes x hx
  exact ⟨out, h1, h2, h3, rep_of_lanes (Rp := RepExt (2 • P)) (f := fun k => vecVal51 k out) hv (Dalek.Props.C03.Vector.Ifma.ExtendedPoint_double_spec hP)⟩

/-- one iteration of the loop of `ExtendedPoint::mul_by_pow_2`: lanes of the result of the kernel calls = AlgIR item on the lanes of the input -/
theorem ExtendedPoint_mul_by_pow_2_body_lanes (x : List Nat) (hx : EnvIn x Ifma.invExt) :
    ∃ out, KIfmaEdwards.ExtendedPoint_mul_by_pow_2_body.evalC [x] = some [out] ∧ KIfmaEdwards.ExtendedPoint_mul_by_pow_2_body.evalW [x] = some [out] ∧
      EnvIn out Ifma.invExt ∧
      ∀ k : Lane, vecVal51 k out = (AProg.run zmodOpsV AlgIfmaEdwards.ExtendedPoint_mul_by_pow_2_body [vecVal51 .A x, vecVal51 .B x, vecVal51 .C x, vecVal51 .D x]).getD k.idx 0 :=
  by
  have hin : EnvIn2 [x] [Ifma.invExt] := ⟨hx, trivial⟩
  have h := Dalek.Proofs.KLane.Ifma.ExtendedPoint_mul_by_pow_2_body_refines _ hin
  lanes_simp at h
  exact bridge_v51 Dalek.Props.C11.VecChain.Ifma.ExtendedPoint_mul_by_pow_2_body_safe hin h

/-- one iteration of the loop of `ExtendedPoint::mul_by_pow_2` on machine words: the result words represent `2 • P` -/
theorem ExtendedPoint_mul_by_pow_2_body_limb_spec {P : Ed} (x : List Nat) (hx : EnvIn x Ifma.invExt) (hP : RepExtW P x) :
    ∃ out, KIfmaEdwards.ExtendedPoint_mul_by_pow_2_body.evalC [x] = some [out] ∧ KIfmaEdwards.ExtendedPoint_mul_by_pow_2_body.evalW [x] = some [out] ∧
      EnvIn out Ifma.invExt ∧ RepExtW (2 • P) out := by
  obtain ⟨out, h1, h2, h3, hv⟩ := ExtendedPoint_mul_by_pow_2_body_lanes x hx
  exact ⟨out, h1, h2, h3, rep_of_lanes (Rp := RepExt (2 • P)) (f := fun k => vecVal51 k out) hv (Dalek.Props.C03.Vector.Ifma.ExtendedPoint_mul_by_pow_2_body_spec hP)⟩

/-- `-&CachedPoint`: lanes of the result of the kernel calls = AlgIR item on the lanes of the input -/
theorem CachedPoint_neg_lanes (x : List Nat) (hx : EnvIn x Ifma.invCached) :
    ∃ out, KIfmaEdwards.CachedPoint_neg.evalC [x] = some [out] ∧ KIfmaEdwards.CachedPoint_neg.evalW [x] = some [out] ∧
      EnvIn out Ifma.invCached ∧
      ∀ k : Lane, vecVal51 k out = (AProg.run zmodOpsV AlgIfmaEdwards.CachedPoint_neg [vecVal51 .A x, vecVal51 .B x, vecVal51 .C x, vecVal51 .D x]).getD k.idx 0 :=
  by
  have hin : EnvIn2 [x] [Ifma.invCached] := ⟨hx, trivial⟩
  have h := Dalek.Proofs.KLane.Ifma.CachedPoint_neg_refines _ hin
  lanes_simp at h
  exact bridge_v51 Dalek.Props.C11.VecChain.Ifma.CachedPoint_neg_safe hin h

/-- `-&CachedPoint` on machine words: the result words represent a valid cached point for `-P` -/
theorem CachedPoint_neg_limb_spec {P : Ed} (x : List Nat) (hx : EnvIn x Ifma.invCached) (hP : RepCachedW P x) :
    ∃ out, KIfmaEdwards.CachedPoint_neg.evalC [x] = some [out] ∧ KIfmaEdwards.CachedPoint_neg.evalW [x] = some [out] ∧
      EnvIn out Ifma.invCached ∧ RepCachedW (-P) out := by
  obtain ⟨out, h1, h2, h3, hv⟩ := CachedPoint_neg_lanes x hx
  exact ⟨out, h1, h2, h3, rep_of_lanes (Rp := RepCached (-P)) (f := fun k => vecVal51 k out) hv (Dalek.Props.C03.Vector.Ifma.CachedPoint_neg_spec hP)⟩

/-- `&ExtendedPoint + &CachedPoint`: lanes of the result of the kernel calls = AlgIR item on the lanes of the inputs -/
theorem ExtendedPoint_add_CachedPoint_lanes (x y : List Nat) (hx : EnvIn x Ifma.invExt) (hy : EnvIn y Ifma.invCached) :
    ∃ out, KIfmaEdwards.ExtendedPoint_add_CachedPoint.evalC [x, y] = some [out] ∧ KIfmaEdwards.ExtendedPoint_add_CachedPoint.evalW [x, y] = some [out] ∧
      EnvIn out Ifma.invExt ∧
      ∀ k : Lane, vecVal51 k out = (AProg.run zmodOpsV AlgIfmaEdwards.ExtendedPoint_add_CachedPoint
        [vecVal51 .A x, vecVal51 .B x, vecVal51 .C x, vecVal51 .D x, vecVal51 .A y, vecVal51 .B y, vecVal51 .C y, vecVal51 .D y]).getD k.idx 0 :=
  by
  have hin : EnvIn2 [x, y] [Ifma.invExt, Ifma.invCached] := ⟨hx, hy, trivial⟩
  have h := Dalek.Proofs.KLane.Ifma.ExtendedPoint_add_CachedPoint_refines _ hin
  lanes_simp at h
  exact bridge_v51 Dalek.Props.C11.VecChain.Ifma.ExtendedPoint_add_CachedPoint_safe hin h

/-- **`&ExtendedPoint + &CachedPoint` computes `P + Q` on machine words**: if the lane values of the words `x` represent `P` and those of `y`
(a cached point) represent `Q`, the words returned by the sequence of kernel calls represent `P + Q` (and are inside the invariant again) -/
theorem ExtendedPoint_add_CachedPoint_limb_spec {P Q : Ed} (x y : List Nat) (hx : EnvIn x Ifma.invExt) (hy : EnvIn y Ifma.invCached)
    (hP : RepExtW P x) (hQ : RepCachedW Q y) :
    ∃ out, KIfmaEdwards.ExtendedPoint_add_CachedPoint.evalC [x, y] = some [out] ∧ KIfmaEdwards.ExtendedPoint_add_CachedPoint.evalW [x, y] = some [out] ∧
      EnvIn out Ifma.invExt ∧ RepExtW (P + Q) out := by
  obtain ⟨out, h1, h2, h3, hv⟩ := ExtendedPoint_add_CachedPoint_lanes x y hx hy
  exact ⟨out, h1, h2, h3, rep_of_lanes (Rp := RepExt (P + Q)) (f := fun k => vecVal51 k out) hv (Dalek.Props.C03.Vector.Ifma.ExtendedPoint_add_CachedPoint_spec hP hQ)⟩

/-- `&ExtendedPoint - &CachedPoint`: lanes of the result of the kernel calls = AlgIR item on the lanes of the inputs -/
theorem ExtendedPoint_sub_CachedPoint_lanes (x y : List Nat) (hx : EnvIn x Ifma.invExt) (hy : EnvIn y Ifma.invCached) :
    ∃ out, KIfmaEdwards.ExtendedPoint_sub_CachedPoint.evalC [x, y] = some [out] ∧ KIfmaEdwards.ExtendedPoint_sub_CachedPoint.evalW [x, y] = some [out] ∧
      EnvIn out Ifma.invExt ∧
      ∀ k : Lane, vecVal51 k out = (AProg.run zmodOpsV AlgIfmaEdwards.ExtendedPoint_sub_CachedPoint
        [vecVal51 .A x, vecVal51 .B x, vecVal51 .C x, vecVal51 .D x, vecVal51 .A y, vecVal51 .B y, vecVal51 .C y, vecVal51 .D y]).getD k.idx 0 :=
  by
  have hin : EnvIn2 [x, y] [Ifma.invExt, Ifma.invCached] := ⟨hx, hy, trivial⟩
  have h := Dalek.Proofs.KLane.Ifma.ExtendedPoint_sub_CachedPoint_refines _ hin
  lanes_simp at h
  exact bridge_v51 Dalek.Props.C11.VecChain.Ifma.ExtendedPoint_sub_CachedPoint_safe hin h

/-- **`&ExtendedPoint - &CachedPoint` computes `P - Q` on machine words**: if the lane values of the words `x` represent `P` and those of `y`
(a cached point) represent `Q`, the words returned by the sequence of kernel calls represent `P - Q` (and are inside the invariant again) -/
theorem ExtendedPoint_sub_CachedPoint_limb_spec {P Q : Ed} (x y : List Nat) (hx : EnvIn x Ifma.invExt) (hy : EnvIn y Ifma.invCached)
    (hP : RepExtW P x) (hQ : RepCachedW Q y) :
    ∃ out, KIfmaEdwards.ExtendedPoint_sub_CachedPoint.evalC [x, y] = some [out] ∧ KIfmaEdwards.ExtendedPoint_sub_CachedPoint.evalW [x, y] = some [out] ∧
      EnvIn out Ifma.invExt ∧ RepExtW (P - Q) out := by
  obtain ⟨out, h1, h2, h3, hv⟩ := ExtendedPoint_sub_CachedPoint_lanes x y hx hy
  exact ⟨out, h1, h2, h3, rep_of_lanes (Rp := RepExt (P - Q)) (f := fun k => vecVal51 k out) hv (Dalek.Props.C03.Vector.Ifma.ExtendedPoint_sub_CachedPoint_spec hP hQ)⟩

/-- `ExtendedPoint::identity()` (a literal constant vector): its lane values = the constants of the AlgIR item -/
theorem ExtendedPoint_identity_lanes :
    ∃ out, KIfmaEdwards.ExtendedPoint_identity.evalC [] = some [out] ∧ KIfmaEdwards.ExtendedPoint_identity.evalW [] = some [out] ∧
      EnvIn out Ifma.invExt ∧
      ∀ k : Lane, vecVal51 k out = (AProg.run zmodOpsV AlgIfmaEdwards.ExtendedPoint_identity []).getD k.idx 0 :=
  by
  have hin : EnvIn2 [] [] := trivial
  have h := Dalek.Proofs.KLane.Ifma.ExtendedPoint_identity_refines _ hin
  lanes_simp at h
  exact bridge_v51 Dalek.Props.C11.VecChain.Ifma.ExtendedPoint_identity_safe hin h

/-- the constant words represent the neutral element -/
theorem ExtendedPoint_identity_limb_spec :
    ∃ out, KIfmaEdwards.ExtendedPoint_identity.evalC [] = some [out] ∧ KIfmaEdwards.ExtendedPoint_identity.evalW [] = some [out] ∧
      EnvIn out Ifma.invExt ∧ RepExtW 0 out := by
  obtain ⟨out, h1, h2, h3, hv⟩ := ExtendedPoint_identity_lanes
  exact ⟨out, h1, h2, h3, rep_of_lanes (Rp := RepExt (0 : Ed)) (f := fun k => vecVal51 k out) hv Dalek.Props.C03.Vector.Ifma.ExtendedPoint_identity_spec⟩

/-- `CachedPoint::identity()` (a literal constant vector): its lane values = the constants of the AlgIR item -/
theorem CachedPoint_identity_lanes :
    ∃ out, KIfmaEdwards.CachedPoint_identity.evalC [] = some [out] ∧ KIfmaEdwards.CachedPoint_identity.evalW [] = some [out] ∧
      EnvIn out Ifma.invCached ∧
      ∀ k : Lane, vecVal51 k out = (AProg.run zmodOpsV AlgIfmaEdwards.CachedPoint_identity []).getD k.idx 0 :=
  by
  have hin : EnvIn2 [] [] := trivial
  have h := Dalek.Proofs.KLane.Ifma.CachedPoint_identity_refines _ hin
  lanes_simp at h
  exact bridge_v51 Dalek.Props.C11.VecChain.Ifma.CachedPoint_identity_safe hin h

/-- the constant words represent the neutral element -/
theorem CachedPoint_identity_limb_spec :
    ∃ out, KIfmaEdwards.CachedPoint_identity.evalC [] = some [out] ∧ KIfmaEdwards.CachedPoint_identity.evalW [] = some [out] ∧
      EnvIn out Ifma.invCached ∧ RepCachedW 0 out := by
  obtain ⟨out, h1, h2, h3, hv⟩ := CachedPoint_identity_lanes
  exact ⟨out, h1, h2, h3, rep_of_lanes (Rp := RepCached (0 : Ed)) (f := fun k => vecVal51 k out) hv Dalek.Props.C03.Vector.Ifma.CachedPoint_identity_spec⟩

/-- `CachedPoint_conditional_select` (`choice` word `c ∈ {0,1}`): lanes of the result = AlgIR item (`csel`) on the lanes of the inputs -/
theorem CachedPoint_conditional_select_lanes (x y : List Nat) (c : Nat) (hx : EnvIn x Ifma.invCached) (hy : EnvIn y Ifma.invCached) (hc : EnvIn [c] choice) :
    ∃ out, KIfmaEdwards.CachedPoint_conditional_select.evalC [x, y, [c]] = some [out] ∧ KIfmaEdwards.CachedPoint_conditional_select.evalW [x, y, [c]] = some [out] ∧
      EnvIn out Ifma.invCached ∧
      ∀ k : Lane, vecVal51 k out = (AProg.run zmodOpsV AlgIfmaEdwards.CachedPoint_conditional_select
        [vecVal51 .A x, vecVal51 .B x, vecVal51 .C x, vecVal51 .D x, vecVal51 .A y, vecVal51 .B y, vecVal51 .C y, vecVal51 .D y, ((c : Nat) : Fp)]).getD k.idx 0 := by
  have hin : EnvIn2 [x, y, [c]] [Ifma.invCached, Ifma.invCached, choice] := ⟨hx, hy, hc, trivial⟩
  have h := Dalek.Proofs.KLane.Ifma.CachedPoint_conditional_select_refines _ hin
  lanes_simp at h
  exact bridge_v51 Dalek.Props.C11.VecChain.Ifma.CachedPoint_conditional_select_safe hin h

/-- … hence the result words represent `P` if `c = 0` and `Q` if `c = 1` -/
theorem CachedPoint_conditional_select_limb_spec {P Q : Ed} (x y : List Nat) (c : Nat) (hx : EnvIn x Ifma.invCached) (hy : EnvIn y Ifma.invCached) (hc : EnvIn [c] choice)
    (hP : RepCachedW P x) (hQ : RepCachedW Q y) :
    ∃ out, KIfmaEdwards.CachedPoint_conditional_select.evalC [x, y, [c]] = some [out] ∧ KIfmaEdwards.CachedPoint_conditional_select.evalW [x, y, [c]] = some [out] ∧
      EnvIn out Ifma.invCached ∧ RepCachedW (if c = 0 then P else Q) out := by
  obtain ⟨out, h1, h2, h3, hv⟩ := CachedPoint_conditional_select_lanes x y c hx hy hc
  have e : (if ((c : Nat) : Fp) = 0 then P else Q) = (if c = 0 then P else Q) := by
    simp only [choice_cast_eq_zero (choice_cases hc)]
  exact ⟨out, h1, h2, h3, e ▸ rep_of_lanes (Rp := RepCached (if ((c : Nat) : Fp) = 0 then P else Q)) (f := fun k => vecVal51 k out) hv
    (Dalek.Props.C03.Vector.Ifma.CachedPoint_conditional_select_spec ((c : Nat) : Fp) hP hQ)⟩

/-- `CachedPoint_conditional_assign` (`choice` word `c ∈ {0,1}`): lanes of the result = AlgIR item (`csel`) on the lanes of the inputs -/
theorem CachedPoint_conditional_assign_lanes (x y : List Nat) (c : Nat) (hx : EnvIn x Ifma.invCached) (hy : EnvIn y Ifma.invCached) (hc : EnvIn [c] choice) :
    ∃ out, KIfmaEdwards.CachedPoint_conditional_assign.evalC [x, y, [c]] = some [out] ∧ KIfmaEdwards.CachedPoint_conditional_assign.evalW [x, y, [c]] = some [out] ∧
      EnvIn out Ifma.invCached ∧
      ∀ k : Lane, vecVal51 k out = (AProg.run zmodOpsV AlgIfmaEdwards.CachedPoint_conditional_assign
        [vecVal51 .A x, vecVal51 .B x, vecVal51 .C x, vecVal51 .D x, vecVal51 .A y, vecVal51 .B y, vecVal51 .C y, vecVal51 .D y, ((c : Nat) : Fp)]).getD k.idx 0 := by
  have hin : EnvIn2 [x, y, [c]] [Ifma.invCached, Ifma.invCached, choice] := ⟨hx, hy, hc, trivial⟩
  have h := Dalek.Proofs.KLane.Ifma.CachedPoint_conditional_assign_refines _ hin
  lanes_simp at h
  exact bridge_v51 Dalek.Props.C11.VecChain.Ifma.CachedPoint_conditional_assign_safe hin h

/-- … hence the result words represent `P` if `c = 0` and `Q` if `c = 1` -/
theorem CachedPoint_conditional_assign_limb_spec {P Q : Ed} (x y : List Nat) (c : Nat) (hx : EnvIn x Ifma.invCached) (hy : EnvIn y Ifma.invCached) (hc : EnvIn [c] choice)
    (hP : RepCachedW P x) (hQ : RepCachedW Q y) :
    ∃ out, KIfmaEdwards.CachedPoint_conditional_assign.evalC [x, y, [c]] = some [out] ∧ KIfmaEdwards.CachedPoint_conditional_assign.evalW [x, y, [c]] = some [out] ∧
      EnvIn out Ifma.invCached ∧ RepCachedW (if c = 0 then P else Q) out := by
  obtain ⟨out, h1, h2, h3, hv⟩ := CachedPoint_conditional_assign_lanes x y c hx hy hc
  have e : (if ((c : Nat) : Fp) = 0 then P else Q) = (if c = 0 then P else Q) := by
    simp only [choice_cast_eq_zero (choice_cases hc)]
  exact ⟨out, h1, h2, h3, e ▸ rep_of_lanes (Rp := RepCached (if ((c : Nat) : Fp) = 0 then P else Q)) (f := fun k => vecVal51 k out) hv
    (Dalek.Props.C03.Vector.Ifma.CachedPoint_conditional_assign_spec ((c : Nat) : Fp) hP hQ)⟩

/-- **Histories compute the group law on machine words.**  Any sequence of `double` / `+ cached` / `- cached` steps of the
IFMA backend (the shape of every vector scalar-multiplication loop), from accumulator words representing `P`, with cached operands
inside their invariant representing the points `pt q`: the checked run of all kernel calls succeeds, equals the release run, the
accumulator stays inside the invariant and its final words represent `histPoint pt P steps`. -/
theorem history_limb_spec (pt : List Nat → Ed) : ∀ (steps : List Step) (acc : List Nat) (P : Ed), EnvIn acc Ifma.invExt →
    RepExtW P acc → (∀ s ∈ steps, s.ok Ifma.invCached) → stepsRep RepCachedW pt steps →
    ∃ r, Dalek.Props.C11.VecChain.runC Dalek.Props.C11.VecChain.ifma acc steps = some r ∧ Dalek.Props.C11.VecChain.runW Dalek.Props.C11.VecChain.ifma acc steps = some r ∧ EnvIn r Ifma.invExt ∧
      RepExtW (histPoint pt P steps) r
  | [], acc, P, h, hP, _, _ => ⟨acc, rfl, rfl, h, hP⟩
  | .dbl :: ss, acc, P, h, hP, hok, hr => by
    obtain ⟨r, h1, h2, h3, h4⟩ := ExtendedPoint_double_limb_spec acc h hP
    obtain ⟨r', g1, g2, g3, g4⟩ := history_limb_spec pt ss r (2 • P) h3 h4 (fun t ht => hok t (by simp [ht])) hr
    have e1 : Dalek.Props.C11.VecChain.stepC Dalek.Props.C11.VecChain.ifma acc .dbl = some r := by
      show Dalek.Props.C11.VecChain.one (KIfmaEdwards.ExtendedPoint_double.evalC [acc]) = some r
      rw [h1]; rfl
    have e2 : Dalek.Props.C11.VecChain.stepW Dalek.Props.C11.VecChain.ifma acc .dbl = some r := by
      show Dalek.Props.C11.VecChain.one (KIfmaEdwards.ExtendedPoint_double.evalW [acc]) = some r
      rw [h2]; rfl
    exact ⟨r', by simp only [Dalek.Props.C11.VecChain.runC, e1, g1], by simp only [Dalek.Props.C11.VecChain.runW, e2, g2], g3, g4⟩
  | .add q :: ss, acc, P, h, hP, hok, hr => by
    have hq : EnvIn q Ifma.invCached := hok (.add q) (by simp)
    obtain ⟨r, h1, h2, h3, h4⟩ := ExtendedPoint_add_CachedPoint_limb_spec acc q h hq hP hr.1
    obtain ⟨r', g1, g2, g3, g4⟩ := history_limb_spec pt ss r (P + pt q) h3 h4 (fun t ht => hok t (by simp [ht])) hr.2
    have e1 : Dalek.Props.C11.VecChain.stepC Dalek.Props.C11.VecChain.ifma acc (.add q) = some r := by
      show Dalek.Props.C11.VecChain.one (KIfmaEdwards.ExtendedPoint_add_CachedPoint.evalC [acc, q]) = some r
      rw [h1]; rfl
    have e2 : Dalek.Props.C11.VecChain.stepW Dalek.Props.C11.VecChain.ifma acc (.add q) = some r := by
      show Dalek.Props.C11.VecChain.one (KIfmaEdwards.ExtendedPoint_add_CachedPoint.evalW [acc, q]) = some r
      rw [h2]; rfl
    exact ⟨r', by simp only [Dalek.Props.C11.VecChain.runC, e1, g1], by simp only [Dalek.Props.C11.VecChain.runW, e2, g2], g3, g4⟩
  | .sub q :: ss, acc, P, h, hP, hok, hr => by
    have hq : EnvIn q Ifma.invCached := hok (.sub q) (by simp)
    obtain ⟨r, h1, h2, h3, h4⟩ := ExtendedPoint_sub_CachedPoint_limb_spec acc q h hq hP hr.1
    obtain ⟨r', g1, g2, g3, g4⟩ := history_limb_spec pt ss r (P - pt q) h3 h4 (fun t ht => hok t (by simp [ht])) hr.2
    have e1 : Dalek.Props.C11.VecChain.stepC Dalek.Props.C11.VecChain.ifma acc (.sub q) = some r := by
      show Dalek.Props.C11.VecChain.one (KIfmaEdwards.ExtendedPoint_sub_CachedPoint.evalC [acc, q]) = some r
      rw [h1]; rfl
    have e2 : Dalek.Props.C11.VecChain.stepW Dalek.Props.C11.VecChain.ifma acc (.sub q) = some r := by
      show Dalek.Props.C11.VecChain.one (KIfmaEdwards.ExtendedPoint_sub_CachedPoint.evalW [acc, q]) = some r
      rw [h2]; rfl
    exact ⟨r', by simp only [Dalek.Props.C11.VecChain.runC, e1, g1], by simp only [Dalek.Props.C11.VecChain.runW, e2, g2], g3, g4⟩

/-- the nine formulas of the IFMA backend that make up the vector scalar-multiplication code compute the group law on
machine words (the `_limb_spec` theorems above, packaged) -/
theorem groupLaw : GroupLaw ifmaBackend RepExtW RepCachedW where
  dbl := fun x hx hP => ExtendedPoint_double_limb_spec x hx hP
  add := fun x y hx hy hP hQ => ExtendedPoint_add_CachedPoint_limb_spec x y hx hy hP hQ
  sub := fun x y hx hy hP hQ => ExtendedPoint_sub_CachedPoint_limb_spec x y hx hy hP hQ
  toCached := fun x hx hP => CachedPoint_from_ExtendedPoint_limb_spec x hx hP
  negC := fun x hx hP => CachedPoint_neg_limb_spec x hx hP
  selC := fun x y c hx hy hc hP hQ => CachedPoint_conditional_select_limb_spec x y c hx hy hc hP hQ
  asgC := fun x y c hx hy hc hP hQ => CachedPoint_conditional_assign_limb_spec x y c hx hy hc hP hQ
  idE := ExtendedPoint_identity_limb_spec
  idC := CachedPoint_identity_limb_spec

/-- **IFMA: every well-typed program of vector point operations computes the group law on machine words.**  For any
straight-line program `ops` over registers holding `ExtendedPoint`s, `CachedPoint`s and `Choice` words (double, ± cached,
`CachedPoint::from`, cached negation, conditional select / assign = the body of `LookupTable::select`, identities), well typed
in `Γ`, from registers `env` inside their invariants that represent the curve points `den` (choice words `cv`): the
overflow-checked run of ALL kernel calls succeeds, equals the release run, every register is inside the invariant of its type
and REPRESENTS ITS DENOTATION `denRun den cv ops` in the curve group. -/
theorem program_limb_spec (ops : List VOp) (Γ : List Ty) (den : List Ed) (cv : List Nat) (env : List (List Nat))
    (ht : Typed ifmaBackend Γ env) (hr : Reps RepExtW RepCachedW Γ den cv env) (hw : wellTyped ifmaBackend Γ ops = true) :
    ∃ env', runWith KProg.evalC ifmaBackend env ops = some env' ∧ runWith KProg.evalW ifmaBackend env ops = some env' ∧
      Typed ifmaBackend (tyRun ifmaBackend Γ ops) env' ∧
      Reps RepExtW RepCachedW (tyRun ifmaBackend Γ ops) (denRun den cv ops) (cv ++ List.replicate ops.length 0) env' :=
  program_group groupLaw ops Γ den cv env ht hr hw

end Ifma

/-! ### The hypotheses are satisfiable -/

/-- the all-zero words are inside the invariants (so the `_lanes` theorems are not vacuous) -/
example : EnvIn (List.replicate 40 0) Avx2.invExt ∧ EnvIn (List.replicate 40 0) Avx2.invCached := by decide +kernel

example : EnvIn (List.replicate 20 0) Ifma.invExt ∧ EnvIn (List.replicate 20 0) Ifma.invCached := by decide +kernel

/-- the words of the identity constants represent the neutral element and are inside the invariants: the hypotheses of the
`_limb_spec` theorems (`EnvIn … ∧ RepExtW …`, `EnvIn … ∧ RepCachedW …`) are satisfiable -/
example : ∃ x y, EnvIn x Avx2.invExt ∧ Avx2.RepExtW 0 x ∧ EnvIn y Avx2.invCached ∧ Avx2.RepCachedW 0 y := by
  obtain ⟨x, _, _, hx, hP⟩ := Avx2.ExtendedPoint_identity_limb_spec
  obtain ⟨y, _, _, hy, hQ⟩ := Avx2.CachedPoint_identity_limb_spec
  exact ⟨x, y, hx, hP, hy, hQ⟩

example : ∃ x y, EnvIn x Ifma.invExt ∧ Ifma.RepExtW 0 x ∧ EnvIn y Ifma.invCached ∧ Ifma.RepCachedW 0 y := by
  obtain ⟨x, _, _, hx, hP⟩ := Ifma.ExtendedPoint_identity_limb_spec
  obtain ⟨y, _, _, hy, hQ⟩ := Ifma.CachedPoint_identity_limb_spec
  exact ⟨x, y, hx, hP, hy, hQ⟩

/-- the denotation of one window step of the vector `variable_base::mul` (table entry selected by conditional assignment
from `Q1`, `Q2` with choice `c`, conditionally negated with the same choice, four doublings of the accumulator `P`, one
addition): register 11 denotes `16 P ± Qc` -/
example (P Q1 Q2 : Ed) (c : Nat) :
    (denRun [P, Q1, Q2, 0] [0, 0, 0, c]
      [.asgC 1 2 3, .negC 4, .selC 4 5 3, .dbl 0, .dbl 7, .dbl 8, .dbl 9, .add 10 6]).getD 11 0
    = 2 • (2 • (2 • (2 • P))) + (if c = 0 then (if c = 0 then Q1 else Q2) else -(if c = 0 then Q1 else Q2)) := rfl

/-- the per-formula check discriminates: the kernel calls of `CachedPoint_neg` are NOT the lane terms of the AlgIR item
`CachedPoint_from_ExtendedPoint` (evaluated by the Lean kernel) -/
example : refOk Dalek.Proofs.KLane.Avx2.table KAvx2Edwards.CachedPoint_neg [Avx2.invCached] [.v26] .v26
    AlgAvx2Edwards.CachedPoint_from_ExtendedPoint = false := by decide +kernel

/-! ### Axiom audit -/

/-- info: 'Dalek.Props.C01.VecFormulas.Avx2.ExtendedPoint_from_EdwardsPoint_lanes' depends on axioms: [propext, Classical.choice, Quot.sound] -/
#guard_msgs (whitespace := lax) in #print axioms Avx2.ExtendedPoint_from_EdwardsPoint_lanes

/-- info: 'Dalek.Props.C01.VecFormulas.Avx2.ExtendedPoint_from_EdwardsPoint_limb_spec' depends on axioms: [propext, Classical.choice, Quot.sound] -/
#guard_msgs (whitespace := lax) in #print axioms Avx2.ExtendedPoint_from_EdwardsPoint_limb_spec

/-- info: 'Dalek.Props.C01.VecFormulas.Avx2.EdwardsPoint_from_ExtendedPoint_lanes' depends on axioms: [propext, Classical.choice, Quot.sound] -/
#guard_msgs (whitespace := lax) in #print axioms Avx2.EdwardsPoint_from_ExtendedPoint_lanes

/-- info: 'Dalek.Props.C01.VecFormulas.Avx2.EdwardsPoint_from_ExtendedPoint_limb_spec' depends on axioms: [propext, Classical.choice, Quot.sound] -/
#guard_msgs (whitespace := lax) in #print axioms Avx2.EdwardsPoint_from_ExtendedPoint_limb_spec

/-- info: 'Dalek.Props.C01.VecFormulas.Avx2.CachedPoint_from_ExtendedPoint_lanes' depends on axioms: [propext, Classical.choice, Quot.sound] -/
#guard_msgs (whitespace := lax) in #print axioms Avx2.CachedPoint_from_ExtendedPoint_lanes

/-- info: 'Dalek.Props.C01.VecFormulas.Avx2.CachedPoint_from_ExtendedPoint_limb_spec' depends on axioms: [propext, Classical.choice, Quot.sound] -/
#guard_msgs (whitespace := lax) in #print axioms Avx2.CachedPoint_from_ExtendedPoint_limb_spec

/-- info: 'Dalek.Props.C01.VecFormulas.Avx2.ExtendedPoint_double_lanes' depends on axioms: [propext, Classical.choice, Quot.sound] -/
#guard_msgs (whitespace := lax) in #print axioms Avx2.ExtendedPoint_double_lanes

/-- info: 'Dalek.Props.C01.VecFormulas.Avx2.ExtendedPoint_double_limb_spec' depends on axioms: [propext, Classical.choice, Quot.sound] -/
#guard_msgs (whitespace := lax) in #print axioms Avx2.ExtendedPoint_double_limb_spec

/-- info: 'Dalek.Props.C01.VecFormulas.Avx2.ExtendedPoint_mul_by_pow_2_body_lanes' depends on axioms: [propext, Classical.choice, Quot.sound] -/
#guard_msgs (whitespace := lax) in #print axioms Avx2.ExtendedPoint_mul_by_pow_2_body_lanes

/-- info: 'Dalek.Props.C01.VecFormulas.Avx2.ExtendedPoint_mul_by_pow_2_body_limb_spec' depends on axioms: [propext, Classical.choice, Quot.sound] -/
#guard_msgs (whitespace := lax) in #print axioms Avx2.ExtendedPoint_mul_by_pow_2_body_limb_spec

/-- info: 'Dalek.Props.C01.VecFormulas.Avx2.ExtendedPoint_add_CachedPoint_lanes' depends on axioms: [propext, Classical.choice, Quot.sound] -/
#guard_msgs (whitespace := lax) in #print axioms Avx2.ExtendedPoint_add_CachedPoint_lanes

/-- info: 'Dalek.Props.C01.VecFormulas.Avx2.ExtendedPoint_add_CachedPoint_limb_spec' depends on axioms: [propext, Classical.choice, Quot.sound] -/
#guard_msgs (whitespace := lax) in #print axioms Avx2.ExtendedPoint_add_CachedPoint_limb_spec

/-- info: 'Dalek.Props.C01.VecFormulas.Avx2.ExtendedPoint_sub_CachedPoint_lanes' depends on axioms: [propext, Classical.choice, Quot.sound] -/
#guard_msgs (whitespace := lax) in #print axioms Avx2.ExtendedPoint_sub_CachedPoint_lanes

/-- info: 'Dalek.Props.C01.VecFormulas.Avx2.ExtendedPoint_sub_CachedPoint_limb_spec' depends on axioms: [propext, Classical.choice, Quot.sound] -/
#guard_msgs (whitespace := lax) in #print axioms Avx2.ExtendedPoint_sub_CachedPoint_limb_spec

/-- info: 'Dalek.Props.C01.VecFormulas.Avx2.CachedPoint_neg_lanes' depends on axioms: [propext, Classical.choice, Quot.sound] -/
#guard_msgs (whitespace := lax) in #print axioms Avx2.CachedPoint_neg_lanes

/-- info: 'Dalek.Props.C01.VecFormulas.Avx2.CachedPoint_neg_limb_spec' depends on axioms: [propext, Classical.choice, Quot.sound] -/
#guard_msgs (whitespace := lax) in #print axioms Avx2.CachedPoint_neg_limb_spec

/-- info: 'Dalek.Props.C01.VecFormulas.Avx2.ExtendedPoint_identity_lanes' depends on axioms: [propext, Classical.choice, Quot.sound] -/
#guard_msgs (whitespace := lax) in #print axioms Avx2.ExtendedPoint_identity_lanes

/-- info: 'Dalek.Props.C01.VecFormulas.Avx2.ExtendedPoint_identity_limb_spec' depends on axioms: [propext, Classical.choice, Quot.sound] -/
#guard_msgs (whitespace := lax) in #print axioms Avx2.ExtendedPoint_identity_limb_spec

/-- info: 'Dalek.Props.C01.VecFormulas.Avx2.CachedPoint_identity_lanes' depends on axioms: [propext, Classical.choice, Quot.sound] -/
#guard_msgs (whitespace := lax) in #print axioms Avx2.CachedPoint_identity_lanes

/-- info: 'Dalek.Props.C01.VecFormulas.Avx2.CachedPoint_identity_limb_spec' depends on axioms: [propext, Classical.choice, Quot.sound] -/
#guard_msgs (whitespace := lax) in #print axioms Avx2.CachedPoint_identity_limb_spec

/-- info: 'Dalek.Props.C01.VecFormulas.Avx2.ExtendedPoint_conditional_select_lanes' depends on axioms: [propext, Classical.choice, Quot.sound] -/
#guard_msgs (whitespace := lax) in #print axioms Avx2.ExtendedPoint_conditional_select_lanes

/-- info: 'Dalek.Props.C01.VecFormulas.Avx2.ExtendedPoint_conditional_select_limb_spec' depends on axioms: [propext, Classical.choice, Quot.sound] -/
#guard_msgs (whitespace := lax) in #print axioms Avx2.ExtendedPoint_conditional_select_limb_spec

/-- info: 'Dalek.Props.C01.VecFormulas.Avx2.ExtendedPoint_conditional_assign_lanes' depends on axioms: [propext, Classical.choice, Quot.sound] -/
#guard_msgs (whitespace := lax) in #print axioms Avx2.ExtendedPoint_conditional_assign_lanes

/-- info: 'Dalek.Props.C01.VecFormulas.Avx2.ExtendedPoint_conditional_assign_limb_spec' depends on axioms: [propext, Classical.choice, Quot.sound] -/
#guard_msgs (whitespace := lax) in #print axioms Avx2.ExtendedPoint_conditional_assign_limb_spec

/-- info: 'Dalek.Props.C01.VecFormulas.Avx2.CachedPoint_conditional_select_lanes' depends on axioms: [propext, Classical.choice, Quot.sound] -/
#guard_msgs (whitespace := lax) in #print axioms Avx2.CachedPoint_conditional_select_lanes

/-- info: 'Dalek.Props.C01.VecFormulas.Avx2.CachedPoint_conditional_select_limb_spec' depends on axioms: [propext, Classical.choice, Quot.sound] -/
#guard_msgs (whitespace := lax) in #print axioms Avx2.CachedPoint_conditional_select_limb_spec

/-- info: 'Dalek.Props.C01.VecFormulas.Avx2.CachedPoint_conditional_assign_lanes' depends on axioms: [propext, Classical.choice, Quot.sound] -/
#guard_msgs (whitespace := lax) in #print axioms Avx2.CachedPoint_conditional_assign_lanes

/-- info: 'Dalek.Props.C01.VecFormulas.Avx2.CachedPoint_conditional_assign_limb_spec' depends on axioms: [propext, Classical.choice, Quot.sound] -/
#guard_msgs (whitespace := lax) in #print axioms Avx2.CachedPoint_conditional_assign_limb_spec

/-- info: 'Dalek.Props.C01.VecFormulas.Avx2.history_limb_spec' depends on axioms: [propext, Classical.choice, Quot.sound] -/
#guard_msgs (whitespace := lax) in #print axioms Avx2.history_limb_spec

/-- info: 'Dalek.Props.C01.VecFormulas.Avx2.program_limb_spec' depends on axioms: [propext, Classical.choice, Quot.sound] -/
#guard_msgs (whitespace := lax) in #print axioms Avx2.program_limb_spec

/-- info: 'Dalek.Props.C01.VecFormulas.Ifma.ExtendedPoint_from_EdwardsPoint_lanes' depends on axioms: [propext, Classical.choice, Quot.sound] -/
#guard_msgs (whitespace := lax) in #print axioms Ifma.ExtendedPoint_from_EdwardsPoint_lanes

/-- info: 'Dalek.Props.C01.VecFormulas.Ifma.ExtendedPoint_from_EdwardsPoint_limb_spec' depends on axioms: [propext, Classical.choice, Quot.sound] -/
#guard_msgs (whitespace := lax) in #print axioms Ifma.ExtendedPoint_from_EdwardsPoint_limb_spec

/-- info: 'Dalek.Props.C01.VecFormulas.Ifma.EdwardsPoint_from_ExtendedPoint_lanes' depends on axioms: [propext, Classical.choice, Quot.sound] -/
#guard_msgs (whitespace := lax) in #print axioms Ifma.EdwardsPoint_from_ExtendedPoint_lanes

/-- info: 'Dalek.Props.C01.VecFormulas.Ifma.EdwardsPoint_from_ExtendedPoint_limb_spec' depends on axioms: [propext, Classical.choice, Quot.sound] -/
#guard_msgs (whitespace := lax) in #print axioms Ifma.EdwardsPoint_from_ExtendedPoint_limb_spec

/-- info: 'Dalek.Props.C01.VecFormulas.Ifma.CachedPoint_from_ExtendedPoint_lanes' depends on axioms: [propext, Classical.choice, Quot.sound] -/
#guard_msgs (whitespace := lax) in #print axioms Ifma.CachedPoint_from_ExtendedPoint_lanes

/-- info: 'Dalek.Props.C01.VecFormulas.Ifma.CachedPoint_from_ExtendedPoint_limb_spec' depends on axioms: [propext, Classical.choice, Quot.sound] -/
#guard_msgs (whitespace := lax) in #print axioms Ifma.CachedPoint_from_ExtendedPoint_limb_spec

/-- info: 'Dalek.Props.C01.VecFormulas.Ifma.ExtendedPoint_double_lanes' depends on axioms: [propext, Classical.choice, Quot.sound] -/
#guard_msgs (whitespace := lax) in #print axioms Ifma.ExtendedPoint_double_lanes

/-- info: 'Dalek.Props.C01.VecFormulas.Ifma.ExtendedPoint_double_limb_spec' depends on axioms: [propext, Classical.choice, Quot.sound] -/
#guard_msgs (whitespace := lax) in #print axioms Ifma.ExtendedPoint_double_limb_spec

/-- info: 'Dalek.Props.C01.VecFormulas.Ifma.ExtendedPoint_mul_by_pow_2_body_lanes' depends on axioms: [propext, Classical.choice, Quot.sound] -/
#guard_msgs (whitespace := lax) in #print axioms Ifma.ExtendedPoint_mul_by_pow_2_body_lanes

/-- info: 'Dalek.Props.C01.VecFormulas.Ifma.ExtendedPoint_mul_by_pow_2_body_limb_spec' depends on axioms: [propext, Classical.choice, Quot.sound] -/
#guard_msgs (whitespace := lax) in #print axioms Ifma.ExtendedPoint_mul_by_pow_2_body_limb_spec

/-- info: 'Dalek.Props.C01.VecFormulas.Ifma.ExtendedPoint_add_CachedPoint_lanes' depends on axioms: [propext, Classical.choice, Quot.sound] -/
#guard_msgs (whitespace := lax) in #print axioms Ifma.ExtendedPoint_add_CachedPoint_lanes

/-- info: 'Dalek.Props.C01.VecFormulas.Ifma.ExtendedPoint_add_CachedPoint_limb_spec' depends on axioms: [propext, Classical.choice, Quot.sound] -/
#guard_msgs (whitespace := lax) in #print axioms Ifma.ExtendedPoint_add_CachedPoint_limb_spec

/-- info: 'Dalek.Props.C01.VecFormulas.Ifma.ExtendedPoint_sub_CachedPoint_lanes' depends on axioms: [propext, Classical.choice, Quot.sound] -/
#guard_msgs (whitespace := lax) in #print axioms Ifma.ExtendedPoint_sub_CachedPoint_lanes

/-- info: 'Dalek.Props.C01.VecFormulas.Ifma.ExtendedPoint_sub_CachedPoint_limb_spec' depends on axioms: [propext, Classical.choice, Quot.sound] -/
#guard_msgs (whitespace := lax) in #print axioms Ifma.ExtendedPoint_sub_CachedPoint_limb_spec

/-- info: 'Dalek.Props.C01.VecFormulas.Ifma.CachedPoint_neg_lanes' depends on axioms: [propext, Classical.choice, Quot.sound] -/
#guard_msgs (whitespace := lax) in #print axioms Ifma.CachedPoint_neg_lanes

/-- info: 'Dalek.Props.C01.VecFormulas.Ifma.CachedPoint_neg_limb_spec' depends on axioms: [propext, Classical.choice, Quot.sound] -/
#guard_msgs (whitespace := lax) in #print axioms Ifma.CachedPoint_neg_limb_spec

/-- info: 'Dalek.Props.C01.VecFormulas.Ifma.ExtendedPoint_identity_lanes' depends on axioms: [propext, Classical.choice, Quot.sound] -/
#guard_msgs (whitespace := lax) in #print axioms Ifma.ExtendedPoint_identity_lanes

/-- info: 'Dalek.Props.C01.VecFormulas.Ifma.ExtendedPoint_identity_limb_spec' depends on axioms: [propext, Classical.choice, Quot.sound] -/
#guard_msgs (whitespace := lax) in #print axioms Ifma.ExtendedPoint_identity_limb_spec

/-- info: 'Dalek.Props.C01.VecFormulas.Ifma.CachedPoint_identity_lanes' depends on axioms: [propext, Classical.choice, Quot.sound] -/
#guard_msgs (whitespace := lax) in #print axioms Ifma.CachedPoint_identity_lanes

/-- info: 'Dalek.Props.C01.VecFormulas.Ifma.CachedPoint_identity_limb_spec' depends on axioms: [propext, Classical.choice, Quot.sound] -/
#guard_msgs (whitespace := lax) in #print axioms Ifma.CachedPoint_identity_limb_spec

/-- info: 'Dalek.Props.C01.VecFormulas.Ifma.CachedPoint_conditional_select_lanes' depends on axioms: [propext, Classical.choice, Quot.sound] -/
#guard_msgs (whitespace := lax) in #print axioms Ifma.CachedPoint_conditional_select_lanes

/-- info: 'Dalek.Props.C01.VecFormulas.Ifma.CachedPoint_conditional_select_limb_spec' depends on axioms: [propext, Classical.choice, Quot.sound] -/
#guard_msgs (whitespace := lax) in #print axioms Ifma.CachedPoint_conditional_select_limb_spec

/-- info: 'Dalek.Props.C01.VecFormulas.Ifma.CachedPoint_conditional_assign_lanes' depends on axioms: [propext, Classical.choice, Quot.sound] -/
#guard_msgs (whitespace := lax) in #print axioms Ifma.CachedPoint_conditional_assign_lanes

/-- info: 'Dalek.Props.C01.VecFormulas.Ifma.CachedPoint_conditional_assign_limb_spec' depends on axioms: [propext, Classical.choice, Quot.sound] -/
#guard_msgs (whitespace := lax) in #print axioms Ifma.CachedPoint_conditional_assign_limb_spec

/-- info: 'Dalek.Props.C01.VecFormulas.Ifma.history_limb_spec' depends on axioms: [propext, Classical.choice, Quot.sound] -/
#guard_msgs (whitespace := lax) in #print axioms Ifma.history_limb_spec

/-- info: 'Dalek.Props.C01.VecFormulas.Ifma.program_limb_spec' depends on axioms: [propext, Classical.choice, Quot.sound] -/
#guard_msgs (whitespace := lax) in #print axioms Ifma.program_limb_spec

end Dalek.Props.C01.VecFormulas

import Mathlib.Data.ZMod.Basic
/-!
# Expressions over the field operations of a backend (shared by the fiat u64 and fiat u32 history theorems)

`FExpr` is the language of field computations on `FieldElement` values: variables and the operations
`+ - * neg square square2 pow2k(k)`; `evalF` is its value in `ZMod p`.  Each backend interprets it with the checked and the
release semantics of ITS translated kernels (`Props/C01/FiatHistory51.lean`, `FiatHistory26.lean`).
-/
namespace Dalek.Props.C01.FiatExpr

abbrev P : Nat := 2 ^ 255 - 19

inductive FExpr where
  | var (i : Nat)
  | add (a b : FExpr)
  | sub (a b : FExpr)
  | mul (a b : FExpr)
  | neg (a : FExpr)
  | square (a : FExpr)
  | square2 (a : FExpr)
  /-- `pow2k(k+1)`: `k+1` iterations of the loop body -/
  | pow2k (k : Nat) (a : FExpr)

/-- `n+1` iterations of a partial step -/
def iterC (f : List Nat → Option (List Nat)) : Nat → List Nat → Option (List Nat)
  | 0, x => f x
  | n + 1, x => (f x).bind (iterC f n)

def iterW (f : List Nat → List Nat) : Nat → List Nat → List Nat
  | 0, x => f x
  | n + 1, x => iterW f n (f x)

/-- the value in `ZMod p` -/
def FExpr.evalF (env : List (ZMod P)) : FExpr → ZMod P
  | .var i => env.getD i 0
  | .add a b => a.evalF env + b.evalF env
  | .sub a b => a.evalF env - b.evalF env
  | .mul a b => a.evalF env * b.evalF env
  | .neg a => - a.evalF env
  | .square a => a.evalF env ^ 2
  | .square2 a => 2 * a.evalF env ^ 2
  | .pow2k k a => a.evalF env ^ (2 ^ (k + 1))

def FExpr.scoped (n : Nat) : FExpr → Prop
  | .var i => i < n
  | .add a b | .sub a b | .mul a b => a.scoped n ∧ b.scoped n
  | .neg a | .square a | .square2 a | .pow2k _ a => a.scoped n

end Dalek.Props.C01.FiatExpr

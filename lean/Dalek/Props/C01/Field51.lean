import Dalek.IR.LimbSound
import Dalek.Proofs.Field51
/-!
# C01 — field arithmetic is exact arithmetic modulo 2^255-19 (property theorems)

Statements are about `Dalek.Gen.Field51.*`: the LimbIR programs REGENERATED from
`curve25519-dalek/src/backend/serial/u64/field.rs` on every run.  For every input inside the bound
contract (`Dalek.Model.Contracts`), the debug build (`evalC`, overflow checks + debug assertions) does not
panic, the release build (`evalW`, wrapping) returns the same limbs, the limbs satisfy the stated output
bound, and their value in `ZMod p` is the field operation applied to the values of the inputs.
-/
namespace Dalek.Props.C01.Field51
open Dalek.IR Dalek.Proofs.Field51 Dalek.Gen.Norm.Field51 Dalek.Model.Contracts

/-- value of a 5-limb radix-2^51 vector of naturals in `ZMod p` -/
def val51 (l : List Nat) : ZMod P := ((rep51 (toZ l) : Int) : ZMod P)

/-- output contract of the reducing kernels: every limb `< 2^52` (in fact `< 2^51 + 2^15`) -/
def reduced51 : List Itv := rep 5 (ub (2 ^ 52 - 1))

theorem toZ_cons (x : Nat) (xs : List Nat) : toZ (x :: xs) = (x : Int) :: toZ xs := rfl
theorem toZ_nil : toZ [] = [] := rfl

section
variable (a0 a1 a2 a3 a4 b0 b1 b2 b3 b4 : Nat)

/-- `&a * &b` (serial u64): any limbs below 2^54 -/
theorem mul_spec (hin : EnvIn [a0, a1, a2, a3, a4, b0, b1, b2, b3, b4] Field51.pre_mul) :
    ∃ out, Dalek.Gen.Field51.mul.evalC [a0, a1, a2, a3, a4, b0, b1, b2, b3, b4] = some out ∧
      Dalek.Gen.Field51.mul.evalW [a0, a1, a2, a3, a4, b0, b1, b2, b3, b4] = out ∧
      EnvIn out reduced51 ∧ val51 out = val51 [a0, a1, a2, a3, a4] * val51 [b0, b1, b2, b3, b4] := by
  obtain ⟨out, hC, hW, hpost, hZ⟩ := Prog.norm_sound _ _ _ _ mul_norm_ok _ hin
  refine ⟨out, hC, hW, EnvIn_of_itvsLe hpost (by decide +kernel), ?_⟩
  have h := mul_correct a0 a1 a2 a3 a4 b0 b1 b2 b3 b4
  rw [← mul_fn_ok] at h
  simp only [toZ_cons, toZ_nil] at hZ
  rw [hZ] at h
  simpa [val51, toZ_cons, toZ_nil] using h

/-- `&a - &b` -/
theorem sub_spec (hin : EnvIn [a0, a1, a2, a3, a4, b0, b1, b2, b3, b4] Field51.pre_sub) :
    ∃ out, Dalek.Gen.Field51.sub.evalC [a0, a1, a2, a3, a4, b0, b1, b2, b3, b4] = some out ∧
      Dalek.Gen.Field51.sub.evalW [a0, a1, a2, a3, a4, b0, b1, b2, b3, b4] = out ∧
      EnvIn out reduced51 ∧ val51 out = val51 [a0, a1, a2, a3, a4] - val51 [b0, b1, b2, b3, b4] := by
  obtain ⟨out, hC, hW, hpost, hZ⟩ := Prog.norm_sound _ _ _ _ sub_norm_ok _ hin
  refine ⟨out, hC, hW, EnvIn_of_itvsLe hpost (by decide +kernel), ?_⟩
  have h := sub_correct a0 a1 a2 a3 a4 b0 b1 b2 b3 b4
  rw [← sub_fn_ok] at h
  simp only [toZ_cons, toZ_nil] at hZ
  rw [hZ] at h
  simpa [val51, toZ_cons, toZ_nil] using h

/-- `&a + &b` (no reduction: output bound is the sum of the input bounds) -/
theorem add_spec (hin : EnvIn [a0, a1, a2, a3, a4, b0, b1, b2, b3, b4] Field51.pre_add) :
    ∃ out, Dalek.Gen.Field51.add.evalC [a0, a1, a2, a3, a4, b0, b1, b2, b3, b4] = some out ∧
      Dalek.Gen.Field51.add.evalW [a0, a1, a2, a3, a4, b0, b1, b2, b3, b4] = out ∧
      EnvIn out (rep 5 (ub (2 ^ 54 - 1))) ∧ val51 out = val51 [a0, a1, a2, a3, a4] + val51 [b0, b1, b2, b3, b4] := by
  obtain ⟨out, hC, hW, hpost, hZ⟩ := Prog.norm_sound _ _ _ _ add_norm_ok _ hin
  refine ⟨out, hC, hW, EnvIn_of_itvsLe hpost (by decide +kernel), ?_⟩
  have h := add_correct a0 a1 a2 a3 a4 b0 b1 b2 b3 b4
  rw [← add_fn_ok] at h
  simp only [toZ_cons, toZ_nil] at hZ
  rw [hZ] at h
  simpa [val51, toZ_cons, toZ_nil] using h

/-- `-&a` -/
theorem neg_spec (hin : EnvIn [a0, a1, a2, a3, a4] Field51.pre_neg) :
    ∃ out, Dalek.Gen.Field51.neg.evalC [a0, a1, a2, a3, a4] = some out ∧
      Dalek.Gen.Field51.neg.evalW [a0, a1, a2, a3, a4] = out ∧
      EnvIn out reduced51 ∧ val51 out = - val51 [a0, a1, a2, a3, a4] := by
  obtain ⟨out, hC, hW, hpost, hZ⟩ := Prog.norm_sound _ _ _ _ neg_norm_ok _ hin
  refine ⟨out, hC, hW, EnvIn_of_itvsLe hpost (by decide +kernel), ?_⟩
  have h := neg_correct a0 a1 a2 a3 a4
  rw [← neg_fn_ok] at h
  simp only [toZ_cons, toZ_nil] at hZ
  rw [hZ] at h
  simpa [val51, toZ_cons, toZ_nil] using h

/-- one squaring step of `pow2k` (the loop body); output again inside the input contract, so it iterates -/
theorem pow2k_body_spec (hin : EnvIn [a0, a1, a2, a3, a4] Field51.pre_pow2k_body) :
    ∃ out, Dalek.Gen.Field51.pow2k_body.evalC [a0, a1, a2, a3, a4] = some out ∧
      Dalek.Gen.Field51.pow2k_body.evalW [a0, a1, a2, a3, a4] = out ∧
      EnvIn out reduced51 ∧ val51 out = val51 [a0, a1, a2, a3, a4] ^ 2 := by
  obtain ⟨out, hC, hW, hpost, hZ⟩ := Prog.norm_sound _ _ _ _ pow2k_body_norm_ok _ hin
  refine ⟨out, hC, hW, EnvIn_of_itvsLe hpost (by decide +kernel), ?_⟩
  have h := pow2k_body_correct a0 a1 a2 a3 a4
  rw [← pow2k_body_fn_ok] at h
  simp only [toZ_cons, toZ_nil] at hZ
  rw [hZ] at h
  simpa [val51, toZ_cons, toZ_nil] using h

/-- the weak `reduce`: ANY five u64 words -/
theorem reduce_spec (hin : EnvIn [a0, a1, a2, a3, a4] Field51.pre_reduce) :
    ∃ out, Dalek.Gen.Field51.reduce.evalC [a0, a1, a2, a3, a4] = some out ∧
      Dalek.Gen.Field51.reduce.evalW [a0, a1, a2, a3, a4] = out ∧
      EnvIn out reduced51 ∧ val51 out = val51 [a0, a1, a2, a3, a4] := by
  obtain ⟨out, hC, hW, hpost, hZ⟩ := Prog.norm_sound _ _ _ _ reduce_norm_ok _ hin
  refine ⟨out, hC, hW, EnvIn_of_itvsLe hpost (by decide +kernel), ?_⟩
  have h := reduce_correct a0 a1 a2 a3 a4
  rw [← reduce_fn_ok] at h
  simp only [toZ_cons, toZ_nil] at hZ
  rw [hZ] at h
  simpa [val51, toZ_cons, toZ_nil] using h

/-- the doubling tail of `square2` -/
theorem square2_tail_spec (hin : EnvIn [a0, a1, a2, a3, a4] Field51.pre_square2_tail) :
    ∃ out, Dalek.Gen.Field51.square2_tail.evalC [a0, a1, a2, a3, a4] = some out ∧
      Dalek.Gen.Field51.square2_tail.evalW [a0, a1, a2, a3, a4] = out ∧
      EnvIn out (rep 5 (ub (2 ^ 53 - 1))) ∧ val51 out = 2 * val51 [a0, a1, a2, a3, a4] := by
  obtain ⟨out, hC, hW, hpost, hZ⟩ := Prog.norm_sound _ _ _ _ square2_tail_norm_ok _ hin
  refine ⟨out, hC, hW, EnvIn_of_itvsLe hpost (by decide +kernel), ?_⟩
  have h := square2_tail_correct a0 a1 a2 a3 a4
  rw [← square2_tail_fn_ok] at h
  simp only [toZ_cons, toZ_nil] at hZ
  rw [hZ] at h
  simpa [val51, toZ_cons, toZ_nil] using h

end

/-- non-vacuity: the all-limbs-at-the-bound input satisfies the contract of `mul` -/
example : EnvIn (List.replicate 10 (2 ^ 54 - 1)) Field51.pre_mul := by decide +kernel

end Dalek.Props.C01.Field51

import Dalek.Props.C01.Fiat26
import Dalek.Proofs.Bytes51
import Dalek.Props.C01.FiatExpr
import Dalek.Proofs.Bytes26
/-!
# C01 / C11 — the fiat u32 backend: EVERY expression over the wrapper operations is overflow-free and exact

`FExpr` is the language of field computations a fiat build can perform on `FieldElement2625` values: variables and the
wrapper operations `+ - * neg square square2 pow2k(k)`.  It is interpreted three ways: with the overflow-checked
semantics of the TRANSLATED wrappers (`evalC`, `none` = a debug build would panic), with their release semantics
(`evalW`), and in `ZMod p`.  `fiat51_expr`: for every expression and every environment of *tight* limb vectors the checked
run does not panic, equals the release run, is tight again, and its value is the `ZMod p` value of the expression.
This is the `histories` quantifier of C11 for this backend ("the headroom each kernel needs is re-established by every
operation that can feed it"): the invariant is fiat's own documented tight bound.
-/
namespace Dalek.Props.C01.Fiat26
open Dalek.IR Dalek.Model.Contracts Dalek.Props.C01.FiatExpr
open Dalek.Props.C01.Field26 (val26)

/-- debug-build run (overflow checks on) -/
def evalC (env : List (List Nat)) : FExpr → Option (List Nat)
  | .var i => env[i]?
  | .add a b => do let x ← evalC env a; let y ← evalC env b; Dalek.Gen.FiatField26.add_ref.evalC (x ++ y)
  | .sub a b => do let x ← evalC env a; let y ← evalC env b; Dalek.Gen.FiatField26.sub.evalC (x ++ y)
  | .mul a b => do let x ← evalC env a; let y ← evalC env b; Dalek.Gen.FiatField26.mul.evalC (x ++ y)
  | .neg a => do let x ← evalC env a; Dalek.Gen.FiatField26.neg.evalC x
  | .square a => do let x ← evalC env a; Dalek.Gen.FiatField26.square.evalC x
  | .square2 a => do let x ← evalC env a; Dalek.Gen.FiatField26.square2.evalC x
  | .pow2k k a => do let x ← evalC env a; iterC Dalek.Gen.FiatField26.pow2k_body.evalC k x

/-- release-build run -/
def evalW (env : List (List Nat)) : FExpr → List Nat
  | .var i => env.getD i []
  | .add a b => Dalek.Gen.FiatField26.add_ref.evalW (evalW env a ++ evalW env b)
  | .sub a b => Dalek.Gen.FiatField26.sub.evalW (evalW env a ++ evalW env b)
  | .mul a b => Dalek.Gen.FiatField26.mul.evalW (evalW env a ++ evalW env b)
  | .neg a => Dalek.Gen.FiatField26.neg.evalW (evalW env a)
  | .square a => Dalek.Gen.FiatField26.square.evalW (evalW env a)
  | .square2 a => Dalek.Gen.FiatField26.square2.evalW (evalW env a)
  | .pow2k k a => iterW Dalek.Gen.FiatField26.pow2k_body.evalW k (evalW env a)

theorem tight10 {l : List Nat} (h : EnvIn l tightOut) : ∃ a0 a1 a2 a3 a4 a5 a6 a7 a8 a9, l = [a0, a1, a2, a3, a4, a5, a6, a7, a8, a9] := by
  have hl := Dalek.Proofs.Bytes51.envIn_length h
  exact Dalek.Proofs.Bytes26.list_eq_of_length_10 (by simpa [tightOut, FiatField26.tight] using hl)

theorem envIn_append {xs ys : List Nat} {ts us : List Itv} (h1 : EnvIn xs ts) (h2 : EnvIn ys us) :
    EnvIn (xs ++ ys) (ts ++ us) := by
  induction xs generalizing ts with
  | nil => cases ts with
    | nil => simpa using h2
    | cons t ts => simp [EnvIn] at h1
  | cons x xs ih => cases ts with
    | nil => simp [EnvIn] at h1
    | cons t ts =>
      simp only [EnvIn] at h1
      simp only [List.cons_append, EnvIn]
      exact ⟨h1.1, ih h1.2⟩

/-- the `pow2k` loop: any number of iterations -/
theorem pow2k_iter (k : Nat) (l : List Nat) (h : EnvIn l tightOut) :
    ∃ out, iterC Dalek.Gen.FiatField26.pow2k_body.evalC k l = some out ∧
      iterW Dalek.Gen.FiatField26.pow2k_body.evalW k l = out ∧ EnvIn out tightOut ∧
      val26 out = val26 l ^ (2 ^ (k + 1)) := by
  induction k generalizing l with
  | zero =>
    obtain ⟨a0, a1, a2, a3, a4, a5, a6, a7, a8, a9, rfl⟩ := tight10 h
    obtain ⟨out, hC, hW, hT, hV⟩ := pow2k_body_spec a0 a1 a2 a3 a4 a5 a6 a7 a8 a9 (by simpa [FiatField26.pre_pow2k_body, tightOut] using h)
    exact ⟨out, by simpa [iterC] using hC, by simpa [iterW] using hW, hT, by simpa using hV⟩
  | succ k ih =>
    obtain ⟨a0, a1, a2, a3, a4, a5, a6, a7, a8, a9, rfl⟩ := tight10 h
    obtain ⟨o1, hC, hW, hT, hV⟩ := pow2k_body_spec a0 a1 a2 a3 a4 a5 a6 a7 a8 a9 (by simpa [FiatField26.pre_pow2k_body, tightOut] using h)
    obtain ⟨out, hC2, hW2, hT2, hV2⟩ := ih o1 hT
    refine ⟨out, ?_, ?_, hT2, ?_⟩
    · simp [iterC, hC, hC2]
    · simp [iterW, hW, hW2]
    · rw [hV2, hV, ← pow_mul]; congr 1; ring

/-- **every expression over the fiat u64 wrapper operations**, on tight inputs: no panic, checked = release, tight
result, exact value in `ZMod p`. -/
theorem fiat26_expr (env : List (List Nat)) (henv : ∀ l ∈ env, EnvIn l tightOut) (e : FExpr)
    (hs : e.scoped env.length) :
    ∃ out, evalC env e = some out ∧ evalW env e = out ∧ EnvIn out tightOut ∧
      val26 out = e.evalF (env.map val26) := by
  induction e with
  | var i =>
    simp only [FExpr.scoped] at hs
    refine ⟨env[i], by simp [evalC, hs], by simp [evalW, List.getD, hs], henv _ (List.getElem_mem hs), ?_⟩
    simp [FExpr.evalF, List.getD, hs]
  | add a b iha ihb =>
    obtain ⟨x, hxC, hxW, hxT, hxV⟩ := iha hs.1
    obtain ⟨y, hyC, hyW, hyT, hyV⟩ := ihb hs.2
    obtain ⟨a0, a1, a2, a3, a4, a5, a6, a7, a8, a9, rfl⟩ := tight10 hxT
    obtain ⟨b0, b1, b2, b3, b4, b5, b6, b7, b8, b9, rfl⟩ := tight10 hyT
    obtain ⟨out, hC, hW, hT, hV⟩ := add_ref_spec a0 a1 a2 a3 a4 a5 a6 a7 a8 a9 b0 b1 b2 b3 b4 b5 b6 b7 b8 b9
      (by simpa [FiatField26.pre_add_ref, tightOut] using envIn_append hxT hyT)
    exact ⟨out, by simp [evalC, hxC, hyC, hC], by simp [evalW, hxW, hyW, hW], hT,
      by simp [FExpr.evalF, hV, hxV, hyV]⟩
  | sub a b iha ihb =>
    obtain ⟨x, hxC, hxW, hxT, hxV⟩ := iha hs.1
    obtain ⟨y, hyC, hyW, hyT, hyV⟩ := ihb hs.2
    obtain ⟨a0, a1, a2, a3, a4, a5, a6, a7, a8, a9, rfl⟩ := tight10 hxT
    obtain ⟨b0, b1, b2, b3, b4, b5, b6, b7, b8, b9, rfl⟩ := tight10 hyT
    obtain ⟨out, hC, hW, hT, hV⟩ := sub_spec a0 a1 a2 a3 a4 a5 a6 a7 a8 a9 b0 b1 b2 b3 b4 b5 b6 b7 b8 b9
      (by simpa [FiatField26.pre_sub, tightOut] using envIn_append hxT hyT)
    exact ⟨out, by simp [evalC, hxC, hyC, hC], by simp [evalW, hxW, hyW, hW], hT,
      by simp [FExpr.evalF, hV, hxV, hyV]⟩
  | mul a b iha ihb =>
    obtain ⟨x, hxC, hxW, hxT, hxV⟩ := iha hs.1
    obtain ⟨y, hyC, hyW, hyT, hyV⟩ := ihb hs.2
    obtain ⟨a0, a1, a2, a3, a4, a5, a6, a7, a8, a9, rfl⟩ := tight10 hxT
    obtain ⟨b0, b1, b2, b3, b4, b5, b6, b7, b8, b9, rfl⟩ := tight10 hyT
    obtain ⟨out, hC, hW, hT, hV⟩ := mul_spec a0 a1 a2 a3 a4 a5 a6 a7 a8 a9 b0 b1 b2 b3 b4 b5 b6 b7 b8 b9
      (by simpa [FiatField26.pre_mul, tightOut] using envIn_append hxT hyT)
    exact ⟨out, by simp [evalC, hxC, hyC, hC], by simp [evalW, hxW, hyW, hW], hT,
      by simp [FExpr.evalF, hV, hxV, hyV]⟩
  | neg a iha =>
    obtain ⟨x, hxC, hxW, hxT, hxV⟩ := iha hs
    obtain ⟨a0, a1, a2, a3, a4, a5, a6, a7, a8, a9, rfl⟩ := tight10 hxT
    obtain ⟨out, hC, hW, hT, hV⟩ := neg_spec a0 a1 a2 a3 a4 a5 a6 a7 a8 a9 (by simpa [FiatField26.pre_neg, tightOut] using hxT)
    exact ⟨out, by simp [evalC, hxC, hC], by simp [evalW, hxW, hW], hT, by simp [FExpr.evalF, hV, hxV]⟩
  | square a iha =>
    obtain ⟨x, hxC, hxW, hxT, hxV⟩ := iha hs
    obtain ⟨a0, a1, a2, a3, a4, a5, a6, a7, a8, a9, rfl⟩ := tight10 hxT
    obtain ⟨out, hC, hW, hT, hV⟩ := square_spec a0 a1 a2 a3 a4 a5 a6 a7 a8 a9 (by simpa [FiatField26.pre_square, tightOut] using hxT)
    exact ⟨out, by simp [evalC, hxC, hC], by simp [evalW, hxW, hW], hT, by simp [FExpr.evalF, hV, hxV]⟩
  | square2 a iha =>
    obtain ⟨x, hxC, hxW, hxT, hxV⟩ := iha hs
    obtain ⟨a0, a1, a2, a3, a4, a5, a6, a7, a8, a9, rfl⟩ := tight10 hxT
    obtain ⟨out, hC, hW, hT, hV⟩ := square2_spec a0 a1 a2 a3 a4 a5 a6 a7 a8 a9 (by simpa [FiatField26.pre_square2, tightOut] using hxT)
    exact ⟨out, by simp [evalC, hxC, hC], by simp [evalW, hxW, hW], hT, by simp [FExpr.evalF, hV, hxV]⟩
  | pow2k k a iha =>
    obtain ⟨x, hxC, hxW, hxT, hxV⟩ := iha hs
    obtain ⟨out, hC, hW, hT, hV⟩ := pow2k_iter k x hxT
    exact ⟨out, by simp [evalC, hxC, hC], by simp [evalW, hxW, hW], hT, by simp [FExpr.evalF, hV, hxV]⟩

/-- non-vacuity: `invert`'s shape `(x^2)^(2^5) * x - (-x)` on the all-limbs-at-the-bound input is a scoped expression over a
tight environment -/
example : (FExpr.sub (.mul (.pow2k 4 (.square (.var 0))) (.var 0)) (.neg (.var 0))).scoped [[0x4000000, 0x2000000, 0x4000000, 0x2000000, 0x4000000, 0x2000000, 0x4000000, 0x2000000, 0x4000000, 0x2000000]].length ∧
    ∀ l ∈ [[0x4000000, 0x2000000, 0x4000000, 0x2000000, 0x4000000, 0x2000000, 0x4000000, 0x2000000, 0x4000000, 0x2000000]], EnvIn l tightOut := by
  refine ⟨by simp [FExpr.scoped], ?_⟩
  intro l hl
  simp only [List.mem_singleton] at hl
  subst hl
  decide +kernel

end Dalek.Props.C01.Fiat26

import Dalek.Proofs.AlgFieldLemmas
/-!
# C01 — exponent chains and `sqrt_ratio_i` (property theorems)

Statements are about the AlgIR programs `Dalek.Gen.AlgField.*` REGENERATED from
`curve25519-dalek/src/field.rs` on every run, interpreted in the field `Fp = ZMod (2^255-19)` by
`zmodOps` (squarings, multiplications, `pow2k`, constant-time selections as field functions), for ALL
inputs.  `run_natOps_eq_val` ties this interpretation to the executable one over canonical naturals
(`natOps`, run by the model executable); `sqrt_ratio_i_nat` states the agreement with the executable
specification `Spec.sqrtRatioM1` in that form.
-/
namespace Dalek.Props.C01.FieldChains

open Dalek.IR Dalek.Proofs Dalek.Gen Dalek.Spec Dalek.Model
open Dalek.FieldFacts (sqrtM1)

/-- `FieldElement::pow22501` returns `(x^(2^250-1), x^11)`. -/
theorem pow22501_spec (x : Fp) :
    AProg.run zmodOps AlgField.pow22501 [x] = [x ^ (2 ^ 250 - 1), x ^ 11] := by
  rw [AlgField.pow22501_sh_ok]
  alg_lets AlgField.pow22501_sh
  ring_nf

/-- `FieldElement::pow_p58` returns `x^((p-5)/8) = x^(2^252-3)`. -/
theorem pow_p58_spec (x : Fp) :
    AProg.run zmodOps AlgField.pow_p58 [x] = [x ^ ((P - 5) / 8)] := by
  rw [AlgField.pow_p58_sh_ok, p58_eq]
  alg_lets AlgField.pow_p58_sh
  ring_nf

/-- The exponent of `pow_p58`. -/
theorem pow_p58_exponent : (P - 5) / 8 = 2 ^ 252 - 3 := p58_eq

/-- `FieldElement::invert` returns the field inverse `x^(p-2) = x⁻¹` (and `0 ↦ 0`, Lean's `0⁻¹ = 0`). -/
theorem invert_spec (x : Fp) : AProg.run zmodOps AlgField.invert [x] = [x⁻¹] := by
  rw [AlgField.invert_sh_ok, ← Dalek.FieldFacts.pow_inv_exponent x]
  alg_lets AlgField.invert_sh
  ring_nf

/-- `invert(0) = 0`. -/
theorem invert_zero : AProg.run zmodOps AlgField.invert [0] = [0] := by
  rw [invert_spec, inv_zero]

/-- `x * invert(x) = 1` for `x ≠ 0`. -/
theorem invert_mul_cancel {x : Fp} (hx : x ≠ 0) :
    ∃ y, AProg.run zmodOps AlgField.invert [x] = [y] ∧ x * y = 1 :=
  ⟨x⁻¹, invert_spec x, mul_inv_cancel₀ hx⟩

/-- **`FieldElement::sqrt_ratio_i(u, v)`: the documented four-case contract**, for all `u v`:
the flag is a choice, the returned root is non-negative, and
* `u = 0`                         ⟹ `(1, 0)`;
* `v = 0`, `u ≠ 0`                ⟹ `(0, 0)`;
* `v ≠ 0`, `u/v` square           ⟹ `(1, r)` with `r² v = u`   (`r = +sqrt(u/v)`);
* `v ≠ 0`, `u/v` not a square     ⟹ `(0, r)` with `r² v = i u` (`r = +sqrt(i u/v)`). -/
theorem sqrt_ratio_i_spec (u v : Fp) :
    ∃ ok r, AProg.run zmodOps AlgField.sqrt_ratio_i [u, v] = [ok, r] ∧
      (ok = 0 ∨ ok = 1) ∧ ¬ fpIsNeg r ∧
      (u = 0 → ok = 1 ∧ r = 0) ∧
      (v = 0 → u ≠ 0 → ok = 0 ∧ r = 0) ∧
      (v ≠ 0 → IsSquare (u / v) → ok = 1 ∧ r ^ 2 * v = u) ∧
      (v ≠ 0 → ¬ IsSquare (u / v) → ok = 0 ∧ r ^ 2 * v = sqrtM1 * u) := by
  refine ⟨(sqrtRatioFp u v).1, (sqrtRatioFp u v).2, ?_, sqrtRatioFp_flag u v,
    sqrtRatioFp_not_isNeg u v, ?_⟩
  · rw [AlgField.sqrt_ratio_i_sh_ok, sqrt_ratio_i_sh_eq]
  · obtain ⟨h1, h2, h3, h4⟩ := sqrtRatioFp_spec u v
    refine ⟨fun h => ?_, fun h h' => ?_, h3, h4⟩
    · rw [h1 h]; exact ⟨rfl, rfl⟩
    · rw [h2 h h']; exact ⟨rfl, rfl⟩

/-- The translated `sqrt_ratio_i` computes, in the field, exactly what the executable specification
`Spec.sqrtRatioM1` (RFC 9496 `SQRT_RATIO_M1`) computes on the canonical representatives. -/
theorem sqrt_ratio_i_eq_spec (u v : Fp) :
    AProg.run zmodOps AlgField.sqrt_ratio_i [u, v] =
      [c2f ((sqrtRatioM1 u.val v.val).1 = true), (((sqrtRatioM1 u.val v.val).2 : Nat) : Fp)] := by
  rw [AlgField.sqrt_ratio_i_sh_ok, sqrt_ratio_i_sh_eq, sqrtRatioFp_fst, sqrtRatioFp_snd]

/-- Executable form: the translated program run over canonical naturals (`natOps`, as the model
executable does) returns the same pair as `Spec.sqrtRatioM1`. -/
theorem sqrt_ratio_i_nat {a b : Nat} (ha : a < P) (hb : b < P) :
    AProg.run natOps AlgField.sqrt_ratio_i [a, b] = [b2n (sqrtRatioM1 a b).1, (sqrtRatioM1 a b).2] := by
  have hav : ((a : Nat) : Fp).val = a := by rw [Bridge.val_cast, Nat.mod_eq_of_lt ha]
  have hbv : ((b : Nat) : Fp).val = b := by rw [Bridge.val_cast, Nat.mod_eq_of_lt hb]
  have h := run_natOps_eq_val AlgField.sqrt_ratio_i [((a : Nat) : Fp), ((b : Nat) : Fp)]
  rw [sqrt_ratio_i_eq_spec] at h
  simp only [List.map_cons, List.map_nil, hav, hbv] at h
  refine h.trans ?_
  have e2 : ((((sqrtRatioM1 a b).2 : Nat) : Fp)).val = (sqrtRatioM1 a b).2 := by
    rw [Bridge.val_cast, Nat.mod_eq_of_lt (Bridge.sqrtRatioM1_lt a b)]
  have e1 : ∀ t : Bool, (c2f (t = true)).val = b2n t := by
    intro t; cases t
    · rw [c2f_false (by decide)]; exact ZMod.val_zero
    · rw [c2f_true rfl]; exact ZMod.val_one _
  rw [e1, e2]

/-- `FieldElement::invsqrt(x) = sqrt_ratio_i(1, x)`: the contract for `u = 1`. -/
theorem invsqrt_spec (x : Fp) :
    ∃ ok r, AProg.run zmodOps AlgField.invsqrt [x] = [ok, r] ∧
      (ok = 0 ∨ ok = 1) ∧ ¬ fpIsNeg r ∧
      (x = 0 → ok = 0 ∧ r = 0) ∧
      (x ≠ 0 → IsSquare x → ok = 1 ∧ r ^ 2 * x = 1) ∧
      (x ≠ 0 → ¬ IsSquare x → ok = 0 ∧ r ^ 2 * x = sqrtM1) := by
  refine ⟨(sqrtRatioFp 1 x).1, (sqrtRatioFp 1 x).2, ?_, sqrtRatioFp_flag 1 x,
    sqrtRatioFp_not_isNeg 1 x, ?_⟩
  · rw [AlgField.invsqrt_sh_ok, invsqrt_sh_eq]
  · obtain ⟨-, h2, h3, h4⟩ := sqrtRatioFp_spec 1 x
    have hsq : IsSquare (1 / x) ↔ IsSquare x := by
      rw [one_div]; exact isSquare_inv
    refine ⟨fun h => ?_, fun h h' => h3 h (hsq.2 h'), fun h h' => ?_⟩
    · rw [h2 h one_ne_zero]; exact ⟨rfl, rfl⟩
    · have := h4 h (fun hh => h' (hsq.1 hh))
      rw [mul_one] at this; exact this

/-! ### The four cases of `sqrt_ratio_i` are inhabited (kernel evaluation of the specification) -/

example : sqrtRatioM1 4 1 = (true, 2) := by decide +kernel
example : sqrtRatioM1 0 7 = (true, 0) := by decide +kernel
example : sqrtRatioM1 3 0 = (false, 0) := by decide +kernel
example : (sqrtRatioM1 2 1).1 = false := by decide +kernel

/-! ### Axiom audit -/

/-- info: 'Dalek.Props.C01.FieldChains.invert_spec' depends on axioms: [propext, Classical.choice, Quot.sound] -/
#guard_msgs in #print axioms invert_spec

/-- info: 'Dalek.Props.C01.FieldChains.pow_p58_spec' depends on axioms: [propext, Classical.choice, Quot.sound] -/
#guard_msgs in #print axioms pow_p58_spec

/-- info: 'Dalek.Props.C01.FieldChains.pow22501_spec' depends on axioms: [propext, Classical.choice, Quot.sound] -/
#guard_msgs in #print axioms pow22501_spec

/-- info: 'Dalek.Props.C01.FieldChains.sqrt_ratio_i_spec' depends on axioms: [propext, Classical.choice, Quot.sound] -/
#guard_msgs in #print axioms sqrt_ratio_i_spec

/-- info: 'Dalek.Props.C01.FieldChains.sqrt_ratio_i_nat' depends on axioms: [propext, Classical.choice, Quot.sound] -/
#guard_msgs in #print axioms sqrt_ratio_i_nat

/-- info: 'Dalek.Props.C01.FieldChains.invsqrt_spec' depends on axioms: [propext, Classical.choice, Quot.sound] -/
#guard_msgs in #print axioms invsqrt_spec

end Dalek.Props.C01.FieldChains

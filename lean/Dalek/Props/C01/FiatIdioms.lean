import Mathlib.Tactic.NormNum
import Mathlib.Tactic.Ring
import Dalek.Proofs.FiatBytes51
import Dalek.Proofs.FiatBytes26
/-!
# C01 — the two translation IDIOMS of the fiat backends are correct on their domains, and `as_bytes` stays inside them

`tools/rs2lean/fiatir.py` does not interpret the signed-cast code of `fiat_25519_subborrowx_uK` and `fiat_25519_cmovznz_uW`; it checks the
helper's source text against a template and emits the meaning
`d = (x − b − y) mod 2^W; out1 = d mod 2^K; out2 = ⌊d / 2^(W−1)⌋` resp. `if c = 0 then z else nz`.
This module reduces that piece of translator knowledge to a READING of the five resp. three Rust lines as integer arithmetic:

* `subborrowRef W K b x y` / `cmovRef W c z nz` transcribe the Rust statements with their types (`sw n` = the value of an `n`-bit
  two's-complement word; `as iN` = `sw N`; `>>` on a signed value = floor division; `& mask` on a sign-extended value = `mod`);
* `subborrow_idiom_64_51`, `_32_26`, `_32_25`: on the domain `0 ≤ b ≤ 1`, `−2^K ≤ x − b − y < 2^K` the Rust results equal the idiom's;
  `subborrow_idiom_needs_domain`: outside it they differ (so the domain is not decorative); `cmov_idiom_*` for `c ∈ {0,1}`;
* `as_bytes51_in_domain` / `as_bytes26_in_domain`: along `as_bytes` on tight limbs EVERY subtract-with-borrow step is inside the domain (the
  borrow chain of the hand model that `Proofs/FiatBytes51|26 as_bytes_fn_eq_model` proves equal to the generated kernel); the `sel` that
  `cmovznz` becomes is guarded by the verified analyser itself (`sel` requires `cond < 2`).
-/
namespace Dalek.Props.C01.FiatIdioms

/-- value of an `n`-bit two's-complement word holding the integer `z` (Rust `as iN` of any wider integer) -/
def sw (n : Nat) (z : Int) : Int := (z + 2 ^ (n - 1)) % 2 ^ n - 2 ^ (n - 1)

/-- `fiat_25519_subborrowx_uK(out1, out2, b: u1, x: uW, y: uW)`, statement by statement:
`x1: iW = (((x as i2W) − (b as i2W)) as iW as i2W − (y as i2W)) as iW;  x2: i8 = (x1 >> K) as i8;
 x3: uW = ((x1 as i2W) & (2^K − 1)) as uW;  out1 = x3;  out2 = ((0 as i8) − (x2 as i8)) as u8` -/
def subborrowRef (W K : Nat) (b x y : Int) : Int × Int :=
  let x1 := sw W (sw W (x - b) - y)
  let x2 := sw 8 (x1 / 2 ^ K)
  let x3 := x1 % 2 ^ K
  (x3, (sw 8 (0 - x2)) % 2 ^ 8)

/-- the idiom emitted by the translator -/
def subborrowIdiom (W K : Nat) (b x y : Int) : Int × Int :=
  let d := (x - b - y) % 2 ^ W
  (d % 2 ^ K, d / 2 ^ (W - 1))

theorem subborrow_idiom_64_51 (b x y : Int) (hb : 0 ≤ b ∧ b ≤ 1) (hx : 0 ≤ x ∧ x < 2 ^ 64) (hy : 0 ≤ y ∧ y < 2 ^ 64)
    (hd : -(2 ^ 51) ≤ x - b - y ∧ x - b - y < 2 ^ 51) : subborrowRef 64 51 b x y = subborrowIdiom 64 51 b x y := by
  simp only [subborrowRef, subborrowIdiom, sw, Prod.mk.injEq]
  constructor <;> omega

theorem subborrow_idiom_32_26 (b x y : Int) (hb : 0 ≤ b ∧ b ≤ 1) (hx : 0 ≤ x ∧ x < 2 ^ 32) (hy : 0 ≤ y ∧ y < 2 ^ 32)
    (hd : -(2 ^ 26) ≤ x - b - y ∧ x - b - y < 2 ^ 26) : subborrowRef 32 26 b x y = subborrowIdiom 32 26 b x y := by
  simp only [subborrowRef, subborrowIdiom, sw, Prod.mk.injEq]
  constructor <;> omega

theorem subborrow_idiom_32_25 (b x y : Int) (hb : 0 ≤ b ∧ b ≤ 1) (hx : 0 ≤ x ∧ x < 2 ^ 32) (hy : 0 ≤ y ∧ y < 2 ^ 32)
    (hd : -(2 ^ 25) ≤ x - b - y ∧ x - b - y < 2 ^ 25) : subborrowRef 32 25 b x y = subborrowIdiom 32 25 b x y := by
  simp only [subborrowRef, subborrowIdiom, sw, Prod.mk.injEq]
  constructor <;> omega

/-- the domain is needed: just below it the Rust code and the idiom disagree (borrow `2` vs `1`) -/
theorem subborrow_idiom_needs_domain : subborrowRef 64 51 0 0 (2 ^ 51 + 1) ≠ subborrowIdiom 64 51 0 0 (2 ^ 51 + 1) := by
  decide

/-- `fiat_25519_cmovznz_uW(out, c: u1, z, nz)`: `x1 = !!c = c; x2: uW = (((0 as i8) − (x1 as i8)) as i8 as i2W & (2^W − 1)) as uW;
out = (x2 & nz) | (!x2 & z)`; for `c ∈ {0,1}` the mask `x2` is `0` resp. `2^W − 1` -/
def cmovMask (W : Nat) (c : Int) : Int := (sw 8 (0 - c)) % 2 ^ W

theorem cmov_mask_zero (W : Nat) (hW : 8 ≤ W) : cmovMask W 0 = 0 := by
  simp [cmovMask, sw]

theorem cmov_mask_one_64 : cmovMask 64 1 = 2 ^ 64 - 1 := by decide
theorem cmov_mask_one_32 : cmovMask 32 1 = 2 ^ 32 - 1 := by decide

/-- with the all-zero mask the bit expression `(m & nz) | (!m & z)` is `z`, with the all-ones mask it is `nz` -/
theorem cmov_select_64 (z nz : Nat) (hz : z < 2 ^ 64) (hnz : nz < 2 ^ 64) :
    ((0 &&& nz) ||| ((2 ^ 64 - 1 - 0) &&& z) = z) ∧ (((2 ^ 64 - 1) &&& nz) ||| ((2 ^ 64 - 1 - (2 ^ 64 - 1)) &&& z) = nz) := by
  constructor
  · rw [Nat.zero_and, Nat.zero_or, Nat.sub_zero, Nat.and_comm, Nat.and_two_pow_sub_one_eq_mod, Nat.mod_eq_of_lt hz]
  · rw [Nat.sub_self, Nat.zero_and, Nat.or_zero, Nat.and_comm, Nat.and_two_pow_sub_one_eq_mod, Nat.mod_eq_of_lt hnz]

theorem cmov_select_32 (z nz : Nat) (hz : z < 2 ^ 32) (hnz : nz < 2 ^ 32) :
    ((0 &&& nz) ||| ((2 ^ 32 - 1 - 0) &&& z) = z) ∧ (((2 ^ 32 - 1) &&& nz) ||| ((2 ^ 32 - 1 - (2 ^ 32 - 1)) &&& z) = nz) := by
  constructor
  · rw [Nat.zero_and, Nat.zero_or, Nat.sub_zero, Nat.and_comm, Nat.and_two_pow_sub_one_eq_mod, Nat.mod_eq_of_lt hz]
  · rw [Nat.sub_self, Nat.zero_and, Nat.or_zero, Nat.and_comm, Nat.and_two_pow_sub_one_eq_mod, Nat.mod_eq_of_lt hnz]

/-- **fiat u64 `as_bytes` stays inside the domain of the subtract-with-borrow idiom**: for tight limbs (`0 ≤ a_i ≤ 2^51`, inclusive), with
`c_i` the borrows computed by the kernel, every step `a_i − c_{i−1} − m_i` lies in `[−2^51, 2^51)` and every borrow is `0` or `1`. -/
theorem as_bytes51_in_domain (a0 a1 a2 a3 a4 : Int)
    (b0 : 0 ≤ a0 ∧ a0 ≤ 2 ^ 51) (b1 : 0 ≤ a1 ∧ a1 ≤ 2 ^ 51) (b2 : 0 ≤ a2 ∧ a2 ≤ 2 ^ 51) (b3 : 0 ≤ a3 ∧ a3 ≤ 2 ^ 51)
    (b4 : 0 ≤ a4 ∧ a4 ≤ 2 ^ 51) :
    let c0 := ((a0 - 0 - (2 ^ 51 - 19)) % 2 ^ 64) / 2 ^ 63
    let c1 := ((a1 - c0 - (2 ^ 51 - 1)) % 2 ^ 64) / 2 ^ 63
    let c2 := ((a2 - c1 - (2 ^ 51 - 1)) % 2 ^ 64) / 2 ^ 63
    let c3 := ((a3 - c2 - (2 ^ 51 - 1)) % 2 ^ 64) / 2 ^ 63
    (-(2 ^ 51) ≤ a0 - 0 - (2 ^ 51 - 19) ∧ a0 - 0 - (2 ^ 51 - 19) < 2 ^ 51) ∧ (0 ≤ c0 ∧ c0 ≤ 1) ∧
    (-(2 ^ 51) ≤ a1 - c0 - (2 ^ 51 - 1) ∧ a1 - c0 - (2 ^ 51 - 1) < 2 ^ 51) ∧ (0 ≤ c1 ∧ c1 ≤ 1) ∧
    (-(2 ^ 51) ≤ a2 - c1 - (2 ^ 51 - 1) ∧ a2 - c1 - (2 ^ 51 - 1) < 2 ^ 51) ∧ (0 ≤ c2 ∧ c2 ≤ 1) ∧
    (-(2 ^ 51) ≤ a3 - c2 - (2 ^ 51 - 1) ∧ a3 - c2 - (2 ^ 51 - 1) < 2 ^ 51) ∧ (0 ≤ c3 ∧ c3 ≤ 1) ∧
    (-(2 ^ 51) ≤ a4 - c3 - (2 ^ 51 - 1) ∧ a4 - c3 - (2 ^ 51 - 1) < 2 ^ 51) := by
  intro c0 c1 c2 c3
  have h0 : 0 ≤ c0 ∧ c0 ≤ 1 := by omega
  have h1 : 0 ≤ c1 ∧ c1 ≤ 1 := by omega
  have h2 : 0 ≤ c2 ∧ c2 ≤ 1 := by omega
  have h3 : 0 ≤ c3 ∧ c3 ≤ 1 := by omega
  omega

/-- **fiat u32 `as_bytes` stays inside the domains of the two subtract-with-borrow idioms** (`u26` on even limbs, `u25` on odd limbs) for tight
limbs (even `≤ 2^26`, odd `≤ 2^25`, inclusive). -/
theorem as_bytes26_in_domain (a0 a1 a2 a3 a4 a5 a6 a7 a8 a9 : Int)
    (b0 : 0 ≤ a0 ∧ a0 ≤ 2 ^ 26) (b1 : 0 ≤ a1 ∧ a1 ≤ 2 ^ 25) (b2 : 0 ≤ a2 ∧ a2 ≤ 2 ^ 26) (b3 : 0 ≤ a3 ∧ a3 ≤ 2 ^ 25) (b4 : 0 ≤ a4 ∧ a4 ≤ 2 ^ 26) (b5 : 0 ≤ a5 ∧ a5 ≤ 2 ^ 25) (b6 : 0 ≤ a6 ∧ a6 ≤ 2 ^ 26) (b7 : 0 ≤ a7 ∧ a7 ≤ 2 ^ 25) (b8 : 0 ≤ a8 ∧ a8 ≤ 2 ^ 26) (b9 : 0 ≤ a9 ∧ a9 ≤ 2 ^ 25) :
    let c0 := ((a0 - 0 - (2 ^ 26 - 19)) % 2 ^ 32) / 2 ^ 31
    let c1 := ((a1 - c0 - (2 ^ 25 - 1)) % 2 ^ 32) / 2 ^ 31
    let c2 := ((a2 - c1 - (2 ^ 26 - 1)) % 2 ^ 32) / 2 ^ 31
    let c3 := ((a3 - c2 - (2 ^ 25 - 1)) % 2 ^ 32) / 2 ^ 31
    let c4 := ((a4 - c3 - (2 ^ 26 - 1)) % 2 ^ 32) / 2 ^ 31
    let c5 := ((a5 - c4 - (2 ^ 25 - 1)) % 2 ^ 32) / 2 ^ 31
    let c6 := ((a6 - c5 - (2 ^ 26 - 1)) % 2 ^ 32) / 2 ^ 31
    let c7 := ((a7 - c6 - (2 ^ 25 - 1)) % 2 ^ 32) / 2 ^ 31
    let c8 := ((a8 - c7 - (2 ^ 26 - 1)) % 2 ^ 32) / 2 ^ 31
    (-(2 ^ 26) ≤ a0 - 0 - (2 ^ 26 - 19) ∧ a0 - 0 - (2 ^ 26 - 19) < 2 ^ 26) ∧
    (0 ≤ c0 ∧ c0 ≤ 1) ∧
    (-(2 ^ 25) ≤ a1 - c0 - (2 ^ 25 - 1) ∧ a1 - c0 - (2 ^ 25 - 1) < 2 ^ 25) ∧
    (0 ≤ c1 ∧ c1 ≤ 1) ∧
    (-(2 ^ 26) ≤ a2 - c1 - (2 ^ 26 - 1) ∧ a2 - c1 - (2 ^ 26 - 1) < 2 ^ 26) ∧
    (0 ≤ c2 ∧ c2 ≤ 1) ∧
    (-(2 ^ 25) ≤ a3 - c2 - (2 ^ 25 - 1) ∧ a3 - c2 - (2 ^ 25 - 1) < 2 ^ 25) ∧
    (0 ≤ c3 ∧ c3 ≤ 1) ∧
    (-(2 ^ 26) ≤ a4 - c3 - (2 ^ 26 - 1) ∧ a4 - c3 - (2 ^ 26 - 1) < 2 ^ 26) ∧
    (0 ≤ c4 ∧ c4 ≤ 1) ∧
    (-(2 ^ 25) ≤ a5 - c4 - (2 ^ 25 - 1) ∧ a5 - c4 - (2 ^ 25 - 1) < 2 ^ 25) ∧
    (0 ≤ c5 ∧ c5 ≤ 1) ∧
    (-(2 ^ 26) ≤ a6 - c5 - (2 ^ 26 - 1) ∧ a6 - c5 - (2 ^ 26 - 1) < 2 ^ 26) ∧
    (0 ≤ c6 ∧ c6 ≤ 1) ∧
    (-(2 ^ 25) ≤ a7 - c6 - (2 ^ 25 - 1) ∧ a7 - c6 - (2 ^ 25 - 1) < 2 ^ 25) ∧
    (0 ≤ c7 ∧ c7 ≤ 1) ∧
    (-(2 ^ 26) ≤ a8 - c7 - (2 ^ 26 - 1) ∧ a8 - c7 - (2 ^ 26 - 1) < 2 ^ 26) ∧
    (0 ≤ c8 ∧ c8 ≤ 1) ∧
    (-(2 ^ 25) ≤ a9 - c8 - (2 ^ 25 - 1) ∧ a9 - c8 - (2 ^ 25 - 1) < 2 ^ 25) := by
  intro c0 c1 c2 c3 c4 c5 c6 c7 c8
  have h0 : 0 ≤ c0 ∧ c0 ≤ 1 := by omega
  have h1 : 0 ≤ c1 ∧ c1 ≤ 1 := by omega
  have h2 : 0 ≤ c2 ∧ c2 ≤ 1 := by omega
  have h3 : 0 ≤ c3 ∧ c3 ≤ 1 := by omega
  have h4 : 0 ≤ c4 ∧ c4 ≤ 1 := by omega
  have h5 : 0 ≤ c5 ∧ c5 ≤ 1 := by omega
  have h6 : 0 ≤ c6 ∧ c6 ≤ 1 := by omega
  have h7 : 0 ≤ c7 ∧ c7 ≤ 1 := by omega
  have h8 : 0 ≤ c8 ∧ c8 ≤ 1 := by omega
  omega

/-- non-vacuity and sharpness: all limbs AT the tight bound are admitted and the first step then sits at `19`, all limbs `0` at `−2^51 + 19` -/
example : (0 : Int) ≤ 2 ^ 51 ∧ (2 : Int) ^ 51 - 0 - (2 ^ 51 - 19) = 19 ∧ (0 : Int) - 0 - (2 ^ 51 - 19) = -(2 ^ 51) + 19 := by
  norm_num

end Dalek.Props.C01.FiatIdioms

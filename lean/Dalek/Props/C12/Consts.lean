import Dalek.Model.ConstCheck
import Dalek.Proofs.CurveOrder.Structure
import Dalek.Proofs.Bridge.FastEdwards
/-!
# C12 — every precomputed constant and table entry equals its definition

All statements are about the literals of `Dalek.Gen.Consts`, REGENERATED from the Rust sources
(`curve25519-dalek/src/{constants.rs, backend/serial/{u64,u32}/constants.rs,
backend/vector/{avx2,ifma}/constants.rs}`, `ed25519-dalek/src/constants.rs`, `x25519-dalek/src/x25519.rs`)
by `tools/rs2lean` on every run, and the executable specification `Dalek.Spec.*`.  Each theorem is
`check… = true` for a checker defined (with its meaning documented) in `Dalek/Model/ConstCheck.lean`, proved
by kernel evaluation (`decide +kernel`): a changed literal makes the corresponding theorem fail to
type-check, and `Dalek.Model.ConstCheck.report` / `tableFailures` name the offending check / entry.

Decoding: `val51 l = Σ lᵢ 2^(51 i) mod p` (u64 backend), `val26 l = Σ lᵢ 2^⌈25.5 i⌉ mod p` (u32 backend),
`laneAvx2`/`laneIfma` for the vector layouts, `val52`/`val29` for scalars.  `P`, `L`, `D`, `B`, `compress`,
`eightTorsion`, `Ristretto.encode`, `toMontgomery` are those of `Dalek.Spec`.

Multiples of the basepoint are computed from the SPECIFICATION's `B` by chains of additions/doublings in
extended coordinates (`Dalek.Model.EPt`, the complete HWCD formulas) and compared by cross-multiplication.
-/
namespace Dalek.Props.C12
open Dalek.Spec Dalek.Model Dalek.Model.ConstCheck
open Dalek.Gen.Consts

/-! ## Field constants: defining equations, in both serial representations -/

/-- `MINUS_ONE = -1` (u64 and u32) -/
theorem MINUS_ONE_ok :
    (checkMinusOne (val51 U64.MINUS_ONE) && checkMinusOne (val26 U32.MINUS_ONE)) = true := by
  decide +kernel

/-- `EDWARDS_D · 121666 = -121665` -/
theorem EDWARDS_D_ok :
    (checkD (val51 U64.EDWARDS_D) && checkD (val26 U32.EDWARDS_D)) = true := by decide +kernel

/-- the same, spelled out -/
theorem EDWARDS_D_u64_eq : val51 U64.EDWARDS_D * 121666 % P = P - 121665 := by decide +kernel
theorem EDWARDS_D_u32_eq : val26 U32.EDWARDS_D * 121666 % P = P - 121665 := by decide +kernel

/-- `EDWARDS_D2 = 2·EDWARDS_D` -/
theorem EDWARDS_D2_ok :
    (checkD2 (val51 U64.EDWARDS_D) (val51 U64.EDWARDS_D2) &&
     checkD2 (val26 U32.EDWARDS_D) (val26 U32.EDWARDS_D2)) = true := by decide +kernel

theorem EDWARDS_D2_u64_eq : val51 U64.EDWARDS_D2 = 2 * val51 U64.EDWARDS_D % P := by decide +kernel
theorem EDWARDS_D2_u32_eq : val26 U32.EDWARDS_D2 = 2 * val26 U32.EDWARDS_D % P := by decide +kernel

/-- `SQRT_M1² = -1`, and `SQRT_M1` is the non-negative (even) root -/
theorem SQRT_M1_ok :
    (checkSqrtM1 (val51 U64.SQRT_M1) && checkSqrtM1 (val26 U32.SQRT_M1)) = true := by decide +kernel

theorem SQRT_M1_u64_sq : val51 U64.SQRT_M1 * val51 U64.SQRT_M1 % P = P - 1 := by decide +kernel
theorem SQRT_M1_u32_sq : val26 U32.SQRT_M1 * val26 U32.SQRT_M1 % P = P - 1 := by decide +kernel
theorem SQRT_M1_u64_even : val51 U64.SQRT_M1 % 2 = 0 := by decide +kernel
theorem SQRT_M1_u32_even : val26 U32.SQRT_M1 % 2 = 0 := by decide +kernel

/-- `ONE_MINUS_EDWARDS_D_SQUARED = 1 - d²` -/
theorem ONE_MINUS_EDWARDS_D_SQUARED_ok :
    (checkOneMinusDSq (val51 U64.EDWARDS_D) (val51 U64.ONE_MINUS_EDWARDS_D_SQUARED) &&
     checkOneMinusDSq (val26 U32.EDWARDS_D) (val26 U32.ONE_MINUS_EDWARDS_D_SQUARED)) = true := by
  decide +kernel

/-- `EDWARDS_D_MINUS_ONE_SQUARED = (d - 1)²` -/
theorem EDWARDS_D_MINUS_ONE_SQUARED_ok :
    (checkDMinusOneSq (val51 U64.EDWARDS_D) (val51 U64.EDWARDS_D_MINUS_ONE_SQUARED) &&
     checkDMinusOneSq (val26 U32.EDWARDS_D) (val26 U32.EDWARDS_D_MINUS_ONE_SQUARED)) = true := by
  decide +kernel

/-- `SQRT_AD_MINUS_ONE² = ad - 1 = -d - 1` -/
theorem SQRT_AD_MINUS_ONE_ok :
    (checkSqrtAdMinusOne (val51 U64.EDWARDS_D) (val51 U64.SQRT_AD_MINUS_ONE) &&
     checkSqrtAdMinusOne (val26 U32.EDWARDS_D) (val26 U32.SQRT_AD_MINUS_ONE)) = true := by
  decide +kernel

/-- `INVSQRT_A_MINUS_D² · (a - d) = 1`, `a - d = -1 - d` -/
theorem INVSQRT_A_MINUS_D_ok :
    (checkInvsqrtAMinusD (val51 U64.EDWARDS_D) (val51 U64.INVSQRT_A_MINUS_D) &&
     checkInvsqrtAMinusD (val26 U32.EDWARDS_D) (val26 U32.INVSQRT_A_MINUS_D)) = true := by
  decide +kernel

/-- `APLUS2_OVER_FOUR = 121666 = (A + 2)/4` -/
theorem APLUS2_OVER_FOUR_ok :
    (checkAplus2Over4 (val51 U64.APLUS2_OVER_FOUR) (val51 U64.MONTGOMERY_A) &&
     checkAplus2Over4 (val26 U32.APLUS2_OVER_FOUR) (val26 U32.MONTGOMERY_A)) = true := by
  decide +kernel

/-- `MONTGOMERY_A = 486662` -/
theorem MONTGOMERY_A_ok :
    (checkMontA (val51 U64.MONTGOMERY_A) && checkMontA (val26 U32.MONTGOMERY_A)) = true := by
  decide +kernel

/-- `MONTGOMERY_A_NEG = -486662` -/
theorem MONTGOMERY_A_NEG_ok :
    (checkMontANeg (val51 U64.MONTGOMERY_A_NEG) && checkMontANeg (val26 U32.MONTGOMERY_A_NEG)) = true := by
  decide +kernel

/-- every field-constant literal is the canonical encoding of its value: limbs `< 2^51`
(resp. `< 2^26 / 2^25`) and denoted integer `< p` -/
theorem field_consts_canonical :
    (checkFieldCanon51 u64Consts && checkFieldCanon26 u32Consts) = true := by decide +kernel

/-- `repr_agree`: the u64 and u32 literals of each of the eleven field constants denote the same value -/
theorem field_consts_repr_agree : checkFieldReprAgree = true := by decide +kernel

/-- the literal constants of the executable specification (`Spec.D`, `Spec.SQRT_M1`, RFC 9496's
`INVSQRT_A_MINUS_D`, `SQRT_AD_MINUS_ONE`, `ONE_MINUS_D_SQ`, `D_MINUS_ONE_SQ`, `MONTGOMERY_A`, `a24 + 1`) are the
values of the crate's literals — in particular the two Ristretto square roots have the RFC's sign -/
theorem spec_consts_agree :
    (checkSpecConsts val51 u64Consts && checkSpecConsts val26 u32Consts) = true := by decide +kernel

/-! ## Scalar constants -/

/-- `L` denotes `l = 2^252 + 27742317777372353535851937790883648493` (52-bit and 29-bit limbs) -/
theorem L_ok : (checkL52 && checkL29) = true := by decide +kernel
theorem L_u64_eq : val52 U64.L = L := by decide +kernel
theorem L_u32_eq : val29 U32.L = L := by decide +kernel

/-- `R = 2^260 mod l` (u64), `R = 2^261 mod l` (u32) -/
theorem R_ok : (checkR52 && checkR29) = true := by decide +kernel
theorem R_u64_eq : val52 U64.R = 2 ^ 260 % L := by decide +kernel
theorem R_u32_eq : val29 U32.R = 2 ^ 261 % L := by decide +kernel

/-- `RR = R² mod l` -/
theorem RR_ok : (checkRR52 && checkRR29) = true := by decide +kernel
theorem RR_u64_eq : val52 U64.RR = val52 U64.R * val52 U64.R % L := by decide +kernel
theorem RR_u32_eq : val29 U32.RR = val29 U32.R * val29 U32.R % L := by decide +kernel

/-- `LFACTOR · L[0] ≡ -1 (mod 2^52)` resp. `(mod 2^29)` -/
theorem LFACTOR_ok : (checkLFACTOR52 && checkLFACTOR29) = true := by decide +kernel
theorem LFACTOR_u64_eq : U64.LFACTOR * U64.L.getD 0 0 % 2 ^ 52 = 2 ^ 52 - 1 := by decide +kernel
theorem LFACTOR_u32_eq : U32.LFACTOR * U32.L.getD 0 0 % 2 ^ 29 = 2 ^ 29 - 1 := by decide +kernel

/-- `BASEPOINT_ORDER` (and `BASEPOINT_ORDER_PRIVATE`) are the 32 little-endian bytes of `l` -/
theorem BASEPOINT_ORDER_ok : checkBasepointOrder = true := by decide +kernel

/-- `repr_agree` for the scalar constants (`L` equal; `LFACTOR₃₂ = LFACTOR₆₄ mod 2^29`;
`R₃₂ = 2 R₆₄`, `RR₃₂ = 4 RR₆₄ mod l`, the radices being 2^261 and 2^260 by design) -/
theorem scalar_consts_repr_agree : checkScalarReprAgree = true := by decide +kernel

/-! ## AVX2 / IFMA lane constants -/

/-- `[P_TIMES_2_LO, P_TIMES_2_HI ×4]` is limb-wise `2 ×` the radix-2^25.5 limbs of `p` in all four lanes,
each lane denotes exactly `2p`, every limb is `≥ 2^(w+0.999)` (and fits in 32 bits) -/
theorem P_TIMES_2_ok : checkPTimes2 = true := by decide +kernel

/-- `[P_TIMES_16_LO, P_TIMES_16_HI ×4]` is limb-wise `16 ×` the limbs of `p`, each lane denotes exactly `16p`,
every limb is `≥ 2^(w+3.999)` (and fits in 32 bits) -/
theorem P_TIMES_16_ok : checkPTimes16 = true := by decide +kernel

/-- AVX2 `EXTENDEDPOINT_IDENTITY` = lanes `(0,1,1,0)`; `CACHEDPOINT_IDENTITY` ≡ `CachedPoint::from(identity)`
= `(121666, 121666, 243332, 0)` lane-wise mod p, bounded with `b < 0.007` -/
theorem avx2_identity_ok : checkAvx2Identity = true := by decide +kernel

/-- IFMA `EXTENDEDPOINT_IDENTITY`, `CACHEDPOINT_IDENTITY`: same, within the `F51x4Reduced` range -/
theorem ifma_identity_ok : checkIfmaIdentity = true := by decide +kernel

/-! ## Basepoint -/

/-- `ED25519_BASEPOINT_POINT` (u64, u32): canonical coordinates, on the curve, `5y = 4`, `x` even, `Z = 1`,
`T = XY`, and equal to the specification's `B` -/
theorem ED25519_BASEPOINT_POINT_ok :
    (checkBasepoint val51 canon51 U64.ED25519_BASEPOINT_POINT &&
     checkBasepoint val26 canon26 U32.ED25519_BASEPOINT_POINT) = true := by decide +kernel

/-- `[l]B = O` and `B ≠ O` -/
theorem basepoint_order_ok :
    (checkBasepointOrderL val51 U64.ED25519_BASEPOINT_POINT &&
     checkBasepointOrderL val26 U32.ED25519_BASEPOINT_POINT) = true := by decide +kernel

/-- `ED25519_BASEPOINT_COMPRESSED = compress B` (and decompresses to `B`) -/
theorem ED25519_BASEPOINT_COMPRESSED_ok : checkBasepointCompressed = true := by decide +kernel

/-- `X25519_BASEPOINT = 9 = (1+y_B)/(1-y_B)`; x25519-dalek's `X25519_BASEPOINT_BYTES` is the same string -/
theorem X25519_BASEPOINT_ok : checkX25519Basepoint = true := by decide +kernel

/-- `RISTRETTO_BASEPOINT_COMPRESSED` = RFC 9496 ENCODE(`B`) (and DECODEs to an element EQUAL to `B`) -/
theorem RISTRETTO_BASEPOINT_COMPRESSED_ok : checkRistrettoBasepointCompressed = true := by
  decide +kernel

/-! ## Torsion -/

/-- `EIGHT_TORSION` (u64, u32): `T[i] = [i]·T[1]` for all 8 (and `= Spec.eightTorsion[i]`), canonical
normalised points on the curve, pairwise distinct, `[8]T[i] = O`, `[4]T[1] ≠ O`, `T[7] + T[1] = O` -/
theorem EIGHT_TORSION_ok :
    (checkEightTorsion val51 canon51 U64.EIGHT_TORSION &&
     checkEightTorsion val26 canon26 U32.EIGHT_TORSION) = true := by decide +kernel

/-! ## ed25519-dalek lengths -/

theorem ed25519_lengths_ok : checkEdLengths = true := by decide +kernel

/-! ## Tables -/

/-- u64: every `ED25519_BASEPOINT_TABLE[i][j]` (32 × 8) is the affine Niels form `(y+x, y-x, 2dxy)` of
`(j+1)·256^i·B` -/
theorem ED25519_BASEPOINT_TABLE_u64_ok :
    checkBasepointTable val51 U64.ED25519_BASEPOINT_TABLE = true := by decide +kernel

/-- u32: the same -/
theorem ED25519_BASEPOINT_TABLE_u32_ok :
    checkBasepointTable val26 U32.ED25519_BASEPOINT_TABLE = true := by decide +kernel

/-- the same as an explicit "no failing entry" statement -/
theorem ED25519_BASEPOINT_TABLE_no_failing_entry :
    (failingEntries val51 U64.ED25519_BASEPOINT_TABLE).isEmpty = true ∧
    (failingEntries val26 U32.ED25519_BASEPOINT_TABLE).isEmpty = true := by
  have h1 := ED25519_BASEPOINT_TABLE_u64_ok
  have h2 := ED25519_BASEPOINT_TABLE_u32_ok
  simp only [checkBasepointTable, Bool.and_eq_true] at h1 h2
  exact ⟨h1.2, h2.2⟩

/-- u64: every `AFFINE_ODD_MULTIPLES_OF_BASEPOINT[i]` (64) is the affine Niels form of `(2i+1)·B` -/
theorem AFFINE_ODD_MULTIPLES_OF_BASEPOINT_u64_ok :
    checkOddTable val51 U64.AFFINE_ODD_MULTIPLES_OF_BASEPOINT = true := by decide +kernel

/-- u32: the same -/
theorem AFFINE_ODD_MULTIPLES_OF_BASEPOINT_u32_ok :
    checkOddTable val26 U32.AFFINE_ODD_MULTIPLES_OF_BASEPOINT = true := by decide +kernel

/-- AVX2: every `BASEPOINT_ODD_LOOKUP_TABLE[i]` (64) has lanes `(A:B:C:D)` projectively equal to the
`CachedPoint` `(Y-X : Y+X : 2Z : 2dT)` of `(2i+1)·B` -/
theorem BASEPOINT_ODD_LOOKUP_TABLE_avx2_ok :
    checkCachedTable laneAvx2 Avx2.BASEPOINT_ODD_LOOKUP_TABLE = true := by decide +kernel

/-- IFMA: the same -/
theorem BASEPOINT_ODD_LOOKUP_TABLE_ifma_ok :
    checkCachedTable laneIfma Ifma.BASEPOINT_ODD_LOOKUP_TABLE = true := by decide +kernel

/-- limb ranges of all serial table entries: `y_minus_x`, `xy2d` reduced (`< 2^51`; `< 2^26/2^25`),
`y_plus_x` (an unreduced sum) one bit more (`< 2^52`; `< 2^27/2^26`) -/
theorem serial_table_ranges_ok : checkTableRanges = true := by decide +kernel

/-- coefficient ranges of all vector table entries: AVX2 `b < 0.007`, IFMA `F51x4Reduced` range -/
theorem vector_table_ranges_ok : checkVectorTableRanges = true := by decide +kernel

/-- `repr_agree`: the u64 and u32 literals of the basepoint, the torsion points and ALL table entries
denote the same field values -/
theorem point_repr_agree : checkPointReprAgree = true := by decide +kernel

/-- `repr_agree`: the AVX2 and IFMA literals (identity constants, all 64 table entries) denote the same
lane values mod p; entry 0 is exactly dalek's `CachedPoint::from(B)` -/
theorem vector_repr_agree : checkVectorReprAgree = true := by decide +kernel

/-- `AFFINE_ODD_MULTIPLES_OF_BASEPOINT[k]` and `ED25519_BASEPOINT_TABLE[0][2k]` (k < 4) are the same literal -/
theorem tables_overlap_ok : checkTablesOverlap = true := by decide +kernel

/-! ## Everything at once -/

/-- every check that `Dalek.Model.ConstCheck.reportC12` (the list the driver prints) names succeeds -/
theorem reportC12_all_ok : reportC12.all (fun nb => nb.2) = true := by decide +kernel

/-! ## `EIGHT_TORSION` is ALL of the 8-torsion

`Dalek/Proofs/CurveOrder.lean` proves that the group `Ed` of the curve (`Dalek.Bridge.Ed`, a commutative group by
`Proofs/EdwardsGroup.lean`) has exactly `8ℓ` points, and `Dalek/Proofs/CurveOrder/Structure.lean` that its 8-torsion
is cyclic of order 8, generated by the point denoted by `eightTorsion[1]`.  `Rep p Q` (`Proofs/Bridge/Edwards.lean`)
says that the specification point `p` denotes `Q`; `ERep e Q` (`Proofs/Bridge/FastEdwards.lean`) that the
extended-coordinates point `e` does. -/

/-- **Every point `Q` of the curve with `8·Q = 0` is one of the eight `EIGHT_TORSION` constants**: for some
`i < 8`, `Q` is denoted by the specification's `eightTorsion[i]`, by the u64 literal `EIGHT_TORSION[i]` and by the
u32 literal `EIGHT_TORSION[i]`; and there are exactly 8 such points. -/
theorem EIGHT_TORSION_is_all_of_E8 :
    (∀ Q : Dalek.Bridge.Ed, 8 • Q = 0 →
      ∃ i, i < 8 ∧ Dalek.Bridge.Rep (eightTorsion.getD i Pt.zero) Q ∧
        Dalek.Bridge.ERep (decodePt val51 (U64.EIGHT_TORSION.getD i [])) Q ∧
        Dalek.Bridge.ERep (decodePt val26 (U32.EIGHT_TORSION.getD i [])) Q) ∧
    Nat.card {Q : Dalek.Bridge.Ed // 8 • Q = 0} = 8 := by
  refine ⟨?_, Dalek.CurveOrder.card_small_order⟩
  intro Q h8
  obtain ⟨i, hi, hr⟩ := Dalek.CurveOrder.torsion8_rep h8
  have key : ∀ (e : EPt) (s : Pt), e.X = s.x % P → e.Y = s.y % P → e.Z = 1 → e.T = fmul s.x s.y →
      Dalek.Bridge.Rep s Q → Dalek.Bridge.ERep e Q := by
    intro e s hX hY hZ hT hs
    have : e = EPt.ofAffine s := by
      cases e; simp only at hX hY hZ hT; subst hX hY hZ hT; rfl
    rw [this]; exact Dalek.Bridge.erep_ofAffine hs
  have h64 : ∀ i, i < 8 →
      (decodePt val51 (U64.EIGHT_TORSION.getD i [])).X = (eightTorsion.getD i Pt.zero).x % P ∧
      (decodePt val51 (U64.EIGHT_TORSION.getD i [])).Y = (eightTorsion.getD i Pt.zero).y % P ∧
      (decodePt val51 (U64.EIGHT_TORSION.getD i [])).Z = 1 ∧
      (decodePt val51 (U64.EIGHT_TORSION.getD i [])).T
        = fmul (eightTorsion.getD i Pt.zero).x (eightTorsion.getD i Pt.zero).y := by decide +kernel
  have h32 : ∀ i, i < 8 →
      (decodePt val26 (U32.EIGHT_TORSION.getD i [])).X = (eightTorsion.getD i Pt.zero).x % P ∧
      (decodePt val26 (U32.EIGHT_TORSION.getD i [])).Y = (eightTorsion.getD i Pt.zero).y % P ∧
      (decodePt val26 (U32.EIGHT_TORSION.getD i [])).Z = 1 ∧
      (decodePt val26 (U32.EIGHT_TORSION.getD i [])).T
        = fmul (eightTorsion.getD i Pt.zero).x (eightTorsion.getD i Pt.zero).y := by decide +kernel
  obtain ⟨a1, a2, a3, a4⟩ := h64 i hi
  obtain ⟨b1, b2, b3, b4⟩ := h32 i hi
  exact ⟨i, hi, hr, key _ _ a1 a2 a3 a4 hr, key _ _ b1 b2 b3 b4 hr⟩

/-- conversely, each of the eight constants has small order (also part of `EIGHT_TORSION_ok`) -/
theorem EIGHT_TORSION_small_order {i : Nat} (hi : i < 8) {Q : Dalek.Bridge.Ed}
    (h : Dalek.Bridge.Rep (eightTorsion.getD i Pt.zero) Q) : 8 • Q = 0 :=
  Dalek.CurveOrder.eightTorsion_small_order hi h

/-- info: 'Dalek.Props.C12.EIGHT_TORSION_is_all_of_E8' depends on axioms: [propext, Classical.choice, Quot.sound] -/
#guard_msgs in #print axioms EIGHT_TORSION_is_all_of_E8

end Dalek.Props.C12

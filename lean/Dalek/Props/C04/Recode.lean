import Dalek.Proofs.Recode16
import Dalek.Proofs.RecodeNaf
import Dalek.Proofs.Recode2w
import Dalek.Proofs.RecodeBits
/-!
# C04, layer 1 — the scalar digit recodings are exact (property theorems)

Statements are about the hand model `Dalek.Model.Recode` of `Scalar::{as_radix_16, as_radix_2w,
to_radix_2w_size_hint, non_adjacent_form, bits_le}` (curve25519-dalek `src/scalar.rs`), which operates on
the 32 raw scalar bytes, contains the `u64` word/window extraction and all `i8` casts (wrapping), and is
tied to the Rust code digit for digit by the correspondence run (`sc.radix16_raw`, `sc.radix2w_raw`,
`sc.naf_raw`, `sc.bits_le_raw`).  Throughout `s = leToNat bytes` is the little-endian value of the 32 bytes.

`List.getD i 0` is the `i`-th digit (0 beyond the end; all lengths are stated).
-/
namespace Dalek.Props.C04.Recode
open Dalek.Model.Recode Dalek.Spec Dalek.Proofs.Recode

/-! ### `as_radix_16` -/

/-- `as_radix_16` for `s < 2^255` (the code `debug_assert`s `bytes[31] ≤ 127`): 64 digits,
`Σ dᵢ·16^i = s`, `-8 ≤ dᵢ < 8` for `i < 63` and `-8 ≤ d₆₃ ≤ 8`. -/
theorem radix16_spec (bytes : List UInt8) (hlen : bytes.length = 32)
    (hs : leToNat bytes < 2 ^ 255) :
    let d := asRadix16 bytes
    d.length = 64 ∧
    ∑ i ∈ Finset.range 64, d.getD i 0 * 16 ^ i = (leToNat bytes : Int) ∧
    (∀ i, i < 63 → -8 ≤ d.getD i 0 ∧ d.getD i 0 < 8) ∧
    -8 ≤ d.getD 63 0 ∧ d.getD 63 0 ≤ 8 := by
  obtain ⟨h1, h2, h3, h4, h5⟩ := asRadix16_gen bytes hlen
  refine ⟨h1, ?_, h3, ?_, ?_⟩
  · rw [← h2, digitSum_eq_sum, h1]
  · omega
  · omega

/-- Remark: what survives without the precondition.  For every 32-byte string the radix-16 digits still
sum to `s` and digits `0..62` are in `[-8, 8)`, but the last digit is `⌊s / 2^252⌋` or `⌊s / 2^252⌋ + 1`,
so for `s ≥ 2^255` it lies in `[8, 16]` and the bound `d₆₃ ≤ 8` fails as soon as `s ≥ 2^255 + 2^252`
(see the `example` below). -/
theorem radix16_unconditional (bytes : List UInt8) (hlen : bytes.length = 32) :
    let d := asRadix16 bytes
    d.length = 64 ∧
    ∑ i ∈ Finset.range 64, d.getD i 0 * 16 ^ i = (leToNat bytes : Int) ∧
    (∀ i, i < 63 → -8 ≤ d.getD i 0 ∧ d.getD i 0 < 8) ∧
    (d.getD 63 0 = ((leToNat bytes / 2 ^ 252 : Nat) : Int) ∨
      d.getD 63 0 = ((leToNat bytes / 2 ^ 252 : Nat) : Int) + 1) := by
  obtain ⟨h1, h2, h3, h4, h5⟩ := asRadix16_gen bytes hlen
  refine ⟨h1, ?_, h3, ?_⟩
  · rw [← h2, digitSum_eq_sum, h1]
  · omega

/-! ### `non_adjacent_form(w)` -/

/-- `non_adjacent_form(w)`, `2 ≤ w ≤ 8`, `s < 2^255`: 256 digits with `Σ nᵢ·2^i = s`; every digit is `0`
or odd with `|nᵢ| < 2^(w-1)`; any two non-zero digits are at least `w` positions apart (at most one of
any `w` consecutive digits is non-zero). -/
theorem naf_spec (bytes : List UInt8) (w : Nat) (hlen : bytes.length = 32) (hw2 : 2 ≤ w)
    (hw8 : w ≤ 8) (hs : leToNat bytes < 2 ^ 255) :
    let n := nonAdjacentForm bytes w
    n.length = 256 ∧
    ∑ i ∈ Finset.range 256, n.getD i 0 * 2 ^ i = (leToNat bytes : Int) ∧
    (∀ i, n.getD i 0 = 0 ∨
      (n.getD i 0 % 2 = 1 ∧ -(2 ^ (w - 1) : Int) < n.getD i 0 ∧ n.getD i 0 < 2 ^ (w - 1))) ∧
    (∀ i j, i < j → n.getD i 0 ≠ 0 → n.getD j 0 ≠ 0 → i + w ≤ j) := by
  obtain ⟨h1, h2, h3, h4⟩ := nonAdjacentForm_out bytes w hlen hw2 hw8 hs
  refine ⟨h1, ?_, h3, h2⟩
  rw [← h4, digitSum_eq_sum, h1]

/-! ### `to_radix_2w_size_hint(w)` and `as_radix_2w(w)` -/

/-- `to_radix_2w_size_hint(w) = ⌈256/w⌉`, plus one for `w = 8`. -/
theorem sizeHint_eq :
    toRadix2wSizeHint 4 = 64 ∧ toRadix2wSizeHint 5 = 52 ∧ toRadix2wSizeHint 6 = 43 ∧
    toRadix2wSizeHint 7 = 37 ∧ toRadix2wSizeHint 8 = 33 := by decide

/-- `as_radix_2w(w)`, `w ∈ {4,…,8}` (for `w = 4`, which is `as_radix_16`, the value must be `< 2^255`;
for `w ≥ 5` every 32-byte string is fine).  With `h = to_radix_2w_size_hint(w)`: 64 digits,
`Σ dᵢ·2^(w·i) = s`, digits at index `≥ h` are zero, `-2^(w-1) ≤ dᵢ < 2^(w-1)` for `i < h-1`, and the last
used digit `d_{h-1}` satisfies `-2^(w-1) ≤ d_{h-1} ≤ 2^(w-1)`; more precisely it is `< 2^(w-1)` for
`w = 5, 6, 7` (no final carry can occur since `w ∤ 256`), and for `w = 8` it is the 33rd digit `d₃₂ ∈ {0, 1}`
holding the final carry. -/
theorem radix2w_spec (bytes : List UInt8) (w : Nat) (hlen : bytes.length = 32) (hw4 : 4 ≤ w)
    (hw8 : w ≤ 8) (hs : w = 4 → leToNat bytes < 2 ^ 255) :
    let d := asRadix2w bytes w
    let h := toRadix2wSizeHint w
    d.length = 64 ∧
    ∑ i ∈ Finset.range 64, d.getD i 0 * 2 ^ (w * i) = (leToNat bytes : Int) ∧
    (∀ i, h ≤ i → d.getD i 0 = 0) ∧
    (∀ i, i + 1 < h → -(2 ^ (w - 1) : Int) ≤ d.getD i 0 ∧ d.getD i 0 < 2 ^ (w - 1)) ∧
    (-(2 ^ (w - 1) : Int) ≤ d.getD (h - 1) 0 ∧ d.getD (h - 1) 0 ≤ 2 ^ (w - 1)) ∧
    (5 ≤ w → w ≤ 7 → d.getD (h - 1) 0 < 2 ^ (w - 1)) ∧
    (w = 8 → d.getD 32 0 = 0 ∨ d.getD 32 0 = 1) := by
  intro d h
  have hd0 : d = asRadix2w bytes w := rfl
  have hh0 : h = toRadix2wSizeHint w := rfl
  clear_value d h
  subst hd0
  have hpow : ∀ i : Nat, (2 : Int) ^ (w * i) = (2 ^ w) ^ i := fun i => pow_mul 2 w i
  simp only [hpow]
  rcases Nat.eq_or_lt_of_le hw4 with h4 | h5
  · subst h4
    obtain ⟨h1, h2, h3, h4, h5⟩ := radix16_spec bytes hlen (hs rfl)
    have hd : asRadix2w bytes 4 = asRadix16 bytes := rfl
    have hh : h = 64 := hh0.trans (by decide)
    rw [hd, hh]
    refine ⟨h1, by simpa using h2, ?_, ?_, ?_, ?_, ?_⟩
    · intro i hi; exact getD_of_length_le _ i (by omega)
    · intro i hi; simpa using h3 i (by omega)
    · norm_num; exact ⟨h4, h5⟩
    · intro h; omega
    · intro h; omega
  · obtain ⟨h1, h2, h3, h4, h5⟩ := asRadix2w_out bytes w hlen h5 hw8
    have hh : h = if w = 8 then (256 + w - 1) / w + 1 else (256 + w - 1) / w := by
      rw [hh0]
      unfold toRadix2wSizeHint
      by_cases h8 : w = 8
      · simp [h8]
      · simp [h8]
    refine ⟨h1, ?_, hh0 ▸ h3, ?_, ?_, ?_, h5⟩
    · rw [← h2, digitSum_eq_sum, h1]
    · intro i hi
      apply h4
      rw [hh] at hi
      split at hi <;> omega
    · by_cases h8 : w = 8
      · subst h8
        have e : h - 1 = 32 := by rw [hh]; rfl
        rw [e]
        rcases h5 rfl with h | h <;> rw [h] <;> norm_num
      · rw [hh, if_neg h8]
        have := h4 ((256 + w - 1) / w - 1) (by
          have : 1 ≤ (256 + w - 1) / w := by interval_cases w <;> norm_num
          omega)
        omega
    · intro _ h7
      rw [hh, if_neg (by omega)]
      exact (h4 ((256 + w - 1) / w - 1) (by
        have : 1 ≤ (256 + w - 1) / w := by interval_cases w <;> norm_num
        omega)).2

/-! ### `bits_le` -/

/-- `bits_le`: 256 bits, `Σ bitᵢ·2^i = s`; bit `i` is `Nat.testBit s i`. -/
theorem bits_le_spec (bytes : List UInt8) (hlen : bytes.length = 32) :
    let b := bitsLe bytes
    b.length = 256 ∧
    ∑ i ∈ Finset.range 256, (if b.getD i false then 1 else 0) * 2 ^ i = leToNat bytes ∧
    (∀ i, i < 256 → b.getD i false = (leToNat bytes).testBit i) :=
  ⟨bitsLe_length bytes, bitsLe_sum bytes hlen, bitsLe_getD bytes⟩

/-! ### sanity: the hypotheses are satisfiable, and the model evaluated on concrete scalars -/

/-- `2^255 - 1`: bytes `ff … ff 7f` -/
def bMax : List UInt8 := List.replicate 31 0xff ++ [0x7f]
/-- `2^256 - 1`: outside the precondition -/
def bFF : List UInt8 := List.replicate 32 0xff

example : bMax.length = 32 ∧ leToNat bMax = 2 ^ 255 - 1 ∧ leToNat bMax < 2 ^ 255 := by decide +kernel
example : bFF.length = 32 ∧ leToNat bFF = 2 ^ 256 - 1 := by decide +kernel

/-- the top radix-16 digit `8` is attained (carry rippling through all 63 lower digits) -/
example : asRadix16 bMax = (-1) :: (List.replicate 62 0 ++ [8]) := by decide +kernel
/-- outside the precondition the top digit leaves `[-8, 8]` (the sum is still `s`, see
`radix16_unconditional`) -/
example : asRadix16 bFF = (-1) :: (List.replicate 62 0 ++ [16]) := by decide +kernel
/-- radix 256: digit `-128` and the 33rd digit are attained with `s < 2^255` -/
example : asRadix2w bMax 8 = (-1) :: (List.replicate 30 0 ++ [-128, 1] ++ List.replicate 31 0) := by
  decide +kernel
example : asRadix2w bMax 5 = (-1) :: (List.replicate 50 0 ++ [1] ++ List.replicate 12 0) := by
  decide +kernel
/-- width-5 NAF of `2^255 - 1` is `2^255 - 1` literally: digit 255 is used -/
example : nonAdjacentForm bMax 5 = (-1) :: (List.replicate 254 0 ++ [1]) := by decide +kernel
/-- outside the precondition (`s = 2^256 - 1`) the NAF loses the carry out of bit 255: the digits
are those of `-1 = s - 2^256`, so the hypothesis `s < 2^255` of `naf_spec` cannot simply be dropped. -/
example : nonAdjacentForm bFF 5 = (-1) :: List.replicate 255 0 := by decide +kernel
example : (bitsLe bMax) = List.replicate 255 true ++ [false] := by decide +kernel

end Dalek.Props.C04.Recode

import Dalek.Proofs.ScalarMulBytes
import Dalek.Proofs.ScalarMulRel
import Dalek.Proofs.SpecBridge
/-!
# C04, layer 2 — every scalar-multiplication ALGORITHM returns `Σ sᵢ • Pᵢ` (property theorems)

Statements are about the hand models `Dalek.Model.ScalarMul` (transcriptions of `window.rs`,
`backend/{serial,vector}/scalar_mul/*.rs`, the `impl_basepoint_table!` macro, the entry points and the
size dispatch of `edwards.rs`, the provided methods of `traits.rs`, the wrappers of `ristretto.rs`), which are
GENERIC over the point implementation `PointOps G`.  Here `G` is an arbitrary commutative group and the point
operations are the group operations (`groupOps`: `zero = 0`, `add = +`, `sub = -`, `neg = -`, `double P = P + P`);
that dalek's point formulas implement the group operations of the curve is C03, and `Dalek.Bridge.Ed` below is
the proved group of the Ed25519 curve.

Scalars are the 32 raw bytes of a `Scalar`; `s = leToNat bytes`.  `Scalar255 b` is `Scalar` invariant #1
(`b.length = 32 ∧ s < 2^255`) — *unreduced* scalars are included everywhere.  `n • P` with `n : ℕ` is repeated
group addition.  `msm scalars points = (List.zipWith (fun b P => leToNat b • P) scalars points).sum`.

Digit recodings are the layer-1 models (`asRadix16`, `asRadix2w`, `nonAdjacentForm`) with their proved
specifications (`Dalek.Props.C04.Recode`).

Result types: `Option G` is the Rust `Option<EdwardsPoint>`; an outer `Panics = Option` is `none` when an
explicit `assert!`/`assert_eq!` of the Rust code fails.  `collectOption points` is `Some(vec)` iff no input
point is `None` (`collect_none_iff`).
-/
namespace Dalek.Props.C04.Algorithms
open Dalek.Model.ScalarMul Dalek.Model.Recode Dalek.Spec Dalek.Proofs.ScalarMul

variable {G : Type} [AddCommGroup G]

/-- `Scalar` invariant #1: 32 bytes, value below `2^255` (high bit clear).  Canonical scalars (`< ℓ`), clamped
integers and all other unreduced 255-bit values satisfy it. -/
def Scalar255 (b : List UInt8) : Prop := b.length = 32 ∧ leToNat b < 2 ^ 255

theorem msm_def (scalars : List (List UInt8)) (points : List G) :
    msm scalars points = (List.zipWith (fun b P => leToNat b • P) scalars points).sum := rfl

/-- The vector backends' derived subtraction `A + (-B)` is the group subtraction: all statements below, made
for `groupOps`, hold verbatim for the vector copies' point operations. -/
theorem vectorOps_groupOps : vectorOps (groupOps : PointOps G) = groupOps := by
  unfold vectorOps groupOps
  congr 1
  funext a b
  exact (sub_eq_add_neg a b).symm

/-! ### lookup tables and `select` -/

/-- Table construction.  `LookupTable*::from(P)` of any size `n` is `[1P, 2P, …, nP]`;
`NafLookupTable5/8::from(A)` (`n = 8 / 64`) is `[1A, 3A, …, (2n-1)A]`. -/
theorem table_spec (n : ℕ) (P : G) :
    (lookupTableFrom groupOps n P).length = n ∧
    (∀ j, j < n → (lookupTableFrom groupOps n P).getD j 0 = (j + 1) • P) ∧
    (nafTableFrom groupOps n P).length = n ∧
    (∀ j, j < n → (nafTableFrom groupOps n P).getD j 0 = (2 * j + 1) • P) := by
  obtain ⟨h1, h2⟩ := lookupTableFrom_isTable n P
  obtain ⟨h3, h4⟩ := nafTableFrom_isOddTable n P
  refine ⟨h1, fun j hj => ?_, h3, fun j hj => ?_⟩
  · rw [h2 j hj, ← natCast_zsmul]; push_cast; rfl
  · rw [h4 j hj, ← natCast_zsmul]; push_cast; rfl

/-- `LookupTable*::select(x)` (`|x|` scan over the whole table, conditional negation): for a table
`[1P, …, nP]` (`n = 8, 16, 32, 64, 128`) and an `i8` digit `x ∈ [-n, n]` the result is `x • P`
(in particular the identity for `x = 0` and `-(nP)` for `x = -n`, e.g. `x = -128` in radix 256). -/
theorem select_spec (table : List G) (n : ℕ) (P : G) (hlen : table.length = n)
    (hent : ∀ j, j < n → table.getD j 0 = (j + 1) • P) (x : ℤ)
    (hlo : -(n : ℤ) ≤ x) (hhi : x ≤ n) (h8lo : -128 ≤ x) (h8hi : x ≤ 127) :
    selectModel groupOps table x = x • P := by
  refine selectModel_eq ⟨hlen, fun j hj => ?_⟩ hlo hhi h8lo h8hi
  rw [hent j hj, ← natCast_zsmul]; push_cast; rfl

/-- The `match naf[i].cmp(&0)` step with `NafLookupTable5/8::select`: for a table `[1A, 3A, …, (2n-1)A]` and a
digit `d` that is `0` or odd with `|d| < 2n`: `t ↦ t + d • A` (addition of `table[d/2]` for `d > 0`, subtraction
of `table[(-d)/2]` for `d < 0`); the table indices are in bounds. -/
theorem naf_select_spec (table : List G) (n : ℕ) (A : G) (hlen : table.length = n)
    (hent : ∀ j, j < n → table.getD j 0 = (2 * j + 1) • A) (t : G) (d : ℤ)
    (hd : d = 0 ∨ (d % 2 = 1 ∧ -(2 * n : ℤ) < d ∧ d < 2 * n)) :
    nafStep groupOps t table d = t + d • A ∧ (d ≠ 0 → d.toNat / 2 < n ∧ (-d).toNat / 2 < n) := by
  refine ⟨nafStep_eq ⟨hlen, fun j hj => ?_⟩ t hd, fun hne => ?_⟩
  · rw [hent j hj, ← natCast_zsmul]; push_cast; rfl
  · rcases hd with rfl | ⟨_, h2, h3⟩
    · exact absurd rfl hne
    · exact nafSelect_index_ok h2 h3

/-! ### variable-base multiplication -/

/-- `variable_base::mul` — BOTH copies (serial: top digit peeled off, 63 iterations; vector: 64 iterations
starting with doublings of the identity): for every scalar `s < 2^255`, reduced or not, the result is `s • P`. -/
theorem variable_base_spec (b : List UInt8) (hb : Scalar255 b) (P : G) :
    variableBaseMul groupOps (asRadix16 b) P = leToNat b • P ∧
    variableBaseMulVec groupOps (asRadix16 b) P = leToNat b • P := by
  have h := radix16Digits_of_bytes b hb.1 hb.2
  exact ⟨by rw [variableBaseMul_eq h, natCast_zsmul], by rw [variableBaseMulVec_eq h, natCast_zsmul]⟩

/-- `&EdwardsPoint * &Scalar` in every configuration. -/
theorem edwards_mul_spec (cfg : Config) (b : List UInt8) (hb : Scalar255 b) (P : G) :
    edwardsMul groupOps cfg P b = leToNat b • P := by
  unfold edwardsMul
  cases cfg.backend
  · exact (variable_base_spec b hb P).1
  · exact (variable_base_spec b hb P).2

/-- `EdwardsPoint::mul_clamped`: multiplication by the clamped integer (which is not reduced mod ℓ). -/
theorem mul_clamped_spec (cfg : Config) (bytes : List UInt8) (hlen : bytes.length = 32) (P : G) :
    mulClamped groupOps cfg P bytes = clampedNat bytes • P := by
  have h := Dalek.Bridge.clampedNat_spec hlen
  exact edwards_mul_spec cfg _ ⟨by rw [Dalek.Bridge.clampInteger_length, hlen], h.2.2⟩ P

/-! ### basepoint tables (radix 16, 32, 64, 128, 256) -/

/-- `EdwardsBasepointTable*::create(P)` for `w = 4 … 8` (any `w`): the 32 lookup tables are
`tables[i] = [1·2^(2wi) P, 2·2^(2wi) P, …, 2^(w-1)·2^(2wi) P]`. -/
theorem create_spec (w : ℕ) (P : G) :
    IsBasepointTable (basepointTableCreate groupOps w P) w P :=
  basepointTableCreate_isBasepointTable w P

/-- unfolding of `IsBasepointTable` -/
theorem isBasepointTable_iff (tables : List (List G)) (w : ℕ) (B : G) :
    IsBasepointTable tables w B ↔ ∀ i, i < 32 →
      (tables.getD i []).length = 2 ^ (w - 1) ∧
      ∀ j, j < 2 ^ (w - 1) → (tables.getD i []).getD j 0 = ((j : ℤ) + 1) • ((2 : ℤ) ^ (2 * w * i)) • B :=
  Iff.rfl

/-- `EdwardsBasepointTable*::mul_base` for each radix `2^w`, `w ∈ {4,5,6,7,8}` (odd digits, `×2^w`, even
digits; `Additions = 64, 52, 43, 37, 33`): given correct table entries (by `create_spec` for built tables, by
C12 for the shipped `ED25519_BASEPOINT_TABLE`) the result is `s • B`, for every `s < 2^255` when `w = 4` and
for every 32-byte scalar when `w ≥ 5`. -/
theorem basepoint_table_spec (w : ℕ) (hw4 : 4 ≤ w) (hw8 : w ≤ 8) (tables : List (List G)) (B : G)
    (ht : IsBasepointTable tables w B) (b : List UInt8) (hlen : b.length = 32)
    (hs : w = 4 → leToNat b < 2 ^ 255) :
    basepointTableMul groupOps w tables b = leToNat b • B := by
  unfold basepointTableMul
  rw [basepointTableMulBase_eq ht (radix2wDigits_of_bytes b w hlen hw4 hw8 hs), natCast_zsmul]

/-- built tables: `create` then `mul_base` is scalar multiplication, in each radix. -/
theorem basepoint_table_create_mul_spec (w : ℕ) (hw4 : 4 ≤ w) (hw8 : w ≤ 8) (P : G) (b : List UInt8)
    (hb : Scalar255 b) :
    basepointTableMul groupOps w (basepointTableCreate groupOps w P) b = leToNat b • P :=
  basepoint_table_spec w hw4 hw8 _ P (create_spec w P) b hb.1 (fun _ => hb.2)

/-- `BasepointTable::basepoint` returns the point the table was created from. -/
theorem basepoint_table_basepoint_spec (w : ℕ) (P : G) :
    basepointTableBasepoint groupOps (basepointTableCreate groupOps w P) = P :=
  basepointTableBasepoint_eq (create_spec w P)

/-- The shipped constants are what they claim to be (C12 proves this for the actual constants). -/
structure ValidConsts (c : BaseConsts G) : Prop where
  table : IsBasepointTable c.basepointTable 4 c.B
  odd : IsOddTable c.oddMultiples 64 c.B

/-- `ValidConsts` is satisfiable: the tables built by the code's own constructors. -/
theorem validConsts_built (B : G) :
    ValidConsts ⟨B, basepointTableCreate groupOps 4 B, nafTableFrom groupOps 64 B⟩ :=
  ⟨create_spec 4 B, nafTableFrom_isOddTable 64 B⟩

/-- `EdwardsPoint::mul_base`, with and without `precomputed-tables`, both backends. -/
theorem mul_base_spec (cfg : Config) (c : BaseConsts G) (hc : ValidConsts c) (b : List UInt8)
    (hb : Scalar255 b) : mulBase groupOps cfg c b = leToNat b • c.B := by
  unfold mulBase
  split
  · exact basepoint_table_spec 4 (by norm_num) (by norm_num) _ _ hc.table b hb.1 (fun _ => hb.2)
  · exact edwards_mul_spec cfg b hb c.B

/-- `EdwardsPoint::mul_base_clamped`. -/
theorem mul_base_clamped_spec (cfg : Config) (c : BaseConsts G) (hc : ValidConsts c) (bytes : List UInt8)
    (hlen : bytes.length = 32) : mulBaseClamped groupOps cfg c bytes = clampedNat bytes • c.B := by
  have h := Dalek.Bridge.clampedNat_spec hlen
  exact mul_base_spec cfg c hc _ ⟨by rw [Dalek.Bridge.clampInteger_length, hlen], h.2.2⟩

/-! ### vartime double-base -/

/-- `vartime_double_scalar_mul_basepoint(a, A, b) = a•A + b•B` for all `a, b < 2^255` (unreduced allowed), with
`precomputed-tables` (width-8 NAF of `b`, constant table of odd multiples) and without (width 5, table built
from `B`); includes the search for the top non-zero digit and the `loop … if i == 0 { break }` shape. -/
theorem double_base_spec (cfg : Config) (c : BaseConsts G) (hc : ValidConsts c) (a b : List UInt8)
    (ha : Scalar255 a) (hb : Scalar255 b) (A : G) :
    doubleBase groupOps cfg c a A b = leToNat a • A + leToNat b • c.B := by
  obtain ⟨ha1, ha2⟩ := naf_of_bytes a 5 ha.1 (by norm_num) (by norm_num) ha.2
  unfold doubleBase
  split
  · obtain ⟨hb1, hb2⟩ := naf_of_bytes b 8 hb.1 (by norm_num) (by norm_num) hb.2
    rw [doubleBaseLoop_eq A c.B ha1 hc.odd (fun i => by
      rcases hb1 i with h | ⟨h1, h2, h3⟩
      · exact Or.inl h
      · refine Or.inr ⟨h1, ?_, ?_⟩ <;> norm_num at h2 h3 ⊢ <;> omega), ha2, hb2, natCast_zsmul,
      natCast_zsmul]
  · obtain ⟨hb1, hb2⟩ := naf_of_bytes b 5 hb.1 (by norm_num) (by norm_num) hb.2
    rw [doubleBaseLoop_eq A c.B ha1 (nafTableFrom_isOddTable 8 c.B) (fun i => by
      rcases hb1 i with h | ⟨h1, h2, h3⟩
      · exact Or.inl h
      · refine Or.inr ⟨h1, ?_, ?_⟩ <;> norm_num at h2 h3 ⊢ <;> omega), ha2, hb2, natCast_zsmul,
      natCast_zsmul]

/-! ### Straus -/

/-- `Straus::multiscalar_mul` (constant time, radix 16): `Σ sᵢ • Pᵢ` over the zipped inputs, for any number of
inputs and all `sᵢ < 2^255`. -/
theorem straus_ct_spec (scalars : List (List UInt8)) (points : List G) (hs : ∀ b ∈ scalars, Scalar255 b) :
    strausCT groupOps (scalars.map asRadix16) points = msm scalars points := by
  rw [strausCT_eq _ _ (by
    intro d hd
    obtain ⟨b, hb, rfl⟩ := List.mem_map.1 hd
    exact radix16Range_of_bytes b (hs b hb).1 (hs b hb).2)]
  exact zipSum_bytes 4 64 asRadix16 scalars points fun b hb => digVal16_of_bytes b (hs b hb).1 (hs b hb).2

/-- `Straus::optional_multiscalar_mul` (variable time, width-5 NAF): `None` iff some point is `None`, else
`Some(Σ sᵢ • Pᵢ)`. -/
theorem straus_vt_spec (scalars : List (List UInt8)) (points : List (Option G))
    (hs : ∀ b ∈ scalars, Scalar255 b) :
    strausVT groupOps (scalars.map (nonAdjacentForm · 5)) points
      = (collectOption points).map (msm scalars) := by
  rw [strausVT_eq _ _ (by
    intro d hd
    obtain ⟨b, hb, rfl⟩ := List.mem_map.1 hd
    exact (naf_of_bytes b 5 (hs b hb).1 (by norm_num) (by norm_num) (hs b hb).2).1)]
  congr 1
  funext ps
  exact zipSum_bytes 1 256 (nonAdjacentForm · 5) scalars ps fun b hb =>
    (naf_of_bytes b 5 (hs b hb).1 (by norm_num) (by norm_num) (hs b hb).2).2

/-! ### Pippenger -/

/-- `Pippenger::optional_multiscalar_mul` for every window `w ∈ {6,7,8}` and every number `n` of inputs (bucket
accumulation with signed digits, running sums, column recombination by `mul_by_pow_2(w)`):
`None` iff some point is `None`, else `Some(Σ sᵢ • Pᵢ)`.  Holds for ALL 32-byte scalars (canonical or not; the
radix-`2^w` recoding with `w ≥ 5` needs no bound).  The two inputs have the same length (asserted by the caller
`EdwardsPoint::optional_multiscalar_mul`). -/
theorem pippenger_spec (w : ℕ) (hw : w = 6 ∨ w = 7 ∨ w = 8) (scalars : List (List UInt8))
    (points : List (Option G)) (hs : ∀ b ∈ scalars, b.length = 32) (hlen : scalars.length = points.length) :
    pippenger groupOps w (scalars.map (asRadix2w · w)) points
      = (collectOption points).map (msm scalars) := by
  have hw5 : 5 ≤ w := by omega
  have hw8 : w ≤ 8 := by omega
  have hh : 1 ≤ toRadix2wSizeHint w ∧ toRadix2wSizeHint w ≤ 64 := by
    rcases hw with rfl | rfl | rfl <;> decide
  rw [pippenger_eq w (by omega) hh.1 hh.2 _ _ (by
    intro d hd
    obtain ⟨b, hb, rfl⟩ := List.mem_map.1 hd
    exact (pipDigits_of_bytes b w (hs b hb) hw5 hw8).1),
    zipCollect_of_length_eq _ _ (by rw [List.length_map, hlen]), Option.map_map]
  congr 1
  funext ps
  exact zipSum_bytes w 64 (asRadix2w · w) scalars ps fun b hb =>
    (pipDigits_of_bytes b w (hs b hb) hw5 hw8).2

/-- Without the equal-length assumption `Pippenger` zips: `None` iff one of the first `scalars.length` points
is `None`. -/
theorem pippenger_none_iff (w : ℕ) (hw : w = 6 ∨ w = 7 ∨ w = 8) (scalars : List (List UInt8))
    (points : List (Option G)) (hs : ∀ b ∈ scalars, b.length = 32) :
    pippenger groupOps w (scalars.map (asRadix2w · w)) points = none
      ↔ none ∈ points.take scalars.length := by
  have hw5 : 5 ≤ w := by omega
  have hw8 : w ≤ 8 := by omega
  have hh : 1 ≤ toRadix2wSizeHint w ∧ toRadix2wSizeHint w ≤ 64 := by
    rcases hw with rfl | rfl | rfl <;> decide
  rw [pippenger_eq w (by omega) hh.1 hh.2 _ _ (by
    intro d hd
    obtain ⟨b, hb, rfl⟩ := List.mem_map.1 hd
    exact (pipDigits_of_bytes b w (hs b hb) hw5 hw8).1), Option.map_eq_none_iff,
    zipCollect_eq_none_iff, List.length_map]

/-- Bucket indices are in bounds: every digit `d` of `as_radix_2w(w)` satisfies `|d| ≤ 2^(w-1) = buckets_count`,
so `buckets[|d| - 1]` never panics (this is where `d = -2^(w-1)`, e.g. `-128` for `w = 8`, matters). -/
theorem pippenger_index_ok (w : ℕ) (hw : w = 6 ∨ w = 7 ∨ w = 8) (b : List UInt8) (hb : b.length = 32)
    (i : ℕ) :
    let d := (asRadix2w b w).getD i 0
    (0 < d → (d - 1).toNat < (1 <<< w) / 2) ∧ (d < 0 → (-d - 1).toNat < (1 <<< w) / 2) := by
  intro d
  have h := (pipDigits_of_bytes b w hb (by omega) (by omega)).1
  rw [shl_half w (by omega)]
  refine Dalek.Proofs.ScalarMul.pippenger_index_ok ?_ ?_
  · push_cast; exact h.lo i
  · push_cast; exact h.hi i

/-! ### precomputed Straus (mixed static / dynamic) -/

/-- `VartimePrecomputedStraus::{new, optional_mixed_multiscalar_mul}`: static tables of width 8 built by `new`,
static and dynamic scalars in width-5 NAF.  Exactly as the code: `None` if a dynamic point is `None` (checked
first); otherwise a panic unless `#static scalars ≤ #static points` and `#dynamic points = #dynamic scalars`;
otherwise `Some(Σ aᵢ•Aᵢ + Σ bⱼ•Bⱼ)`, the static sum running over the given static scalars only (FEWER static
scalars than static points are allowed: `msm` zips). -/
theorem precomputed_spec (staticPoints : List G) (staticScalars dynamicScalars : List (List UInt8))
    (dynamicPoints : List (Option G)) (hs : ∀ b ∈ staticScalars, Scalar255 b)
    (hd : ∀ b ∈ dynamicScalars, Scalar255 b) :
    optionalMixedMultiscalarMul groupOps (precomputationNew groupOps staticPoints) staticScalars
        dynamicScalars dynamicPoints =
      match collectOption dynamicPoints with
      | none => some none
      | some dps =>
        if staticScalars.length ≤ staticPoints.length ∧ dps.length = dynamicScalars.length then
          some (some (msm staticScalars staticPoints + msm dynamicScalars dps))
        else none := by
  unfold optionalMixedMultiscalarMul precomputationNew precomputedNew
  have hnaf : ∀ (l : List (List UInt8)), (∀ b ∈ l, Scalar255 b) →
      ∀ d ∈ l.map (nonAdjacentForm · 5), NafRange 5 d := by
    intro l hl d hd
    obtain ⟨b, hb, rfl⟩ := List.mem_map.1 hd
    exact (naf_of_bytes b 5 (hl b hb).1 (by norm_num) (by norm_num) (hl b hb).2).1
  have hval : ∀ (l : List (List UInt8)), (∀ b ∈ l, Scalar255 b) → ∀ ps : List G,
      zipSum 1 256 (l.map (nonAdjacentForm · 5)) ps = msm l ps := by
    intro l hl ps
    exact zipSum_bytes 1 256 (nonAdjacentForm · 5) l ps fun b hb =>
      (naf_of_bytes b 5 (hl b hb).1 (by norm_num) (by norm_num) (hl b hb).2).2
  rw [precomputedMixed_eq staticPoints _ _ _ _ (by simp) (fun i hi => by
    rw [List.getD_eq_getElem _ _ (by simpa using hi), List.getElem_map, List.getD_eq_getElem _ _ hi]
    exact nafTableFrom_isOddTable 64 _) (hnaf _ hs) (hnaf _ hd)]
  cases collectOption dynamicPoints with
  | none => rfl
  | some dps => simp only [List.length_map, hval _ hs, hval _ hd]

/-! ### entry points: size dispatch, `Option` handling, empty inputs -/

omit [AddCommGroup G] in
theorem collect_none_iff (points : List (Option G)) : collectOption points = none ↔ none ∈ points :=
  collectOption_eq_none_iff points

omit [AddCommGroup G] in
theorem collect_some (points : List G) : collectOption (points.map some) = some points :=
  collectOption_map_some points

theorem pippengerWindowWith_mem (t500 t800 size : ℕ) :
    pippengerWindowWith t500 t800 size = 6 ∨ pippengerWindowWith t500 t800 size = 7 ∨
      pippengerWindowWith t500 t800 size = 8 := by
  unfold pippengerWindowWith
  split
  · exact Or.inl rfl
  · split
    · exact Or.inr (Or.inl rfl)
    · exact Or.inr (Or.inr rfl)

/-- `EdwardsPoint::optional_multiscalar_mul` with ARBITRARY thresholds in place of 190 / 500 / 800 (so: for
every input count `n`, whichever of Straus / Pippenger with `w = 6, 7, 8` is selected): a panic iff the lengths
differ; otherwise `None` iff some point is `None`, else `Some(Σ sᵢ • Pᵢ)`.  In particular the result does not
depend on the thresholds. -/
theorem dispatch_spec (t190 t500 t800 : ℕ) (scalars : List (List UInt8)) (points : List (Option G))
    (hs : ∀ b ∈ scalars, Scalar255 b) :
    optionalMultiscalarMulWith groupOps t190 t500 t800 scalars points =
      if scalars.length = points.length then some ((collectOption points).map (msm scalars)) else none := by
  unfold optionalMultiscalarMulWith
  by_cases hlen : scalars.length = points.length
  · rw [if_neg (not_not.2 hlen), if_pos hlen]
    simp only
    split
    · rw [straus_vt_spec scalars points hs]
    · rw [pippenger_spec _ (pippengerWindowWith_mem _ _ _) scalars points (fun b hb => (hs b hb).1) hlen]
  · rw [if_pos hlen, if_neg hlen]

/-- the actual entry point (thresholds 190, 500, 800) -/
theorem optional_multiscalar_mul_spec (scalars : List (List UInt8)) (points : List (Option G))
    (hs : ∀ b ∈ scalars, Scalar255 b) (hlen : scalars.length = points.length) :
    optionalMultiscalarMul groupOps scalars points = some ((collectOption points).map (msm scalars)) := by
  rw [optionalMultiscalarMul, dispatch_spec _ _ _ _ _ hs, if_pos hlen]

/-- Optional-input variants return `None` exactly when some input point is `None` (and never panic when the
input lengths agree): `optional_multiscalar_mul` under any thresholds, and `optional_mixed_multiscalar_mul`
(where `None` even takes precedence over the length assertions). -/
theorem optional_none_iff (t190 t500 t800 : ℕ) (scalars : List (List UInt8)) (points : List (Option G))
    (hs : ∀ b ∈ scalars, Scalar255 b) (hlen : scalars.length = points.length) :
    (optionalMultiscalarMulWith groupOps t190 t500 t800 scalars points = some none ↔ none ∈ points) ∧
    (∀ (staticPoints : List G) (staticScalars : List (List UInt8)),
      (∀ b ∈ staticScalars, Scalar255 b) →
      (optionalMixedMultiscalarMul groupOps (precomputationNew groupOps staticPoints) staticScalars scalars
        points = some none ↔ none ∈ points)) := by
  constructor
  · rw [dispatch_spec _ _ _ _ _ hs, if_pos hlen, ← collect_none_iff]
    simp
  · intro staticPoints staticScalars hss
    rw [precomputed_spec staticPoints staticScalars scalars points hss hs, ← collect_none_iff]
    cases collectOption points with
    | none => simp
    | some dps =>
      simp only [reduceCtorEq, iff_false]
      split <;> simp

/-- `EdwardsPoint::multiscalar_mul` (always Straus): panics iff the lengths differ, else `Σ sᵢ • Pᵢ`. -/
theorem multiscalar_mul_spec (scalars : List (List UInt8)) (points : List G)
    (hs : ∀ b ∈ scalars, Scalar255 b) :
    multiscalarMul groupOps scalars points =
      if scalars.length = points.length then some (msm scalars points) else none := by
  unfold multiscalarMul
  by_cases hlen : scalars.length = points.length
  · rw [if_neg (not_not.2 hlen), if_pos hlen, straus_ct_spec scalars points hs]
  · rw [if_pos hlen, if_neg hlen]

/-- `vartime_multiscalar_mul` (provided method; points wrapped in `Some`, `.expect`): never hits the `expect`,
returns `Σ sᵢ • Pᵢ`. -/
theorem vartime_multiscalar_mul_spec (scalars : List (List UInt8)) (points : List G)
    (hs : ∀ b ∈ scalars, Scalar255 b) (hlen : scalars.length = points.length) :
    vartimeMultiscalarMul groupOps scalars points = some (msm scalars points) := by
  unfold vartimeMultiscalarMul
  rw [optional_multiscalar_mul_spec scalars _ hs (by rw [List.length_map, hlen]), collect_some]
  rfl

/-- `vartime_mixed_multiscalar_mul` / `VartimePrecomputedMultiscalarMul::vartime_multiscalar_mul`. -/
theorem vartime_mixed_multiscalar_mul_spec (staticPoints : List G)
    (staticScalars dynamicScalars : List (List UInt8)) (dynamicPoints : List G)
    (hs : ∀ b ∈ staticScalars, Scalar255 b) (hd : ∀ b ∈ dynamicScalars, Scalar255 b)
    (h1 : staticScalars.length ≤ staticPoints.length) (h2 : dynamicPoints.length = dynamicScalars.length) :
    vartimeMixedMultiscalarMul groupOps (precomputationNew groupOps staticPoints) staticScalars
        dynamicScalars dynamicPoints
      = some (msm staticScalars staticPoints + msm dynamicScalars dynamicPoints) := by
  unfold vartimeMixedMultiscalarMul
  rw [precomputed_spec staticPoints staticScalars dynamicScalars _ hs hd, collect_some]
  simp only [if_pos (And.intro h1 h2)]

theorem precomputed_vartime_multiscalar_mul_spec (staticPoints : List G) (staticScalars : List (List UInt8))
    (hs : ∀ b ∈ staticScalars, Scalar255 b) (h1 : staticScalars.length ≤ staticPoints.length) :
    precomputedVartimeMultiscalarMul groupOps (precomputationNew groupOps staticPoints) staticScalars
      = some (msm staticScalars staticPoints) := by
  unfold precomputedVartimeMultiscalarMul
  rw [vartime_mixed_multiscalar_mul_spec staticPoints staticScalars [] [] hs (by simp) h1 rfl,
    msm_nil_left, add_zero]

/-- Empty inputs give the identity, in every multiscalar entry point. -/
theorem empty_identity :
    multiscalarMul (groupOps : PointOps G) [] [] = some 0 ∧
    optionalMultiscalarMul (groupOps : PointOps G) [] [] = some (some 0) ∧
    vartimeMultiscalarMul (groupOps : PointOps G) [] [] = some 0 ∧
    (∀ w, w = 6 ∨ w = 7 ∨ w = 8 → pippenger (groupOps : PointOps G) w [] [] = some 0) ∧
    strausVT (groupOps : PointOps G) [] [] = some 0 ∧
    strausCT (groupOps : PointOps G) [] [] = 0 ∧
    (∀ staticPoints : List G,
      optionalMixedMultiscalarMul groupOps (precomputationNew groupOps staticPoints) [] [] [] = some (some 0)) := by
  have hn : ∀ b ∈ ([] : List (List UInt8)), Scalar255 b := by simp
  refine ⟨?_, ?_, ?_, ?_, ?_, ?_, ?_⟩
  · rw [multiscalar_mul_spec (G := G) [] [] hn]; simp [msm_nil_left]
  · rw [optional_multiscalar_mul_spec (G := G) [] [] hn rfl]; simp [collectOption, msm_nil_left]
  · rw [vartime_multiscalar_mul_spec (G := G) [] [] hn rfl]; simp [msm_nil_left]
  · intro w hw
    have := pippenger_spec (G := G) w hw [] [] (by simp) rfl
    simpa [collectOption, msm_nil_left] using this
  · have := straus_vt_spec (G := G) [] [] hn
    simpa [collectOption, msm_nil_left] using this
  · have := straus_ct_spec (G := G) [] [] hn
    simpa [msm_nil_left] using this
  · intro staticPoints
    rw [precomputed_spec staticPoints [] [] [] hn hn]
    simp [collectOption, msm_nil_left]

/-! ### Ristretto wrappers (newtype delegations) -/

omit [AddCommGroup G] in
/-- Every Ristretto scalar-multiplication entry point is the Edwards one on the wrapped point. -/
theorem ristretto_wrappers (ops : PointOps G) :
    (∀ cfg P b, ristrettoMul ops cfg P b = edwardsMul ops cfg P b) ∧
    (∀ cfg c b, ristrettoMulBase ops cfg c b = mulBase ops cfg c b) ∧
    (∀ ss ps, ristrettoMultiscalarMul ops ss ps = multiscalarMul ops ss ps) ∧
    (∀ ss ps, ristrettoOptionalMultiscalarMul ops ss ps = optionalMultiscalarMul ops ss ps) ∧
    (∀ T ss ds ps, ristrettoOptionalMixedMultiscalarMul ops T ss ds ps
      = optionalMixedMultiscalarMul ops T ss ds ps) ∧
    (∀ cfg c a A b, ristrettoDoubleBase ops cfg c a A b = doubleBase ops cfg c a A b) ∧
    (∀ P, ristrettoBasepointTableCreate ops P = basepointTableCreate ops 4 P) ∧
    (∀ T b, ristrettoBasepointTableMul ops T b = basepointTableMul ops 4 T b) := by
  refine ⟨fun _ _ _ => rfl, fun _ _ _ => rfl, fun _ _ => rfl, fun ss ps => ?_, fun T ss ds ps => ?_,
    fun _ _ _ _ _ => rfl, fun _ => rfl, fun _ _ => rfl⟩
  · unfold ristrettoOptionalMultiscalarMul
    simp [Option.map_id']
  · unfold ristrettoOptionalMixedMultiscalarMul
    simp [Option.map_id']

/-! ### any point implementation satisfying the C03 contracts

The algorithms touch points only through `PointOps`.  Let `r : R → G → Prop` relate an implementation type `R`
(projective / extended / Niels / cached coordinates, …) to a commutative group `G` such that every operation
preserves `r` (`OpsRel r oR groupOps`: the C03 contracts; for dalek's formulas and the curve group these are the
`RepExt`/`RepProj`/… refinement lemmas).  Then every entry point, run with the implementation's operations on
representations of `Pᵢ`, returns a representation of `Σ sᵢ • Pᵢ` (and panics / returns `None` in exactly the
same cases). -/
section Impl
open Dalek.Proofs
variable {R : Type} {r : R → G → Prop} {oR : PointOps R}

/-- variable-base (both copies), `mul_clamped`. -/
theorem impl_edwards_mul_spec (h : OpsRel r oR groupOps) (cfg : Config) (b : List UInt8) (hb : Scalar255 b)
    {p : R} {P : G} (hp : r p P) : r (edwardsMul oR cfg p b) (leToNat b • P) := by
  rw [← edwards_mul_spec cfg b hb P]; exact edwardsMul_rel h cfg hp b

/-- basepoint tables of every radix, built by `create` with the implementation's own operations. -/
theorem impl_basepoint_table_spec (h : OpsRel r oR groupOps) (w : ℕ) (hw4 : 4 ≤ w) (hw8 : w ≤ 8)
    (b : List UInt8) (hb : Scalar255 b) {p : R} {P : G} (hp : r p P) :
    r (basepointTableMul oR w (basepointTableCreate oR w p) b) (leToNat b • P) := by
  rw [← basepoint_table_create_mul_spec w hw4 hw8 P b hb]
  exact basepointTableMulBase_rel h w (basepointTableCreate_rel h w hp) _

/-- `mul_base` / `mul_base_clamped` with constants that represent valid tables. -/
theorem impl_mul_base_spec (h : OpsRel r oR groupOps) (cfg : Config) {c : BaseConsts R} {C : BaseConsts G}
    (hc : ConstsRel r c C) (hC : ValidConsts C) (b : List UInt8) (hb : Scalar255 b) :
    r (mulBase oR cfg c b) (leToNat b • C.B) := by
  rw [← mul_base_spec cfg C hC b hb]; exact mulBase_rel h cfg hc b

theorem impl_double_base_spec (h : OpsRel r oR groupOps) (cfg : Config) {c : BaseConsts R}
    {C : BaseConsts G} (hc : ConstsRel r c C) (hC : ValidConsts C) (a b : List UInt8) (ha : Scalar255 a)
    (hb : Scalar255 b) {p : R} {P : G} (hp : r p P) :
    r (doubleBase oR cfg c a p b) (leToNat a • P + leToNat b • C.B) := by
  rw [← double_base_spec cfg C hC a b ha hb P]; exact doubleBase_rel h cfg hc a hp b

/-- constant-time multiscalar multiplication -/
theorem impl_multiscalar_mul_spec (h : OpsRel r oR groupOps) (scalars : List (List UInt8))
    (hs : ∀ b ∈ scalars, Scalar255 b) {ps : List R} {Ps : List G} (hp : List.Forall₂ r ps Ps) :
    OptRel r (multiscalarMul oR scalars ps)
      (if scalars.length = Ps.length then some (msm scalars Ps) else none) := by
  rw [← multiscalar_mul_spec scalars Ps hs]; exact multiscalarMul_rel h scalars hp

/-- variable-time multiscalar multiplication with optional points, under arbitrary dispatch thresholds -/
theorem impl_dispatch_spec (h : OpsRel r oR groupOps) (t190 t500 t800 : ℕ) (scalars : List (List UInt8))
    (hs : ∀ b ∈ scalars, Scalar255 b) {ps : List (Option R)} {Ps : List (Option G)}
    (hp : List.Forall₂ (OptRel r) ps Ps) :
    OptRel (OptRel r) (optionalMultiscalarMulWith oR t190 t500 t800 scalars ps)
      (if scalars.length = Ps.length then some ((collectOption Ps).map (msm scalars)) else none) := by
  rw [← dispatch_spec t190 t500 t800 scalars Ps hs]
  exact optionalMultiscalarMulWith_rel h t190 t500 t800 scalars hp

/-- precomputed mixed multiscalar multiplication (tables built by the implementation's `new`) -/
theorem impl_precomputed_spec (h : OpsRel r oR groupOps) (staticScalars dynamicScalars : List (List UInt8))
    (hs : ∀ b ∈ staticScalars, Scalar255 b) (hd : ∀ b ∈ dynamicScalars, Scalar255 b)
    {sps : List R} {SPs : List G} (hsp : List.Forall₂ r sps SPs)
    {ps : List (Option R)} {Ps : List (Option G)} (hp : List.Forall₂ (OptRel r) ps Ps) :
    OptRel (OptRel r)
      (optionalMixedMultiscalarMul oR (precomputationNew oR sps) staticScalars dynamicScalars ps)
      (match collectOption Ps with
        | none => some none
        | some dps =>
          if staticScalars.length ≤ SPs.length ∧ dps.length = dynamicScalars.length then
            some (some (msm staticScalars SPs + msm dynamicScalars dps))
          else none) := by
  rw [← precomputed_spec SPs staticScalars dynamicScalars Ps hs hd]
  exact optionalMixedMultiscalarMul_rel h (precomputedNew_rel h hsp) _ _ hp

end Impl

/-! ### the Ed25519 curve

`Dalek.Bridge.Ed` is the commutative group of points of the Ed25519 curve (`EdPoint edParams`, group law proved
in `Dalek/Proofs/EdwardsGroup.lean`), `Rep p Q` says that the executable specification point `p : Spec.Pt`
represents `Q : Ed`, and `Pt.smul`, `Pt.msm` are the specification's double-and-add / reference sum that the
differential run compares the Rust results against.  So: each algorithm, run over the curve group, returns the
point represented by the specification's result. -/
section Curve
open Dalek.Bridge

theorem msm_eq_msmEd (scalars : List (List UInt8)) (Qs : List Ed) :
    msm scalars Qs = msmEd (scalars.map leToNat) Qs := by
  induction scalars generalizing Qs with
  | nil => simp [msm_nil_left, msmEd]
  | cons b bs ih =>
    cases Qs with
    | nil => simp [msm_nil_right, msmEd]
    | cons Q Qs => rw [msm_cons, ih, List.map_cons, msmEd]

/-- variable-base (both copies), fixed-base tables of every radix built from `Q`, and vartime double-base on the
curve agree with the specification's scalar multiplication. -/
theorem curve_single_spec (cfg : Config) (b : List UInt8) (hb : Scalar255 b) (p : Pt) (Q : Ed) (h : Rep p Q) :
    Rep (Pt.smul (leToNat b) p) (edwardsMul groupOps cfg Q b) ∧
    (∀ w, 4 ≤ w → w ≤ 8 →
      Rep (Pt.smul (leToNat b) p) (basepointTableMul groupOps w (basepointTableCreate groupOps w Q) b)) := by
  refine ⟨?_, fun w h4 h8 => ?_⟩
  · rw [edwards_mul_spec cfg b hb Q]; exact rep_smul h _
  · rw [basepoint_table_create_mul_spec w h4 h8 Q b hb]; exact rep_smul h _

theorem curve_double_base_spec (cfg : Config) (c : BaseConsts Ed) (hc : ValidConsts c) (a b : List UInt8)
    (ha : Scalar255 a) (hb : Scalar255 b) (p pB : Pt) (A : Ed) (hA : Rep p A) (hB : Rep pB c.B) :
    Rep ((Pt.smul (leToNat a) p).add (Pt.smul (leToNat b) pB)) (doubleBase groupOps cfg c a A b) := by
  rw [double_base_spec cfg c hc a b ha hb A]
  exact rep_add (rep_smul hA _) (rep_smul hB _)

/-- all multiscalar entry points on the curve (any thresholds) agree with the specification's `Pt.msm`. -/
theorem curve_multiscalar_spec (t190 t500 t800 : ℕ) (scalars : List (List UInt8)) (ps : List Pt)
    (Qs : List Ed) (hs : ∀ b ∈ scalars, Scalar255 b) (hlen : scalars.length = Qs.length)
    (h : List.Forall₂ Rep ps Qs) :
    ∃ R : Ed, Rep (Pt.msm (scalars.map leToNat) ps) R ∧
      multiscalarMul groupOps scalars Qs = some R ∧
      optionalMultiscalarMulWith groupOps t190 t500 t800 scalars (Qs.map some) = some (some R) := by
  refine ⟨msmEd (scalars.map leToNat) Qs, rep_msm _ _ _ h, ?_, ?_⟩
  · rw [multiscalar_mul_spec scalars Qs hs, if_pos hlen, msm_eq_msmEd]
  · rw [dispatch_spec _ _ _ scalars _ hs, if_pos (by rw [List.length_map, hlen]), collect_some,
      Option.map_some, msm_eq_msmEd]

/-- The two executable point implementations satisfy the contracts with respect to the curve group:
`ptOps` (affine specification points, `Rep`) and `eptOps` (extended coordinates with dalek's addition and
doubling formulas, `ERep`). -/
theorem ptOps_rel : OpsRel Rep ptOps (groupOps : PointOps Ed) :=
  ⟨rep_zero, rep_add, rep_sub, rep_neg, fun h => by
    have := rep_double h
    rwa [two_nsmul] at this⟩

theorem eptOps_rel : OpsRel ERep eptOps (groupOps : PointOps Ed) :=
  ⟨erep_zero, erep_add, erep_sub, erep_neg, erep_double⟩

/-- So the executable models, run on extended coordinates with dalek's formulas, return representations of
`s • Q`, `a • A + b • B`, `Σ sᵢ • Qᵢ` on the curve; e.g. for variable-base multiplication: -/
theorem curve_ept_variable_base (cfg : Config) (b : List UInt8) (hb : Scalar255 b) (e : Dalek.Model.EPt)
    (Q : Ed) (h : ERep e Q) : ERep (edwardsMul eptOps cfg e b) (leToNat b • Q) :=
  impl_edwards_mul_spec eptOps_rel cfg b hb h

theorem curve_ept_dispatch (t190 t500 t800 : ℕ) (scalars : List (List UInt8))
    (hs : ∀ b ∈ scalars, Scalar255 b) (es : List Dalek.Model.EPt) (Qs : List Ed)
    (h : List.Forall₂ ERep es Qs) (hlen : scalars.length = Qs.length) :
    ∃ e, optionalMultiscalarMulWith eptOps t190 t500 t800 scalars (es.map some) = some (some e) ∧
      ERep e (msm scalars Qs) := by
  have hp : List.Forall₂ (Dalek.Proofs.OptRel ERep) (es.map some) (Qs.map some) :=
    map_rel h fun _ _ ha => ha
  have := impl_dispatch_spec eptOps_rel t190 t500 t800 scalars hs hp
  rw [List.length_map, if_pos hlen, collect_some, Option.map_some] at this
  obtain ⟨o, ho, h2⟩ := Dalek.Proofs.OptRel.of_some_right this
  obtain ⟨e, he, h3⟩ := Dalek.Proofs.OptRel.of_some_right h2
  exact ⟨e, by rw [ho, he], h3⟩

end Curve

/-! ### sanity: hypotheses are satisfiable; the executable model on the integers (`G := ℤ`, `P = 1`) -/

/-- `2^255 - 1` (unreduced): bytes `ff … ff 7f` -/
def bMax : List UInt8 := List.replicate 31 0xff ++ [0x7f]
/-- `ℓ - 1` (the largest canonical scalar) -/
def bLm1 : List UInt8 := natToLe (2 ^ 252 + 27742317777372353535851937790883648493 - 1) 32

example : Scalar255 bMax ∧ Scalar255 bLm1 := by
  unfold Scalar255; decide +kernel

example : variableBaseMul intOps (asRadix16 bMax) 1 = 2 ^ 255 - 1 := by decide +kernel
example : variableBaseMulVec intOps (asRadix16 bMax) 1 = 2 ^ 255 - 1 := by decide +kernel
example : variableBaseMul intOps (asRadix16 bLm1) (-3) = -3 * leToNat bLm1 := by decide +kernel
example : ∀ w ∈ [4, 5, 6, 7, 8],
    basepointTableMul intOps w (basepointTableCreate intOps w 1) bMax = 2 ^ 255 - 1 := by decide +kernel
example : strausCT intOps ([bMax, bLm1].map asRadix16) [1, -1] = 2 ^ 255 - 1 - leToNat bLm1 := by
  decide +kernel
example : strausVT intOps ([bMax, bLm1].map (nonAdjacentForm · 5)) [some 1, some (-1)]
    = some ((2 : ℤ) ^ 255 - 1 - leToNat bLm1) := by decide +kernel
example : ∀ w ∈ [6, 7, 8], pippenger intOps w ([bMax, bLm1].map (asRadix2w · w)) [some 1, some (-1)]
    = some ((2 : ℤ) ^ 255 - 1 - leToNat bLm1) := by decide +kernel
example : doubleBaseLoop intOps (nonAdjacentForm bLm1 5) (nonAdjacentForm bMax 8) 5 (nafTableFrom intOps 64 1)
    = 5 * leToNat bLm1 + (2 ^ 255 - 1) := by decide +kernel
example : optionalMultiscalarMul intOps [bMax, bLm1] [some 1, none] = some none := by decide +kernel
example : optionalMultiscalarMul intOps [bMax, bLm1] [some 1] = none := by decide +kernel
example : precomputedMixed intOps (precomputedNew intOps [2, 3, 4]) ([bLm1].map (nonAdjacentForm · 5))
    ([bMax].map (nonAdjacentForm · 5)) [some 7] = some (some ((2 : ℤ) * leToNat bLm1 + 7 * (2 ^ 255 - 1))) := by
  decide +kernel


/-- the executable model on extended coordinates with dalek's formulas, against the specification's
double-and-add (projective equality `EPt.eq`), on the unreduced scalar `2^255 - 1` -/
example : (edwardsMul eptOps ⟨.serial, false⟩ Dalek.Model.EPt.basepoint bMax).eq
    (Dalek.Model.EPt.smul (2 ^ 255 - 1) Dalek.Model.EPt.basepoint) = true := by decide +kernel
example : (basepointTableMul eptOps 8 (basepointTableCreate eptOps 8 Dalek.Model.EPt.basepoint) bMax).eq
    (Dalek.Model.EPt.smul (2 ^ 255 - 1) Dalek.Model.EPt.basepoint) = true := by decide +kernel
example : (pippenger eptOps 8 ([bMax, bLm1].map (asRadix2w · 8))
      [some Dalek.Model.EPt.basepoint, some Dalek.Model.EPt.basepoint]).map
      (fun e => e.eq (Dalek.Model.EPt.smul (2 ^ 255 - 1 + leToNat bLm1) Dalek.Model.EPt.basepoint))
    = some true := by decide +kernel

/-! ### axiom audit -/

/-- info: 'Dalek.Props.C04.Algorithms.vectorOps_groupOps' depends on axioms: [propext, Quot.sound] -/
#guard_msgs in #print axioms vectorOps_groupOps

/-- info: 'Dalek.Props.C04.Algorithms.table_spec' depends on axioms: [propext, Classical.choice, Quot.sound] -/
#guard_msgs in #print axioms table_spec

/-- info: 'Dalek.Props.C04.Algorithms.select_spec' depends on axioms: [propext, Classical.choice, Quot.sound] -/
#guard_msgs in #print axioms select_spec

/-- info: 'Dalek.Props.C04.Algorithms.naf_select_spec' depends on axioms: [propext, Classical.choice, Quot.sound] -/
#guard_msgs in #print axioms naf_select_spec

/-- info: 'Dalek.Props.C04.Algorithms.variable_base_spec' depends on axioms: [propext, Classical.choice, Quot.sound] -/
#guard_msgs in #print axioms variable_base_spec

/-- info: 'Dalek.Props.C04.Algorithms.edwards_mul_spec' depends on axioms: [propext, Classical.choice, Quot.sound] -/
#guard_msgs in #print axioms edwards_mul_spec

/-- info: 'Dalek.Props.C04.Algorithms.mul_clamped_spec' depends on axioms: [propext, Classical.choice, Quot.sound] -/
#guard_msgs in #print axioms mul_clamped_spec

/-- info: 'Dalek.Props.C04.Algorithms.create_spec' depends on axioms: [propext, Classical.choice, Quot.sound] -/
#guard_msgs in #print axioms create_spec

/-- info: 'Dalek.Props.C04.Algorithms.basepoint_table_spec' depends on axioms: [propext, Classical.choice, Quot.sound] -/
#guard_msgs in #print axioms basepoint_table_spec

/-- info: 'Dalek.Props.C04.Algorithms.basepoint_table_create_mul_spec' depends on axioms: [propext, Classical.choice, Quot.sound] -/
#guard_msgs in #print axioms basepoint_table_create_mul_spec

/-- info: 'Dalek.Props.C04.Algorithms.basepoint_table_basepoint_spec' depends on axioms: [propext, Classical.choice, Quot.sound] -/
#guard_msgs in #print axioms basepoint_table_basepoint_spec

/-- info: 'Dalek.Props.C04.Algorithms.mul_base_spec' depends on axioms: [propext, Classical.choice, Quot.sound] -/
#guard_msgs in #print axioms mul_base_spec

/-- info: 'Dalek.Props.C04.Algorithms.mul_base_clamped_spec' depends on axioms: [propext, Classical.choice, Quot.sound] -/
#guard_msgs in #print axioms mul_base_clamped_spec

/-- info: 'Dalek.Props.C04.Algorithms.double_base_spec' depends on axioms: [propext, Classical.choice, Quot.sound] -/
#guard_msgs in #print axioms double_base_spec

/-- info: 'Dalek.Props.C04.Algorithms.straus_ct_spec' depends on axioms: [propext, Classical.choice, Quot.sound] -/
#guard_msgs in #print axioms straus_ct_spec

/-- info: 'Dalek.Props.C04.Algorithms.straus_vt_spec' depends on axioms: [propext, Classical.choice, Quot.sound] -/
#guard_msgs in #print axioms straus_vt_spec

/-- info: 'Dalek.Props.C04.Algorithms.pippenger_spec' depends on axioms: [propext, Classical.choice, Quot.sound] -/
#guard_msgs in #print axioms pippenger_spec

/-- info: 'Dalek.Props.C04.Algorithms.pippenger_none_iff' depends on axioms: [propext, Classical.choice, Quot.sound] -/
#guard_msgs in #print axioms pippenger_none_iff

/-- info: 'Dalek.Props.C04.Algorithms.pippenger_index_ok' depends on axioms: [propext, Classical.choice, Quot.sound] -/
#guard_msgs in #print axioms pippenger_index_ok

/-- info: 'Dalek.Props.C04.Algorithms.precomputed_spec' depends on axioms: [propext, Classical.choice, Quot.sound] -/
#guard_msgs in #print axioms precomputed_spec

/-- info: 'Dalek.Props.C04.Algorithms.dispatch_spec' depends on axioms: [propext, Classical.choice, Quot.sound] -/
#guard_msgs in #print axioms dispatch_spec

/-- info: 'Dalek.Props.C04.Algorithms.optional_multiscalar_mul_spec' depends on axioms: [propext, Classical.choice, Quot.sound] -/
#guard_msgs in #print axioms optional_multiscalar_mul_spec

/-- info: 'Dalek.Props.C04.Algorithms.optional_none_iff' depends on axioms: [propext, Classical.choice, Quot.sound] -/
#guard_msgs in #print axioms optional_none_iff

/-- info: 'Dalek.Props.C04.Algorithms.multiscalar_mul_spec' depends on axioms: [propext, Classical.choice, Quot.sound] -/
#guard_msgs in #print axioms multiscalar_mul_spec

/-- info: 'Dalek.Props.C04.Algorithms.vartime_multiscalar_mul_spec' depends on axioms: [propext, Classical.choice, Quot.sound] -/
#guard_msgs in #print axioms vartime_multiscalar_mul_spec

/--
info: 'Dalek.Props.C04.Algorithms.vartime_mixed_multiscalar_mul_spec' depends on axioms: [propext,
 Classical.choice,
 Quot.sound]
-/
#guard_msgs in #print axioms vartime_mixed_multiscalar_mul_spec

/--
info: 'Dalek.Props.C04.Algorithms.precomputed_vartime_multiscalar_mul_spec' depends on axioms: [propext,
 Classical.choice,
 Quot.sound]
-/
#guard_msgs in #print axioms precomputed_vartime_multiscalar_mul_spec

/-- info: 'Dalek.Props.C04.Algorithms.empty_identity' depends on axioms: [propext, Classical.choice, Quot.sound] -/
#guard_msgs in #print axioms empty_identity

/-- info: 'Dalek.Props.C04.Algorithms.ristretto_wrappers' depends on axioms: [propext, Quot.sound] -/
#guard_msgs in #print axioms ristretto_wrappers

/-- info: 'Dalek.Props.C04.Algorithms.curve_single_spec' depends on axioms: [propext, Classical.choice, Quot.sound] -/
#guard_msgs in #print axioms curve_single_spec

/-- info: 'Dalek.Props.C04.Algorithms.curve_double_base_spec' depends on axioms: [propext, Classical.choice, Quot.sound] -/
#guard_msgs in #print axioms curve_double_base_spec

/-- info: 'Dalek.Props.C04.Algorithms.curve_multiscalar_spec' depends on axioms: [propext, Classical.choice, Quot.sound] -/
#guard_msgs in #print axioms curve_multiscalar_spec

/-- info: 'Dalek.Props.C04.Algorithms.impl_edwards_mul_spec' depends on axioms: [propext, Classical.choice, Quot.sound] -/
#guard_msgs in #print axioms impl_edwards_mul_spec

/-- info: 'Dalek.Props.C04.Algorithms.impl_basepoint_table_spec' depends on axioms: [propext, Classical.choice, Quot.sound] -/
#guard_msgs in #print axioms impl_basepoint_table_spec

/-- info: 'Dalek.Props.C04.Algorithms.impl_mul_base_spec' depends on axioms: [propext, Classical.choice, Quot.sound] -/
#guard_msgs in #print axioms impl_mul_base_spec

/-- info: 'Dalek.Props.C04.Algorithms.impl_double_base_spec' depends on axioms: [propext, Classical.choice, Quot.sound] -/
#guard_msgs in #print axioms impl_double_base_spec

/-- info: 'Dalek.Props.C04.Algorithms.impl_multiscalar_mul_spec' depends on axioms: [propext, Classical.choice, Quot.sound] -/
#guard_msgs in #print axioms impl_multiscalar_mul_spec

/-- info: 'Dalek.Props.C04.Algorithms.impl_dispatch_spec' depends on axioms: [propext, Classical.choice, Quot.sound] -/
#guard_msgs in #print axioms impl_dispatch_spec

/-- info: 'Dalek.Props.C04.Algorithms.impl_precomputed_spec' depends on axioms: [propext, Classical.choice, Quot.sound] -/
#guard_msgs in #print axioms impl_precomputed_spec

/-- info: 'Dalek.Props.C04.Algorithms.ptOps_rel' depends on axioms: [propext, Classical.choice, Quot.sound] -/
#guard_msgs in #print axioms ptOps_rel

/-- info: 'Dalek.Props.C04.Algorithms.eptOps_rel' depends on axioms: [propext, Classical.choice, Quot.sound] -/
#guard_msgs in #print axioms eptOps_rel

/-- info: 'Dalek.Props.C04.Algorithms.curve_ept_variable_base' depends on axioms: [propext, Classical.choice, Quot.sound] -/
#guard_msgs in #print axioms curve_ept_variable_base

/-- info: 'Dalek.Props.C04.Algorithms.curve_ept_dispatch' depends on axioms: [propext, Classical.choice, Quot.sound] -/
#guard_msgs in #print axioms curve_ept_dispatch

end Dalek.Props.C04.Algorithms

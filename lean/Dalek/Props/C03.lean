import Dalek.Props.C03.Formulas
import Dalek.Props.C03.History

import Dalek.Props.C03.Formulas
import Dalek.Props.C03.History
import Dalek.Props.C03.Vector
import Dalek.Props.C01.VecFormulas
import Dalek.Props.C05.RefinementFiat

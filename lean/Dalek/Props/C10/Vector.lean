import Dalek.IR.KLeak
import Dalek.Gen.KAvx2Edwards
import Dalek.Gen.KIfmaEdwards
/-!
# C10 — the parallel point formulas of the vector backends are constant time (source level)

`Dalek.Gen.KAvx2Edwards` / `KIfmaEdwards` are REGENERATED from `backend/vector/{avx2,ifma}/edwards.rs` on every run: each
formula is a straight-line sequence of calls of translated limb kernels (`Dalek.Gen.Avx2Field` / `IfmaField`), themselves
straight-line LimbIR (no jump, no computed memory offset can be expressed; `sel` is a data-flow select).  The translator refuses
a function containing a run-time `if`, `match`, early `return`, a loop with a data-dependent bound or an index computed from data,
so the mere existence of these items is the syntactic half; the theorems below are the semantic half: the leakage trace is the
same for ALL inputs.  This discharges the `assumed` SIMD callees of `variable_base_mul_vector_noninterference` and
`straus_vector_noninterference` (NonInterference.lean).
-/
namespace Dalek.Props.C10.Vector
open Dalek.IR Dalek.Gen

/-- **every translated vector point formula** (both backends): the trace is input-independent -/
theorem vector_point_formulas_ct :
    ∀ it ∈ KAvx2Edwards.items ++ KIfmaEdwards.items, ∀ ins₁ ins₂ : List (List Nat), it.2.leakW ins₁ = it.2.leakW ins₂ :=
  fun it _ ins₁ ins₂ => kprog_leak_const it.2 ins₁ ins₂

/-- no jump and no computed memory offset at all in any of them -/
theorem vector_point_formulas_branch_free :
    ∀ it ∈ KAvx2Edwards.items ++ KIfmaEdwards.items,
      it.2.ops.all (fun e => match e with | .limbOp _ => true | _ => false) = true := by
  decide +kernel

/-- the item tables contain the formulas the secret-dependent scalar multiplications use -/
theorem items_contain_named :
    (["ExtendedPoint_double", "ExtendedPoint_add_CachedPoint", "ExtendedPoint_sub_CachedPoint", "CachedPoint_neg",
      "CachedPoint_from_ExtendedPoint", "CachedPoint_conditional_assign", "ExtendedPoint_from_EdwardsPoint",
      "EdwardsPoint_from_ExtendedPoint"].all fun n =>
        (KAvx2Edwards.items.map Prod.fst).contains n && (KIfmaEdwards.items.map Prod.fst).contains n) = true := by
  decide +kernel

/-- non-vacuity: the traces are not empty (the AVX2 doubling performs thousands of limb operations) -/
example : 1000 < KAvx2Edwards.ExtendedPoint_double.ops.length := by decide +kernel

end Dalek.Props.C10.Vector

import Dalek.IR.Leak
import Dalek.Model.LeakModels
import Dalek.Model.Contracts
import Dalek.Proofs.Primes
/-!
# C10 — no secret-dependent control flow or addressing: the Lean half (SOURCE-LEVEL non-interference)

## What is proved here

A leakage semantics (`Dalek.IR.LeakEvent`: `branch b`, `index i`, `loopLen n`, plus opcode / callee pseudo-events)
is given to

1. the two languages the translator `tools/rs2lean` emits (`Dalek/IR/Leak.lean`): for a LimbIR kernel `p` and an
   AlgIR item `q`, `p.leakW env₁ = p.leakW env₂` and `q.leak o ins₁ = q.leak o' ins₂` for ALL inputs
   (`limb_noninterference`, `alg_noninterference`, and, quantified over the registry of translated kernels and over
   the AlgIR items the property names, `all_translated_kernels_ct`);
2. leak-instrumented hand models of the loop / selection level (`Dalek/Model/LeakModels.lean`): for each of them
   `public₁ = public₂ → trace (f secret₁ public₁) = trace (f secret₂ public₂)` (section "Loop / selection level"),
   and for the `vartime` functions an `example` with two secrets whose traces DIFFER (the semantics is not blind).

## What these theorems are about — and what they are not about

* They are statements about MODELS OF THE SOURCE.  Part 1 is tied to the Rust text by translation (regenerated on
  every run; an introduced `if borrow != 0`, early `return`, `match` on a value or table access with a computed
  index has no image in LimbIR / AlgIR and makes the translation of the item FAIL, so the item named in
  `all_translated_kernels_ct` no longer exists and this file stops compiling).  Part 2 is a transcription by hand;
  where an un-instrumented model already exists (`Dalek.Model.Recode`, `Dalek.Model.Ladder`) the value computed
  by the instrumented model is proved equal to it (`*_value_eq_model`), so the differential correspondence run of
  that model against the Rust drivers covers it; the remaining models (table `select`, the Edwards scalar
  multiplication loops, Straus, the basepoint table, both `batch_invert`s, Ed25519 key derivation / signing, X25519
  public key) are tied to the code BY STRUCTURE ONLY.
* `sel` / `csel` / `conditional_assign` / `conditional_swap` / `conditional_negate` / `ct_eq` are MODELLED as
  data-independent (one opcode event, both arms evaluated), because at the source level they are mask arithmetic
  from crate `subtle`.  This is an assumption about `subtle` and about the compiler, not a theorem.
* `Sha512` (crate `sha2`) and the SIMD point formulas of the vector backends are not translated; they appear in
  the traces as `call` events that `Dalek.Model.LeakModels.callees` classifies as `assumed`.
* Nothing here speaks about the COMPILED x86-64 ARTEFACT, which is what property C10 is stated for: LLVM may turn a
  mask into a jump, a `cmov` into a load, or unroll / vectorise differently per backend.  That half is covered only
  by the runtime check `extra_C10` of `/verif/lib/special.py`: for class-directed pairs of secrets of equal length
  the release driver of every backend is run under `valgrind --tool=lackey --trace-mem=yes`, the stream of
  instruction and data addresses between two marker calls is hashed, and all hashes of one operation must be equal
  (AVX-512 IFMA code cannot run under valgrind 3.19 and is not traced; micro-architectural effects are out of
  scope).  The Lean half says which operations are EXPECTED to give equal traces and why; the runtime half observes
  the artefact on finitely many pairs.  Neither implies the other.
-/

namespace Dalek.Props.C10
open Dalek.IR Dalek.Model.LeakModels

/-! ## Part 1 — the translated languages -/

/-- **LimbIR non-interference**: the leakage trace of a translated kernel is the same for all inputs. -/
theorem limb_noninterference (p : Prog) (env₁ env₂ : List Nat) : p.leakW env₁ = p.leakW env₂ :=
  limb_leak_const p env₁ env₂

/-- **AlgIR non-interference**: the leakage trace of a translated item is the same for all inputs, under any two
interpretations of the field signature. -/
theorem alg_noninterference {V W : Type} (p : AProg) (o : FOps V) (o' : FOps W) (ins₁ : List V) (ins₂ : List W) :
    p.leak o ins₁ = p.leak o' ins₂ :=
  alg_leak_const p o o' ins₁ ins₂

/-- The AlgIR items that property C10 names as constant time: (generated module, item name, program).
`sqrt_ratio_i` / `invert` (field.rs), Edwards `compress` and the `ct_eq` / `conditional_select` it is used with,
Ristretto `compress` / `elligator_ristretto_flavor` / `ct_eq`, the Montgomery ladder step and its
`conditional_select`, `elligator_encode`, and the curve formulas used by the scalar multiplications. -/
def ctAlgItems : List (String × String × AProg) := [
  ("AlgField", "sqrt_ratio_i", Dalek.Gen.AlgField.sqrt_ratio_i),
  ("AlgField", "invsqrt", Dalek.Gen.AlgField.invsqrt),
  ("AlgField", "invert", Dalek.Gen.AlgField.invert),
  ("AlgField", "pow22501", Dalek.Gen.AlgField.pow22501),
  ("AlgField", "pow_p58", Dalek.Gen.AlgField.pow_p58),
  ("AlgEdwards", "compress", Dalek.Gen.AlgEdwards.compress),
  ("AlgEdwards", "to_montgomery", Dalek.Gen.AlgEdwards.to_montgomery),
  ("AlgEdwards", "ct_eq", Dalek.Gen.AlgEdwards.ct_eq),
  ("AlgEdwards", "conditional_select", Dalek.Gen.AlgEdwards.conditional_select),
  ("AlgEdwards", "identity", Dalek.Gen.AlgEdwards.identity),
  ("AlgEdwards", "neg", Dalek.Gen.AlgEdwards.neg),
  ("AlgEdwards", "double", Dalek.Gen.AlgEdwards.double),
  ("AlgEdwards", "add", Dalek.Gen.AlgEdwards.add),
  ("AlgEdwards", "sub", Dalek.Gen.AlgEdwards.sub),
  ("AlgEdwards", "as_projective", Dalek.Gen.AlgEdwards.as_projective),
  ("AlgEdwards", "as_projective_niels", Dalek.Gen.AlgEdwards.as_projective_niels),
  ("AlgEdwards", "as_affine_niels", Dalek.Gen.AlgEdwards.as_affine_niels),
  ("AlgRistretto", "compress", Dalek.Gen.AlgRistretto.compress),
  ("AlgRistretto", "elligator_ristretto_flavor", Dalek.Gen.AlgRistretto.elligator_ristretto_flavor),
  ("AlgRistretto", "ct_eq", Dalek.Gen.AlgRistretto.ct_eq),
  ("AlgMontgomery", "differential_add_and_double", Dalek.Gen.AlgMontgomery.differential_add_and_double),
  ("AlgMontgomery", "ProjectivePoint_conditional_select", Dalek.Gen.AlgMontgomery.ProjectivePoint_conditional_select),
  ("AlgMontgomery", "ProjectivePoint_identity", Dalek.Gen.AlgMontgomery.ProjectivePoint_identity),
  ("AlgMontgomery", "ProjectivePoint_as_affine", Dalek.Gen.AlgMontgomery.ProjectivePoint_as_affine),
  ("AlgMontgomery", "elligator_encode", Dalek.Gen.AlgMontgomery.elligator_encode),
  ("AlgMontgomery", "ct_eq", Dalek.Gen.AlgMontgomery.ct_eq),
  ("AlgCurve", "ProjectivePoint_double", Dalek.Gen.AlgCurve.ProjectivePoint_double),
  ("AlgCurve", "add_ProjectiveNielsPoint", Dalek.Gen.AlgCurve.add_ProjectiveNielsPoint),
  ("AlgCurve", "sub_ProjectiveNielsPoint", Dalek.Gen.AlgCurve.sub_ProjectiveNielsPoint),
  ("AlgCurve", "add_AffineNielsPoint", Dalek.Gen.AlgCurve.add_AffineNielsPoint),
  ("AlgCurve", "sub_AffineNielsPoint", Dalek.Gen.AlgCurve.sub_AffineNielsPoint),
  ("AlgCurve", "CompletedPoint_as_projective", Dalek.Gen.AlgCurve.CompletedPoint_as_projective),
  ("AlgCurve", "CompletedPoint_as_extended", Dalek.Gen.AlgCurve.CompletedPoint_as_extended),
  ("AlgCurve", "ProjectivePoint_as_extended", Dalek.Gen.AlgCurve.ProjectivePoint_as_extended),
  ("AlgCurve", "ProjectiveNielsPoint_conditional_select", Dalek.Gen.AlgCurve.ProjectiveNielsPoint_conditional_select),
  ("AlgCurve", "ProjectiveNielsPoint_conditional_assign", Dalek.Gen.AlgCurve.ProjectiveNielsPoint_conditional_assign),
  ("AlgCurve", "AffineNielsPoint_conditional_select", Dalek.Gen.AlgCurve.AffineNielsPoint_conditional_select),
  ("AlgCurve", "AffineNielsPoint_conditional_assign", Dalek.Gen.AlgCurve.AffineNielsPoint_conditional_assign),
  ("AlgCurve", "ProjectiveNielsPoint_neg", Dalek.Gen.AlgCurve.ProjectiveNielsPoint_neg),
  ("AlgCurve", "AffineNielsPoint_neg", Dalek.Gen.AlgCurve.AffineNielsPoint_neg),
  ("AlgCurve", "ProjectiveNielsPoint_identity", Dalek.Gen.AlgCurve.ProjectiveNielsPoint_identity),
  ("AlgCurve", "AffineNielsPoint_identity", Dalek.Gen.AlgCurve.AffineNielsPoint_identity)]

/-- the generated item table of a `Dalek.Gen.Alg*` module -/
def genAlgItems : String → List (String × AProg)
  | "AlgField" => Dalek.Gen.AlgField.items
  | "AlgCurve" => Dalek.Gen.AlgCurve.items
  | "AlgEdwards" => Dalek.Gen.AlgEdwards.items
  | "AlgMontgomery" => Dalek.Gen.AlgMontgomery.items
  | "AlgRistretto" => Dalek.Gen.AlgRistretto.items
  | _ => []

/-- Every entry of `ctAlgItems` is, under the name given, an entry of the GENERATED item table of its module. -/
theorem ctAlgItems_are_generated : ∀ it ∈ ctAlgItems, (it.2.1, it.2.2) ∈ genAlgItems it.1 := by
  decide

/-- **All translated kernels are constant-time (source level).**

(a) For EVERY kernel in the registry `Dalek.Model.Contracts.kernels` (the field kernels of both serial backends —
    `add sub mul neg reduce from_bytes as_bytes square pow2k` —, the scalar kernels of both backends — `from_bytes
    from_bytes_wide as_bytes add sub mul_internal square_internal montgomery_reduce mul square montgomery_mul
    montgomery_square as_montgomery from_montgomery` — and `clamp_integer`) and all inputs `env₁ env₂` — inside or
    outside the bound contract — the leakage traces coincide and equal the opcode sequence of the program text.
(b) The same for every AlgIR item of `ctAlgItems`, under any two interpretations of the field signature.

WHAT THIS BUYS.  The proof is one line (`limb_leak_const` / `alg_leak_const`): LimbIR and AlgIR have no branch, no
computed index and no data-dependent trip count IN THEIR SYNTAX.  The content of the theorem is therefore entirely
in its being STATABLE: each `Dalek.Gen.*` object named here (directly or through the registry) exists only if the
translator managed to place the current Rust source of that function in the branch-free, index-free language.
By the translator's "never guess" rule, an `if borrow != 0 { … }` (the pre-RUSTSEC-2024-0344 shape of
`Scalar52::sub`), an early `return`, a `match` on a value, a table access with a non-literal index or a `while`
loop makes the translation of the item fail; the generated definition disappears and this theorem (and
`ctAlgItems_are_generated`) no longer compiles.
WHAT IT DOES NOT BUY: that `sel`/`csel` — the images of `subtle`'s `conditional_select` / `conditional_assign` /
`conditional_negate` — are compiled without a jump (they are MODELLED as one opcode, see `Dalek/IR/Leak.lean`), and
anything about the code LLVM emits (module doc). -/
theorem all_translated_kernels_ct :
    (∀ k ∈ Dalek.Model.Contracts.kernels, ∀ env₁ env₂ : List Nat,
        k.2.2.1.leakW env₁ = k.2.2.1.leakW env₂ ∧ k.2.2.1.leakW env₁ = k.2.2.1.ops) ∧
    (∀ it ∈ ctAlgItems, ∀ (V W : Type) (o : FOps V) (o' : FOps W) (ins₁ : List V) (ins₂ : List W),
        it.2.2.leak o ins₁ = it.2.2.leak o' ins₂ ∧ it.2.2.leak o ins₁ = it.2.2.ops) :=
  ⟨fun _ _ env₁ env₂ => ⟨limb_leak_const _ env₁ env₂, Prog.leakW_eq_ops _ env₁⟩,
   fun _ _ _ _ o o' ins₁ ins₂ => ⟨alg_leak_const _ o o' ins₁ ins₂, AProg.leak_eq_ops o _ ins₁⟩⟩

set_option maxRecDepth 20000 in
/-- the registry is not empty and contains the kernels the property singles out -/
theorem registry_contains_named_kernels :
    44 ≤ (Dalek.Model.Contracts.kernels.map (fun k => (k.1, k.2.1))).length ∧
    ∀ n ∈ [("Scalar52", "sub"), ("Scalar29", "sub"), ("Scalar52", "add"), ("Scalar29", "add"),
           ("Scalar52", "montgomery_reduce"), ("Scalar29", "montgomery_reduce"), ("Scalar52", "from_bytes_wide"),
           ("Field51", "mul"), ("Field26", "mul"), ("Field51", "as_bytes"), ("Field26", "as_bytes"),
           ("Clamp", "clamp_integer")],
      n ∈ Dalek.Model.Contracts.kernels.map (fun k => (k.1, k.2.1)) := by
  decide

/-- `Scalar52::sub` / `Scalar29::sub` (the RUSTSEC-2024-0344 site): constant trace, and the conditional add-back
of `l` is present in the translated kernel as `sel` operations — `u64::conditional_select(&0, &L[i], underflow)`,
one per limb — not as a branch (a branch could not have been translated at all). -/
theorem scalar_sub_masked_addback_ct :
    (∀ env₁ env₂, Dalek.Gen.Scalar52.sub.leakW env₁ = Dalek.Gen.Scalar52.sub.leakW env₂) ∧
    (∀ env₁ env₂, Dalek.Gen.Scalar29.sub.leakW env₁ = Dalek.Gen.Scalar29.sub.leakW env₂) ∧
    Dalek.Gen.Scalar52.sub.selCount = 5 ∧ Dalek.Gen.Scalar29.sub.selCount = 9 :=
  ⟨limb_leak_const _, limb_leak_const _, by decide +kernel, by decide +kernel⟩

/-! ## Part 2 — loop / selection level -/

section select
variable {T : Type} (ops : CtOps T)

/-- **`LookupTable::select`**: the trace does not depend on the digit `x` (nor on the table contents). -/
theorem lookup_select_noninterference (size : Nat) (table₁ table₂ : List T) (x₁ x₂ : Int) :
    (lookupSelect ops size table₁ x₁).trace = (lookupSelect ops size table₂ x₂).trace := by
  simp

/-- the memory offsets touched by a trace -/
def indices : Leak → List Nat
  | [] => []
  | .index i :: t => i :: indices t
  | _ :: t => indices t

/-- the branch outcomes of a trace -/
def branches : Leak → List Bool
  | [] => []
  | .branch b :: t => b :: branches t
  | _ :: t => branches t

/-- `select` on the radix-16 table reads ALL 8 entries, in order, whatever `x` is, and never jumps. -/
theorem lookup_select_scans_all (table : List T) (x : Int) :
    indices (lookupSelect ops 8 table x).trace = [0, 1, 2, 3, 4, 5, 6, 7] ∧
    branches (lookupSelect ops 8 table x).trace = [] := by
  rw [lookupSelect_trace]; decide

end select

/-- integers as a toy entry type: `select` really returns `x·P` (here `P = 1`, table `[1, …, 8]`) -/
def intCt : CtOps Int := ⟨0, fun t e c => if c then e else t, fun t c => if c then -t else t⟩

example : (lookupSelect intCt 8 [1, 2, 3, 4, 5, 6, 7, 8] (-3)).value = -3 := by decide
example : (lookupSelect intCt 8 [1, 2, 3, 4, 5, 6, 7, 8] 8).value = 8 := by decide
example : (lookupSelect intCt 8 [1, 2, 3, 4, 5, 6, 7, 8] 0).value = 0 := by decide

/-- CONTRAST (non-vacuity): the variable-time `NafLookupTable5::select` (`self.0[x / 2]`) leaks the digit. -/
example : (nafSelect [10, 30, 50, 70, 90, 110, 130, 150] 1 0).trace
    ≠ (nafSelect [10, 30, 50, 70, 90, 110, 130, 150] 7 0).trace := by decide

/-! ### scalar recodings -/

/-- **`Scalar::as_radix_16`**: the trace does not depend on the scalar. -/
theorem as_radix_16_noninterference (s₁ s₂ : List UInt8) : (asRadix16L s₁).trace = (asRadix16L s₂).trace := by
  simp

/-- `as_radix_16` has no jump at all, and its loops run 32 and 63 times. -/
theorem as_radix_16_branch_free (s : List UInt8) :
    branches (asRadix16L s).trace = [] ∧
    (asRadix16L s).trace.filter (fun e => match e with | .loopLen _ => true | _ => false) = [.loopLen 32, .loopLen 63] := by
  rw [asRadix16L_trace]; decide

/-- the instrumented model computes the existing recoding model (whose correspondence run therefore covers it) -/
theorem as_radix_16_value_eq_model (s : List UInt8) (h : s.length = 32) :
    (asRadix16L s).value = Dalek.Model.Recode.asRadix16 s := asRadix16L_value' s h

/-- **`Scalar::as_radix_2w`**: for equal (public) `w` the trace does not depend on the scalar.  Its branches are on
`w` and on the loop counter only. -/
theorem as_radix_2w_noninterference (w₁ w₂ : Nat) (hw : w₁ = w₂) (s₁ s₂ : List UInt8) :
    (asRadix2wL s₁ w₁).trace = (asRadix2wL s₂ w₂).trace := by
  subst hw; simp

theorem as_radix_2w_value_eq_model (s : List UInt8) (w : Nat) (h : s.length = 32) :
    (asRadix2wL s w).value = Dalek.Model.Recode.asRadix2w s w := asRadix2wL_value' s w h

/-- the public parameter does matter (the hypothesis `w₁ = w₂` is not decorative) -/
example : (asRadix2wL [] 5).trace ≠ (asRadix2wL [] 8).trace := by
  rw [asRadix2wL_trace, asRadix2wL_trace]; decide

theorem non_adjacent_form_value_eq_model (s : List UInt8) (w : Nat) (h : s.length = 32) :
    (nonAdjacentFormL s w).value = Dalek.Model.Recode.nonAdjacentForm s w := by
  rw [nonAdjacentFormL_value, arr_eq _ _ _ h]

/-- CONTRAST (non-vacuity): `Scalar::non_adjacent_form` is VARIABLE TIME — the scalars 0 and 1 give different
traces (already the first parity test `window & 1 == 0` differs). -/
example : (nonAdjacentFormL (List.replicate 32 0) 5).trace ≠ (nonAdjacentFormL (1 :: List.replicate 31 0) 5).trace := by
  decide +kernel

/-! ### Edwards scalar multiplication -/

section serial
variable {E C J N : Type} (ops : SerialOps E C J N)

/-- **serial `variable_base::mul`**: 64 × (`select` + add); the trace depends neither on the scalar nor on the point. -/
theorem variable_base_mul_serial_noninterference (P₁ P₂ : E) (s₁ s₂ : List UInt8) :
    (variableBaseMulSerialL ops P₁ s₁).trace = (variableBaseMulSerialL ops P₂ s₂).trace := by
  simp

/-- **serial constant-time `Straus::multiscalar_mul`**: the trace depends only on the NUMBER of scalars and points. -/
theorem straus_serial_noninterference (ss₁ ss₂ : List (List UInt8)) (Ps₁ Ps₂ : List E)
    (hs : ss₁.length = ss₂.length) (hp : Ps₁.length = Ps₂.length) :
    (strausSerialL ops ss₁ Ps₁).trace = (strausSerialL ops ss₂ Ps₂).trace := by
  simp [hs, hp]

/-- **`EdwardsBasepointTable*::mul_base`** (radix `2^radix`, `adds` additions; 4 / 64 for the default table): the
trace depends only on the public table parameters. -/
theorem mul_base_noninterference (radix adds : Nat) (tables₁ tables₂ : List (List N)) (s₁ s₂ : List UInt8) :
    (mulBaseL ops radix adds tables₁ s₁).trace = (mulBaseL ops radix adds tables₂ s₂).trace := by
  simp

/-- in `mul_base` (default radix-16 table) the ONLY jump is the public test `w == 4` of `as_radix_2w`, and every
memory offset (table row `i / 2`, digit `a[i]`, `select`'s scan) is below 64: loop counters, never a digit -/
theorem mul_base_only_public_branch :
    branches (mulBaseTrace 4 64) = [true] ∧ (indices (mulBaseTrace 4 64)).all (· < 64) = true := by
  decide +kernel

end serial

section vector
variable {E X Cch : Type} (ops : VectorOps E X Cch)

/-- **vector `variable_base::mul`** (AVX2 / IFMA; the SIMD formulas are `assumed` callees) -/
theorem variable_base_mul_vector_noninterference (P₁ P₂ : E) (s₁ s₂ : List UInt8) :
    (variableBaseMulVectorL ops P₁ s₁).trace = (variableBaseMulVectorL ops P₂ s₂).trace := by
  simp

/-- **vector constant-time `Straus::multiscalar_mul`** -/
theorem straus_vector_noninterference (ss₁ ss₂ : List (List UInt8)) (Ps₁ Ps₂ : List E)
    (hs : ss₁.length = ss₂.length) (hp : Ps₁.length = Ps₂.length) :
    (strausVectorL ops ss₁ Ps₁).trace = (strausVectorL ops ss₂ Ps₂).trace := by
  simp [hs, hp]

end vector

/-- the hypotheses of the Straus theorems are satisfiable, and the number of points DOES show in the trace -/
example : ([[1], [2]] : List (List UInt8)).length = [[3], [4]].length := rfl
example : strausVectorTrace 1 1 ≠ strausVectorTrace 2 2 := by decide

/-! ### the Montgomery ladder and X25519 -/

section ladder
variable {V : Type} (o : FOps V)

/-- **`MontgomeryPoint::mul_bits_be`**: conditional SWAPS, no jump; the trace depends only on the NUMBER of bits
(and neither on the bits nor on the `u`-coordinate). -/
theorem mul_bits_be_noninterference (u₁ u₂ : V) (bits₁ bits₂ : List Bool) (h : bits₁.length = bits₂.length) :
    (mulBitsBEL o u₁ bits₁).trace = (mulBitsBEL o u₂ bits₂).trace := by
  simp [h]

theorem mul_bits_be_value_eq_model (u : V) (bits : List Bool) :
    (mulBitsBEL o u bits).value = Dalek.Model.Ladder.mulBitsBE o u bits := mulBitsBEL_value o u bits

/-- the ladder never jumps and never indexes memory with a computed offset -/
theorem ladder_branch_free : branches (ladderTrace 255) = [] ∧ indices (ladderTrace 255) = [] := by
  decide +kernel

variable (fb : FeBytes V)

/-- **`x25519(k, u)`** / `mul_clamped`: independent of the secret scalar `k` AND of `u`. -/
theorem x25519_noninterference (k₁ k₂ u₁ u₂ : List UInt8) :
    (x25519L o fb k₁ u₁).trace = (x25519L o fb k₂ u₂).trace := by
  simp

/-- **`{Ephemeral,Reusable,Static}Secret::diffie_hellman`** -/
theorem diffie_hellman_noninterference (sk₁ sk₂ pk₁ pk₂ : List UInt8) :
    (diffieHellmanL o fb sk₁ pk₁).trace = (diffieHellmanL o fb sk₂ pk₂).trace := by
  simp

end ladder

theorem x25519_value_eq_model (k u : List UInt8) (hk : k.length = 32) :
    (x25519L Dalek.Model.natOps ⟨Dalek.Spec.feFromBytes, Dalek.Spec.feToBytes⟩ k u).value
      = Dalek.Model.Ladder.dalekX25519 k u := x25519L_value k u hk

/-- the number of bits is public and DOES show in the trace (the hypothesis of `mul_bits_be_noninterference`) -/
example : ladderTrace 1 ≠ ladderTrace 2 := by decide +kernel

/-! ### batch inversion -/

/-- **`Scalar::batch_invert`** (on the translated `Scalar52` kernels): the trace depends only on the number of
scalars. -/
theorem scalar_batch_invert_noninterference (xs₁ xs₂ : List (List Nat)) (h : xs₁.length = xs₂.length) :
    (scalarBatchInvertL xs₁).trace = (scalarBatchInvertL xs₂).trace := by
  simp [h]

section febatch
variable {V : Type} (o : FOps V) (truthy : V → Bool)

/-- **`FieldElement::batch_invert`**, general form: the zero-skipping is a `csel` (no event depends on which inputs
are zero); the ONLY data-dependent jump is `assert!(!acc.is_zero())`.  For inputs of equal number whose assertion
outcome agrees, the traces agree. -/
theorem field_batch_invert_noninterference_partial (xs₁ xs₂ : List V) (h : xs₁.length = xs₂.length)
    (hassert : feAssertOk o truthy xs₁ = feAssertOk o truthy xs₂) :
    (feBatchInvertL o truthy xs₁).trace = (feBatchInvertL o truthy xs₂).trace := by
  rw [feBatchInvertL_trace, feBatchInvertL_trace, h, hassert]

/-- **`FieldElement::batch_invert`** for an interpretation that satisfies the field laws (`csel` selects, `cnot`
negates, `1 ≠ 0`, no zero divisors): the assertion never fires, so the trace depends only on the number of inputs —
in particular NOT on which inputs are zero. -/
theorem field_batch_invert_noninterference (laws : FieldLaws o truthy) (xs₁ xs₂ : List V)
    (h : xs₁.length = xs₂.length) :
    (feBatchInvertL o truthy xs₁).trace = (feBatchInvertL o truthy xs₂).trace :=
  field_batch_invert_noninterference_partial o truthy xs₁ xs₂ h
    (by rw [feAssertOk_of_laws o truthy laws, feAssertOk_of_laws o truthy laws])

end febatch

/-- the executable interpretation (`ℕ mod 2^255 − 19`) satisfies the laws: the hypothesis is satisfiable by the
instance that the correspondence run executes -/
theorem natOps_fieldLaws : FieldLaws Dalek.Model.natOps (fun c => c != 0) where
  csel := by
    intro c a b
    by_cases h : c = 0 <;> simp [Dalek.Model.natOps, h]
  cnot := by
    intro c
    by_cases h : c = 0 <;> simp [Dalek.Model.natOps, Dalek.Model.b2n, h]
  one_ne_zero := by decide +kernel
  mul_ne_zero := by
    intro a b ha hb
    have hp : Nat.Prime Dalek.Spec.P := Dalek.Primes.prime_p
    by_cases ha0 : a % Dalek.Spec.P = 0
    · simp [Dalek.Model.natOps, Dalek.Model.b2n, ha0] at ha
    by_cases hb0 : b % Dalek.Spec.P = 0
    · simp [Dalek.Model.natOps, Dalek.Model.b2n, hb0] at hb
    have hab : ¬ (Dalek.Spec.fmul a b) % Dalek.Spec.P = 0 := by
      unfold Dalek.Spec.fmul
      rw [Nat.mod_mod]
      intro h
      rcases (Nat.Prime.dvd_mul hp).mp (Nat.dvd_of_mod_eq_zero h) with h1 | h1
      · exact ha0 (Nat.mod_eq_zero_of_dvd h1)
      · exact hb0 (Nat.mod_eq_zero_of_dvd h1)
    simp [Dalek.Model.natOps, Dalek.Model.b2n, hab]

theorem field_batch_invert_noninterference_nat (xs₁ xs₂ : List Nat) (h : xs₁.length = xs₂.length) :
    (feBatchInvertL Dalek.Model.natOps (fun c => c != 0) xs₁).trace
      = (feBatchInvertL Dalek.Model.natOps (fun c => c != 0) xs₂).trace :=
  field_batch_invert_noninterference _ _ natOps_fieldLaws xs₁ xs₂ h

/-- zero and nonzero inputs give the same trace (the case the `conditional_assign` exists for) -/
example : (feBatchInvertL Dalek.Model.natOps (fun c => c != 0) [0, 5]).trace
    = (feBatchInvertL Dalek.Model.natOps (fun c => c != 0) [3, 0]).trace :=
  field_batch_invert_noninterference_nat _ _ rfl

/-! ### Ed25519 key derivation and signing, X25519 public key -/

section ed25519
variable {E C J N : Type} (ops : SerialOps E C J N) (hash : List UInt8 → List UInt8)
  (tables : List (List N)) (compress : E → List UInt8)

/-- **Ed25519 key derivation** (`ExpandedSecretKey::from(&seed)`, `VerifyingKey::from(&esk)`): independent of the
seed.  ASSUMPTION inside the model: SHA-512 leaks only the length (32) of its input. -/
theorem ed25519_keygen_noninterference (seed₁ seed₂ : List UInt8) :
    (keygenL ops hash tables compress seed₁).trace = (keygenL ops hash tables compress seed₂).trace := by
  simp

/-- **`raw_sign`**: for the same public message and verifying key (lengths suffice), the trace does not depend on the
secret scalar nor on the secret `hash_prefix` (nor on the nonce `r` derived from them).
ASSUMPTION inside the model: SHA-512 leaks only the length of its input. -/
theorem raw_sign_noninterference (scalar₁ scalar₂ : List Nat) (prefix₁ prefix₂ : List UInt8)
    (msg₁ msg₂ vk₁ vk₂ : List UInt8) (hm : msg₁.length = msg₂.length) (hv : vk₁.length = vk₂.length) :
    (rawSignL ops hash tables compress scalar₁ prefix₁ msg₁ vk₁).trace
      = (rawSignL ops hash tables compress scalar₂ prefix₂ msg₂ vk₂).trace := by
  simp [hm, hv]

/-- **`raw_sign_prehashed`**: the single jump (`ctx.len() > 255`) is on the public context. -/
theorem raw_sign_prehashed_noninterference (scalar₁ scalar₂ : List Nat) (prefix₁ prefix₂ : List UInt8)
    (ph₁ ph₂ vk : List UInt8) (ctx : Option (List UInt8)) :
    (rawSignPrehashedL ops hash tables compress scalar₁ prefix₁ ph₁ vk ctx).trace
      = (rawSignPrehashedL ops hash tables compress scalar₂ prefix₂ ph₂ vk ctx).trace := by
  simp

/-- **x25519-dalek `PublicKey::from(&secret)`** (`mul_base_clamped` + `to_montgomery`) -/
theorem x25519_public_key_noninterference (toMont : E → List UInt8) (sk₁ sk₂ : List UInt8) :
    (x25519PublicKeyL ops tables toMont sk₁).trace = (x25519PublicKeyL ops tables toMont sk₂).trace := by
  simp

end ed25519

/-- the message length is public and DOES show in the trace -/
example : signCoreTrace 0 3 32 ≠ signCoreTrace 0 4 32 := by decide +kernel

/-! ### bookkeeping: every `call` event is accounted for in `callees` -/

theorem calls_accounted :
    callsAccounted vbSerialTrace = true ∧ callsAccounted vbVectorTrace = true ∧
    callsAccounted (strausSerialTrace 2 2) = true ∧ callsAccounted (strausVectorTrace 2 2) = true ∧
    callsAccounted (mulBaseTrace 4 64) = true ∧ callsAccounted (mulBaseTrace 8 33) = true ∧
    callsAccounted x25519Trace = true ∧ callsAccounted x25519PublicKeyTrace = true ∧
    callsAccounted keygenTrace = true ∧ callsAccounted (signCoreTrace 0 3 32) = true ∧
    callsAccounted (feBatchInvertTrace 2 true) = true := by
  decide +kernel

/-- `Scalar::batch_invert`, for EVERY number of inputs: besides the translated `Scalar52` kernels it only calls the
two vector housekeeping routines, both listed in `callees` -/
theorem scalar_batch_invert_calls_accounted (n : Nat) : callsAccounted (scalarBatchInvertTrace n) = true := by
  unfold callsAccounted
  rw [scalarBatchInvert_callNames]
  decide

end Dalek.Props.C10

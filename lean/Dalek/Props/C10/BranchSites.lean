import Dalek.Gen.BranchInventory
import Dalek.Model.BranchTable
import Dalek.Model.Secrets

/-!
# C10 — no secret-dependent control flow: every branch site of the constant-time code is classified

The leak models of C10 are written by hand, so a source change that introduces a branch on secret data while
keeping the function's value the same (`conditional_assign(.., c)` ↦ `if bool::from(c) { .. }`) is invisible to
them.  This file is the **syntactic guard**, regenerated from the source on every run:

* `Dalek.Gen.BranchInventory.branchSites` — every control-flow construct and data-to-control conversion in the
  functions of the constant-time scope (see `Dalek/Model/BranchTable.lean` for kinds and scope);
* `Dalek.Model.BranchTable.table` — the hand-written, reviewed classification of each of them.

Theorems: `all_branch_sites_classified` (a NEW `if` / `match` / `bool::from` / `.unwrap_u8()` / data-dependent
index / non-literal loop bound … in a constant-time function breaks the build until it is classified),
`no_secret_dependent_site`, `no_stale_entries` (the table is exactly in sync with the source),
`excluded_fns_as_reviewed` (the generator skipped exactly the reviewed variable-time / formatting / serde
functions), `ct_fns_in_scope` (every function on the constant-time call paths was scanned).

What this does **not** prove: the reasons are prose; the inventory is syntactic (no types, no call graph, no view
of the generated machine code).  It complements, and does not replace, the leak-model theorems and the run-time
trace comparison of C10.
-/

namespace Dalek.Props.C10

open Dalek.Gen.BranchInventory Dalek.Model.BranchTable

/-- **Every branch site of the constant-time scope has a reviewed classification.** -/
theorem all_branch_sites_classified : ∀ s ∈ branchSites, (lookup s).isSome = true := by
  decide +kernel

/-- **No site is classified as secret-dependent.** -/
theorem no_secret_dependent_site :
    ∀ s ∈ branchSites, ∀ c, lookup s = some c → c.isSecretDependent = false := by
  decide +kernel

/-- **The table is exactly in sync with the source**: every entry corresponds to sites that exist, with exactly
the reviewed number of occurrences. -/
theorem no_stale_entries :
    ∀ e ∈ table, (branchSites.filter fun s => s.key == e.key).length = e.count := by
  decide +kernel

/-- The generator excluded exactly the reviewed functions (and found every file of its scope). -/
theorem excluded_fns_as_reviewed :
    branchExcludedFns = excludedFnsExpected ∧ branchScopeErrors = [] := by
  decide +kernel

/-- Functions named by property C10 in addition to the call-path list `Dalek.Model.Secrets.ctPathFns`. -/
def ctExtraFns : List (String × String) := [
  ("curve25519-dalek/src/field.rs", "FieldElement::batch_invert"),
  ("curve25519-dalek/src/field.rs", "FieldElement::sqrt_ratio_i"),
  ("curve25519-dalek/src/field.rs", "FieldElement::invsqrt"),
  ("curve25519-dalek/src/field.rs", "FieldElement::invert"),
  ("curve25519-dalek/src/field.rs", "FieldElement::pow22501"),
  ("curve25519-dalek/src/field.rs", "FieldElement::pow_p58"),
  ("curve25519-dalek/src/field.rs", "FieldElement::is_negative"),
  ("curve25519-dalek/src/field.rs", "FieldElement::is_zero"),
  ("curve25519-dalek/src/field.rs", "<FieldElement as ConstantTimeEq>::ct_eq"),
  ("curve25519-dalek/src/montgomery.rs", "differential_add_and_double"),
  ("curve25519-dalek/src/montgomery.rs", "ProjectivePoint::as_affine"),
  ("curve25519-dalek/src/montgomery.rs", "elligator_encode"),
  ("curve25519-dalek/src/montgomery.rs", "<MontgomeryPoint as ConstantTimeEq>::ct_eq"),
  ("curve25519-dalek/src/montgomery.rs", "<MontgomeryPoint as ConditionallySelectable>::conditional_select"),
  ("curve25519-dalek/src/montgomery.rs", "<ProjectivePoint as ConditionallySelectable>::conditional_select"),
  ("curve25519-dalek/src/ristretto.rs", "<RistrettoPoint as ConstantTimeEq>::ct_eq"),
  ("curve25519-dalek/src/ristretto.rs", "<CompressedRistretto as ConstantTimeEq>::ct_eq"),
  ("curve25519-dalek/src/ristretto.rs", "<RistrettoPoint as ConditionallySelectable>::conditional_select"),
  ("curve25519-dalek/src/edwards.rs", "<EdwardsPoint as ConstantTimeEq>::ct_eq"),
  ("curve25519-dalek/src/edwards.rs", "<CompressedEdwardsY as ConstantTimeEq>::ct_eq"),
  ("curve25519-dalek/src/edwards.rs", "<EdwardsPoint as ConditionallySelectable>::conditional_select"),
  ("curve25519-dalek/src/edwards.rs", "EdwardsPoint::double"),
  ("curve25519-dalek/src/scalar.rs", "Scalar::reduce"),
  ("curve25519-dalek/src/scalar.rs", "Scalar::unpack"),
  ("curve25519-dalek/src/scalar.rs", "UnpackedScalar::pack"),
  ("curve25519-dalek/src/scalar.rs", "<Scalar as ConstantTimeEq>::ct_eq"),
  ("curve25519-dalek/src/scalar.rs", "<Scalar as ConditionallySelectable>::conditional_select"),
  ("curve25519-dalek/src/scalar.rs", "Scalar::from_canonical_bytes"),
  ("curve25519-dalek/src/scalar.rs", "Scalar::is_canonical"),
  ("curve25519-dalek/src/backend/serial/u64/scalar.rs", "Scalar52::sub"),
  ("curve25519-dalek/src/backend/serial/u64/scalar.rs", "Scalar52::montgomery_reduce"),
  ("curve25519-dalek/src/backend/serial/u32/scalar.rs", "Scalar29::sub"),
  ("curve25519-dalek/src/backend/serial/u64/field.rs", "FieldElement51::pow2k"),
  ("curve25519-dalek/src/backend/serial/u32/field.rs", "FieldElement2625::pow2k")]

/-- Every function on the constant-time call paths (the C14 list plus `ctExtraFns`) was scanned by the
branch-site inventory — it was neither excluded nor renamed away. -/
theorem ct_fns_in_scope :
    ∀ f ∈ Dalek.Model.Secrets.ctPathFns ++ ctExtraFns, ∃ p ∈ branchScannedFns, p.1 = f.1 ∧ f.2 ∈ p.2 := by
  decide +kernel

/-- The statements are not vacuous, and `lookup` fails for an unknown site. -/
example : 0 < branchSites.length ∧
    lookupKey (bsitekey% "curve25519-dalek/src/field.rs" "FieldElement::batch_invert" "if"
      "!bool::from(input.is_zero())") 0 = none := by
  decide +kernel

/-! ## Evidence -/

/-- `(site, class: reason)` for every site, in source order -/
def branchReport : List (String × String) :=
  branchSites.map fun s =>
    (s.file ++ ":" ++ toString s.line ++ " " ++ s.func ++ " [" ++ s.kind ++ "] " ++ s.text,
     match lookup s with
     | some c => c.className ++ ": " ++ c.reason
     | none => "UNCLASSIFIED")

/-- number of sites per class -/
def branchClassCounts : List (String × Nat) :=
  let classes := ["publicLoopCounter", "publicLength", "publicParameter", "debugAssertOnly", "dataOnly",
    "declassifiedResult", "constantOutcome", "rejectionSampling", "documentedVartimeCaller", "secretDependent",
    "UNCLASSIFIED"]
  classes.map fun c =>
    (c, (branchSites.filter fun s =>
      (match lookup s with | some d => d.className | none => "UNCLASSIFIED") == c).length)

end Dalek.Props.C10

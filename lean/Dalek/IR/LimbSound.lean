import Dalek.IR.Limb
/-!
Soundness of the analyser / normaliser `Prog.norm` of `Dalek.IR.Limb`.
Main theorem: `Prog.norm_sound`.
-/
namespace Dalek.IR

def toZ (env : List Nat) : List Int := env.map Int.ofNat

/-! ### arithmetic helper lemmas -/

theorem tzOf_dvd : ∀ (fuel n : Nat), 2 ^ tzOf fuel n ∣ n
  | 0, n => by simp [tzOf]
  | fuel + 1, n => by
    unfold tzOf
    split
    · rename_i h
      have ih := tzOf_dvd fuel (n / 2)
      obtain ⟨m, hm⟩ := ih
      refine ⟨m, ?_⟩
      rw [Nat.pow_succ, Nat.mul_right_comm, ← hm]; omega
    · simp

theorem pow_min_dvd_l {a b x : Nat} (h : 2 ^ a ∣ x) : 2 ^ min a b ∣ x :=
  Nat.dvd_trans (Nat.pow_dvd_pow 2 (Nat.min_le_left a b)) h
theorem pow_min_dvd_r {a b x : Nat} (h : 2 ^ b ∣ x) : 2 ^ min a b ∣ x :=
  Nat.dvd_trans (Nat.pow_dvd_pow 2 (Nat.min_le_right a b)) h

theorem pow_min_dvd_mod {k w x : Nat} (h : 2 ^ k ∣ x) : 2 ^ min k w ∣ x % 2 ^ w :=
  (Nat.dvd_mod_iff (Nat.pow_dvd_pow 2 (Nat.min_le_right k w))).2 (pow_min_dvd_l h)

theorem le_pow_sub_one_of_mod (x w : Nat) : x % 2 ^ w ≤ 2 ^ w - 1 := by
  have : x % 2 ^ w < 2 ^ w := Nat.mod_lt _ (Nat.two_pow_pos w)
  omega

theorem shr_dvd {t k x : Nat} (h : 2 ^ t ∣ x) : 2 ^ (t - k) ∣ x / 2 ^ k := by
  by_cases hk : k ≤ t
  · obtain ⟨m, rfl⟩ := h
    have : 2 ^ t = 2 ^ k * 2 ^ (t - k) := by rw [← Nat.pow_add]; congr 1; omega
    rw [this, Nat.mul_assoc, Nat.mul_div_cancel_left _ (Nat.two_pow_pos k)]
    exact Nat.dvd_mul_right _ _
  · have : t - k = 0 := by omega
    rw [this]; exact Nat.one_dvd _

/-- value of the wrapping subtraction when there is no underflow -/
theorem wsub_noflow {x y w : Nat} (hyx : y ≤ x) (hx : x < 2 ^ w) :
    (x + (2 ^ w - y % 2 ^ w)) % 2 ^ w = x - y := by
  have hy : y % 2 ^ w = y := Nat.mod_eq_of_lt (by omega)
  rw [hy]
  have : x + (2 ^ w - y) = (x - y) + 2 ^ w := by omega
  rw [this, Nat.add_mod_right, Nat.mod_eq_of_lt (by omega)]

/-- value of the wrapping subtraction over `Int` -/
theorem wsub_int (x y w : Nat) :
    (((x + (2 ^ w - y % 2 ^ w)) % 2 ^ w : Nat) : Int) = ((x : Int) - (y : Int)) % 2 ^ w := by
  have hP : 0 < 2 ^ w := Nat.two_pow_pos w
  have h2 : (2 : Int) ^ w = ((2 ^ w : Nat) : Int) := by simp
  rw [h2]
  generalize 2 ^ w = P at *
  have hr : y % P ≤ P := Nat.le_of_lt (Nat.mod_lt _ hP)
  have hy : (y : Int) = (P : Int) * ((y / P : Nat) : Int) + ((y % P : Nat) : Int) := by
    rw [← Int.natCast_mul, ← Int.natCast_add, Nat.div_add_mod]
  rw [Int.natCast_emod, Int.natCast_add, Int.ofNat_sub hr]
  have : (x : Int) + ((P : Int) - ((y % P : Nat) : Int))
      = ((x : Int) - (y : Int)) + (P : Int) * (1 + ((y / P : Nat) : Int)) := by
    rw [hy]; simp only [Int.mul_add, Int.mul_one]; omega
  rw [this, Int.add_mul_emod_self_left]

theorem wsub_dvd {k w x y : Nat} (hx : 2 ^ k ∣ x) (hy : 2 ^ k ∣ y) :
    2 ^ min k w ∣ (x + (2 ^ w - y % 2 ^ w)) % 2 ^ w := by
  have hkw : 2 ^ min k w ∣ 2 ^ w := Nat.pow_dvd_pow 2 (Nat.min_le_right k w)
  refine (Nat.dvd_mod_iff hkw).2 ?_
  refine Nat.dvd_add (pow_min_dvd_l hx) (Nat.dvd_sub hkw ?_)
  exact (Nat.dvd_mod_iff hkw).2 (pow_min_dvd_l hy)

theorem isMask_eq {m k : Nat} (h : isMask m = some k) : m = 2 ^ k - 1 := by
  unfold isMask at h
  simp only at h
  split at h
  · rename_i h2; simp only [Option.some.injEq] at h; subst h; omega
  · simp at h

theorem le_bitCeil_or {x y a b : Nat} (hx : x ≤ a) (hy : y ≤ b) : x ||| y ≤ bitCeil (max a b) := by
  have hm : max a b < 2 ^ ((max a b).log2 + 1) := Nat.lt_log2_self
  have : x ||| y < 2 ^ ((max a b).log2 + 1) :=
    Nat.or_lt_two_pow (by omega) (by omega)
  unfold bitCeil; omega

theorem le_bitCeil_xor {x y a b : Nat} (hx : x ≤ a) (hy : y ≤ b) : x ^^^ y ≤ bitCeil (max a b) := by
  have hm : max a b < 2 ^ ((max a b).log2 + 1) := Nat.lt_log2_self
  have : x ^^^ y < 2 ^ ((max a b).log2 + 1) :=
    Nat.xor_lt_two_pow (by omega) (by omega)
  unfold bitCeil; omega

theorem or_eq_add_of_lt {x y t : Nat} (hx : x < 2 ^ t) (hy : 2 ^ t ∣ y) : x ||| y = x + y := by
  obtain ⟨m, rfl⟩ := hy
  rw [Nat.or_comm, Nat.add_comm, Nat.two_pow_add_eq_or_of_lt hx]


/-! ### environments -/

theorem EnvIn_length : ∀ {env : List Nat} {ienv : List Itv}, EnvIn env ienv → env.length = ienv.length
  | [], [], _ => rfl
  | _ :: _, _ :: _, h => by
      simp only [EnvIn] at h
      simp [EnvIn_length h.2]
  | [], _ :: _, h => by simp [EnvIn] at h
  | _ :: _, [], h => by simp [EnvIn] at h

theorem EnvIn_get : ∀ {env : List Nat} {ienv : List Itv}, EnvIn env ienv → ∀ {i : Nat} {t : Itv},
    ienv[i]? = some t → ∃ x, env[i]? = some x ∧ t.mem x
  | [], [], _, i, t, ht => by simp at ht
  | x :: xs, s :: ss, h, 0, t, ht => by
      simp only [EnvIn] at h
      simp only [List.getElem?_cons_zero, Option.some.injEq] at ht
      subst ht
      exact ⟨x, by simp, h.1⟩
  | x :: xs, s :: ss, h, i + 1, t, ht => by
      simp only [EnvIn] at h
      simp only [List.getElem?_cons_succ] at ht ⊢
      exact EnvIn_get h.2 ht
  | [], _ :: _, h, _, _, _ => by simp [EnvIn] at h
  | _ :: _, [], h, _, _, _ => by simp [EnvIn] at h

theorem EnvIn_snoc : ∀ {env : List Nat} {ienv : List Itv} {x : Nat} {t : Itv},
    EnvIn env ienv → t.mem x → EnvIn (env ++ [x]) (ienv ++ [t])
  | [], [], x, t, _, hx => by simp [EnvIn, hx]
  | _ :: _, _ :: _, x, t, h, hx => by
      simp only [EnvIn] at h
      simp only [List.cons_append, EnvIn]
      exact ⟨h.1, EnvIn_snoc h.2 hx⟩
  | [], _ :: _, _, _, h, _ => by simp [EnvIn] at h
  | _ :: _, [], _, _, h, _ => by simp [EnvIn] at h

theorem Itv.mem_of_le {s t : Itv} {x : Nat} (hle : s.le t = true) (h : s.mem x) : t.mem x := by
  simp only [Itv.le, Bool.and_eq_true, decide_eq_true_eq] at hle
  obtain ⟨⟨h1, h2⟩, h3⟩ := hle
  obtain ⟨m1, m2, m3⟩ := h
  exact ⟨by omega, by omega, Nat.dvd_trans (Nat.pow_dvd_pow 2 h3) m3⟩

theorem EnvIn_of_itvsLe : ∀ {xs : List Nat} {s t : List Itv}, EnvIn xs s → itvsLe s t = true → EnvIn xs t
  | [], [], [], _, _ => by simp [EnvIn]
  | x :: xs, a :: s, b :: t, h, hle => by
      simp only [EnvIn] at h ⊢
      simp only [itvsLe, Bool.and_eq_true] at hle
      exact ⟨Itv.mem_of_le hle.1 h.1, EnvIn_of_itvsLe h.2 hle.2⟩
  | [], [], _ :: _, _, hle => by simp [itvsLe] at hle
  | _, _ :: _, [], _, hle => by simp [itvsLe] at hle
  | [], _ :: _, _, h, _ => by simp [EnvIn] at h
  | _ :: _, [], _, h, _ => by simp [EnvIn] at h

theorem toZ_getD (env : List Nat) (i : Nat) : (toZ env).getD i 0 = ((env.getD i 0 : Nat) : Int) := by
  simp only [toZ, List.getD_eq_getElem?_getD, List.getElem?_map]
  cases env[i]? <;> simp

theorem toZ_snoc (env : List Nat) (x : Nat) : toZ (env ++ [x]) = toZ env ++ [(x : Int)] := by
  simp [toZ]

end Dalek.IR

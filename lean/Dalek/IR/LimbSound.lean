import Dalek.IR.Limb
/-!
Soundness of the analyser / normaliser `Prog.norm` of `Dalek.IR.Limb`.
Main theorem: `Prog.norm_sound`.
-/
namespace Dalek.IR

def toZ (env : List Nat) : List Int := env.map Int.ofNat

/-! ### arithmetic helper lemmas -/

theorem tzOf_dvd : ∀ (fuel n : Nat), 2 ^ tzOf fuel n ∣ n
  | 0, n => by simp [tzOf]
  | fuel + 1, n => by
    unfold tzOf
    split
    · rename_i h
      have ih := tzOf_dvd fuel (n / 2)
      obtain ⟨m, hm⟩ := ih
      refine ⟨m, ?_⟩
      rw [Nat.pow_succ, Nat.mul_right_comm, ← hm]; omega
    · simp

theorem pow_min_dvd_l {a b x : Nat} (h : 2 ^ a ∣ x) : 2 ^ min a b ∣ x :=
  Nat.dvd_trans (Nat.pow_dvd_pow 2 (Nat.min_le_left a b)) h
theorem pow_min_dvd_r {a b x : Nat} (h : 2 ^ b ∣ x) : 2 ^ min a b ∣ x :=
  Nat.dvd_trans (Nat.pow_dvd_pow 2 (Nat.min_le_right a b)) h

theorem pow_min_dvd_mod {k w x : Nat} (h : 2 ^ k ∣ x) : 2 ^ min k w ∣ x % 2 ^ w :=
  (Nat.dvd_mod_iff (Nat.pow_dvd_pow 2 (Nat.min_le_right k w))).2 (pow_min_dvd_l h)

theorem le_pow_sub_one_of_mod (x w : Nat) : x % 2 ^ w ≤ 2 ^ w - 1 := by
  have : x % 2 ^ w < 2 ^ w := Nat.mod_lt _ (Nat.two_pow_pos w)
  omega

theorem shr_dvd {t k x : Nat} (h : 2 ^ t ∣ x) : 2 ^ (t - k) ∣ x / 2 ^ k := by
  by_cases hk : k ≤ t
  · obtain ⟨m, rfl⟩ := h
    have : 2 ^ t = 2 ^ k * 2 ^ (t - k) := by rw [← Nat.pow_add]; congr 1; omega
    rw [this, Nat.mul_assoc, Nat.mul_div_cancel_left _ (Nat.two_pow_pos k)]
    exact Nat.dvd_mul_right _ _
  · have : t - k = 0 := by omega
    rw [this]; exact Nat.one_dvd _

/-- value of the wrapping subtraction when there is no underflow -/
theorem wsub_noflow {x y w : Nat} (hyx : y ≤ x) (hx : x < 2 ^ w) :
    (x + (2 ^ w - y % 2 ^ w)) % 2 ^ w = x - y := by
  have hy : y % 2 ^ w = y := Nat.mod_eq_of_lt (by omega)
  rw [hy]
  have : x + (2 ^ w - y) = (x - y) + 2 ^ w := by omega
  rw [this, Nat.add_mod_right, Nat.mod_eq_of_lt (by omega)]

/-- value of the wrapping subtraction over `Int` -/
theorem wsub_int (x y w : Nat) :
    (((x + (2 ^ w - y % 2 ^ w)) % 2 ^ w : Nat) : Int) = ((x : Int) - (y : Int)) % 2 ^ w := by
  have hP : 0 < 2 ^ w := Nat.two_pow_pos w
  have h2 : (2 : Int) ^ w = ((2 ^ w : Nat) : Int) := by simp
  rw [h2]
  generalize 2 ^ w = P at *
  have hr : y % P ≤ P := Nat.le_of_lt (Nat.mod_lt _ hP)
  have hy : (y : Int) = (P : Int) * ((y / P : Nat) : Int) + ((y % P : Nat) : Int) := by
    rw [← Int.natCast_mul, ← Int.natCast_add, Nat.div_add_mod]
  rw [Int.natCast_emod, Int.natCast_add, Int.ofNat_sub hr]
  have : (x : Int) + ((P : Int) - ((y % P : Nat) : Int))
      = ((x : Int) - (y : Int)) + (P : Int) * (1 + ((y / P : Nat) : Int)) := by
    rw [hy]; simp only [Int.mul_add, Int.mul_one]; omega
  rw [this, Int.add_mul_emod_self_left]

theorem wsub_dvd {k w x y : Nat} (hx : 2 ^ k ∣ x) (hy : 2 ^ k ∣ y) :
    2 ^ min k w ∣ (x + (2 ^ w - y % 2 ^ w)) % 2 ^ w := by
  have hkw : 2 ^ min k w ∣ 2 ^ w := Nat.pow_dvd_pow 2 (Nat.min_le_right k w)
  refine (Nat.dvd_mod_iff hkw).2 ?_
  refine Nat.dvd_add (pow_min_dvd_l hx) (Nat.dvd_sub hkw ?_)
  exact (Nat.dvd_mod_iff hkw).2 (pow_min_dvd_l hy)

theorem isMask_eq {m k : Nat} (h : isMask m = some k) : m = 2 ^ k - 1 := by
  unfold isMask at h
  simp only at h
  split at h
  · rename_i h2; simp only [Option.some.injEq] at h; subst h; omega
  · simp at h

theorem le_bitCeil_or {x y a b : Nat} (hx : x ≤ a) (hy : y ≤ b) : x ||| y ≤ bitCeil (max a b) := by
  have hm : max a b < 2 ^ ((max a b).log2 + 1) := Nat.lt_log2_self
  have : x ||| y < 2 ^ ((max a b).log2 + 1) :=
    Nat.or_lt_two_pow (by omega) (by omega)
  unfold bitCeil; omega

theorem le_bitCeil_xor {x y a b : Nat} (hx : x ≤ a) (hy : y ≤ b) : x ^^^ y ≤ bitCeil (max a b) := by
  have hm : max a b < 2 ^ ((max a b).log2 + 1) := Nat.lt_log2_self
  have : x ^^^ y < 2 ^ ((max a b).log2 + 1) :=
    Nat.xor_lt_two_pow (by omega) (by omega)
  unfold bitCeil; omega

theorem or_eq_add_of_lt {x y t : Nat} (hx : x < 2 ^ t) (hy : 2 ^ t ∣ y) : x ||| y = x + y := by
  obtain ⟨m, rfl⟩ := hy
  rw [Nat.or_comm, Nat.add_comm, Nat.two_pow_add_eq_or_of_lt hx]


theorem and_eq_zero_of_lt {x y t : Nat} (hx : x < 2 ^ t) (hy : 2 ^ t ∣ y) : x &&& y = 0 := by
  obtain ⟨m, rfl⟩ := hy
  apply Nat.eq_of_testBit_eq
  intro i
  rw [Nat.testBit_and, Nat.zero_testBit, Nat.testBit_two_pow_mul]
  by_cases hi : t ≤ i
  · have : x < 2 ^ i := Nat.lt_of_lt_of_le hx (Nat.pow_le_pow_right (by omega) hi)
    rw [Nat.testBit_lt_two_pow this]; rfl
  · simp [hi]

/-! ### environments -/

theorem EnvIn_length : ∀ {env : List Nat} {ienv : List Itv}, EnvIn env ienv → env.length = ienv.length
  | [], [], _ => rfl
  | _ :: _, _ :: _, h => by
      simp only [EnvIn] at h
      simp [EnvIn_length h.2]
  | [], _ :: _, h => by simp [EnvIn] at h
  | _ :: _, [], h => by simp [EnvIn] at h

theorem EnvIn_get : ∀ {env : List Nat} {ienv : List Itv}, EnvIn env ienv → ∀ {i : Nat} {t : Itv},
    ienv[i]? = some t → ∃ x, env[i]? = some x ∧ t.mem x
  | [], [], _, i, t, ht => by simp at ht
  | x :: xs, s :: ss, h, 0, t, ht => by
      simp only [EnvIn] at h
      simp only [List.getElem?_cons_zero, Option.some.injEq] at ht
      subst ht
      exact ⟨x, by simp, h.1⟩
  | x :: xs, s :: ss, h, i + 1, t, ht => by
      simp only [EnvIn] at h
      simp only [List.getElem?_cons_succ] at ht ⊢
      exact EnvIn_get h.2 ht
  | [], _ :: _, h, _, _, _ => by simp [EnvIn] at h
  | _ :: _, [], h, _, _, _ => by simp [EnvIn] at h

theorem EnvIn_snoc : ∀ {env : List Nat} {ienv : List Itv} {x : Nat} {t : Itv},
    EnvIn env ienv → t.mem x → EnvIn (env ++ [x]) (ienv ++ [t])
  | [], [], x, t, _, hx => by simp [EnvIn, hx]
  | _ :: _, _ :: _, x, t, h, hx => by
      simp only [EnvIn] at h
      simp only [List.cons_append, EnvIn]
      exact ⟨h.1, EnvIn_snoc h.2 hx⟩
  | [], _ :: _, _, _, h, _ => by simp [EnvIn] at h
  | _ :: _, [], _, _, h, _ => by simp [EnvIn] at h

theorem Itv.mem_of_le {s t : Itv} {x : Nat} (hle : s.le t = true) (h : s.mem x) : t.mem x := by
  simp only [Itv.le, Bool.and_eq_true, decide_eq_true_eq] at hle
  obtain ⟨⟨h1, h2⟩, h3⟩ := hle
  obtain ⟨m1, m2, m3⟩ := h
  exact ⟨by omega, by omega, Nat.dvd_trans (Nat.pow_dvd_pow 2 h3) m3⟩

theorem EnvIn_of_itvsLe : ∀ {xs : List Nat} {s t : List Itv}, EnvIn xs s → itvsLe s t = true → EnvIn xs t
  | [], [], [], _, _ => by simp [EnvIn]
  | x :: xs, a :: s, b :: t, h, hle => by
      simp only [EnvIn] at h ⊢
      simp only [itvsLe, Bool.and_eq_true] at hle
      exact ⟨Itv.mem_of_le hle.1 h.1, EnvIn_of_itvsLe h.2 hle.2⟩
  | [], [], _ :: _, _, hle => by simp [itvsLe] at hle
  | _, _ :: _, [], _, hle => by simp [itvsLe] at hle
  | [], _ :: _, _, h, _ => by simp [EnvIn] at h
  | _ :: _, [], _, h, _ => by simp [EnvIn] at h

theorem toZ_getD (env : List Nat) (i : Nat) : (toZ env).getD i 0 = ((env.getD i 0 : Nat) : Int) := by
  simp only [toZ, List.getD_eq_getElem?_getD, List.getElem?_map]
  cases env[i]? <;> simp

theorem toZ_snoc (env : List Nat) (x : Nat) : toZ (env ++ [x]) = toZ env ++ [(x : Int)] := by
  simp [toZ]


/-! ### expressions -/

theorem E.norm_sound {ienv : List Itv} {env : List Nat} (h : EnvIn env ienv) :
    ∀ (e : E) (t : Itv) (ne : NE), e.norm ienv = some (t, ne) →
      ∃ x, e.evalC env = some x ∧ t.mem x ∧ e.evalW env = x ∧ ne.evalZ (toZ env) = (x : Int) := by
  intro e
  induction e with
  | v i =>
    intro t ne hn
    simp only [E.norm, Option.map_eq_some_iff, Prod.mk.injEq] at hn
    obtain ⟨t', ht, rfl, rfl⟩ := hn
    obtain ⟨x, hx, hm⟩ := EnvIn_get h ht
    refine ⟨x, hx, hm, ?_, ?_⟩
    · simp [E.evalW, List.getD_eq_getElem?_getD, hx]
    · rw [NE.evalZ, toZ_getD, List.getD_eq_getElem?_getD, hx]; rfl
  | c n =>
    intro t ne hn
    simp only [E.norm, Option.some.injEq, Prod.mk.injEq] at hn
    obtain ⟨rfl, rfl⟩ := hn
    exact ⟨n, rfl, ⟨Nat.le_refl _, Nat.le_refl _, tzOf_dvd _ _⟩, rfl, rfl⟩
  | add w a b iha ihb =>
    intro t ne hn
    simp only [E.norm, Option.bind_eq_bind, Option.bind_eq_some_iff] at hn
    obtain ⟨⟨ia, na⟩, ha, ⟨ib, nb⟩, hb, hn⟩ := hn
    obtain ⟨x, hxc, ⟨hxl, hxh, hxd⟩, hxw, hxz⟩ := iha _ _ ha
    obtain ⟨y, hyc, ⟨hyl, hyh, hyd⟩, hyw, hyz⟩ := ihb _ _ hb
    simp only at hn
    split at hn
    · rename_i hlt
      simp only [Option.some.injEq, Prod.mk.injEq] at hn
      obtain ⟨rfl, rfl⟩ := hn
      have hlt' : x + y < 2 ^ w := by omega
      refine ⟨x + y, ?_, ⟨?_, ?_, ?_⟩, ?_, ?_⟩
      · simp [E.evalC, hxc, hyc, chk, hlt']
      · show ia.lo + ib.lo ≤ x + y; omega
      · show x + y ≤ ia.hi + ib.hi; omega
      · exact Nat.dvd_add (pow_min_dvd_l hxd) (pow_min_dvd_r hyd)
      · simp [E.evalW, hxw, hyw, Nat.mod_eq_of_lt hlt']
      · simp [NE.evalZ, hxz, hyz]
    · simp at hn
  | sub w a b iha ihb =>
    intro t ne hn
    simp only [E.norm, Option.bind_eq_bind, Option.bind_eq_some_iff] at hn
    obtain ⟨⟨ia, na⟩, ha, ⟨ib, nb⟩, hb, hn⟩ := hn
    obtain ⟨x, hxc, ⟨hxl, hxh, hxd⟩, hxw, hxz⟩ := iha _ _ ha
    obtain ⟨y, hyc, ⟨hyl, hyh, hyd⟩, hyw, hyz⟩ := ihb _ _ hb
    simp only at hn
    split at hn
    · rename_i hc
      simp only [Option.some.injEq, Prod.mk.injEq] at hn
      obtain ⟨rfl, rfl⟩ := hn
      have hyx : y ≤ x := by omega
      have hx2 : x < 2 ^ w := by omega
      have hlt' : x - y < 2 ^ w := by omega
      refine ⟨x - y, ?_, ⟨?_, ?_, ?_⟩, ?_, ?_⟩
      · simp [E.evalC, hxc, hyc, chk, hlt', hyx]
      · show ia.lo - ib.hi ≤ x - y; omega
      · show x - y ≤ ia.hi - ib.lo; omega
      · exact Nat.dvd_sub (pow_min_dvd_l hxd) (pow_min_dvd_r hyd)
      · simp only [E.evalW, hxw, hyw]; exact wsub_noflow hyx hx2
      · simp only [NE.evalZ, hxz, hyz]; omega
    · simp at hn
  | mul w a b iha ihb =>
    intro t ne hn
    simp only [E.norm, Option.bind_eq_bind, Option.bind_eq_some_iff] at hn
    obtain ⟨⟨ia, na⟩, ha, ⟨ib, nb⟩, hb, hn⟩ := hn
    obtain ⟨x, hxc, ⟨hxl, hxh, hxd⟩, hxw, hxz⟩ := iha _ _ ha
    obtain ⟨y, hyc, ⟨hyl, hyh, hyd⟩, hyw, hyz⟩ := ihb _ _ hb
    simp only at hn
    split at hn
    · rename_i hlt
      simp only [Option.some.injEq, Prod.mk.injEq] at hn
      obtain ⟨rfl, rfl⟩ := hn
      have hle : x * y ≤ ia.hi * ib.hi := Nat.mul_le_mul hxh hyh
      have hlt' : x * y < 2 ^ w := by omega
      refine ⟨x * y, ?_, ⟨?_, ?_, ?_⟩, ?_, ?_⟩
      · simp [E.evalC, hxc, hyc, chk, hlt']
      · exact Nat.mul_le_mul hxl hyl
      · exact hle
      · show 2 ^ (ia.tz + ib.tz) ∣ x * y
        rw [Nat.pow_add]; exact Nat.mul_dvd_mul hxd hyd
      · simp [E.evalW, hxw, hyw, Nat.mod_eq_of_lt hlt']
      · simp [NE.evalZ, hxz, hyz]
    · simp at hn
  | wadd w a b iha ihb =>
    intro t ne hn
    simp only [E.norm, Option.bind_eq_bind, Option.bind_eq_some_iff] at hn
    obtain ⟨⟨ia, na⟩, ha, ⟨ib, nb⟩, hb, hn⟩ := hn
    obtain ⟨x, hxc, ⟨hxl, hxh, hxd⟩, hxw, hxz⟩ := iha _ _ ha
    obtain ⟨y, hyc, ⟨hyl, hyh, hyd⟩, hyw, hyz⟩ := ihb _ _ hb
    simp only at hn
    split at hn
    · rename_i hlt
      simp only [Option.some.injEq, Prod.mk.injEq] at hn
      obtain ⟨rfl, rfl⟩ := hn
      have hlt' : x + y < 2 ^ w := by omega
      refine ⟨x + y, ?_, ⟨?_, ?_, ?_⟩, ?_, ?_⟩
      · simp [E.evalC, hxc, hyc, Nat.mod_eq_of_lt hlt']
      · show ia.lo + ib.lo ≤ x + y; omega
      · show x + y ≤ ia.hi + ib.hi; omega
      · exact Nat.dvd_add (pow_min_dvd_l hxd) (pow_min_dvd_r hyd)
      · simp [E.evalW, hxw, hyw, Nat.mod_eq_of_lt hlt']
      · simp [NE.evalZ, hxz, hyz]
    ·
      simp only [Option.some.injEq, Prod.mk.injEq] at hn
      obtain ⟨rfl, rfl⟩ := hn
      refine ⟨(x + y) % 2 ^ w, ?_, ⟨Nat.zero_le _, le_pow_sub_one_of_mod _ _, ?_⟩, ?_, ?_⟩
      · simp [E.evalC, hxc, hyc]
      · exact pow_min_dvd_mod (Nat.dvd_add (pow_min_dvd_l hxd) (pow_min_dvd_r hyd))
      · simp [E.evalW, hxw, hyw]
      · simp [NE.evalZ, hxz, hyz]
  | wsub w a b iha ihb =>
    intro t ne hn
    simp only [E.norm, Option.bind_eq_bind, Option.bind_eq_some_iff] at hn
    obtain ⟨⟨ia, na⟩, ha, ⟨ib, nb⟩, hb, hn⟩ := hn
    obtain ⟨x, hxc, ⟨hxl, hxh, hxd⟩, hxw, hxz⟩ := iha _ _ ha
    obtain ⟨y, hyc, ⟨hyl, hyh, hyd⟩, hyw, hyz⟩ := ihb _ _ hb
    simp only at hn
    split at hn
    · rename_i hc
      simp only [Option.some.injEq, Prod.mk.injEq] at hn
      obtain ⟨rfl, rfl⟩ := hn
      have hyx : y ≤ x := by omega
      have hx2 : x < 2 ^ w := by omega
      refine ⟨x - y, ?_, ⟨?_, ?_, ?_⟩, ?_, ?_⟩
      · simp [E.evalC, hxc, hyc, wsub_noflow hyx hx2]
      · show ia.lo - ib.hi ≤ x - y; omega
      · show x - y ≤ ia.hi - ib.lo; omega
      · exact Nat.dvd_sub (pow_min_dvd_l hxd) (pow_min_dvd_r hyd)
      · simp only [E.evalW, hxw, hyw]; exact wsub_noflow hyx hx2
      · simp only [NE.evalZ, hxz, hyz]; omega
    ·
      simp only [Option.some.injEq, Prod.mk.injEq] at hn
      obtain ⟨rfl, rfl⟩ := hn
      refine ⟨(x + (2 ^ w - y % 2 ^ w)) % 2 ^ w, ?_, ⟨Nat.zero_le _, le_pow_sub_one_of_mod _ _, ?_⟩, ?_, ?_⟩
      · simp [E.evalC, hxc, hyc]
      · exact wsub_dvd (pow_min_dvd_l hxd) (pow_min_dvd_r hyd)
      · simp [E.evalW, hxw, hyw]
      · simp only [NE.evalZ, hxz, hyz]; exact (wsub_int x y w).symm
  | wmul w a b iha ihb =>
    intro t ne hn
    simp only [E.norm, Option.bind_eq_bind, Option.bind_eq_some_iff] at hn
    obtain ⟨⟨ia, na⟩, ha, ⟨ib, nb⟩, hb, hn⟩ := hn
    obtain ⟨x, hxc, ⟨hxl, hxh, hxd⟩, hxw, hxz⟩ := iha _ _ ha
    obtain ⟨y, hyc, ⟨hyl, hyh, hyd⟩, hyw, hyz⟩ := ihb _ _ hb
    simp only at hn
    have hdvd : 2 ^ (ia.tz + ib.tz) ∣ x * y := by
      rw [Nat.pow_add]; exact Nat.mul_dvd_mul hxd hyd
    split at hn
    · rename_i hlt
      simp only [Option.some.injEq, Prod.mk.injEq] at hn
      obtain ⟨rfl, rfl⟩ := hn
      have hle : x * y ≤ ia.hi * ib.hi := Nat.mul_le_mul hxh hyh
      have hlt' : x * y < 2 ^ w := by omega
      refine ⟨x * y, ?_, ⟨?_, ?_, ?_⟩, ?_, ?_⟩
      · simp [E.evalC, hxc, hyc, Nat.mod_eq_of_lt hlt']
      · exact Nat.mul_le_mul hxl hyl
      · exact hle
      · exact hdvd
      · simp [E.evalW, hxw, hyw, Nat.mod_eq_of_lt hlt']
      · simp [NE.evalZ, hxz, hyz]
    ·
      simp only [Option.some.injEq, Prod.mk.injEq] at hn
      obtain ⟨rfl, rfl⟩ := hn
      refine ⟨(x * y) % 2 ^ w, ?_, ⟨Nat.zero_le _, le_pow_sub_one_of_mod _ _, ?_⟩, ?_, ?_⟩
      · simp [E.evalC, hxc, hyc]
      · exact pow_min_dvd_mod hdvd
      · simp [E.evalW, hxw, hyw]
      · simp [NE.evalZ, hxz, hyz]
  | shr a k iha =>
    intro t ne hn
    simp only [E.norm, Option.bind_eq_bind, Option.bind_eq_some_iff] at hn
    obtain ⟨⟨ia, na⟩, ha, hn⟩ := hn
    obtain ⟨x, hxc, ⟨hxl, hxh, hxd⟩, hxw, hxz⟩ := iha _ _ ha
    simp only at hn
    simp only [Option.some.injEq, Prod.mk.injEq] at hn
    obtain ⟨rfl, rfl⟩ := hn
    refine ⟨x / 2 ^ k, ?_, ⟨?_, ?_, ?_⟩, ?_, ?_⟩
    · simp [E.evalC, hxc]
    · exact Nat.div_le_div_right hxl
    · exact Nat.div_le_div_right hxh
    · exact shr_dvd hxd
    · simp [E.evalW, hxw]
    · simp [NE.evalZ, hxz]
  | shl w a k iha =>
    intro t ne hn
    simp only [E.norm, Option.bind_eq_bind, Option.bind_eq_some_iff] at hn
    obtain ⟨⟨ia, na⟩, ha, hn⟩ := hn
    obtain ⟨x, hxc, ⟨hxl, hxh, hxd⟩, hxw, hxz⟩ := iha _ _ ha
    simp only at hn
    have hdvd : 2 ^ (ia.tz + k) ∣ x * 2 ^ k := by
      rw [Nat.pow_add]; exact Nat.mul_dvd_mul hxd (Nat.dvd_refl _)
    split at hn
    · rename_i hlt
      simp only [Option.some.injEq, Prod.mk.injEq] at hn
      obtain ⟨rfl, rfl⟩ := hn
      have hle : x * 2 ^ k ≤ ia.hi * 2 ^ k := Nat.mul_le_mul_right _ hxh
      have hlt' : x * 2 ^ k < 2 ^ w := by omega
      refine ⟨x * 2 ^ k, ?_, ⟨?_, ?_, ?_⟩, ?_, ?_⟩
      · simp [E.evalC, hxc, Nat.mod_eq_of_lt hlt']
      · exact Nat.mul_le_mul_right _ hxl
      · exact hle
      · exact hdvd
      · simp [E.evalW, hxw, Nat.mod_eq_of_lt hlt']
      · simp [NE.evalZ, hxz]
    ·
      simp only [Option.some.injEq, Prod.mk.injEq] at hn
      obtain ⟨rfl, rfl⟩ := hn
      refine ⟨(x * 2 ^ k) % 2 ^ w, ?_, ⟨Nat.zero_le _, le_pow_sub_one_of_mod _ _, ?_⟩, ?_, ?_⟩
      · simp [E.evalC, hxc]
      · exact pow_min_dvd_mod hdvd
      · simp [E.evalW, hxw]
      · simp [NE.evalZ, hxz]
  | band a b iha ihb =>
    intro t ne hn
    simp only [E.norm, Option.bind_eq_bind, Option.bind_eq_some_iff] at hn
    obtain ⟨⟨ia, na⟩, ha, ⟨ib, nb⟩, hb, hn⟩ := hn
    obtain ⟨x, hxc, ⟨hxl, hxh, hxd⟩, hxw, hxz⟩ := iha _ _ ha
    obtain ⟨y, hyc, ⟨hyl, hyh, hyd⟩, hyw, hyz⟩ := ihb _ _ hb
    simp only at hn
    split at hn
    · rename_i hc
      simp only [Option.some.injEq, Prod.mk.injEq] at hn
      obtain ⟨rfl, rfl⟩ := hn
      have hand : x &&& y = 0 := by
        rcases hc with hc | hc
        · exact and_eq_zero_of_lt (by omega) hyd
        · rw [Nat.and_comm]; exact and_eq_zero_of_lt (by omega) hxd
      refine ⟨0, ?_, ⟨Nat.le_refl _, Nat.le_refl _, Nat.dvd_zero _⟩, ?_, rfl⟩
      · simp [E.evalC, hxc, hyc, hand]
      · simp [E.evalW, hxw, hyw, hand]
    split at hn
    · rename_i k hk
      split at hk
      · rename_i hlh
        have hy : y = 2 ^ k - 1 := by
          have := isMask_eq hk; omega
        have hand : x &&& y = x % 2 ^ k := by rw [hy]; exact Nat.and_two_pow_sub_one_eq_mod x k
        split at hn
        · rename_i hlt
          simp only [Option.some.injEq, Prod.mk.injEq] at hn
          obtain ⟨rfl, rfl⟩ := hn
          have hx2 : x % 2 ^ k = x := Nat.mod_eq_of_lt (by omega)
          refine ⟨x, ?_, ⟨hxl, hxh, hxd⟩, ?_, hxz⟩
          · simp [E.evalC, hxc, hyc, hand, hx2]
          · simp [E.evalW, hxw, hyw, hand, hx2]
        ·
          simp only [Option.some.injEq, Prod.mk.injEq] at hn
          obtain ⟨rfl, rfl⟩ := hn
          refine ⟨x % 2 ^ k, ?_, ⟨Nat.zero_le _, le_pow_sub_one_of_mod _ _, pow_min_dvd_mod hxd⟩, ?_, ?_⟩
          · simp [E.evalC, hxc, hyc, hand]
          · simp [E.evalW, hxw, hyw, hand]
          · simp [NE.evalZ, hxz]
      · simp at hk
    ·
      simp only [Option.some.injEq, Prod.mk.injEq] at hn
      obtain ⟨rfl, rfl⟩ := hn
      refine ⟨x &&& y, ?_, ⟨Nat.zero_le _, ?_, Nat.one_dvd _⟩, ?_, ?_⟩
      · simp [E.evalC, hxc, hyc]
      · have h1 : x &&& y ≤ x := Nat.and_le_left
        have h2 : x &&& y ≤ y := Nat.and_le_right
        show x &&& y ≤ min ia.hi ib.hi
        omega
      · simp [E.evalW, hxw, hyw]
      · simp [NE.evalZ, hxz, hyz]
  | bor a b iha ihb =>
    intro t ne hn
    simp only [E.norm, Option.bind_eq_bind, Option.bind_eq_some_iff] at hn
    obtain ⟨⟨ia, na⟩, ha, ⟨ib, nb⟩, hb, hn⟩ := hn
    obtain ⟨x, hxc, ⟨hxl, hxh, hxd⟩, hxw, hxz⟩ := iha _ _ ha
    obtain ⟨y, hyc, ⟨hyl, hyh, hyd⟩, hyw, hyz⟩ := ihb _ _ hb
    simp only at hn
    split at hn
    · rename_i hc
      simp only [Option.some.injEq, Prod.mk.injEq] at hn
      obtain ⟨rfl, rfl⟩ := hn
      have hor : x ||| y = x + y := by
        rcases hc with hc | hc
        · exact or_eq_add_of_lt (by omega) hyd
        · rw [Nat.or_comm, Nat.add_comm]; exact or_eq_add_of_lt (by omega) hxd
      refine ⟨x + y, ?_, ⟨?_, ?_, ?_⟩, ?_, ?_⟩
      · simp [E.evalC, hxc, hyc, hor]
      · show ia.lo + ib.lo ≤ x + y; omega
      · show x + y ≤ ia.hi + ib.hi; omega
      · exact Nat.dvd_add (pow_min_dvd_l hxd) (pow_min_dvd_r hyd)
      · simp [E.evalW, hxw, hyw, hor]
      · simp [NE.evalZ, hxz, hyz]
    ·
      simp only [Option.some.injEq, Prod.mk.injEq] at hn
      obtain ⟨rfl, rfl⟩ := hn
      refine ⟨x ||| y, ?_, ⟨Nat.zero_le _, le_bitCeil_or hxh hyh, Nat.one_dvd _⟩, ?_, ?_⟩
      · simp [E.evalC, hxc, hyc]
      · simp [E.evalW, hxw, hyw]
      · simp [NE.evalZ, hxz, hyz]
  | bxor a b iha ihb =>
    intro t ne hn
    simp only [E.norm, Option.bind_eq_bind, Option.bind_eq_some_iff] at hn
    obtain ⟨⟨ia, na⟩, ha, ⟨ib, nb⟩, hb, hn⟩ := hn
    obtain ⟨x, hxc, ⟨hxl, hxh, hxd⟩, hxw, hxz⟩ := iha _ _ ha
    obtain ⟨y, hyc, ⟨hyl, hyh, hyd⟩, hyw, hyz⟩ := ihb _ _ hb
    simp only at hn
    simp only [Option.some.injEq, Prod.mk.injEq] at hn
    obtain ⟨rfl, rfl⟩ := hn
    refine ⟨x ^^^ y, ?_, ⟨Nat.zero_le _, le_bitCeil_xor hxh hyh, Nat.one_dvd _⟩, ?_, ?_⟩
    · simp [E.evalC, hxc, hyc]
    · simp [E.evalW, hxw, hyw]
    · simp [NE.evalZ, hxz, hyz]
  | cast w a iha =>
    intro t ne hn
    simp only [E.norm, Option.bind_eq_bind, Option.bind_eq_some_iff] at hn
    obtain ⟨⟨ia, na⟩, ha, hn⟩ := hn
    obtain ⟨x, hxc, ⟨hxl, hxh, hxd⟩, hxw, hxz⟩ := iha _ _ ha
    simp only at hn
    split at hn
    · rename_i hlt
      simp only [Option.some.injEq, Prod.mk.injEq] at hn
      obtain ⟨rfl, rfl⟩ := hn
      have hx2 : x % 2 ^ w = x := Nat.mod_eq_of_lt (by omega)
      refine ⟨x, ?_, ⟨hxl, hxh, hxd⟩, ?_, hxz⟩
      · simp [E.evalC, hxc, hx2]
      · simp [E.evalW, hxw, hx2]
    ·
      simp only [Option.some.injEq, Prod.mk.injEq] at hn
      obtain ⟨rfl, rfl⟩ := hn
      refine ⟨x % 2 ^ w, ?_, ⟨Nat.zero_le _, le_pow_sub_one_of_mod _ _, pow_min_dvd_mod hxd⟩, ?_, ?_⟩
      · simp [E.evalC, hxc]
      · simp [E.evalW, hxw]
      · simp [NE.evalZ, hxz]
  | sel cnd a b ihc iha ihb =>
    intro t ne hn
    simp only [E.norm, Option.bind_eq_bind, Option.bind_eq_some_iff] at hn
    obtain ⟨⟨ic, nc⟩, hc, ⟨ia, na⟩, ha, ⟨ib, nb⟩, hb, hn⟩ := hn
    obtain ⟨z, hzc, ⟨hzl, hzh, hzd⟩, hzw, hzz⟩ := ihc _ _ hc
    obtain ⟨x, hxc, ⟨hxl, hxh, hxd⟩, hxw, hxz⟩ := iha _ _ ha
    obtain ⟨y, hyc, ⟨hyl, hyh, hyd⟩, hyw, hyz⟩ := ihb _ _ hb
    simp only at hn
    split at hn
    · rename_i hlt
      simp only [Option.some.injEq, Prod.mk.injEq] at hn
      obtain ⟨rfl, rfl⟩ := hn
      have hz2 : z < 2 := by omega
      refine ⟨if z = 0 then x else y, ?_, ⟨?_, ?_, ?_⟩, ?_, ?_⟩
      · simp [E.evalC, hzc, hxc, hyc, hz2]
      · show min ia.lo ib.lo ≤ _; split <;> omega
      · show _ ≤ max ia.hi ib.hi; split <;> omega
      · split
        · exact pow_min_dvd_l hxd
        · exact pow_min_dvd_r hyd
      · simp [E.evalW, hzw, hxw, hyw]
      · simp only [NE.evalZ, hzz, hxz, hyz]
        by_cases hz0 : z = 0
        · simp [hz0]
        · have : (z : Int) ≠ 0 := by omega
          simp [hz0]
    · simp at hn

/-! ### statement lists -/

theorem normBody_sound : ∀ (ss : List S) (ienv ienv' : List Itv) (nes : List NE) (env : List Nat),
    EnvIn env ienv → normBody ss ienv = some (ienv', nes) →
    ∃ env', runC ss env = some env' ∧ runW ss env = env' ∧ EnvIn env' ienv' ∧
      runZ nes (toZ env) = toZ env'
  | [], ienv, ienv', nes, env, h, hn => by
      simp only [normBody, Option.some.injEq, Prod.mk.injEq] at hn
      obtain ⟨rfl, rfl⟩ := hn
      exact ⟨env, rfl, rfl, h, rfl⟩
  | .set e :: ss, ienv, ienv', nes, env, h, hn => by
      simp only [normBody, Option.bind_eq_bind, Option.bind_eq_some_iff] at hn
      obtain ⟨⟨t, ne⟩, he, ⟨ienv'', nes'⟩, hss, hn⟩ := hn
      simp only [Option.some.injEq, Prod.mk.injEq] at hn
      obtain ⟨rfl, rfl⟩ := hn
      obtain ⟨x, hxc, hxm, hxw, hxz⟩ := E.norm_sound h e t ne he
      obtain ⟨env', h1, h2, h3, h4⟩ :=
        normBody_sound ss (ienv ++ [t]) ienv'' nes' (env ++ [x]) (EnvIn_snoc h hxm) hss
      refine ⟨env', ?_, ?_, h3, ?_⟩
      · simp [runC, S.stepC, hxc, h1]
      · simp [runW, S.stepW, hxw, h2]
      · simp only [runZ, hxz, ← toZ_snoc]; exact h4
  | .assertLt e n :: ss, ienv, ienv', nes, env, h, hn => by
      simp only [normBody, Option.bind_eq_bind, Option.bind_eq_some_iff] at hn
      obtain ⟨⟨t, ne⟩, he, hn⟩ := hn
      simp only at hn
      split at hn
      · rename_i hlt
        obtain ⟨x, hxc, ⟨hxl, hxh, hxd⟩, hxw, hxz⟩ := E.norm_sound h e t ne he
        obtain ⟨env', h1, h2, h3, h4⟩ := normBody_sound ss ienv ienv' nes env h hn
        have hxn : x < n := by omega
        refine ⟨env', ?_, ?_, h3, h4⟩
        · simp [runC, S.stepC, hxc, hxn, h1]
        · simp [runW, S.stepW, h2]
      · simp at hn

theorem pickI_sound {env : List Nat} {ienv : List Itv} (h : EnvIn env ienv) :
    ∀ (outs : List Nat) (post : List Itv), pickI ienv outs = some post → EnvIn (pick env outs) post
  | [], post, hp => by
      simp only [pickI, List.mapM_nil, pure, Option.some.injEq] at hp
      subst hp
      simp [pick, EnvIn]
  | i :: outs, post, hp => by
      simp only [pickI, List.mapM_cons, bind, Option.bind_eq_some_iff, pure, Option.some.injEq] at hp
      obtain ⟨t, ht, ts, hts, rfl⟩ := hp
      obtain ⟨x, hx, hm⟩ := EnvIn_get h ht
      have := pickI_sound h outs ts hts
      simp only [pick, List.map_cons, EnvIn, List.getD_eq_getElem?_getD, hx, Option.getD_some]
      exact ⟨hm, by simpa [pick, List.getD_eq_getElem?_getD] using this⟩

theorem toZ_pick (env : List Nat) (outs : List Nat) :
    toZ (pick env outs) = outs.map (fun i => (toZ env).getD i 0) := by
  simp only [pick, toZ, List.map_map]
  apply List.map_congr_left
  intro i _
  exact (toZ_getD env i).symm

/-! ### programs -/

theorem Prog.norm_sound (p : Prog) (pre : List Itv) (q : NProg) (post : List Itv)
    (h : p.norm pre = some (q, post)) (ins : List Nat) (hin : EnvIn ins pre) :
    ∃ outs, p.evalC ins = some outs ∧ p.evalW ins = outs ∧ EnvIn outs post ∧
      q.evalZ (toZ ins) = toZ outs := by
  unfold Prog.norm at h
  split at h
  · rename_i hlen
    simp only [Option.bind_eq_bind, Option.bind_eq_some_iff] at h
    obtain ⟨⟨ienv, nes⟩, hb, post', hp, h⟩ := h
    simp only [Option.some.injEq, Prod.mk.injEq] at h
    obtain ⟨rfl, rfl⟩ := h
    obtain ⟨env', h1, h2, h3, h4⟩ := normBody_sound p.body pre ienv nes ins hin hb
    have hl : ins.length = p.nIn := by rw [EnvIn_length hin, hlen]
    refine ⟨pick env' p.outs, ?_, ?_, pickI_sound h3 _ _ hp, ?_⟩
    · simp [Prog.evalC, hl, h1]
    · simp [Prog.evalW, h2]
    · simp only [NProg.evalZ, h4, toZ_pick]
  · simp at h

theorem Prog.evalC_eq_evalW_of_norm (p : Prog) (pre : List Itv) (q : NProg) (post : List Itv)
    (h : p.norm pre = some (q, post)) (ins : List Nat) (hin : EnvIn ins pre) :
    p.evalC ins = some (p.evalW ins) := by
  obtain ⟨outs, h1, h2, _, _⟩ := Prog.norm_sound p pre q post h ins hin
  rw [h1, h2]

end Dalek.IR

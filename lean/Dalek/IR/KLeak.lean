import Dalek.IR.KProg
import Dalek.IR.Leak
/-! Leakage of kernel-call programs: the trace of a `KProg` is the concatenation of the traces of the called kernels. -/
namespace Dalek.IR

def kleakBody : List KStmt → List (List Nat) → Leak
  | [], _ => []
  | s :: ss, env =>
    let a := (gather env s.args).getD []
    s.k.leakW a ++ kleakBody ss (env ++ [s.k.evalW a])

def kopsBody : List KStmt → Leak
  | [] => []
  | s :: ss => s.k.ops ++ kopsBody ss

/-- what running the formula (release semantics) reveals -/
def KProg.leakW (p : KProg) (ins : List (List Nat)) : Leak := kleakBody p.body ins

/-- the static opcode sequence -/
def KProg.ops (p : KProg) : Leak := kopsBody p.body

theorem kleakBody_eq_ops : ∀ (ss : List KStmt) (env : List (List Nat)), kleakBody ss env = kopsBody ss
  | [], _ => rfl
  | s :: ss, env => by
      simp only [kleakBody, kopsBody, Prog.leakW_eq_ops, kleakBody_eq_ops ss]

theorem KProg.leakW_eq_ops (p : KProg) (ins : List (List Nat)) : p.leakW ins = p.ops :=
  kleakBody_eq_ops p.body ins

/-- the trace of a kernel-call program does not depend on its inputs -/
theorem kprog_leak_const (p : KProg) (ins₁ ins₂ : List (List Nat)) : p.leakW ins₁ = p.leakW ins₂ := by
  rw [p.leakW_eq_ops, p.leakW_eq_ops]

end Dalek.IR

/-
AlgIR: straight-line programs over an abstract signature of field operations.  Target of the
`rs2lean` translator for the field-level formulas (exponent chains, sqrt_ratio_i, curve formulas,
ladder step, Ristretto/Elligator formulas).  Mathlib-free.

A program is a list of statements; statement `k` defines variables `nIn + (number of results of
earlier statements) …` (SSA; most operations have one result, `swap` has two).  Values of sort
"field element" and of sort "choice" live in the same carrier `V` (a choice is `0`/`1`).
-/
namespace Dalek.IR

inductive FOp where
  | add | sub | mul            -- 2 args
  | neg | square | square2     -- 1 arg
  | pow2k (k : Nat)            -- 1 arg, k ≥ 1 squarings
  | const (i : Nat)            -- 0 args; index into the constant table of the signature
  | ctEq                       -- 2 args → choice
  | isNeg | isZero             -- 1 arg → choice
  | cand | cor | cxor          -- 2 choices → choice
  | cnot                       -- 1 choice → choice
  | csel                       -- args (c, a, b): if c = 0 then a else b   (a, b of the same sort)
  | copy                       -- 1 arg
deriving DecidableEq, Repr, Inhabited

structure AStmt where
  op : FOp
  args : List Nat
deriving DecidableEq, Repr, Inhabited

structure AProg where
  nIn : Nat
  body : List AStmt
  outs : List Nat
deriving DecidableEq, Repr, Inhabited

/-- An interpretation of the signature over a carrier `V`. -/
structure FOps (V : Type) where
  add : V → V → V
  sub : V → V → V
  mul : V → V → V
  neg : V → V
  square : V → V
  square2 : V → V
  pow2k : V → Nat → V
  const : Nat → V
  ctEq : V → V → V
  isNeg : V → V
  isZero : V → V
  cand : V → V → V
  cor : V → V → V
  cxor : V → V → V
  cnot : V → V
  csel : V → V → V → V
  dflt : V

def FOps.apply {V : Type} (o : FOps V) (op : FOp) (a : List V) : V :=
  let x := a.getD 0 o.dflt
  let y := a.getD 1 o.dflt
  let z := a.getD 2 o.dflt
  match op with
  | .add => o.add x y | .sub => o.sub x y | .mul => o.mul x y
  | .neg => o.neg x | .square => o.square x | .square2 => o.square2 x
  | .pow2k k => o.pow2k x k
  | .const i => o.const i
  | .ctEq => o.ctEq x y
  | .isNeg => o.isNeg x | .isZero => o.isZero x
  | .cand => o.cand x y | .cor => o.cor x y | .cxor => o.cxor x y
  | .cnot => o.cnot x
  | .csel => o.csel x y z
  | .copy => x

def arunBody {V : Type} (o : FOps V) : List AStmt → List V → List V
  | [], env => env
  | s :: ss, env => arunBody o ss (env ++ [o.apply s.op (s.args.map (fun i => env.getD i o.dflt))])

def AProg.run {V : Type} (o : FOps V) (p : AProg) (ins : List V) : List V :=
  let env := arunBody o p.body ins
  p.outs.map (fun i => env.getD i o.dflt)

/-- Two interpretations are related operation by operation. -/
structure FOps.Rel {V W : Type} (R : V → W → Prop) (o : FOps V) (o' : FOps W) : Prop where
  add : ∀ {a b a' b'}, R a a' → R b b' → R (o.add a b) (o'.add a' b')
  sub : ∀ {a b a' b'}, R a a' → R b b' → R (o.sub a b) (o'.sub a' b')
  mul : ∀ {a b a' b'}, R a a' → R b b' → R (o.mul a b) (o'.mul a' b')
  neg : ∀ {a a'}, R a a' → R (o.neg a) (o'.neg a')
  square : ∀ {a a'}, R a a' → R (o.square a) (o'.square a')
  square2 : ∀ {a a'}, R a a' → R (o.square2 a) (o'.square2 a')
  pow2k : ∀ {a a'} (k : Nat), R a a' → R (o.pow2k a k) (o'.pow2k a' k)
  const : ∀ (i : Nat), R (o.const i) (o'.const i)
  ctEq : ∀ {a b a' b'}, R a a' → R b b' → R (o.ctEq a b) (o'.ctEq a' b')
  isNeg : ∀ {a a'}, R a a' → R (o.isNeg a) (o'.isNeg a')
  isZero : ∀ {a a'}, R a a' → R (o.isZero a) (o'.isZero a')
  cand : ∀ {a b a' b'}, R a a' → R b b' → R (o.cand a b) (o'.cand a' b')
  cor : ∀ {a b a' b'}, R a a' → R b b' → R (o.cor a b) (o'.cor a' b')
  cxor : ∀ {a b a' b'}, R a a' → R b b' → R (o.cxor a b) (o'.cxor a' b')
  cnot : ∀ {a a'}, R a a' → R (o.cnot a) (o'.cnot a')
  csel : ∀ {c a b c' a' b'}, R c c' → R a a' → R b b' → R (o.csel c a b) (o'.csel c' a' b')
  dflt : R o.dflt o'.dflt

end Dalek.IR

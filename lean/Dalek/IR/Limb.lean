/-
LimbIR: the target language of the `rs2lean` translator for straight-line integer kernels
(field / scalar limb arithmetic, byte packing).  Mathlib-free: the model driver evaluates it.

* `E`      source-level expression, operations carry the Rust integer width they were written at.
* `S`      statement: `set e` appends a new SSA variable, `assertLt e n` is a `debug_assert!(e < n)`.
* `evalC`  semantics of a build with overflow checks and debug assertions (`none` = panic).
* `evalW`  semantics of a release build (wrapping arithmetic, assertions compiled out).
* `NE`     normalised "ideal integer" expression: only `+ - * /2^k %2^k sel` (and opaque bit ops),
           evaluated over `Int`; produced by `norm`, which is at the same time the interval /
           alignment analyser that proves absence of overflow.
-/
namespace Dalek.IR

/-- `lo ≤ x ≤ hi` and `2^tz ∣ x`. -/
structure Itv where
  lo : Nat
  hi : Nat
  tz : Nat
deriving DecidableEq, Repr, Inhabited

inductive E where
  | v (i : Nat)
  | c (n : Nat)
  | add (w : Nat) (a b : E)
  | sub (w : Nat) (a b : E)
  | mul (w : Nat) (a b : E)
  | wadd (w : Nat) (a b : E)
  | wsub (w : Nat) (a b : E)
  | wmul (w : Nat) (a b : E)
  | shr (a : E) (k : Nat)
  | shl (w : Nat) (a : E) (k : Nat)
  | band (a b : E)
  | bor (a b : E)
  | bxor (a b : E)
  | cast (w : Nat) (a : E)
  | sel (c a b : E)
deriving DecidableEq, Repr, Inhabited

inductive S where
  | set (e : E)
  | assertLt (e : E) (n : Nat)
deriving DecidableEq, Repr, Inhabited

structure Prog where
  nIn : Nat
  body : List S
  outs : List Nat
deriving DecidableEq, Repr, Inhabited

/-! ### checked semantics (debug build) -/

def chk (w : Nat) (x : Nat) : Option Nat := if x < 2 ^ w then some x else none

def E.evalC (env : List Nat) : E → Option Nat
  | .v i => env[i]?
  | .c n => some n
  | .add w a b => do let x ← a.evalC env; let y ← b.evalC env; chk w (x + y)
  | .sub w a b => do let x ← a.evalC env; let y ← b.evalC env; if y ≤ x then chk w (x - y) else none
  | .mul w a b => do let x ← a.evalC env; let y ← b.evalC env; chk w (x * y)
  | .wadd w a b => do let x ← a.evalC env; let y ← b.evalC env; some ((x + y) % 2 ^ w)
  | .wsub w a b => do let x ← a.evalC env; let y ← b.evalC env; some ((x + (2 ^ w - y % 2 ^ w)) % 2 ^ w)
  | .wmul w a b => do let x ← a.evalC env; let y ← b.evalC env; some ((x * y) % 2 ^ w)
  | .shr a k => do let x ← a.evalC env; some (x / 2 ^ k)
  | .shl w a k => do let x ← a.evalC env; some ((x * 2 ^ k) % 2 ^ w)
  | .band a b => do let x ← a.evalC env; let y ← b.evalC env; some (x &&& y)
  | .bor a b => do let x ← a.evalC env; let y ← b.evalC env; some (x ||| y)
  | .bxor a b => do let x ← a.evalC env; let y ← b.evalC env; some (x ^^^ y)
  | .cast w a => do let x ← a.evalC env; some (x % 2 ^ w)
  | .sel cnd a b => do
      let z ← cnd.evalC env; let x ← a.evalC env; let y ← b.evalC env
      if z < 2 then some (if z = 0 then x else y) else none

/-! ### wrapping semantics (release build) -/

def E.evalW (env : List Nat) : E → Nat
  | .v i => env.getD i 0
  | .c n => n
  | .add w a b => (a.evalW env + b.evalW env) % 2 ^ w
  | .sub w a b => (a.evalW env + (2 ^ w - b.evalW env % 2 ^ w)) % 2 ^ w
  | .mul w a b => (a.evalW env * b.evalW env) % 2 ^ w
  | .wadd w a b => (a.evalW env + b.evalW env) % 2 ^ w
  | .wsub w a b => (a.evalW env + (2 ^ w - b.evalW env % 2 ^ w)) % 2 ^ w
  | .wmul w a b => (a.evalW env * b.evalW env) % 2 ^ w
  | .shr a k => a.evalW env / 2 ^ k
  | .shl w a k => (a.evalW env * 2 ^ k) % 2 ^ w
  | .band a b => a.evalW env &&& b.evalW env
  | .bor a b => a.evalW env ||| b.evalW env
  | .bxor a b => a.evalW env ^^^ b.evalW env
  | .cast w a => a.evalW env % 2 ^ w
  | .sel cnd a b => if cnd.evalW env = 0 then a.evalW env else b.evalW env

def S.stepC (env : List Nat) : S → Option (List Nat)
  | .set e => do let x ← e.evalC env; some (env ++ [x])
  | .assertLt e n => do let x ← e.evalC env; if x < n then some env else none

def S.stepW (env : List Nat) : S → List Nat
  | .set e => env ++ [e.evalW env]
  | .assertLt _ _ => env

def runC : List S → List Nat → Option (List Nat)
  | [], env => some env
  | s :: ss, env => do let env' ← s.stepC env; runC ss env'

def runW : List S → List Nat → List Nat
  | [], env => env
  | s :: ss, env => runW ss (s.stepW env)

def pick (env : List Nat) (outs : List Nat) : List Nat := outs.map (fun i => env.getD i 0)

/-- Debug-build result: `none` if the input arity is wrong or anything panics. -/
def Prog.evalC (p : Prog) (ins : List Nat) : Option (List Nat) :=
  if ins.length = p.nIn then (runC p.body ins).map (fun env => pick env p.outs) else none

/-- Release-build result. -/
def Prog.evalW (p : Prog) (ins : List Nat) : List Nat := pick (runW p.body ins) p.outs

/-! ### normalised ideal-integer expressions -/

inductive NE where
  | v (i : Nat)
  | c (n : Nat)
  | add (a b : NE)
  | sub (a b : NE)
  | mul (a b : NE)
  | div2 (a : NE) (k : Nat)
  | mod2 (a : NE) (k : Nat)
  | sel (c a b : NE)
  | band (a b : NE)
  | bor (a b : NE)
  | bxor (a b : NE)
deriving DecidableEq, Repr, Inhabited

def NE.evalZ (env : List Int) : NE → Int
  | .v i => env.getD i 0
  | .c n => (n : Int)
  | .add a b => a.evalZ env + b.evalZ env
  | .sub a b => a.evalZ env - b.evalZ env
  | .mul a b => a.evalZ env * b.evalZ env
  | .div2 a k => a.evalZ env / 2 ^ k
  | .mod2 a k => a.evalZ env % 2 ^ k
  | .sel cnd a b => if cnd.evalZ env = 0 then a.evalZ env else b.evalZ env
  | .band a b => (((a.evalZ env).toNat &&& (b.evalZ env).toNat : Nat) : Int)
  | .bor a b => (((a.evalZ env).toNat ||| (b.evalZ env).toNat : Nat) : Int)
  | .bxor a b => (((a.evalZ env).toNat ^^^ (b.evalZ env).toNat : Nat) : Int)

structure NProg where
  nIn : Nat
  body : List NE
  outs : List Nat
deriving DecidableEq, Repr, Inhabited

def runZ : List NE → List Int → List Int
  | [], env => env
  | e :: es, env => runZ es (env ++ [e.evalZ env])

def NProg.evalZ (p : NProg) (ins : List Int) : List Int :=
  p.outs.map (fun i => (runZ p.body ins).getD i 0)

/-! ### the analyser / normaliser -/

/-- number of trailing zero bits of `n` searched up to `fuel` (0 ↦ `fuel`). -/
def tzOf : Nat → Nat → Nat
  | 0, _ => 0
  | fuel + 1, n => if n % 2 = 0 then tzOf fuel (n / 2) + 1 else 0

/-- `isMask m = some k` iff `m = 2^k - 1` (k ≤ 128). -/
def isMask (m : Nat) : Option Nat :=
  let k := (m + 1).log2
  if 2 ^ k = m + 1 then some k else none

def Itv.top (w : Nat) : Itv := ⟨0, 2 ^ w - 1, 0⟩

/-- upper bound `2^k - 1 ≥ h` with the least such `k`. -/
def bitCeil (h : Nat) : Nat := 2 ^ (h.log2 + 1) - 1

def E.norm (ienv : List Itv) : E → Option (Itv × NE)
  | .v i => (ienv[i]?).map (fun t => (t, NE.v i))
  | .c n => some (⟨n, n, tzOf 200 n⟩, NE.c n)
  | .add w a b => do
      let (ia, na) ← a.norm ienv; let (ib, nb) ← b.norm ienv
      if ia.hi + ib.hi < 2 ^ w then some (⟨ia.lo + ib.lo, ia.hi + ib.hi, min ia.tz ib.tz⟩, NE.add na nb) else none
  | .sub w a b => do
      let (ia, na) ← a.norm ienv; let (ib, nb) ← b.norm ienv
      if ib.hi ≤ ia.lo ∧ ia.hi < 2 ^ w then some (⟨ia.lo - ib.hi, ia.hi - ib.lo, min ia.tz ib.tz⟩, NE.sub na nb) else none
  | .mul w a b => do
      let (ia, na) ← a.norm ienv; let (ib, nb) ← b.norm ienv
      if ia.hi * ib.hi < 2 ^ w then some (⟨ia.lo * ib.lo, ia.hi * ib.hi, ia.tz + ib.tz⟩, NE.mul na nb) else none
  | .wadd w a b => do
      let (ia, na) ← a.norm ienv; let (ib, nb) ← b.norm ienv
      if ia.hi + ib.hi < 2 ^ w then some (⟨ia.lo + ib.lo, ia.hi + ib.hi, min ia.tz ib.tz⟩, NE.add na nb)
      else some (⟨0, 2 ^ w - 1, min (min ia.tz ib.tz) w⟩, NE.mod2 (NE.add na nb) w)
  | .wsub w a b => do
      let (ia, na) ← a.norm ienv; let (ib, nb) ← b.norm ienv
      if ib.hi ≤ ia.lo ∧ ia.hi < 2 ^ w then some (⟨ia.lo - ib.hi, ia.hi - ib.lo, min ia.tz ib.tz⟩, NE.sub na nb)
      else some (⟨0, 2 ^ w - 1, min (min ia.tz ib.tz) w⟩, NE.mod2 (NE.sub na nb) w)
  | .wmul w a b => do
      let (ia, na) ← a.norm ienv; let (ib, nb) ← b.norm ienv
      if ia.hi * ib.hi < 2 ^ w then some (⟨ia.lo * ib.lo, ia.hi * ib.hi, ia.tz + ib.tz⟩, NE.mul na nb)
      else some (⟨0, 2 ^ w - 1, min (ia.tz + ib.tz) w⟩, NE.mod2 (NE.mul na nb) w)
  | .shr a k => do
      let (ia, na) ← a.norm ienv
      some (⟨ia.lo / 2 ^ k, ia.hi / 2 ^ k, ia.tz - k⟩, NE.div2 na k)
  | .shl w a k => do
      let (ia, na) ← a.norm ienv
      if ia.hi * 2 ^ k < 2 ^ w then some (⟨ia.lo * 2 ^ k, ia.hi * 2 ^ k, ia.tz + k⟩, NE.mul na (NE.c (2 ^ k)))
      else some (⟨0, 2 ^ w - 1, min (ia.tz + k) w⟩, NE.mod2 (NE.mul na (NE.c (2 ^ k))) w)
  | .band a b => do
      let (ia, na) ← a.norm ienv; let (ib, nb) ← b.norm ienv
      if ia.hi < 2 ^ ib.tz ∨ ib.hi < 2 ^ ia.tz then some (⟨0, 0, 200⟩, NE.c 0)
      else
      match (if ib.lo = ib.hi then isMask ib.hi else none) with
      | some k =>
          if ia.hi < 2 ^ k then some (ia, na)
          else some (⟨0, 2 ^ k - 1, min ia.tz k⟩, NE.mod2 na k)
      | none => some (⟨0, min ia.hi ib.hi, 0⟩, NE.band na nb)
  | .bor a b => do
      let (ia, na) ← a.norm ienv; let (ib, nb) ← b.norm ienv
      if ia.hi < 2 ^ ib.tz ∨ ib.hi < 2 ^ ia.tz then
        some (⟨ia.lo + ib.lo, ia.hi + ib.hi, min ia.tz ib.tz⟩, NE.add na nb)
      else some (⟨0, bitCeil (max ia.hi ib.hi), 0⟩, NE.bor na nb)
  | .bxor a b => do
      let (ia, na) ← a.norm ienv; let (ib, nb) ← b.norm ienv
      some (⟨0, bitCeil (max ia.hi ib.hi), 0⟩, NE.bxor na nb)
  | .cast w a => do
      let (ia, na) ← a.norm ienv
      if ia.hi < 2 ^ w then some (ia, na)
      else some (⟨0, 2 ^ w - 1, min ia.tz w⟩, NE.mod2 na w)
  | .sel cnd a b => do
      let (ic, nc) ← cnd.norm ienv; let (ia, na) ← a.norm ienv; let (ib, nb) ← b.norm ienv
      if ic.hi < 2 then some (⟨min ia.lo ib.lo, max ia.hi ib.hi, min ia.tz ib.tz⟩, NE.sel nc na nb) else none

/-- Analyse and normalise a statement list.  Returns the final interval environment and the
normalised SSA body (same variable numbering as the source program). -/
def normBody : List S → List Itv → Option (List Itv × List NE)
  | [], ienv => some (ienv, [])
  | .set e :: ss, ienv => do
      let (t, ne) ← e.norm ienv
      let (ienv', nes) ← normBody ss (ienv ++ [t])
      some (ienv', ne :: nes)
  | .assertLt e n :: ss, ienv => do
      let (t, _) ← e.norm ienv
      if t.hi < n then normBody ss ienv else none

def pickI (ienv : List Itv) (outs : List Nat) : Option (List Itv) := outs.mapM (fun i => ienv[i]?)

/-- `p.norm pre = some (q, post)`: for all inputs inside `pre` the debug build does not panic, agrees
with the release build, the outputs lie inside `post`, and equal the ideal-integer program `q`. -/
def Prog.norm (p : Prog) (pre : List Itv) : Option (NProg × List Itv) :=
  if pre.length = p.nIn then do
    let (ienv, nes) ← normBody p.body pre
    let post ← pickI ienv p.outs
    some (⟨p.nIn, nes, p.outs⟩, post)
  else none

/-- membership of a value in an interval -/
def Itv.mem (t : Itv) (x : Nat) : Prop := t.lo ≤ x ∧ x ≤ t.hi ∧ 2 ^ t.tz ∣ x

instance (t : Itv) (x : Nat) : Decidable (t.mem x) := by unfold Itv.mem; exact inferInstance

/-- point-wise membership of an environment -/
def EnvIn : List Nat → List Itv → Prop
  | [], [] => True
  | x :: xs, t :: ts => t.mem x ∧ EnvIn xs ts
  | _, _ => False

def EnvIn.dec : (env : List Nat) → (ienv : List Itv) → Decidable (EnvIn env ienv)
  | [], [] => isTrue trivial
  | x :: xs, t :: ts =>
    match (inferInstance : Decidable (t.mem x)), EnvIn.dec xs ts with
    | isTrue h1, isTrue h2 => isTrue ⟨h1, h2⟩
    | isFalse h1, _ => isFalse (fun h => h1 h.1)
    | _, isFalse h2 => isFalse (fun h => h2 h.2)
  | [], _ :: _ => isFalse (fun h => h)
  | _ :: _, [] => isFalse (fun h => h)

instance (env : List Nat) (ienv : List Itv) : Decidable (EnvIn env ienv) := EnvIn.dec env ienv

/-- inclusion of interval vectors (used to state fixed post-conditions) -/
def Itv.le (s t : Itv) : Bool := t.lo ≤ s.lo && s.hi ≤ t.hi && t.tz ≤ s.tz

def itvsLe : List Itv → List Itv → Bool
  | [], [] => true
  | s :: ss, t :: ts => s.le t && itvsLe ss ts
  | _, _ => false

end Dalek.IR

import Dalek.IR.LimbSound
/-!
# KProg — straight-line compositions of limb kernels (core Lean only)

A `KProg` is a straight-line program whose statements are *calls of LimbIR kernels* (`Prog`) on previously
computed values; a value is a group of machine words (the 40 `u32` lanes of a `FieldElement2625x4`, the 20 `u64`
lanes of an `F51x4*`, the limbs of a field element, a choice byte, …).  It is what the translator emits for the
parallel point formulas of `backend/vector/{avx2,ifma}/edwards.rs`: every vector-field method call becomes a call of
the translated kernel of that method.

* `KProg.evalC` / `KProg.evalW`: run every kernel under the checked / wrapping semantics.
* `KProg.check pre`: propagate the VERIFIED interval analysis (`Prog.norm`) through the calls, starting from the
  interval vectors `pre` of the inputs.  There are no per-kernel contracts here: each call is analysed on the
  intervals its arguments actually have at that point of the formula.
* `KProg.check_sound`: if `check` succeeds then for all inputs inside `pre` no kernel call overflows or trips a
  debug assertion, the checked and wrapping runs agree, and the outputs lie inside the computed post-intervals.
-/
namespace Dalek.IR

/-- argument of a kernel call -/
inductive KArg where
  | var (i : Nat)
  | lit (xs : List Nat)
deriving Repr, Inhabited

structure KStmt where
  k : Prog
  args : List KArg

structure KProg where
  nIn : Nat
  body : List KStmt
  outs : List Nat

def Itv.point (x : Nat) : Itv := ⟨x, x, 0⟩

def KArg.val (env : List (List Nat)) : KArg → Option (List Nat)
  | .var i => env[i]?
  | .lit xs => some xs

def KArg.itv (ienv : List (List Itv)) : KArg → Option (List Itv)
  | .var i => ienv[i]?
  | .lit xs => some (xs.map Itv.point)

def gather (env : List (List Nat)) : List KArg → Option (List Nat)
  | [] => some []
  | a :: as =>
    match a.val env, gather env as with
    | some x, some r => some (x ++ r)
    | _, _ => none

def gatherI (ienv : List (List Itv)) : List KArg → Option (List Itv)
  | [] => some []
  | a :: as =>
    match a.itv ienv, gatherI ienv as with
    | some x, some r => some (x ++ r)
    | _, _ => none

def krunC : List KStmt → List (List Nat) → Option (List (List Nat))
  | [], env => some env
  | s :: ss, env =>
    match gather env s.args with
    | some a =>
      match s.k.evalC a with
      | some o => krunC ss (env ++ [o])
      | none => none
    | none => none

def krunW : List KStmt → List (List Nat) → Option (List (List Nat))
  | [], env => some env
  | s :: ss, env =>
    match gather env s.args with
    | some a => krunW ss (env ++ [s.k.evalW a])
    | none => none

def kcheck : List KStmt → List (List Itv) → Option (List (List Itv))
  | [], ienv => some ienv
  | s :: ss, ienv =>
    match gatherI ienv s.args with
    | some a =>
      match s.k.norm a with
      | some (_, post) => kcheck ss (ienv ++ [post])
      | none => none
    | none => none

def kpick {α : Type} (env : List α) : List Nat → Option (List α)
  | [] => some []
  | i :: is =>
    match env[i]?, kpick env is with
    | some x, some r => some (x :: r)
    | _, _ => none

def KProg.evalC (p : KProg) (ins : List (List Nat)) : Option (List (List Nat)) :=
  if ins.length = p.nIn then
    match krunC p.body ins with
    | some env => kpick env p.outs
    | none => none
  else none

def KProg.evalW (p : KProg) (ins : List (List Nat)) : Option (List (List Nat)) :=
  if ins.length = p.nIn then
    match krunW p.body ins with
    | some env => kpick env p.outs
    | none => none
  else none

def KProg.check (p : KProg) (pre : List (List Itv)) : Option (List (List Itv)) :=
  if pre.length = p.nIn then
    match kcheck p.body pre with
    | some ienv => kpick ienv p.outs
    | none => none
  else none

/-- point-wise membership of a list of values -/
def EnvIn2 : List (List Nat) → List (List Itv) → Prop
  | [], [] => True
  | x :: xs, t :: ts => EnvIn x t ∧ EnvIn2 xs ts
  | _, _ => False

instance EnvIn2.dec : (env : List (List Nat)) → (ienv : List (List Itv)) → Decidable (EnvIn2 env ienv)
  | [], [] => isTrue trivial
  | x :: xs, t :: ts =>
    match (inferInstance : Decidable (EnvIn x t)), EnvIn2.dec xs ts with
    | isTrue h1, isTrue h2 => isTrue ⟨h1, h2⟩
    | isFalse h1, _ => isFalse (fun h => h1 h.1)
    | _, isFalse h2 => isFalse (fun h => h2 h.2)
  | [], _ :: _ => isFalse (fun h => h)
  | _ :: _, [] => isFalse (fun h => h)

/-! ### lemmas -/

theorem EnvIn_append : ∀ {a b : List Nat} {s t : List Itv}, EnvIn a s → EnvIn b t → EnvIn (a ++ b) (s ++ t)
  | [], _, [], _, _, h => by simpa using h
  | x :: a, b, u :: s, t, h1, h2 => by
      simp only [List.cons_append, EnvIn] at h1 ⊢
      exact ⟨h1.1, EnvIn_append h1.2 h2⟩
  | [], _, _ :: _, _, h, _ => by simp [EnvIn] at h
  | _ :: _, _, [], _, h, _ => by simp [EnvIn] at h

theorem EnvIn_point : ∀ (xs : List Nat), EnvIn xs (xs.map Itv.point)
  | [] => by simp [EnvIn]
  | x :: xs => by
      simp only [List.map_cons, EnvIn]
      exact ⟨⟨Nat.le_refl _, Nat.le_refl _, by simp [Itv.point]⟩, EnvIn_point xs⟩

theorem EnvIn2_length : ∀ {env : List (List Nat)} {ienv : List (List Itv)}, EnvIn2 env ienv → env.length = ienv.length
  | [], [], _ => rfl
  | _ :: xs, _ :: ts, h => by simp [EnvIn2_length (env := xs) (ienv := ts) h.2]
  | [], _ :: _, h => by simp [EnvIn2] at h
  | _ :: _, [], h => by simp [EnvIn2] at h

theorem EnvIn2_get : ∀ {env : List (List Nat)} {ienv : List (List Itv)}, EnvIn2 env ienv → ∀ {i : Nat} {t : List Itv},
    ienv[i]? = some t → ∃ x, env[i]? = some x ∧ EnvIn x t
  | [], [], _, i, t, ht => by simp at ht
  | x :: xs, u :: ts, h, 0, t, ht => by
      simp only [List.getElem?_cons_zero, Option.some.injEq] at ht
      subst ht
      exact ⟨x, by simp, h.1⟩
  | x :: xs, u :: ts, h, i + 1, t, ht => by
      simp only [List.getElem?_cons_succ] at ht ⊢
      exact EnvIn2_get h.2 ht
  | [], _ :: _, h, _, _, _ => by simp [EnvIn2] at h
  | _ :: _, [], h, _, _, _ => by simp [EnvIn2] at h

theorem EnvIn2_snoc : ∀ {env : List (List Nat)} {ienv : List (List Itv)} {x : List Nat} {t : List Itv},
    EnvIn2 env ienv → EnvIn x t → EnvIn2 (env ++ [x]) (ienv ++ [t])
  | [], [], x, t, _, hx => by simp [EnvIn2, hx]
  | y :: env, u :: ienv, x, t, h, hx => by
      simp only [List.cons_append, EnvIn2]
      exact ⟨h.1, EnvIn2_snoc h.2 hx⟩
  | [], _ :: _, _, _, h, _ => by simp [EnvIn2] at h
  | _ :: _, [], _, _, h, _ => by simp [EnvIn2] at h

theorem KArg.itv_sound {env : List (List Nat)} {ienv : List (List Itv)} (h : EnvIn2 env ienv) :
    ∀ (a : KArg) (t : List Itv), a.itv ienv = some t → ∃ x, a.val env = some x ∧ EnvIn x t
  | .var i, t, ht => EnvIn2_get h ht
  | .lit xs, t, ht => by
      simp only [KArg.itv, Option.some.injEq] at ht
      subst ht
      exact ⟨xs, rfl, EnvIn_point xs⟩

theorem gather_sound {env : List (List Nat)} {ienv : List (List Itv)} (h : EnvIn2 env ienv) :
    ∀ (as : List KArg) (t : List Itv), gatherI ienv as = some t → ∃ x, gather env as = some x ∧ EnvIn x t
  | [], t, ht => by
      simp only [gatherI, Option.some.injEq] at ht
      subst ht
      exact ⟨[], rfl, by simp [EnvIn]⟩
  | a :: as, t, ht => by
      unfold gatherI at ht
      split at ht
      · rename_i u r hu hr
        simp only [Option.some.injEq] at ht
        subst ht
        obtain ⟨x, hx, hxm⟩ := KArg.itv_sound h a u hu
        obtain ⟨y, hy, hym⟩ := gather_sound h as r hr
        exact ⟨x ++ y, by simp [gather, hx, hy], EnvIn_append hxm hym⟩
      · simp at ht

theorem kcheck_sound : ∀ (ss : List KStmt) (ienv ienv' : List (List Itv)) (env : List (List Nat)),
    EnvIn2 env ienv → kcheck ss ienv = some ienv' →
    ∃ env', krunC ss env = some env' ∧ krunW ss env = some env' ∧ EnvIn2 env' ienv'
  | [], ienv, ienv', env, h, hc => by
      simp only [kcheck, Option.some.injEq] at hc
      subst hc
      exact ⟨env, rfl, rfl, h⟩
  | s :: ss, ienv, ienv', env, h, hc => by
      unfold kcheck at hc
      split at hc
      · rename_i a ha
        split at hc
        · rename_i q post hn
          obtain ⟨x, hx, hxm⟩ := gather_sound h s.args a ha
          obtain ⟨o, ho1, ho2, ho3, _⟩ := Prog.norm_sound s.k a q post hn x hxm
          obtain ⟨env', h1, h2, h3⟩ := kcheck_sound ss (ienv ++ [post]) ienv' (env ++ [o]) (EnvIn2_snoc h ho3) hc
          refine ⟨env', ?_, ?_, h3⟩
          · simp [krunC, hx, ho1, h1]
          · simp [krunW, hx, ho2, h2]
        · simp at hc
      · simp at hc

theorem kpick_sound {env : List (List Nat)} {ienv : List (List Itv)} (h : EnvIn2 env ienv) :
    ∀ (outs : List Nat) (post : List (List Itv)), kpick ienv outs = some post →
      ∃ o, kpick env outs = some o ∧ EnvIn2 o post
  | [], post, hp => by
      simp only [kpick, Option.some.injEq] at hp
      subst hp
      exact ⟨[], rfl, trivial⟩
  | i :: is, post, hp => by
      unfold kpick at hp
      split at hp
      · rename_i t r ht hr
        simp only [Option.some.injEq] at hp
        subst hp
        obtain ⟨x, hx, hxm⟩ := EnvIn2_get h ht
        obtain ⟨o, ho, hom⟩ := kpick_sound h is r hr
        exact ⟨x :: o, by simp [kpick, hx, ho], hxm, hom⟩
      · simp at hp

/-- **Soundness of the composed bound analysis.**  If `p.check pre = some post` then for all inputs inside `pre`:
no kernel call of the formula overflows or fails a debug assertion (`evalC` succeeds), the overflow-checked and the
wrapping runs return the same values, and the outputs lie inside `post`. -/
theorem KProg.check_sound (p : KProg) (pre post : List (List Itv)) (h : p.check pre = some post)
    (ins : List (List Nat)) (hin : EnvIn2 ins pre) :
    ∃ outs, p.evalC ins = some outs ∧ p.evalW ins = some outs ∧ EnvIn2 outs post := by
  unfold KProg.check at h
  split at h
  · rename_i hlen
    split at h
    · rename_i ienv hc
      obtain ⟨env', h1, h2, h3⟩ := kcheck_sound p.body pre ienv ins hin hc
      obtain ⟨o, ho, hom⟩ := kpick_sound h3 p.outs post h
      have hl : ins.length = p.nIn := by rw [EnvIn2_length hin, hlen]
      exact ⟨o, by simp [KProg.evalC, hl, h1, ho], by simp [KProg.evalW, hl, h2, ho], hom⟩
    · simp at h
  · simp at h

/-! ## Hinted analysis: externally proved Hoare triples for individual calls

The interval analysis is not relational; where a call needs a sharper post-condition than intervals can derive
(e.g. the IFMA squaring, whose top limb is bounded only by an argument relating `lo(x₂x₂)` and `hi(x₁x₂)`), a *hint*
`(position, pre, post)` replaces the analysis of that one call by a Hoare triple that has to be PROVED separately
(`HintsValid`). -/

/-- validity of a Hoare triple of a kernel under both semantics -/
def Triple (k : Prog) (pre post : List Itv) : Prop :=
  ∀ ins, EnvIn ins pre → ∃ outs, k.evalC ins = some outs ∧ k.evalW ins = outs ∧ EnvIn outs post

abbrev Hint := Nat × List Itv × List Itv

def findHint (hints : List Hint) (pos : Nat) : Option (List Itv × List Itv) :=
  match hints with
  | [] => none
  | (i, pr, po) :: hs => if i = pos then some (pr, po) else findHint hs pos

def kcheckH (hints : List Hint) : Nat → List KStmt → List (List Itv) → Option (List (List Itv))
  | _, [], ienv => some ienv
  | pos, s :: ss, ienv =>
    match gatherI ienv s.args with
    | some a =>
      match findHint hints pos with
      | some (pr, po) => if itvsLe a pr then kcheckH hints (pos + 1) ss (ienv ++ [po]) else none
      | none =>
        match s.k.norm a with
        | some (_, post) => kcheckH hints (pos + 1) ss (ienv ++ [post])
        | none => none
    | none => none

/-- every hint is a proved triple of the kernel called at that position of `body` (positions count from `pos0`) -/
def HintsValid (hints : List Hint) (pos0 : Nat) (body : List KStmt) : Prop :=
  ∀ pos pr po, findHint hints pos = some (pr, po) → ∀ s, body[pos - pos0]? = some s → pos0 ≤ pos → Triple s.k pr po

theorem HintsValid.tail {hints : List Hint} {pos0 : Nat} {s : KStmt} {ss : List KStmt}
    (h : HintsValid hints pos0 (s :: ss)) : HintsValid hints (pos0 + 1) ss := by
  intro pos pr po hf t ht hle
  have : pos - pos0 = (pos - (pos0 + 1)) + 1 := by omega
  apply h pos pr po hf t _ (by omega)
  rw [this, List.getElem?_cons_succ]
  exact ht

theorem kcheckH_sound (hints : List Hint) : ∀ (ss : List KStmt) (pos : Nat) (ienv ienv' : List (List Itv))
    (env : List (List Nat)), HintsValid hints pos ss → EnvIn2 env ienv → kcheckH hints pos ss ienv = some ienv' →
    ∃ env', krunC ss env = some env' ∧ krunW ss env = some env' ∧ EnvIn2 env' ienv'
  | [], pos, ienv, ienv', env, _, h, hc => by
      simp only [kcheckH, Option.some.injEq] at hc
      subst hc
      exact ⟨env, rfl, rfl, h⟩
  | s :: ss, pos, ienv, ienv', env, hv, h, hc => by
      unfold kcheckH at hc
      split at hc
      · rename_i a ha
        obtain ⟨x, hx, hxm⟩ := gather_sound h s.args a ha
        split at hc
        · rename_i pr po hf
          split at hc
          · rename_i hle
            have ht : Triple s.k pr po := hv pos pr po hf s (by simp) (Nat.le_refl _)
            obtain ⟨o, ho1, ho2, ho3⟩ := ht x (EnvIn_of_itvsLe hxm hle)
            obtain ⟨env', h1, h2, h3⟩ :=
              kcheckH_sound hints ss (pos + 1) (ienv ++ [po]) ienv' (env ++ [o]) hv.tail (EnvIn2_snoc h ho3) hc
            refine ⟨env', ?_, ?_, h3⟩
            · simp [krunC, hx, ho1, h1]
            · simp [krunW, hx, ho2, h2]
          · simp at hc
        · split at hc
          · rename_i q post hn
            obtain ⟨o, ho1, ho2, ho3, _⟩ := Prog.norm_sound s.k a q post hn x hxm
            obtain ⟨env', h1, h2, h3⟩ :=
              kcheckH_sound hints ss (pos + 1) (ienv ++ [post]) ienv' (env ++ [o]) hv.tail (EnvIn2_snoc h ho3) hc
            refine ⟨env', ?_, ?_, h3⟩
            · simp [krunC, hx, ho1, h1]
            · simp [krunW, hx, ho2, h2]
          · simp at hc
      · simp at hc

def KProg.checkH (p : KProg) (hints : List Hint) (pre : List (List Itv)) : Option (List (List Itv)) :=
  if pre.length = p.nIn then
    match kcheckH hints 0 p.body pre with
    | some ienv => kpick ienv p.outs
    | none => none
  else none

/-- **Soundness of the hinted analysis**: as `KProg.check_sound`, given that every hint is a proved triple of the
kernel it is attached to. -/
theorem KProg.checkH_sound (p : KProg) (hints : List Hint) (pre post : List (List Itv))
    (hv : HintsValid hints 0 p.body) (h : p.checkH hints pre = some post)
    (ins : List (List Nat)) (hin : EnvIn2 ins pre) :
    ∃ outs, p.evalC ins = some outs ∧ p.evalW ins = some outs ∧ EnvIn2 outs post := by
  unfold KProg.checkH at h
  split at h
  · rename_i hlen
    split at h
    · rename_i ienv hc
      obtain ⟨env', h1, h2, h3⟩ := kcheckH_sound hints p.body 0 pre ienv ins hv hin hc
      obtain ⟨o, ho, hom⟩ := kpick_sound h3 p.outs post h
      have hl : ins.length = p.nIn := by rw [EnvIn2_length hin, hlen]
      exact ⟨o, by simp [KProg.evalC, hl, h1, ho], by simp [KProg.evalW, hl, h2, ho], hom⟩
    · simp at h
  · simp at h

/-- a single hint at position `i` is valid when the kernel called there satisfies the triple -/
theorem HintsValid.single (body : List KStmt) (i : Nat) (pr po : List Itv)
    (h : ∀ s, body[i]? = some s → Triple s.k pr po) : HintsValid [(i, pr, po)] 0 body := by
  intro pos pr' po' hf s hs _
  simp only [findHint] at hf
  split at hf
  · rename_i he
    simp only [Option.some.injEq, Prod.mk.injEq] at hf
    obtain ⟨rfl, rfl⟩ := hf
    subst he
    exact h s (by simpa using hs)
  · simp at hf

theorem HintsValid.nil (pos0 : Nat) (body : List KStmt) : HintsValid [] pos0 body := by
  intro pos pr po hf
  simp [findHint] at hf

/-! ## inclusion of interval-vector lists, and the packaged "checked chain" statement -/

def itvs2Le : List (List Itv) → List (List Itv) → Bool
  | [], [] => true
  | s :: ss, t :: ts => itvsLe s t && itvs2Le ss ts
  | _, _ => false

theorem EnvIn2_of_itvs2Le : ∀ {xs : List (List Nat)} {s t : List (List Itv)}, EnvIn2 xs s → itvs2Le s t = true → EnvIn2 xs t
  | [], [], [], _, _ => trivial
  | x :: xs, a :: s, b :: t, h, hle => by
      simp only [itvs2Le, Bool.and_eq_true] at hle
      exact ⟨EnvIn_of_itvsLe h.1 hle.1, EnvIn2_of_itvs2Le h.2 hle.2⟩
  | [], [], _ :: _, _, hle => by simp [itvs2Le] at hle
  | _, _ :: _, [], _, hle => by simp [itvs2Le] at hle
  | [], _ :: _, _, h, _ => by simp [EnvIn2] at h
  | _ :: _, [], _, h, _ => by simp [EnvIn2] at h

/-- the analysis succeeds on `pre` and its post-intervals are inside `inv` (a decidable statement, evaluated by the kernel) -/
def KProg.chainOk (p : KProg) (hints : List Hint) (pre inv : List (List Itv)) : Bool :=
  match p.checkH hints pre with
  | some post => itvs2Le post inv
  | none => false

/-- what `chainOk` means: for all inputs inside `pre` the formula runs without overflow / assertion failure under the
checked semantics, agrees with the wrapping semantics, and its outputs are inside `inv` -/
def KProg.Safe (p : KProg) (pre inv : List (List Itv)) : Prop :=
  ∀ ins, EnvIn2 ins pre → ∃ outs, p.evalC ins = some outs ∧ p.evalW ins = some outs ∧ EnvIn2 outs inv

theorem KProg.safe_of_chainOk (p : KProg) (hints : List Hint) (pre inv : List (List Itv))
    (hv : HintsValid hints 0 p.body) (h : p.chainOk hints pre inv = true) : p.Safe pre inv := by
  unfold KProg.chainOk at h
  split at h
  · rename_i post hc
    intro ins hin
    obtain ⟨outs, h1, h2, h3⟩ := p.checkH_sound hints pre post hv hc ins hin
    exact ⟨outs, h1, h2, EnvIn2_of_itvs2Le h3 h⟩
  · simp at h

end Dalek.IR

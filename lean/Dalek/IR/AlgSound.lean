import Dalek.IR.Alg
/-! Relational (parametricity) theorem for AlgIR: related interpretations give related runs. -/
namespace Dalek.IR

inductive ListRel {V W : Type} (R : V → W → Prop) : List V → List W → Prop
  | nil : ListRel R [] []
  | cons {a b as bs} : R a b → ListRel R as bs → ListRel R (a :: as) (b :: bs)

variable {V W : Type} {R : V → W → Prop}

theorem ListRel.getD {xs : List V} {ys : List W} (h : ListRel R xs ys) {d : V} {e : W} (hd : R d e) (i : Nat) :
    R (xs.getD i d) (ys.getD i e) := by
  induction h generalizing i with
  | nil => simpa using hd
  | cons hab _ ih =>
    cases i with
    | zero => simpa using hab
    | succ n => simpa using ih n

theorem ListRel.snoc {xs : List V} {ys : List W} (h : ListRel R xs ys) {a : V} {b : W} (hab : R a b) :
    ListRel R (xs ++ [a]) (ys ++ [b]) := by
  induction h with
  | nil => exact .cons hab .nil
  | cons h1 _ ih => exact .cons h1 ih

theorem ListRel.map_idx {xs : List V} {ys : List W} (h : ListRel R xs ys) {d : V} {e : W} (hd : R d e) (is : List Nat) :
    ListRel R (is.map (fun i => xs.getD i d)) (is.map (fun i => ys.getD i e)) := by
  induction is with
  | nil => exact .nil
  | cons i is ih => exact .cons (h.getD hd i) ih

theorem FOps.Rel.apply {o : FOps V} {o' : FOps W} (hr : FOps.Rel R o o') (op : FOp)
    {a : List V} {b : List W} (hab : ListRel R a b) : R (o.apply op a) (o'.apply op b) := by
  have h0 := hab.getD hr.dflt 0
  have h1 := hab.getD hr.dflt 1
  have h2 := hab.getD hr.dflt 2
  unfold FOps.apply
  cases op <;> simp only
  · exact hr.add h0 h1
  · exact hr.sub h0 h1
  · exact hr.mul h0 h1
  · exact hr.neg h0
  · exact hr.square h0
  · exact hr.square2 h0
  · exact hr.pow2k _ h0
  · exact hr.const _
  · exact hr.ctEq h0 h1
  · exact hr.isNeg h0
  · exact hr.isZero h0
  · exact hr.cand h0 h1
  · exact hr.cor h0 h1
  · exact hr.cxor h0 h1
  · exact hr.cnot h0
  · exact hr.csel h0 h1 h2
  · exact h0

theorem arunBody_rel {o : FOps V} {o' : FOps W} (hr : FOps.Rel R o o') (body : List AStmt)
    {env : List V} {env' : List W} (h : ListRel R env env') :
    ListRel R (arunBody o body env) (arunBody o' body env') := by
  induction body generalizing env env' with
  | nil => exact h
  | cons s ss ih =>
    simp only [arunBody]
    exact ih (h.snoc (hr.apply s.op (h.map_idx hr.dflt s.args)))

/-- The relational theorem: operation-wise related interpretations yield related outputs. -/
theorem AProg.run_rel {o : FOps V} {o' : FOps W} (hr : FOps.Rel R o o') (p : AProg)
    {ins : List V} {ins' : List W} (h : ListRel R ins ins') :
    ListRel R (p.run o ins) (p.run o' ins') := by
  unfold AProg.run
  exact (arunBody_rel hr p.body h).map_idx hr.dflt p.outs

end Dalek.IR

/-
Source-level LEAKAGE SEMANTICS of the two translator target languages (property C10).  Mathlib-free.

What an execution reveals to a control-flow / address observer is a list of `LeakEvent`s:

* `branch b`   a conditional jump was taken (`b = true`) or not;
* `index i`    memory was addressed at offset `i` of an array (a data-dependent address);
* `loopLen n`  a loop ran `n` times;
* pseudo-events `limbOp`/`algOp`/`call`: the KIND of operation that was executed (the program counter).
  They carry no run-time value; they make the trace "the sequence of opcodes executed".

LimbIR (`E`, `S`, `Prog`) and AlgIR (`FOp`, `AStmt`, `AProg`) have, BY CONSTRUCTION of their syntax,
no branch constructor, no constructor that indexes memory with a computed value (the operands of a statement are
SSA numbers, i.e. literals of the program text), and no loop whose trip count is data (`pow2k k` carries the
literal `k`).  Consequently `leakW`/`leak` below, although they are defined by *running* the program (the
environment is threaded through every statement, exactly as `runW`/`arunBody` do, so that a constructor that
consulted it could be added), never consult the environment, and

  `limb_leak_const : p.leakW env₁ = p.leakW env₂`,   `alg_leak_const : p.leak o ins₁ = p.leak o' ins₂`.

These two theorems are close to trivial and that is the point: their content is NOT in the proof but in the fact
that the translator `tools/rs2lean` *places* an item in this language.  An `if borrow != 0 { … }`, an early
`return`, a `match` on a value, a table access `t[x]` with non-literal `x`, a `while` loop — none of them has an
image in `E`/`FOp`, and the translator's "never guess" rule makes the translation FAIL (the item disappears from
`Dalek.Gen.*` and every theorem naming it stops compiling).

HONESTY NOTE on `sel` / `csel`.  `E.sel c a b` is the image of `subtle`'s `u64::conditional_select(&a, &b, c)`
(`a ^ (mask & (a ^ b))` with `mask = -(c as i64)` behind an optimisation barrier) and `FOp.csel` that of
`FieldElement::conditional_select/conditional_assign/conditional_negate` (the same mask arithmetic per limb).
Their *value* semantics (`evalW`, `FOps.csel`) is an `if`; their *leakage* semantics here evaluates BOTH arms and
emits the single opcode event `sel`: we MODEL them as data-independent, which is what the source (mask arithmetic)
says.  Whether the compiler keeps them branch-free is not a source-level fact; see the module doc of
`Dalek/Props/C10/NonInterference.lean` and `lib/special.py` (`extra_C10`) for the compiled artefact.
To show that the semantics is not blind, `BE` at the end of this file extends `E` with a genuine branch and with a
computed index; for it the trace DOES depend on the environment (`be_branch_leaks`, `be_index_leaks`).
-/
import Dalek.IR.Limb
import Dalek.IR.Alg

namespace Dalek.IR

/-- opcode of a LimbIR operation (everything but the operand sub-terms) -/
inductive LimbOp where
  | v (i : Nat) | c (n : Nat)
  | add (w : Nat) | sub (w : Nat) | mul (w : Nat)
  | wadd (w : Nat) | wsub (w : Nat) | wmul (w : Nat)
  | shr (k : Nat) | shl (w k : Nat)
  | band | bor | bxor
  | cast (w : Nat)
  | sel
  | set
deriving DecidableEq, Repr, Inhabited

/-- What one step of an execution reveals. -/
inductive LeakEvent where
  /-- outcome of a conditional jump -/
  | branch (b : Bool)
  /-- offset of a memory access whose address is computed -/
  | index (i : Nat)
  /-- trip count of a loop -/
  | loopLen (n : Nat)
  /-- pseudo-event: a LimbIR opcode was executed -/
  | limbOp (o : LimbOp)
  /-- pseudo-event: an AlgIR opcode was executed -/
  | algOp (o : FOp)
  /-- pseudo-event: a named routine was entered whose own leakage is accounted for elsewhere
  (a translated item, by `limb_leak_const`/`alg_leak_const`) or ASSUMED (SHA-512, outside the repository) -/
  | call (name : String)
deriving DecidableEq, Repr, Inhabited

abbrev Leak := List LeakEvent

/-! ## LimbIR -/

/-- Leakage of evaluating an expression in environment `env` (release semantics, post-order = evaluation order).
`sel` evaluates the condition and BOTH arms, then emits one `sel` opcode (mask arithmetic, see the module doc). -/
def E.leakW (env : List Nat) : E → Leak
  | .v i => [.limbOp (.v i)]
  | .c n => [.limbOp (.c n)]
  | .add w a b => a.leakW env ++ b.leakW env ++ [.limbOp (.add w)]
  | .sub w a b => a.leakW env ++ b.leakW env ++ [.limbOp (.sub w)]
  | .mul w a b => a.leakW env ++ b.leakW env ++ [.limbOp (.mul w)]
  | .wadd w a b => a.leakW env ++ b.leakW env ++ [.limbOp (.wadd w)]
  | .wsub w a b => a.leakW env ++ b.leakW env ++ [.limbOp (.wsub w)]
  | .wmul w a b => a.leakW env ++ b.leakW env ++ [.limbOp (.wmul w)]
  | .shr a k => a.leakW env ++ [.limbOp (.shr k)]
  | .shl w a k => a.leakW env ++ [.limbOp (.shl w k)]
  | .band a b => a.leakW env ++ b.leakW env ++ [.limbOp .band]
  | .bor a b => a.leakW env ++ b.leakW env ++ [.limbOp .bor]
  | .bxor a b => a.leakW env ++ b.leakW env ++ [.limbOp .bxor]
  | .cast w a => a.leakW env ++ [.limbOp (.cast w)]
  | .sel cnd a b => cnd.leakW env ++ a.leakW env ++ b.leakW env ++ [.limbOp .sel]

/-- The same trace computed from the program text alone. -/
def E.ops : E → Leak
  | .v i => [.limbOp (.v i)]
  | .c n => [.limbOp (.c n)]
  | .add w a b => a.ops ++ b.ops ++ [.limbOp (.add w)]
  | .sub w a b => a.ops ++ b.ops ++ [.limbOp (.sub w)]
  | .mul w a b => a.ops ++ b.ops ++ [.limbOp (.mul w)]
  | .wadd w a b => a.ops ++ b.ops ++ [.limbOp (.wadd w)]
  | .wsub w a b => a.ops ++ b.ops ++ [.limbOp (.wsub w)]
  | .wmul w a b => a.ops ++ b.ops ++ [.limbOp (.wmul w)]
  | .shr a k => a.ops ++ [.limbOp (.shr k)]
  | .shl w a k => a.ops ++ [.limbOp (.shl w k)]
  | .band a b => a.ops ++ b.ops ++ [.limbOp .band]
  | .bor a b => a.ops ++ b.ops ++ [.limbOp .bor]
  | .bxor a b => a.ops ++ b.ops ++ [.limbOp .bxor]
  | .cast w a => a.ops ++ [.limbOp (.cast w)]
  | .sel cnd a b => cnd.ops ++ a.ops ++ b.ops ++ [.limbOp .sel]

/-- Release build: `set e` evaluates `e` and stores a new SSA variable; `assertLt` is a `debug_assert!` and is
compiled out (in a DEBUG build it is a branch on data; C10 is about release builds). -/
def S.leakW (env : List Nat) : S → Leak
  | .set e => e.leakW env ++ [.limbOp .set]
  | .assertLt _ _ => []

def S.ops : S → Leak
  | .set e => e.ops ++ [.limbOp .set]
  | .assertLt _ _ => []

/-- Leakage of running a statement list: the environment is threaded exactly as in `runW`. -/
def leakBodyW : List S → List Nat → Leak
  | [], _ => []
  | s :: ss, env => s.leakW env ++ leakBodyW ss (s.stepW env)

def opsBody : List S → Leak
  | [] => []
  | s :: ss => s.ops ++ opsBody ss

/-- Leakage trace of a release-build execution of the kernel on inputs `ins`. -/
def Prog.leakW (p : Prog) (ins : List Nat) : Leak := leakBodyW p.body ins

/-- The opcode sequence of the program text. -/
def Prog.ops (p : Prog) : Leak := opsBody p.body

theorem E.leakW_eq_ops (env : List Nat) (e : E) : e.leakW env = e.ops := by
  induction e <;> simp_all [E.leakW, E.ops]

theorem S.leakW_eq_ops (env : List Nat) (s : S) : s.leakW env = s.ops := by
  cases s <;> simp [S.leakW, S.ops, E.leakW_eq_ops]

theorem leakBodyW_eq_ops (ss : List S) (env : List Nat) : leakBodyW ss env = opsBody ss := by
  induction ss generalizing env with
  | nil => rfl
  | cons s ss ih => simp [leakBodyW, opsBody, S.leakW_eq_ops, ih]

/-- The trace of a LimbIR kernel is its opcode sequence: a function of the program text only. -/
theorem Prog.leakW_eq_ops (p : Prog) (ins : List Nat) : p.leakW ins = p.ops :=
  leakBodyW_eq_ops p.body ins

/-- **LimbIR non-interference.**  Two executions of the same kernel on ANY two inputs (of any length, inside or
outside the bound contract) produce the same leakage trace. -/
theorem limb_leak_const (p : Prog) (env₁ env₂ : List Nat) : p.leakW env₁ = p.leakW env₂ := by
  rw [p.leakW_eq_ops, p.leakW_eq_ops]

/-- number of `sel` opcodes executed (`conditional_select` sites) -/
def Prog.selCount (p : Prog) : Nat := p.ops.count (.limbOp .sel)

/-! ## AlgIR -/

/-- Leakage of one AlgIR statement: its opcode; `pow2k k` additionally reveals the trip count `k` of its
squaring loop (`for _ in 0..k`), a literal of the program text. -/
def FOp.leak : FOp → Leak
  | .pow2k k => [.algOp (.pow2k k), .loopLen k]
  | op => [.algOp op]

/-- Leakage of running a statement list under interpretation `o`: the environment is threaded exactly as in
`arunBody`.  `csel` is one opcode (both arms are already-computed SSA values; see the module doc). -/
def aleakBody {V : Type} (o : FOps V) : List AStmt → List V → Leak
  | [], _ => []
  | s :: ss, env =>
      s.op.leak ++ aleakBody o ss (env ++ [o.apply s.op (s.args.map (fun i => env.getD i o.dflt))])

def aopsBody : List AStmt → Leak
  | [] => []
  | s :: ss => s.op.leak ++ aopsBody ss

/-- Leakage trace of an execution of the AlgIR item on inputs `ins` under interpretation `o`. -/
def AProg.leak {V : Type} (o : FOps V) (p : AProg) (ins : List V) : Leak := aleakBody o p.body ins

/-- The opcode sequence of the program text. -/
def AProg.ops (p : AProg) : Leak := aopsBody p.body

theorem aleakBody_eq_ops {V : Type} (o : FOps V) (ss : List AStmt) (env : List V) :
    aleakBody o ss env = aopsBody ss := by
  induction ss generalizing env with
  | nil => rfl
  | cons s ss ih => simp [aleakBody, aopsBody, ih]

theorem AProg.leak_eq_ops {V : Type} (o : FOps V) (p : AProg) (ins : List V) : p.leak o ins = p.ops :=
  aleakBody_eq_ops o p.body ins

/-- **AlgIR non-interference.**  Two executions of the same item on any two input vectors — even under two
different interpretations of the field signature (two backends) — produce the same leakage trace. -/
theorem alg_leak_const {V W : Type} (p : AProg) (o : FOps V) (o' : FOps W) (ins₁ : List V) (ins₂ : List W) :
    p.leak o ins₁ = p.leak o' ins₂ := by
  rw [p.leak_eq_ops, p.leak_eq_ops]

/-! ## Non-vacuity: a language WITH a branch and a computed index leaks

`BE` is not a translator target.  It only shows that the event vocabulary distinguishes executions as soon as the
syntax offers a data-dependent construct — i.e. that `limb_leak_const` is a statement about `E`, not about the
definition of `Leak`. -/

inductive BE where
  /-- a LimbIR expression -/
  | base (e : E)
  /-- `if c != 0 { a } else { b }` : a real branch, only one arm is executed -/
  | ite (c : E) (a b : BE)
  /-- `table[i]` with a computed `i` -/
  | load (table : List Nat) (i : E)

def BE.evalW (env : List Nat) : BE → Nat
  | .base e => e.evalW env
  | .ite c a b => if c.evalW env ≠ 0 then a.evalW env else b.evalW env
  | .load t i => t.getD (i.evalW env) 0

def BE.leakW (env : List Nat) : BE → Leak
  | .base e => e.leakW env
  | .ite c a b =>
      c.leakW env ++ [.branch (c.evalW env != 0)] ++ (if c.evalW env ≠ 0 then a.leakW env else b.leakW env)
  | .load _ i => i.leakW env ++ [.index (i.evalW env)]

/-- the pre-fix shape of `Scalar52::sub` (RUSTSEC-2024-0344): `if borrow != 0 { add l }` leaks the borrow -/
theorem be_branch_leaks :
    (BE.ite (.v 0) (.base (.c 1)) (.base (.c 0))).leakW [0] ≠ (BE.ite (.v 0) (.base (.c 1)) (.base (.c 0))).leakW [1] := by
  decide

/-- a table lookup with a secret index leaks the index -/
theorem be_index_leaks :
    (BE.load [10, 20, 30] (.v 0)).leakW [0] ≠ (BE.load [10, 20, 30] (.v 0)).leakW [2] := by
  decide

end Dalek.IR

import Lean
/-! Small tactics used by generated and hand-written proofs about LimbIR kernels.
They only build proof terms that the kernel re-checks; nothing here is trusted. -/
open Lean Elab Tactic Meta

/-- Close `lhs = rhs` with `Eq.refl lhs`, leaving the definitional-equality check to the kernel
(the elaborator's `rfl` is much slower on evaluation of deep-embedded programs). -/
elab "kernel_rfl" : tactic => do
  let g ← getMainGoal
  let t ← g.getType'
  let some (_, lhs, _) := t.eq? | throwError "kernel_rfl: not an equality"
  g.assign (← mkEqRefl lhs)

/-- For every local definition `x : ℤ := v` (as produced by `extract_lets`), add a hypothesis
`hx : x = v` and forget the value, oldest first.  The new hypotheses are collected at the end of the
context; their names are `hL_<n>`. -/
elab "lets_to_eqs" : tactic => withMainContext do
  let mut g ← getMainGoal
  let lctx ← getLCtx
  let mut fvars : Array FVarId := #[]
  for d in lctx do
    if d.isImplementationDetail then continue
    if d.isLet then fvars := fvars.push d.fvarId
  let mut i := 0
  -- later definitions first, so that no remaining value mentions a variable whose value is cleared
  for fv in fvars.reverse do
    let d ← g.withContext fv.getDecl
    let some v := d.value? | continue
    let eq ← g.withContext (mkEq d.toExpr v)
    let pf ← g.withContext (mkEqRefl d.toExpr)
    let (_, g') ← (← g.assert (Name.mkSimple s!"hL_{i}") eq pf).intro1P
    g := g'
    i := i + 1
  for fv in fvars.reverse do
    g ← g.clearValue fv
  replaceMainGoal [g]

/-- Replace every hypothesis `hL_i : x = v` over `ℤ` by its image under `Int.cast : ℤ → R`. -/
elab "cast_eqs " R:term : tactic => withMainContext do
  let lctx ← getLCtx
  for d in lctx do
    if d.isImplementationDetail then continue
    let n := d.userName
    if n.toString.startsWith "hL_" then
      let h := mkIdent n
      evalTactic (← `(tactic| replace $h := congrArg (Int.cast : Int → $R) $h))

/-
  Dalek.Driver.Codec — request/response syntax of PROTOCOL.md: hex, decimal integers, lists,
  responses.
-/

namespace Dalek.Driver

/-- A response line. -/
inductive Resp
  | ok (fields : List String)
  | none
  | err
  | badreq
  | badpoint
  | skip
  | errMsg (msg : String)

def Resp.toString : Resp → String
  | .ok [] => "ok"
  | .ok fs => "ok " ++ " ".intercalate fs
  | .none => "none"
  | .err => "err"
  | .badreq => "err badreq"
  | .badpoint => "err badpoint"
  | .skip => "skip"
  | .errMsg m => "err " ++ m

/-- Handlers run in `Except Resp`: throwing a response ends the request early. -/
abbrev M := Except Resp

def badreq {α} : M α := throw Resp.badreq

def hexDigit (n : Nat) : Char :=
  if n < 10 then Char.ofNat (48 + n) else Char.ofNat (87 + n)

def hexEncodeChars : List UInt8 → List Char
  | [] => []
  | b :: bs => hexDigit (b.toNat / 16) :: hexDigit (b.toNat % 16) :: hexEncodeChars bs

/-- Lower-case hex; the empty string is `-`. -/
def hexEncode (b : List UInt8) : String :=
  if b.isEmpty then "-" else String.ofList (hexEncodeChars b)

def hexVal (c : Char) : Option Nat :=
  if '0' ≤ c && c ≤ '9' then some (c.toNat - 48)
  else if 'a' ≤ c && c ≤ 'f' then some (c.toNat - 87)
  else none

def hexDecodeChars : List Char → Option (List UInt8)
  | [] => some []
  | [_] => none
  | a :: b :: rest =>
    match hexVal a, hexVal b, hexDecodeChars rest with
    | some x, some y, some r => some (UInt8.ofNat (16 * x + y) :: r)
    | _, _, _ => none

/-- HEX field: lower-case, even length, `-` = empty. -/
def hexDecode (s : String) : Option (List UInt8) :=
  if s == "-" then some [] else if s.isEmpty then none else hexDecodeChars s.toList

def decDigits : List Char → Nat → Option Nat
  | [], acc => some acc
  | c :: cs, acc => if '0' ≤ c && c ≤ '9' then decDigits cs (acc * 10 + (c.toNat - 48)) else none

/-- INT field: decimal with optional leading `-`. -/
def parseInt (s : String) : Option Int :=
  match s.toList with
  | [] => none
  | '-' :: ds => if ds.isEmpty then none else (decDigits ds 0).map fun n => - Int.ofNat n
  | ds => (decDigits ds 0).map Int.ofNat

def parseNat (s : String) : Option Nat :=
  match parseInt s with
  | some (Int.ofNat n) => if s.toList.head? == some '-' then none else some n
  | _ => none

/-- LIST field: items separated by `,`; the empty list is `-`. -/
def parseList (s : String) : List String :=
  if s == "-" then [] else s.splitOn ","

def fmtList (items : List String) : String :=
  if items.isEmpty then "-" else ",".intercalate items

def fmtBool (b : Bool) : String := if b then "1" else "0"

def fmtIntList (xs : List Int) : String := fmtList (xs.map toString)

/-! Argument decoders -/

def hexArg (s : String) : M (List UInt8) :=
  match hexDecode s with
  | some b => pure b
  | none => badreq

/-- HEX of exactly `n` bytes. -/
def bytesN (n : Nat) (s : String) : M (List UInt8) := do
  let b ← hexArg s
  if b.length == n then pure b else badreq

def intArg (s : String) : M Int :=
  match parseInt s with
  | some i => pure i
  | none => badreq

def natArg (s : String) : M Nat :=
  match parseNat s with
  | some n => pure n
  | none => badreq

/-- INT in `[lo, hi]`. -/
def natRange (lo hi : Nat) (s : String) : M Nat := do
  let n ← natArg s
  if lo ≤ n && n ≤ hi then pure n else badreq

def boolArg (s : String) : M Bool := do
  let n ← natArg s
  if n == 0 then pure false else if n == 1 then pure true else badreq

end Dalek.Driver

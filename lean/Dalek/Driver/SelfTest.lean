/-
  Dalek.Driver.SelfTest — known-answer tests for the model (op `selftest`).
  Sources: FIPS 180-4 examples, RFC 7748 §5.2/§6.1, RFC 8032 §7.1/§7.3, RFC 9496 appendix A and the
  vectors embedded in the tests of /repo (see SelfTestData.lean).
-/
import Dalek.Spec.Ed25519
import Dalek.Spec.Montgomery
import Dalek.Spec.Ristretto
import Dalek.Model.FastEdwards
import Dalek.Model.Recode
import Dalek.Model.Serde
import Dalek.Model.Group
import Dalek.Driver.Codec
import Dalek.Driver.Fast
import Dalek.Driver.SelfTestData

namespace Dalek.Driver.SelfTest
open Dalek.Spec Dalek.Model

-- The checks are closed terms: without this option the compiler would evaluate them all at
-- program start-up.
set_option compiler.extract_closed false

def h (s : String) : List UInt8 := (hexDecode s).getD []
def x (b : List UInt8) : String := hexEncode b

def iterX25519 : Nat → List UInt8 → List UInt8 → List UInt8
  | 0, k, _ => k
  | n + 1, k, u => iterX25519 n (x25519 k u) k

/-- RFC 9496 A.2 invalid encodings. -/
def risBad : List String := [
  -- non-canonical field encodings
  "00ffffffffffffffffffffffffffffffffffffffffffffffffffffffffffffff",
  "ffffffffffffffffffffffffffffffffffffffffffffffffffffffffffffff7f",
  "f3ffffffffffffffffffffffffffffffffffffffffffffffffffffffffffff7f",
  "edffffffffffffffffffffffffffffffffffffffffffffffffffffffffffff7f",
  -- negative field elements
  "0100000000000000000000000000000000000000000000000000000000000000",
  "01ffffffffffffffffffffffffffffffffffffffffffffffffffffffffffff7f",
  "ed57ffd8c914fb201471d1c3d245ce3c746fcbe63a3679d51b6a516ebebe0e20",
  "c34c4e1826e5d403b78e246e88aa051c36ccf0aafebffe137d148a2bf9104562",
  "c940e5a4404157cfb1628b108db051a8d439e1a421394ec4ebccb9ec92a8ac78",
  "47cfc5497c53dc8e61c91d17fd626ffb1c49e2bca94eed052281b510b1117a24",
  "f1c6165d33367351b0da8f6e4511010c68174a03b6581212c71c0e1d026c3c72",
  "87260f7a2f12495118360f02c26a470f450dadf34a413d21042b43b9d93e1309",
  -- non-square x^2
  "26948d35ca62e643e26a83177332e6b6afeb9d08e4268b650f1f5bbd8d81d371",
  "4eac077a713c57b4f4397629a4145982c661f48044dd3f96427d40b147d9742f",
  "de6a7b00deadc788eb6b6c8d20c0ae96c2f2019078fa604fee5b87d6e989ad7b",
  "bcab477be20861e01e4a0e295284146a510150d9817763caf1a6f4b422d67042",
  "2a292df7e32cababbd9de088d1d1abec9fc0440f637ed2fba145094dc14bea08",
  "f4a9e534fc0d216c44b218fa0c42d99635a0127ee2e53c712f70609649fdff22",
  "8268436f8c4126196cf64b3c7ddbda90746a378625f9813dd9b8457077256731",
  "2810e5cbc2cc4d4eece54f61c6f69758e289aa7ab440b3cbeaa21995c2f4232b",
  -- negative xy value
  "3eb858e78f5a7254d8c9731174a94f76755fd3941c0ac93735c07ba14579630e",
  "a45fdc55c76448c049a1ab33f17023edfb2be3581e9c7aade8a6125215e04220",
  "d483fe813c6ba647ebbfd3ec41adca1c6130c2beeee9d9bf065c8d151c5f396e",
  "8a2e1d30050198c65a54483123960ccc38aef6848e1ec8f5f780e8523769ba32",
  "32888462f8b486c68ad7dd9610be5192bbeaf3b443951ac1a8118419d9fa097b",
  "227142501b9d4355ccba290404bde41575b037693cef1f438c47f8fbf35d1165",
  "5c37cc491da847cfeb9281d407efc41e15144c876e0170b499a96a22ed31e01e",
  "445425117cb8c90edcbc7c1cc0e74f747f2c1efa5630a967c64f287792a48a4b",
  -- s = -1, which causes y = 0
  "ecffffffffffffffffffffffffffffffffffffffffffffffffffffffffffff7f" ]

def sumDigits (ds : List Int) (radix : Int) : Int := ds.foldr (fun d acc => d + radix * acc) 0

def testScalars : List String := [
  Data.aScalar,
  "0000000000000000000000000000000000000000000000000000000000000000",
  "0100000000000000000000000000000000000000000000000000000000000000",
  "ffffffffffffffffffffffffffffffffffffffffffffffffffffffffffffff7f",
  "ecd3f55c1a631258d69cf7a2def9de1400000000000000000000000000000010",
  "8888888888888888888888888888888888888888888888888888888888888808",
  "f7ffffffffffffff7f00000000000080ffffffffffffff7f0100000000000040" ]

def vkBase : String := "5866666666666666666666666666666666666666666666666666666666666666"
def json32 (extra : String) : List UInt8 :=
  ("[" ++ ",".intercalate ((h vkBase).map fun b => toString b.toNat) ++ extra ++ "]").toUTF8.toList

/-- All checks: `(name, thunk)`. -/
def checks : List (String × (Unit → Bool)) :=
  let ops := fastOps
  [ ("sha512.abc", fun (_ : Unit) => x (sha512 "abc".toUTF8.toList) ==
      "ddaf35a193617abacc417349ae20413112e6fa4e89a97ea20a9eeee64b55d39a2192992a274fc1a836ba3c23a3feebbd454d4423643ce80e2a9ac94fa54ca49f"),
    ("sha512.empty", fun (_ : Unit) => x (sha512 []) ==
      "cf83e1357eefb8bdf1542850d66d8007d620e4050b5715dc83f4a921d36ce9ce47d0d13c5d85f2b0ff8318d2877eec2f63b931bd47417a81a538327af927da3e"),
    ("sha512.896bit", fun (_ : Unit) => x (sha512
      "abcdefghbcdefghicdefghijdefghijkefghijklfghijklmghijklmnhijklmnoijklmnopjklmnopqklmnopqrlmnopqrsmnopqrstnopqrstu".toUTF8.toList) ==
      "8e959b75dae313da8cf4f72814fc143f8f7779c6eb9f7fa17299aeadb6889018501d289e4900f7e4331b99dec4b5433ac7d329eeb6dd26545e96e55b874be909"),
    ("field.sqrt_m1", fun (_ : Unit) => fsq SQRT_M1 == P - 1 && !isNeg SQRT_M1),
    ("field.d", fun (_ : Unit) => fmul D 121666 == fneg 121665),
    ("field.inv", fun (_ : Unit) => fmul 12345 (finv 12345) == 1 && finv 0 == 0),
    ("field.sqrt_ratio", fun (_ : Unit) =>
      sqrtRatioM1 4 1 == (true, 2) && sqrtRatioM1 0 7 == (true, 0) && sqrtRatioM1 5 0 == (false, 0)
      && (let (c, r) := sqrtRatioM1 2 1; !c && fsq r == fmul SQRT_M1 2 && !isNeg r)),
    ("edwards.basepoint", fun (_ : Unit) => onCurve B && fmul B.y 5 == 4 && !isNeg B.x && x (compress B) == vkBase),
    ("edwards.base2", fun (_ : Unit) =>
      x (compress (Pt.smul 2 B)) == "c9a3f86aae465f0e56513864510f3997561fa2c9e85ea21dc2292309f3cd6022"),
    ("edwards.base16", fun (_ : Unit) =>
      x (EPt.compress (EPt.mulByPow2 4 EPt.basepoint)) == "eb2767c137ab7ad8279c078eff116ab0786ead3a2e0f989f72c37f82f2969670"),
    ("edwards.a_times_b", fun (_ : Unit) =>
      x (EPt.compress (EPt.smul (leToNat (h Data.aScalar)) EPt.basepoint)) ==
        "ea27e26053df1b5956f14d5dec3c34c384a269b74cc3803ea8e2e7c9425e40a5"),
    ("edwards.fast_vs_spec", fun (_ : Unit) =>
      let n := 0x123456789abcdef0fedcba9876543210
      (EPt.smul n EPt.basepoint).toAffine == Pt.smul n B
      && (mulBaseFast n).toAffine == Pt.smul n B
      && (EPt.add (EPt.smul 5 EPt.basepoint) (EPt.torsion 3)).toAffine
           == Pt.add (Pt.smul 5 B) (eightTorsion.getD 3 Pt.zero)),
    ("edwards.order", fun (_ : Unit) => EPt.isTorsionFree EPt.basepoint && !EPt.isTorsionFree (EPt.torsion 1)
      && EPt.isSmallOrder (EPt.torsion 5) && !EPt.isSmallOrder EPt.basepoint),
    ("edwards.torsion", fun (_ : Unit) => eightTorsion.all onCurve &&
      (List.range 8).all fun i =>
        Pt.smul i (eightTorsion.getD 1 Pt.zero) == eightTorsion.getD i Pt.zero),
    ("edwards.decompress", fun (_ : Unit) =>
      (decompress (h vkBase)) == some B
      -- x = 0 with sign bit set is accepted
      && (decompress (h "0100000000000000000000000000000000000000000000000000000000000080")) == some ⟨0, 1⟩
      -- y = 2 is not on the curve
      && (decompress (h "0200000000000000000000000000000000000000000000000000000000000000")).isNone),
    ("x25519.vec1", fun (_ : Unit) =>
      x (x25519 (h "a546e36bf0527c9d3b16154b82465edd62144c0ac1fc5a18506a2244ba449ac4")
                (h "e6db6867583030db3594c1a424b15f7c726624ec26b3353b10a903a6d0ab1c4c")) ==
      "c3da55379de9c6908e94ea4df28d084f32eccf03491c71f754b4075577a28552"),
    ("x25519.vec2", fun (_ : Unit) =>
      x (x25519 (h "4b66e9d4d1b4673c5ad22691957d6af5c11b6421e0ea01d42ca4169e7918ba0d")
                (h "e5210f12786811d3f4b7959d0538ae2c31dbe7106fc03c3efc4cd549c715a493")) ==
      "95cbde9476e8907d7aade45cb4b873f88b595a68799fa152e6f8f7647aac7957"),
    ("x25519.iter1", fun (_ : Unit) => x (iterX25519 1 X25519_BASEPOINT X25519_BASEPOINT) ==
      "422c8e7a6227d7bca1350b3e2bb7279f7897b87bb6854b783c60e80311ae3079"),
    ("x25519.iter1000", fun (_ : Unit) => x (iterX25519 1000 X25519_BASEPOINT X25519_BASEPOINT) ==
      "684cf59ba83309552800ef566f2f4d3c1c3887c49360e3875f2eb94d99532c51"),
    ("x25519.dh", fun (_ : Unit) =>
      let a := h "77076d0a7318a57d3c16c17251b26645df4c2f87ebc0992ab177fba51db92c2a"
      let b := h "5dab087e624a8a4b79e17f8b83800ee66f3bb1292618b6fd1c2f8b27ff88e0eb"
      let pa := x25519 a X25519_BASEPOINT
      let pb := x25519 b X25519_BASEPOINT
      x pa == "8520f0098930a754748b7ddcb43ef75a0dbf3a0d26381af4eba4a98eaa9b4e6a"
      && x pb == "de9edb7d7b7dc1b4d35b61c2ece435373f8343c85b78674dadfc7e146f882b4f"
      && x (x25519 a pb) == "4a5d9d5ba4ce2de1728e3bf480350f25e07e21c947d19e3376f09b3c1e161742"
      && x25519 b pa == x25519 a pb
      -- the Edwards route gives the same public key
      && feToBytes (toMontgomery (mulBaseFast (clampedNat a)).toAffine) == pa),
    ("mont.to_edwards", fun (_ : Unit) =>
      toEdwards 9 false == some B && toEdwards (P - 1) false == none
      && toMontgomery B == 9 && toMontgomery Pt.zero == 0),
    ("mont.elligator", fun (_ : Unit) =>
      -- every output is on the Montgomery curve, i.e. converts to Edwards
      (List.range 20).all fun i => (toEdwards (elligatorEncode (i * 7919 + 1)) false).isSome),
    ("ed25519.vectors", fun (_ : Unit) => Data.ed25519.all fun (sk, pk, msg, sig) =>
      Ed25519.publicKeyWith ops (h sk) == h pk
      && Ed25519.signWith ops (h sk) (h msg) == h sig
      && Ed25519.verifyWith ops false false (h pk) (h msg) (h sig)
      && Ed25519.verifyWith ops false true (h pk) (h msg) (h sig)
      && Ed25519.verifyWith ops true true (h pk) (h msg) (h sig)
      && !Ed25519.verifyWith ops false false (h pk) (h msg ++ [0]) (h sig)),
    ("ed25519.spec_ops", fun (_ : Unit) =>
      match Data.ed25519.head? with
      | some (sk, pk, msg, sig) =>
        Ed25519.publicKey (h sk) == h pk && Ed25519.sign (h sk) (h msg) == h sig
        && Ed25519.verify false true (h pk) (h msg) (h sig)
      | none => false),
    ("ed25519.sha_abc", fun (_ : Unit) =>
      let sk := h "833fe62409237b9d62ec77587520911e9a759cec1d19755b7da901b96dca3d42"
      let pk := h "ec172b93ad5e563bf4932c70e1245034c35467ef2efd4d64ebf819683467e2bf"
      let msg := sha512 "abc".toUTF8.toList
      Ed25519.publicKeyWith ops sk == pk &&
      x (Ed25519.signWith ops sk msg) ==
        "dc2a4459e7369633a52b1bf277839a00201009a3efbf3ecb69bea2186c26b58909351fc9ac90b3ecfdfbc7c66431e0303dca179c138ac17ad9bef1177331a704"),
    ("ed25519.ph", fun (_ : Unit) =>
      let sk := h "833fe62409237b9d62ec77587520911e9a759cec1d19755b7da901b96dca3d42"
      let pk := h "ec172b93ad5e563bf4932c70e1245034c35467ef2efd4d64ebf819683467e2bf"
      let sig := h "98a70222f0b8121aa9d30f813d683f809e462b469c7ff87639499bb94e6dae4131f85042463c2a355a2003d062adf5aaa10b8c61e636062aaad11c2a26083406"
      Ed25519.signPhWith ops sk (h "616263") none == some sig
      && Ed25519.signPhWith ops sk (h "616263") (some []) == some sig
      && Ed25519.verifyPhWith ops false true pk (h "616263") none sig
      && !Ed25519.verifyPhWith ops false false pk (h "616263") (some [1]) sig
      -- contexts longer than 255 bytes are rejected
      && !Ed25519.verifyPhWith ops false false pk (h "616263") (some (List.replicate 256 0)) sig
      && (Ed25519.signPhWith ops sk (h "616263") (some (List.replicate 256 0))).isNone
      && !Ed25519.verifyWith ops false false pk (h "616263") sig),
    ("ed25519.scalar_checks", fun (_ : Unit) =>
      -- S = ℓ (non-canonical): rejected by default, accepted by the legacy rule (top 3 bits clear)
      let sL := h "edd3f55c1a631258d69cf7a2def9de1400000000000000000000000000000010"
      (Ed25519.checkScalar false sL).isNone && (Ed25519.checkScalar true sL).isSome
      && (Ed25519.checkScalar true (h "ffffffffffffffffffffffffffffffffffffffffffffffffffffffffffffff1f")).isSome
      && (Ed25519.checkScalar true (h "0000000000000000000000000000000000000000000000000000000000000020")).isNone),
    ("ed25519.batch", fun (_ : Unit) =>
      let vs := Data.ed25519.take 3
      let msgs := vs.map fun (_, _, m, _) => h m
      let sigs := vs.map fun (_, _, _, s) => h s
      let vks := vs.map fun (_, p, _, _) => h p
      Ed25519.verifyBatchWith ops false msgs sigs vks
      && !Ed25519.verifyBatchWith ops false msgs sigs (vks.take 2)
      && !Ed25519.verifyBatchWith ops false msgs sigs vks.reverse),
    ("ristretto.multiples", fun (_ : Unit) =>
      (List.range 16).all fun i =>
        let enc := Data.risMultiples.getD i ""
        x (risEncode (EPt.smul i EPt.basepoint)) == enc
        && x (Ristretto.encode (EPt.smul i EPt.basepoint).toAffine) == enc
        && (risDecode (h enc)).map (fun p => x (risEncode p)) == some enc),
    ("ristretto.bad_encodings", fun (_ : Unit) => risBad.all fun s => (Ristretto.decode (h s)).isNone),
    ("ristretto.elligator", fun (_ : Unit) =>
      (List.range 16).all fun i =>
        x (risEncode (risMap (feFromBytes (h (Data.elligatorIn.getD i ""))))) == Data.elligatorOut.getD i ""),
    ("ristretto.one_way_map", fun (_ : Unit) => Data.oneWayMap.all fun (i, o) =>
      x (risEncode (risFromUniform (h i))) == o
      && x (Ristretto.encode (Ristretto.fromUniformBytes (h i))) == o),
    ("ristretto.coset", fun (_ : Unit) =>
      let p := EPt.smul 12345 EPt.basepoint
      (List.range 4).all fun j =>
        risEncode (EPt.add p (EPt.torsion (2 * j))) == risEncode p && risEq (EPt.add p (EPt.torsion (2 * j))) p),
    ("ristretto.constants", fun (_ : Unit) =>
      fmul (fsq Ristretto.INVSQRT_A_MINUS_D) (fsub (fneg 1) D) == 1
      && fsq Ristretto.SQRT_AD_MINUS_ONE == fsub (fneg D) 1
      && Ristretto.ONE_MINUS_D_SQ == fsub 1 (fsq D)
      && Ristretto.D_MINUS_ONE_SQ == fsq (fsub D 1)),
    ("recode.naf_vector", fun (_ : Unit) => Recode.nonAdjacentForm (h Data.aScalar) 5 == Data.aNaf),
    ("recode.reconstruct", fun (_ : Unit) => testScalars.all fun s =>
      let b := h s
      let v := Int.ofNat (leToNat b)
      ([2, 3, 4, 5, 6, 7, 8].all fun w =>
        let naf := Recode.nonAdjacentForm b w
        naf.length == 256 && sumDigits naf 2 == v
        && naf.all fun d => d == 0 || (d % 2 != 0 && -(2 ^ (w - 1) : Int) < d && d < 2 ^ (w - 1)))
      && ([4, 5, 6, 7, 8].all fun w =>
        let ds := Recode.asRadix2w b w
        ds.length == 64 && sumDigits ds (2 ^ w) == v
        && (ds.drop (Recode.toRadix2wSizeHint w)).all (· == 0))
      && sumDigits (Recode.asRadix16 b) 16 == v
      && (Recode.asRadix16 b).all (fun d => -8 ≤ d && d ≤ 8)
      && (Recode.bitsLe b).foldr (fun bit acc => (if bit then 1 else 0) + 2 * acc) 0 == leToNat b),
    ("scalar.constants", fun (_ : Unit) =>
      spow Group.ROOT_OF_UNITY 4 == 1 && spow Group.ROOT_OF_UNITY 2 != 1
      && Group.ROOT_OF_UNITY == spow 2 ((L - 1) / 4)
      && smul Group.ROOT_OF_UNITY Group.ROOT_OF_UNITY_INV == 1
      && smul Group.TWO_INV 2 == 1 && Group.DELTA == spow 2 4
      && Group.TM1D2 == ((L - 1) / 4 - 1) / 2
      && x (natToLe Group.TWO_INV 32) == "f7e97a2e8d31092c6bce7b51ef7c6f0a00000000000000000000000000000008"
      && x (natToLe Group.ROOT_OF_UNITY 32) == "d407beebdf7587befe83ce425356f00e7ac2c1ab606d3d7de78179e010734a09"
      && x (natToLe Group.ROOT_OF_UNITY_INV 32) == "19cc37713aed8a99d71829608ba3ee05863d3e549f92c282187e861fef8cb506"),
    ("scalar.sqrt", fun (_ : Unit) =>
      ([1, 2, 3, 4, 5, 1234567, L - 1, L - 2].all fun a =>
        match Group.sqrt (smul a a) with
        | some r => r == a % L || r == sneg a
        | none => false)
      && Group.sqrt 0 == some 0
      -- exactly one of a, ROOT*a is a square for a ≠ 0
      && ([2, 3, 5, 7, 11].all fun a => (Group.sqrt a).isSome != (Group.sqrt (smul a Group.ROOT_OF_UNITY)).isSome)
      && Group.sqrtRatio 4 1 != (false, 0) && (Group.sqrtRatio 5 0) == (false, 0)
      && Group.invert 0 == none && (Group.invert 7).map (smul 7) == some 1),
    ("scalar.clamp", fun (_ : Unit) =>
      x (clampInteger (List.replicate 32 0xff)) == "f8ffffffffffffffffffffffffffffffffffffffffffffffffffffffffffff7f"
      && x (clampInteger (List.replicate 32 0)) == "0000000000000000000000000000000000000000000000000000000000000040"),
    ("serde.bincode", fun (_ : Unit) =>
      Serde.bincodeDe .scalar (h Data.aScalar) == .ok (h Data.aScalar)
      && Serde.bincodeDe .scalar (h Data.aScalar ++ [1, 2]) == .ok (h Data.aScalar)   -- trailing bytes allowed
      && Serde.bincodeDe .scalar ((h Data.aScalar).take 31) == .err
      && Serde.bincodeDe .scalar (List.replicate 32 0xff) == .err
      && x (Serde.bincodeSer .vk (h vkBase)) == "2000000000000000" ++ vkBase
      && Serde.bincodeDe .vk (h ("2000000000000000" ++ vkBase)) == .ok (h vkBase)
      && Serde.bincodeDe .vk (h ("2100000000000000" ++ vkBase ++ "00")) == .err
      && Serde.bincodeDe .vk (h vkBase) == .err
      && Serde.bincodeDe .edwards (h "0200000000000000000000000000000000000000000000000000000000000000") == .err
      && Serde.bincodeDe .sig (List.replicate 64 0xff) == .ok (List.replicate 64 0xff)),
    ("serde.json", fun (_ : Unit) =>
      Serde.jsonSer .scalar [1, 2, 255] == "[1,2,255]".toUTF8.toList
      && Serde.jsonDe .vk (json32 "") == .ok (h vkBase)
      && Serde.jsonDe .edwards (json32 "") == .ok (h vkBase)
      && Serde.jsonDe .edwards (" ".toUTF8.toList ++ json32 "" ++ " \n".toUTF8.toList) == .ok (h vkBase)
      && Serde.jsonDe .edwards (json32 ",1") == .err
      && Serde.jsonDe .edwards (json32 "" ++ [0x31]) == .err
      && Serde.jsonDe .vk (json32 ",1") == .err
      -- any continuation after the 32nd element is an error for VerifyingKey/SigningKey
      && Serde.jsonDe .vk (json32 ",300") == .err
      && Serde.jsonDe .vk (json32 ",") == .err
      && Serde.jsonDe .vk (json32 ",300,1") == .err
      && Serde.jsonDe .vk (json32 ",\"a\"") == .err
      && Serde.jsonDe .vk (json32 ",null") == .err
      && Serde.jsonDe .sk (json32 ",1.") == .err
      && Serde.jsonDe .vk (json32 ",[]") == .err
      && Serde.jsonDe .edwards (json32 ",null") == .err
      && Serde.jsonDe .scalar "[1,2]".toUTF8.toList == .err
      && Serde.jsonDe .scalar "[01]".toUTF8.toList == .err) ]

/-- Run all checks: `(number of checks, names of the failing ones)`. -/
def run (_ : Unit) : Nat × List String :=
  (checks.length, (checks.filter fun (_, t) => !t ()).map (·.1))

end Dalek.Driver.SelfTest

/-
  Dalek.Driver.Fast — the fast (extended-coordinate) instances used by the driver, and argument
  decoders for field elements, scalars and points.
-/
import Dalek.Spec.Ed25519
import Dalek.Spec.Montgomery
import Dalek.Spec.Ristretto
import Dalek.Model.FastEdwards
import Dalek.Driver.Codec

namespace Dalek.Driver
open Dalek.Spec Dalek.Model

/-- `[n]B` through a table of `2^i B` (one addition per set bit). -/
def basePowers : Array EPt := Id.run do
  let mut acc := EPt.basepoint
  let mut out : Array EPt := Array.mkEmpty 256
  for _ in [0:256] do
    out := out.push acc
    acc := EPt.double acc
  return out

def mulBaseFast (n : Nat) : EPt := Id.run do
  if n ≥ 2^256 then return EPt.smul n EPt.basepoint
  let mut acc := EPt.zero
  let mut m := n
  for i in [0:256] do
    if m == 0 then break
    if m % 2 == 1 then acc := EPt.add acc (basePowers.getD i EPt.zero)
    m := m / 2
  return acc

/-- Ed25519 group operations in extended coordinates. -/
def fastOps : Ed25519.Ops where
  mulBase n := EPt.compress (mulBaseFast n)
  dsm k A s := EPt.compress (EPt.add (EPt.smul k (EPt.neg (EPt.ofAffine A))) (mulBaseFast s))
  smallOrder p := EPt.isSmallOrder (EPt.ofAffine p)

/-! ### Ristretto on extended representatives -/

def risDecode (b : List UInt8) : Option EPt := (Ristretto.decode b).map EPt.ofAffine
def risEncode (p : EPt) : List UInt8 := Ristretto.encodeExt p.X p.Y p.Z p.T
def risMap (t : Nat) : EPt := let (X, Y, Z, T) := Ristretto.mapExt t; ⟨X, Y, Z, T⟩
def risFromUniform (b : List UInt8) : EPt :=
  EPt.add (risMap (feFromBytes (b.take 32))) (risMap (feFromBytes (b.drop 32)))
/-- `X₁Y₂ = Y₁X₂ ∨ Y₁Y₂ = X₁X₂` (projectively invariant form of RFC 9496 EQUALS). -/
def risEq (p q : EPt) : Bool :=
  fmul p.X q.Y == fmul p.Y q.X || fmul p.Y q.Y == fmul p.X q.X

/-! ### Argument decoders -/

def feArg (s : String) : M Nat := do return feFromBytes (← bytesN 32 s)
def feOut (a : Nat) : String := hexEncode (feToBytes a)

/-- Scalar argument, reduced with `from_bytes_mod_order`. -/
def scArg (s : String) : M Nat := do return leToNat (← bytesN 32 s) % L
def scOut (a : Nat) : String := hexEncode (natToLe (a % L) 32)

/-- Raw scalar argument: 32 bytes with bit 255 clear, not reduced. -/
def rawScBytes (s : String) : M (List UInt8) := do
  let b ← bytesN 32 s
  if signBit b then badreq else pure b
def rawScArg (s : String) : M Nat := do return leToNat (← rawScBytes s)

def ptArg (s : String) : M EPt := do
  match EPt.decompress (← bytesN 32 s) with
  | some p => pure p
  | none => throw Resp.badpoint

def risArg (s : String) : M EPt := do
  match risDecode (← bytesN 32 s) with
  | some p => pure p
  | none => throw Resp.badpoint

def ptOut (p : EPt) : String := hexEncode (EPt.compress p)
def risOut (p : EPt) : String := hexEncode (risEncode p)

end Dalek.Driver

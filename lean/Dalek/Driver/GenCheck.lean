import Dalek.Driver.Codec
import Dalek.Driver.Fast
import Dalek.Model.AlgNat
import Dalek.Model.Ladder
import Dalek.Gen.All
/-
  Dalek.Driver.GenCheck — second opinions computed from the TRANSLATED formulas (AlgIR items of `Dalek.Gen.Alg*`,
  run over canonical naturals with `natOps`) and from the hand models built on them (`Dalek.Model.Ladder`).
  For the ops below the driver answers from the specification; if the translated computation disagrees the response
  becomes `err gen-mismatch …`, which the comparator reports.  On the unchanged tree they agree (and are proved equal
  in Dalek/Props); after a source change this is the differential validation of the AlgIR translation.
-/
namespace Dalek.Driver.GenCheck
open Dalek.IR Dalek.Spec Dalek.Model Dalek.Driver

def fe (s : String) : Option Nat :=
  match hexDecode s with
  | some b => if b.length = 32 then some (feFromBytes b) else none
  | none => none

def by32 (s : String) : Option (List UInt8) :=
  match hexDecode s with
  | some b => if b.length = 32 then some b else none
  | none => none

def run (p : AProg) (ins : List Nat) : List Nat := p.run natOps ins

/-- the response the translated code would give, for the ops that have a translated counterpart -/
def alt (op : String) (args : List String) : Option String :=
  match op, args with
  | "fe.invert", [a] => (fe a).map fun x => "ok " ++ feOut ((run Dalek.Gen.AlgField.invert [x]).getD 0 0)
  | "fe.sqrt_ratio_i", [u, v] =>
      match fe u, fe v with
      | some x, some y =>
        let r := run Dalek.Gen.AlgField.sqrt_ratio_i [x, y]
        some ("ok " ++ fmtBool (r.getD 0 0 != 0) ++ " " ++ feOut (r.getD 1 0))
      | _, _ => none
  | "fe.invsqrt", [v] => (fe v).map fun y =>
      let r := run Dalek.Gen.AlgField.invsqrt [y]
      "ok " ++ fmtBool (r.getD 0 0 != 0) ++ " " ++ feOut (r.getD 1 0)
  | "mont.elligator", [r] => (fe r).map fun x => "ok " ++ feOut ((run Dalek.Gen.AlgMontgomery.elligator_encode [x]).getD 0 0)
  | "x.x25519", [k, u] =>
      match by32 k, by32 u with
      | some kb, some ub => some ("ok " ++ hexEncode (Dalek.Model.Ladder.dalekX25519 kb ub))
      | _, _ => none
  | "mont.mul_clamped", [u, k] =>
      match by32 k, by32 u with
      | some kb, some ub => some ("ok " ++ hexEncode (Dalek.Model.Ladder.mulClamped ub kb))
      | _, _ => none
  | _, _ => none

/-- combine the specification answer with the translated one -/
def reconcile (op : String) (args : List String) (specAnswer : String) : String :=
  match alt op args with
  | some a => if a == specAnswer then specAnswer else "err gen-mismatch spec=[" ++ specAnswer ++ "] translated=[" ++ a ++ "]"
  | none => specAnswer

end Dalek.Driver.GenCheck

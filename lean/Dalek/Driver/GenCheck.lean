import Dalek.Driver.Codec
import Dalek.Driver.Fast
import Dalek.Model.AlgNat
import Dalek.Model.Ladder
import Dalek.Model.RistrettoDalek
import Dalek.Model.ScalarApi
import Dalek.Gen.All
/-
  Dalek.Driver.GenCheck — second opinions computed from the TRANSLATED formulas (AlgIR items of `Dalek.Gen.Alg*`,
  run over canonical naturals with `natOps`) and from the hand models built on them (`Dalek.Model.Ladder`).
  For the ops below the driver answers from the specification; if the translated computation disagrees the response
  becomes `err gen-mismatch …`, which the comparator reports.  On the unchanged tree they agree (and are proved equal
  in Dalek/Props); after a source change this is the differential validation of the AlgIR translation.
-/
namespace Dalek.Driver.GenCheck
open Dalek.IR Dalek.Spec Dalek.Model Dalek.Driver

def fe (s : String) : Option Nat :=
  match hexDecode s with
  | some b => if b.length = 32 then some (feFromBytes b) else none
  | none => none

def by32 (s : String) : Option (List UInt8) :=
  match hexDecode s with
  | some b => if b.length = 32 then some b else none
  | none => none

def run (p : AProg) (ins : List Nat) : List Nat := p.run natOps ins

/-! ### vector field: translated lane kernels (`Dalek.Gen.Avx2Field`), release semantics -/

def limbs5 (s : String) : Option (List Nat) :=
  match (parseList s).mapM parseNat with
  | some l => if l.length = 5 ∧ l.all (· < 2 ^ 64) then some l else none
  | none => none

def lanes (args : List String) : Option (List Nat) := (args.mapM limbs5).map List.flatten

def chunks5 (l : List Nat) : List (List Nat) :=
  [l.take 5, (l.drop 5).take 5, (l.drop 10).take 5, (l.drop 15).take 5]

/-- split a 40-lane vector and encode the four field elements canonically with the translated serial `as_bytes` -/
def avx2Out (v : List Nat) : String :=
  let parts := chunks5 (Dalek.Gen.Avx2Field.split.evalW v)
  "ok " ++ " ".intercalate (parts.map fun l => hexEncode ((Dalek.Gen.Field51.as_bytes.evalW l).map UInt8.ofNat))

def avx2New (args : List String) : Option (List Nat) := (lanes args).map Dalek.Gen.Avx2Field.new.evalW

def altVec (name : String) (args : List String) : Option String :=
  match name, args.length with
  | "roundtrip", 4 => (avx2New args).map avx2Out
  | "reduce", 4 => (avx2New args).map fun v => avx2Out (Dalek.Gen.Avx2Field.reduce.evalW v)
  | "neg", 4 => (avx2New args).map fun v => avx2Out (Dalek.Gen.Avx2Field.neg.evalW v)
  | "negate_lazy", 4 => (avx2New args).map fun v => avx2Out (Dalek.Gen.Avx2Field.negate_lazy.evalW v)
  | "diff_sum", 4 => (avx2New args).map fun v => avx2Out (Dalek.Gen.Avx2Field.diff_sum.evalW v)
  | "square", 4 => (avx2New args).map fun v => avx2Out (Dalek.Gen.Avx2Field.square_and_negate_D.evalW v)
  | "mul", 8 =>
      match avx2New (args.take 4), avx2New (args.drop 4) with
      | some x, some y => some (avx2Out (Dalek.Gen.Avx2Field.mul.evalW (x ++ y)))
      | _, _ => none
  | "add", 8 =>
      match avx2New (args.take 4), avx2New (args.drop 4) with
      | some x, some y => some (avx2Out (Dalek.Gen.Avx2Field.add.evalW (x ++ y)))
      | _, _ => none
  | _, _ => none


/-! ### scalars: the hand-transcribed `Scalar` API (`Dalek.Model.ScalarApi`) composed of the TRANSLATED `Scalar52` kernels -/

def scB (s : String) : Option (List Nat) :=
  (by32 s).map fun b => Dalek.Model.ScalarApi.fromBytesModOrder (b.map UInt8.toNat)

def scH (b : List Nat) : String := hexEncode (b.map UInt8.ofNat)

def altScalar (op : String) (args : List String) : Option String :=
  match op, args with
  | "sc.reduce", [a] => (scB a).map fun x => "ok " ++ scH x
  | "sc.reduce_wide", [a] =>
      match hexDecode a with
      | some b => if b.length = 64 then some ("ok " ++ scH (Dalek.Model.ScalarApi.fromBytesModOrderWide (b.map UInt8.toNat))) else none
      | none => none
  | "sc.canonical", [a] => (by32 a).map fun b =>
      match Dalek.Model.ScalarApi.fromCanonicalBytes (b.map UInt8.toNat) with
      | some x => "ok " ++ scH x
      | none => "none"
  | "sc.add", [a, b] => match scB a, scB b with
      | some x, some y => some ("ok " ++ scH (Dalek.Model.ScalarApi.add x y)) | _, _ => none
  | "sc.sub", [a, b] => match scB a, scB b with
      | some x, some y => some ("ok " ++ scH (Dalek.Model.ScalarApi.sub x y)) | _, _ => none
  | "sc.mul", [a, b] => match scB a, scB b with
      | some x, some y => some ("ok " ++ scH (Dalek.Model.ScalarApi.mul x y)) | _, _ => none
  | "sc.neg", [a] => (scB a).map fun x => "ok " ++ scH (Dalek.Model.ScalarApi.neg x)
  | "sc.invert", [a] => (scB a).map fun x => "ok " ++ scH (Dalek.Model.ScalarApi.invert x)
  | "sc.sum", [l] => ((parseList l).mapM scB).map fun xs => "ok " ++ scH (Dalek.Model.ScalarApi.sum xs)
  | "sc.product", [l] => ((parseList l).mapM scB).map fun xs => "ok " ++ scH (Dalek.Model.ScalarApi.product xs)
  | "sc.batch_invert", [l] => ((parseList l).mapM scB).map fun xs =>
      let (outs, ret) := Dalek.Model.ScalarApi.batchInvert xs
      "ok " ++ scH ret ++ " " ++ fmtList (outs.map scH)
  | _, _ => none

/-! ### vector point formulas: the lane-scalarised AlgIR items of `Dalek.Gen.AlgAvx2Edwards` / `AlgIfmaEdwards` -/

/-- `natOps` with the constant table of the two vector modules (the shared 14 entries, then 121666, 243330, 243332) -/
def natOpsV : FOps Nat := { natOps with const := fun i => (algConstTable ++ [121666, 243330, 243332]).getD i 0 }

def ext4 (s : String) : Option (List Nat) :=
  match by32 s with
  | some b => (EPt.decompress b).map fun p => [p.X, p.Y, p.Z, p.T]
  | none => none

def out4 (r : List Nat) : String := "ok " ++ ptOut ⟨r.getD 0 0, r.getD 1 0, r.getD 2 1, r.getD 3 0⟩

structure VecItems where
  dbl : AProg
  add : AProg
  sub : AProg
  cached : AProg
  fromEd : AProg
  toEd : AProg

def avx2Items : VecItems := ⟨Dalek.Gen.AlgAvx2Edwards.ExtendedPoint_double, Dalek.Gen.AlgAvx2Edwards.ExtendedPoint_add_CachedPoint,
  Dalek.Gen.AlgAvx2Edwards.ExtendedPoint_sub_CachedPoint, Dalek.Gen.AlgAvx2Edwards.CachedPoint_from_ExtendedPoint,
  Dalek.Gen.AlgAvx2Edwards.ExtendedPoint_from_EdwardsPoint, Dalek.Gen.AlgAvx2Edwards.EdwardsPoint_from_ExtendedPoint⟩
def ifmaItems : VecItems := ⟨Dalek.Gen.AlgIfmaEdwards.ExtendedPoint_double, Dalek.Gen.AlgIfmaEdwards.ExtendedPoint_add_CachedPoint,
  Dalek.Gen.AlgIfmaEdwards.ExtendedPoint_sub_CachedPoint, Dalek.Gen.AlgIfmaEdwards.CachedPoint_from_ExtendedPoint,
  Dalek.Gen.AlgIfmaEdwards.ExtendedPoint_from_EdwardsPoint, Dalek.Gen.AlgIfmaEdwards.EdwardsPoint_from_ExtendedPoint⟩

/-- `ed.direct.<avx2|ifma>.<double|add|sub>` computed by the translated parallel formulas (the same composition as the hooks:
`EdwardsPoint → ExtendedPoint`, `CachedPoint::from` for the second operand, the formula, and back) -/
def altDirect (it : VecItems) (alg : String) (args : List String) : Option String :=
  let rv := fun (p : AProg) (ins : List Nat) => p.run natOpsV ins
  match alg, args with
  | "double", [P] => (ext4 P).map fun p => out4 (rv it.toEd (rv it.dbl (rv it.fromEd p)))
  | "add", [P, Q] =>
      match ext4 P, ext4 Q with
      | some p, some q => some (out4 (rv it.toEd (rv it.add (rv it.fromEd p ++ rv it.cached (rv it.fromEd q)))))
      | _, _ => none
  | "sub", [P, Q] =>
      match ext4 P, ext4 Q with
      | some p, some q => some (out4 (rv it.toEd (rv it.sub (rv it.fromEd p ++ rv it.cached (rv it.fromEd q)))))
      | _, _ => none
  | _, _ => none

/-- the response the translated code would give, for the ops that have a translated counterpart -/
def alt (op : String) (args : List String) : Option String :=
  match op, args with
  | "fe.invert", [a] => (fe a).map fun x => "ok " ++ feOut ((run Dalek.Gen.AlgField.invert [x]).getD 0 0)
  | "fe.sqrt_ratio_i", [u, v] =>
      match fe u, fe v with
      | some x, some y =>
        let r := run Dalek.Gen.AlgField.sqrt_ratio_i [x, y]
        some ("ok " ++ fmtBool (r.getD 0 0 != 0) ++ " " ++ feOut (r.getD 1 0))
      | _, _ => none
  | "fe.invsqrt", [v] => (fe v).map fun y =>
      let r := run Dalek.Gen.AlgField.invsqrt [y]
      "ok " ++ fmtBool (r.getD 0 0 != 0) ++ " " ++ feOut (r.getD 1 0)
  | "mont.elligator", [r] => (fe r).map fun x => "ok " ++ feOut ((run Dalek.Gen.AlgMontgomery.elligator_encode [x]).getD 0 0)
  | "x.x25519", [k, u] =>
      match by32 k, by32 u with
      | some kb, some ub => some ("ok " ++ hexEncode (Dalek.Model.Ladder.dalekX25519 kb ub))
      | _, _ => none
  | "mont.mul_clamped", [u, k] =>
      match by32 k, by32 u with
      | some kb, some ub => some ("ok " ++ hexEncode (Dalek.Model.Ladder.mulClamped ub kb))
      | _, _ => none
  | "ris.decompress", [b] =>
      (by32 b).map fun bb =>
        match Dalek.Model.RistrettoDalek.decompress bb with
        | some p => "ok " ++ hexEncode (Dalek.Model.RistrettoDalek.compress p)
        | none => "none"
  | "ris.from_uniform", [b] =>
      match hexDecode b with
      | some bb => if bb.length = 64 then
          some ("ok " ++ hexEncode (Dalek.Model.RistrettoDalek.compress (Dalek.Model.RistrettoDalek.fromUniformBytes bb))) else none
      | none => none
  | "ris.elligator", [r] => (fe r).map fun x =>
      "ok " ++ hexEncode (Dalek.Model.RistrettoDalek.compress (Dalek.Model.RistrettoDalek.elligator x))
  | "ris.double_compress_batch", [l] =>
      match (parseList l).mapM (fun h => (by32 h).bind Dalek.Model.RistrettoDalek.decompress) with
      | some ps => some ("ok " ++ fmtList ((Dalek.Model.RistrettoDalek.doubleAndCompressBatch ps).map hexEncode))
      | none => none
  | _, _ =>
    match op.splitOn "." with
    | ["vfel", "avx2", name] => altVec name args
    | "sc" :: _ => altScalar op args
    | ["ed", "direct", "avx2", alg] => altDirect avx2Items alg args
    | ["ed", "direct", "ifma", alg] => altDirect ifmaItems alg args
    | _ => none

/-- combine the specification answer with the translated one -/
def reconcile (op : String) (args : List String) (specAnswer : String) : String :=
  match alt op args with
  | some a => if a == specAnswer then specAnswer else "err gen-mismatch spec=[" ++ specAnswer ++ "] translated=[" ++ a ++ "]"
  | none => specAnswer

end Dalek.Driver.GenCheck

/- Dalek.Driver.All — all modules of the executable model and its driver. -/
import Dalek.Spec.Field
import Dalek.Spec.Scalar
import Dalek.Spec.Edwards
import Dalek.Spec.Montgomery
import Dalek.Spec.Ristretto
import Dalek.Spec.Sha512
import Dalek.Spec.Ed25519
import Dalek.Model.FastEdwards
import Dalek.Model.Recode
import Dalek.Model.Serde
import Dalek.Model.Group
import Dalek.Driver.Codec
import Dalek.Driver.Raw
import Dalek.Driver.Fast
import Dalek.Driver.SelfTestData
import Dalek.Driver.SelfTest
import Dalek.Driver.Ops

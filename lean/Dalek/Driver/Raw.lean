/-
  Dalek.Driver.Raw — raw-limb ops (`felW.*`, `felvW.*`, `sclW.*`).  STUB: returns `none`, which the
  driver turns into `skip`.  To be filled in from the generated LimbIR.
-/

namespace Dalek.Driver.Raw

/-- `rawOp op args` = the full response line for a raw-limb op, or `none` if not served. -/
def rawOp (_op : String) (_args : List String) : Option String := none

end Dalek.Driver.Raw

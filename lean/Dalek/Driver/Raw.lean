import Dalek.Driver.Codec
import Dalek.Spec.Field
import Dalek.Spec.Scalar
import Dalek.Gen.All
/-
  Dalek.Driver.Raw — raw-limb ops (`felW.*`, `felvW.*`, `sclW.*`).

  * `felW.*` / `sclW.*` execute the TRANSLATED kernels (`Dalek.Gen.*`, release semantics `evalW`) on the raw
    limbs: comparing with the hook output limb-for-limb is the translation validation of `rs2lean`.
  * `felvW.*` are answered from the SPECIFICATION (value of the limb vector mod p, then the field operation):
    comparing with the real code's canonical bytes is the value-level differential for unreduced inputs.
-/
namespace Dalek.Driver.Raw
open Dalek.IR Dalek.Spec Dalek.Driver

def natList (s : String) : Option (List Nat) := (parseList s).mapM parseNat
def fmtNats (xs : List Nat) : String := fmtList (xs.map toString)
def okNats (xs : List Nat) : Option String := some ("ok " ++ fmtNats xs)
def okHex (xs : List Nat) : Option String := some ("ok " ++ hexEncode (xs.map UInt8.ofNat))
def bad : Option String := some "err badreq"

def bytesArg (n : Nat) (s : String) : Option (List Nat) :=
  match hexDecode s with
  | some b => if b.length = n then some (b.map UInt8.toNat) else none
  | none => none

def iter (f : List Nat → List Nat) : Nat → List Nat → List Nat
  | 0, x => x
  | n + 1, x => iter f n (f x)

def iterN (f : Nat → Nat) : Nat → Nat → Nat
  | 0, x => x
  | n + 1, x => iterN f n (f x)

structure FieldK where
  n : Nat
  lim : Nat            -- exclusive bound of each input limb (type width)
  add : Prog
  sub : Prog
  mul : Prog
  neg : Prog
  reduce : Prog
  fromBytes : Prog
  asBytes : Prog
  square : List Nat → List Nat
  square2 : List Nat → List Nat
  powBody : List Nat → List Nat   -- one iteration of the `pow2k` loop
  weight : Nat → Nat   -- bit position of limb i

def f51 : FieldK :=
  { n := 5, lim := 2 ^ 64,
    add := Dalek.Gen.Field51.add, sub := Dalek.Gen.Field51.sub, mul := Dalek.Gen.Field51.mul,
    neg := Dalek.Gen.Field51.neg, reduce := Dalek.Gen.Field51.reduce,
    fromBytes := Dalek.Gen.Field51.from_bytes, asBytes := Dalek.Gen.Field51.as_bytes,
    square := Dalek.Gen.Field51.pow2k_body.evalW,
    square2 := fun a => Dalek.Gen.Field51.square2_tail.evalW (Dalek.Gen.Field51.pow2k_body.evalW a),
    powBody := Dalek.Gen.Field51.pow2k_body.evalW,
    weight := fun i => 51 * i }

def f26 : FieldK :=
  { n := 10, lim := 2 ^ 32,
    add := Dalek.Gen.Field26.add, sub := Dalek.Gen.Field26.sub, mul := Dalek.Gen.Field26.mul,
    neg := Dalek.Gen.Field26.neg, reduce := Dalek.Gen.Field26.reduce,
    fromBytes := Dalek.Gen.Field26.from_bytes, asBytes := Dalek.Gen.Field26.as_bytes,
    square := Dalek.Gen.Field26.square.evalW,
    square2 := Dalek.Gen.Field26.square2.evalW,
    powBody := Dalek.Gen.Field26.pow2k_body.evalW,
    weight := fun i => (51 * i + 1) / 2 }

/-- the fiat u64 wrapper backend: every method is the TRANSLATED wrapper with the fiat-crypto functions inlined
(`Dalek.Gen.FiatField51`); served as `felF51.*` by fiat drivers only, compared limb for limb -/
def fF51 : FieldK :=
  { n := 5, lim := 2 ^ 64,
    add := Dalek.Gen.FiatField51.add, sub := Dalek.Gen.FiatField51.sub, mul := Dalek.Gen.FiatField51.mul,
    neg := Dalek.Gen.FiatField51.neg, reduce := Dalek.Gen.FiatField51.reduce,
    fromBytes := Dalek.Gen.FiatField51.from_bytes, asBytes := Dalek.Gen.FiatField51.as_bytes,
    square := Dalek.Gen.FiatField51.square.evalW, square2 := Dalek.Gen.FiatField51.square2.evalW,
    powBody := Dalek.Gen.FiatField51.pow2k_body.evalW,
    weight := fun i => 51 * i }

/-- the fiat u32 wrapper backend (`Dalek.Gen.FiatField26`; it has no `reduce`) -/
def fF26 : FieldK :=
  { n := 10, lim := 2 ^ 32,
    add := Dalek.Gen.FiatField26.add, sub := Dalek.Gen.FiatField26.sub, mul := Dalek.Gen.FiatField26.mul,
    neg := Dalek.Gen.FiatField26.neg, reduce := Dalek.Gen.FiatField26.neg,
    fromBytes := Dalek.Gen.FiatField26.from_bytes, asBytes := Dalek.Gen.FiatField26.as_bytes,
    square := Dalek.Gen.FiatField26.square.evalW, square2 := Dalek.Gen.FiatField26.square2.evalW,
    powBody := Dalek.Gen.FiatField26.pow2k_body.evalW,
    weight := fun i => (51 * i + 1) / 2 }

def limbsArg (k : FieldK) (s : String) : Option (List Nat) :=
  match natList s with
  | some l => if l.length = k.n ∧ l.all (· < k.lim) then some l else none
  | none => none

def valueOf (k : FieldK) (l : List Nat) : Nat :=
  ((List.range k.n).zip l).foldl (fun acc (i, x) => acc + x * 2 ^ k.weight i) 0

def fieldOp (k : FieldK) (valueLevel : Bool) (op : String) (args : List String) : Option String :=
  let out (limbs : List Nat) (spec : Nat) : Option String :=
    if valueLevel then some ("ok " ++ hexEncode (feToBytes spec)) else okNats limbs
  match op, args with
  | "add", [a, b] => match limbsArg k a, limbsArg k b with
      | some x, some y => out (k.add.evalW (x ++ y)) (fadd (valueOf k x) (valueOf k y)) | _, _ => bad
  | "sub", [a, b] => match limbsArg k a, limbsArg k b with
      | some x, some y => out (k.sub.evalW (x ++ y)) (fsub (valueOf k x) (valueOf k y)) | _, _ => bad
  | "mul", [a, b] => match limbsArg k a, limbsArg k b with
      | some x, some y => out (k.mul.evalW (x ++ y)) (fmul (valueOf k x) (valueOf k y)) | _, _ => bad
  | "neg", [a] => match limbsArg k a with
      | some x => out (k.neg.evalW x) (fneg (valueOf k x)) | _ => bad
  | "square", [a] => match limbsArg k a with
      | some x => out (k.square x) (fsq (valueOf k x)) | _ => bad
  | "square2", [a] => match limbsArg k a with
      | some x => out (k.square2 x) (fmul 2 (fsq (valueOf k x))) | _ => bad
  | "pow2k", [a, n] => match limbsArg k a, parseNat n with
      | some x, some j => if 1 ≤ j ∧ j ≤ 300 then out (iter k.powBody j x) (iterN fsq j (valueOf k x % P)) else bad
      | _, _ => bad
  | "from_bytes", [b] => match bytesArg 32 b with
      | some x => out (k.fromBytes.evalW x) (feFromBytes (x.map UInt8.ofNat)) | _ => bad
  | "as_bytes", [a] => match limbsArg k a with
      | some x => if valueLevel then some ("ok " ++ hexEncode (feToBytes (valueOf k x))) else okHex (k.asBytes.evalW x)
      | _ => bad
  | "reduce", _ => none
  | _, _ => bad

structure ScalarK where
  n : Nat
  w : Nat              -- limb width in bits
  wide : Nat           -- number of limbs of mul_internal output
  fromBytes : Prog
  fromBytesWide : Prog
  asBytes : Prog
  add : Prog
  sub : Prog
  mul : Prog
  square : Prog
  mulInternal : Prog
  squareInternal : Prog
  montgomeryReduce : Prog
  montgomeryMul : Prog
  montgomerySquare : Prog
  asMontgomery : Prog
  fromMontgomery : Prog
  rBits : Nat          -- Montgomery radix R = 2^rBits

def s52 : ScalarK :=
  { n := 5, w := 52, wide := 9, rBits := 260,
    fromBytes := Dalek.Gen.Scalar52.from_bytes, fromBytesWide := Dalek.Gen.Scalar52.from_bytes_wide,
    asBytes := Dalek.Gen.Scalar52.as_bytes, add := Dalek.Gen.Scalar52.add, sub := Dalek.Gen.Scalar52.sub,
    mul := Dalek.Gen.Scalar52.mul, square := Dalek.Gen.Scalar52.square,
    mulInternal := Dalek.Gen.Scalar52.mul_internal, squareInternal := Dalek.Gen.Scalar52.square_internal,
    montgomeryReduce := Dalek.Gen.Scalar52.montgomery_reduce, montgomeryMul := Dalek.Gen.Scalar52.montgomery_mul,
    montgomerySquare := Dalek.Gen.Scalar52.montgomery_square, asMontgomery := Dalek.Gen.Scalar52.as_montgomery,
    fromMontgomery := Dalek.Gen.Scalar52.from_montgomery }

def s29 : ScalarK :=
  { n := 9, w := 29, wide := 17, rBits := 261,
    fromBytes := Dalek.Gen.Scalar29.from_bytes, fromBytesWide := Dalek.Gen.Scalar29.from_bytes_wide,
    asBytes := Dalek.Gen.Scalar29.as_bytes, add := Dalek.Gen.Scalar29.add, sub := Dalek.Gen.Scalar29.sub,
    mul := Dalek.Gen.Scalar29.mul, square := Dalek.Gen.Scalar29.square,
    mulInternal := Dalek.Gen.Scalar29.mul_internal, squareInternal := Dalek.Gen.Scalar29.square_internal,
    montgomeryReduce := Dalek.Gen.Scalar29.montgomery_reduce, montgomeryMul := Dalek.Gen.Scalar29.montgomery_mul,
    montgomerySquare := Dalek.Gen.Scalar29.montgomery_square, asMontgomery := Dalek.Gen.Scalar29.as_montgomery,
    fromMontgomery := Dalek.Gen.Scalar29.from_montgomery }

def sLimbs (_k : ScalarK) (cnt : Nat) (lim : Nat) (s : String) : Option (List Nat) :=
  match natList s with
  | some l => if l.length = cnt ∧ l.all (· < lim) then some l else none
  | none => none

def sValue (k : ScalarK) (l : List Nat) : Nat :=
  ((List.range l.length).zip l).foldl (fun acc (i, x) => acc + x * 2 ^ (k.w * i)) 0

def sUnpack (k : ScalarK) (v : Nat) : List Nat :=
  (List.range k.n).map (fun i => (v / 2 ^ (k.w * i)) % 2 ^ k.w)

def scalarOp (k : ScalarK) (op : String) (args : List String) : Option String :=
  let lim := if k.w = 52 then 2 ^ 64 else 2 ^ 32
  let limW := if k.w = 52 then 2 ^ 128 else 2 ^ 64
  let un (p : Prog) (a : String) : Option String :=
    match sLimbs k k.n lim a with | some x => okNats (p.evalW x) | none => bad
  let bin (p : Prog) (a b : String) : Option String :=
    match sLimbs k k.n lim a, sLimbs k k.n lim b with
    | some x, some y => okNats (p.evalW (x ++ y)) | _, _ => bad
  match op, args with
  | "from_bytes", [b] => match bytesArg 32 b with | some x => okNats (k.fromBytes.evalW x) | none => bad
  | "from_bytes_wide", [b] => match bytesArg 64 b with | some x => okNats (k.fromBytesWide.evalW x) | none => bad
  | "as_bytes", [a] => match sLimbs k k.n lim a with | some x => okHex (k.asBytes.evalW x) | none => bad
  | "add", [a, b] => bin k.add a b
  | "sub", [a, b] => bin k.sub a b
  | "mul", [a, b] => bin k.mul a b
  | "mul_internal", [a, b] => bin k.mulInternal a b
  | "montgomery_mul", [a, b] => bin k.montgomeryMul a b
  | "square", [a] => un k.square a
  | "square_internal", [_] => none
  | "montgomery_square", [a] => un k.montgomerySquare a
  | "as_montgomery", [a] => un k.asMontgomery a
  | "from_montgomery", [a] => un k.fromMontgomery a
  | "montgomery_reduce", [a] => match sLimbs k k.wide limW a with
      | some x => okNats (k.montgomeryReduce.evalW x) | none => bad
  -- the two inversion chains are hand models over the kernels (AlgIR); value-level specification here
  | "invert", [a] => match sLimbs k k.n lim a with
      | some x => okNats (sUnpack k (sinv (sValue k x))) | none => bad
  | "montgomery_invert", [a] => match sLimbs k k.n lim a with
      | some x => okNats (sUnpack k (smul (sinv (sValue k x)) (smul (2 ^ k.rBits % L) (2 ^ k.rBits % L)))) | none => bad
  | _, _ => bad

/-- `rawOp op args` = the full response line for a raw-limb op, or `none` if not served. -/
def rawOp (op : String) (args : List String) : Option String :=
  match op.splitOn "." with
  | ["fel51", o] => fieldOp f51 false o args
  | ["fel26", o] => fieldOp f26 false o args
  | ["felv51", o] => fieldOp f51 true o args
  | ["felv26", o] => fieldOp f26 true o args
  | ["felF51", o] => fieldOp fF51 false o args
  | ["felF26", o] => fieldOp fF26 false o args
  | ["scl52", o] => scalarOp s52 o args
  | ["scl29", o] => scalarOp s29 o args
  | _ => none

end Dalek.Driver.Raw
